import SSVerif.Model.FlatNet
import SSVerif.Model.SearchLex
/-!
# C02 ∘ M10 — the hypotheses of the lextree / flat-network theorems as a decidable predicate on one case

`lexHyps M li`: everything `Props/C02Lex.lean` assumes about the flat model `M` (built from direct model-definition
lookups) and the inputs `li` of the lextree construction (the `dict2pid` tables the code really reads), over the FINITE
ranges the construction reads — the words on the arcs of `M`, their phones, context phones `< nCi`.  `lexHypsB` is its
`decide`; the c01s driver evaluates it on every case.  The transition-matrix function `tm` of `SsidTmat` is constructed
(`tmOf`: the first transition matrix seen for an ssid over all word-internal positions) and checked for consistency.
`Proofs/LexFlatCheck.lean`: `lexHyps M li → Agree ∧ LookAgree ∧ SsidTmat li (fsgOf M) (tmOf M li) ∧ hall`.  Core Lean only.
-/
namespace SSVerif.LexFlat
open SSVerif.Search
open SSVerif.FlatNet (Model Arc Word instsOfArc wordArcs)
open SSVerif.Generated.Search (wposSingle wposBegin wposInternal wposEnd senscrShift)

/-- `o = some x → v = x`, decidable -/
def optIs (o : Option Nat) (v : Nat) : Prop := ∀ x, o = some x → v = x

instance (o : Option Nat) (v : Nat) : Decidable (optIs o v) :=
  match o with
  | none => isTrue (fun _ h => by cases h)
  | some y => if h : v = y then isTrue (fun x hx => by cases hx; exact h) else isFalse (fun hh => h (hh y rfl))

/-- the lextree's lookups for ONE word `wd = M.word wid` are those of the flat model — over the finite ranges the
construction reads: the phones of the word, context phones `< nCi` -/
structure WordLook (M : Model) (li : LexIn) (wid : Nat) (wd : Word) : Prop where
  filler : (li.word wid).dictFiller = wd.filler
  ciTmat : ∀ k, k < wd.pron.length → optIs (M.ciTmat (wd.pron.getD k 0)) (li.tmat (wd.pron.getD k 0))
  ciSsid : wd.pron.length = 1 → optIs (M.ciSsid (wd.pron.getD 0 0)) (li.ciSsid (wd.pron.getD 0 0))
  single : wd.pron.length = 1 → ∀ l, l < li.nCi → optIs (M.ssid (wd.pron.getD 0 0) l M.sil wposSingle) (li.lrdiph (wd.pron.getD 0 0) l)
  begin_ : 2 ≤ wd.pron.length → ∀ l, l < li.nCi →
    optIs (M.ssid (wd.pron.getD 0 0) l (wd.pron.getD 1 0) wposBegin) (li.ldiph (wd.pron.getD 0 0) (wd.pron.getD 1 0) l)
  internal : ∀ k, k < wd.pron.length - 2 →
    optIs (M.ssid (wd.pron.getD (k + 1) 0) (wd.pron.getD k 0) (wd.pron.getD (k + 2) 0) wposInternal) (li.internal (li.word wid).dictWid (k + 1))
  final : 2 ≤ wd.pron.length → ∀ r, r < li.nCi →
    optIs (M.ssid (wd.pron.getD (wd.pron.length - 1) 0) (wd.pron.getD (wd.pron.length - 2) 0) r wposEnd)
      (li.rcSsid (wd.pron.getD (wd.pron.length - 1) 0) (wd.pron.getD (wd.pron.length - 2) 0)
        (li.rcMap (wd.pron.getD (wd.pron.length - 1) 0) (wd.pron.getD (wd.pron.length - 2) 0) r))

instance (M : Model) (li : LexIn) (wid : Nat) (wd : Word) : Decidable (WordLook M li wid wd) :=
  decidable_of_iff
    (((li.word wid).dictFiller = wd.filler) ∧
     (∀ k, k < wd.pron.length → optIs (M.ciTmat (wd.pron.getD k 0)) (li.tmat (wd.pron.getD k 0))) ∧
     (wd.pron.length = 1 → optIs (M.ciSsid (wd.pron.getD 0 0)) (li.ciSsid (wd.pron.getD 0 0))) ∧
     (wd.pron.length = 1 → ∀ l, l < li.nCi → optIs (M.ssid (wd.pron.getD 0 0) l M.sil wposSingle) (li.lrdiph (wd.pron.getD 0 0) l)) ∧
     (2 ≤ wd.pron.length → ∀ l, l < li.nCi →
        optIs (M.ssid (wd.pron.getD 0 0) l (wd.pron.getD 1 0) wposBegin) (li.ldiph (wd.pron.getD 0 0) (wd.pron.getD 1 0) l)) ∧
     (∀ k, k < wd.pron.length - 2 →
        optIs (M.ssid (wd.pron.getD (k + 1) 0) (wd.pron.getD k 0) (wd.pron.getD (k + 2) 0) wposInternal) (li.internal (li.word wid).dictWid (k + 1))) ∧
     (2 ≤ wd.pron.length → ∀ r, r < li.nCi →
        optIs (M.ssid (wd.pron.getD (wd.pron.length - 1) 0) (wd.pron.getD (wd.pron.length - 2) 0) r wposEnd)
          (li.rcSsid (wd.pron.getD (wd.pron.length - 1) 0) (wd.pron.getD (wd.pron.length - 2) 0)
            (li.rcMap (wd.pron.getD (wd.pron.length - 1) 0) (wd.pron.getD (wd.pron.length - 2) 0) r))))
    ⟨fun ⟨a, b, c, d, e, f, g⟩ => ⟨a, b, c, d, e, f, g⟩, fun h => ⟨h.filler, h.ciTmat, h.ciSsid, h.single, h.begin_, h.internal, h.final⟩⟩

/-- the word on arc `a` (if any) is known to both sides with the same pronunciation and filler flag, its phones are CI
phones, and the lookups for it agree -/
def arcWordP (M : Model) (li : LexIn) (a : Arc) : Prop :=
  match a.wid with
  | none => True
  | some wid =>
    match M.word wid with
    | none => False
    | some wd => (li.word wid).pron = wd.pron ∧ (li.word wid).fsgFiller = wd.filler ∧ wd.pron ≠ [] ∧ (∀ p ∈ wd.pron, p < li.nCi) ∧
        WordLook M li wid wd

instance (M : Model) (li : LexIn) (a : Arc) : Decidable (arcWordP M li a) := by
  unfold arcWordP
  split
  · infer_instance
  · split <;> infer_instance

/-- (ssid, transition matrix) of every word-internal position of every word on an arc of `M`, as the lextree construction sees them -/
def intPairs (M : Model) (li : LexIn) : List (Nat × Nat) :=
  M.arcs.flatMap fun a =>
    match a.wid with
    | none => []
    | some wid =>
      (List.range ((li.word wid).pron.length - 2)).map fun k =>
        (li.internal (li.word wid).dictWid (k + 1), li.tmat ((li.word wid).pron.getD (k + 1) 0))

/-- the transition matrix of an ssid: the first one seen -/
def tmOf (M : Model) (li : LexIn) (ss : Nat) : Nat := ((intPairs M li).lookup ss).getD 0

/-- all hypotheses of `C02_lextree_paths_eq_flat_instances`, over finite ranges -/
def lexHyps (M : Model) (li : LexIn) : Prop :=
  li.sil = M.sil ∧ li.sil < li.nCi ∧ li.wip = M.wip ∧ li.pip = M.pip ∧ li.shift = senscrShift ∧
  (∀ a ∈ M.arcs, arcWordP M li a) ∧
  (∀ a ∈ M.arcs, a.src < li.nState ∧ a.dst < li.nState) ∧
  (∀ a ∈ M.arcs, ∀ b ∈ M.arcs, a.wid = none → b.wid = none → a.dst = b.src →
    a.src = b.dst ∨ ∃ c ∈ M.arcs, c.wid = none ∧ c.src = a.src ∧ c.dst = b.dst) ∧
  (∀ x ∈ wordArcs M, (instsOfArc M x.1 x.2.1 x.2.2).isSome = true) ∧
  (∀ pr ∈ intPairs M li, tmOf M li pr.1 = pr.2)

instance (M : Model) (li : LexIn) : Decidable (lexHyps M li) := by unfold lexHyps; infer_instance

def lexHypsB (M : Model) (li : LexIn) : Bool := decide (lexHyps M li)

/-- which of the ten clauses hold (for the driver's report) -/
def lexHypsWhich (M : Model) (li : LexIn) : List Bool :=
  [decide (li.sil = M.sil), decide (li.sil < li.nCi), decide (li.wip = M.wip ∧ li.pip = M.pip ∧ li.shift = senscrShift),
   decide (∀ a ∈ M.arcs, arcWordP M li a), decide (∀ a ∈ M.arcs, a.src < li.nState ∧ a.dst < li.nState),
   decide (∀ a ∈ M.arcs, ∀ b ∈ M.arcs, a.wid = none → b.wid = none → a.dst = b.src →
     a.src = b.dst ∨ ∃ c ∈ M.arcs, c.wid = none ∧ c.src = a.src ∧ c.dst = b.dst),
   decide (∀ x ∈ wordArcs M, (instsOfArc M x.1 x.2.1 x.2.2).isSome = true),
   decide (∀ pr ∈ intPairs M li, tmOf M li pr.1 = pr.2)]

end SSVerif.LexFlat
