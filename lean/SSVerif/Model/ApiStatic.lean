import SSVerif.Model.Api
import SSVerif.Generated.Reach
import SSVerif.Generated.WriteSets
/-!
# M15b — the model's side of the static write-set tie (C08)

`Generated/WriteSets.lean` lists, for every API phase, the struct fields and globals that code reachable from the
phase's public entry points MAY write (clang AST of every `src/*.c`, closed over the static call graph — see
`tools/gen_writesets.py` for the over-approximation rules).  `Generated/Reach.lean` lists every struct of the tree that
is reachable from `decoder_s` through pointer / array / embedded-struct members.  This file holds what the MODEL says
about them, by hand:

* `phaseOf` — which C entry point group realises a model operation (`Api.Op`);
* `structTable` — a class for every reachable struct outside the field-by-field inventory of `Model/Api`
  (tier 2: classified per struct, with per-field overrides `fieldOverride`);
* `exceptions` / `rexceptions` — the short, justified list of (field, reason) pairs where the static analysis is
  coarser than the code (each reason names the C construct); `C08_static_exceptions_justified` checks the
  machine-checkable part of the reasons.

The theorems are in `Props/C08Static.lean`.
-/
namespace SSVerif.ApiStatic
open SSVerif.Generated SSVerif.Generated.Reach SSVerif.Generated.WriteSets SSVerif.Api

/-- phases that run while utterances are decoded and queried -/
def utterancePhases : List ApiPhase := [.startUtt, .process, .endUtt, .query, .queryAlign, .resultJson]
/-- result queries -/
def queryPhases : List ApiPhase := [.query, .queryAlign, .resultJson]

/-- the C entry points that realise a model operation -/
def phaseOf : Op → ApiPhase
  | .startUtt => .startUtt
  | .processNoFrame | .processFirst | .processMore | .processFull | .processFullLive => .process
  | .endUtt | .endUttEmpty => .endUtt
  | .query => .query
  | .queryAlign => .queryAlign
  | .setGrammar => .setGrammar
  | .setCmn => .setCmn
  | .getCmn | .getCmnUpdate => .getCmn
  | .initFe => .init

/-! ## tier 1: exceptions to the field-level statements -/

/-- fields of the tier-1 inventory that the analysis reports as written at utterance time although the model
classifies them persistent, with the reason why that is the analysis being coarse (not the code carrying state) -/
def exceptions : List (Field × String) := [
  (.hmm_s__senid,
   "hmm_vit_eval_anytopo: `hmm->senid[to] = hmm->senid[bestfrom]` under `hmm_is_mpx(hmm)`; every hmm_init call of " ++
   "the library passes mpx = FALSE (checked: `hmmInitMpxArgs` all \"0\"), so the branch is dead"),
  (.fsg_search_s__fsg,
   "own: fsg_search_lattice > find_start_node / find_end_node add the epsilon words `<s>` / `</s>` to the VOCABULARY of " ++
   "the grammar object (fsg_model_word_add + bitvec_set(silwords)); idempotent, no transition carries them, " ++
   "dict_init guarantees both words exist; the fields concerned are classified `neutral` in tier 2")]

def exceptFields : List Field := exceptions.map (·.1)

/-- reset-at-start cells: where the static analysis must see the re-initialisation.  `hmm` cells are cleared by
`fsg_search_finish` (end of the previous utterance) and by lextree construction, the roots are entered at start. -/
def resetWitness (f : Field) : Bool :=
  f ∈ mayWrite .startUtt || (classify f == .hmm && f ∈ mayWrite .endUtt && f ∈ mayWrite .setGrammar) ||
  -- the history table is a `blkarray_list_t` (tier 2): `fsg_history_reset` > `blkarray_list_reset` writes ITS fields
  (f == .fsg_history_s__entries && RField.blkarray_list_s__n_valid ∈ mayWriteR .startUtt)

/-- groups a result query may write: result caches, log-only counters, embedded aggregates -/
def queryGroups : ApiPhase → List Group
  | .query => [.res, .log, .agg]
  -- decoder_alignment / decoder_result_json rewind the feature ring (cnt), re-score frames (sen, sel) into scratch
  | .queryAlign | .resultJson => [.res, .log, .agg, .cnt, .sen, .sel]
  | _ => []

/-- groups that `op` declares as written (function or constant writes) in some protocol phase — what the
non-interference theorems of `Props/C08` use -/
def declaredWrites (op : Op) : List Group :=
  allPhases.flatMap fun ph => (spec ph op).writes.map (·.1)

/-- the same plus the cells the operation kills (model-only forgetting of dead buffers) -/
def declaredWritesOrKills (op : Op) : List Group :=
  declaredWrites op ++ allPhases.flatMap fun ph => (spec ph op).kills

/-- API phases that realise model operations (the others — whole-decoder construction, `decoder_add_word`,
`decoder_result_json`, `decoder_free` — have no operation of their own in `Api.Op`) -/
def modelledPhases : List ApiPhase := [.startUtt, .process, .endUtt, .query, .queryAlign, .setGrammar, .setCmn, .getCmn]

/-- declared write groups of all operations realised by an API phase -/
def declaredWritesOf (p : ApiPhase) : List Group :=
  (allOps.filter (phaseOf · == p)).flatMap declaredWritesOrKills

/-! ## tier 2: reachable structs outside the field-by-field inventory -/

inductive SClass
  | inventoried   -- tier 1: every field classified in `Api.classTable`, snapshotted by the harness
  | config        -- configuration / acoustic model / maths tables: immutable once decoder_init returns
  | lexicon       -- dictionary and its phone maps: written by decoder_add_word only
  | grammar       -- grammar and the search structure derived from it: written by decoder_set_* only
  | vtable        -- tables of function pointers
  | cache         -- result caches (lattice, alignment): built by queries, dropped by decoder_start_utt
  | perUtt        -- per-utterance search state owned by a search module (history entries, aligner tokens)
  | scratch       -- per-frame scratch of the scorers
  | log           -- timers
  | container     -- generic containers / embedded value types: no claim of their own (class of the owning field)
  | refcount      -- reference counters: written by retain/release pairs around caches
  | neutral       -- carried, result-neutral: vocabulary growth by the lattice's epsilon words
  deriving DecidableEq, Repr

def structTable : List (RStruct × SClass × Nat) := [
  (.decoder_s, .inventoried, 15), (.fe_s, .inventoried, 30), (.feat_s, .inventoried, 22), (.acmod_s, .inventoried, 29),
  (.search_module_s, .inventoried, 15), (.noise_stats_s, .inventoried, 20), (.cmn_t, .inventoried, 7), (.mgau_s, .inventoried, 3),
  (.fsg_search_s, .inventoried, 29), (.ptm_mgau_s, .inventoried, 16), (.s2_semi_mgau_s, .inventoried, 16),
  (.hmm_context_s, .inventoried, 7), (.fsg_history_s, .inventoried, 4), (.hmm_s, .inventoried, 12),
  (.ptm_fast_eval_s, .inventoried, 2), (.fsg_pnode_s, .inventoried, 10),
  (.config_s, .config, 4), (.config_param_s, .config, 4), (.config_val_s, .config, 3), (.logmath_s, .config, 9),
  (.logadd_s, .config, 4), (.mmio_file_s, .config, 3), (.melfb_s, .config, 21), (.bin_mdef_s, .config, 20),
  (.mdef_entry_s, .config, 3), (.cd_tree_s, .config, 3), (.tmat_s, .config, 3), (.mllr_s, .config, 8), (.s3file_s, .config, 10),
  (.s3hdr_s, .config, 2), (.ms_mgau_model_s, .config, 7), (.gauden_s, .config, 8), (.senone_s, .config, 10),
  (.dict_s, .lexicon, 12), (.dictword_s, .lexicon, 5), (.dict2pid_s, .lexicon, 7), (.xwdssid_s, .lexicon, 3),
  (.fsg_model_s, .grammar, 14), (.fsg_link_s, .grammar, 4), (.trans_list_s, .grammar, 2), (.fsg_lextree_s, .grammar, 12),
  (.searchfuncs_s, .vtable, 9), (.mgaufuncs_s, .vtable, 4),
  (.lattice_s, .cache, 19), (.latlink_s, .cache, 8), (.latnode_s, .cache, 13), (.latlink_list_s, .cache, 2),
  (.alignment_s, .cache, 5), (.alignment_entry_s, .cache, 6), (.alignment_vector_s, .cache, 3),
  (.state_align_search_s, .perUtt, 12), (.state_align_hist_s, .perUtt, 2), (.fsg_hist_entry_s, .perUtt, 6),
  (.gauden_dist_s, .scratch, 2), (.vqFeature_s, .scratch, 2), (.ptm_topn_s, .scratch, 2),
  (.ptmr_t, .log, 7),
  (.hash_table_s, .container, 4), (.hash_entry_s, .container, 4), (.gnode_s, .container, 2), (.anytype_s, .container, 4),
  (.listelem_alloc_s, .container, 8), (.blkarray_list_s, .container, 6), (.fsg_pnode_ctxt_s, .container, 1)]

/-- per-field overrides of the struct class -/
def fieldOverride : List (RField × SClass) := [
  (.alignment_s__refcount, .refcount), (.bin_mdef_s__refcnt, .refcount), (.config_s__refcount, .refcount),
  (.dict2pid_s__refcount, .refcount), (.dict_s__refcnt, .refcount), (.fsg_model_s__refcount, .refcount),
  (.lattice_s__refcount, .refcount), (.logmath_s__refcount, .refcount), (.mllr_s__refcnt, .refcount),
  (.s3file_s__refcount, .refcount),
  -- the multi-stream scorer keeps its per-frame scratch in the model object
  (.ms_mgau_model_s__dist, .scratch), (.ms_mgau_model_s__mgau_active, .scratch),
  -- find_start_node / find_end_node (lattice construction) add `<s>` / `</s>` to the grammar's vocabulary
  (.fsg_model_s__n_word, .neutral), (.fsg_model_s__n_word_alloc, .neutral), (.fsg_model_s__vocab, .neutral),
  (.fsg_model_s__silwords, .neutral), (.fsg_model_s__altwords, .neutral)]

/-- class of a reachable struct (the third component of a `structTable` entry is the number of members the struct had when
it was classified: a member added to a struct that is classified as a whole has to be looked at) -/
def sclass? (s : RStruct) : Option SClass := (structTable.lookup s).map (·.1)
/-- totalised; `C08_reach_structs_classified` shows the default is never used -/
def rclass (f : RField) : SClass :=
  match fieldOverride.lookup f with
  | some c => c
  | none => (sclass? f.struct).getD .config

/-- tier-2 fields reported as written at utterance time although their class is constant, with the reason -/
def rexceptions : List (RField × String) := []

def rexceptFields : List RField := rexceptions.map (·.1)

def constantClasses : List SClass := [.config, .lexicon, .grammar, .vtable, .inventoried]
def queryClasses : ApiPhase → List SClass
  | .query => [.cache, .container, .refcount, .log, .neutral]
  | .queryAlign | .resultJson => [.cache, .container, .refcount, .log, .neutral, .perUtt, .scratch]
  | _ => []

end SSVerif.ApiStatic
