import SSVerif.Generated.HypFormat
import SSVerif.Model.JsonParse
/-!
# M13 — the two-pass formatter of `decoder_result_json` (src/decoder.c, `HYP_FORMAT` … `decoder_result_json`)

The C function sizes its buffer with a dry run of the formatting code (`outptr == NULL`, size 0), allocates
`ckd_calloc(maxlen, 1)` and then runs the *same* code again writing through a moving pointer, with a running
"remaining length" `maxlen` that is never used to stop a store (only `snprintf` looks at it).  The model
mirrors that statement by statement:

* memory is the calloc'ed block as a byte list plus an `ok` flag that is cleared by a store outside the block,
  by a failed `assert`, and by `snprintf(NULL, n ≠ 0, …)` / a negative size;
* pointers are integer offsets into the block (`none` = `NULL`), passed **by value** exactly as in C, so that
  "the callee wrote `k` bytes" and "the caller advanced by the returned length" are two separate facts;
* `snprintf` is the one external parameter: `Fmt.num` is the text `%.3f` produces for a `double` argument,
  `Fmt.numLen` is what the dry run counts for it, and the only assumed law is `numLen a = (num a).length`
  (the libc formats the same argument the same way twice).  The `double` arguments themselves stay symbolic
  (`Num`): the model records *which* expression of which iterator values is passed, not its value.

The model is of the code **with the repairs D13 (`json_escape` + `format_entry`) and D14 (the `]` placeholder
in the alignment branch of the writing pass)**; see /verif/fixes.
-/
namespace SSVerif.Json

abbrev Bytes := List UInt8

/-! ## what the hypothesis / segmentation / alignment interfaces report -/

/-- one `seg_iter_t` position: `seg_iter_word`, `seg_iter_frames`, `seg_iter_prob` -/
structure Seg where
  word : Option Bytes
  sf : Int
  ef : Int
  prob : Int
  deriving Repr, DecidableEq

/-- one alignment entry: `alignment_iter_name`, `alignment_iter_seg` (start, duration, returned score) -/
structure AEnt where
  name : Option Bytes
  start : Int
  dur : Int
  score : Int
  deriving Repr, DecidableEq

structure APhone where
  e : AEnt
  states : List AEnt
  deriving Repr, DecidableEq

structure AWord where
  e : AEnt
  phones : List APhone
  deriving Repr, DecidableEq

/-- everything `decoder_result_json` reads from the decoder -/
structure Result where
  /-- `decoder_hyp(d, NULL)` -/
  hyp : Option Bytes
  /-- `decoder_prob(d)` -/
  prob : Int
  /-- `decoder_n_frames(d)` -/
  nframes : Int
  /-- `config_int(decoder_config(d), "frate")` -/
  frate : Int
  /-- `decoder_seg_iter(d)` … `seg_iter_next` (`[]` = the iterator is `NULL`) -/
  segs : List Seg
  /-- `decoder_alignment(d)`: `none` = `NULL`; words > phones > states as the child iterators give them -/
  align : Option (List AWord)
  deriving Repr, DecidableEq

/-- the `double` arguments handed to `%.3f`, as expressions of the integers the interfaces report -/
inductive Num where
  /-- the `start` parameter itself -/
  | start
  /-- `utt_start + (double)f / frate` -/
  | time (f frate : Int)
  /-- `(double)n / frate` -/
  | ratio (n frate : Int)
  /-- `logmath_exp(lmath, logp)` -/
  | prob (logp : Int)
  deriving Repr, DecidableEq

/-- `snprintf`'s treatment of a `%.3f` argument.  `numLen_eq` is the whole trusted assumption about libc. -/
structure Fmt where
  num : Num → Bytes
  numLen : Num → Nat
  numLen_eq : ∀ a, numLen a = (num a).length

/-! ## the format string (regenerated from the source on every run) -/

inductive Piece where
  | lit (b : UInt8)
  | f3          -- `%.3f`
  | s           -- `%s`
  deriving Repr, DecidableEq

/-- the directives this code base uses in `HYP_FORMAT`; anything else makes the parse fail -/
def parseFormat : Bytes → Option (List Piece)
  | [] => some []
  | 37 :: 46 :: 51 :: 102 :: t => (parseFormat t).map (Piece.f3 :: ·)
  | 37 :: 115 :: t => (parseFormat t).map (Piece.s :: ·)
  | 37 :: _ => none
  | c :: t => (parseFormat t).map (Piece.lit c :: ·)

def hypPieces : List Piece := (parseFormat SSVerif.Generated.hypFormat).getD []

/-- the bytes `snprintf` produces for a piece list, consuming `double` and string arguments in order -/
def render (fmt : Fmt) : List Piece → List Num → List Bytes → Bytes
  | [], _, _ => []
  | .lit c :: ps, ns, ss => c :: render fmt ps ns ss
  | .f3 :: ps, n :: ns, ss => fmt.num n ++ render fmt ps ns ss
  | .f3 :: ps, [], ss => render fmt ps [] ss
  | .s :: ps, ns, s :: ss => s ++ render fmt ps ns ss
  | .s :: ps, ns, [] => render fmt ps ns []

/-- the value `snprintf` returns (what the dry run adds up) -/
def count (fmt : Fmt) : List Piece → List Num → List Bytes → Nat
  | [], _, _ => 0
  | .lit _ :: ps, ns, ss => 1 + count fmt ps ns ss
  | .f3 :: ps, n :: ns, ss => fmt.numLen n + count fmt ps ns ss
  | .f3 :: ps, [], ss => count fmt ps [] ss
  | .s :: ps, ns, s :: ss => s.length + count fmt ps ns ss
  | .s :: ps, ns, [] => count fmt ps ns []

/-! ## `json_escape` (repair D13): count, allocate, write -/

/-- first loop of `json_escape`: `len += (c == '"' || c == '\\') ? 2 : (c < 0x20) ? 6 : 1` -/
def escLen : Bytes → Nat
  | [] => 0
  | c :: t => (if c = 34 ∨ c = 92 then 2 else if c < 32 then 6 else 1) + escLen t

/-- second loop of `json_escape` (`escByte` is its body: `\"`, `\\`, `\u00XX` for bytes below 0x20, else the byte) -/
def jsonEscape : Bytes → Bytes
  | [] => []
  | c :: t => escByte c ++ jsonEscape t

/-! ## memory -/

structure Mem where
  bytes : Bytes
  ok : Bool
  deriving Repr, DecidableEq

/-- `*p = b` -/
def Mem.store (m : Mem) (p : Int) (b : UInt8) : Mem :=
  if 0 ≤ p ∧ p < m.bytes.length then { m with bytes := m.bytes.set p.toNat b } else { m with ok := false }

/-- `memcpy(p, bs, n)` / consecutive stores -/
def Mem.storeList (m : Mem) (p : Int) : Bytes → Mem
  | [] => m
  | b :: t => (m.store p b).storeList (p + 1) t

/-- `assert(c)` -/
def Mem.assert (m : Mem) (c : Bool) : Mem := if c then m else { m with ok := false }

/-- `ckd_calloc(n, 1)` -/
def Mem.calloc (n : Int) : Mem := ⟨List.replicate n.toNat 0, true⟩

/-- `snprintf(outptr, n, …)` whose complete output would be `text` and whose return value is `cnt`:
nothing is stored for size 0; otherwise at most `n - 1` bytes and a terminating NUL are stored -/
def snprintf (m : Mem) (outptr : Option Int) (n : Int) (text : Bytes) (cnt : Nat) : Int × Mem :=
  match outptr with
  | none => (cnt, if n = 0 then m else { m with ok := false })
  | some p =>
    if n = 0 then (cnt, m)
    else if n < 0 then (cnt, { m with ok := false })
    else (cnt, m.storeList p (text.take (n.toNat - 1) ++ [0]))

/-! ## the formatting functions -/

/-- `format_entry` (repair D13): `snprintf(outptr, len, HYP_FORMAT, start, duration, prob, json_escape(text ? text : ""))` -/
def formatEntry (fmt : Fmt) (m : Mem) (outptr : Option Int) (len : Int)
    (st dur prob : Num) (text : Option Bytes) : Int × Mem :=
  let esc := jsonEscape (text.getD [])
  snprintf m outptr len (render fmt hypPieces [st, dur, prob] [esc]) (count fmt hypPieces [st, dur, prob] [esc])

/-- `format_hyp` (`duration` is computed by the caller as `(double)decoder_n_frames(d) / frate`) -/
def formatHyp (fmt : Fmt) (m : Mem) (outptr : Option Int) (len : Int) (r : Result) : Int × Mem :=
  formatEntry fmt m outptr len .start (.ratio r.nframes r.frate) (.prob r.prob) r.hyp

/-- `format_seg` -/
def formatSeg (fmt : Fmt) (m : Mem) (outptr : Option Int) (len : Int) (s : Seg) (frate : Int) : Int × Mem :=
  let (len, m) := formatEntry fmt m outptr len (.time s.sf frate) (.ratio (s.ef + 1 - s.sf) frate) (.prob s.prob) s.word
  let m := match outptr with
    | none => m
    | some p => (m.store (p + len) 125).store (p + len + 1) 0     -- outptr += len; *outptr++ = '}'; *outptr = '\0';
  (len + 1, m)

/-- `format_align_iter` -/
def formatAlignIter (fmt : Fmt) (m : Mem) (outptr : Option Int) (maxlen : Int) (e : AEnt) (frate : Int) : Int × Mem :=
  formatEntry fmt m outptr maxlen (.time e.start frate) (.ratio e.dur frate) (.prob e.score) e.name

/-- the locals of `format_seg_align` -/
structure St where
  m : Mem
  outptr : Option Int
  maxlen : Int
  len : Int

/-- `hyplen = format_align_iter(outptr, maxlen, …); len += hyplen; if (outptr) outptr += hyplen; if (maxlen) maxlen -= hyplen;` -/
def St.entry (fmt : Fmt) (s : St) (e : AEnt) (frate : Int) : St :=
  let (hyplen, m) := formatAlignIter fmt s.m s.outptr s.maxlen e frate
  { m := m, len := s.len + hyplen, outptr := s.outptr.map (· + hyplen),
    maxlen := if s.maxlen ≠ 0 then s.maxlen - hyplen else s.maxlen }

/-- `len += n; if (outptr) { memcpy(outptr, bs, n) or *outptr++ = c; outptr += n; } if (maxlen) maxlen -= n;` -/
def St.lit (s : St) (bs : Bytes) : St :=
  { m := match s.outptr with
      | none => s.m
      | some p => s.m.storeList p bs,
    len := s.len + bs.length, outptr := s.outptr.map (· + bs.length),
    maxlen := if s.maxlen ≠ 0 then s.maxlen - bs.length else s.maxlen }

def wOpen : Bytes := [44, 34, 119, 34, 58, 91]    -- `,"w":[`

/-- `while (sitor != NULL) { entry; '}'; sitor = next; if (sitor != NULL) ','; }` -/
def statesLoop (fmt : Fmt) (frate : Int) : St → List AEnt → St
  | s, [] => s
  | s, e :: rest =>
    let s := (s.entry fmt e frate).lit [125]
    let s := match rest with
      | [] => s
      | _ :: _ => s.lit [44]
    statesLoop fmt frate s rest

/-- `while (pitor != NULL) { entry; if (state_align) { ,"w":[ states ] } '}'; pitor = next; if (pitor != NULL) ','; }` -/
def phonesLoop (fmt : Fmt) (frate : Int) (stateAlign : Bool) : St → List APhone → St
  | s, [] => s
  | s, p :: rest =>
    let s := s.entry fmt p.e frate
    let s := if stateAlign then (statesLoop fmt frate (s.lit wOpen) p.states).lit [93] else s
    let s := s.lit [125]
    let s := match rest with
      | [] => s
      | _ :: _ => s.lit [44]
    phonesLoop fmt frate stateAlign s rest

/-- `format_seg_align` -/
def formatSegAlign (fmt : Fmt) (m : Mem) (outptr : Option Int) (maxlen : Int) (w : AWord) (frate : Int)
    (stateAlign : Bool) : Int × Mem :=
  let s : St := { m := m, outptr := outptr, maxlen := maxlen, len := 0 }
  let s := (s.entry fmt w.e frate).lit wOpen
  let s := phonesLoop fmt frate stateAlign s w.phones
  -- len += 2; if (outptr) { *outptr++ = ']'; *outptr++ = '}'; *outptr = '\0'; }   (the local maxlen is dead here)
  let m := match s.outptr with
    | none => s.m
    | some p => ((s.m.store p 93).store (p + 1) 125).store (p + 2) 0
  (s.len + 2, m)

/-! ## `decoder_result_json` -/

/-- sizing loop of the alignment branch: `maxlen += format_seg_align(NULL, 0, …); maxlen++;` -/
def measureWords (fmt : Fmt) (frate : Int) (sa : Bool) : Mem → Int → List AWord → Int × Mem
  | m, maxlen, [] => (maxlen, m)
  | m, maxlen, w :: rest =>
    let (l, m) := formatSegAlign fmt m none 0 w frate sa
    measureWords fmt frate sa m (maxlen + l + 1) rest

/-- sizing loop of the segment branch: `maxlen += format_seg(NULL, 0, …); maxlen++;` -/
def measureSegs (fmt : Fmt) (frate : Int) : Mem → Int → List Seg → Int × Mem
  | m, maxlen, [] => (maxlen, m)
  | m, maxlen, s :: rest =>
    let (l, m) := formatSeg fmt m none 0 s frate
    measureSegs fmt frate m (maxlen + l + 1) rest

/-- the locals of the writing pass -/
structure WSt where
  m : Mem
  ptr : Int
  maxlen : Int

/-- `assert(maxlen > 0); len = format_seg_align(ptr, maxlen, …); ptr += len; maxlen -= len; *ptr++ = ','; maxlen--;` -/
def writeWords (fmt : Fmt) (frate : Int) (sa : Bool) : WSt → List AWord → WSt
  | s, [] => s
  | s, w :: rest =>
    let m := s.m.assert (decide (s.maxlen > 0))
    let (len, m) := formatSegAlign fmt m (some s.ptr) s.maxlen w frate sa
    let m := m.store (s.ptr + len) 44
    writeWords fmt frate sa { m := m, ptr := s.ptr + len + 1, maxlen := s.maxlen - len - 1 } rest

/-- `assert(maxlen > 0); len = format_seg(ptr, maxlen, …); ptr += len; maxlen -= len; *ptr++ = ','; maxlen--;` -/
def writeSegs (fmt : Fmt) (frate : Int) : WSt → List Seg → WSt
  | s, [] => s
  | s, g :: rest =>
    let m := s.m.assert (decide (s.maxlen > 0))
    let (len, m) := formatSeg fmt m (some s.ptr) s.maxlen g frate
    let m := m.store (s.ptr + len) 44
    writeSegs fmt frate { m := m, ptr := s.ptr + len + 1, maxlen := s.maxlen - len - 1 } rest

/-- what the caller of `decoder_result_json` gets -/
structure Out where
  /-- the size passed to `ckd_calloc` -/
  alloc : Int
  /-- the block after the writing pass (`ok` = no store outside it, no failed assert) -/
  mem : Mem
  /-- flags of the dry run (no `snprintf(NULL, n ≠ 0)`) -/
  dryOk : Bool
  deriving Repr, DecidableEq

/-- the sizing pass: from `maxlen = format_hyp(NULL, 0, …)` to `maxlen++; /* trailing \0 */`.
`alignment` is the local of that name (`NULL` at level 0) -/
def sizingPass (fmt : Fmt) (r : Result) (alignment : Option (List AWord)) (stateAlign : Bool) : Int × Mem :=
  let frate := r.frate
  let dry : Mem := ⟨[], true⟩
  let (l, dry) := formatHyp fmt dry none 0 r
  let maxlen := l + 6               -- "w":,[
  let (maxlen, dry) := match alignment with
    | some ws =>
      let maxlen := if ws.isEmpty then maxlen + 1 else maxlen       -- ] at end
      measureWords fmt frate stateAlign dry maxlen ws
    | none =>
      let maxlen := if r.segs.isEmpty then maxlen + 1 else maxlen   -- ] at end
      measureSegs fmt frate dry maxlen r.segs
  (maxlen + 3, dry)                 -- final }, trailing \n, trailing \0

/-- second half of the writing pass: the item loop and the closing statements, from `if (alignment) {` to `*ptr = '\0'` -/
def writingTail (fmt : Fmt) (r : Result) (alignment : Option (List AWord)) (stateAlign : Bool) (s : WSt) : Mem :=
  let frate := r.frate
  let s := match alignment with
    | some ws =>
      -- repair D14: if (itor == NULL) { *ptr++ = ']'; maxlen--; }
      let s : WSt := if ws.isEmpty then { m := s.m.store s.ptr 93, ptr := s.ptr + 1, maxlen := s.maxlen - 1 } else s
      writeWords fmt frate stateAlign s ws
    | none =>
      let s : WSt := if r.segs.isEmpty then { m := s.m.store s.ptr 93, ptr := s.ptr + 1, maxlen := s.maxlen - 1 } else s
      writeSegs fmt frate s r.segs
  -- --ptr; *ptr++ = ']'; assert(maxlen == 3); *ptr++ = '}'; --maxlen; *ptr++ = '\n'; --maxlen; *ptr = '\0';
  let m := s.m.store (s.ptr - 1) 93
  let m := m.assert (decide (s.maxlen = 3))
  let m := m.store s.ptr 125
  let m := m.store (s.ptr + 1) 10
  m.store (s.ptr + 2) 0

/-- the writing pass: from `ptr = d->json_result = ckd_calloc(maxlen, 1)` to `*ptr = '\0'` -/
def writingPass (fmt : Fmt) (r : Result) (alignment : Option (List AWord)) (stateAlign : Bool) (maxlen : Int) : Mem :=
  let m := Mem.calloc maxlen
  -- len = maxlen; len = format_hyp(d->json_result, len, …); ptr += len; maxlen -= len;
  let (len, m) := formatHyp fmt m (some 0) maxlen r
  let ptr : Int := len
  let maxlen := maxlen - len
  -- assert(maxlen > 6); memcpy(ptr, ",\"w\":[", 6); ptr += 6; maxlen -= 6;
  let m := m.assert (decide (maxlen > 6))
  let m := m.storeList ptr wOpen
  writingTail fmt r alignment stateAlign { m := m, ptr := ptr + 6, maxlen := maxlen - 6 }

/-- `decoder_result_json(d, start, align_level)`; `none` = it returns `NULL` (alignment requested, none available) -/
def resultJson (fmt : Fmt) (r : Result) (level : Int) : Option Out :=
  let stateAlign := decide (level > 1)
  -- if (align_level) { alignment = decoder_alignment(d); if (alignment == NULL) return NULL; }
  if level ≠ 0 ∧ r.align = none then none else
  let alignment : Option (List AWord) := if level ≠ 0 then r.align else none
  let (maxlen, dry) := sizingPass fmt r alignment stateAlign
  some { alloc := maxlen, mem := writingPass fmt r alignment stateAlign maxlen, dryOk := dry.ok }

/-- the C string at the start of a block -/
def cstr (b : Bytes) : Bytes := b.takeWhile (· ≠ 0)

/-- the size the sizing pass asks the allocator for -/
def measure (fmt : Fmt) (r : Result) (level : Int) : Option Int := (resultJson fmt r level).map (·.alloc)

/-- the line the caller reads -/
def write (fmt : Fmt) (r : Result) (level : Int) : Option Bytes := (resultJson fmt r level).map fun o => cstr o.mem.bytes


/-! ## what the line is supposed to say (the tree the property talks about) -/

/-- `"b"`, `"d"`, `"p"`, `"t"` of one record -/
def entryFields (fmt : Fmt) (st dur prob : Num) (text : Option Bytes) : List (Bytes × JV) :=
  [([98], .num (fmt.num st)), ([100], .num (fmt.num dur)), ([112], .num (fmt.num prob)), ([116], .str (text.getD []))]

def aentFields (fmt : Fmt) (frate : Int) (e : AEnt) : List (Bytes × JV) :=
  entryFields fmt (.time e.start frate) (.ratio e.dur frate) (.prob e.score) e.name

/-- a segment: begins at `start + sf/frate`, lasts `(ef + 1 - sf)/frate`, probability `exp(prob)`, text = word -/
def segTree (fmt : Fmt) (frate : Int) (s : Seg) : JV :=
  .obj (entryFields fmt (.time s.sf frate) (.ratio (s.ef + 1 - s.sf) frate) (.prob s.prob) s.word)

def stateTree (fmt : Fmt) (frate : Int) (e : AEnt) : JV := .obj (aentFields fmt frate e)

def phoneTree (fmt : Fmt) (frate : Int) (sa : Bool) (p : APhone) : JV :=
  .obj (aentFields fmt frate p.e ++ if sa then [([119], .arr (p.states.map (stateTree fmt frate)))] else [])

def wordTree (fmt : Fmt) (frate : Int) (sa : Bool) (w : AWord) : JV :=
  .obj (aentFields fmt frate w.e ++ [([119], .arr (w.phones.map (phoneTree fmt frate sa)))])

/-- the `"w"` list of the top-level object: alignment words (level ≠ 0) or segments (level 0) -/
def items (fmt : Fmt) (r : Result) (level : Int) : List JV :=
  if level ≠ 0 then (r.align.getD []).map (wordTree fmt r.frate (decide (level > 1)))
  else r.segs.map (segTree fmt r.frate)

def tree (fmt : Fmt) (r : Result) (level : Int) : JV :=
  .obj (entryFields fmt .start (.ratio r.nframes r.frate) (.prob r.prob) r.hyp ++ [([119], .arr (items fmt r level))])

/-- libc fact needed for *validity* (not for the size agreement): `%.3f` of the values passed renders a JSON number
(finite `double`s in the "C" locale do: `-?digits.ddd`) -/
def NumOK (fmt : Fmt) : Prop := ∀ a, isJsonNumber (fmt.num a) = true

end SSVerif.Json
