/-!
# Gaussian selection (top-N) of `ptm_mgau.c` — why the carried codeword history is result-neutral (C08)

`ptm_mgau_frame_eval` starts every frame from the previous frame's top-N list (at frame 0 of an utterance:
from whatever the previous utterance left, `lastf = s->hist + n_fast_hist - 1`) — the one cell of the
decoder that is read before it is rewritten.  `eval_topn` re-scores the carried codewords for the new
frame and sorts them; `eval_cb` then scans **every** codeword of the (active) codebook and inserts each
one that beats the current worst entry and is not yet present (`insertion_sort_cb`).

Model: the list is kept worst-first (ascending score), scores are exact integers (the C code compares a
float against the integer-truncated worst score; that rounding is not modelled).  Core Lean only.
-/
namespace SSVerif.TopN

/-- codeword index and its score for the current frame -/
abbrev Entry := Nat × Int

/-- `insertion_sort_cb` after the worst entry has been dropped: the new entry goes behind every entry
whose score is `≤ d` (the C loop shifts entries down while `intd >= (*cur)->score`) -/
def insAsc (c : Nat) (d : Int) : List Entry → List Entry
  | [] => [(c, d)]
  | e :: rest => if e.2 ≤ d then e :: insAsc c d rest else (c, d) :: e :: rest

/-- one codeword of the `eval_cb` scan (ptm_mgau.c:146-225): skipped when it scores below the current
worst entry (`d < thresh`) or is already in the list; otherwise it replaces the worst entry -/
def scanStep (sc : Nat → Int) (a : List Entry) (cw : Nat) : List Entry :=
  match a with
  | [] => []
  | w :: rest =>
    if sc cw < w.2 then a
    else if cw ∈ a.map (·.1) then a
    else insAsc cw (sc cw) rest

/-- the full scan over the `n` codewords of a codebook -/
def scan (sc : Nat → Int) (n : Nat) (a : List Entry) : List Entry :=
  (List.range n).foldl (scanStep sc) a

end SSVerif.TopN
