/-!
# ε-NFA semantics, verified certificate checks, untrusted searches

Shared oracle of C01, C05, C13 (DESIGN.md §4/C05).  States and symbols are `Nat`; an arc is
`(from, label?, to)` with `none` = ε.  One start and one final state (as in `fsg_model_t`).

* `checkCert A B c` — verified check that a certificate proves `L(A) = L(B)`
  (`checkCert_sound` in `Proofs/Nfa.lean`).
* `checkRun A w sets` — verified check that `sets` are the exact subset states reached on the
  prefixes of `w`; decides `w ∈ L(A)` (`decideAccepts_sound`).
* `checkPath A q path ws` — verified check that `path` is an accepting run on `ws`.
* `closure`, `findCert`, `runSets` — **untrusted** searches producing the certificates.
-/
namespace SSVerif.Nfa

structure Nfa where
  start : Nat
  final : Nat
  arcs : List (Nat × Option Nat × Nat)
deriving Repr

inductive Reach (A : Nfa) : Nat → List Nat → Nat → Prop
  | refl {q} : Reach A q [] q
  | eps {q q' ws r} : (q, none, q') ∈ A.arcs → Reach A q' ws r → Reach A q ws r
  | sym {q q' w ws r} : (q, some w, q') ∈ A.arcs → Reach A q' ws r → Reach A q (w :: ws) r

def Accepts (A : Nfa) (ws : List Nat) : Prop := Reach A A.start ws A.final

/-! ### verified checks -/

def epsClosed (A : Nfa) (S : List Nat) : Bool :=
  A.arcs.all fun (p, l, q) => !(l.isNone && S.contains p) || S.contains q

def move (A : Nfa) (S : List Nat) (a : Nat) : List Nat :=
  A.arcs.filterMap fun (p, l, q) => if l = some a ∧ S.contains p then some q else none

/-- every element of `S'` is in `base` or has an ε-arc from an earlier element -/
def justified (A : Nfa) (base : List Nat) : List Nat → List Nat → Bool
  | _, [] => true
  | seen, x :: xs =>
    (base.contains x || A.arcs.any fun (p, l, q) => l.isNone && q == x && seen.contains p)
      && justified A base (x :: seen) xs

def subsetB (X Y : List Nat) : Bool := X.all fun x => Y.contains x

def seteqB (X Y : List Nat) : Bool := subsetB X Y && subsetB Y X

/-- `S'` is exactly the ε-closure of `base` (checked, not computed) -/
def isClosureOf (A : Nfa) (base S' : List Nat) : Bool :=
  subsetB base S' && epsClosed A S' && justified A base [] S'

/-- certificate of language equality: visited pairs of subset states and, per (pair, symbol),
the successor pair index together with the two closures in discovery order -/
structure Cert where
  sigma : List Nat
  pairs : List (List Nat × List Nat)
  next  : Nat → Nat → (Nat × List Nat × List Nat)

def symsOf (A : Nfa) : List Nat := A.arcs.filterMap fun (_, l, _) => l

def pairAt (c : Cert) (i : Nat) : List Nat × List Nat := c.pairs.getD i ([], [])

def checkCert (A B : Nfa) (c : Cert) : Bool :=
  subsetB (symsOf A) c.sigma && subsetB (symsOf B) c.sigma &&
  (0 < c.pairs.length) &&
  isClosureOf A [A.start] (pairAt c 0).1 && isClosureOf B [B.start] (pairAt c 0).2 &&
  (List.range c.pairs.length).all fun i =>
    ((pairAt c i).1.contains A.final == (pairAt c i).2.contains B.final) &&
    c.sigma.all fun a =>
      let j := (c.next i a).1
      let ta := (c.next i a).2.1
      let tb := (c.next i a).2.2
      decide (j < c.pairs.length) &&
      isClosureOf A (move A (pairAt c i).1 a) ta && seteqB ta (pairAt c j).1 &&
      isClosureOf B (move B (pairAt c i).2 a) tb && seteqB tb (pairAt c j).2

/-- `sets` = [S₀, S₁, …, Sₙ] are exactly the subset states after each prefix of `w` -/
def checkRunFrom (A : Nfa) : List Nat → List Nat → List (List Nat) → Bool
  | _, [], [] => true
  | S, a :: w, S' :: rest => isClosureOf A (move A S a) S' && checkRunFrom A S' w rest
  | _, _, _ => false

def checkRun (A : Nfa) (w : List Nat) (sets : List (List Nat)) : Bool :=
  match sets with
  | [] => false
  | S0 :: rest => isClosureOf A [A.start] S0 && checkRunFrom A S0 w rest

/-- an accepting run given as the list of arcs taken -/
def checkPath (A : Nfa) : Nat → List (Nat × Option Nat × Nat) → List Nat → Bool
  | q, [], ws => q == A.final && ws.isEmpty
  | q, (p, l, r) :: rest, ws =>
    p == q && A.arcs.contains (p, l, r) &&
    match l, ws with
    | none, ws => checkPath A r rest ws
    | some w, w' :: ws' => w == w' && checkPath A r rest ws'
    | some _, [] => false

/-! ### untrusted searches -/

def dedup (l : List Nat) : List Nat := l.foldl (fun acc x => if acc.contains x then acc else acc ++ [x]) []

def closureGo (A : Nfa) : Nat → List Nat → List Nat → List Nat
  | 0, acc, _ => acc
  | _ + 1, acc, [] => acc
  | fuel + 1, acc, x :: todo =>
    let succ := dedup (A.arcs.filterMap fun (p, l, q) =>
      if p == x && l.isNone && !acc.contains q then some q else none)
    closureGo A fuel (acc ++ succ) (todo ++ succ)

/-- ε-closure in discovery order -/
def closure (A : Nfa) (base : List Nat) : List Nat :=
  let b := dedup base
  closureGo A (2 * A.arcs.length + b.length + 2) b b

def sortNat (l : List Nat) : List Nat := (l.toArray.qsort (· < ·)).toList

/-- subset states along `w` (computed with the untrusted closure) -/
def runSets (A : Nfa) (w : List Nat) : List (List Nat) :=
  let S0 := closure A [A.start]
  S0 :: (w.foldl (fun (acc : List Nat × List (List Nat)) a =>
      let S' := closure A (move A acc.1 a)
      (S', acc.2 ++ [S'])) (S0, [])).2

/-- decision of `w ∈ L(A)`; `none` when the self-check of the computed run fails -/
def decideAccepts (A : Nfa) (w : List Nat) : Option Bool :=
  let sets := runSets A w
  if checkRun A w sets then some ((sets.getLastD []).contains A.final) else none

inductive EquivResult where
  | equal (c : Cert)
  | differ (w : List Nat)
  | gaveUp
deriving Inhabited

structure SearchSt where
  pairs : Array (List Nat × List Nat)
  keys : Array (List Nat × List Nat)
  parent : Array (Nat × Nat)            -- (parent index, symbol)
  trans : Array (List (Nat × Nat × List Nat × List Nat))   -- per pair: (symbol, j, ta, tb)

def wordTo (st : SearchSt) : Nat → Nat → List Nat → List Nat
  | 0, _, acc => acc
  | fuel + 1, i, acc =>
    if i = 0 then acc else
    let (p, a) := st.parent.getD i (0, 0)
    wordTo st fuel p (a :: acc)

/-- simultaneous subset construction; returns a certificate or a distinguishing word -/
def findCert (A B : Nfa) (maxPairs : Nat := 20000) : EquivResult := Id.run do
  let sigma := dedup (symsOf A ++ symsOf B)
  let s0 := (closure A [A.start], closure B [B.start])
  let mut st : SearchSt := { pairs := #[s0], keys := #[(sortNat s0.1, sortNat s0.2)], parent := #[(0, 0)], trans := #[[]] }
  let mut i := 0
  while i < st.pairs.size do
    if st.pairs.size > maxPairs then return .gaveUp
    let (sa, sb) := st.pairs[i]!
    if sa.contains A.final != sb.contains B.final then
      return .differ (wordTo st (st.pairs.size + 1) i [])
    let mut tr : List (Nat × Nat × List Nat × List Nat) := []
    for a in sigma do
      let ta := closure A (move A sa a)
      let tb := closure B (move B sb a)
      let key := (sortNat ta, sortNat tb)
      let j ← match st.keys.findIdx? (· == key) with
        | some j => pure j
        | none =>
          let j := st.pairs.size
          st := { st with pairs := st.pairs.push (ta, tb), keys := st.keys.push key,
                          parent := st.parent.push (i, a), trans := st.trans.push [] }
          pure j
      tr := (a, j, ta, tb) :: tr
    st := { st with trans := st.trans.set! i tr }
    i := i + 1
  let trans := st.trans
  return .equal { sigma, pairs := st.pairs.toList,
                  next := fun i a => match (trans.getD i []).find? (·.1 == a) with
                    | some (_, j, ta, tb) => (j, ta, tb)
                    | none => (0, [], []) }

/-- language equality decided with a verified answer: `some true` only when the certificate
checks; `some false` carries a word on which the verified membership decisions differ -/
def nfaEquiv (A B : Nfa) (maxPairs : Nat := 20000) : Except String (Option (List Nat)) :=
  match findCert A B maxPairs with
  | .equal c => if checkCert A B c then .ok none else .error "certificate does not check"
  | .differ w =>
    match decideAccepts A w, decideAccepts B w with
    | some x, some y => if x != y then .ok (some w) else .error "distinguishing word not confirmed"
    | _, _ => .error "membership self-check failed"
  | .gaveUp => .error "search gave up"

end SSVerif.Nfa
