import SSVerif.Model.HashTable
/-!
# M2b — the cursor walk of `hash_table_iter` / `hash_table_iter_next` and the loop of `hash_table_tolist`

`HashTable.iter h := h.buckets.flatten` is the *specification* of the visiting order.  This file models the
code that produces it (`src/hash_table.c`, `hash_table_iter` l.613-621, `hash_table_iter_next` l.623-648,
`hash_table_tolist` l.586-611) as the small state machine the C code is:

* `hash_iter_t` = `{ ht, ent, idx }`.  `ent` is a pointer to a `hash_entry_t`: NULL, the in-table head entry
  `&table[b]` (position `(b, 0)`), or the `j`-th chained entry reached from it by `j` `->next` steps
  (position `(b, j)`).  `idx` is "the next bucket to search".
* `ent->next` of position `(b, j)` is `(b, j+1)` when bucket `b` has more than `j+1` entries, else NULL
  (a bucket of the model is "head entry followed by the chain in pointer order").
* `table[i].key == NULL` is "bucket `i` is the empty list".

Nothing here uses `flatten`; `Props/C20Iter.lean` proves that the walk produces it.
-/
namespace SSVerif.HashTable

/-- `hash_iter_t` without the constant `ht` field: `ent` = NULL or (bucket, position in the chain), `idx` -/
structure IterState where
  ent : Option (Nat × Nat)
  idx : Nat
deriving Repr, DecidableEq, Inhabited

/-- the `while (itor->idx < size && table[itor->idx].key == NULL) ++itor->idx;` loop of
`hash_table_iter_next`.  `fuel` is the loop variant `size - idx` (see `iterNext`): with `fuel = 0` the
loop test `idx < size` is false, so the fuel never cuts the loop short (`scan_exact` in the proofs). -/
def scan (h : HT) : Nat → Nat → Nat
  | 0, idx => idx
  | fuel + 1, idx => if idx < h.size ∧ h.bucket idx = [] then scan h fuel (idx + 1) else idx

/-- `itor->ent->next` -/
def entNext (h : HT) : Option (Nat × Nat) → Option (Nat × Nat)
  | none => none
  | some (b, j) => if j + 1 < (h.bucket b).length then some (b, j + 1) else none

/-- `hash_table_iter_next(itor)`: `none` = the iterator was freed and NULL returned.
```
if (itor->ent) itor->ent = itor->ent->next;
if (itor->ent == NULL) {
    while (itor->idx < size && table[itor->idx].key == NULL) ++itor->idx;
    if (itor->idx == size) { free; return NULL; }
    itor->ent = table + itor->idx;  ++itor->idx;
}
return itor;
``` -/
def iterNext (h : HT) (s : IterState) : Option IterState :=
  match entNext h s.ent with
  | some p => some { s with ent := some p }
  | none =>
    let idx := scan h (h.size - s.idx) s.idx
    if idx = h.size then none else some { ent := some (idx, 0), idx := idx + 1 }

/-- `hash_table_iter(h)`: `ckd_calloc` gives `ent = NULL, idx = 0`, then `hash_table_iter_next` -/
def iterStart (h : HT) : Option IterState := iterNext h { ent := none, idx := 0 }

/-- the entry `itor->ent` points to (`none`: the position does not exist in the table — a dangling pointer) -/
def iterCur (h : HT) (s : IterState) : Option Entry :=
  match s.ent with
  | none => none
  | some (b, j) => (h.bucket b)[j]?

/-- one step of a caller's loop as `Entry × next iterator` -/
def iterStep (h : HT) (s : IterState) : Option (Entry × Option IterState) :=
  (iterCur h s).map fun e => (e, iterNext h s)

/-- the caller's loop `for (it = hash_table_iter(h); it; it = hash_table_iter_next(it)) visit(it->ent);`
run for at most `fuel` visits on an unchanging table.  `some l`: the iterator returned NULL after visiting
`l`; `none`: `fuel` visits were not enough, or `it->ent` was dangling. -/
def iterLoop (h : HT) : Nat → Option IterState → Option (List Entry)
  | _, none => some []
  | 0, some _ => none
  | fuel + 1, some s =>
    match iterCur h s with
    | none => none
    | some e => (iterLoop h fuel (iterNext h s)).map (e :: ·)

/-- the whole iteration; `inuse + 1` visits are allowed, so a walk that yields one entry too many is seen -/
def iterWalk (h : HT) : Option (List Entry) := iterLoop h (h.inuse.toNat + 1) (iterStart h)

/-- body of the `for (i = 0; i < size; i++)` loop of `hash_table_tolist` for one bucket:
`if (e->key != NULL) { g = add(g, e); j++; for (e = e->next; e; e = e->next) { g = add(g, e); j++; } }`
where `glist_add_ptr` prepends -/
def tolistBucket (g : List Entry × Nat) : List Entry → List Entry × Nat
  | [] => g
  | hd :: chain => chain.foldl (fun g e => (e :: g.1, g.2 + 1)) (hd :: g.1, g.2 + 1)

/-- `hash_table_tolist(h, &count)`: the list (in `glist` order, head first) and `*count` -/
def tolistWalk (h : HT) : List Entry × Nat :=
  (List.range h.size).foldl (fun g i => tolistBucket g (h.bucket i)) ([], 0)

end SSVerif.HashTable
