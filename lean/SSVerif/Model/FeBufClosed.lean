import SSVerif.Model.FeBuf
/-!
# M4, closed form — the per-call counters of `fe_process` as arithmetic on three numbers

`SSVerif/Model/FeBuf.lean` runs `fe_process` on lists of samples.  What the harness logs per call
(dry-run count, consumed, frames written, `num_overflow_samps` afterwards) depends only on
`o` = samples carried over in the overflow buffer, `n` = length of the chunk handed to the call and
`L` = output rows: this file states that dependence as closed arithmetic (`callClosed`), chains it
over the calls of a schedule (`runClosed`), and `SSVerif/Proofs/FeBufClosed.lean` proves that the list
model produces exactly these numbers for **every** schedule (`run_closed`).  Because nothing here
walks over samples, the closed form is what `ssdriver c06` evaluates for chunks far longer than the
internal buffers (2^15, 2^16, k·2^16 + small, …), where the list model is quadratic.

Every quantity is an unbounded `Nat`; that each of them fits the C type that holds it in
`src/fe_interface.c` when chunk lengths are `< 2^31` is `C06_quantities_fit_c_types`
(`SSVerif/Props/C06Closed.lean`).  Core Lean only.
-/
namespace SSVerif.FeBuf

/-- complete frames available from `n` new samples when `o` are carried over
(`frame_count` of `fe_process` before it is limited to `nframes`; `output_frame_count` returns one more) -/
def availClosed (c : Cfg) (o n : Nat) : Nat :=
  if n + o < c.size then 0 else 1 + (n + o - c.size) / c.shift

/-- one `fe_process(fe, &spch, &n, buf_cep, L)` call at rest with `o` carried-over samples:
`(consumed, frames written, carried over afterwards)`.

* fewer than a window in total: everything goes to the overflow buffer (`overflow_append`);
* no output room: nothing happens;
* otherwise `f = min(available, L)` frames; the first needs `size − o` new samples, each further one
  `shift`; then, if nothing of the old overflow data is needed any more (`o ≤ f·shift`,
  `create_overflow_frame`) up to `shift − slack` further samples are stashed, else
  (`append_overflow_frame`) the caller's buffer is re-read from its start until the overflow buffer
  holds `size − slack` samples or the chunk ends — the count `min n (size + f·shift − o − slack)` is
  taken of the WHOLE chunk length `n` (the quantity the C code computes as
  `(int)(*spch - orig + *inout_nsamps)`). -/
def callClosed (c : Cfg) (o n L : Nat) : Nat × Nat × Nat :=
  if n + o < c.size then (n, 0, o + n)
  else if L = 0 then (0, 0, o)
  else
    let f := min (availClosed c o n) L
    let p := c.size - o + (f - 1) * c.shift
    let used := if o ≤ f * c.shift then p + min (c.shift - c.slack) (n - p)
                else min n (c.size + f * c.shift - o - c.slack)
    (used, f, o + used - f * c.shift)

/-- the call log entry of that call -/
def logClosed (c : Cfg) (o n L : Nat) : CallLog :=
  let r := callClosed c o n L
  { dry := availClosed c o n + 1, limit := L, consumed := r.1, frames := r.2.1, novf := (r.2.2 : Int) }

/-- the calls made for one chunk of `n` samples (see `feedChunk`): log and carried-over count afterwards -/
def chunkClosed (c : Cfg) : Nat → Nat → List Nat → List CallLog × Nat
  | o, n, [] =>
    if n = 0 then ([], o) else
    let l := logClosed c o n (availClosed c o n + 1)
    ([l], (callClosed c o n (availClosed c o n + 1)).2.2)
  | o, n, l :: ls =>
    let r := callClosed c o n l
    let rest := chunkClosed c r.2.2 (n - r.1) ls
    (logClosed c o n l :: rest.1, rest.2)

/-- all chunks of a schedule -/
def feedClosed (c : Cfg) : Nat → List (Nat × List Nat) → List CallLog × Nat
  | o, [] => ([], o)
  | o, (n, ls) :: rest =>
    let a := chunkClosed c o n ls
    let b := feedClosed c a.2 rest
    (a.1 ++ b.1, b.2)

/-- a whole utterance with `fe_end` room ≥ 1: `(call log, frames written by fe_end, total frames)` -/
def runClosed (c : Cfg) (specs : List (Nat × List Nat)) : List CallLog × Nat × Nat :=
  let a := feedClosed c 0 specs
  let nend := if 0 < a.2 then 1 else 0
  (a.1, nend, (a.1.map (·.frames)).sum + nend)

end SSVerif.FeBuf
