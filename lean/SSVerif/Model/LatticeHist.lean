import SSVerif.Model.Lattice
/-!
# Well-formedness of the history table as `fsg_search_lattice` reads it (hypothesis of `C11Build`)

Core Lean only (the driver evaluates `histWFB` on every dumped history table).

`HistWF G h frame` is a *table-level*, decidable predicate on the dumped `fsg_hist_entry_t` array: it
constrains only what the lattice construction reads.  For every **word entry** (an entry whose
`fsglink` carries a word):

* its arc is an arc of the search grammar `G`, its frame `t` satisfies `1 ≤ t < frame`
  (`frame` = `fsgs->frame`, the number of frames searched; a word HMM has at least three emitting
  states, so no word exit is recorded in frame 0),
* its predecessor `pred` is either the dummy root (index 0; then the arc leaves the start state), or an
  earlier entry, with an earlier frame, that is
  - a word entry whose arc ends in the state this arc leaves, or
  - a null-transition entry `(pf, ε, pt)` of `G` ending in the state this arc leaves, which itself hangs
    directly below the root (`pred = 0`, frame −1, `pf` the start state) or directly below an earlier word
    entry of the same frame whose arc ends in `pf` (`fsg_search_null_prop` makes one pass over the entries
    of the frame, so null entries never chain — the FSG is closed under null transitions).

Nothing is required of the root entry, of null entries nobody refers to, or of scores.
-/
namespace SSVerif.Lattice
open SSVerif.Nfa

/-- total read of entry `i` (the C code reads `fsg_history_entry_get` unchecked; `HistWF` bounds every
index that is read) -/
def hent (h : Array HEntry) (i : Nat) : HEntry := h.getD i default

/-- the null-transition predecessor `p` (at index `pi`) of a word entry: below the root, or below an
earlier word entry of the same frame -/
def NullPredOK (G : Nfa) (h : Array HEntry) (pi : Nat) (p : HEntry) (pf : Nat) : Prop :=
  if p.pred = 0 then pf = G.start ∧ p.frame = -1
  else 0 < p.pred ∧ p.pred.toNat < pi ∧ (hent h p.pred.toNat).frame = p.frame ∧ 0 ≤ p.frame ∧
    match (hent h p.pred.toNat).arc with
    | some (_, some _, ppt) => ppt = pf
    | _ => False

instance (G : Nfa) (h : Array HEntry) (pi : Nat) (p : HEntry) (pf : Nat) : Decidable (NullPredOK G h pi p pf) := by
  unfold NullPredOK; split
  · infer_instance
  · split <;> infer_instance

/-- the predecessor of the word entry `e` at index `i`, whose arc leaves state `f` -/
def PredOK (G : Nfa) (h : Array HEntry) (i : Nat) (e : HEntry) (f : Nat) : Prop :=
  if e.pred = 0 then f = G.start
  else 0 < e.pred ∧ e.pred.toNat < i ∧ (hent h e.pred.toNat).frame < e.frame ∧
    match (hent h e.pred.toNat).arc with
    | none => False
    | some (_, some _, pt) => pt = f ∧ 0 ≤ (hent h e.pred.toNat).frame
    | some (pf, none, pt) => pt = f ∧ (pf, none, pt) ∈ G.arcs ∧ NullPredOK G h e.pred.toNat (hent h e.pred.toNat) pf

instance (G : Nfa) (h : Array HEntry) (i : Nat) (e : HEntry) (f : Nat) : Decidable (PredOK G h i e f) := by
  unfold PredOK; split
  · infer_instance
  · split <;> infer_instance

/-- what `fsg_search_lattice` needs of entry `i` -/
def EntryWF (G : Nfa) (h : Array HEntry) (frame : Nat) (i : Nat) : Prop :=
  match (hent h i).arc with
  | some (f, some w, t) =>
    (f, some w, t) ∈ G.arcs ∧ 1 ≤ (hent h i).frame ∧ (hent h i).frame < frame ∧ PredOK G h i (hent h i) f
  | _ => True

instance (G : Nfa) (h : Array HEntry) (frame i : Nat) : Decidable (EntryWF G h frame i) := by
  unfold EntryWF; split <;> infer_instance

/-- **the hypothesis of `C11_build_latticeOK`**, evaluated on every dumped history table -/
def HistWF (G : Nfa) (h : Array HEntry) (frame : Nat) : Prop := ∀ i, i < h.size → EntryWF G h frame i

/-- Boolean version run by the driver -/
def histWFB (G : Nfa) (h : Array HEntry) (frame : Nat) : Bool :=
  (List.range h.size).all fun i => decide (EntryWF G h frame i)

theorem histWFB_iff (G : Nfa) (h : Array HEntry) (frame : Nat) : histWFB G h frame = true ↔ HistWF G h frame := by
  unfold histWFB HistWF
  simp only [List.all_eq_true, List.mem_range, decide_eq_true_eq]

instance (G : Nfa) (h : Array HEntry) (frame : Nat) : Decidable (HistWF G h frame) :=
  decidable_of_iff _ (histWFB_iff G h frame)

/-- number of word entries (how much the hypothesis says) -/
def nWordEntries (h : Array HEntry) : Nat :=
  (h.toList.filter fun e => match e.arc with | some (_, some _, _) => true | _ => false).length

/-! ### complete backtraces (hypothesis of `C11_build_first_best`) -/

/-- word and target state of a word entry -/
def wordOf (e : HEntry) : Option (Nat × Nat) :=
  match e.arc with
  | some (_, some w, t) => some (w, t)
  | _ => none

def isWordEntry (h : Array HEntry) (i : Nat) : Bool := (wordOf (hent h i)).isSome

/-- the word entry before word entry `i` on its backtrace (one null entry is skipped); `none` when `i` hangs
below the root, i.e. the word starts in frame 0 -/
def prevWord (h : Array HEntry) (i : Nat) : Option Nat :=
  let e := hent h i
  if e.pred = 0 then none
  else
    let p := hent h e.pred.toNat
    match p.arc with
    | some (_, none, _) => if p.pred = 0 then none else some p.pred.toNat
    | _ => some e.pred.toNat

/-- `c` lists, in time order, the word entries of one backtrace: each is a word entry of the table whose
preceding word entry is the previous element (`prev`; `none` = the backtrace starts at the root) -/
def chainFrom (h : Array HEntry) : Option Nat → List Nat → Bool
  | _, [] => true
  | prev, i :: rest => decide (i < h.size) && isWordEntry h i && (prevWord h i == prev) && chainFrom h (some i) rest

/-- no word entry of the table has a later frame than entry `i` -/
def lastDominates (h : Array HEntry) (i : Nat) : Bool :=
  (List.range h.size).all fun j => !isWordEntry h j || decide ((hent h j).frame ≤ (hent h i).frame)

/-- **hypothesis of `C11_build_first_best`**: `c` is a complete backtrace (from the root) whose last word
ends in the last word-exit frame of the table -/
def chainOKB (h : Array HEntry) (c : List Nat) : Bool :=
  chainFrom h none c && (match c.getLast? with | some i => lastDominates h i | none => false)

/-- `(word, start frame, end frame)` of a word entry, as `fsg_search_seg_iter` reports it -/
def segOf (h : Array HEntry) (i : Nat) : Seg :=
  ⟨((wordOf (hent h i)).getD (0, 0)).1, (entrySfAscr h (hent h i)).1, (hent h i).frame.toNat⟩

def segsOf (h : Array HEntry) (c : List Nat) : List Seg := c.map (segOf h)

/-- untrusted: the backtrace that ends in word entry `i`, in time order -/
def backChain (h : Array HEntry) : Nat → Nat → List Nat → List Nat
  | 0, i, acc => i :: acc
  | fuel + 1, i, acc =>
    match prevWord h i with
    | none => i :: acc
    | some j => backChain h fuel j (i :: acc)

/-- untrusted search for a backtrace with the given segmentation (validated by `chainOKB` and by comparing
`segsOf`) -/
def findChain (h : Array HEntry) (segs : List Seg) : Option (List Nat) :=
  match segs.getLast? with
  | none => none
  | some s =>
    ((List.range h.size).filter fun i => isWordEntry h i && segOf h i == s).findSome? fun i =>
      let c := backChain h h.size i []
      if segsOf h c == segs && chainOKB h c then some c else none

/-! ### the part of `HistWF` that the search invariant `WFHist` (C01) does not record -/

/-- word exits are not recorded in frame 0; the predecessor of a null entry is the root or a word entry
(evaluated on every dumped table; hypothesis of `C11_build_reachable_search`) -/
def extraB (h : Array HEntry) : Bool :=
  (List.range h.size).all fun i =>
    match (hent h i).arc with
    | some (_, some _, _) => decide (1 ≤ (hent h i).frame)
    | some (_, none, _) => (hent h i).pred == 0 || isWordEntry h (hent h i).pred.toNat
    | none => true

/-- the first half of `extraB` alone: no word exit is recorded in frame 0 (the second half is proved for the
modelled search: `reachable_noNullChain`) -/
def wordFrameB (h : Array HEntry) : Bool :=
  (List.range h.size).all fun i =>
    match (hent h i).arc with
    | some (_, some _, _) => decide (1 ≤ (hent h i).frame)
    | _ => true

end SSVerif.Lattice
