/-!
# A total JSON recogniser (RFC 8259 syntax over bytes) and the compact printer it inverts

Used by C14: the line returned by `decoder_result_json` must parse as **one object followed by exactly one
newline**.  The recogniser works on bytes: inside strings every byte ≥ 0x20 other than `"` and `\` is a string
character (so raw UTF-8 passes, and so does any other 8-bit data — the check is syntactic), `\"`, `\\`, `\/`,
`\b`, `\f`, `\n`, `\r`, `\t` and `\uXXXX` are the escapes, control bytes are rejected.  Numbers are
`-? (0 | [1-9][0-9]*) (. [0-9]+)? ([eE] [+-]? [0-9]+)?`.  Insignificant white space is accepted where the grammar
allows it.  Totality: every function is structurally recursive (on the input, or on a fuel argument that the
entry point sets to the input length + 1).
-/
namespace SSVerif.Json

/-- parsed values; numbers keep their text, strings are unescaped bytes, objects keep member order -/
inductive JV where
  | null
  | bool (b : Bool)
  | num (raw : List UInt8)
  | str (s : List UInt8)
  | arr (l : List JV)
  | obj (kvs : List (List UInt8 × JV))
  deriving Repr

def isWs (c : UInt8) : Bool := c = 32 || c = 9 || c = 10 || c = 13

def skipWs : List UInt8 → List UInt8
  | [] => []
  | c :: t => if isWs c then skipWs t else c :: t

def isDigit (c : UInt8) : Bool := 48 ≤ c && c ≤ 57

/-- the bytes a JSON number can consist of -/
def isNumChar (c : UInt8) : Bool := isDigit c || c = 45 || c = 43 || c = 46 || c = 101 || c = 69

/-- `[eE] [+-]? [0-9]+` or nothing -/
def expOk : List UInt8 → Bool
  | [] => true
  | c :: t =>
    if c = 101 ∨ c = 69 then
      let t := match t with
        | 43 :: t' => t'
        | 45 :: t' => t'
        | _ => t
      !t.isEmpty && t.all isDigit
    else false

/-- `(. [0-9]+)?` then the exponent part -/
def fracOk : List UInt8 → Bool
  | 46 :: t => !(t.takeWhile isDigit).isEmpty && expOk (t.dropWhile isDigit)
  | s => expOk s

def intOk : List UInt8 → Bool
  | [] => false
  | c :: t =>
    if c = 48 then fracOk t
    else if 49 ≤ c ∧ c ≤ 57 then fracOk (t.dropWhile isDigit)
    else false

/-- the text is a JSON number -/
def isJsonNumber (s : List UInt8) : Bool :=
  s.all isNumChar &&
  (match s with
   | 45 :: t => intOk t
   | _ => intOk s)

def hexVal (c : UInt8) : Option Nat :=
  if 48 ≤ c ∧ c ≤ 57 then some (c.toNat - 48)
  else if 97 ≤ c ∧ c ≤ 102 then some (c.toNat - 87)
  else if 65 ≤ c ∧ c ≤ 70 then some (c.toNat - 55)
  else none

def hex4 (a b c d : UInt8) : Option Nat :=
  match hexVal a, hexVal b, hexVal c, hexVal d with
  | some w, some x, some y, some z => some (((w * 16 + x) * 16 + y) * 16 + z)
  | _, _, _, _ => none

/-- UTF-8 bytes of a code unit below 0x10000 (surrogate halves are encoded as they stand) -/
def utf8 (cp : Nat) : List UInt8 :=
  if cp < 128 then [UInt8.ofNat cp]
  else if cp < 2048 then [UInt8.ofNat (192 + cp / 64), UInt8.ofNat (128 + cp % 64)]
  else [UInt8.ofNat (224 + cp / 4096), UInt8.ofNat (128 + cp / 64 % 64), UInt8.ofNat (128 + cp % 64)]

def simpleEsc (e : UInt8) : Option UInt8 :=
  if e = 34 then some 34 else if e = 92 then some 92 else if e = 47 then some 47
  else if e = 98 then some 8 else if e = 102 then some 12 else if e = 110 then some 10
  else if e = 114 then some 13 else if e = 116 then some 9 else none

/-- after the opening quote: the unescaped content and what follows the closing quote -/
def parseStr : List UInt8 → Option (List UInt8 × List UInt8)
  | [] => none
  | c :: t =>
    if c = 34 then some ([], t)
    else if c = 92 then
      match t with
      | [] => none
      | e :: t' =>
        if e = 117 then
          match t' with
          | h1 :: h2 :: h3 :: h4 :: t'' =>
            match hex4 h1 h2 h3 h4 with
            | some cp =>
              match parseStr t'' with
              | some (s, r) => some (utf8 cp ++ s, r)
              | none => none
            | none => none
          | _ => none
        else
          match simpleEsc e with
          | some b =>
            match parseStr t' with
            | some (s, r) => some (b :: s, r)
            | none => none
          | none => none
    else if c < 32 then none
    else
      match parseStr t with
      | some (s, r) => some (c :: s, r)
      | none => none

mutual
/-- one value (leading white space allowed; nothing after the value is consumed) -/
def parseValue : Nat → List UInt8 → Option (JV × List UInt8)
  | 0, _ => none
  | fuel + 1, s =>
    match skipWs s with
    | [] => none
    | c :: t =>
      if c = 123 then
        match skipWs t with
        | 125 :: t' => some (.obj [], t')
        | t' =>
          match parseMembers fuel t' with
          | some (kvs, r) => some (.obj kvs, r)
          | none => none
      else if c = 91 then
        match skipWs t with
        | 93 :: t' => some (.arr [], t')
        | t' =>
          match parseElems fuel t' with
          | some (l, r) => some (.arr l, r)
          | none => none
      else if c = 34 then
        match parseStr t with
        | some (str, r) => some (.str str, r)
        | none => none
      else if c = 116 then
        match t with
        | 114 :: 117 :: 101 :: r => some (.bool true, r)
        | _ => none
      else if c = 102 then
        match t with
        | 97 :: 108 :: 115 :: 101 :: r => some (.bool false, r)
        | _ => none
      else if c = 110 then
        match t with
        | 117 :: 108 :: 108 :: r => some (.null, r)
        | _ => none
      else
        let n := (c :: t).takeWhile isNumChar
        if isJsonNumber n then some (.num n, (c :: t).dropWhile isNumChar) else none

/-- `value (, value)* ]` -/
def parseElems : Nat → List UInt8 → Option (List JV × List UInt8)
  | 0, _ => none
  | fuel + 1, s =>
    match parseValue fuel s with
    | none => none
    | some (v, r) =>
      match skipWs r with
      | 44 :: r' =>
        match parseElems fuel r' with
        | some (l, r'') => some (v :: l, r'')
        | none => none
      | 93 :: r' => some ([v], r')
      | _ => none

/-- `string : value (, string : value)* }` -/
def parseMembers : Nat → List UInt8 → Option (List (List UInt8 × JV) × List UInt8)
  | 0, _ => none
  | fuel + 1, s =>
    match skipWs s with
    | 34 :: t =>
      match parseStr t with
      | none => none
      | some (k, r) =>
        match skipWs r with
        | 58 :: r1 =>
          match parseValue fuel r1 with
          | none => none
          | some (v, r2) =>
            match skipWs r2 with
            | 44 :: r3 =>
              match parseMembers fuel r3 with
              | some (kvs, r4) => some ((k, v) :: kvs, r4)
              | none => none
            | 125 :: r3 => some ([(k, v)], r3)
            | _ => none
        | _ => none
    | _ => none
end

/-- the whole line: one JSON **object**, then exactly one newline, then nothing -/
def parseLine (s : List UInt8) : Option JV :=
  match parseValue (s.length + 1) s with
  | some (.obj kvs, [10]) => some (.obj kvs)
  | _ => none

/-! ## the compact printer -/

def hexDigit (n : UInt8) : UInt8 := if n < 10 then 48 + n else 87 + n   -- "0123456789abcdef"[n]

/-- string escaping as `json_escape` of the repaired decoder.c does it (one loop iteration) -/
def escByte (c : UInt8) : List UInt8 :=
  if c = 34 ∨ c = 92 then [92, c]
  else if c < 32 then [92, 117, 48, 48, hexDigit (c >>> 4), hexDigit (c &&& 15)]
  else [c]

def printStr (s : List UInt8) : List UInt8 := 34 :: s.flatMap escByte ++ [34]

mutual
def printV : JV → List UInt8
  | .null => [110, 117, 108, 108]
  | .bool true => [116, 114, 117, 101]
  | .bool false => [102, 97, 108, 115, 101]
  | .num raw => raw
  | .str s => printStr s
  | .arr l => 91 :: printL l ++ [93]
  | .obj kvs => 123 :: printM kvs ++ [125]
/-- elements separated by commas -/
def printL : List JV → List UInt8
  | [] => []
  | v :: t => printV v ++ (match t with
    | [] => []
    | _ :: _ => 44 :: printL t)
/-- members `"key":value` separated by commas -/
def printM : List (List UInt8 × JV) → List UInt8
  | [] => []
  | (k, v) :: t => printStr k ++ 58 :: printV v ++ (match t with
    | [] => []
    | _ :: _ => 44 :: printM t)
end

end SSVerif.Json
