import SSVerif.Model.BinMdef
/-!
# M16c — configuration flags of the model-file readers, and the length bookkeeping of a file mapping

* `bin_mdef_read_s3file(s, cionly)` (src/bin_mdef.c:336-590).  The documented configuration flag `cionly`
  is read exactly ONCE by the reader, at bin_mdef.c:575, *after* the whole file has been scanned and both
  maps have been built: `if (cionly) m->cd_tree = NULL;`.  Every bound check, every in-place byte swap
  (including the `cd_tree` check and swap loop, bin_mdef.c:455-470) and every table read is executed for
  both values of the flag.  `mdefPlanCi` is that function with its flag; the read plan is `mdefPlan`, the
  flag only selects the value of the `cd_tree` pointer of the result.
* `mmio_file_read` / `mmio_file_unmap` (src/mmio.c:125-173): the file is mapped with `mmap(NULL, st_size, …)`
  (the kernel maps every page that holds a byte of `[0, st_size)`), the page-rounded length
  `mapsize = (st_size + pagesize - 1) / pagesize * pagesize` is stored at map time and is the length given to
  `munmap`.  `mapLen` is that formula, `Mapping` the two-event ledger of one mapped file.

Core Lean only.
-/
namespace SSVerif.S3file

/-- result of `bin_mdef_read_s3file(s, cionly)`: the tables of `mdefPlan` + the `cd_tree` pointer
(`none` = `NULL`, otherwise the file offset of the tree) -/
structure MdefOutCi where
  out : MdefOut
  cdTree : Option Nat

/-- `bin_mdef_read_s3file(s, cionly)`: bin_mdef.c:336-573 do not mention `cionly`; l.575-577 drop the tree -/
def mdefPlanCi (f : File) (cionly : Bool) : Res MdefOutCi := do
  let o ← mdefPlan f
  .ok { out := o, cdTree := if cionly then none else some o.lay.treeOff }

/-- `mf->mapsize` (mmio.c:155): the file length rounded up to whole pages -/
def mapLen (size page : Nat) : Nat := (size + page - 1) / page * page

/-- number of pages the kernel touches for a request of `len` bytes at a page-aligned address
(`mmap` maps, `munmap` unmaps every page that holds a byte of `[addr, addr+len)`) -/
def pagesOf (len page : Nat) : Nat := (len + page - 1) / page

/-- the bookkeeping of one mapped file: what `mmap` was asked for, what `munmap` is given -/
structure Mapping where
  mapped : Nat
  unmapped : Nat
deriving Repr

/-- `mmio_file_read` … `mmio_file_unmap` on a file of `size` bytes -/
def mmioLife (size page : Nat) : Mapping := { mapped := size, unmapped := mapLen size page }

end SSVerif.S3file
