/-!
# Ownership ledgers of the error paths (C17 `reject_leaves_clean`)

For each loader, the heap objects it allocates and the `alloc`/`free` events it performs, as a
function of the *stage* at which it fails (the reject sites of the read plans in
`Model/S3file.lean`) — transcribed from the clean-up code of the C functions **with the D19
repairs applied**; the `pinned` flag switches back to the clean-up code of the pinned tree where it
differs.  Objects handed to the caller on success (or through an out-parameter) stay live.
Core Lean only.
-/
namespace SSVerif.S3file.Ledger

inductive Ev where
  | alloc (id : Nat)
  | free (id : Nat)
deriving Repr, DecidableEq

/-- replay a ledger: `none` on a free of something not live (double free / free of garbage) or an
allocation of a live id; otherwise the objects still live at the end -/
def replay : List Ev → List Nat → Option (List Nat)
  | [], live => some live
  | .alloc i :: r, live => if live.contains i then none else replay r (i :: live)
  | .free i :: r, live => if live.contains i then replay r (live.erase i) else none

/-- released exactly once: no bad free, and exactly `keep` is still live (in any order) -/
def clean (l : List Ev) (keep : List Nat) : Bool :=
  match replay l [] with
  | none => false
  | some live => live.all keep.contains && keep.all live.contains

open Ev

/-! ## `s3file_get_1d/_2d/_3d` (s3file.c:446-548); object 0 = `*buf`/`raw`, 1 = the row table
(`ckd_alloc_2d_ptr`/`ckd_alloc_3d_ptr`: one object at the level of the `ckd_*` entry points, which is
the granularity of all ledgers and of the allocation traces they are compared with) -/

inductive ArrStage where
  | dims        -- a dimension / the size cannot be read, or the size is bad: nothing allocated yet
  | data        -- the array data are short
  | mismatch    -- size ≠ product of the dimensions (2-d, 3-d only)
  | ok
deriving Repr, DecidableEq

def get1d (pinned : Bool) : ArrStage → List Ev
  | .dims => []
  | .data => if pinned then [alloc 0] else [alloc 0, free 0]     -- D19b: `*buf` was leaked
  | .mismatch => []
  | .ok => [alloc 0]

def get2d (pinned : Bool) : ArrStage → List Ev
  | .dims => []
  | .data => get1d pinned .data
  | .mismatch => [alloc 0, free 0]                               -- D19f (pinned: `assert`)
  | .ok => [alloc 0, alloc 1]

def get3d (pinned : Bool) : ArrStage → List Ev
  | .dims => []
  | .data => get1d pinned .data
  | .mismatch => [alloc 0, free 0]
  | .ok => [alloc 0, alloc 1]

/-! ## `tmat_init_s3file` (tmat.c:107-228); 0 = `t`, 1 = `t->tp`, 2 = the temporary `tp` -/

inductive TmatStage where
  | header      -- `s3file_parse_header`, the four counts, the range / product / length checks
  | row         -- a matrix cannot be read
  | chksum      -- `s3file_verify_chksum` fails after all matrices were read
  | topology    -- not upper triangular / not Bakis (D19c: error return instead of exit)
  | ok
deriving Repr, DecidableEq

def tmat (pinned : Bool) : TmatStage → List Ev
  | .header => [alloc 0, free 0]
  | .row => [alloc 0, alloc 1, alloc 2, free 2, free 1, free 0]
  | .chksum =>
    -- D19b: the pinned code frees `tp` before the checksum test and again at `error_out`
    [alloc 0, alloc 1, alloc 2, free 2] ++ (if pinned then [free 2] else []) ++ [free 1, free 0]
  | .topology => [alloc 0, alloc 1, alloc 2, free 2, free 1, free 0]
  | .ok => [alloc 0, alloc 1, alloc 2, free 2]

/-! ## `gauden_param_read` (ms_gauden.c:103-204); `b` = id base; b+0 = `veclen` (handed to the
caller through `*out_veclen` as soon as it exists), b+1 = `out`, b+2 = `buf` -/

inductive ParamStage where
  | header      -- header, the three counts, their validation
  | veclen      -- the vector lengths / the total count cannot be read or do not match
  | data        -- the float data are short
  | chksum
  | ok
deriving Repr, DecidableEq

def param (b : Nat) : ParamStage → List Ev
  | .header => []
  | .veclen => [alloc b]
  | .data => [alloc b, alloc (b + 1), alloc (b + 2), free (b + 1), free (b + 2)]
  | .chksum => [alloc b, alloc (b + 1), alloc (b + 2), free (b + 1), free (b + 2)]
  | .ok => [alloc b, alloc (b + 1), alloc (b + 2)]

def paramLive (b : Nat) : ParamStage → List Nat
  | .header => []
  | .ok => [b, b + 1, b + 2]
  | _ => [b]

/-! ## `gauden_init_s3file` (ms_gauden.c:262-300); 0 = `g`, 10.. = means (`g->featlen`,
`g->mean`), 20.. = variances (`flen`, `g->var`), 30 = `g->det` -/

inductive GauStage where
  | means (s : ParamStage)      -- s ≠ ok: reading the means fails at s
  | vars (s : ParamStage)       -- means read, reading the variances fails at s
  | mismatch                    -- both read, dimensions differ
  | ok
deriving Repr, DecidableEq

/-- `gauden_free(g)` + `ckd_free(flen)` on whatever exists -/
def gauUnwind (live : List Nat) : List Ev :=
  -- gauden_param_free releases `buf` (p[0][0][0]) before the pointer table
  ([20, 12, 11, 22, 21, 30, 10, 0].filter live.contains).map free

def gauden : GauStage → List Ev
  | .means s => [alloc 0] ++ param 10 s ++ gauUnwind (0 :: paramLive 10 s)
  | .vars s => [alloc 0] ++ param 10 .ok ++ param 20 s ++ gauUnwind (0 :: paramLive 10 .ok ++ paramLive 20 s)
  | .mismatch => [alloc 0] ++ param 10 .ok ++ param 20 .ok ++ gauUnwind [0, 10, 11, 12, 20, 21, 22]
  | .ok => [alloc 0] ++ param 10 .ok ++ param 20 .ok ++ [free 20, alloc 30]

/-! ## `feat_read_lda_s3file` (lda.c:83-125); 0,1 = the 3-d array read by this call (data block, row table);
8,9 = data block and row table of a previous `feat->lda` (allocated by an earlier, successful call) -/

inductive LdaStage where
  | header
  | array (s : ArrStage)        -- s ≠ ok: `s3file_get_3d` fails at s
  | chksum
  | dims                        -- matrix width ≠ stream length (the matrix stays in `feat->lda`)
  | ok
deriving Repr, DecidableEq

/-- the previous matrix: allocated before, released by `ckd_free_3d(feat->lda)` (data block first, then the row
table) once the header of the new file has been accepted -/
def ldaOld (hadOld released : Bool) : List Ev :=
  if hadOld then [alloc 8, alloc 9] ++ (if released then [free 8, free 9] else []) else []

/-- `hadOld`: `feat->lda` was set before the call.  Returns the events and whether `feat->lda`
is left pointing at freed memory (D19b: the pinned code leaves the old pointer in place). -/
def lda (pinned hadOld : Bool) : LdaStage → List Ev × Bool
  | .header => (ldaOld hadOld false, false)
  | .array s => (ldaOld hadOld true ++ get3d pinned s, hadOld && pinned)
  | .chksum => (ldaOld hadOld true ++ get3d pinned .ok ++ [free 0, free 1], hadOld && pinned)
  | .dims => (ldaOld hadOld true ++ get3d pinned .ok, false)
  | .ok => (ldaOld hadOld true ++ get3d pinned .ok, false)

/-! ## `bin_mdef_read_s3file` (bin_mdef.c:336-590); 0 = `m`, 1 = `m->ciname`, 2 = `m->sseq`,
3 = `m->cd2cisen`, 4 = `m->sen2cimap`, 5 = `m->ciname[0]` (the copy of an other-endian file) -/

inductive MdefStage where
  | pre       -- byte-order marker, version, descriptor: `m` not allocated yet
  | counts    -- a count cannot be read / the counts are inconsistent
  | tables    -- names, cd_tree, phone records, sseq_size, sseq area do not fit
  | seqs      -- sseq size does not match / sseq_len truncated (after `m->sseq` was allocated)
  | maps      -- a phone record or a senone sequence refers to something that does not exist
  | ok
deriving Repr, DecidableEq

/-- `bin_mdef_free` releases (the copy), `cd2cisen`, `sen2cimap`, `ciname`, `sseq`, `m` -/
def mdefUnwind (live : List Nat) : List Ev :=
  ([5, 3, 4, 1, 2, 0].filter live.contains).map free

def mdef (swap : Bool) : MdefStage → List Ev
  | .pre => []
  | .counts => [alloc 0] ++ mdefUnwind [0]
  | .tables => [alloc 0, alloc 1] ++ (if swap then [alloc 5] else []) ++ mdefUnwind ([0, 1] ++ if swap then [5] else [])
  | .seqs => [alloc 0, alloc 1] ++ (if swap then [alloc 5] else []) ++ [alloc 2] ++ mdefUnwind ([0, 1, 2] ++ if swap then [5] else [])
  | .maps => [alloc 0, alloc 1] ++ (if swap then [alloc 5] else []) ++ [alloc 2, alloc 3, alloc 4] ++
      mdefUnwind ([0, 1, 2, 3, 4] ++ if swap then [5] else [])
  | .ok => [alloc 0, alloc 1] ++ (if swap then [alloc 5] else []) ++ [alloc 2, alloc 3, alloc 4]

def mdefKeep (swap : Bool) : List Nat := [0, 1, 2, 3, 4] ++ if swap then [5] else []

/-! ## `ptm_mgau_init_s3file` (ptm_mgau.c:772-885) with `read_sendump`/`read_mixw`; 0 = `s`, 1 = the
codebooks `g` (as one object: `gauden_init_s3file`/`gauden_free`, whose own ledger is `gauden`),
2 = `*out_mixw`, 3 = `pdf` (read_mixw), 4 = `s->sen2cb`, 5 = `s->hist`, 10 = `s->replay` (the second
two-slot top-N history, D63), 6,7 / 11,12 = `hist[i].topn` of the two histories, 8,9 / 13,14 =
`hist[i].mgau_active` (allocated by `ptm_mgau_reset_hist`, once for `s->hist`, once for
`s->replay`).  The log tables (`logmath_init`) are reference-counted objects of another module
and not part of this ledger. -/

inductive PtmStage where
  | gauden    -- the codebooks cannot be read (`g` is allocated and released inside gauden_init_s3file)
  | checks    -- codebook count / stream dimensions do not match the model definition / front end
  | sdHead    -- read_sendump fails before the row table is allocated
  | sdRows    -- read_sendump: the rows are truncated
  | mxHead    -- read_mixw fails before anything is allocated
  | nsen      -- D19l: senone count of the mixture weights ≠ model definition
  | okSd | okMx
deriving Repr, DecidableEq

/-- `ptm_mgau_free`: mixw, sen2cb, slot by slot the two histories, hist, replay, the codebooks, `s` -/
def ptmUnwind (live : List Nat) : List Ev :=
  ([2, 4, 6, 8, 11, 13, 7, 9, 12, 14, 5, 10, 1, 0].filter live.contains).map free

/-- sen2cb, the two history arrays, then `ptm_mgau_reset_hist` for `hist` and for `replay` -/
def ptmTail : List Ev :=
  [alloc 4, alloc 5, alloc 10, alloc 6, alloc 8, alloc 7, alloc 9, alloc 11, alloc 13, alloc 12, alloc 14]

def ptm : PtmStage → List Ev
  | .gauden => [alloc 0, alloc 1, free 1, free 0]
  | .checks => [alloc 0, alloc 1] ++ ptmUnwind [0, 1]
  | .sdHead => [alloc 0, alloc 1] ++ ptmUnwind [0, 1]
  | .sdRows => [alloc 0, alloc 1, alloc 2] ++ ptmUnwind [0, 1, 2]
  | .mxHead => [alloc 0, alloc 1] ++ ptmUnwind [0, 1]
  | .nsen => [alloc 0, alloc 1, alloc 2, alloc 3, free 3] ++ ptmUnwind [0, 1, 2]
  | .okSd => [alloc 0, alloc 1, alloc 2] ++ ptmTail
  | .okMx => [alloc 0, alloc 1, alloc 2, alloc 3, free 3] ++ ptmTail

def ptmKeep : List Nat := [0, 1, 2, 4, 5, 6, 7, 8, 9, 10, 11, 12, 13, 14]

/-! ## names of the objects: `<file>:<left-hand side of the allocating assignment>` — what the
allocation traces of the harness are abstracted to (tools/props/c17.py) -/

def arrName : Nat → String
  | 0 => "s3file.c:*buf"
  | _ => "s3file.c:*arr"

/-- 0, 8 = the data block (`*buf` of `s3file_get_1d`), 1, 9 = the row table (`*arr`) -/
def ldaName : Nat → String
  | 0 => "s3file.c:*buf"
  | 8 => "s3file.c:*buf"
  | _ => "s3file.c:*arr"

def tmatName : Nat → String
  | 0 => "tmat.c:t"
  | 1 => "tmat.c:t->tp"
  | _ => "tmat.c:tp"

def gauName (i : Nat) : String :=
  if i = 0 then "ms_gauden.c:g" else if i = 30 then "ms_gauden.c:g->det"
  else if i % 10 = 0 then "ms_gauden.c:veclen" else if i % 10 = 1 then "ms_gauden.c:out" else "ms_gauden.c:buf"

def mdefName : Nat → String
  | 0 => "bin_mdef.c:m"
  | 1 => "bin_mdef.c:m->ciname"
  | 2 => "bin_mdef.c:m->sseq"
  | 3 => "bin_mdef.c:m->cd2cisen"
  | 4 => "bin_mdef.c:m->sen2cimap"
  | _ => "bin_mdef.c:m->ciname[0]"

def ptmName : Nat → String
  | 0 => "ptm_mgau.c:s"
  | 1 => "ms_gauden.c:g"
  | 2 => "ptm_mgau.c:*out_mixw"
  | 3 => "ptm_mgau.c:pdf"
  | 4 => "ptm_mgau.c:s->sen2cb"
  | 5 => "ptm_mgau.c:s->hist"
  | 10 => "ptm_mgau.c:s->replay"
  | 6 => "ptm_mgau.c:hist[i].topn"
  | 7 => "ptm_mgau.c:hist[i].topn"
  | 11 => "ptm_mgau.c:hist[i].topn"
  | 12 => "ptm_mgau.c:hist[i].topn"
  | _ => "ptm_mgau.c:hist[i].mgau_active"

end SSVerif.S3file.Ledger
