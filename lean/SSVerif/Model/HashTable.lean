/-!
# M2 — model of `src/hash_table.c`

Chained hash table with an in-table head entry per bucket.  A bucket is modelled
as the list "head entry followed by the chain in pointer order" (empty list =
`table[i].key == NULL`).  The model is generic in the hash function and the key
comparison (`Params`); the three legitimate modes of the C code (string keys
case-sensitive, string keys case-insensitive, binary keys case-sensitive) are
instances defined at the end and are what the driver executes.
-/
namespace SSVerif.HashTable

abbrev Key := List UInt8

structure Entry where
  key : Key
  val : Int
deriving Repr, DecidableEq, Inhabited

/-- hash function and key comparison of one table mode -/
structure Params where
  hashf : Key → Nat
  keq : Key → Key → Bool

structure HT where
  size : Nat
  buckets : List (List Entry)
  inuse : Int
deriving Repr

def HT.new (size : Nat) : HT := { size, buckets := List.replicate size [], inuse := 0 }

def HT.bucket (h : HT) (i : Nat) : List Entry := h.buckets.getD i []

variable (P : Params)

/-- `lookup()` of the C code on one bucket: first entry whose key compares equal -/
def findB (b : List Entry) (k : Key) : Option Entry := b.find? (fun e => P.keq e.key k)

def lookup (h : HT) (k : Key) : Option Int := (findB P (h.bucket (P.hashf k)) k).map (·.val)

/-- overwrite key and value of the first matching entry (`replace` branch of `enter()`) -/
def replaceFirst (k : Key) (v : Int) : List Entry → List Entry
  | [] => []
  | e :: es => if P.keq e.key k then ⟨k, v⟩ :: es else e :: replaceFirst k v es

/-- insertion of a new entry: into the empty head slot, else right after the head -/
def insertB (k : Key) (v : Int) : List Entry → List Entry
  | [] => [⟨k, v⟩]
  | hd :: tl => hd :: ⟨k, v⟩ :: tl

/-- `enter()`: returns the new table and the value the C function returns -/
def enter (h : HT) (k : Key) (v : Int) (repl : Bool) : HT × Int :=
  let i := P.hashf k
  let b := h.bucket i
  match findB P b k with
  | some e =>
    if repl then ({ h with buckets := h.buckets.set i (replaceFirst P k v b) }, e.val)
    else (h, e.val)
  | none =>
    ({ h with buckets := h.buckets.set i (insertB k v b), inuse := h.inuse + 1 }, v)

/-- remove the first matching entry; removing the head promotes the next chain entry -/
def eraseB (k : Key) : List Entry → List Entry
  | [] => []
  | e :: es => if P.keq e.key k then es else e :: eraseB k es

/-- `delete()`: `none` is the C function's NULL -/
def delete (h : HT) (k : Key) : HT × Option Int :=
  let i := P.hashf k
  let b := h.bucket i
  match findB P b k with
  | some e => ({ h with buckets := h.buckets.set i (eraseB P k b), inuse := h.inuse - 1 }, some e.val)
  | none => (h, none)

def empty (h : HT) : HT := { h with buckets := List.replicate h.size [], inuse := 0 }

/-- order in which `hash_table_iter` visits the entries -/
def iter (h : HT) : List Entry := h.buckets.flatten

/-- `hash_table_tolist`: `glist_add_ptr` prepends, so the list is the reverse visit order -/
def tolist (h : HT) : List Entry := (iter h).reverse

/-! ## the concrete modes -/

def upper (c : UInt8) : UInt8 := if 97 ≤ c ∧ c ≤ 122 then c - 32 else c

/-- sign extension of a C `char` to 32 bits -/
def sext (c : UInt8) : UInt32 := if c < 128 then c.toUInt32 else c.toUInt32 + 0xFFFFFF00

/-- `key2hash` before the final `% size`; `s` cycles 0,5,10,15,20,1,6,… -/
def hashLoop (nocase : Bool) : List UInt8 → UInt32 → Nat → UInt32
  | [], acc, _ => acc
  | c :: cs, acc, s =>
    let v : UInt32 := if nocase then (upper c).toUInt32 else sext c
    let s' := if s + 5 ≥ 25 then s + 5 - 24 else s + 5
    hashLoop nocase cs (acc + (v <<< s.toUInt32)) s'

def key2hash (size : Nat) (nocase : Bool) (k : Key) : Nat := (hashLoop nocase k 0 0).toNat % size

/-- `makekey`: two letters per byte -/
def makekey (k : Key) : Key :=
  k.flatMap fun b => [(65 : UInt8) + (b &&& 0x0f), (74 : UInt8) + ((b >>> 4) &&& 0x0f)]

/-- `keycmp_case` / `keycmp_nocase` preceded by the `entry->len != len` test -/
def keycmp (nocase : Bool) : Key → Key → Bool
  | [], [] => true
  | a :: as, b :: bs =>
    (if nocase then upper a == upper b else a == b) && keycmp nocase as bs
  | _, _ => false

def strParams (size : Nat) (nocase : Bool) : Params :=
  { hashf := key2hash size nocase, keq := keycmp nocase }

/-- binary keys (documented for case-sensitive tables only) -/
def binParams (size : Nat) : Params :=
  { hashf := fun k => key2hash size false (makekey k), keq := keycmp false }

/-- `prime_size(size + (size >> 1))` over the table `primes` (regenerated from the source) -/
def primeSize (primes : List Nat) (req : Nat) : Nat :=
  match primes.find? (fun p => ¬ p < req) with
  | some p => p
  | none => primes.getLastD 0

end SSVerif.HashTable
