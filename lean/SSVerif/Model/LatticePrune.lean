import SSVerif.Model.Lattice
/-!
# M12p — `lattice_posterior_prune` + `lattice_delete_unreachable` (`src/ps_lattice.c` l.1000-1070, l.135-216)

Core Lean only (linked into `ssdriver-c12p`).  The model follows the code of the CURRENT tree (with the
repairs D58 — start node always kept —, D69 and D99 — forward sweep `dag_mark_from`):

1. `lattice_traverse_edges(dag, start, end)` … `lattice_traverse_next`: the links are visited in the order
   `traverseEdges L` (the fan-in counters are computed once, before anything is deleted, and a pruned link
   has already been popped and counted when it is freed, so the visiting order is the one of the
   unpruned lattice; the exit list of a node is pushed when the node is expanded, i.e. before any of its
   exits is visited, hence unmodified).
2. Every visited link resets `link->from->reachable`; a node that is not the source of a visited link keeps
   its flag (`stale`; after construction and after every earlier prune all flags are TRUE).
3. A visited link is unlinked and freed when `link->alpha + link->beta - dag->norm < beam` (strict, `int32`);
   `post l` is that value.  Unlinking rebuilds the exit list of `link->from` (and the entry list of
   `link->to`) by pushing the other elements on a new list: the order of what stays is REVERSED at every
   prune, so after `k` prunes out of a node its exit list is the filtered original list, reversed iff `k` is odd.
4. `dag_mark_reachable(end)`: depth-first over the entry lists from the end node, not entering nodes whose
   flag is (still) set: `reachGo … stale [final]`; flag = `stale ∨ visited`.
5. `dag_mark_from(start)`: depth-first over the exit lists from the start (scratch mark in `info.fanin`).
   Only the SET of marked nodes is observable, so both sweeps are modelled by a level iteration.
6. kept nodes: `start`, `end`, and every node with both marks.  `lattice_delete_unreachable` unlinks the
   others from `dag->nodes` (order of the rest unchanged), renumbers `node->id` 0,1,2… in list order
   (`idx`), and `remove_dangling_links` drops from the remaining exit/entry lists the links whose other end
   was deleted (order of the rest unchanged).
7. return value: the number of links pruned in step 3.
-/
namespace SSVerif.Lattice

/-- one link list in place of another (paths over the surviving links, same node numbering) -/
def Lat.withLinks (L : Lat) (S : List Link) : Lat := { L with links := S }

/-- level iteration of a depth-first mark: `M` = marked so far (newest first); one round adds the heads
`b l` of the links `l ∈ S` whose tail `a l` is marked, unless blocked or already marked; stops when a
round adds nothing.  (`a = src, b = dst`: forward sweep; `a = dst, b = src`: backward sweep.) -/
def reachGo (S : List Link) (a b : Link → Nat) (blk : Nat → Bool) : Nat → List Nat → List Nat
  | 0, M => M
  | fuel + 1, M =>
    let new := (S.filter fun l => M.contains (a l) && !blk (b l) && !M.contains (b l)).map b
    if new.isEmpty then M else reachGo S a b blk fuel (new ++ M)

/-- the link is visited by the traversal and its posterior is below the beam (`<`, l.1034) -/
def cutB (vis : List Link) (post : Link → Int) (beam : Int) (l : Link) : Bool :=
  vis.contains l && decide (post l < beam)

/-- links that are not pruned in the traversal loop -/
def survivors (L : Lat) (post : Link → Int) (beam : Int) : List Link :=
  L.links.filter fun l => !cutB (traverseEdges L) post beam l

/-- `reachable` flag that the traversal loop does not reset (l.1033), `vis` = the visited links -/
def staleV (vis : List Link) (v : Nat) : Bool := !(vis.any fun l => l.src == v)

def stale (L : Lat) (v : Nat) : Bool := staleV (traverseEdges L) v

/-- fuel of the sweeps: on a well-formed lattice a path has at most `nframes + 1` links -/
def sweepFuel (L : Lat) : Nat := L.nframes + 2

/-- `dag_mark_from(dag->start)` over the surviving links -/
def fromStart (L : Lat) (S : List Link) : List Nat :=
  reachGo S (·.src) (·.dst) (fun _ => false) (sweepFuel L) [L.start]

/-- nodes entered by `dag_mark_reachable(dag->end)` over the surviving links -/
def toEnd (L : Lat) (S : List Link) : List Nat :=
  reachGo S (·.dst) (·.src) (stale L) (sweepFuel L) [L.final]

/-- the node survives `lattice_delete_unreachable` (l.1050-1063) -/
def keepB (L : Lat) (S : List Link) (v : Nat) : Bool :=
  v == L.start || v == L.final ||
    ((fromStart L S).contains v && (stale L v || (toEnd L S).contains v))

/-- exit list of `v` after the traversal loop: what is left, reversed once per pruned exit -/
def exitsCut (L : Lat) (post : Link → Int) (beam : Int) (v : Nat) : List Link :=
  let cut := cutB (traverseEdges L) post beam
  let xs := (exits L v).filter fun l => !cut l
  if ((exits L v).filter cut).length % 2 = 1 then xs.reverse else xs

/-- surviving nodes in list order (old numbers) -/
def keepOrder (L : Lat) (post : Link → Int) (beam : Int) : List Nat :=
  (List.range L.n).filter (keepB L (survivors L post beam))

/-- new number (`node->id`) of a surviving node -/
def renumNode (order : List Nat) (v : Nat) : Nat := order.idxOf v

def renumLink (order : List Nat) (l : Link) : Link :=
  { l with src := renumNode order l.src, dst := renumNode order l.dst }

/-- links of the pruned lattice before renumbering, in the order of the C exit lists -/
def keptLinks (L : Lat) (post : Link → Int) (beam : Int) : List Link :=
  let S := survivors L post beam
  (keepOrder L post beam).flatMap fun v => (exitsCut L post beam v).filter fun l => keepB L S l.dst

/-- return value of `lattice_posterior_prune`: one per visited link below the beam -/
def nPruned (L : Lat) (post : Link → Int) (beam : Int) : Nat :=
  ((traverseEdges L).filter fun l => decide (post l < beam)).length

/-- the lattice that `lattice_posterior_prune(dag, beam)` leaves -/
def prunedLat (L : Lat) (post : Link → Int) (beam : Int) : Lat :=
  let order := keepOrder L post beam
  { nframes := L.nframes,
    nodes := order.map L.node,
    links := (keptLinks L post beam).map (renumLink order),
    start := renumNode order L.start,
    final := renumNode order L.final }

/-- **`lattice_posterior_prune(dag, beam)`**: the lattice it leaves and its return value -/
def posteriorPrune (L : Lat) (post : Link → Int) (beam : Int) : Lat × Nat :=
  (prunedLat L post beam, nPruned L post beam)

/-! ### the unlink loop as the code runs it (l.1035-1046)

`exitsCut` above is the closed form; `exitsLoop` follows the code: the exit list of `v` is carried through the
traversal, and for every visited link out of `v` below the beam the list is rebuilt by walking it and pushing every
element but the pruned one on a new list (`x->next = tmp; tmp = x`).  `Prune.exitsLoop_eq`
(`Proofs/LatticePruneLoop.lean`) proves the two equal on every well-formed lattice. -/

/-- `for (x = exits; x; x = next) { if (x->link == link) free(x); else { x->next = tmp; tmp = x; } }` -/
def pushOthers (l : Link) (xs : List Link) : List Link :=
  xs.foldl (fun tmp x => if x = l then tmp else x :: tmp) []

def unlinkStep (post : Link → Int) (beam : Int) (v : Nat) (xs : List Link) (l : Link) : List Link :=
  if l.src = v ∧ post l < beam then pushOthers l xs else xs

/-- exit list of `v` after the traversal loop, computed the way the code does -/
def exitsLoop (L : Lat) (post : Link → Int) (beam : Int) (v : Nat) : List Link :=
  (traverseEdges L).foldl (unlinkStep post beam v) (exits L v)

/-! ### the same computation with the shared parts evaluated once (what the driver runs)

`posteriorPrune` is written for the proofs: `traverseEdges L`, the surviving links and the two sweeps occur inside
lambdas and would be recomputed at every call.  `posteriorPruneFast` binds them once; `posteriorPruneFast_eq` shows
it is the same function (by unfolding). -/

def keepV (L : Lat) (vis : List Link) (fs te : List Nat) (v : Nat) : Bool :=
  v == L.start || v == L.final || (fs.contains v && (staleV vis v || te.contains v))

/-- surviving nodes (old numbers, in order), links of the pruned lattice before renumbering, return value -/
def prunePartsFast (L : Lat) (post : Link → Int) (beam : Int) : List Nat × List Link × Nat :=
  let vis := traverseEdges L
  let cut := cutB vis post beam
  let S := L.links.filter fun l => !cut l
  let fs := reachGo S (·.src) (·.dst) (fun _ => false) (sweepFuel L) [L.start]
  let te := reachGo S (·.dst) (·.src) (staleV vis) (sweepFuel L) [L.final]
  let keep := keepV L vis fs te
  let order := (List.range L.n).filter keep
  let exitsC := fun v =>
    let xs := (exits L v).filter fun l => !cut l
    if ((exits L v).filter cut).length % 2 = 1 then xs.reverse else xs
  let kl := order.flatMap fun v => (exitsC v).filter fun l => keep l.dst
  (order, kl, (vis.filter fun l => decide (post l < beam)).length)

theorem prunePartsFast_eq (L : Lat) (post : Link → Int) (beam : Int) :
    prunePartsFast L post beam = (keepOrder L post beam, keptLinks L post beam, nPruned L post beam) := rfl

def posteriorPruneFast (L : Lat) (post : Link → Int) (beam : Int) : Lat × Nat :=
  let parts := prunePartsFast L post beam
  let order := parts.1
  ({ nframes := L.nframes,
     nodes := order.map L.node,
     links := parts.2.1.map (renumLink order),
     start := renumNode order L.start,
     final := renumNode order L.final },
   parts.2.2)

theorem posteriorPruneFast_eq (L : Lat) (post : Link → Int) (beam : Int) :
    posteriorPruneFast L post beam = posteriorPrune L post beam := rfl

end SSVerif.Lattice
