import SSVerif.Model.Isolation
import SSVerif.Generated.Fields
/-!
# M15 — the decoder's per-utterance state as a dataflow system (C08)

*Cells.*  Every field of the generated inventory (`SSVerif.Generated.Field`, regenerated from the
headers by `tools/gen_fields.py`) and every writable global (`SSVerif.Generated.Global`) is assigned
to a **group** (`classTable`, `globalTable`); the groups are the cells of the dataflow system
`decoderSys`.  A group has a **kind**:

| kind | groups | meaning |
|------|--------|---------|
| persistent | `cfg` `gram` | configuration / models / dictionary; grammar-derived search structure.  Written by no utterance operation (`gram` only by `setGrammar`). |
| cmn | `cmn` | the channel-normalisation state (mean, sum, frame count, its text) — the one deliberate carry |
| reset | `cnt` `fec` `res` `beam` `hist` `hmm` | re-initialised by `decoder_start_utt` (`cnt`,`fec`,`res`: constants; `beam`,`hist`: from the grammar; `hmm`: cleared by `fsg_search_finish`/lextree construction, roots entered at start) |
| dead | `scr` `sen` `noi` `mfc` `cep` `feat` | dead on start: old content is never read before being rewritten — `startUtt` **kills** them in the model |
| tainted | `lay` `sel` `log` | carried and read, but declared result-neutral: ring capacities / ring phase (C07's subject), the top-N history of the `s2_semi` scorer (no shipped model uses it; the PTM scorer's history is reset when frame 0 is scored — D54 — and is therefore dead-on-start scratch, group `sen`), statistics only read for logging.  They occur in read sets but in no dependency set of a non-tainted cell; that declaration is validated by poisoning / perturbation on the implementation, not proved. |
| derived | `agg` | embedded aggregates (`fsg_search_s.base`, `fsg_pnode_s.hmm`, `*_mgau_s.base`) whose components are classified on their own |
| global | `gconst` `ginit` `gexcl` | never written after load / the frequency-warp statics of `fe_warp_*.c` (`params`, `is_neutral`, `p_str`, `nyquist_frequency`, `final_piece`): **process-wide, written by every `fe_init`** (operation `initFe`) and read only inside that same call, after it has written them — shared mutable state between instances that is modelled as write-only scratch; on the pinned tree a repeated parameter string was *not* re-parsed (D68), which made the new filter bank depend on what other decoders had set / excluded by configuration (error callback + log level, dither PRNG) |

*Operations* mirror the public calls, split by what they do to the buffers (decided by the harness
from the sample counts): see `Op`.  *Phases* mirror `acmod->state` (`Phase.code`).  The model is of the
**repaired** code: a call that completes no analysis window leaves the phase `started` (D8), and
`feat_s.cmn` is persistent (D52), and live CMN tests its update threshold per frame, so the ring capacity does not reach the data (D53); the PTM top-N history is reset at frame 0 (D54); a streaming call drains the cepstral ring however large an earlier batch utterance made it (D62).
-/
namespace SSVerif.Api
open SSVerif.Generated SSVerif.Isolation

inductive Group
  | cfg | gram | cmn | cnt | fec | res | beam | hist | hmm
  | scr | sen | noi | mfc | cep | feat
  | lay | sel | log | agg
  | gconst | ginit | gexcl
  deriving DecidableEq, Repr

inductive Kind | persistent | cmn | reset | dead | tainted | derived | global
  deriving DecidableEq, Repr

def Group.kind : Group → Kind
  | .cfg | .gram => .persistent
  | .cmn => .cmn
  | .cnt | .fec | .res | .beam | .hist | .hmm => .reset
  | .scr | .sen | .noi | .mfc | .cep | .feat => .dead
  | .lay | .sel | .log => .tainted
  | .agg => .derived
  | .gconst | .ginit | .gexcl => .global

def allGroups : List Group :=
  [.cfg, .gram, .cmn, .cnt, .fec, .res, .beam, .hist, .hmm, .scr, .sen, .noi, .mfc, .cep, .feat,
   .lay, .sel, .log, .agg, .gconst, .ginit, .gexcl]

def Group.name : Group → String
  | .cfg => "cfg" | .gram => "gram" | .cmn => "cmn" | .cnt => "cnt" | .fec => "fec" | .res => "res"
  | .beam => "beam" | .hist => "hist" | .hmm => "hmm" | .scr => "scr" | .sen => "sen" | .noi => "noi"
  | .mfc => "mfc" | .cep => "cep" | .feat => "feat" | .lay => "lay" | .sel => "sel" | .log => "log"
  | .agg => "agg" | .gconst => "gconst" | .ginit => "ginit" | .gexcl => "gexcl"

def Kind.name : Kind → String
  | .persistent => "persistent" | .cmn => "cmn" | .reset => "reset" | .dead => "dead"
  | .tainted => "tainted" | .derived => "derived" | .global => "global"

/-! ## classification of the generated inventory -/

def classTable_decoder_s : List (Field × Group) := [
  (.decoder_s__config, .cfg),
  (.decoder_s__refcount, .cfg),
  (.decoder_s__fe, .cfg),
  (.decoder_s__fcb, .cfg),
  (.decoder_s__acmod, .cfg),
  (.decoder_s__dict, .cfg),
  (.decoder_s__d2p, .cfg),
  (.decoder_s__lmath, .cfg),
  (.decoder_s__search, .gram),
  (.decoder_s__align, .res),
  (.decoder_s__json_result, .res),
  (.decoder_s__uttno, .log),
  (.decoder_s__perf, .log),
  (.decoder_s__n_frame, .log),
  (.decoder_s__logfh, .cfg)]
def classTable_search_module_s : List (Field × Group) := [
  (.search_module_s__vt, .gram),
  (.search_module_s__type, .gram),
  (.search_module_s__name, .gram),
  (.search_module_s__config, .gram),
  (.search_module_s__acmod, .gram),
  (.search_module_s__dict, .gram),
  (.search_module_s__d2p, .gram),
  (.search_module_s__hyp_str, .res),
  (.search_module_s__dag, .res),
  (.search_module_s__last_link, .res),
  (.search_module_s__post, .res),
  (.search_module_s__n_words, .gram),
  (.search_module_s__start_wid, .gram),
  (.search_module_s__silence_wid, .gram),
  (.search_module_s__finish_wid, .gram)]
def classTable_fsg_search_s : List (Field × Group) := [
  (.fsg_search_s__base, .agg),
  (.fsg_search_s__hmmctx, .gram),
  (.fsg_search_s__fsg, .gram),
  (.fsg_search_s__lextree, .gram),
  (.fsg_search_s__history, .gram),
  (.fsg_search_s__pnode_active, .hmm),
  (.fsg_search_s__pnode_active_next, .hmm),
  (.fsg_search_s__beam_orig, .gram),
  (.fsg_search_s__pbeam_orig, .gram),
  (.fsg_search_s__wbeam_orig, .gram),
  (.fsg_search_s__beam_factor, .beam),
  (.fsg_search_s__beam, .beam),
  (.fsg_search_s__pbeam, .beam),
  (.fsg_search_s__wbeam, .beam),
  (.fsg_search_s__lw, .gram),
  (.fsg_search_s__pip, .gram),
  (.fsg_search_s__wip, .gram),
  (.fsg_search_s__frame, .hist),
  (.fsg_search_s__final, .hist),
  (.fsg_search_s__bestpath, .gram),
  (.fsg_search_s__ascale, .gram),
  (.fsg_search_s__bestscore, .hist),
  (.fsg_search_s__bpidx_start, .hist),
  (.fsg_search_s__ascr, .gram),
  (.fsg_search_s__lscr, .gram),
  (.fsg_search_s__n_hmm_eval, .hist),
  (.fsg_search_s__n_sen_eval, .hist),
  (.fsg_search_s__perf, .log),
  (.fsg_search_s__n_tot_frame, .log)]
def classTable_fsg_history_s : List (Field × Group) := [
  (.fsg_history_s__fsg, .gram),
  (.fsg_history_s__entries, .hist),
  (.fsg_history_s__frame_entries, .hist),
  (.fsg_history_s__n_ciphone, .gram)]
def classTable_fsg_pnode_s : List (Field × Group) := [
  (.fsg_pnode_s__next, .gram),
  (.fsg_pnode_s__alloc_next, .gram),
  (.fsg_pnode_s__sibling, .gram),
  (.fsg_pnode_s__logs2prob, .gram),
  (.fsg_pnode_s__ctxt, .gram),
  (.fsg_pnode_s__ci_ext, .gram),
  (.fsg_pnode_s__ppos, .gram),
  (.fsg_pnode_s__leaf, .gram),
  (.fsg_pnode_s__ctx, .gram),
  (.fsg_pnode_s__hmm, .agg)]
def classTable_hmm_context_s : List (Field × Group) := [
  (.hmm_context_s__n_emit_state, .gram),
  (.hmm_context_s__tp, .gram),
  (.hmm_context_s__senscore, .sen),
  (.hmm_context_s__sseq, .gram),
  (.hmm_context_s__st_sen_scr, .sen),
  (.hmm_context_s__mpx_ssid_alloc, .gram),
  (.hmm_context_s__udata, .gram)]
def classTable_hmm_s : List (Field × Group) := [
  (.hmm_s__ctx, .gram),
  (.hmm_s__score, .hmm),
  (.hmm_s__history, .hmm),
  (.hmm_s__out_score, .hmm),
  (.hmm_s__out_history, .hmm),
  (.hmm_s__ssid, .gram),
  (.hmm_s__senid, .gram),
  (.hmm_s__bestscore, .hmm),
  (.hmm_s__tmatid, .gram),
  (.hmm_s__frame, .hmm),
  (.hmm_s__mpx, .gram),
  (.hmm_s__n_emit_state, .gram)]
def classTable_acmod_s : List (Field × Group) := [
  (.acmod_s__config, .cfg),
  (.acmod_s__lmath, .cfg),
  (.acmod_s__strings, .cfg),
  (.acmod_s__fe, .cfg),
  (.acmod_s__fcb, .cfg),
  (.acmod_s__mdef, .cfg),
  (.acmod_s__tmat, .cfg),
  (.acmod_s__mgau, .cfg),
  (.acmod_s__mllr, .cfg),
  (.acmod_s__senone_scores, .sen),
  (.acmod_s__senone_active_vec, .sen),
  (.acmod_s__senone_active, .sen),
  (.acmod_s__senscr_frame, .cnt),
  (.acmod_s__n_senone_active, .cnt),
  (.acmod_s__log_zero, .cfg),
  (.acmod_s__mfc_buf, .mfc),
  (.acmod_s__feat_buf, .feat),
  (.acmod_s__framepos, .feat),
  (.acmod_s__state, .cnt),
  (.acmod_s__compallsen, .cfg),
  (.acmod_s__grow_feat, .lay),
  (.acmod_s__insen_swap, .cfg),
  (.acmod_s__output_frame, .cnt),
  (.acmod_s__n_mfc_alloc, .lay),
  (.acmod_s__n_mfc_frame, .cnt),
  (.acmod_s__mfc_outidx, .cnt),
  (.acmod_s__n_feat_alloc, .lay),
  (.acmod_s__n_feat_frame, .cnt),
  (.acmod_s__feat_outidx, .cnt)]
def classTable_mgau_s : List (Field × Group) := [
  (.mgau_s__vt, .cfg),
  (.mgau_s__frame_idx, .cnt),
  (.mgau_s__hw_frame, .cnt)]
def classTable_ptm_mgau_s : List (Field × Group) := [
  (.ptm_mgau_s__base, .agg),
  (.ptm_mgau_s__config, .cfg),
  (.ptm_mgau_s__g, .cfg),
  (.ptm_mgau_s__n_sen, .cfg),
  (.ptm_mgau_s__sen2cb, .cfg),
  (.ptm_mgau_s__mixw, .cfg),
  (.ptm_mgau_s__sendump_mmap, .cfg),
  (.ptm_mgau_s__mixw_cb, .cfg),
  (.ptm_mgau_s__max_topn, .cfg),
  (.ptm_mgau_s__ds_ratio, .cfg),
  (.ptm_mgau_s__hist, .cfg),
  (.ptm_mgau_s__replay, .cfg),
  (.ptm_mgau_s__f, .sen),
  (.ptm_mgau_s__n_fast_hist, .cfg),
  (.ptm_mgau_s__lmath_8b, .cfg),
  (.ptm_mgau_s__lmath, .cfg)]
def classTable_ptm_fast_eval_s : List (Field × Group) := [
  (.ptm_fast_eval_s__topn, .sen),
  (.ptm_fast_eval_s__mgau_active, .sen)]
def classTable_s2_semi_mgau_s : List (Field × Group) := [
  (.s2_semi_mgau_s__base, .agg),
  (.s2_semi_mgau_s__config, .cfg),
  (.s2_semi_mgau_s__g, .cfg),
  (.s2_semi_mgau_s__mixw, .cfg),
  (.s2_semi_mgau_s__sendump_mmap, .cfg),
  (.s2_semi_mgau_s__mixw_cb, .cfg),
  (.s2_semi_mgau_s__n_sen, .cfg),
  (.s2_semi_mgau_s__topn_beam, .cfg),
  (.s2_semi_mgau_s__max_topn, .cfg),
  (.s2_semi_mgau_s__ds_ratio, .cfg),
  (.s2_semi_mgau_s__topn_hist, .sel),
  (.s2_semi_mgau_s__topn_hist_n, .sel),
  (.s2_semi_mgau_s__f, .sen),
  (.s2_semi_mgau_s__n_topn_hist, .cfg),
  (.s2_semi_mgau_s__lmath_8b, .cfg),
  (.s2_semi_mgau_s__lmath, .cfg)]
def classTable_feat_s : List (Field × Group) := [
  (.feat_s__refcount, .cfg),
  (.feat_s__name, .cfg),
  (.feat_s__cepsize, .cfg),
  (.feat_s__n_stream, .cfg),
  (.feat_s__stream_len, .cfg),
  (.feat_s__window_size, .cfg),
  (.feat_s__n_sv, .cfg),
  (.feat_s__sv_len, .cfg),
  (.feat_s__subvecs, .cfg),
  (.feat_s__sv_buf, .scr),
  (.feat_s__sv_dim, .cfg),
  (.feat_s__cmn, .cfg),
  (.feat_s__varnorm, .cfg),
  (.feat_s__compute_feat, .cfg),
  (.feat_s__cmn_struct, .cfg),
  (.feat_s__cepbuf, .cep),
  (.feat_s__tmpcepbuf, .scr),
  (.feat_s__bufpos, .lay),
  (.feat_s__curpos, .lay),
  (.feat_s__lda, .cfg),
  (.feat_s__n_lda, .cfg),
  (.feat_s__out_dim, .cfg)]
def classTable_cmn_t : List (Field × Group) := [
  (.cmn_t__cmn_mean, .cmn),
  (.cmn_t__cmn_var, .scr),
  (.cmn_t__sum, .cmn),
  (.cmn_t__nframe, .cmn),
  (.cmn_t__veclen, .cfg),
  (.cmn_t__repr, .cmn),
  (.cmn_t__refcount, .cfg)]
def classTable_fe_s : List (Field × Group) := [
  (.fe_s__config, .cfg),
  (.fe_s__refcount, .cfg),
  (.fe_s__sampling_rate, .cfg),
  (.fe_s__frame_rate, .cfg),
  (.fe_s__frame_shift, .cfg),
  (.fe_s__window_length, .cfg),
  (.fe_s__frame_size, .cfg),
  (.fe_s__fft_size, .cfg),
  (.fe_s__fft_order, .cfg),
  (.fe_s__feature_dimension, .cfg),
  (.fe_s__num_cepstra, .cfg),
  (.fe_s__remove_dc, .cfg),
  (.fe_s__log_spec, .cfg),
  (.fe_s__swap, .cfg),
  (.fe_s__dither, .cfg),
  (.fe_s__transform, .cfg),
  (.fe_s__pre_emphasis_alpha, .cfg),
  (.fe_s__dither_seed, .cfg),
  (.fe_s__ccc, .cfg),
  (.fe_s__sss, .cfg),
  (.fe_s__mel_fb, .cfg),
  (.fe_s__hamming_window, .cfg),
  (.fe_s__spch, .scr),
  (.fe_s__overflow_samps, .fec),
  (.fe_s__num_overflow_samps, .fec),
  (.fe_s__frame, .scr),
  (.fe_s__spec, .scr),
  (.fe_s__mfspec, .scr),
  (.fe_s__pre_emphasis_prior, .fec),
  (.fe_s__noise_stats, .cfg)]
def classTable_noise_stats_s : List (Field × Group) := [
  (.noise_stats_s__power, .noi),
  (.noise_stats_s__noise, .noi),
  (.noise_stats_s__floor, .noi),
  (.noise_stats_s__peak, .noi),
  (.noise_stats_s__signal, .scr),
  (.noise_stats_s__gain, .scr),
  (.noise_stats_s__undefined, .fec),
  (.noise_stats_s__num_filters, .cfg),
  (.noise_stats_s__slow_peak_sum, .noi),
  (.noise_stats_s__lambda_power, .cfg),
  (.noise_stats_s__comp_lambda_power, .cfg),
  (.noise_stats_s__lambda_a, .cfg),
  (.noise_stats_s__comp_lambda_a, .cfg),
  (.noise_stats_s__lambda_b, .cfg),
  (.noise_stats_s__comp_lambda_b, .cfg),
  (.noise_stats_s__lambda_t, .cfg),
  (.noise_stats_s__mu_t, .cfg),
  (.noise_stats_s__max_gain, .cfg),
  (.noise_stats_s__inv_max_gain, .cfg),
  (.noise_stats_s__smooth_scaling, .cfg)]
def classTable : List (Field × Group) :=
  classTable_decoder_s ++ classTable_search_module_s ++ classTable_fsg_search_s ++ classTable_fsg_history_s ++ classTable_fsg_pnode_s ++ classTable_hmm_context_s ++ classTable_hmm_s ++ classTable_acmod_s ++ classTable_mgau_s ++ classTable_ptm_mgau_s ++ classTable_ptm_fast_eval_s ++ classTable_s2_semi_mgau_s ++ classTable_feat_s ++ classTable_cmn_t ++ classTable_fe_s ++ classTable_noise_stats_s

/-- canonical value after `decoder_start_utt` of the reset cells the harness reads back (text shared with `harness/h_c08.c`) -/
def canonTable : List (Field × String) := [
  (.decoder_s__json_result, "NULL"),
  (.decoder_s__align, "NULL"),
  (.search_module_s__hyp_str, "NULL"),
  (.search_module_s__dag, "NULL"),
  (.search_module_s__last_link, "NULL"),
  (.search_module_s__post, "0"),
  (.acmod_s__state, "ACMOD_STARTED"),
  (.acmod_s__n_mfc_frame, "0"),
  (.acmod_s__n_feat_frame, "0"),
  (.acmod_s__mfc_outidx, "0"),
  (.acmod_s__feat_outidx, "0"),
  (.acmod_s__output_frame, "0"),
  (.acmod_s__senscr_frame, "-1"),
  (.acmod_s__n_senone_active, "0"),
  (.mgau_s__frame_idx, "0"),
  (.mgau_s__hw_frame, "0"),
  (.fe_s__num_overflow_samps, "0"),
  (.fe_s__overflow_samps, "all-zero"),
  (.fe_s__pre_emphasis_prior, "0"),
  (.noise_stats_s__undefined, "TRUE"),
  (.fsg_search_s__beam_factor, "1.0"),
  (.fsg_search_s__beam, "=beam_orig"),
  (.fsg_search_s__pbeam, "=pbeam_orig"),
  (.fsg_search_s__wbeam, "=wbeam_orig"),
  (.fsg_search_s__frame, "0"),
  (.fsg_search_s__final, "FALSE"),
  (.fsg_search_s__bestscore, "0"),
  (.fsg_search_s__bpidx_start, "0"),
  (.fsg_search_s__n_hmm_eval, "0"),
  (.fsg_search_s__n_sen_eval, "0"),
  (.fsg_search_s__pnode_active_next, "NULL"),
  (.fsg_search_s__pnode_active, "=HMMs-entered-at-start"),
  (.fsg_history_s__frame_entries, "all-NULL"),
  (.fsg_history_s__entries, "=start-entry-and-null-closure"),
  (.hmm_s__score, "cleared-unless-entered-at-start"),
  (.hmm_s__history, "cleared-unless-entered-at-start"),
  (.hmm_s__out_score, "cleared-unless-entered-at-start"),
  (.hmm_s__out_history, "cleared-unless-entered-at-start"),
  (.hmm_s__bestscore, "cleared-unless-entered-at-start"),
  (.hmm_s__frame, "cleared-unless-entered-at-start")]

def globalTable : List (Global × Group) := [
  (.cmn__cmn_alt_type_str, .gconst),
  (.cmn__cmn_type_str, .gconst),
  (.config__ps_args_def, .gconst),
  (.config__searches, .gconst),
  (.err__err_cb, .gexcl),
  (.err__err_level, .gexcl),
  (.err__err_user_data, .gexcl),
  (.err__min_loglevel, .gexcl),
  (.fe_interface__fe_args, .gconst),
  (.fe_interface__sample_rates, .gconst),
  (.fe_warp____name2id, .gconst),
  (.fe_warp__fe_warp_conf, .gconst),
  (.fe_warp__name2id, .gconst),
  (.fe_warp_affine__is_neutral, .ginit),
  (.fe_warp_affine__nyquist_frequency, .ginit),
  (.fe_warp_affine__p_str, .ginit),
  (.fe_warp_affine__params, .ginit),
  (.fe_warp_inverse_linear__is_neutral, .ginit),
  (.fe_warp_inverse_linear__nyquist_frequency, .ginit),
  (.fe_warp_inverse_linear__p_str, .ginit),
  (.fe_warp_inverse_linear__params, .ginit),
  (.fe_warp_piecewise_linear__final_piece, .ginit),
  (.fe_warp_piecewise_linear__is_neutral, .ginit),
  (.fe_warp_piecewise_linear__nyquist_frequency, .ginit),
  (.fe_warp_piecewise_linear__p_str, .ginit),
  (.fe_warp_piecewise_linear__params, .ginit),
  (.fsg_search__fsg_funcs, .gconst),
  (.fsg_search__fsg_segfuncs, .gconst),
  (.genrand__genrand_int32_mag01, .gconst),
  (.genrand__mt, .gexcl),
  (.genrand__mti, .gexcl),
  (.ms_mgau__ms_mgau_funcs, .gconst),
  (.ps_lattice__astar_search_segfuncs, .gconst),
  (.ps_lattice__lattice_segfuncs, .gconst),
  (.ptm_mgau__ptm_mgau_funcs, .gconst),
  (.s2_semi_mgau__s2_semi_mgau_funcs, .gconst),
  (.state_align_search__state_align_search_funcs, .gconst),
  (.state_align_search__state_align_segfuncs, .gconst)]

def classify? (f : Field) : Option Group := classTable.lookup f
/-- totalised; `C08_classification_total` shows the default is never used -/
def classify (f : Field) : Group := (classify? f).getD .cfg
def classifyGlobal? (g : Global) : Option Group := globalTable.lookup g

/-! ## protocol phases and operations -/

inductive Phase
  | idle          -- no utterance yet
  | started       -- utterance started, no analysis window completed yet
  | batched       -- a full-utterance (batch) call has been processed
  | processing    -- at least one cepstral frame has entered the live window
  | ended         -- utterance ended, at least one frame was produced
  | endedEmpty    -- utterance ended without any audio
  deriving DecidableEq, Repr

/-- `acmod->state` in this phase (ACMOD_IDLE 0, STARTED 1, PROCESSING 2, ENDED 3) -/
def Phase.code : Phase → Nat
  | .idle => 0 | .started => 1 | .batched => 1 | .processing => 2 | .ended => 3 | .endedEmpty => 3

def Phase.between : Phase → Bool
  | .idle | .ended | .endedEmpty => true
  | _ => false

inductive Op
  | startUtt          -- decoder_start_utt
  | processNoFrame    -- decoder_process_*: the samples so far do not complete an analysis window
  | processFirst      -- … the call brings the first cepstral frame(s): start padding of the live window
  | processMore       -- … any later streaming call
  | processFull       -- … full_utt = 1 with batch CMN configured (`cmn` = "batch"/"current")
  | processFullLive   -- … full_utt = 1 with live CMN configured
  | endUtt            -- decoder_end_utt after some audio
  | endUttEmpty       -- decoder_end_utt after no audio at all
  | query             -- decoder_hyp / seg_iter / lattice / prob / n_frames
  | queryAlign        -- decoder_alignment (rewinds the feature ring and re-scores)
  | setGrammar        -- decoder_set_jsgf_string / set_fsg / set_align_text (a new search module)
  | setCmn            -- decoder_set_cmn
  | getCmn            -- decoder_get_cmn(update = 0)
  | getCmnUpdate      -- decoder_get_cmn(update = 1)
  | initFe            -- fe_init as run by decoder_init / decoder_reinit / decoder_reinit_feat: sets the process-wide warp statics, builds the filter bank
  deriving DecidableEq, Repr

def allPhases : List Phase := [.idle, .started, .batched, .processing, .ended, .endedEmpty]
def allOps : List Op :=
  [.startUtt, .processNoFrame, .processFirst, .processMore, .processFull, .processFullLive, .endUtt,
   .endUttEmpty, .query, .queryAlign, .setGrammar, .setCmn, .getCmn, .getCmnUpdate, .initFe]

def Op.name : Op → String
  | .startUtt => "startUtt" | .processNoFrame => "processNoFrame" | .processFirst => "processFirst"
  | .processMore => "processMore" | .processFull => "processFull" | .processFullLive => "processFullLive"
  | .endUtt => "endUtt" | .endUttEmpty => "endUttEmpty" | .query => "query" | .queryAlign => "queryAlign"
  | .setGrammar => "setGrammar" | .setCmn => "setCmn" | .getCmn => "getCmn" | .getCmnUpdate => "getCmnUpdate"
  | .initFe => "initFe"

def Phase.name : Phase → String
  | .idle => "idle" | .started => "started" | .batched => "batched" | .processing => "processing"
  | .ended => "ended" | .endedEmpty => "endedEmpty"

/-- protocol automaton (`none` = outside the protocol; such calls are C09's subject) -/
def trans : Phase → Op → Option Phase
  | ph, .startUtt => if ph.between then some .started else none
  | .started, .processNoFrame => some .started
  | .started, .processFirst => some .processing
  | .processing, .processMore => some .processing
  | .started, .processFull => some .batched
  | .started, .processFullLive => some .batched
  | .started, .endUtt => some .ended
  | .batched, .endUtt => some .ended
  | .processing, .endUtt => some .ended
  | .started, .endUttEmpty => some .endedEmpty
  | .idle, .query => none
  | ph, .query => some ph
  | .batched, .queryAlign => some .batched
  | .processing, .queryAlign => some .processing
  | .ended, .queryAlign => some .ended
  | ph, .setGrammar => if ph.between then some ph else none
  | ph, .setCmn => if ph.between then some ph else none
  | ph, .getCmn => some ph
  | ph, .getCmnUpdate => if ph.between then some ph else none
  | ph, .initFe => if ph.between then some ph else none
  | _, _ => none

/-- specification builder: `fnW` get `.fn deps`, tainted writes may depend on anything read, `constW` get the canonical constant -/
def mkSpec (reads fnW deps taintW constW kills : List Group) : Spec Group :=
  { reads := reads
    writes := fnW.map (·, .fn deps) ++ taintW.map (·, .fn reads) ++ constW.map (·, .const)
    kills := kills }

/-- what the search / front end read in every streaming call once the window is primed -/
def streamDeps : List Group := [.cfg, .gram, .cmn, .fec, .cnt, .beam, .hmm, .hist]
def streamWrites : List Group := [.fec, .scr, .noi, .mfc, .cep, .feat, .sen, .cmn, .cnt, .beam, .hist]
def carried : List Group := [.noi, .mfc, .cep, .feat]

/-- read / write / dependency / kill sets per (phase, operation); mirrors
`decoder_start_utt` (decoder.c), `acmod_start_utt`, `fe_start`, `fsg_search_start`;
`decoder_process_*` → `acmod_process_raw` / `acmod_process_full_raw` → `fe_process`, `feat_s2mfc2feat_live`,
`feat_s2mfc2feat_block_utt` (batch: the first 2·win rows of the live window serve as padding scratch),
`cmn`/`cmn_live`, `search_module_forward` → `fsg_search_step`, `ptm_mgau_frame_eval`;
`decoder_end_utt` → `acmod_end_utt`, `fsg_search_finish`; the query functions; `decoder_set_fsg`; `cmn_set_repr`. -/
def spec : Phase → Op → Spec Group
  | _, .startUtt =>
    mkSpec [.cfg, .gram, .gconst, .hmm, .hist, .res, .log] [.beam, .hmm, .hist] [.gram, .hmm] [.log]
      [.cnt, .fec, .res] [.scr, .sen, .noi, .mfc, .cep, .feat]
  | _, .processNoFrame =>
    mkSpec [.cfg, .gconst, .fec, .cnt, .lay, .log] [.fec] [.cfg, .fec] [.lay, .log] [] []
  | _, .processFirst =>
    mkSpec ([.gconst, .sel, .lay, .log] ++ streamDeps) (.hmm :: streamWrites) streamDeps [.sel, .lay, .log] [] []
  | _, .processMore =>
    mkSpec ([.gconst, .sel, .lay, .log] ++ streamDeps ++ carried) (.hmm :: streamWrites) (streamDeps ++ carried)
      [.sel, .lay, .log] [] []
  | _, .processFull =>
    mkSpec [.gconst, .sel, .lay, .log, .cfg, .gram, .fec, .cnt, .beam, .hmm, .hist]
      [.fec, .scr, .noi, .mfc, .cep, .feat, .sen, .cmn, .cnt, .beam, .hmm, .hist]
      [.cfg, .gram, .fec, .cnt, .beam, .hmm, .hist] [.sel, .lay, .log] [] []
  | _, .processFullLive =>
    mkSpec ([.gconst, .sel, .lay, .log] ++ streamDeps)
      [.fec, .scr, .noi, .mfc, .cep, .feat, .sen, .cmn, .cnt, .beam, .hmm, .hist] streamDeps [.sel, .lay, .log] [] []
  -- `decoder_end_utt` also drops the aligner made for a partial result (`d->align = NULL`) and, with
  -- `backtrace = yes`, runs `decoder_hyp` / `decoder_seg_iter` itself: the result caches `res` are in its write set
  -- (found by the static write-set tie, Props/C08Static)
  | .started, .endUtt =>
    mkSpec ([.gconst, .sel, .lay, .log] ++ streamDeps) (.res :: streamWrites) streamDeps [.sel, .lay, .log] [.hmm] []
  | .batched, .endUtt =>
    mkSpec ([.gconst, .sel, .lay, .log, .feat] ++ streamDeps) [.res, .fec, .sen, .cmn, .cnt, .beam, .hist]
      (.feat :: streamDeps) [.sel, .lay, .log] [.hmm] []
  | _, .endUtt =>
    mkSpec ([.gconst, .sel, .lay, .log] ++ streamDeps ++ carried) (.res :: streamWrites) (streamDeps ++ carried)
      [.sel, .lay, .log] [.hmm] []
  | _, .endUttEmpty =>
    mkSpec [.cfg, .gram, .gconst, .fec, .cnt, .hmm, .hist, .log] [.res, .fec, .cnt, .hist]
      [.cfg, .gram, .fec, .cnt, .hmm, .hist] [.log] [.hmm] []
  | _, .query =>
    mkSpec [.cfg, .gram, .gconst, .hist, .res, .cnt, .log] [.res] [.cfg, .gram, .hist, .res, .cnt] [.log] [] []
  | _, .queryAlign =>
    mkSpec [.cfg, .gram, .gconst, .hist, .res, .cnt, .feat, .sel, .lay, .log] [.res, .cnt, .sen]
      [.cfg, .gram, .hist, .res, .cnt, .feat] [.sel, .log] [] []
  | _, .setGrammar =>
    mkSpec [.cfg, .gram, .gconst, .hmm, .hist, .res, .log] [.gram, .beam, .hist, .sen] [.cfg] [.log] [.hmm, .res] []
  | _, .setCmn => mkSpec [.cfg, .cmn] [.cmn] [.cfg] [] [] []
  | _, .getCmn => mkSpec [.cmn] [] [] [] [] []
  | _, .getCmnUpdate => mkSpec [.cfg, .cmn] [.cmn] [.cfg, .cmn] [] [] []
  -- `fe_parse_melfb_params` → `fe_warp_set_parameters` (writes the statics from the configuration alone), then
  -- `fe_build_melfilters` reads them back: nothing of their *old* content is read (repaired code, D68)
  | _, .initFe => mkSpec [.gconst] [.cfg, .ginit] [] [.log] [] []

def always (g : Group) : Bool := g.kind != .dead

def defd : Phase → List Group
  | .batched => [.noi, .mfc, .feat]
  | .processing => carried
  | .ended => [.feat]
  | _ => []

def decoderSys : Sys Group Phase Op := { trans := trans, spec := spec, always := always, defd := defd }

/-- cells whose content may reach a result: everything but the tainted kinds (and the `agg` bucket, which
has no storage of its own — its components are classified separately) -/
def data (g : Group) : Bool := g.kind != .tainted && g.kind != .derived
/-- "same configuration, models, dictionary, grammar, CMN state, globals" -/
def low (g : Group) : Bool := g.kind == .persistent || g.kind == .cmn || g.kind == .global
/-- the same without the CMN state -/
def lowNoCmn (g : Group) : Bool := g.kind == .persistent || g.kind == .global
/-- cells that rest at their canonical value between utterances: the HMM state of the lextree and the active lists -/
def restCells : List Group := [.hmm]
def lowRest (g : Group) : Bool := low g || g ∈ restCells
def lowRestNoCmn (g : Group) : Bool := lowNoCmn g || g ∈ restCells
def dataNoCmn (g : Group) : Bool := data g && g != .cmn
/-- everything result-relevant except the warp statics, which are scratch of `initFe` -/
def dataNoInit (g : Group) : Bool := data g && g != .ginit
def isGlobal (g : Group) : Bool := g.kind == .global

end SSVerif.Api
