import SSVerif.Model.Search
/-!
# M10, lextree construction — `fsg_lextree_init` (`src/fsg_lextree.c`)

`buildLexTree li g` mirrors `fsg_lextree_init` (209-263): `fsg_lextree_lc_rc` (85-204, the left/right
context phone sets of every FSG state), then for every state `s` in order `fsg_psubtree_init` (677-720),
which calls `psubtree_add_trans` (355-675) for every word arc leaving `s`, in `fsg_model_arcs` order.

Inputs: the search FSG `g` (arc ids = positions in the `fsg_model_arcs` enumeration state by state, so the
arcs leaving `s` are the ids with `src = s` in increasing order), and `li : LexIn` — the pronunciation and
filler flags of every FSG word and the **senone-sequence lookups as abstract functions** (the `dict2pid`
tables `lrdiph_rc`, `ldiph_lc`, `rssid`, `dict2pid_internal`, and `bin_mdef_pid2ssid/pid2tmatid`).

Pnodes are numbered in allocation order (the C code threads them on `alloc_head[s]` in reverse allocation
order; the harness numbers them back in allocation order, state by state), so the model's array and the
dumped lextree can be compared node by node: owner, leaf, fsglink, succ, sibling, ci_ext, ssid, tmatid, ppos,
context set, logs2prob, and `root[s]`.

The C temporaries become values threaded through folds:
`lc_pnodelist`/`rc_pnodelist` (glists, newest first) are `List Nat`; the word-initial `ssid_pnode_map`
(filled from index 0 without gaps, searched linearly for the ssid) is a `List Nat` in insertion order; the
word-final `ssid_pnode_map` (indexed by `rssid->cimap[rc]`) is an association list; `curglist` is a list of
`(ci, rc, lc_pnodelist)` entries.  Pointer walks along `sibling` carry a fuel (the number of pnodes) that
only matters on a cyclic chain.  Core Lean only.
-/
namespace SSVerif.Search
open SSVerif.Hist

/-- what the construction reads of an FSG word: `dict_pron`, `fsg_model_is_filler(fsg, wid)`,
`dict_filler_word(dict, dictwid)`, the dictionary word id (argument of `dict2pid_internal`) -/
structure WordInfo where
  pron : List Nat
  fsgFiller : Bool := false
  dictFiller : Bool := false
  dictWid : Nat := 0
deriving Repr, Inhabited

structure LexIn where
  /-- `bin_mdef_n_ciphone` -/
  nCi : Nat
  /-- `bin_mdef_silphone` -/
  sil : Nat
  wip : Int
  pip : Int
  /-- `SENSCR_SHIFT` -/
  shift : Nat
  /-- `ctx->n_emit_state` -/
  nst : Nat
  nState : Nat
  /-- FSG word id ↦ word -/
  word : Nat → WordInfo
  /-- `dict2pid_lrdiph_rc(d2p, ci, lc, silcipid)` as `lrdiph ci lc` -/
  lrdiph : Nat → Nat → Nat
  /-- `dict2pid_ldiph_lc(d2p, ci, rc, lc)` -/
  ldiph : Nat → Nat → Nat → Nat
  /-- `dict2pid_internal(d2p, dictwid, p)` -/
  internal : Nat → Nat → Nat
  /-- `dict2pid_rssid(d2p, ci, lc)->cimap[rc]` -/
  rcMap : Nat → Nat → Nat → Nat
  /-- `dict2pid_rssid(d2p, ci, lc)->ssid[j]` -/
  rcSsid : Nat → Nat → Nat → Nat
  /-- `bin_mdef_pid2ssid(mdef, ci)` -/
  ciSsid : Nat → Nat
  /-- `bin_mdef_pid2tmatid(mdef, ci)` -/
  tmat : Nat → Nat

/-- the arcs `fsg_model_arcs(fsg, s)` yields, in order -/
def arcsOf (g : Fsg) (s : Nat) : List Nat :=
  (List.range g.links.size).filter fun lid => (g.link lid).src = s

/-! ### `fsg_lextree_lc_rc` -/

/-- `a[i] = f(a[i])` (nothing when `i` is out of range), written with `Array.set` so that the kernel can
reduce it and the examples can be evaluated by `decide` -/
def amod {α : Type} (a : Array α) (i : Nat) (f : α → α) : Array α :=
  if h : i < a.size then a.set i (f a[i]) else a

def orBit (a : Array Nat) (s c : Nat) : Array Nat := amod a s (· ||| (1 <<< c))

/-- first loop (109-140): first phone of a word into `rc[from]`, last phone into `lc[to]`; filler words
present the silence phone -/
def ctxPass1 (li : LexIn) (g : Fsg) (acc : Array Nat × Array Nat) (lid : Nat) : Array Nat × Array Nat :=
  let l := g.link lid
  if l.wid < 0 then acc else
  let w := li.word l.wid.toNat
  if w.fsgFiller then (orBit acc.1 l.dst li.sil, orBit acc.2 l.src li.sil)
  else (orBit acc.1 l.dst (w.pron.getLastD 0), orBit acc.2 l.src (w.pron.headD 0))

/-- third loop (162-182): `lc[to] |= lc[from]`, `rc[from] |= rc[to]` for every null arc, in place, in order -/
def ctxPass3 (li : LexIn) (g : Fsg) (acc : Array Nat × Array Nat) (lid : Nat) : Array Nat × Array Nat :=
  let l := g.link lid
  if l.wid < 0 then
    let m := 2 ^ li.nCi - 1
    let lc := amod acc.1 l.dst (· ||| (acc.1.getD l.src 0 &&& m))
    let rc := amod acc.2 l.src (· ||| (acc.2.getD l.dst 0 &&& m))
    (lc, rc)
  else acc

/-- `(lc, rc)` flag vectors of every state as bit masks -/
def ctxFlags (li : LexIn) (g : Fsg) : Array Nat × Array Nat :=
  let z : Array Nat := Array.replicate li.nState 0
  let all := (List.range li.nState).flatMap (arcsOf g)
  let a1 := all.foldl (ctxPass1 li g) (z, z)
  let a2 := ((a1.1.toList.map (· ||| (1 <<< li.sil))).toArray, (a1.2.toList.map (· ||| (1 <<< li.sil))).toArray)
  all.foldl (ctxPass3 li g) a2

/-- "Convert the bit-vector representation into a list" (184-203) -/
def ctxList (li : LexIn) (mask : Nat) : List Nat := (List.range li.nCi).filter fun i => mask.testBit i

/-! ### `psubtree_add_trans` -/

def ndOf (a : Array PNode) (p : Nat) : PNode := a.getD p { owner := 0, leaf := false }

/-- `fsg_pnode_add_ctxt(pnode, c)` -/
def addCtxt (a : Array PNode) (p c : Nat) : Array PNode := amod a p fun n => { n with ctxt := n.ctxt ||| (1 <<< c) }
def setSucc (a : Array PNode) (p : Nat) (q : Option Nat) : Array PNode := amod a p fun n => { n with succ := q }
def setSibling (a : Array PNode) (p : Nat) (q : Option Nat) : Array PNode := amod a p fun n => { n with sibling := q }

/-- `fsg_pnode_add_all_ctxt` -/
def ctxtAll : Nat := 2 ^ (32 * SSVerif.Generated.Search.ctxtBvsz) - 1

/-- an entry of `curglist` (`fsg_glist_linklist_t`) -/
structure GEntry where
  ci : Nat
  rc : Nat
  list : List Nat
deriving Repr

/-- what `psubtree_add_trans` carries from arc to arc within one state -/
structure Bld where
  nodes : Array PNode
  root : Option Nat := none
  glists : List GEntry := []
deriving Repr

/-- loop state of the single-phone / word-initial loops over `lclist` -/
structure LcSt where
  nodes : Array PNode
  root : Option Nat
  /-- `lc_pnodelist`, newest first -/
  lcl : List Nat
  /-- word-initial `ssid_pnode_map`, in insertion order -/
  lmap : List Nat := []

/-- the pnode of a single-phone non-filler word for one left-context ssid: leaf and root (418-433) -/
def singleNode (li : LexIn) (s lid ci : Nat) (logp : Int) (root : Option Nat) (lc : Nat) : PNode :=
  { owner := s, leaf := true, link := lid, logs2prob := (logp >>> li.shift) + li.wip + li.pip,
    ciExt := ci, ppos := 0, sibling := root, ctxt := 1 <<< lc, ssid := li.lrdiph ci lc, tmatid := li.tmat ci }

/-- the pnode of a single-phone filler word (444-459): presents SIL as context, accepts every context -/
def fillerNode (li : LexIn) (s lid ci : Nat) (logp : Int) (root : Option Nat) : PNode :=
  { owner := s, leaf := true, link := lid, logs2prob := (logp >>> li.shift) + li.wip + li.pip,
    ciExt := li.sil, ppos := 0, sibling := root, ctxt := ctxtAll, ssid := li.ciSsid ci, tmatid := li.tmat ci }

/-- a word-initial pnode of a multi-phone word for one left-context ssid (522-541) -/
def rootNode (li : LexIn) (s ci rc : Nat) (root : Option Nat) (lc : Nat) : PNode :=
  { owner := s, leaf := false, logs2prob := li.wip + li.pip, ciExt := ci, ppos := 0,
    sibling := root, ctxt := 0, ssid := li.ldiph ci rc lc, tmatid := li.tmat ci }

/-- a word-internal pnode (569-588) -/
def internalNode (li : LexIn) (s ci p dictWid : Nat) (head : Option Nat) : PNode :=
  { owner := s, leaf := false, logs2prob := li.pip, ciExt := ci, ppos := p % 256, sibling := head,
    ssid := li.internal dictWid p, tmatid := li.tmat ci }

/-- a word-final pnode for one right-context ssid (608-627) -/
def leafNode (li : LexIn) (s lid ci lc p : Nat) (logp : Int) (sib : Option Nat) (rc : Nat) : PNode :=
  { owner := s, leaf := true, link := lid, logs2prob := (logp >>> li.shift) + li.pip,
    ciExt := ci, ppos := p % 256, sibling := sib, ctxt := 0, ssid := li.rcSsid ci lc (li.rcMap ci lc rc), tmatid := li.tmat ci }

/-- single-phone non-filler word, one left context (402-437): share the leaf of an earlier context with
the same ssid, else allocate a leaf that is also a root -/
def singleStep (li : LexIn) (s lid ci : Nat) (logp : Int) (st : LcSt) (lc : Nat) : LcSt :=
  let ssid := li.lrdiph ci lc
  match st.lcl.find? fun p => (ndOf st.nodes p).ssid == ssid with
  | some p => { st with nodes := addCtxt st.nodes p lc }
  | none =>
    { st with nodes := st.nodes.push (singleNode li s lid ci logp st.root lc), root := some st.nodes.size,
              lcl := st.nodes.size :: st.lcl }

/-- word-initial phone of a multi-phone word, one left context (503-544) -/
def rootStep (li : LexIn) (s ci rc : Nat) (st : LcSt) (lc : Nat) : LcSt :=
  let ssid := li.ldiph ci rc lc
  match st.lmap.find? fun p => (ndOf st.nodes p).ssid == ssid with
  | some p => { st with nodes := addCtxt st.nodes p lc }
  | none =>
    { nodes := addCtxt (st.nodes.push (rootNode li s ci rc st.root lc)) st.nodes.size lc, root := some st.nodes.size,
      lcl := st.nodes.size :: st.lcl, lmap := st.lmap ++ [st.nodes.size] }

/-- the search of `curglist` (474-479): stops at the first entry whose list is empty or whose `(ci, rc)`
matches; returns its position -/
def findG (ci rc : Nat) : List GEntry → Nat → Option (Nat × GEntry)
  | [], _ => none
  | e :: rest, i => if e.list.isEmpty || (e.ci == ci && e.rc == rc) then some (i, e) else findG ci rc rest (i + 1)

/-- `while (pnode && (ssid != … || pnode->leaf)) pnode = pnode->sibling` (558-560) -/
def findChild (a : Array PNode) (ssid : Nat) : Nat → Option Nat → Option Nat
  | 0, _ => none
  | _, none => none
  | fuel + 1, some p =>
    if (ndOf a p).ssid == ssid && !(ndOf a p).leaf then some p else findChild a ssid fuel (ndOf a p).sibling

/-- `while (succ->sibling) succ = succ->sibling` (642-643, 656-657) -/
def lastOf (a : Array PNode) : Nat → Nat → Nat
  | 0, p => p
  | fuel + 1, p =>
    match (ndOf a p).sibling with
    | none => p
    | some q => lastOf a fuel q

/-- loop state of the word-final loop over `rclist` -/
structure RcSt where
  nodes : Array PNode
  /-- `rc_pnodelist`, newest first -/
  rcl : List Nat := []
  /-- word-final `ssid_pnode_map`: `(cimap index, pnode)` -/
  rmap : List (Nat × Nat) := []

/-- word-final phone, one right context (600-632) -/
def leafStep (li : LexIn) (s lid ci lc p : Nat) (logp : Int) (st : RcSt) (rc : Nat) : RcSt :=
  match st.rmap.lookup (li.rcMap ci lc rc) with
  | some q => { st with nodes := addCtxt st.nodes q rc }
  | none =>
    { nodes := addCtxt (st.nodes.push (leafNode li s lid ci lc p logp st.rcl.head? rc)) st.nodes.size rc,
      rcl := st.nodes.size :: st.rcl, rmap := (li.rcMap ci lc rc, st.nodes.size) :: st.rmap }

/-- hook the new leaves under one predecessor (651-659): first child, or at the end of its child chain -/
def attachOne (a : Array PNode) (pred : Nat) (head : Option Nat) : Array PNode :=
  match (ndOf a pred).succ with
  | none => setSucc a pred head
  | some c => setSibling a (lastOf a a.size c) head

/-- hook the new leaves under the set of root nodes (634-649): a root without children gets them as first
children; the first root that has children gets them at the end of its chain, and the loop stops ("all
entries of lc_pnodelist point to the same array, sufficient to update it once") -/
def attachRoots (a : Array PNode) (head : Option Nat) : List Nat → Array PNode
  | [] => a
  | r :: rest =>
    match (ndOf a r).succ with
    | none => attachRoots (setSucc a r head) head rest
    | some c => setSibling a (lastOf a a.size c) head

/-- loop state over the phones `p ≥ 1` of a multi-phone word -/
structure PhSt where
  nodes : Array PNode
  pred : Nat

/-- phone `p ≥ 1` of a multi-phone word: word-internal (550-590) or word-final (591-661) -/
def phoneStep (li : LexIn) (s lid : Nat) (w : WordInfo) (logp : Int) (rclist lcl : List Nat) (st : PhSt) (p : Nat) : PhSt :=
  if p + 1 ≠ w.pron.length then
    match findChild st.nodes (li.internal w.dictWid p) st.nodes.size (ndOf st.nodes st.pred).succ with
    | some q => { st with pred := q }
    | none =>
      if p = 1 then
        { nodes := lcl.foldl (fun a r => setSucc a r (some st.nodes.size))
            (st.nodes.push (internalNode li s (w.pron.getD p 0) p w.dictWid (ndOf st.nodes st.pred).succ)),
          pred := st.nodes.size }
      else
        { nodes := setSucc (st.nodes.push (internalNode li s (w.pron.getD p 0) p w.dictWid (ndOf st.nodes st.pred).succ))
            st.pred (some st.nodes.size),
          pred := st.nodes.size }
  else
    let r := rclist.foldl (leafStep li s lid (w.pron.getD p 0) (w.pron.getD (p - 1) 0) p logp) { nodes := st.nodes }
    if p = 1 then { nodes := attachRoots r.nodes r.rcl.head? lcl, pred := st.pred }
    else { nodes := attachOne r.nodes st.pred r.rcl.head?, pred := st.pred }

/-- `psubtree_add_trans(lextree, root, &glist, fsglink, lclist, rclist, alloc_head)` for the arc `lid`
leaving state `s` -/
def addTrans (li : LexIn) (g : Fsg) (s : Nat) (lclist rclist : List Nat) (w0 : Bld) (lid : Nat) : Bld :=
  let l := g.link lid
  let w := li.word l.wid.toNat
  if w.pron.length = 1 then
    let ci := w.pron.headD 0
    if !w.dictFiller then
      let r := lclist.foldl (singleStep li s lid ci l.logp) { nodes := w0.nodes, root := w0.root, lcl := [] }
      { w0 with nodes := r.nodes, root := r.root }
    else
      { w0 with nodes := w0.nodes.push (fillerNode li s lid ci l.logp w0.root), root := some w0.nodes.size }
  else
    let ci := w.pron.headD 0
    let rc := w.pron.getD 1 0
    -- phone 0: an existing set of roots for (ci, rc), or new roots per distinct left-context ssid
    let (w1, lcl, pred) : Bld × List Nat × Nat :=
      match findG ci rc w0.glists 0 with
      | some (i, e) =>
        if !e.list.isEmpty then (w0, e.list, e.list.headD 0)
        else
          let r := lclist.foldl (rootStep li s ci rc) { nodes := w0.nodes, root := w0.root, lcl := [] }
          ({ nodes := r.nodes, root := r.root, glists := w0.glists.set i { ci, rc, list := r.lcl } }, r.lcl, r.root.getD 0)
      | none =>
        let r := lclist.foldl (rootStep li s ci rc) { nodes := w0.nodes, root := w0.root, lcl := [] }
        ({ nodes := r.nodes, root := r.root, glists := { ci, rc, list := r.lcl } :: w0.glists }, r.lcl, r.root.getD 0)
    let r := ((List.range w.pron.length).drop 1).foldl (phoneStep li s lid w l.logp rclist lcl) { nodes := w1.nodes, pred }
    { w1 with nodes := r.nodes }

/-- `fsg_psubtree_init(lextree, fsg, from_state, &alloc_head[s])`: returns all pnodes and `root[s]` -/
def buildState (li : LexIn) (g : Fsg) (lcs rcs : Array Nat) (nodes : Array PNode) (s : Nat) : Array PNode × Option Nat :=
  let arcs := (arcsOf g s).filter fun lid => 0 ≤ (g.link lid).wid
  let r := arcs.foldl (fun w lid => addTrans li g s (ctxList li (lcs.getD s 0)) (ctxList li (rcs.getD (g.link lid).dst 0)) w lid)
    { nodes := nodes }
  (r.nodes, r.root)

/-- one iteration of the loop over the states in `fsg_lextree_init` (240-248): all pnodes so far, `root[0..s)` -/
def buildStep (li : LexIn) (g : Fsg) (acc : Array PNode × Array (Option Nat)) (s : Nat) : Array PNode × Array (Option Nat) :=
  ((buildState li g (ctxFlags li g).1 (ctxFlags li g).2 acc.1 s).1,
   acc.2.push (buildState li g (ctxFlags li g).1 (ctxFlags li g).2 acc.1 s).2)

/-- `fsg_lextree_init` -/
def buildLexTree (li : LexIn) (g : Fsg) : LexTree :=
  { nst := li.nst, nodes := ((List.range li.nState).foldl (buildStep li g) (#[], #[])).1,
    root := ((List.range li.nState).foldl (buildStep li g) (#[], #[])).2 }

end SSVerif.Search
