import SSVerif.Model.AcmodBuf
/-!
# Boolean form of the structural facts `WF0` about the decoder state between utterances

`wf0b s = true ↔ WF0 s` is proved in `Props/C07Hist.lean`; the driver (`ssdriver c07`) evaluates `wf0b` on the model
state every utterance of a replayed history starts from, and the check compares it with the same facts read from the
counters of the real decoder.
-/
namespace SSVerif.AcmodBuf
open SSVerif.Generated

def wf0b (s : St) : Bool :=
  s.fault.isNone && s.growFeat && decide (s.cepbuf.length = livebuf) && decide (s.curpos < livebuf) &&
    decide (s.featBuf.length = s.nFeatAlloc) && decide (1 ≤ s.nFeatAlloc) && decide (s.mfcBuf.length = s.nMfcAlloc) &&
    decide (1 ≤ s.nMfcAlloc)

end SSVerif.AcmodBuf
