import SSVerif.Model.Ranges
/-!
# M18c — exact (un-truncated) companions of the s2_semi and ms_mgau score arithmetic (property C18)

`Model/Ranges.lean` models `s2_semi_mgau_frame_eval` (`semiNorm`, `semiPass`, `semiEval`) with the `int16` stores the C
code performs (`senone_scores[sen] += tmp` on an `int16` array = `wrap16`).  To STATE "no store truncates" the same
computation is given here with the store replaced by the identity (`semiPassI`, `semiEvalI`): the theorem is
`semiEval … = semiEvalI …` under the range hypotheses.

Also: the final stage of `ms_cont_mgau_frame_eval` (src/ms_mgau.c:318-331, 361-374): `bs = senscr[s] - best`, clamped
to `[-32768, 32767]`, with `best` the minimum of the (already `int16`-clamped, ms_senone.c:377-381) senone scores.
-/
namespace SSVerif.Ranges
open SSVerif.Generated.Ranges

/-- `semiPass` without the `int16` truncation of the store -/
def semiPassI (tab : Nat → Nat) (m : Mixw) (compall : Bool) (f : Nat) (l : List TopN) (n : Nat)
    (sens : List Nat) (sc : List Int) : List Int :=
  let u8 := m.cb.isSome && !compall && decide (1 ≤ n ∧ n ≤ 6)
  sens.foldl (fun sc sen => sc.set sen (sc.getD sen 0 + semiFden tab m u8 f sen l n)) sc

/-- the feature loop of `semiEval` as a recursion over the remaining feature indices (same fold, named) -/
def semiFeatFold (pass : Nat → List TopN → Nat → List Nat → List Int → List Int)
    (normed : List (List TopN × Nat)) (sens : List Nat) (fs : List Nat) (sc : List Int) : List Int :=
  fs.foldl (fun sc f => let p := normed.getD f ([], 0); pass f p.1 p.2 sens sc) sc

/-- `semiEval` without the `int16` truncation -/
def semiEvalI (tab : Nat → Nat) (m : Mixw) (nSen : Nat) (beams : List Int) (t : List (List TopN))
    (compall : Bool) (deltas : List Nat) : List Int :=
  let sens := semiSens compall m.cb.isSome nSen deltas
  let normed := t.mapIdx fun f l => semiNorm (beams.getD f 0) l
  semiFeatFold (semiPassI tab m compall) normed sens (List.range t.length) (List.replicate nSen 0)

/-! ## a whole frame of `s2_semi_mgau_frame_eval` for integer-valued densities -/

/-- `mgau_dist` of one stream (s2_semi_mgau.c:169-181): `eval_topn` re-scores the previous frame's codewords, then —
unless the frame is skipped (`frame % ds_ratio ≠ 0`) — `eval_cb` scans the codebook.  Both are the insertion sorts
already modelled for PTM (`evalTopn`: strict `>`; `evalCb`: threshold on the raw density, duplicate test, `>=`). -/
def semiDist (dens : Nat → Int) (nden : Nat) (skip : Bool) (l : List TopN) : List TopN :=
  let l1 := evalTopn (fun cw => densInt (dens cw)) l
  if skip then l1 else evalCb dens nden l1

/-- one frame: `memcpy` of the previous frame's lists, `mgau_dist`, `mgau_norm`, score passes.  `t` = the lists the
previous frame left (`topn` of its result; initially codeword `k` with `WORST_DIST`). -/
def semiFrame (tab : Nat → Nat) (m : Mixw) (nSen : Nat) (beams : List Int) (dens : Nat → Nat → Int) (nden : Nat)
    (skip : Bool) (t : List (List TopN)) (compall : Bool) (deltas : List Nat) : SemiOut :=
  semiEval tab m nSen beams (t.mapIdx fun f l => semiDist (dens f) nden skip l) compall deltas

/-- the state `s2_semi_mgau_init_s3file` leaves in the top-N history (s2_semi_mgau.c:1005-1016) -/
def semiInit (nfeat topn : Nat) : List (List TopN) :=
  List.replicate nfeat ((List.range topn).map fun k => ⟨k, worstDist⟩)

/-! ## ms_mgau: final normalisation (ms_mgau.c:310-331, 352-374) -/

/-- `if (bs > 32767) bs = 32767; if (bs < -32768) bs = -32768;` -/
def clamp16 (x : Int) : Int := if x > 32767 then 32767 else if x < -32768 then -32768 else x

/-- `best = MAX_INT32; for …: if (best > senscr[s]) best = senscr[s];` -/
def msBest (l : List Int) : Int := l.foldl (fun b x => if b > x then x else b) int32Max

/-- `senscr[s] = clamp16 (senscr[s] - best)` for the evaluated senones (given as the list of their clamped scores) -/
def msNorm (l : List Int) : List Int := l.map fun x => clamp16 (x - msBest l)

end SSVerif.Ranges
