/-!
# Filler / alternate marks of the search FSG's vocabulary (M: `fsg_search_init` → `fsg_search_add_silences`,
`fsg_search_add_altpron`; `fsg_model_add_silence`, `fsg_model_add_alt`, `fsg_model_word_add`; `dict_filler_word`)

`fsg_search_hyp` leaves out the words whose bit is set in `fsg_model_t.silwords` (`fsg_model_is_filler`), while a
client reading the segment iterator decides "filler" with the dictionary (`dict_filler_word`).  This file models how
the bits are produced when a grammar is installed, from the dictionary AS IT IS AT THAT MOMENT (words added at run
time with `decoder_add_word` included: they sit after the filler range, linked into their base word's chain of
alternates).  Core Lean only.
-/
namespace SSVerif.FsgVocab

/-- the part of `dict_t` the bookkeeping reads; words are dictionary word ids -/
structure Dict where
  /-- `dict_basewid` -/
  base : Nat → Nat
  /-- the word ids `dict_nextalt` yields, in order, starting after the given word (`while ((wid = dict_nextalt(dict, wid)) != BAD_S3WID)`) -/
  alts : Nat → List Nat
  /-- `dict_filler_start`, `dict_filler_end` (the latter is the id of the LAST filler word: inclusive in `dict_filler_word`) -/
  fillerStart : Nat
  fillerEnd : Nat
  startWid : Nat
  finishWid : Nat
  /-- id of `<sil>` -/
  silWid : Nat

/-- `dict_filler_word` (dict.c:389-400) -/
def Dict.filler (d : Dict) (w : Nat) : Bool :=
  let b := d.base w
  if b = d.startWid ∨ b = d.finishWid then false
  else decide (d.fillerStart ≤ b ∧ b ≤ d.fillerEnd)

/-- one entry of `fsg_model_t.vocab` with its bits in `silwords` / `altwords` -/
structure VWord where
  wid : Nat
  sil : Bool := false
  alt : Bool := false
deriving Repr, DecidableEq

/-- `fsg_model_t.vocab`: index = word id of the FSG -/
abbrev Vocab := List VWord

/-- index of the first entry with the given word (the `strcmp` scans of `fsg_model_word_add` / `fsg_model_add_alt`) -/
def findW (w : Nat) : Vocab → Option Nat
  | [] => none
  | x :: xs => if x.wid = w then some 0 else (findW w xs).map (· + 1)

/-- apply `f` to the entry at an index -/
def modAt (f : VWord → VWord) : Vocab → Nat → Vocab
  | [], _ => []
  | x :: xs, 0 => f x :: xs
  | x :: xs, i + 1 => x :: modAt f xs i

/-- `fsg_model_word_add` (fsg_model.c): the existing index, or append (new bits are clear) -/
def wordAdd (v : Vocab) (w : Nat) : Vocab × Nat :=
  match findW w v with
  | some i => (v, i)
  | none => (v ++ [{ wid := w }], v.length)

/-- `fsg_model_add_silence` (fsg_model.c:366-393), the vocabulary part: add the word, set its `silwords` bit -/
def addSilence (v : Vocab) (w : Nat) : Vocab :=
  let r := wordAdd v w
  modAt (fun x => { x with sil := true }) r.1 r.2

/-- `fsg_model_add_alt` (fsg_model.c:396-417), the vocabulary part: the base word must be in the vocabulary (else −1,
nothing changes); add the alternate, set its `altwords` bit, and its `silwords` bit when the base word's is set.
(The C code reads the base word's bit after adding the alternate; neither `fsg_model_word_add` nor setting an
`altwords` bit changes a `silwords` bit, so it is read here before.) -/
def addAlt (v : Vocab) (basew altw : Nat) : Vocab :=
  match findW basew v with
  | none => v
  | some bi =>
    let bsil := ((v[bi]?).map (·.sil)).getD false
    let r := wordAdd v altw
    modAt (fun x => { x with alt := true, sil := x.sil || bsil }) r.1 r.2

/-- the word ids the loop of `fsg_search_add_silences` visits: `for (wid = dict_filler_start; wid < dict_filler_end; ++wid)`
without the sentence markers (fsg_search.c:108-115; the LAST filler word is not visited) -/
def fillerLoop (d : Dict) : List Nat :=
  (List.range' d.fillerStart (d.fillerEnd - d.fillerStart)).filter fun w => !(w = d.startWid ∨ w = d.finishWid)

/-- `fsg_search_add_silences` (fsg_search.c:84-118): `<sil>`, then every word the loop visits -/
def addSilences (d : Dict) (v : Vocab) : Vocab :=
  (fillerLoop d).foldl addSilence (addSilence v d.silWid)

/-- `fsg_search_add_altpron` (fsg_search.c:144-170): for the words present when it starts, every later alternate of
the dictionary chain -/
def addAltpron (d : Dict) (v : Vocab) : Vocab :=
  v.foldl (fun acc x => (d.alts x.wid).foldl (fun acc a => addAlt acc x.wid a) acc) v

/-- what `fsg_search_init` does to the vocabulary of the grammar handed to it (`fsgusefiller`, `fsgusealtpron` on) -/
def install (d : Dict) (v0 : Vocab) : Vocab := addAltpron d (addSilences d v0)

end SSVerif.FsgVocab
