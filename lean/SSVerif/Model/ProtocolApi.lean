import SSVerif.Model.ProtocolSys
import SSVerif.Generated.ApiSurface
/-!
# M15, API level — the whole exported surface, borrowed pointers, owned strings, created decoders (C09)

`xStep : XState → XCall → XState × Ret` widens `sysStep` (`Model/ProtocolSys.lean`, two decoders + held
objects) to everything `include/soundswallower/*.h` exports under the prefixes of property C09:

* **`OpKind`** — one tag per kind of call the model distinguishes; `XCall.kind` names the tag of every call and
  `executes : OpKind → List ApiName` lists the exported functions (constructors of the *generated* enumeration
  `Generated.ApiSurface.ApiName`) a call of that kind makes.  `excluded : ApiName → Option String` gives the reason
  for every function no op reaches.  Both are total matches over the generated constructors: a new, renamed or
  removed public function stops this file from compiling (or breaks `C09_api_total`).
* **created decoders** (`decoder_create`): allocated and configured, not initialised — only `decoder_reinit`,
  `decoder_free`, `decoder_retain`, `decoder_config` / `config_*` and `decoder_set_logfile` are calls of the protocol
  until a `decoder_reinit` succeeded in building the acoustic model (every other entry point dereferences
  `d->acmod == NULL`).
* **`ACMOD_STARTED` / `ACMOD_PROCESSING`** are told apart (`phase`): no entry check of decoder.c distinguishes
  them (decoder.c:923, 995, 1032, 1070), `acmod_process_cep` moves from the first to the second when a cepstral
  frame was consumed by a streaming block (acmod.c:787), a `full_utt` block never does (acmod.c:426-452).
* **borrowed pointers** (`borrows`): strings the API hands out without transferring ownership — `decoder_hyp`
  (`search->hyp_str` / `dag->hyp_str`), `decoder_result_json` (`d->json_result`), `decoder_get_cmn`
  (`cmn->repr`), `hyp_iter_hyp` (owned by the A* search of the iterator).  A borrow is dropped from the table
  by the first call that may free what it points to (`keeps`, a white list of calls that provably do not);
  reading a dropped borrow is out-of-protocol, reading a live one is a call of the protocol — the harness really
  reads it, so a wrong entry of the white list is a use-after-free under ASan.
* **owned strings** (`strs`): `decoder_lookup_word` returns memory the caller must release; they outlive the decoder.
* the remaining plain calls: `alignment_propagate`, `config_validate`, `config_expand`, `config_log_help/_values`,
  `config_parse_json(NULL, …)`, `config_set`.

Every new call is defined *through* `sysStep` on the `Sys` component (possibly several base calls) plus updates of
the new components, so the well-formedness and ledger results of the base levels carry over.
-/
namespace SSVerif.Protocol
open SSVerif.Generated.ApiSurface (ApiName)

/-- what a borrowed pointer points into -/
inductive BSrc
  /-- `decoder_hyp(d)` -/
  | hypStr (i : Inst)
  /-- `decoder_result_json(d, …)` -/
  | jsonStr (i : Inst)
  /-- `decoder_get_cmn(d, 0)` -/
  | cmnStr (i : Inst)
  /-- `hyp_iter_hyp(it)` of the hypothesis iterator `id` obtained from decoder `i` -/
  | iterStr (i : Inst) (id : Nat)
  deriving DecidableEq, Repr

def BSrc.inst : BSrc → Inst
  | .hypStr i => i | .jsonStr i => i | .cmnStr i => i | .iterStr i _ => i

structure XState where
  sys : Sys := sys0
  /-- decoder a / b was made by `decoder_create` and no `decoder_reinit` has built its acoustic model yet -/
  crA : Bool := false
  crB : Bool := false
  /-- a created decoder that was given no configuration (`decoder_create(NULL)`) -/
  noCfgA : Bool := false
  noCfgB : Bool := false
  /-- `acmod->state == ACMOD_PROCESSING` (meaningful while the utterance is in progress) -/
  prA : Bool := false
  prB : Bool := false
  /-- borrowed pointers the history still may read: (slot, source) -/
  borrows : List (Nat × BSrc) := []
  /-- strings owned by the history (`decoder_lookup_word`): slots -/
  strs : List Nat := []
  deriving DecidableEq, Repr

def XState.created (x : XState) : Inst → Bool | .a => x.crA | .b => x.crB
def XState.noCfg (x : XState) : Inst → Bool | .a => x.noCfgA | .b => x.noCfgB
def XState.proc (x : XState) : Inst → Bool | .a => x.prA | .b => x.prB
def XState.setCreated (x : XState) (i : Inst) (v n : Bool) : XState :=
  match i with | .a => { x with crA := v, noCfgA := n } | .b => { x with crB := v, noCfgB := n }
def XState.setProc (x : XState) (i : Inst) (v : Bool) : XState :=
  match i with | .a => { x with prA := v } | .b => { x with prB := v }

def x0 : XState := {}

/-- type tag of the value handed to `config_set(c, name, &val, type)` -/
inductive AnyTy | str (v : StrVal) | int | bool | float
  deriving DecidableEq, Repr

inductive XCall
  /-- a call of the base levels; `cons` = (for an audio block) the acoustic model consumed a cepstral frame -/
  | base (c : SysCall) (cons : Bool)
  /-- `decoder_create(config_init(…))` -/
  | createNew (i : Inst) (jsgf : Bool) (g : Gram)
  /-- `decoder_create(NULL)` -/
  | createNull (i : Inst)
  /-- `decoder_hyp`, the returned pointer is kept in borrow slot `k` -/
  | hypHold (i : Inst) (k : Nat) (e : Bool)
  /-- `decoder_result_json`, pointer kept -/
  | jsonHold (i : Inst) (k : Nat) (lvl : Nat) (reuse r a : Bool)
  /-- `decoder_get_cmn(d, 0)`, pointer kept -/
  | cmnHold (i : Inst) (k : Nat)
  /-- `hyp_iter_hyp(it)`, pointer kept -/
  | iterHold (i : Inst) (id k : Nat) (e : Bool)
  /-- read a borrowed string -/
  | borrowUse (k : Nat)
  /-- `decoder_lookup_word`, the returned string is kept in string slot `k` (owned by the history) -/
  | lookupHold (i : Inst) (k : Nat) (found : Bool)
  | strUse (k : Nat)
  /-- `ckd_free` of an owned string -/
  | strFree (k : Nat)
  /-- `alignment_propagate` on a held alignment -/
  | alProp (i : Inst) (k : Nat)
  /-- `config_validate`; `e` = it returned 0 (forced unless the object received uncontrolled changes) -/
  | cfgValidate (t : CfgTarget) (e : Bool)
  | cfgExpand (t : CfgTarget)
  /-- `config_log_help` + `config_log_values` -/
  | cfgLog (t : CfgTarget)
  /-- `config_parse_json(NULL, json)`: a new configuration in slot `k` when the text parses -/
  | cfgParseNew (k : Nat) (ok : Bool)
  /-- `config_set(c, name, &val, type)` -/
  | cfgSetAny (t : CfgTarget) (kt : KeyType) (ty : AnyTy) (safe : Bool)
  deriving DecidableEq, Repr

/-! ## kinds of calls and the functions they execute -/

inductive OpKind
  | initNew | initHeld | reinitKeep | reinitNew | reinitHeld | reinitFeat | retain | free | logfile | touch | freeNull
  | start | proc | endUtt | hyp | prob | nframes | times | getCmn | setCmn
  | seg | segNext | segFree | nbest | hypNext | hypFree | hypSeg
  | lattice | latRetain | latWalk | latFree | latBest | latPrune | latTrav
  | lnode | lnodeNext | lnodeFree | llink | llinkNext | llinkFree
  | align | alRetain | alFree | alBuild | alAdd | alPop | alIter | aliNext | aliChild | aliGoto | aliFree
  | json | lookup | addWord | setGrammar
  | cfgGram | cfgSetStr | cfgSetInt | cfgSetFloat | cfgSetBool | cfgUnset | cfgSetNull | cfgSame | cfgGet | cfgTypeof
  | cfgJson | cfgParse | cfgNew | cfgRetainDec | cfgRetainHeld | cfgUse | cfgFree
  | subRetain | subUse | subFree | mllrRead | mllrApply | mllrApplyNull | mllrFree
  | createNew | createNull | hypHold | jsonHold | cmnHold | iterHold | borrowUse | lookupHold | strUse | strFree
  | alProp | cfgValidate | cfgExpand | cfgLog | cfgParseNew | cfgSetAny
  deriving DecidableEq, Repr

def OpKind.all : List OpKind :=
  [.initNew, .initHeld, .reinitKeep, .reinitNew, .reinitHeld, .reinitFeat, .retain, .free, .logfile, .touch, .freeNull,
   .start, .proc, .endUtt, .hyp, .prob, .nframes, .times, .getCmn, .setCmn,
   .seg, .segNext, .segFree, .nbest, .hypNext, .hypFree, .hypSeg,
   .lattice, .latRetain, .latWalk, .latFree, .latBest, .latPrune, .latTrav,
   .lnode, .lnodeNext, .lnodeFree, .llink, .llinkNext, .llinkFree,
   .align, .alRetain, .alFree, .alBuild, .alAdd, .alPop, .alIter, .aliNext, .aliChild, .aliGoto, .aliFree,
   .json, .lookup, .addWord, .setGrammar,
   .cfgGram, .cfgSetStr, .cfgSetInt, .cfgSetFloat, .cfgSetBool, .cfgUnset, .cfgSetNull, .cfgSame, .cfgGet, .cfgTypeof,
   .cfgJson, .cfgParse, .cfgNew, .cfgRetainDec, .cfgRetainHeld, .cfgUse, .cfgFree,
   .subRetain, .subUse, .subFree, .mllrRead, .mllrApply, .mllrApplyNull, .mllrFree,
   .createNew, .createNull, .hypHold, .jsonHold, .cmnHold, .iterHold, .borrowUse, .lookupHold, .strUse, .strFree,
   .alProp, .cfgValidate, .cfgExpand, .cfgLog, .cfgParseNew, .cfgSetAny]

def OpKind.name (k : OpKind) : String := (reprStr k).replace "SSVerif.Protocol.OpKind." ""

def Call.kind : Call → OpKind
  | .init _ _ => .initNew | .reinit _ => .reinitKeep | .reinitFeat => .reinitFeat | .retain => .retain | .free => .free
  | .logfile _ => .logfile | .mllrApply _ => .mllrApply | .touch => .touch | .freeNull => .freeNull
  | .start => .start | .proc _ _ => .proc | .endUtt _ => .endUtt | .hyp _ => .hyp | .prob => .prob
  | .nframes => .nframes | .times => .times | .getCmn => .getCmn | .setCmn => .setCmn
  | .seg _ _ => .seg | .segNext _ _ => .segNext | .segFree _ => .segFree
  | .nbest _ _ _ => .nbest | .hypNext _ _ => .hypNext | .hypFree _ => .hypFree | .hypSeg _ _ _ => .hypSeg
  | .lattice _ => .lattice | .latRetain _ _ => .latRetain | .latWalk _ => .latWalk | .latFree _ => .latFree
  | .latBest _ _ _ => .latBest | .latPrune _ _ _ => .latPrune | .latTrav _ _ => .latTrav
  | .lnode _ _ _ _ => .lnode | .lnodeNext _ _ => .lnodeNext | .lnodeFree _ => .lnodeFree
  | .llink _ _ _ => .llink | .llinkNext _ _ => .llinkNext | .llinkFree _ => .llinkFree
  | .align _ _ _ => .align | .alRetain _ _ _ _ => .alRetain | .alFree _ => .alFree
  | .alBuild _ => .alBuild | .alAdd _ _ _ => .alAdd | .alPop _ _ => .alPop
  | .alIter _ _ _ _ _ _ => .alIter | .aliNext _ _ => .aliNext | .aliChild _ _ _ => .aliChild
  | .aliGoto _ _ => .aliGoto | .aliFree _ => .aliFree
  | .json _ _ _ _ => .json | .lookup _ => .lookup | .addWord _ _ => .addWord | .setGrammar _ => .setGrammar

def CfgOp.kind : CfgOp → OpKind
  | .setStr _ => .cfgSetStr | .setInt => .cfgSetInt | .setFloat => .cfgSetFloat | .setBool => .cfgSetBool
  | .unset => .cfgUnset | .setNull => .cfgSetNull | .same => .cfgSame | .get => .cfgGet | .typeof => .cfgTypeof
  | .json => .cfgJson | .parse _ => .cfgParse

def SysCall.kind : SysCall → OpKind
  | .dec _ c => c.kind
  | .initNew _ _ _ _ => .initNew | .initHeld _ _ => .initHeld | .reinitKeep _ => .reinitKeep
  | .reinitNew _ _ _ => .reinitNew | .reinitHeld _ _ => .reinitHeld
  | .cfgGram _ _ _ => .cfgGram | .cfgCall _ _ op _ => op.kind
  | .cfgNew _ _ _ => .cfgNew | .cfgRetainDec _ _ => .cfgRetainDec | .cfgRetainHeld _ _ => .cfgRetainHeld
  | .cfgUse _ => .cfgUse | .cfgFree _ => .cfgFree
  | .subRetain _ _ _ => .subRetain | .subUse _ _ => .subUse | .subFree _ _ => .subFree
  | .mllrRead _ _ => .mllrRead | .mllrApply _ _ _ => .mllrApply | .mllrApplyNull _ => .mllrApplyNull
  | .mllrFree _ => .mllrFree

def XCall.kind : XCall → OpKind
  | .base c _ => c.kind
  | .createNew _ _ _ => .createNew | .createNull _ => .createNull
  | .hypHold _ _ _ => .hypHold | .jsonHold _ _ _ _ _ _ => .jsonHold | .cmnHold _ _ => .cmnHold
  | .iterHold _ _ _ _ => .iterHold | .borrowUse _ => .borrowUse
  | .lookupHold _ _ _ => .lookupHold | .strUse _ => .strUse | .strFree _ => .strFree
  | .alProp _ _ => .alProp | .cfgValidate _ _ => .cfgValidate | .cfgExpand _ => .cfgExpand | .cfgLog _ => .cfgLog
  | .cfgParseNew _ _ => .cfgParseNew | .cfgSetAny _ _ _ _ => .cfgSetAny

/-- accessors the harness applies to whatever segment it stands on -/
def segTouch : List ApiName := [.seg_iter_word, .seg_iter_frames, .seg_iter_prob]
def aliTouch : List ApiName := [.alignment_iter_name, .alignment_iter_seg, .alignment_iter_get]
def nodeTouch : List ApiName :=
  [.ps_latnode_iter_node, .ps_latnode_word, .ps_latnode_baseword, .latnode_times, .ps_latnode_prob]
def linkAcc : List ApiName :=
  [.latlink_times, .ps_latlink_nodes, .ps_latlink_word, .ps_latlink_baseword, .ps_latlink_pred, .ps_latlink_prob]
def linkTouch : List ApiName := .ps_latlink_iter_link :: linkAcc
def latTouch : List ApiName :=
  [.lattice_n_frames, .lattice_get_logmath, .ps_latnode_iter, .ps_latnode_iter_next, .ps_latnode_exits, .ps_latnode_entries,
   .ps_latlink_iter_next] ++ nodeTouch ++ linkTouch
def cfgRead : List ApiName :=
  [.config_typeof, .config_int, .config_float, .config_str, .config_bool, .config_get, .config_access]

/-- **the mapping function ↔ model operation**: the exported functions a call of each kind makes (as the harness
`harness/h_c09.c` executes it; the check compares this table with the functions every executed call really reached).
A function may be reached by several kinds. -/
def executes : OpKind → List ApiName
  | .initNew => [.decoder_init, .config_init, .config_set_str]
  | .initHeld => [.decoder_init]
  | .reinitKeep => [.decoder_reinit, .decoder_config]
  | .reinitNew => [.decoder_reinit, .config_init, .config_set_str]
  | .reinitHeld => [.decoder_reinit, .decoder_config]
  | .reinitFeat => [.decoder_reinit_feat]
  | .retain => [.decoder_retain]
  | .free => [.decoder_free]
  | .logfile => [.decoder_set_logfile]
  | .touch => []
  | .freeNull => [.decoder_free, .decoder_retain, .lattice_free, .lattice_retain, .alignment_free, .alignment_retain,
      .alignment_iter_next, .alignment_iter_children, .config_free, .alignment_iter_name, .alignment_iter_seg,
      .alignment_iter_goto, .ps_latnode_iter_free, .ps_latlink_iter_free, .config_retain]
  | .start => [.decoder_start_utt]
  | .proc => [.decoder_process_int16, .decoder_process_float32, .decoder_n_frames]
  | .endUtt => [.decoder_end_utt, .decoder_n_frames]
  | .hyp => [.decoder_hyp]
  | .prob => [.decoder_prob]
  | .nframes => [.decoder_n_frames]
  | .times => [.decoder_utt_time, .decoder_all_time, .decoder_logmath, .decoder_fe, .decoder_feat, .decoder_config]
  | .getCmn => [.decoder_get_cmn]
  | .setCmn => [.decoder_set_cmn]
  | .seg => .decoder_seg_iter :: segTouch
  | .segNext => .seg_iter_next :: segTouch
  | .segFree => [.seg_iter_free]
  | .nbest => [.decoder_nbest, .hyp_iter_hyp]
  | .hypNext => [.hyp_iter_next, .hyp_iter_hyp]
  | .hypFree => [.hyp_iter_free]
  | .hypSeg => .hyp_iter_seg :: segTouch
  | .lattice => .decoder_lattice :: latTouch
  | .latRetain => [.decoder_lattice, .lattice_retain]
  | .latWalk => latTouch
  | .latFree => [.lattice_free]
  | .latBest => [.decoder_lattice, .lattice_bestpath, .lattice_posterior, .lattice_hyp, .lattice_seg_iter, .seg_iter_next]
      ++ segTouch
  | .latPrune => [.decoder_lattice, .lattice_bestpath, .lattice_posterior, .lattice_posterior_prune, .lattice_get_logmath]
      ++ latTouch
  | .latTrav => [.decoder_lattice, .lattice_traverse_edges, .lattice_traverse_next, .lattice_reverse_edges,
      .lattice_reverse_next] ++ linkAcc
  | .lnode => [.decoder_lattice, .ps_latnode_iter] ++ nodeTouch
  | .lnodeNext => .ps_latnode_iter_next :: nodeTouch
  | .lnodeFree => [.ps_latnode_iter_free]
  | .llink => [.ps_latnode_exits, .ps_latnode_entries, .ps_latnode_iter_node] ++ linkTouch
  | .llinkNext => .ps_latlink_iter_next :: linkTouch
  | .llinkFree => [.ps_latlink_iter_free]
  | .align => [.decoder_alignment]
  | .alRetain => [.decoder_alignment, .alignment_retain]
  | .alFree => [.alignment_free]
  | .alBuild => [.alignment_init]
  | .alAdd => [.alignment_add_word]
  | .alPop => [.alignment_populate, .alignment_populate_ci]
  | .alIter => [.decoder_alignment, .alignment_words, .alignment_phones, .alignment_states] ++ aliTouch
  | .aliNext => .alignment_iter_next :: aliTouch
  | .aliChild => .alignment_iter_children :: aliTouch
  | .aliGoto => .alignment_iter_goto :: aliTouch
  | .aliFree => [.alignment_iter_free]
  | .json => [.decoder_result_json]
  | .lookup => [.decoder_lookup_word]
  | .addWord => [.decoder_add_word]
  | .setGrammar => [.decoder_set_jsgf_string, .decoder_set_jsgf_file, .decoder_set_fsg, .decoder_set_align_text,
      .decoder_logmath, .decoder_config, .config_float]
  | .cfgGram => [.decoder_config, .config_set_str]
  | .cfgSetStr => [.decoder_config, .config_set_str]
  | .cfgSetInt => [.decoder_config, .config_set_int]
  | .cfgSetFloat => [.decoder_config, .config_set_float]
  | .cfgSetBool => [.decoder_config, .config_set_bool]
  | .cfgUnset => [.decoder_config, .config_unset]
  | .cfgSetNull => [.decoder_config, .config_set]
  | .cfgSame => [.decoder_config, .config_typeof, .config_str, .config_int, .config_bool, .config_float, .config_set_str,
      .config_set_int, .config_set_bool, .config_set_float]
  | .cfgGet => .decoder_config :: cfgRead
  | .cfgTypeof => [.decoder_config, .config_typeof]
  | .cfgJson => [.decoder_config, .config_serialize_json]
  | .cfgParse => [.decoder_config, .config_parse_json]
  | .cfgNew => [.config_init, .config_set_str]
  | .cfgRetainDec => [.decoder_config, .config_retain]
  | .cfgRetainHeld => [.config_retain]
  | .cfgUse => .config_serialize_json :: cfgRead
  | .cfgFree => [.config_free]
  | .subRetain => [.decoder_logmath, .decoder_fe, .decoder_feat]
  | .subUse => []
  | .subFree => []
  | .mllrRead => []
  | .mllrApply => [.decoder_apply_mllr]
  | .mllrApplyNull => [.decoder_apply_mllr]
  | .mllrFree => []
  | .createNew => [.decoder_create, .config_init, .config_set_str]
  | .createNull => [.decoder_create]
  | .hypHold => [.decoder_hyp]
  | .jsonHold => [.decoder_result_json]
  | .cmnHold => [.decoder_get_cmn]
  | .iterHold => [.hyp_iter_hyp]
  | .borrowUse => []
  | .lookupHold => [.decoder_lookup_word]
  | .strUse => []
  | .strFree => []
  | .alProp => [.alignment_propagate]
  | .cfgValidate => [.decoder_config, .config_validate]
  | .cfgExpand => [.decoder_config, .config_expand]
  | .cfgLog => [.decoder_config, .config_log_help, .config_log_values]
  | .cfgParseNew => [.config_parse_json]
  | .cfgSetAny => [.decoder_config, .config_set]

/-- the exported functions no operation of the model reaches, each with the reason — a total match over the generated
enumeration (`none` = the function must be executed by some operation) -/
def excluded : ApiName → Option String
  | .config_val_init => some "internal constructor of a config_val_t (no documentation comment, no exported destructor); used by config_init only"
  | .lattice_init_search => some "takes a search_module_t (no public way to obtain one); stage of decoder_lattice, reached through it"
  | .lattice_link => some "lattice construction (needs nodes of a lattice under construction); reached through decoder_lattice"
  | .lattice_penalize_fillers => some "rescoring stage of lattice construction, rewrites link scores in place; reached through decoder_lattice"
  | .lattice_delete_unreachable => some "clean-up stage of lattice construction and of lattice_posterior_prune; reached through both"
  | .lattice_pushq => some "agenda of the traversal functions (lattice_traverse_* / _reverse_* own the queue); reached through them"
  | .lattice_popq => some "agenda of the traversal functions; reached through lattice_traverse_next / lattice_reverse_next"
  | .lattice_delq => some "agenda of the traversal functions; reached through lattice_traverse_edges / lattice_reverse_edges / lattice_free"
  | .latlink_list_new => some "allocator of link-list cells from the lattice's private pool; reached through lattice construction and the agenda"
  | .astar_search_start => some "implementation of decoder_nbest (hyp_iter_t is the astar_search_t); reached through it"
  | .astar_next => some "implementation of hyp_iter_next; reached through it"
  | .astar_finish => some "implementation of hyp_iter_free and of running a hypothesis iterator off its end; reached through them"
  | .astar_hyp => some "implementation of hyp_iter_hyp; reached through it"
  | .astar_search_seg_iter => some "implementation of hyp_iter_seg; reached through it"
  | _ => none

/-- the function is executed by some operation of the model -/
def covered (f : ApiName) : Bool := OpKind.all.any fun k => (executes k).contains f

/-! ## borrowed pointers: which calls keep them alive -/

/-- kinds of calls that cannot free `search->hyp_str` / `dag->hyp_str` of the decoder they are made on -/
def keepsHyp : OpKind → Bool
  | .nframes | .times | .getCmn | .setCmn | .cmnHold | .lookup | .lookupHold | .touch | .retain | .logfile | .proc
  | .seg | .segNext | .segFree | .hypNext | .hypFree | .hypSeg | .iterHold
  | .aliNext | .aliChild | .aliGoto | .aliFree | .alBuild | .alAdd | .alPop | .alFree | .alProp
  | .lnodeNext | .lnodeFree | .llink | .llinkNext | .llinkFree
  | .cfgGet | .cfgTypeof | .cfgJson | .cfgValidate | .cfgLog | .cfgRetainDec | .subRetain | .freeNull => true
  | _ => false

/-- kinds of calls that cannot free `d->json_result` (freed by `decoder_result_json`, `decoder_start_utt`,
`decoder_reinit`, the last `decoder_free`: decoder.c:282, 562, 947, 1614) -/
def keepsJson : OpKind → Bool
  | .json | .jsonHold | .start | .reinitKeep | .reinitNew | .reinitHeld | .free | .initNew | .initHeld | .createNew
  | .createNull => false
  | _ => true

/-- kinds of calls that cannot rewrite `cmn->repr` (rewritten by every CMN update: audio, end of utterance,
`decoder_get_cmn(d, 1)`, `decoder_set_cmn`; released with the feature module) -/
def keepsCmn : OpKind → Bool
  | .nframes | .times | .cmnHold | .lookup | .lookupHold | .touch | .retain | .logfile | .hyp | .hypHold | .prob
  | .seg | .segNext | .segFree | .nbest | .hypNext | .hypFree | .hypSeg | .iterHold
  | .lattice | .latRetain | .latWalk | .latFree | .latBest | .latPrune | .latTrav
  | .lnode | .lnodeNext | .lnodeFree | .llink | .llinkNext | .llinkFree
  | .align | .alRetain | .alIter | .json | .jsonHold
  | .aliNext | .aliChild | .aliGoto | .aliFree | .alBuild | .alAdd | .alPop | .alFree | .alProp
  | .cfgGet | .cfgTypeof | .cfgJson | .cfgValidate | .cfgLog | .cfgRetainDec | .subRetain | .freeNull | .addWord => true
  | _ => false

/-- does a call of kind `k` made on decoder `i` leave the borrow alive -/
def keeps (k : OpKind) (i : Inst) : BSrc → Bool
  | .hypStr j => j != i || keepsHyp k
  | .jsonStr j => j != i || keepsJson k
  | .cmnStr j => j != i || keepsCmn k
  | .iterStr _ _ => true

/-- the decoder instance an API-level call is made on -/
def instOfX : XCall → Option Inst
  | .base c _ => instOf c
  | .createNew i _ _ => some i | .createNull i => some i
  | .hypHold i _ _ => some i | .jsonHold i _ _ _ _ _ => some i | .cmnHold i _ => some i | .iterHold i _ _ _ => some i
  | .lookupHold i _ _ => some i | .alProp i _ => some i
  | .cfgValidate (.dec i) _ => some i | .cfgExpand (.dec i) => some i | .cfgLog (.dec i) => some i
  | .cfgSetAny (.dec i) _ _ _ => some i
  | _ => none

/-- a hypothesis-iterator string lives exactly as long as its iterator is in the table -/
def iterAlive (s : Sys) : BSrc → Bool
  | .iterStr i id => (findIter (s.inst i).iters id).isSome
  | _ => true

/-- the borrows that survive a call of kind `k` on instance `oi` which leads to system state `s'` -/
def survive (k : OpKind) (oi : Option Inst) (s' : Sys) (l : List (Nat × BSrc)) : List (Nat × BSrc) :=
  l.filter fun p => (match oi with | some i => keeps k i p.2 | none => true) && iterAlive s' p.2

def setBorrow (l : List (Nat × BSrc)) (k : Nat) (b : BSrc) : List (Nat × BSrc) := (k, b) :: l.filter (·.1 != k)

/-- decoder calls of the base automaton that take the decoder itself (as opposed to an iterator, lattice or alignment
handle obtained earlier) -/
def takesDec : Call → Bool
  | .retain | .touch | .free | .reinit _ | .reinitFeat | .logfile _ | .mllrApply _ | .start | .proc _ _ | .endUtt _
  | .hyp _ | .prob | .nframes | .times | .getCmn | .setCmn | .lookup _ | .seg _ _ | .lattice _ | .latRetain _ _
  | .nbest _ _ _ | .alBuild _ | .align _ _ _ | .alRetain _ _ _ _ | .alIter _ .dec _ _ _ _ | .json _ _ _ _
  | .addWord _ _ | .setGrammar _ => true
  | .latBest .dec _ _ | .latPrune .dec _ _ | .latTrav .dec _ | .lnode _ .dec _ _ => true
  | _ => false

/-- calls a created (not yet initialised) decoder does not accept: everything that takes the decoder and needs its
acoustic model, dictionary or search (they dereference `d->acmod == NULL`, `d->dict == NULL`) -/
def blockedCreated : XCall → Bool
  | .base (.dec _ .retain) _ => false | .base (.dec _ .free) _ => false | .base (.dec _ (.logfile _)) _ => false
  | .base (.dec _ c) _ => takesDec c
  | .base (.subRetain _ _ _) _ => true | .base (.mllrApply _ _ _) _ => true | .base (.mllrApplyNull _) _ => true
  | .hypHold _ _ _ => true | .jsonHold _ _ _ _ _ _ => true | .cmnHold _ _ => true | .lookupHold _ _ _ => true
  | _ => false

/-- the call reads or writes the configuration object of decoder `i` -/
def usesDecCfg : XCall → Bool
  | .base (.cfgGram (.dec _) _ _) _ => true | .base (.cfgCall (.dec _) _ _ _) _ => true
  | .base (.cfgRetainDec _ _) _ => true
  | .cfgValidate (.dec _) _ => true | .cfgExpand (.dec _) => true | .cfgLog (.dec _) => true
  | .cfgSetAny (.dec _) _ _ _ => true
  | _ => false

/-- the listed out-of-order calls at this level: those of the base automaton -/
def outOfOrderX (x : XState) : XCall → Prop
  | .base (.dec i c) _ => x.created i = false ∧ outOfOrder (x.sys.inst i) c
  | .hypHold i _ _ => x.created i = false ∧ (x.sys.inst i).refs ≠ 0 ∧ (x.sys.inst i).search = .none
  | _ => False

instance (x : XState) (c : XCall) : Decidable (outOfOrderX x c) := by
  cases c with
  | base c _ => cases c <;> simp only [outOfOrderX] <;> infer_instance
  | _ => simp only [outOfOrderX] <;> infer_instance

def anyOp : AnyTy → CfgOp
  | .str v => .setStr v | .int => .setInt | .bool => .setBool
  /- repaired code (D81): the pinned tree handed a FLOATING value to `config_set_bool` (config.c:880-881) -/
  | .float => .setFloat

/-- a listed out-of-order call: rejected at entry, nothing is freed -/
def quietCall (x : XState) : SysCall → Bool
  | .dec i dc => decide (outOfOrder (x.sys.inst i) dc)
  | _ => false

/-- phase and created-flag bookkeeping after a base call that returned `ret` and led to `x1` -/
def postBase (x1 : XState) (c : SysCall) (cons : Bool) (ret : Ret) : XState :=
  match c with
  | .dec i .start => if ret = .ok then x1.setProc i false else x1
  | .dec i (.proc full adv) => if ret == .count && !full && (cons || adv) then x1.setProc i true else x1
  | .reinitKeep i => x1.setCreated i false false
  | .reinitNew i _ _ => x1.setCreated i false false
  | .reinitHeld i _ => x1.setCreated i false false
  | .dec i .free => if (x1.sys.inst i).refs = 0 then x1.setCreated i false false else x1
  | _ => x1

/-- the base step with the bookkeeping of the new components -/
def baseStep (x : XState) (c : SysCall) (cons : Bool) : XState × Ret :=
  let r := sysStep x.sys c
  if r.2 = .oop then (x, .oop)
  else if quietCall x c then ({ x with sys := r.1 }, r.2)
  else (postBase { x with sys := r.1, borrows := survive c.kind (instOf c) r.1 x.borrows } c cons r.2, r.2)

/-- a created decoder accepts only the calls that do not need the acoustic model, and one created without a
configuration has none to work on -/
def blocked (x : XState) (c : XCall) : Bool :=
  match instOfX c with
  | some i => (x.created i && blockedCreated c) || (x.noCfg i && usesDecCfg c)
  | none => false

def xCore (x : XState) (c : XCall) : XState × Ret :=
  match c with
  | .base (.reinitKeep i) cons =>
    -- decoder_reinit(d, NULL) on a decoder without configuration: decoder_init_fe refuses (decoder.c:290)
    if x.noCfg i then
      (if (x.sys.inst i).refs = 0 then (x, .oop) else (x, .err))
    else baseStep x (.reinitKeep i) cons
  | .base c cons => baseStep x c cons
  | .createNew i jsgf g =>
    -- the decoder exists, owns its configuration, and has nothing else
    let r := sysStep x.sys (.initNew i jsgf .none false)
    if r.2 ≠ .ptr then (x, .oop) else
    let r2 := sysStep r.1 (.cfgGram (.dec i) jsgf g)
    ({ x with sys := r2.1, borrows := survive .createNew (some i) r2.1 x.borrows }.setCreated i true false, .ptr)
  | .createNull i =>
    let r := sysStep x.sys (.initNew i false .none false)
    if r.2 ≠ .ptr then (x, .oop) else
    ({ x with sys := r.1, borrows := survive .createNull (some i) r.1 x.borrows }.setCreated i true true, .ptr)
  | .hypHold i k e =>
    let r := sysStep x.sys (.dec i (.hyp e))
    if r.2 = .oop then (x, .oop)
    else if (x.sys.inst i).search = .none then (x, r.2)
    else
      let bs := survive .hypHold (some i) r.1 x.borrows
      ({ x with sys := r.1, borrows := if r.2 = .ptr then setBorrow bs k (.hypStr i) else bs.filter (·.1 != k) }, r.2)
  | .jsonHold i k lvl ru r a =>
    let s := sysStep x.sys (.dec i (.json lvl ru r a))
    if s.2 = .oop then (x, .oop) else
    let bs := survive .jsonHold (some i) s.1 x.borrows
    ({ x with sys := s.1, borrows := if s.2 = .ptr then setBorrow bs k (.jsonStr i) else bs.filter (·.1 != k) }, s.2)
  | .cmnHold i k =>
    let r := sysStep x.sys (.dec i .getCmn)
    if r.2 = .oop then (x, .oop) else
    let bs := survive .cmnHold (some i) r.1 x.borrows
    ({ x with sys := r.1, borrows := setBorrow bs k (.cmnStr i) }, r.2)
  | .iterHold i id k e =>
    match findIter (x.sys.inst i).iters id with
    | some it =>
      -- the strings belong to the A* search object itself: they can be read until the iterator is freed or
      -- exhausted, but asking for a new one walks the lattice, so the iterator must be valid
      if isHyp it.kind && it.valid then
        (if e then { x with borrows := setBorrow x.borrows k (.iterStr i id) }
         else { x with borrows := x.borrows.filter (·.1 != k) }, ptrIf e)
      else (x, .oop)
    | none => (x, .oop)
  | .borrowUse k => if x.borrows.any (·.1 == k) then (x, .void) else (x, .oop)
  | .lookupHold i k found =>
    if k ∈ x.strs then (x, .oop) else
    let r := sysStep x.sys (.dec i (.lookup found))
    if r.2 = .oop then (x, .oop) else
    ({ x with sys := r.1, borrows := survive .lookupHold (some i) r.1 x.borrows,
              strs := if r.2 = .ptr then k :: x.strs else x.strs }, r.2)
  | .strUse k => if k ∈ x.strs then (x, .void) else (x, .oop)
  | .strFree k => if k ∈ x.strs then ({ x with strs := x.strs.filter (· != k) }, .void) else (x, .oop)
  | .alProp i k =>
    -- durations are summed upwards in place (ps_alignment.c:322-357): no entry is added or removed; iterators into the
    -- alignment keep pointing at entries
    if k ∈ (x.sys.inst i).alns then (x, .ok) else (x, .oop)
  | .cfgValidate t e =>
    match targetObj x.sys t with
    | none => (x, .oop)
    | some id =>
      let o := getCfg x.sys.cfgs id
      -- config.c:339-365: −1 exactly when more than one of `jsgf`, `fsg` is set
      let ok := if o.wild then e else !(o.jsgf != .none && o.fsg != .none)
      (x, if ok then .ok else .err)
  | .cfgExpand t => if (targetObj x.sys t).isSome then (x, .void) else (x, .oop)
  | .cfgLog t => if (targetObj x.sys t).isSome then (x, .void) else (x, .oop)
  | .cfgParseNew k ok =>
    if ok then
      let r := sysStep x.sys (.cfgNew k false .none)
      if r.2 = .oop then (x, .oop) else
      -- defaults plus whatever the text sets: no acoustic model is named, no decoder is known to accept it
      ({ x with sys := (sysStep r.1 (.cfgCall (.held k) .unknown .get false)).1 }, .ptr)
    else if (slotObj x.sys.cfgSlots k).isSome then (x, .oop) else (x, .null)
  | .cfgSetAny t kt ty safe =>
    let r := sysStep x.sys (.cfgCall t kt (anyOp ty) safe)
    if r.2 = .oop then (x, .oop) else
    ({ x with sys := r.1, borrows := survive .cfgSetAny (instOfX c) r.1 x.borrows }, r.2)

def xStep (x : XState) (c : XCall) : XState × Ret :=
  if blocked x c then (x, .oop) else xCore x c

def xRun (x : XState) : List XCall → XState
  | [] => x
  | c :: cs => xRun (xStep x c).1 cs

def xRets (x : XState) : List XCall → List Ret
  | [] => []
  | c :: cs => (xStep x c).2 :: xRets (xStep x c).1 cs

/-! ## ledger of everything the API hands out -/

inductive XRef
  | sys (r : SysRef)
  /-- a string returned by `decoder_lookup_word` -/
  | userString (k : Nat)
  deriving DecidableEq, Repr

def xLedger (x : XState) : List XRef := (sysLedger x.sys).map .sys ++ x.strs.map .userString

/-- everything owned has been released (borrowed pointers are not owned: they need no release) -/
def XClosed (x : XState) : Prop := SysClosed x.sys ∧ x.strs = []

instance (x : XState) : Decidable (XClosed x) := by unfold XClosed; infer_instance

/-! ## releasing everything that is held -/

/-- the call that frees an iterator -/
def freeCall (it : Iter) : Call :=
  match it.kind with
  | .segS => .segFree it.id | .segH => .segFree it.id | .hyp => .hypFree it.id
  | .aliD => .aliFree it.id | .aliU _ => .aliFree it.id | .latN _ => .lnodeFree it.id | .latL _ => .llinkFree it.id

/-- the next release on one decoder instance: an outstanding iterator, else a retained lattice, else a held
alignment, else a decoder reference -/
def nextI (s : ApiState) : Option Call :=
  match s.iters with
  | it :: _ => some (freeCall it)
  | [] =>
    match s.lats with
    | p :: _ => some (.latFree p.1)
    | [] =>
      match s.alns with
      | k :: _ => some (.alFree k)
      | [] => if s.refs ≠ 0 then some .free else none

/-- the next call of a history that releases everything still held (`none`: nothing is held) -/
def nextRelease (x : XState) : Option XCall :=
  match nextI x.sys.da with
  | some c => some (.base (.dec .a c) false)
  | none =>
    match nextI x.sys.db with
    | some c => some (.base (.dec .b c) false)
    | none =>
      match x.sys.cfgSlots with
      | p :: _ => some (.base (.cfgFree p.1) false)
      | [] =>
        match x.sys.subs with
        | p :: _ => some (.base (.subFree p.1 p.2) false)
        | [] =>
          match x.sys.mllrs with
          | k :: _ => some (.base (.mllrFree k) false)
          | [] =>
            match x.strs with
            | k :: _ => some (.strFree k)
            | [] => none

/-- number of things one decoder instance's tables hold -/
def heldI (s : ApiState) : Nat := s.iters.length + s.lats.length + s.alns.length + s.refs

/-- number of owned things the history holds -/
def held (x : XState) : Nat :=
  heldI x.sys.da + heldI x.sys.db + x.sys.cfgSlots.length + x.sys.subs.length + x.sys.mllrs.length + x.strs.length

/-- the releasing calls, at most `n` of them -/
def drain : Nat → XState → List XCall
  | 0, _ => []
  | n + 1, x =>
    match nextRelease x with
    | none => []
    | some c => c :: drain n (xStep x c).1

/-- the closing history of a state: release everything it holds -/
def releaseAll (x : XState) : List XCall := drain (held x) x

/-! ## outcomes the model predicts from what it has seen

The data-dependent part of an outcome is a parameter of the call, reported by the implementation.  Where earlier
calls of the same history determine it, the correspondence run does not hand the reported value to `xStep`: it hands
the value the model PREDICTS (`Seen.predict`), so a disagreement shows as a difference in return class or state.
Predicted: `decoder_hyp` / `decoder_seg_iter` repeat their NULL / non-NULL outcome as long as only calls that cannot
change the result were made (`pureQuery`); a hypothesis string implies a segmentation (`fsg_search_hyp` returns NULL
whenever `fsg_search_seg_iter` does: both start from the same `fsg_search_find_exit`); the frame counter
`decoder_n_frames` is 1 after `decoder_start_utt`, grows by exactly what each `decoder_process_*` call returned, and is
not changed by a pure query. -/

structure Seen where
  /-- `decoder_n_frames` as predicted / last learnt -/
  frames : Option Nat := none
  /-- `decoder_hyp` returned non-NULL, while nothing that can change the result happened since -/
  hyp : Option Bool := none
  /-- `decoder_seg_iter` returned non-NULL, likewise -/
  seg : Option Bool := none
  /-- words `decoder_add_word` accepted since the dictionary was last loaded (symbolic names) -/
  added : List String := []
  deriving DecidableEq, Repr

/-- what the history knows about the word of a `decoder_add_word` / `decoder_lookup_word` call: a spelling that is in no
loaded dictionary (`fresh`), an alternative pronunciation `base(2)` of such a word, a word every loaded dictionary has
(`present`: also a filler), one that none has and no call adds (`absent`: also the empty string and an alternative of a
missing base), or nothing (`echo`) -/
inductive WordInfo | fresh (id : String) | altOf (base id : String) | present | absent | echo
  deriving DecidableEq, Repr

/-- the phone string of a `decoder_add_word` call: phones of the model / no phone or an unknown one / unknown -/
inductive PhoneInfo | valid | invalid | echo
  deriving DecidableEq, Repr

/-- is the word in the dictionary? -/
def Seen.lookupPred (m : Seen) : WordInfo → Option Bool
  | .fresh id => some (m.added.contains id)
  | .altOf _ id => some (m.added.contains id)
  | .present => some true
  | .absent => some false
  | .echo => none

/-- does `decoder_add_word` accept? (dict.c: a duplicate, an alternative of a missing base, an empty word, an empty
or unknown phone string are refused) -/
def Seen.addPred (m : Seen) (w : WordInfo) (p : PhoneInfo) : Option Bool :=
  match p, w with
  | .invalid, _ => some false
  | _, .present => some false
  | _, .absent => some false
  | .valid, .fresh id => some (!m.added.contains id)
  | .valid, .altOf b id => some (m.added.contains b && !m.added.contains id)
  | _, _ => none

/-- calls that can change neither the recognition result nor the frame counter of the decoder they are made on -/
def pureQuery : OpKind → Bool
  | .hyp | .hypHold | .seg | .segNext | .segFree | .nframes | .times | .lookup | .lookupHold | .cmnHold | .touch | .retain
  | .cfgGet | .cfgTypeof | .cfgJson | .cfgValidate | .cfgLog | .freeNull | .logfile | .iterHold | .hypNext | .hypFree
  | .hypSeg => true
  | _ => false

/-- "a new alignment was returned": impossible when no segmentation exists -/
def Seen.alignFlag (m : Seen) (r : Bool) : Bool := if m.seg = some false then false else r

/-- the call the model steps: reported flags replaced by predictions where it has one -/
def Seen.predict (m : Seen) (w : WordInfo := .echo) (p : PhoneInfo := .echo) : XCall → XCall
  | .base (.dec i (.hyp e)) c => .base (.dec i (.hyp (m.hyp.getD e))) c
  | .base (.dec i (.seg id e)) c => .base (.dec i (.seg id (m.seg.getD e))) c
  | .hypHold i k e => .hypHold i k (m.hyp.getD e)
  | .base (.dec i (.lookup f)) c => .base (.dec i (.lookup ((m.lookupPred w).getD f))) c
  | .lookupHold i k f => .lookupHold i k ((m.lookupPred w).getD f)
  | .base (.dec i (.addWord u ok)) c => .base (.dec i (.addWord u ((m.addPred w p).getD ok))) c
  -- `decoder_alignment` returns NULL when `decoder_seg_iter` does (decoder.c:768-770), unless it reuses its aligner
  | .base (.dec i (.align ru r a)) c => .base (.dec i (.align ru (m.alignFlag r) a)) c
  | .base (.dec i (.alRetain k ru r a)) c => .base (.dec i (.alRetain k ru (m.alignFlag r) a)) c
  | .base (.dec i (.alIter id .dec ru r a e)) c => .base (.dec i (.alIter id .dec ru (m.alignFlag r) a e)) c
  | .base (.dec i (.json lvl ru r a)) c => .base (.dec i (.json lvl ru (m.alignFlag r) a)) c
  | .jsonHold i k lvl ru r a => .jsonHold i k lvl ru (m.alignFlag r) a
  | c => c

/-- what is known after a call of instance `i` that returned `ret` (`noop`: out-of-protocol or a listed out-of-order call;
`nret`: the count a `decoder_process_*` call returned; `fed`: the frame counter the implementation shows afterwards, used
only where the model has no prediction) -/
def WordInfo.id : WordInfo → Option String
  | .fresh id => some id | .altOf _ id => some id | _ => none

/-- calls that load the dictionary anew -/
def reloadsDict : OpKind → Bool
  | .initNew | .initHeld | .reinitKeep | .reinitNew | .reinitHeld | .createNew | .createNull => true
  | _ => false

def Seen.update (m : Seen) (c : XCall) (ret : Ret) (noop : Bool) (nret fed : Nat) (w : WordInfo := .echo) : Seen :=
  if noop then m else
  match c with
  | .base (.dec _ .start) _ => { frames := some 1, added := m.added }
  | .base (.dec _ (.proc _ _)) _ =>
    { frames := some (match m.frames with | some f => f + nret | none => fed), added := m.added }
  | .base (.dec _ (.addWord _ _)) _ =>
    { frames := some fed,
      added := match w.id with
        | some id => if ret == .count then id :: m.added else m.added
        | none => m.added }
  | .base (.dec _ (.hyp _)) _ =>
    { m with frames := some (m.frames.getD fed), hyp := some (ret == .ptr),
             seg := if ret == .ptr then some true else m.seg }
  | .hypHold _ _ _ =>
    { m with frames := some (m.frames.getD fed), hyp := some (ret == .ptr),
             seg := if ret == .ptr then some true else m.seg }
  | .base (.dec _ (.seg _ _)) _ =>
    { m with frames := some (m.frames.getD fed), seg := some (ret == .ptr),
             hyp := if ret == .ptr then m.hyp else some false }
  | c =>
    if pureQuery c.kind then { m with frames := some (m.frames.getD fed) }
    else { frames := some fed, added := if reloadsDict c.kind then [] else m.added }

end SSVerif.Protocol
