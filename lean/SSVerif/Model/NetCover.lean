import SSVerif.Model.Viterbi
/-!
# One network covering another (C02: the flat network unfolds the lextree network)

`N1` is the *coarse* network (the lextree read as a network, `SearchScore.treeNet`: HMMs are shared between words
with a common prefix and between context variants with the same senone sequence), `N2` the *fine* one (the flat
network of `FlatNet.build`: one HMM per word arc, phone position and context variant).  A certificate is a map `f`
from the states of `N2` (all `< n2`) to the states of `N1` and a map `cls` that sends every state of `N2` to a
representative of its class of interchangeable states.  `Cover` says:

* `f` is a homomorphism: initial entries, edges and exits of `N2` are such of `N1`, with the same cost;
* lifting up to interchangeability: an edge (exit) of `N1` out of `f s` is the image of an edge (exit) of `N2` out of
  a state interchangeable with `s`; an initial entry of `N1` is the image of one of `N2`;
* a state and its representative have the same image, the same initial costs, and the same incoming edges (same
  cost, sources interchangeable).

Every clause is a bounded quantification over the lists of the two networks, so `Cover` is decidable; the driver
evaluates it on the flat network and the real lextree of every case.  `Proofs/NetCover.lean`: a covered network has
the same Viterbi optimum for all emission scores that agree along `f`, for every length.  Core Lean only.
-/
namespace SSVerif.NetCover
open SSVerif.Viterbi

structure Cert where
  n2 : Nat
  f : Nat → Nat
  cls : Nat → Nat

/-- all states of `N2` are `< n2` -/
def Wf2 (N2 : Net) (C : Cert) : Prop :=
  (∀ e ∈ N2.edges, e.1 < C.n2 ∧ e.2.1 < C.n2) ∧ (∀ e ∈ N2.init, e.1 < C.n2) ∧ (∀ e ∈ N2.exits, e.1 < C.n2)

/-- `f` is a homomorphism -/
def Hom (N1 N2 : Net) (C : Cert) : Prop :=
  (∀ e ∈ N2.edges, (C.f e.1, C.f e.2.1, e.2.2) ∈ N1.edges) ∧ (∀ e ∈ N2.init, (C.f e.1, e.2) ∈ N1.init) ∧
  (∀ e ∈ N2.exits, (C.f e.1, e.2) ∈ N1.exits)

/-- lifting up to interchangeability -/
def Lift (N1 N2 : Net) (C : Cert) : Prop :=
  (∀ e1 ∈ N1.edges, ∀ s, s < C.n2 → C.f s = e1.1 →
      ∃ e2 ∈ N2.edges, C.cls e2.1 = C.cls s ∧ C.f e2.2.1 = e1.2.1 ∧ e2.2.2 = e1.2.2) ∧
  (∀ e1 ∈ N1.init, ∃ e2 ∈ N2.init, C.f e2.1 = e1.1 ∧ e2.2 = e1.2) ∧
  (∀ e1 ∈ N1.exits, ∀ s, s < C.n2 → C.f s = e1.1 → ∃ e2 ∈ N2.exits, C.cls e2.1 = C.cls s ∧ e2.2 = e1.2)

/-- a state and its representative: same image, same initial costs, same incoming edges up to interchangeability -/
def ClsOK (N2 : Net) (C : Cert) (s : Nat) : Prop :=
  (C.cls s < C.n2 ∧ C.f (C.cls s) = C.f s) ∧
  ((∀ e ∈ N2.init, e.1 = s → (C.cls s, e.2) ∈ N2.init) ∧ (∀ e ∈ N2.init, e.1 = C.cls s → (s, e.2) ∈ N2.init)) ∧
  ((∀ e ∈ N2.edges, e.2.1 = s → ∃ e' ∈ N2.edges, e'.2.1 = C.cls s ∧ C.cls e'.1 = C.cls e.1 ∧ e'.2.2 = e.2.2) ∧
   (∀ e ∈ N2.edges, e.2.1 = C.cls s → ∃ e' ∈ N2.edges, e'.2.1 = s ∧ C.cls e'.1 = C.cls e.1 ∧ e'.2.2 = e.2.2))

instance (N2 : Net) (C : Cert) : Decidable (Wf2 N2 C) := by unfold Wf2; infer_instance
instance (N1 N2 : Net) (C : Cert) : Decidable (Hom N1 N2 C) := by unfold Hom; infer_instance
instance (N1 N2 : Net) (C : Cert) : Decidable (Lift N1 N2 C) := by unfold Lift; infer_instance
instance (N2 : Net) (C : Cert) (s : Nat) : Decidable (ClsOK N2 C s) := by unfold ClsOK; infer_instance

def Cover (N1 N2 : Net) (C : Cert) : Prop :=
  Wf2 N2 C ∧ Hom N1 N2 C ∧ Lift N1 N2 C ∧ ∀ s, s < C.n2 → ClsOK N2 C s

instance (N1 N2 : Net) (C : Cert) : Decidable (Cover N1 N2 C) := by unfold Cover; infer_instance

def coverB (N1 N2 : Net) (C : Cert) : Bool := decide (Cover N1 N2 C)

end SSVerif.NetCover
