import SSVerif.Model.SearchLex
import SSVerif.Model.FlatNet
import SSVerif.Model.HistDom
import SSVerif.Model.NetCover
/-!
# The unpruned token-passing search of `src/fsg_search.c` with its scores (C02, "the missing middle")

`Model/Search.lean` (C01) describes one frame of `fsg_search_step` as a *relation* that leaves all score
arithmetic open.  This file is the executable **scoring** model of the same code with the beam tests
switched off (every `>= thresh` / `> thresh` test passes: the no-pruning regime of `Model/Beam.lean`), on the
max-plus carrier `Option Int` (`none` = `WORST_SCORE` = inactive; `hmm_vit_eval_3st_lr` = `Hmm.hmmStepIdeal`
by `C02_hmmStep_eq_ideal` when nothing underflows).  History *indices* are abstracted away (C01's `StepRel`
covers them); everything that influences a score is kept:

* `searchStart` = `fsg_search_start` (750-802): dummy entry (score 0, `lc` = SIL, all right contexts), one
  step of null transitions out of the start state (frame −1: appended without domination pruning), word
  transitions into the roots.
* `searchFrame` = `fsg_search_step` (668-743) in the order of the code:
  1. `fsg_search_hmm_eval`: every HMM is advanced over the frame's senone scores (an inactive HMM stays
     inactive); `bestscore`.
  2. `fsg_search_hmm_prune_prop`: every non-leaf passes its exit score `+ child->logs2prob` to its children
     (`fsg_search_pnode_trans`; `hmm_enter` when better than the child's state-0 score — which already is this
     frame's value), every leaf makes a word-exit entry (`fsg_search_pnode_exit`: `lc` = `ci_ext`, right
     contexts = the leaf's context set, or all of them for a filler / single-phone word) that goes through
     the domination rule of `fsg_history_entry_add` (`HistDom.add`) in its list `frame_entries[dst][lc]`;
     `fsg_history_end_frame` moves the survivors to the table.
  3. `fsg_search_null_prop`: every entry made in step 2 is propagated over the null arcs leaving its
     destination state (one step; `score + (logs2prob >> SENSCR_SHIFT)`, `lc` and the — possibly reduced —
     right-context set inherited), again through `fsg_history_entry_add`; `fsg_history_end_frame`.
  4. `fsg_search_word_trans`: every entry of this frame (steps 2 and 3) enters the roots of its destination
     state whose left-context set contains the entry's `lc` and whose `ci_ext` is in the entry's right-context
     set, with `score + root->logs2prob`, for the **next** frame.
* `findExit` = `fsg_search_find_exit` with `final = TRUE` (857-928), including the fall-back to the most
  recent frame that has an entry.

Abstractions (none influences a score): the active list (an inactive HMM is the all-`none` state, which
`hmmStepIdeal` leaves alone); `hmm_enter`'s `newscore > in_score` is `omax`; the order in which the exits of one
frame reach `fsg_history_entry_add` is pnode order instead of active-list order (only the winner among *equal*
scores depends on it); `frame_entries[s][lc]` is enumerated over the states / phones that occur.

`treeNet` reads the lextree itself as a `Viterbi.Net` (three emitting states per pnode; parent → child, and
leaf → (≤ 1 null arc) → root under the two context tests, pre-composed).  `Proofs/SearchScore*.lean` prove
`findExit (runSearch …) = viterbi (treeNet …)` for every lextree, FSG, scores and length.  Core Lean only.
-/
namespace SSVerif.SearchScore
open SSVerif.Search SSVerif.Hist SSVerif.Hmm SSVerif.Viterbi
open SSVerif.FlatNet (hmmEdges hmmExits st shiftS)
open SSVerif.Generated.Search (ctxtBvsz)

/-- the phones `fsg_pnode_add_all_ctxt` sets -/
def allCtx : List Nat := List.range (32 * ctxtBvsz)

/-- a context bit vector as a list of phones -/
def ctxList (m : Nat) : List Nat := allCtx.filter fun i => m.testBit i

/-- what a search is run on -/
structure Env where
  lt : LexTree
  g : Fsg
  /-- transition matrix of a `tmatid` (3×4, row-major, as stored) -/
  tmat : Nat → List Nat
  /-- `bin_mdef_ciphone_id(mdef, "SIL")` -/
  sil : Nat
  /-- `fsg_model_is_filler(fsg, wid) || dict_is_single_phone(dict, dict_wordid(dict, fsg_model_word_str(fsg, wid)))` -/
  anyRc : Nat → Bool

def Env.n (E : Env) : Nat := E.lt.nodes.size
def Env.node (E : Env) (p : Nat) : PNode := E.lt.node p
def Env.tp (E : Env) (p : Nat) : List Nat := E.tmat (E.lt.node p).tmatid

/-- the cleared HMM (`hmm_clear`) -/
def inact : ISt := ⟨none, none, none⟩

def hget (h : Array ISt) (p : Nat) : ISt := h[p]?.getD inact

/-- a history entry as far as scores depend on it -/
structure Tok where
  /-- `fsglink` (`none`: the dummy root entry) -/
  link : Option Nat
  /-- destination FSG state: `l ? fsg_link_to_state(l) : fsg_model_start_state(fsg)` -/
  dst : Nat
  frame : Int
  score : Int
  lc : Nat
  rc : List Nat
deriving Repr, DecidableEq, Inhabited

/-- the search state between two frames -/
structure SS where
  hmm : Array ISt
  /-- `hmm_out_score` of every pnode as the last frame left it (read by nothing; printed for the tie) -/
  out : Array (Option Int)
  /-- history table: entries of earlier frames … -/
  old : List Tok
  /-- … and of the last frame (`bpidx_start ..`) -/
  cur : List Tok
  /-- `fsgs->frame` -/
  frame : Int
  /-- `fsgs->bestscore` -/
  best : Option Int
deriving Repr

def SS.table (s : SS) : List Tok := s.old ++ s.cur

/-- `hmm_enter(&pnode->hmm, newscore, …)` when `newscore BETTER_THAN hmm_in_score` -/
def enter (h : Array ISt) (x : Nat × Int) : Array ISt :=
  amod h x.1 fun s => { s with s0 := omax s.s0 (some x.2) }

/-- the null arcs leaving FSG state `d`, in `fsg_model_arcs` order -/
def nullFrom (g : Fsg) (d : Nat) : List (Nat × Link) :=
  (List.range g.links.size).filterMap fun lid =>
    if (g.link lid).wid < 0 ∧ (g.link lid).src = d then some (lid, g.link lid) else none

/-- the right-context set a word exit of leaf `p` carries (`fsg_search_pnode_exit`) -/
def rcOf (E : Env) (p : Nat) : List Nat :=
  if E.anyRc (E.g.link (E.node p).link).wid.toNat then allCtx else ctxList (E.node p).ctxt

/-- the two context tests of `fsg_search_word_trans` (634) for root `r` -/
def admits (E : Env) (lc : Nat) (rc : List Nat) (r : Nat) : Bool :=
  (E.node r).ctxt.testBit lc && rc.contains (E.node r).ciExt

/-! ### one frame -/

/-- `fsg_search_hmm_eval`: new state and exit score of every pnode -/
def evalAll (E : Env) (e : Nat → Nat → Int) (h : Array ISt) : Array (ISt × Option Int) :=
  ((List.range E.n).map fun p => hmmStepIdeal (E.tp p) (e (E.node p).ssid) (hget h p)).toArray

def evget (ev : Array (ISt × Option Int)) (p : Nat) : ISt × Option Int := ev[p]?.getD (inact, none)

/-- `hmm_bestscore` -/
def hmmBest (x : ISt × Option Int) : Option Int := omax (omax x.1.s0 x.1.s1) (omax x.1.s2 x.2)

/-- `fsg_search_pnode_trans` for every non-leaf, in pnode order: (child, `out + child->logs2prob`) -/
def phoneRelax (E : Env) (out : Nat → Option Int) : List (Nat × Int) :=
  (List.range E.n).flatMap fun p =>
    if (E.node p).leaf then [] else
    match out p with
    | none => []
    | some v => (E.lt.children p).map fun c => (c, v + (E.node c).logs2prob)

/-- a candidate for `fsg_history_entry_add`: (destination state, `lc`, entry with tag = link) -/
abbrev Cand := Nat × Nat × HistDom.Entry

/-- `fsg_search_pnode_exit` for every leaf with a finite exit score -/
def exitCands (E : Env) (out : Nat → Option Int) : List Cand :=
  (List.range E.n).filterMap fun p =>
    if (E.node p).leaf then
      (out p).map fun v => ((E.g.link (E.node p).link).dst, (E.node p).ciExt, ⟨v, rcOf E p, (E.node p).link⟩)
    else none

/-- `fsg_search_null_prop` (frames ≥ 0) -/
def nullCands (E : Env) (toks : List Tok) : List Cand :=
  toks.flatMap fun tk => (nullFrom E.g tk.dst).map fun (lid, l) =>
    (l.dst, tk.lc, ⟨tk.score + shiftS l.logp, tk.rc, lid⟩)

/-- `frame_entries[d][lc]` after all the `fsg_history_entry_add` calls of a phase -/
def frameList (cands : List Cand) (d lc : Nat) : List HistDom.Entry :=
  (cands.filter fun x => x.1 == d && x.2.1 == lc).foldl (fun l x => HistDom.add l x.2.2) []

/-- smallest strict upper bound -/
def bound (l : List Nat) : Nat := l.foldr (fun x b => max (x + 1) b) 0

/-- `fsg_history_end_frame`: lists in (state, lc) order -/
def flush (cands : List Cand) (frame : Int) : List Tok :=
  (List.range (bound (cands.map (·.1)))).flatMap fun d =>
    (List.range (bound (cands.map (·.2.1)))).flatMap fun lc =>
      (frameList cands d lc).map fun en => ⟨some en.tag, d, frame, en.score, lc, en.rc⟩

/-- `fsg_search_word_trans`: (root, `score + root->logs2prob`) -/
def wordRelax (E : Env) (toks : List Tok) : List (Nat × Int) :=
  toks.flatMap fun tk => (E.lt.roots tk.dst).filterMap fun r =>
    if admits E tk.lc tk.rc r then some (r, tk.score + (E.node r).logs2prob) else none

/-- **`fsg_search_step`** without pruning; `e ssid k = -senscore[sseq[ssid][k]]` of this frame -/
def searchFrame (E : Env) (e : Nat → Nat → Int) (s : SS) : SS :=
  let ev := evalAll E e s.hmm
  let out := fun p => (evget ev p).2
  let h1 : Array ISt := (ev.toList.map (·.1)).toArray
  let b := best (ev.toList.map hmmBest)
  let h2 := (phoneRelax E out).foldl enter h1
  let toks1 := flush (exitCands E out) s.frame
  let toks2 := flush (nullCands E toks1) s.frame
  let cur := toks1 ++ toks2
  let h3 := (wordRelax E cur).foldl enter h2
  { hmm := h3, out := (ev.toList.map (·.2)).toArray, old := s.old ++ s.cur, cur := cur, frame := s.frame + 1,
    best := if b.isSome then b else s.best }

/-- the dummy root entry of `fsg_search_start` -/
def dummyTok (E : Env) : Tok := ⟨none, E.g.start, -1, 0, E.sil, allCtx⟩

/-- **`fsg_search_start`** -/
def searchStart (E : Env) : SS :=
  let d := dummyTok E
  let nulls := (nullFrom E.g d.dst).map fun (lid, l) => (⟨some lid, l.dst, -1, d.score + shiftS l.logp, d.lc, d.rc⟩ : Tok)
  let cur := d :: nulls
  { hmm := (wordRelax E cur).foldl enter ((List.replicate E.n inact).toArray),
    out := (List.replicate E.n none).toArray, old := [], cur := cur, frame := 0, best := some 0 }

/-- start, then `T` frames; `e t` are the scores of frame `t` -/
def runSearch (E : Env) (e : Nat → Nat → Nat → Int) (T : Nat) : SS :=
  (List.range T).foldl (fun s t => searchFrame E (e t) s) (searchStart E)

/-- **`fsg_search_find_exit`** (`final = TRUE`, `frame_idx = -1`): `none` = no hypothesis (at most the dummy in
the table); otherwise the frame of the last entry and the best score among the entries of that frame that
end in the final state (scanning backwards; the scan also stops at the dummy) -/
def findExit (final : Nat) (tbl : List Tok) : Option (Int × Option Int) :=
  if tbl.length ≤ 1 then none else
  match tbl.getLast? with
  | none => none
  | some last =>
    let run := tbl.reverse.takeWhile fun e => e.frame == last.frame && e.link.isSome
    some (last.frame, best (run.map fun e => if e.dst = final then some e.score else none))

/-- `fsg_search_find_exit` with `final = FALSE` (a result asked for while the utterance is still being searched,
`fsg_search_hyp` before `fsg_search_finish`): the best entry of the last frame that has one, whatever state it ends in -/
def findExitPartial (tbl : List Tok) : Option (Int × Option Int) :=
  if tbl.length ≤ 1 then none else
  match tbl.getLast? with
  | none => none
  | some last =>
    let run := tbl.reverse.takeWhile fun e => e.frame == last.frame && e.link.isSome
    some (last.frame, best (run.map fun e => some e.score))

/-! ### the lextree read as a network -/

/-- FSG states reachable from `d` without a word, with the cost: `d` itself, or over one null arc -/
def reach (g : Fsg) (d : Nat) : List (Nat × Int) :=
  (d, 0) :: (nullFrom g d).map fun (_, l) => (l.dst, shiftS l.logp)

/-- emitting state `k` of pnode `p` is network state `3p + k` -/
def treeNet (E : Env) : Net :=
  let ps := List.range E.n
  let intra := ps.flatMap fun p => hmmEdges (E.tp p) p
  let phone := ps.flatMap fun p =>
    if (E.node p).leaf then [] else
    (E.lt.children p).flatMap fun c =>
      (hmmExits (E.tp p)).map fun (k, cx) => (st p k, st c 0, cx + (E.node c).logs2prob)
  let cross := ps.flatMap fun p =>
    if !(E.node p).leaf then [] else
    (reach E.g (E.g.link (E.node p).link).dst).flatMap fun (d, hop) =>
      (E.lt.roots d).flatMap fun r =>
        if admits E (E.node p).ciExt (rcOf E p) r then
          (hmmExits (E.tp p)).map fun (k, cx) => (st p k, st r 0, cx + hop + (E.node r).logs2prob)
        else []
  let init := (reach E.g E.g.start).flatMap fun (d, hop) =>
    (E.lt.roots d).filterMap fun r =>
      if admits E E.sil allCtx r then some (st r 0, hop + (E.node r).logs2prob) else none
  let exits := ps.flatMap fun p =>
    if !(E.node p).leaf then [] else
    (reach E.g (E.g.link (E.node p).link).dst).flatMap fun (d, hop) =>
      if d = E.g.final then (hmmExits (E.tp p)).map fun (k, cx) => (st p k, cx + hop) else []
  { edges := intra ++ phone ++ cross, init := init, exits := exits }

/-- emission of network state `3p + k`: `e t ssid(p) k` -/
def treeEm (E : Env) (e : Nat → Nat → Nat → Int) : Nat → Nat → Int :=
  fun t s => e t (E.node (s / 3)).ssid (s % 3)

/-! ### the same frame WITH the beam tests (executable only; tied frame by frame to the real pruned search)

`searchFrameBeam` is `searchFrame` plus the tests of `fsg_search_hmm_prune_prop` / `pnode_trans` / `null_prop` /
`word_trans` with `thresh = bestscore + beam`, `phone_thresh = bestscore + pbeam`, `word_thresh = bestscore + wbeam`
(`>=` resp. `>` as in the code), the explicit active list, and the deactivation loop at the end of the frame: an HMM whose
best score fell below `thresh` is cleared **unless** a transition entered it in this very frame (its `frame` stamp is then
already `frame + 1`), in which case it keeps the scores `hmm_vit_eval` just gave its other states.  No theorem is stated
about it; `ssdriver c02s` runs it with the beams the real search holds on every case, and the fingerprints of every frame
must equal those of the real search (so decodes outside the no-pruning regime are tied too, not only bounded). -/

structure SSB where
  s : SS
  /-- on `pnode_active` -/
  act : Array Bool
deriving Repr

def ogeI (a : Option Int) (x : Int) : Bool := match a with | some y => decide (y ≥ x) | none => false

def searchFrameBeam (E : Env) (beam pbeam wbeam : Int) (e : Nat → Nat → Int) (sb : SSB) : SSB :=
  let s := sb.s
  let ev := evalAll E e s.hmm
  let isAct := fun p => sb.act.getD p false
  let out := fun p => (evget ev p).2
  let b := best ((List.range E.n).map fun p => if isAct p then hmmBest (evget ev p) else none)
  match b with
  | none =>
    -- "No active HMM!!" (fsg_search_hmm_eval returns early, nothing is propagated): every HMM is in the cleared state
    { s := { hmm := (List.replicate E.n inact).toArray, out := (List.replicate E.n none).toArray, old := s.old ++ s.cur,
             cur := [], frame := s.frame + 1, best := s.best },
      act := (List.replicate E.n false).toArray }
  | some bb =>
    let thresh := bb + beam
    let pth := bb + pbeam
    let wth := bb + wbeam
    let keep := fun p => isAct p && ogeI (hmmBest (evget ev p)) thresh
    let h1 : Array ISt := (ev.toList.map (·.1)).toArray
    let ph := (phoneRelax E fun p => if keep p && ogeI (out p) pth then out p else none).filter fun x => decide (x.2 > thresh)
    let toks1 := flush (exitCands E fun p => if keep p && ogeI (out p) wth then out p else none) s.frame
    let toks2 := flush ((nullCands E toks1).filter fun x => decide (x.2.2.score ≥ wth)) s.frame
    let cur := toks1 ++ toks2
    let wd := (wordRelax E cur).filter fun x => decide (x.2 > thresh)
    let cands := ph ++ wd
    let h3 := cands.foldl enter h1
    let entered := fun p =>
      match best (cands.map fun x => if x.1 = p then some x.2 else none) with
      | none => false
      | some v => match (hget h1 p).s0 with | none => true | some y => decide (v > y)
    let nact := ((List.range E.n).map fun p => keep p || entered p).toArray
    { s := { hmm := ((List.range E.n).map fun p => if nact.getD p false then hget h3 p else inact).toArray,
             out := ((List.range E.n).map fun p => if nact.getD p false then (if isAct p then out p else s.out.getD p none) else none).toArray,
             old := s.old ++ s.cur, cur := cur, frame := s.frame + 1, best := some bb },
      act := nact }

/-- `fsg_search_start` with beams (`bestscore = 0`): null arcs need `>= wbeam`, root entries `> beam` -/
def searchStartBeam (E : Env) (beam wbeam : Int) : SSB :=
  let d := dummyTok E
  let nulls := ((nullFrom E.g d.dst).map fun (lid, l) => (⟨some lid, l.dst, -1, d.score + shiftS l.logp, d.lc, d.rc⟩ : Tok)).filter
    fun tk => decide (tk.score ≥ wbeam)
  let cur := d :: nulls
  let wd := (wordRelax E cur).filter fun x => decide (x.2 > beam)
  let h := wd.foldl enter ((List.replicate E.n inact).toArray)
  { s := { hmm := h, out := (List.replicate E.n none).toArray, old := [], cur := cur, frame := 0, best := some 0 },
    act := ((List.range E.n).map fun p => (hget h p).s0.isSome).toArray }

/-- start, then `T` frames, with beams -/
def runSearchBeam (E : Env) (beam pbeam wbeam : Int) (e : Nat → Nat → Nat → Int) (T : Nat) : SSB :=
  (List.range T).foldl (fun sb t => searchFrameBeam E beam pbeam wbeam (e t) sb) (searchStartBeam E beam wbeam)

/-! ### the flat network over the lextree network -/

/-- emission of state `3h + k` of the flat network: `e t ssid(h) k` (this is `FlatNet.emission` when `e` is read off the
senone scores: `flatEm_eq_emission`) -/
def flatEm (insts : Array FlatNet.Inst) (e : Nat → Nat → Nat → Int) : Nat → Nat → Int :=
  fun t s => e t (insts.getD (s / 3) default).ssid (s % 3)

/-- the scores of the two networks agree along the certificate's map: same senone sequence, same state -/
def emAgreeB (E : Env) (insts : Array FlatNet.Inst) (C : NetCover.Cert) : Bool :=
  (List.range C.n2).all fun s =>
    (insts.getD (s / 3) default).ssid == (E.node (C.f s / 3)).ssid && s % 3 == C.f s % 3

end SSVerif.SearchScore
