import SSVerif.Model.S3file
/-!
# M16b — `bin_mdef_read_s3file` (src/bin_mdef.c:336-590, the repaired reader: D19h/D19i)

The binary model definition is *used in place*: after the three format words and the ten counts the
C code computes pointers into the file (or, for an other-endian file, into a byte-for-byte copy of
`[ptr, end)` that it swaps in place) for the phone-name table, the `cd_tree`, the phone records, the
senone sequences and (heterogeneous topologies) the sequence lengths, and then walks the phone
records and senone sequences to build `cd2cisen` and `sen2cimap`.

Every access of a table cell in the model is a checked read of the file (`rd`, `rdN`, `rd16`,
`rd32`: `Res.oob` outside `[buf, end)`); every store into `ciname`, `sseq`, `cd2cisen`, `sen2cimap`
is checked against the allocated element count (`Res.idx`).  In swap mode the copy holds exactly
the bytes `[dataOff, size)` of the file, so an offset into the copy is the same offset into the file.

Alignment: the tables are 4-byte aligned relative to `ciname[0] = buf + 12 + desc_len + 40`; D19j
makes the reader refuse a descriptor length that is not a multiple of 4 (`MdefHdr.Ok` records
`dataOff % 4 = 0`).  Not modelled: `cionly`, the `cd_tree` contents (not touched by the loader apart
from the in-place swap).  Core Lean only.
-/
namespace SSVerif.S3file

/-- `BIN_MDEF_NATIVE_ENDIAN` / `BIN_MDEF_OTHER_ENDIAN` (bin_mdef.h:64-65), `BIN_MDEF_FORMAT_VERSION` -/
def mdefNative : Nat := 0x46444d42
def mdefOther : Nat := 0x424d4446
def mdefVersion : Int := 1

/-- a 16-bit table cell at file offset `off` (after the in-place swap when `swap`) -/
def rd16 (f : File) (off : Nat) (swap : Bool) : Res Nat :=
  if off + 2 ≤ f.size then .ok (valAt f off 2 swap) else .oob (off + 1)

/-- a 32-bit table cell at file offset `off` -/
def rd32 (f : File) (off : Nat) (swap : Bool) : Res Nat :=
  if off + 4 ≤ f.size then .ok (valAt f off 4 swap) else .oob (off + 3)

/-- `memchr(p, 0, lim - p)`: offset of the first NUL in `[p, lim)` -/
def findNul (f : File) (lim : Nat) : Nat → Nat → Res (Option Nat)
  | 0, _ => .ok none
  | fuel + 1, p =>
    if p < lim then do
      let b ← rd f p
      if b = 0 then .ok (some p) else findNul f lim fuel (p + 1)
    else .ok none

/-- the walk over the phone names (bin_mdef.c:428-437): `ciname[i]`, `i < n`, stored into the table
allocated with `nAlloc` cells; returns the starts and the offset after the last NUL -/
def walkNames (f : File) (lim nAlloc : Nat) : Nat → Nat → List Nat → Res (List Nat × Nat)
  | 0, p, acc => .ok (acc.reverse, p)
  | n + 1, p, acc =>
    if acc.length ≥ nAlloc then .idx acc.length nAlloc else
    if p ≥ lim then .reject "ciname truncated!" else do
      match ← findNul f lim (lim - p) p with
      | none => .reject "ciname truncated!"
      | some z => walkNames f lim nAlloc n (z + 1) (p :: acc)

/-- how the senone sequences are laid out in the `sseq` area (in 16-bit cells) -/
inductive Topo where
  /-- `n_emit_state = e > 0`: sequence `a` is `[a*e, a*e+e)` -/
  | homo (e : Nat)
  /-- `n_emit_state = 0`: lengths from the `sseq_len` bytes, sequence `a` starts at the sum of the
  lengths before it -/
  | hetero (lens : List Nat)
deriving Repr

def Topo.len : Topo → Nat → Nat
  | .homo e, _ => e
  | .hetero lens, a => lens.getD a 0

def Topo.start : Topo → Nat → Nat
  | .homo e, a => a * e
  | .hetero lens, a => sumN (lens.take a)

structure MdefHdr where
  swap : Bool
  nCiphone : Nat
  nPhone : Nat
  nEmit : Nat
  nCiSen : Nat
  nSen : Nat
  nTmat : Nat
  nSseq : Nat
  nCdTree : Nat
  /-- file offset of `ciname[0]` -/
  dataOff : Nat
deriving Repr

/-- the three format words, the descriptor skip, the ten counts and their validation
(bin_mdef.c:345-407) -/
def mdefHeader (f : File) : Res MdefHdr := do
  let (s, magic) ← get32 (S.init f) "Failed to read byte-order marker"
  if magic ≠ mdefOther ∧ magic ≠ mdefNative then .reject "Is not a binary mdef file" else
  let s := { s with swap := magic = mdefOther }
  let (s, ver) ← get32 s "Failed to read version"
  if toI32 ver > mdefVersion then .reject "File format version is newer than library" else do
  let (s, dl) ← get32 s "Failed to read header length"
  -- D19j: the tables are used in place through int16/int32 pointers, the descriptor must keep them aligned
  if toI32 dl < 0 ∨ (toI32 dl).toNat % 4 ≠ 0 then .reject "Format descriptor truncated or not a multiple of 4 bytes" else do
  let s ← skip s (toI32 dl).toNat "Format descriptor truncated"
  -- m = ckd_calloc(1, sizeof(*m))
  let (s, c0) ← get32 s "Failed to read &m->n_ciphone"
  let (s, c1) ← get32 s "Failed to read &m->n_phone"
  let (s, c2) ← get32 s "Failed to read &m->n_emit_state"
  let (s, c3) ← get32 s "Failed to read &m->n_ci_sen"
  let (s, c4) ← get32 s "Failed to read &m->n_sen"
  let (s, c5) ← get32 s "Failed to read &m->n_tmat"
  let (s, c6) ← get32 s "Failed to read &m->n_sseq"
  let (s, c7) ← get32 s "Failed to read &m->n_ctx"
  let (s, c8) ← get32 s "Failed to read &m->n_cd_tree"
  let (s, _) ← get32 s "Failed to read &m->sil"
  let nCi := toI32 c0; let nPh := toI32 c1; let nE := toI32 c2; let nCS := toI32 c3; let nS := toI32 c4
  let nT := toI32 c5; let nSq := toI32 c6; let nCtx := toI32 c7; let nTree := toI32 c8
  if nCi ≤ 0 ∨ nCi > 255 ∨ nPh < nCi ∨ nE < 0 ∨ nE > 255 ∨ nS ≤ 0 ∨ nS > 65535 ∨ nCS < 0 ∨ nCS > nS
      ∨ (nE ≠ 0 ∧ nCS ≠ nCi * nE) ∨ nT ≤ 0 ∨ nSq ≤ 0 ∨ nSq > 65535 ∨ nCtx ≠ 3 ∨ nTree < 0 then
    .reject "Inconsistent counts in header"
  else
    -- swap mode: `s3file_get(m->ciname[0], 1, end - ptr, s)` copies the rest of the file
    .ok { swap := s.swap, nCiphone := nCi.toNat, nPhone := nPh.toNat, nEmit := nE.toNat, nCiSen := nCS.toNat,
          nSen := nS.toNat, nTmat := nT.toNat, nSseq := nSq.toNat, nCdTree := nTree.toNat, dataOff := s.ptr }

structure MdefLayout where
  /-- offsets of the phone names (file offsets) -/
  names : List Nat
  treeOff : Nat
  phoneOff : Nat
  sseqOff : Nat
  sseqSize : Nat
  topo : Topo
deriving Repr

/-- the sequence table: homogeneous (`n_emit_state > 0`) or lengths from the file (bin_mdef.c:479-497) -/
def mdefTopo (f : File) (h : MdefHdr) (names : List Nat) (treeOff phoneOff sseqOff sseqSize : Nat) : Res MdefLayout :=
  if h.nEmit ≠ 0 then
    if sseqSize ≠ h.nSseq * h.nEmit then .reject "sseq size does not match" else
    .ok { names, treeOff, phoneOff, sseqOff, sseqSize, topo := .homo h.nEmit }
  else
    if h.nSseq > f.size - (sseqOff + 2 * sseqSize) then .reject "sseq_len truncated!" else do
    let raw ← rdN f (sseqOff + 2 * sseqSize) h.nSseq
    if sumN (raw.map UInt8.toNat) ≠ sseqSize then .reject "sseq size does not match the sequence lengths" else
    .ok { names, treeOff, phoneOff, sseqOff, sseqSize, topo := .hetero (raw.map UInt8.toNat) }

/-- `sseq_size` and the sequence area (bin_mdef.c:463-478); `ssOff` = offset of the size word -/
def mdefSseq (f : File) (h : MdefHdr) (names : List Nat) (treeOff phoneOff ssOff : Nat) : Res MdefLayout :=
  if f.size - ssOff < 4 then .reject "sseq_size truncated!" else do
  let ssz ← rd32 f ssOff h.swap
  if toI32 ssz < 0 ∨ (toI32 ssz).toNat > (f.size - (ssOff + 4)) / 2 then .reject "sseq truncated!" else
  -- m->sseq = ckd_calloc(n_sseq, sizeof(uint16 *)); swap mode: SWAP_INT16 of sseq[0][0 .. sseq_size)
  if h.swap ∧ ssOff + 4 + 2 * (toI32 ssz).toNat > f.size then .oob (ssOff + 4 + 2 * (toI32 ssz).toNat - 1) else
  mdefTopo f h names treeOff phoneOff (ssOff + 4) (toI32 ssz).toNat

/-- the phone records (bin_mdef.c:452-462) -/
def mdefPhones (f : File) (h : MdefHdr) (names : List Nat) (treeOff phoneOff : Nat) : Res MdefLayout :=
  if h.nPhone > (f.size - phoneOff) / 12 then .reject "phone truncated!" else
  -- swap mode: SWAP_INT32 of ssid, tmat of phone[0 .. n_phone)
  if h.swap ∧ phoneOff + 12 * h.nPhone > f.size then .oob (phoneOff + 12 * h.nPhone - 1) else
  mdefSseq f h names treeOff phoneOff (phoneOff + 12 * h.nPhone)

/-- the `cd_tree` (bin_mdef.c:439-451); `treeRel` = its offset from `ciname[0]` -/
def mdefTree (f : File) (h : MdefHdr) (names : List Nat) (treeRel : Nat) : Res MdefLayout :=
  if treeRel > f.size - h.dataOff ∨ h.nCdTree > (f.size - h.dataOff - treeRel) / 8 then .reject "cd_tree truncated!" else
  -- swap mode: SWAP_INT16/32 of the fields of cd_tree[0 .. n_cd_tree)
  if h.swap ∧ h.dataOff + treeRel + 8 * h.nCdTree > f.size then .oob (h.dataOff + treeRel + 8 * h.nCdTree - 1) else
  mdefPhones f h names (h.dataOff + treeRel) (h.dataOff + treeRel + 8 * h.nCdTree)

/-- the table pointers and their region checks (bin_mdef.c:409-497) -/
def mdefLayout (f : File) (h : MdefHdr) : Res MdefLayout := do
  -- m->ciname = ckd_calloc(n_ciphone, sizeof(char *))
  let r ← walkNames f f.size h.nCiphone h.nCiphone h.dataOff []
  mdefTree f h r.1 ((r.2 - h.dataOff + 3) / 4 * 4)

/-- `arr[i] = v` on an array allocated with `arr.size` cells -/
def store (arr : Array Nat) (i v : Nat) : Res (Array Nat) :=
  if i < arr.size then .ok (arr.setIfInBounds i v) else .idx i arr.size

/-- `arr[i]` -/
def load (arr : Array Nat) (i : Nat) : Res Nat :=
  if i < arr.size then .ok (arr.getD i 0) else .idx i arr.size

/-- `bin_mdef_n_emit_state_phone(m, ci)` given the word `phone[ci].ssid` -/
def ciLen (t : Topo) (cissid : Nat) : Res Nat :=
  match t with
  | .homo e => .ok e
  | .hetero lens =>
    if 0 ≤ toI32 cissid ∧ (toI32 cissid).toNat < lens.length then .ok (lens.getD (toI32 cissid).toNat 0)
    else .idx (toI32 cissid).toNat lens.length

/-- `if (m->sen2cimap[s] == -1) m->sen2cimap[s] = ci` given the loaded cell `cur` -/
def s2cUpdate (s2c : Array Nat) (cur s ci : Nat) : Res (Array Nat) :=
  if cur = 65535 then store s2c s ci else .ok s2c

/-- `if (j > n_emit_state_phone(ci)) warn; else cd2cisen[s] = sseq2sen(m, phone[ci].ssid, j)`.
The test is `>`, not `>=`: for `j` equal to the length of the CI phone's sequence (a CD phone with
more states than its CI phone, heterogeneous topologies only) the cell *behind* that sequence is
read — the first cell of the next sequence or, behind the last sequence, the first two `sseq_len`
bytes, which the in-place swap of an other-endian file (`for (i = 0; i < *sseq_size; ++i)
SWAP_INT16(...)`) has not touched: that cell is read in file byte order. -/
def cd2ciStore (f : File) (h : MdefHdr) (l : MdefLayout) (s j cissid cilen : Nat) (c2c : Array Nat) :
    Res (Array Nat) :=
  if j > cilen then .ok c2c else do
    let cell := l.topo.start (toI32 cissid).toNat + j
    let v ← rd16 f (l.sseqOff + 2 * cell) (h.swap && cell < l.sseqSize)
    store c2c s v

/-- the loop over the states of one phone (bin_mdef.c:536-556); `ssid`, `ci` of phone `i`;
`c2c`, `s2c` = `m->cd2cisen`, `m->sen2cimap` as 16-bit patterns (`-1` = 65535) -/
def mapStates (f : File) (h : MdefHdr) (l : MdefLayout) (ssid ci : Nat) :
    Nat → Nat → Array Nat → Array Nat → Res (Array Nat × Array Nat)
  | 0, _, c2c, s2c => .ok (c2c, s2c)
  | fuel + 1, j, c2c, s2c =>
    if j ≥ l.topo.len ssid then .ok (c2c, s2c) else do
    let s ← rd16 f (l.sseqOff + 2 * (l.topo.start ssid + j)) h.swap
    if s ≥ h.nSen then .reject "senone >= n_sen" else do
    let cur ← load s2c s
    let s2c ← s2cUpdate s2c cur s ci
    -- bin_mdef_n_emit_state_phone(m, ci): phone[ci].ssid, and sseq_len[that] for heterogeneous topologies
    let cissid ← rd32 f (l.phoneOff + 12 * ci) h.swap
    let cilen ← ciLen l.topo cissid
    let c2c ← cd2ciStore f h l s j cissid cilen c2c
    mapStates f h l ssid ci fuel (j + 1) c2c s2c

/-- the loop over the phone records (bin_mdef.c:522-557) -/
def mapPhones (f : File) (h : MdefHdr) (l : MdefLayout) :
    Nat → Nat → Array Nat → Array Nat → Res (Array Nat × Array Nat)
  | 0, _, c2c, s2c => .ok (c2c, s2c)
  | fuel + 1, i, c2c, s2c =>
    if i ≥ h.nPhone then .ok (c2c, s2c) else do
    let rec0 := l.phoneOff + 12 * i
    let ssidW ← rd32 f rec0 h.swap
    let tmatW ← rd32 f (rec0 + 4) h.swap
    let c0 ← rd f (rec0 + 9)
    let c1 ← rd f (rec0 + 10)
    let c2 ← rd f (rec0 + 11)
    let ssid := toI32 ssidW; let tm := toI32 tmatW
    if ssid < 0 ∨ ssid ≥ h.nSseq ∨ tm < 0 ∨ tm ≥ h.nTmat
        ∨ (i ≥ h.nCiphone ∧ (c0.toNat ≥ h.nCiphone ∨ c1.toNat ≥ h.nCiphone ∨ c2.toNat ≥ h.nCiphone)) then
      .reject "Phone refers to a nonexistent sseq, tmat or CI phone"
    else do
      let ci := if i < h.nCiphone then i else c0.toNat
      let r ← mapStates f h l ssid.toNat ci (l.topo.len ssid.toNat) 0 c2c s2c
      mapPhones f h l fuel (i + 1) r.1 r.2

/-- `strcmp(lit, name)` on the NUL-terminated name at `off`: `.lt`/`.eq`/`.gt` as the sign of the result -/
def strcmpLit (f : File) (off : Nat) : List UInt8 → Nat → Res Ordering
  | [], i => do
    let b ← rd f (off + i)
    .ok (if b = 0 then .eq else .lt)
  | c :: cs, i => do
    let b ← rd f (off + i)
    if c = b then strcmpLit f off cs (i + 1) else .ok (if c < b then .lt else .gt)

/-- `bin_mdef_ciphone_id(m, "SIL")`: binary search over the (sorted) names; `-1` when absent -/
def findCiphone (f : File) (names : List Nat) (name : List UInt8) : Nat → Nat → Nat → Res Int
  | 0, _, _ => .ok (-1)
  | fuel + 1, low, high =>
    if low ≥ high then .ok (-1) else do
    let mid := (low + high) / 2
    if mid ≥ names.length then .idx mid names.length else do
    match ← strcmpLit f (names.getD mid 0) name 0 with
    | .eq => .ok mid
    | .gt => findCiphone f names name fuel (mid + 1) high
    | .lt => findCiphone f names name fuel low mid

def litSIL : List UInt8 := [83, 73, 76]

structure MdefOut where
  hdr : MdefHdr
  lay : MdefLayout
  cd2cisen : Array Nat
  sen2cimap : Array Nat
  sil : Int

/-- `bin_mdef_read_s3file` -/
def mdefPlan (f : File) : Res MdefOut := do
  let h ← mdefHeader f
  let l ← mdefLayout f h
  -- m->cd2cisen = ckd_malloc(n_sen * 2); m->sen2cimap = ckd_malloc(n_sen * 2); default mappings
  let c2c0 := Array.ofFn (n := h.nSen) fun i => if i.val < h.nCiSen then i.val else 65535
  let s2c0 := Array.replicate h.nSen 65535
  let m ← mapPhones f h l h.nPhone 0 c2c0 s2c0
  let sil ← findCiphone f l.names litSIL (h.nCiphone + 1) 0 h.nCiphone
  .ok { hdr := h, lay := l, cd2cisen := m.1, sen2cimap := m.2, sil }

/-- digest of a map for the correspondence output -/
def mapHash (a : Array Nat) : Nat := a.foldl (fun h v => (h * 31 + v % 65536) % 4294967296) 7

end SSVerif.S3file
