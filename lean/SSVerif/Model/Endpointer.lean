/-!
# M3 — executable model of `src/ps_endpointer.c` (ring queue + in-speech state machine)

Core Lean only.  The concrete state `Ep α` mirrors `struct endpointer_s` (ps_endpointer.c:38-51)
index by index: `pos`, `n`, the flag ring `is_speech[maxlen]`, the frame ring `buf[maxlen]` (one
payload of type `α` per slot — the harness uses the frame id, the theorems are for every `α`),
`in_speech`, and the clocks.  The clocks are *counts*: `qstart_time` and `speech_start` are numbers of
`frame_length`; `timestamp` is `tsFrames` frame lengths plus `tsSamples` samples (the trailing
partial frames added by `endpointer_end_stream`); a `Time` is such a pair.

Every array read and write goes through `rd`/`wr`, which fail (`none`) outside `[0, length)`;
every `while` loop has fuel and fails when it runs out.  `none` therefore stands for "the C code
would have accessed memory outside its arrays, or not terminated".  The property theorems show
that this never happens from the initial state.

`epSpeechCount` is the **repaired** `ep_speech_count` (fix D01: the index is wrapped after the first
read); `epSpeechCountOrig` is the function of the pinned tree, kept to exhibit the defect.

The second half of the file is the abstract specification: an unbounded FIFO of
`(frame, isSpeech)` pairs capped at `maxlen` by dropping the oldest (`Spec`).
-/
namespace SSVerif.Endpointer

/-- a point in time: `frames` frame lengths plus `samples` samples -/
structure Time where
  frames : Nat
  samples : Nat
deriving DecidableEq, Repr, Inhabited

/-- the fields `endpointer_init` sets once: `maxlen`, `start_frames`, `end_frames`, `frame_size` -/
structure Cfg where
  maxlen : Nat
  startFrames : Nat
  endFrames : Nat
  frameSize : Nat
deriving DecidableEq, Repr

/-- integer part of `endpointer_init` (ps_endpointer.c:72-81): the thresholds computed in floating
point (opaque here) are accepted iff `0 < start_frames < maxlen` and `0 < end_frames < maxlen` -/
def initCfg (maxlen startFrames endFrames : Int) (frameSize : Nat) : Option Cfg :=
  if startFrames ≤ 0 ∨ startFrames ≥ maxlen then none
  else if endFrames ≤ 0 ∨ endFrames ≥ maxlen then none
  else some ⟨maxlen.toNat, startFrames.toNat, endFrames.toNat, frameSize⟩

/-- what the initialiser guarantees about an accepted configuration -/
structure Cfg.Valid (c : Cfg) : Prop where
  start_pos : 0 < c.startFrames
  start_lt : c.startFrames < c.maxlen
  end_pos : 0 < c.endFrames
  end_lt : c.endFrames < c.maxlen

/-- `struct endpointer_s`, mutable part -/
structure Ep (α : Type) where
  inSpeech : Bool
  buf : List α
  flags : List Bool
  pos : Nat
  n : Nat
  qstart : Nat
  tsFrames : Nat
  tsSamples : Nat
  speechStart : Nat
  speechEnd : Time
deriving Repr

/-- state after `endpointer_init`: `calloc`ed rings (`z` is the all-zero frame), everything else 0 -/
def Ep.init (c : Cfg) (z : α) : Ep α :=
  { inSpeech := false, buf := List.replicate c.maxlen z, flags := List.replicate c.maxlen false,
    pos := 0, n := 0, qstart := 0, tsFrames := 0, tsSamples := 0, speechStart := 0, speechEnd := ⟨0, 0⟩ }

/-- bounds-checked array read -/
def rd (l : List β) (i : Nat) : Option β := l[i]?

/-- bounds-checked array write -/
def wr (l : List β) (i : Nat) (v : β) : Option (List β) :=
  if i < l.length then some (l.set i v) else none

def b2n (b : Bool) : Nat := if b then 1 else 0

/-- `for (i = i0; i < i0 + k; ++i) count += is_speech[i];` -/
def countRange (flags : List Bool) : Nat → Nat → Nat → Option Nat
  | _, 0, count => some count
  | i, k + 1, count =>
    match rd flags i with
    | none => none
    | some b => countRange flags (i + 1) k (count + b2n b)

/-- `while (i != end) { count += is_speech[i++]; i = i % maxlen; }` (ps_endpointer.c:160-163) -/
def countLoop (flags : List Bool) (maxlen endi : Nat) : Nat → Nat → Nat → Option Nat
  | 0, _, _ => none
  | fuel + 1, i, count =>
    if i = endi then some count
    else match rd flags i with
      | none => none
      | some b => countLoop flags maxlen endi fuel ((i + 1) % maxlen) (count + b2n b)

/-- `ep_speech_count` with fix D01 applied (the first index is wrapped like the others) -/
def epSpeechCount (c : Cfg) (e : Ep α) : Option Nat :=
  if e.n = 0 then some 0
  else if e.n = c.maxlen then countRange e.flags 0 c.maxlen 0
  else
    let endi := (e.pos + e.n) % c.maxlen
    match rd e.flags e.pos with
    | none => none
    | some b => countLoop e.flags c.maxlen endi (c.maxlen + 1) ((e.pos + 1) % c.maxlen) (b2n b)

/-- `ep_speech_count` of the pinned tree (ps_endpointer.c:147-166): after the first read the index
is `pos + 1` **unwrapped**, so with `pos = maxlen - 1` the loop reads `is_speech[maxlen]` -/
def epSpeechCountOrig (c : Cfg) (e : Ep α) : Option Nat :=
  if e.n = 0 then some 0
  else if e.n = c.maxlen then countRange e.flags 0 c.maxlen 0
  else
    let endi := (e.pos + e.n) % c.maxlen
    match rd e.flags e.pos with
    | none => none
    | some b => countLoop e.flags c.maxlen endi (c.maxlen + 1) (e.pos + 1) (b2n b)

/-- `ep_push` (ps_endpointer.c:168-181) -/
def epPush (c : Cfg) (e : Ep α) (d : Bool) (f : α) : Option (Ep α) :=
  let i := (e.pos + e.n) % c.maxlen
  match wr e.buf i f, wr e.flags i d with
  | some buf, some flags =>
    if e.n = c.maxlen then
      some { e with buf := buf, flags := flags, qstart := e.qstart + 1, pos := (e.pos + 1) % c.maxlen }
    else
      some { e with buf := buf, flags := flags, n := e.n + 1 }
  | _, _ => none

/-- `ep_pop` (ps_endpointer.c:183-196); the result is the frame the returned pointer points at
(`none` = NULL on an empty queue) and the flag read through `out_is_speech` -/
def epPop (c : Cfg) (e : Ep α) : Option (Ep α × Option (α × Bool)) :=
  if e.n = 0 then some (e, none)
  else match rd e.buf e.pos, rd e.flags e.pos with
    | some x, some b =>
      some ({ e with qstart := e.qstart + 1, pos := (e.pos + 1) % c.maxlen, n := e.n - 1 }, some (x, b))
    | _, _ => none

/-- `ep_linearize` (ps_endpointer.c:198-231): rotate both rings left by `pos` -/
def epLinearize (e : Ep α) : Option (Ep α) :=
  if e.pos = 0 then some e
  else if e.pos ≤ e.buf.length ∧ e.pos ≤ e.flags.length then
    some { e with buf := e.buf.drop e.pos ++ e.buf.take e.pos,
                  flags := e.flags.drop e.pos ++ e.flags.take e.pos, pos := 0 }
  else none

/-- what `endpointer_process` hands back -/
structure POut (α : Type) where
  /-- the frame the returned pointer points at, `none` = NULL -/
  ret : Option α
  /-- the "VAD queue overflow (should not happen)" branch was taken -/
  overflow : Bool
deriving Repr, DecidableEq

/-- `endpointer_process` (ps_endpointer.c:283-322); `d` is the decision of `vad_classify` -/
def process (c : Cfg) (e : Ep α) (d : Bool) (f : α) : Option (Ep α × POut α) :=
  let ovf := e.inSpeech && e.n == c.maxlen
  match epPush c e d f with
  | none => none
  | some e =>
    let e := { e with tsFrames := e.tsFrames + 1 }
    match epSpeechCount c e with
    | none => none
    | some cnt =>
      if e.inSpeech then
        if cnt < c.endFrames then
          match epPop c e with
          | none => none
          | some (e, r) =>
            some ({ e with speechEnd := ⟨e.qstart, 0⟩, inSpeech := false }, ⟨r.map (·.1), ovf⟩)
        else
          match epPop c e with
          | none => none
          | some (e, r) => some (e, ⟨r.map (·.1), ovf⟩)
      else if cnt > c.startFrames then
        let e := { e with speechStart := e.qstart, speechEnd := ⟨0, 0⟩, inSpeech := true }
        match epPop c e with
        | none => none
        | some (e, r) => some (e, ⟨r.map (·.1), ovf⟩)
      else some (e, ⟨none, ovf⟩)

/-- the pop loop of `endpointer_end_stream` (ps_endpointer.c:255-264); `k` counts the frames added
to `*out_nsamp` -/
def popLoop (c : Cfg) : Nat → Ep α → Nat → Option (Ep α × Nat)
  | 0, _, _ => none
  | fuel + 1, e, k =>
    if e.n = 0 then some (e, k)
    else match epPop c e with
      | none => none
      | some (e, none) => some (e, k)
      | some (e, some (_, true)) => popLoop c fuel { e with speechEnd := ⟨e.qstart, 0⟩ } (k + 1)
      | some (e, some (_, false)) => some (e, k)

/-- what `endpointer_end_stream` hands back -/
inductive EOut (α : Type) where
  /-- `nsamp > frame_size`: error, NULL, `*out_nsamp` untouched -/
  | tooLong
  /-- not in speech: NULL, `*out_nsamp = 0` -/
  | notInSpeech
  /-- `ep->buf` with `*out_nsamp = frames.length * frame_size + (trailing samples)`: the whole
  frames found at the start of the buffer, then the trailing partial frame found after them (with
  its sample count) when it was added; `overflow` = the "should not happen" branch was taken -/
  | data (frames : List α) (trail : Option (α × Nat)) (overflow : Bool)
deriving Repr, DecidableEq

/-- `endpointer_end_stream` (ps_endpointer.c:233-281); `f` is the trailing partial frame of
`nsamp` samples -/
def endStream (c : Cfg) (e : Ep α) (nsamp : Nat) (f : α) : Option (Ep α × EOut α) :=
  if nsamp > c.frameSize then some (e, .tooLong)
  else if !e.inSpeech then some (e, .notInSpeech)
  else
    let e := { e with inSpeech := false, speechEnd := ⟨e.qstart, 0⟩ }
    match epLinearize e with
    | none => none
    | some e =>
      if e.pos ≠ 0 then none   -- assert(ep->pos == 0)
      else match popLoop c (e.n + 1) e 0 with
        | none => none
        | some (e, k) =>
          if e.n = 0 ∧ e.speechEnd = ⟨e.qstart, 0⟩ then
            if e.pos = c.maxlen then
              some ({ e with n := 0 }, .data (e.buf.take k) none true)
            else
              -- memcpy(ep->buf + ep->pos * frame_size, frame, nsamp): inside the buffer iff pos < maxlen
              match wr e.buf e.pos f with
              | none => none
              | some buf =>
                let e := { e with buf := buf, tsSamples := e.tsSamples + nsamp }
                -- the caller finds the trailing samples after the k whole frames
                match rd e.buf k with
                | none => none
                | some t =>
                  some ({ e with speechEnd := ⟨e.tsFrames, e.tsSamples⟩, n := 0 },
                        .data (e.buf.take k) (some (t, nsamp)) false)
          else some ({ e with n := 0 }, .data (e.buf.take k) none false)

/-- an API call -/
inductive Op (α : Type) where
  | process (d : Bool) (f : α)
  | endStream (nsamp : Nat) (f : α)
deriving Repr

inductive Ret (α : Type) where
  | p (o : POut α)
  | e (o : EOut α)
deriving Repr, DecidableEq

/-- what the caller observes after a call: the return value and the three getters -/
structure Obs (α : Type) where
  ret : Ret α
  inSpeech : Bool
  speechStart : Nat
  speechEnd : Time
deriving Repr, DecidableEq

def step (c : Cfg) (e : Ep α) : Op α → Option (Ep α × Obs α)
  | .process d f =>
    match process c e d f with
    | none => none
    | some (e, o) => some (e, ⟨.p o, e.inSpeech, e.speechStart, e.speechEnd⟩)
  | .endStream nsamp f =>
    match endStream c e nsamp f with
    | none => none
    | some (e, o) => some (e, ⟨.e o, e.inSpeech, e.speechStart, e.speechEnd⟩)

/-- a whole history; `none` = some call left its arrays or did not terminate -/
def run (c : Cfg) (e : Ep α) : List (Op α) → Option (Ep α × List (Obs α))
  | [] => some (e, [])
  | op :: ops =>
    match step c e op with
    | none => none
    | some (e, o) =>
      match run c e ops with
      | none => none
      | some (e, os) => some (e, o :: os)

/-! ## abstract specification: a FIFO capped at `maxlen` -/

structure Spec (α : Type) where
  inSpeech : Bool
  /-- queued frames, oldest first, each with its speech flag -/
  q : List (α × Bool)
  qstart : Nat
  tsFrames : Nat
  tsSamples : Nat
  speechStart : Nat
  speechEnd : Time
deriving Repr

def Spec.init : Spec α :=
  { inSpeech := false, q := [], qstart := 0, tsFrames := 0, tsSamples := 0, speechStart := 0, speechEnd := ⟨0, 0⟩ }

/-- enqueue; a full queue drops its oldest element (and the queue clock advances) -/
def Spec.push (c : Cfg) (s : Spec α) (x : α × Bool) : Spec α :=
  if s.q.length = c.maxlen then { s with q := s.q.tail ++ [x], qstart := s.qstart + 1 }
  else { s with q := s.q ++ [x] }

/-- number of queued frames classified as speech -/
def Spec.count (s : Spec α) : Nat := s.q.countP (·.2)

def Spec.pop (s : Spec α) : Spec α × Option α :=
  match s.q with
  | [] => (s, none)
  | x :: r => ({ s with q := r, qstart := s.qstart + 1 }, some x.1)

def Spec.process (c : Cfg) (s : Spec α) (d : Bool) (f : α) : Spec α × POut α :=
  let ovf := s.inSpeech && s.q.length == c.maxlen
  let s := s.push c (f, d)
  let s := { s with tsFrames := s.tsFrames + 1 }
  let cnt := s.count
  if s.inSpeech then
    if cnt < c.endFrames then
      let (s, r) := s.pop
      ({ s with speechEnd := ⟨s.qstart, 0⟩, inSpeech := false }, ⟨r, ovf⟩)
    else
      let (s, r) := s.pop
      (s, ⟨r, ovf⟩)
  else if cnt > c.startFrames then
    let s := { s with speechStart := s.qstart, speechEnd := ⟨0, 0⟩, inSpeech := true }
    let (s, r) := s.pop
    (s, ⟨r, ovf⟩)
  else (s, ⟨none, ovf⟩)

/-- ending the stream: the maximal all-speech prefix of the queue is handed back; the trailing
partial frame is added iff that prefix is the whole queue; the queue is emptied -/
def Spec.endStream (c : Cfg) (s : Spec α) (nsamp : Nat) (f : α) : Spec α × EOut α :=
  if nsamp > c.frameSize then (s, .tooLong)
  else if !s.inSpeech then (s, .notInSpeech)
  else
    let sp := s.q.takeWhile (·.2)
    let k := sp.length
    if k = s.q.length then
      ({ s with inSpeech := false, q := [], qstart := s.qstart + k, tsSamples := s.tsSamples + nsamp,
                speechEnd := ⟨s.tsFrames, s.tsSamples + nsamp⟩ },
       .data (sp.map (·.1)) (some (f, nsamp)) false)
    else
      -- the first non-speech frame is popped too, the rest is discarded unpopped
      ({ s with inSpeech := false, q := [], qstart := s.qstart + k + 1, speechEnd := ⟨s.qstart + k, 0⟩ },
       .data (sp.map (·.1)) none false)

def Spec.step (c : Cfg) (s : Spec α) : Op α → Spec α × Obs α
  | .process d f =>
    let (s, o) := s.process c d f
    (s, ⟨.p o, s.inSpeech, s.speechStart, s.speechEnd⟩)
  | .endStream nsamp f =>
    let (s, o) := s.endStream c nsamp f
    (s, ⟨.e o, s.inSpeech, s.speechStart, s.speechEnd⟩)

def Spec.run (c : Cfg) (s : Spec α) : List (Op α) → Spec α × List (Obs α)
  | [] => (s, [])
  | op :: ops =>
    let (s, o) := s.step c op
    let (s, os) := s.run c ops
    (s, o :: os)

/-! ## vocabulary of the property statements -/

/-- the frame (with its decision) a call feeds in -/
def Op.input : Op α → List (α × Bool)
  | .process d f => [(f, d)]
  | .endStream _ _ => []

/-- the input stream of a history: all frames given to `endpointer_process`, with their decisions, in order -/
def inputs (ops : List (Op α)) : List (α × Bool) := ops.flatMap Op.input

/-- the whole frames a call hands back -/
def Ret.frames : Ret α → List α
  | .p o => o.ret.toList
  | .e (.data fr _ _) => fr
  | .e _ => []

/-- the call was an `end_stream` that returned data (and thereby emptied the queue) -/
def Ret.isData : Ret α → Bool
  | .e (.data _ _ _) => true
  | _ => false

/-- stream position (in frames) of the oldest queued frame: frames fed in minus frames queued -/
def Ep.head (e : Ep α) : Nat := e.tsFrames - e.n

/-- number of frames the queue clock `qstart_time` is behind the stream position of the oldest
queued frame.  It is 0 until an `end_stream` has returned data: `end_stream` does not advance
`qstart_time` for the frames it discards. -/
def Ep.skew (e : Ep α) : Nat := e.tsFrames - (e.qstart + e.n)

end SSVerif.Endpointer
