import SSVerif.Model.Fmt3
/-!
# The `double` arithmetic of the time fields, exactly (IEEE-754 binary64, round to nearest, ties to even)

`format_seg` / `format_align_iter` / `decoder_result_json` (src/decoder.c) compute the `%.3f` arguments as

    st  = utt_start + (double)sf / frate;        dur = (double)(ef + 1 - sf) / frate;

with `sf`, `ef`, `frate` of type `int` (converted exactly) and `utt_start` the caller's `double`.  On x86-64 (SSE2,
no extended precision, default rounding mode) each operation returns the exact rational result rounded once to the
nearest double, ties to even.  Doubles are bit patterns (`Nat` below `2^64`); `Fmt3.ofBits` decodes the finite ones.

* `roundPos num den` — the magnitude bits of the positive rational `num/den` rounded to nearest-even (denormals,
  overflow to infinity included);
* `divInt n fr` — `(double)n / fr`: signed zeros, `x/0 = ±inf`, `0/0 =` the default NaN of SSE (`-nan`);
* `addBits a b` — `a + b` for every pair of patterns (exact sum of the two dyadic values rounded once; `x + (−x) = +0`,
  `(−0) + (−0) = −0`; infinities; NaN operands are returned quieted, first operand first, `inf − inf` = default NaN);
* `timeBits s f fr = addBits s (divInt f fr)`, `ratioBits n fr = divInt n fr`.

Core Lean only.  Tied to the machine arithmetic on every run (harness op `arith`, and every `T:`/`R:` value of every
dumped result).
-/
namespace SSVerif.Dbl
open SSVerif.Fmt3

def infBits : Nat := 0x7ff0000000000000
def signBit : Nat := 2 ^ 63
/-- "real indefinite": what SSE returns for `0/0` and `inf − inf` (sign bit set; prints as `-nan`) -/
def defaultNaN : Nat := 0xfff8000000000000

/-- biased exponent of the unit in the last place of the double nearest to `num/den`: `e + 1074` with
`e = max (⌊log2 (num/den)⌋ − 52) (−1074)`.  With `N = num·2^1074`, `⌊log2 (N/den)⌋ = log2 ⌊N/den⌋` whenever
`N ≥ den`; below that (and for `num = 0`) the truncated subtraction gives `0`, the denormal exponent -/
def ulpB (num den : Nat) : Nat := (num * 2 ^ 1074 / den).log2 - 52

/-- the integer mantissa: `num/den` in units of the last place, rounded to nearest, ties to even -/
def mantB (num den : Nat) : Nat := rne (num * 2 ^ 1074) (den * 2 ^ ulpB num den)

/-- `num/den ≥ 0` rounded to the nearest double, ties to even, as bits (sign clear).  With biased ulp exponent `e'`
and mantissa `m` the pattern is `e'·2^52 + m` in all cases: denormals (`m < 2^52`, `e' = 0`), normals, a mantissa that
rounds up to `2^53` (carries into the exponent field), and overflow (capped at infinity) -/
def roundPos (num den : Nat) : Nat := min (ulpB num den * 2 ^ 52 + mantB num den) infBits

def sgn (neg : Bool) : Nat := if neg then signBit else 0

/-- `(double)n / fr` for C `int`s `n`, `fr` -/
def divInt (n fr : Int) : Nat :=
  let neg := (decide (n < 0)) != (decide (fr < 0))
  if fr = 0 then (if n = 0 then defaultNaN else sgn (decide (n < 0)) + infBits)
  else sgn neg + roundPos n.natAbs fr.natAbs

def isNaN (b : Nat) : Bool := b / 2 ^ 52 % 2048 = 2047 && b % 2 ^ 52 ≠ 0
def isInf (b : Nat) : Bool := b / 2 ^ 52 % 2048 = 2047 && b % 2 ^ 52 = 0
def isNeg (b : Nat) : Bool := b / 2 ^ 63 % 2 = 1
/-- a NaN operand comes back with its quiet bit set -/
def quiet (b : Nat) : Nat := if b / 2 ^ 51 % 2 = 0 then b % 2 ^ 64 + 2 ^ 51 else b % 2 ^ 64

/-- `a + b` -/
def addBits (a b : Nat) : Nat :=
  match ofBits a, ofBits b with
  | some (na, ma, ea), some (nb, mb, eb) =>
    let e := min ea eb
    let xa : Int := (ma * 2 ^ (ea - e).toNat : Nat)
    let xb : Int := (mb * 2 ^ (eb - e).toNat : Nat)
    let s : Int := (if na then -xa else xa) + (if nb then -xb else xb)
    if s = 0 then sgn (na && nb)
    else sgn (decide (s < 0)) + roundPos (s.natAbs * 2 ^ (e + 1074).toNat) (2 ^ 1074)
  | _, _ =>
    if isNaN a then quiet a
    else if isNaN b then quiet b
    else if isInf a && isInf b && (isNeg a != isNeg b) then defaultNaN
    else if isInf a then a % 2 ^ 64 else b % 2 ^ 64

/-- `utt_start + (double)f / frate` -/
def timeBits (start : Nat) (f fr : Int) : Nat := addBits start (divInt f fr)

/-- `(double)n / frate` -/
def ratioBits (n fr : Int) : Nat := divInt n fr

end SSVerif.Dbl
