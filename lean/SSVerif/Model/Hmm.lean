import SSVerif.Model.Viterbi
import SSVerif.Generated.SearchConsts
/-!
# `hmm_vit_eval_3st_lr` on `Int` and its max-plus idealisation (C02, model M9)

`hmmStep` mirrors `hmm_vit_eval_3st_lr` (src/hmm.c:482-567) statement by statement: the order of the
comparisons (`BETTER_THAN` is the strict `>`), the `WORST_SCORE` clamps, the `s1 > WORST_SCORE` guard on
the update of the exit score, the `TMAT_WORST_SCORE` tests that enable the two skip transitions, and the
re-use of the temporary `t2` (initialised to `INT_MIN`, assigned in the exit block only when the 1→3 skip
exists, and *not* reset before the 0/1/2→2 block).  C `int32` arithmetic is exact on `Int` here: every
state score is clamped to `≥ WORST_SCORE = -2^29` after each frame and a frame adds at most
`-(32767 + 255)`, far from `INT_MIN` (`hmmStep_range`).

`tp` is the 3×4 matrix of one `tmatid` as stored (`uint8`, negated natural-log-ish costs, `255` =
impossible), row-major; `e k` is the emission score `-senscore[sseq[k]]` of state `k` in this frame.
History (back-pointer) fields are not modelled: C02 is about scores only.
-/
namespace SSVerif.Hmm
open SSVerif.Generated.Search

structure St where
  /-- `hmm_in_score` = score of state 0 -/
  s0 : Int
  s1 : Int
  s2 : Int
  /-- `hmm_out_score` (non-emitting exit state) -/
  out : Int
  best : Int
deriving Repr, DecidableEq

/-- `hmm_clear` -/
def St.clear : St := ⟨worstScore, worstScore, worstScore, worstScore, worstScore⟩

/-- `hmm_enter` -/
def St.enter (h : St) (score : Int) : St := { h with s0 := score }

/-- `hmm_tprob_3st(i, j) = -tp[i*4 + j]` -/
def tprob (tp : List Nat) (i j : Nat) : Int := - (tp.getD (i * 4 + j) 255 : Nat)

def clampW (x : Int) : Int := if x < worstScore then worstScore else x

/-- `hmm_vit_eval_3st_lr` -/
def hmmStep (tp : List Nat) (e : Nat → Int) (h : St) : St :=
  let s2 := h.s2 + e 2
  let s1 := h.s1 + e 1
  let s0 := h.s0 + e 0
  let best := worstScore
  let t2 := intMin
  -- transitions into non-emitting state 3
  let (out, best, t2) :=
    if s1 > worstScore then
      let t1 := s2 + tprob tp 2 3
      let t2 := if tprob tp 1 3 > tmatWorstScore then s1 + tprob tp 1 3 else t2
      let s3 := if t1 > t2 then t1 else t2
      let s3 := clampW s3
      (s3, s3, t2)
    else (h.out, best, t2)
  -- all transitions into state 2
  let t0 := s2 + tprob tp 2 2
  let t1 := s1 + tprob tp 1 2
  let t2 := if tprob tp 0 2 > tmatWorstScore then s0 + tprob tp 0 2 else t2
  let n2 := if t0 > t1 then (if t2 > t0 then t2 else t0) else (if t2 > t1 then t2 else t1)
  let n2 := clampW n2
  let best := if n2 > best then n2 else best
  -- all transitions into state 1
  let t0 := s1 + tprob tp 1 1
  let t1 := s0 + tprob tp 0 1
  let n1 := if t0 > t1 then t0 else t1
  let n1 := clampW n1
  let best := if n1 > best then n1 else best
  -- state 0
  let n0 := clampW (s0 + tprob tp 0 0)
  let best := if n0 > best then n0 else best
  ⟨n0, n1, n2, out, best⟩

/-! ### the 5-state evaluator `hmm_vit_eval_5st_lr` (src/hmm.c:166-304)

All transitions `k→k`, `k→k+1`, `k→k+2` are always taken (no `TMAT_WORST_SCORE` tests in this evaluator).
The exit state and states 4 and 3 are only recomputed when `s3`, `s2`, `s1` (old score + emission) are better
than `WORST_SCORE`; otherwise the stored value is left untouched.  The C code computes the blocks top-down
with locals that are not re-read after being overwritten, so each new value is a function of the old state;
the model writes one function per component.  `tp` is the 5×6 matrix, row-major. -/

structure St5 where
  s0 : Int
  s1 : Int
  s2 : Int
  s3 : Int
  s4 : Int
  out : Int
  best : Int
deriving Repr, DecidableEq

/-- `hmm_tprob_5st(i, j) = -tp[i*6 + j]` -/
def tprob5 (tp : List Nat) (i j : Nat) : Int := - (tp.getD (i * 6 + j) 255 : Nat)

def max2c (a b : Int) : Int := if a > b then a else b
/-- the nested comparison `if (t0 > t1) { if (t2 > t0) t2 else t0 } else { if (t2 > t1) t2 else t1 }` -/
def max3c (t0 t1 t2 : Int) : Int := if t0 > t1 then (if t2 > t0 then t2 else t0) else (if t2 > t1 then t2 else t1)

def out5 (tp : List Nat) (e : Nat → Int) (h : St5) : Int :=
  if h.s3 + e 3 > worstScore then clampW (max2c (h.s4 + e 4 + tprob5 tp 4 5) (h.s3 + e 3 + tprob5 tp 3 5)) else h.out
def new4 (tp : List Nat) (e : Nat → Int) (h : St5) : Int :=
  if h.s2 + e 2 > worstScore then
    clampW (max3c (h.s4 + e 4 + tprob5 tp 4 4) (h.s3 + e 3 + tprob5 tp 3 4) (h.s2 + e 2 + tprob5 tp 2 4))
  else h.s4
def new3 (tp : List Nat) (e : Nat → Int) (h : St5) : Int :=
  if h.s1 + e 1 > worstScore then
    clampW (max3c (h.s3 + e 3 + tprob5 tp 3 3) (h.s2 + e 2 + tprob5 tp 2 3) (h.s1 + e 1 + tprob5 tp 1 3))
  else h.s3
def new2 (tp : List Nat) (e : Nat → Int) (h : St5) : Int :=
  clampW (max3c (h.s2 + e 2 + tprob5 tp 2 2) (h.s1 + e 1 + tprob5 tp 1 2) (h.s0 + e 0 + tprob5 tp 0 2))
def new1 (tp : List Nat) (e : Nat → Int) (h : St5) : Int :=
  clampW (max2c (h.s1 + e 1 + tprob5 tp 1 1) (h.s0 + e 0 + tprob5 tp 0 1))
def new0 (tp : List Nat) (e : Nat → Int) (h : St5) : Int := clampW (h.s0 + e 0 + tprob5 tp 0 0)

/-- `bestScore` as the C code accumulates it -/
def best5 (tp : List Nat) (e : Nat → Int) (h : St5) : Int :=
  let b := if h.s3 + e 3 > worstScore then out5 tp e h else worstScore
  let b := if h.s2 + e 2 > worstScore then max2c (new4 tp e h) b else b
  let b := if h.s1 + e 1 > worstScore then max2c (new3 tp e h) b else b
  max2c (new0 tp e h) (max2c (new1 tp e h) (max2c (new2 tp e h) b))

/-- `hmm_vit_eval_5st_lr` -/
def hmmStep5 (tp : List Nat) (e : Nat → Int) (h : St5) : St5 :=
  ⟨new0 tp e h, new1 tp e h, new2 tp e h, new3 tp e h, new4 tp e h, out5 tp e h, best5 tp e h⟩

/-! ### idealised step on the max-plus carrier -/

open SSVerif.Viterbi (omax)

/-- scores of the three emitting states, `none` = −∞ (inactive) -/
structure ISt where
  s0 : Option Int
  s1 : Option Int
  s2 : Option Int
deriving Repr, DecidableEq

def oadd (a : Option Int) (c : Int) : Option Int := a.map (· + c)

/-- is the skip transition `i → j` present? -/
def skipOK (tp : List Nat) (i j : Nat) : Bool := tprob tp i j > tmatWorstScore

/-- max-plus step over the transition matrix: the always-present transitions `k→k`, `k→k+1` and the
skips `0→2`, `1→3` when their entry is better than `TMAT_WORST_SCORE`; returns the new state and the
exit score of this frame -/
def hmmStepIdeal (tp : List Nat) (e : Nat → Int) (h : ISt) : ISt × Option Int :=
  let a0 := oadd h.s0 (e 0)
  let a1 := oadd h.s1 (e 1)
  let a2 := oadd h.s2 (e 2)
  let out := omax (oadd a2 (tprob tp 2 3)) (if skipOK tp 1 3 then oadd a1 (tprob tp 1 3) else none)
  let n2 := omax (omax (oadd a2 (tprob tp 2 2)) (oadd a1 (tprob tp 1 2)))
              (if skipOK tp 0 2 then oadd a0 (tprob tp 0 2) else none)
  let n1 := omax (oadd a1 (tprob tp 1 1)) (oadd a0 (tprob tp 0 1))
  let n0 := oadd a0 (tprob tp 0 0)
  (⟨n0, n1, n2⟩, out)

/-- scores of the five emitting states -/
structure ISt5 where
  s0 : Option Int
  s1 : Option Int
  s2 : Option Int
  s3 : Option Int
  s4 : Option Int
deriving Repr, DecidableEq

/-- max-plus step of the 5-state left-to-right topology with skips; returns the new state and the exit score -/
def hmmStepIdeal5 (tp : List Nat) (e : Nat → Int) (h : ISt5) : ISt5 × Option Int :=
  let a0 := oadd h.s0 (e 0)
  let a1 := oadd h.s1 (e 1)
  let a2 := oadd h.s2 (e 2)
  let a3 := oadd h.s3 (e 3)
  let a4 := oadd h.s4 (e 4)
  (⟨oadd a0 (tprob5 tp 0 0),
    omax (oadd a1 (tprob5 tp 1 1)) (oadd a0 (tprob5 tp 0 1)),
    omax (omax (oadd a2 (tprob5 tp 2 2)) (oadd a1 (tprob5 tp 1 2))) (oadd a0 (tprob5 tp 0 2)),
    omax (omax (oadd a3 (tprob5 tp 3 3)) (oadd a2 (tprob5 tp 2 3))) (oadd a1 (tprob5 tp 1 3)),
    omax (omax (oadd a4 (tprob5 tp 4 4)) (oadd a3 (tprob5 tp 3 4))) (oadd a2 (tprob5 tp 2 4))⟩,
   omax (oadd a4 (tprob5 tp 4 5)) (oadd a3 (tprob5 tp 3 5)))

/-- `WORST_SCORE` (and anything below) stands for −∞ -/
def rep (x : Int) : Option Int := if x ≤ worstScore then none else some x

def St.rep (h : St) : ISt := ⟨Hmm.rep h.s0, Hmm.rep h.s1, Hmm.rep h.s2⟩

def St5.rep (h : St5) : ISt5 := ⟨Hmm.rep h.s0, Hmm.rep h.s1, Hmm.rep h.s2, Hmm.rep h.s3, Hmm.rep h.s4⟩

end SSVerif.Hmm
