import SSVerif.Model.Nfa
/-!
# JSGF: surface syntax, denotation, rule tables, rewriting machine, exploration (C05)

Mirrors `src/jsgf_parser.y` (parser actions), `src/jsgf.c` (`jsgf_kleene_new`, `jsgf_optional_new`,
`jsgf_define_rule`, the accept/refuse decisions of `expand_rule`/`expand_rhs`, weight
normalisation).  Core Lean only.

* `Exp`/`Seq`/`Alts` — surface syntax exactly as the grammar of `jsgf_parser.y` produces it
  (`rule_atom`, `rule_expansion` of weighted/tagged items, `alternate_list`).
* `Sem g` — denotation of the surface syntax (inductive; tags and weights ignored,
  `<NULL>` = {ε}, `<VOID>` = ∅, undefined reference = ∅).
* `Atom`, `Rules`, `Der`, `Step`, `Run` — desugared rule tables, their denotation, and the
  leftmost-rewriting machine over sentential forms.
* `desugar` — the parser actions as a function (internal rules numbered by table size).
* `tableMatches` — verified check that a rule table represents a surface grammar.
* `explore` — forms reachable from `[ref top]` collected into a finite ε-NFA; the search is
  untrusted, the closedness check (`closedB`) is what `explore_sound` uses.
* `representable` — the accept/refuse decision of the (repaired) expansion.
* `normaliseRule` — weight normalisation over the first atoms of the alternatives, over `Rat`.
-/
namespace SSVerif.Jsgf
open SSVerif.Nfa

/-! ## rule tables -/

/-- rule names: a user rule `<n>` or an internal rule `<grammar.gNNNNN>` (`jsgf_define_rule`
with `name == NULL`) -/
inductive RName
  | user (n : Nat)
  | gen (k : Nat)
deriving DecidableEq, Repr, Inhabited

inductive Atom
  | tok (w : Nat)
  | ref (r : RName)
  | null
  | void
deriving DecidableEq, Repr, Inhabited

abbrev Alt := List Atom
abbrev Rules := RName → List Alt

/-- denotation of a sentential form: sequence = concatenation, rule = choice of an
alternative, `<NULL>` = ε, `<VOID>` and undefined rules have no derivation -/
inductive Der (R : Rules) : List Atom → List Nat → Prop
  | nil : Der R [] []
  | tok {w rest ws} : Der R rest ws → Der R (.tok w :: rest) (w :: ws)
  | null {rest ws} : Der R rest ws → Der R (.null :: rest) ws
  | ref {r alt rest ws1 ws2} : alt ∈ R r → Der R alt ws1 → Der R rest ws2 →
      Der R (.ref r :: rest) (ws1 ++ ws2)

/-- one move of the leftmost-rewriting machine -/
inductive Step (R : Rules) : List Atom → Option Nat → List Atom → Prop
  | tok {w rest} : Step R (.tok w :: rest) (some w) rest
  | null {rest} : Step R (.null :: rest) none rest
  | ref {r alt rest} : alt ∈ R r → Step R (.ref r :: rest) none (alt ++ rest)

/-- accepting runs of the machine: the empty form accepts -/
inductive Run (R : Rules) : List Atom → List Nat → Prop
  | done : Run R [] []
  | eps {a b ws} : Step R a none b → Run R b ws → Run R a ws
  | sym {a b w ws} : Step R a (some w) b → Run R b ws → Run R a (w :: ws)

/-- an atom as stored by the parser: name, weight (default 1), number of tags -/
structure WAtom where
  atom : Atom
  wt : Rat
  tags : Nat
deriving DecidableEq, Repr, Inhabited

structure Rule where
  name : RName
  pub : Bool
  /-- alternatives in the order of the `rhs->alt` chain (last textual alternative first) -/
  alts : List (List WAtom)
deriving Repr, Inhabited

abbrev Table := List Rule

def Table.find (T : Table) (r : RName) : Option Rule := List.find? (fun rl => rl.name == r) T

def Rule.plainAlts (rl : Rule) : List Alt := rl.alts.map fun alt => alt.map (·.atom)

/-- the rule function of a table; an undefined name has no alternatives -/
def Table.rules (T : Table) : Rules := fun r =>
  match T.find r with
  | some rl => rl.plainAlts
  | none => []

def Table.defined (T : Table) (r : RName) : Bool := (T.find r).isSome

/-! ## surface syntax (grammar of `jsgf_parser.y`) -/

mutual
  /-- `rule_atom`: TOKEN, RULENAME (`<NULL>`/`<VOID>` are reserved rule names), group,
  optional, Kleene star / plus -/
  inductive Exp
    | tok (w : Nat)
    | ref (r : Nat)
    | null
    | void
    | group (a : Alts)
    | opt (a : Alts)
    | star (e : Exp)
    | plus (e : Exp)
  /-- `rule_expansion`: non-empty sequence of `tagged_rule_item`s (weight, number of tags, atom) -/
  inductive Seq
    | one (wt : Rat) (tags : Nat) (e : Exp)
    | cons (wt : Rat) (tags : Nat) (e : Exp) (s : Seq)
  /-- `alternate_list`: non-empty list of sequences in textual order -/
  inductive Alts
    | one (s : Seq)
    | cons (s : Seq) (a : Alts)
end

structure SRule where
  name : Nat
  pub : Bool
  body : Alts

abbrev Grammar := List SRule

def Grammar.lookup (g : Grammar) (r : Nat) : Option Alts :=
  (List.find? (fun rl => rl.name == r) g).map (·.body)

/-- syntactic categories, so that the denotation is one (non-mutual) inductive predicate -/
inductive Syn
  | e (x : Exp)
  | s (x : Seq)
  | a (x : Alts)

/-- **JSGF semantics** of the surface syntax -/
inductive Sem (g : Grammar) : Syn → List Nat → Prop
  | tok {w} : Sem g (.e (.tok w)) [w]
  | null : Sem g (.e .null) []
  | ref {r body ws} : g.lookup r = some body → Sem g (.a body) ws → Sem g (.e (.ref r)) ws
  | group {a ws} : Sem g (.a a) ws → Sem g (.e (.group a)) ws
  | optNone {a} : Sem g (.e (.opt a)) []
  | optSome {a ws} : Sem g (.a a) ws → Sem g (.e (.opt a)) ws
  | starNil {x} : Sem g (.e (.star x)) []
  | starCons {x w1 w2} : Sem g (.e x) w1 → Sem g (.e (.star x)) w2 → Sem g (.e (.star x)) (w1 ++ w2)
  | plusOne {x ws} : Sem g (.e x) ws → Sem g (.e (.plus x)) ws
  | plusCons {x w1 w2} : Sem g (.e x) w1 → Sem g (.e (.plus x)) w2 → Sem g (.e (.plus x)) (w1 ++ w2)
  | seqOne {wt t x ws} : Sem g (.e x) ws → Sem g (.s (.one wt t x)) ws
  | seqCons {wt t x s w1 w2} : Sem g (.e x) w1 → Sem g (.s s) w2 → Sem g (.s (.cons wt t x s)) (w1 ++ w2)
  | altOne {s ws} : Sem g (.s s) ws → Sem g (.a (.one s)) ws
  | altHead {s a ws} : Sem g (.s s) ws → Sem g (.a (.cons s a)) ws
  | altTail {s a ws} : Sem g (.a a) ws → Sem g (.a (.cons s a)) ws

/-- the language of rule `<r>` of grammar `g` -/
def Lang (g : Grammar) (r : Nat) (ws : List Nat) : Prop := Sem g (.e (.ref r)) ws

/-! ## desugaring = the parser actions -/

/-- `jsgf_define_rule(jsgf, NULL, rhs, 0)`: the new internal rule is numbered by the current
number of rules in the table (`hash_table_inuse`) -/
def defineGen (T : Table) (alts : List (List WAtom)) : RName × Table :=
  (.gen T.length, T ++ [{ name := .gen T.length, pub := false, alts }])

def plainAtom (a : Atom) : WAtom := { atom := a, wt := 1, tags := 0 }

mutual
  /-- `rule_atom` actions; returns the atom (weight 1, no tags) and the extended table -/
  def desugarExp : Exp → Table → Atom × Table
    | .tok w, T => (.tok w, T)
    | .ref r, T => (.ref (.user r), T)
    | .null, T => (.null, T)
    | .void, T => (.void, T)
    | .group a, T =>
      -- `rule_group: '(' alternate_list ')'`
      let (alts, T1) := desugarAltsAcc a [] T
      let (n, T2) := defineGen T1 alts
      (.ref n, T2)
    | .opt a, T =>
      -- `jsgf_optional_new`: `<NULL>` first, then the alternatives
      let (alts, T1) := desugarAltsAcc a [] T
      let (n, T2) := defineGen T1 ([plainAtom .null] :: alts)
      (.ref n, T2)
    | .star e, T =>
      -- `jsgf_kleene_new(jsgf, atom, 0)`: `g = <NULL> | atom g`
      let (a, T1) := desugarExp e T
      let n : RName := .gen T1.length
      (.ref n, T1 ++ [{ name := n, pub := false, alts := [[plainAtom .null], [plainAtom a, plainAtom (.ref n)]] }])
    | .plus e, T =>
      -- `jsgf_kleene_new(jsgf, atom, 1)`: `g = atom | atom g`
      let (a, T1) := desugarExp e T
      let n : RName := .gen T1.length
      (.ref n, T1 ++ [{ name := n, pub := false, alts := [[plainAtom a], [plainAtom a, plainAtom (.ref n)]] }])
  /-- `rule_expansion` (atoms in textual order after `glist_reverse`) -/
  def desugarSeq : Seq → Table → List WAtom × Table
    | .one wt t e, T =>
      let (a, T1) := desugarExp e T
      ([{ atom := a, wt, tags := t }], T1)
    | .cons wt t e s, T =>
      let (a, T1) := desugarExp e T
      let (rest, T2) := desugarSeq s T1
      ({ atom := a, wt, tags := t } :: rest, T2)
  /-- `alternate_list`: every new alternative is put in front of the chain -/
  def desugarAltsAcc : Alts → List (List WAtom) → Table → List (List WAtom) × Table
    | .one s, acc, T =>
      let (alt, T1) := desugarSeq s T
      (alt :: acc, T1)
    | .cons s a, acc, T =>
      let (alt, T1) := desugarSeq s T
      desugarAltsAcc a (alt :: acc) T1
end

def desugarAlts (a : Alts) (T : Table) : List (List WAtom) × Table := desugarAltsAcc a [] T

/-- `rule: RULENAME '=' alternate_list ';'` for each rule in textual order -/
def desugarFrom : Grammar → Table → Table
  | [], T => T
  | rl :: rest, T =>
    let (alts, T1) := desugarAlts rl.body T
    -- `hash_table_enter` keeps the first definition of a name; the internal rules of the body
    -- of a repeated definition have been entered all the same
    if T1.defined (.user rl.name) then desugarFrom rest T1
    else desugarFrom rest (T1 ++ [{ name := .user rl.name, pub := rl.pub, alts }])

def desugar (g : Grammar) : Table := desugarFrom g []

/-! ## verified check: a rule table represents a surface grammar -/

mutual
  /-- atom `a` of table `R` represents the surface expression -/
  def repE (R : Rules) : Atom → Exp → Bool
    | .tok w, .tok w' => w == w'
    | .ref (.user n), .ref n' => n == n'
    | .null, .null => true
    | .void, .void => true
    | .ref (.gen k), .group body => repA R (R (.gen k)).reverse body
    | .ref (.gen k), .opt body =>
      match R (.gen k) with
      | [.null] :: rest => repA R rest.reverse body
      | _ => false
    | .ref (.gen k), .star e =>
      match R (.gen k) with
      | [[.null], [a, .ref (.gen k')]] => k == k' && repE R a e
      | _ => false
    | .ref (.gen k), .plus e =>
      match R (.gen k) with
      | [[a'], [a, .ref (.gen k')]] => k == k' && a == a' && repE R a e
      | _ => false
    | _, _ => false
  def repS (R : Rules) : List Atom → Seq → Bool
    | [a], .one _ _ e => repE R a e
    | a :: rest, .cons _ _ e s => repE R a e && repS R rest s
    | _, _ => false
  /-- alternatives in textual order against the surface alternatives -/
  def repA (R : Rules) : List (List Atom) → Alts → Bool
    | [alt], .one s => repS R alt s
    | alt :: rest, .cons s a => repS R alt s && repA R rest a
    | _, _ => false
end

def namesDistinct : Grammar → Bool
  | [] => true
  | rl :: rest => !(rest.any fun r => r.name == rl.name) && namesDistinct rest

/-- every user rule of the grammar is represented by the table's rule of that name, and the
table defines no other user rule -/
def tableMatches (T : Table) (g : Grammar) : Bool :=
  g.all (fun rl => T.defined (.user rl.name) &&
                   (match g.lookup rl.name with
                    | some body => repA T.rules (T.rules (.user rl.name)).reverse body
                    | none => false)) &&
  T.all (fun rl => match rl.name with
                   | .user n => (g.lookup n).isSome
                   | .gen _ => true)

/-! ## the rewriting machine as a finite automaton over explored forms -/

def succs (R : Rules) : List Atom → List (Option Nat × List Atom)
  | [] => []
  | .tok w :: rest => [(some w, rest)]
  | .null :: rest => [(none, rest)]
  | .void :: _ => []
  | .ref r :: rest => (R r).map fun alt => (none, alt ++ rest)

/-- the automaton whose states are the forms in `V` (numbered by first position) -/
def mkNfa (R : Rules) (V : List (List Atom)) (top : RName) : Nfa :=
  { start := V.idxOf [Atom.ref top]
    final := V.idxOf []
    arcs := V.flatMap fun f => (succs R f).map fun lf => (V.idxOf f, lf.1, V.idxOf lf.2) }

/-- every successor of a form of `V` is in `V` -/
def closedB (R : Rules) (V : List (List Atom)) : Bool :=
  V.all fun f => (succs R f).all fun lf => V.contains lf.2

/-- breadth-first collection of reachable forms (untrusted; bounded by `fuel` forms) -/
def exploreGo (R : Rules) : Nat → List (List Atom) → List (List Atom) → List (List Atom)
  | 0, seen, _ => seen
  | _ + 1, seen, [] => seen
  | fuel + 1, seen, f :: todo =>
    let new := (succs R f).foldl (fun (acc : List (List Atom)) lf =>
      if seen.contains lf.2 || acc.contains lf.2 then acc else acc ++ [lf.2]) []
    exploreGo R fuel (seen ++ new) (todo ++ new)

def exploreForms (R : Rules) (top : RName) (fuel : Nat) : List (List Atom) :=
  exploreGo R fuel [[], [Atom.ref top]] [[Atom.ref top]]

/-- the finite automaton of the grammar, when the reachable forms are found to be closed -/
def explore (R : Rules) (top : RName) (fuel : Nat) : Option Nfa :=
  let V := exploreForms R top fuel
  if V.contains [] && V.contains [Atom.ref top] && closedB R V then some (mkNfa R V top) else none

/-! ## accept / refuse decision of the expansion (`expand_rule`, `expand_rhs`, repaired) -/

/-- one right-hand side.  `stack` has the rule being expanded on top; `ntail` is the number of
rules on top of the stack, below the current one, whose reference was the last atom of its
parent's right-hand side (`whole = true`: the repaired test).  `<VOID>` does not stop the scan (the rest hangs off an unreachable
state); an undefined rule refuses; a rule found on the stack must be referenced from the last
position along the whole chain back to it. -/
def okAtoms (T : Table) (whole : Bool) (recur : Nat → RName → Bool) (stack : List RName) (ntail : Nat) :
    List Atom → Bool
  | [] => true
  | .ref s :: rest =>
    if !T.defined s then false
    else if stack.contains s then
      rest.isEmpty && (!whole || decide (stack.idxOf s ≤ ntail))
    else
      recur (if rest.isEmpty then ntail + 1 else 0) s && okAtoms T whole recur stack ntail rest
  | _ :: rest => okAtoms T whole recur stack ntail rest

/-- `expand_rule` as a decision: every alternative expands -/
def okRule (T : Table) (whole : Bool) : Nat → List RName → Nat → RName → Bool
  | 0, _, _, _ => false
  | fuel + 1, stack, ntail, r =>
    (T.rules r).all fun alt =>
      okAtoms T whole (fun nt s => okRule T whole fuel (r :: stack) nt s) (r :: stack) ntail alt

/-- the compiler is expected to build an FSG for `top` exactly when this holds -/
def representable (T : Table) (top : RName) : Bool :=
  T.defined top && okRule T true (T.length + 1) [] 0 top

/-- the weaker test of the unrepaired `expand_rhs` (only the last hop is tested for tail position);
used by the check only to name the witness class "non-tail recursion hidden behind a tail
reference chain" -/
def representableLastHop (T : Table) (top : RName) : Bool :=
  T.defined top && okRule T false (T.length + 1) [] 0 top

/-! ## weight normalisation (`expand_rule`, jsgf.c:388-407) -/

def firstWeights (rl : Rule) : List Rat := rl.alts.filterMap fun alt => alt.head?.map (·.wt)

def sumRat : List Rat → Rat
  | [] => 0
  | x :: xs => x + sumRat xs

def normFactor (rl : Rule) : Rat := if sumRat (firstWeights rl) = 0 then 1 else sumRat (firstWeights rl)

def scaleFirst (c : Rat) : List WAtom → List WAtom
  | [] => []
  | a :: rest => { a with wt := a.wt / c } :: rest

/-- divide the weight of the first atom of every alternative by the sum of these weights
(by 1 when the sum is 0) -/
def normaliseRule (rl : Rule) : Rule := { rl with alts := rl.alts.map (scaleFirst (normFactor rl)) }

/-! ## mirror of `expand_rule` / `expand_rhs` (jsgf.c:298-421, repaired): states and links -/

/-- a link of `jsgf->links`: from, label (`none` = null transition), to, weight -/
structure XLink where
  src : Nat
  label : Option Nat
  dst : Nat
  wt : Rat
deriving Repr, Inhabited

/-- scratch state of the FSG conversion: `grammar->nstate`, `grammar->links` (oldest first), and the
`entry`/`exit` fields of the rules (latest instance first) -/
structure XSt where
  nstate : Nat := 0
  links : List XLink := []
  inst : List (RName × Nat × Nat) := []
deriving Repr, Inhabited

def XSt.addLink (st : XSt) (src : Nat) (label : Option Nat) (dst : Nat) (wt : Rat) : XSt :=
  { st with links := st.links ++ [{ src, label, dst, wt }] }

/-- `rule->entry`, `rule->exit` of the latest instance -/
def XSt.entryExit (st : XSt) (r : RName) : Nat × Nat :=
  match st.inst.find? (fun x => x.1 == r) with
  | some x => x.2
  | none => (0, 0)

inductive RhsRes
  | err
  | recursion
  | last (n : Nat)
deriving Repr, Inhabited

/-- `expand_rhs`: walks the atoms from state `last`; `recur nt s st` is `expand_rule` on sub-rule `s` -/
def xAtoms (T : Table) (recur : Nat → RName → XSt → Option XSt) (stack : List RName) (ntail : Nat) :
    List WAtom → Nat → XSt → RhsRes × XSt
  | [], last, st => (.last last, st)
  | a :: rest, last, st =>
    match a.atom with
    | .tok w =>
      xAtoms T recur stack ntail rest st.nstate
        { st.addLink last (some w) st.nstate a.wt with nstate := st.nstate + 1 }
    | .null =>
      xAtoms T recur stack ntail rest st.nstate
        { st.addLink last none st.nstate a.wt with nstate := st.nstate + 1 }
    | .void =>
      xAtoms T recur stack ntail rest st.nstate { st with nstate := st.nstate + 1 }
    | .ref s =>
      if !T.defined s then (.err, st)
      else if stack.contains s then
        if rest.isEmpty && decide (stack.idxOf s ≤ ntail) then
          (.recursion, st.addLink last none (st.entryExit s).1 a.wt)
        else (.err, st)
      else
        match recur (if rest.isEmpty then ntail + 1 else 0) s st with
        | none => (.err, st)
        | some st' =>
          xAtoms T recur stack ntail rest (st'.entryExit s).2 (st'.addLink last none (st'.entryExit s).1 a.wt)

/-- the alternatives of one rule instance (`entry`, `exit` already allocated) -/
def xAlts (T : Table) (recur : Nat → RName → XSt → Option XSt) (stack : List RName) (ntail : Nat)
    (entry exit : Nat) : List (List WAtom) → XSt → Option XSt
  | [], st => some st
  | alt :: rest, st =>
    match xAtoms T recur stack ntail alt entry st with
    | (.err, _) => none
    | (.recursion, st') => xAlts T recur stack ntail entry exit rest st'
    | (.last n, st') => xAlts T recur stack ntail entry exit rest (st'.addLink n none exit 1)

/-- `expand_rule`: push, normalise, allocate entry and exit, expand every alternative, pop -/
def xRule (T : Table) : Nat → List RName → Nat → RName → XSt → Option XSt
  | 0, _, _, _, _ => none
  | fuel + 1, stack, ntail, r, st =>
    match T.find r with
    | none => none
    | some rl =>
      let entry := st.nstate
      let exit := st.nstate + 1
      let st1 : XSt := { st with nstate := st.nstate + 2, inst := (r, entry, exit) :: st.inst }
      xAlts T (fun nt s st' => xRule T fuel (r :: stack) nt s st') (r :: stack) ntail entry exit
        (normaliseRule rl).alts st1

/-- `jsgf_build_fsg_raw` before the links are handed to `fsg_model`: `none` = refused -/
def expandTop (T : Table) (top : RName) : Option XSt :=
  if T.defined top then xRule T (T.length + 1) [] 0 top {} else none

/-- `jsgf_build_fsg_internal` (after D36) refuses a rule reference / `<NULL>` whose weight would
become a null transition with probability above one (only weights of atoms that are not first in
their alternative can be: the first ones are normalised) -/
def XSt.weightsOk (st : XSt) : Bool := st.links.all fun l => l.label.isSome || decide (l.wt ≤ 1)

/-- the raw FSG the compiler builds, `none` = refused -/
def buildRaw (T : Table) (top : RName) : Option XSt :=
  (expandTop T top).bind fun st => if st.weightsOk then some st else none

/-- the links as an ε-NFA (start = entry of the top rule = 0, final = its exit = 1) -/
def XSt.toNfa (st : XSt) : Nfa :=
  { start := 0, final := 1, arcs := st.links.map fun l => (l.src, l.label, l.dst) }

end SSVerif.Jsgf
