import SSVerif.Model.TextIn
/-!
# M17 — dictionary reader, `decoder_add_word`, alignment text, CMN string (C10)

* `dictInit` is `dict_init_s3file` (`src/dict.c:240-358`) with `dict_read_s3file` (lines 165-238)
  and `dict_add_word` (lines 71-137) over raw bytes; the phone set is a parameter (the list of
  CI phone names of the acoustic model, id = index; `bin_mdef_ciphone_id` is an exact-match
  search).  Case-sensitive (`dictcase` unset), as in the harness.
* `addWord` is the `(word, phones)` parser of `decoder_add_word` (`src/decoder.c:801-866`).
* `alignWords` is the tokeniser of `decoder_set_align_text` (`src/decoder.c:686-735`:
  `string_trim` + `nextword` of `src/strfuncs.c`).
* `cmnSet` is `cmn_set_repr` (`src/cmn.c:112-140`).

Repaired behaviour modelled (see `fixes/`): the comment test never looks beyond the buffer end
(D31); a leading blank line is skipped like any other (D32); the alternative-pronunciation chain
is linked only after the duplicate test (D5); empty words and empty pronunciations are refused
(D3, D4).
-/
namespace SSVerif.TextIn

structure DictWord where
  word : List UInt8
  pron : List Nat
  basewid : Nat
  alt : Option Nat
deriving Repr, DecidableEq, Inhabited

structure Dict where
  words : List DictWord := []     -- word id = index
  fillerStart : Nat := 0
deriving Repr, Inhabited

def Dict.size (d : Dict) : Nat := d.words.length

/-- `dict_wordid`: the id of a word string (exact match; ids are unique since duplicates are refused) -/
def Dict.wordId (d : Dict) (w : List UInt8) : Option Nat := d.words.findIdx? (·.word == w)

/-- largest `i` with `0 < i ≤ len - 2` and `w[i] = '('`, scanning down from the end
(`for (i = len - 2; (i > 0) && (word[i] != '('); --i)`) -/
def lastParen (w : List UInt8) : Nat → Option Nat
  | 0 => none
  | i + 1 => if w[i + 1]? == some 40 then some (i + 1) else lastParen w i

/-- `dict_word2basestr`: `some base` when the word has the form `base(…)` with a non-empty base -/
def baseStr (w : List UInt8) : Option (List UInt8) :=
  if w.getLast? == some 41 then
    match lastParen w (w.length - 2) with
    | some i => some (w.take i)
    | none => none
  else none

def setAlt (ws : List DictWord) (i : Nat) (a : Nat) : List DictWord :=
  ws.modify i fun e => { e with alt := some a }

/-- `dict_add_word` (repaired order, D3/D5): `none` = `BAD_S3WID` and the dictionary unchanged -/
def dictAdd (d : Dict) (word : List UInt8) (pron : List Nat) : Option (Dict × Nat) :=
  if word.isEmpty then none
  else
    let n := d.size
    let goNew (basew : Option Nat) : Option (Dict × Nat) :=
      if (d.wordId word).isSome then none      -- hash_table_enter_int32 returns the old id: duplicate
      else match basew with
        | some w =>
          let oldAlt := match d.words[w]? with | some e => e.alt | none => none
          some ({ d with words := setAlt d.words w n ++ [{ word, pron, basewid := w, alt := oldAlt }] }, n)
        | none => some ({ d with words := d.words ++ [{ word, pron, basewid := n, alt := none }] }, n)
    match baseStr word with
    | some base =>
      match d.wordId base with
      | none => none                             -- "Missing base word"
      | some w => goNew (some w)
    | none => goNew none

/-- the comment test of `dict_read_s3file`, repaired (D31): `##` or `;;` at the line start, the
second byte being looked at only when it is inside the buffer -/
def isDictComment (buf : Buf) (l : Span buf.size) : Bool :=
  if h : l.lo + 1 < buf.size then
    let a := buf[l.lo]'(by omega)
    let b := buf[l.lo + 1]'h
    a == b && Generated.TextIn.dictCommentMarks.contains a
  else false

def phoneId (phones : List (List UInt8)) (p : List UInt8) : Option Nat := phones.idxOf? p

/-- all phone ids, or `none` at the first unknown phone -/
def phoneIds (phones : List (List UInt8)) : List (List UInt8) → Option (List Nat)
  | [] => some []
  | p :: r => match phoneId phones p with
    | none => none
    | some i => match phoneIds phones r with
      | none => none
      | some is => some (i :: is)

/-- one line of `dict_read_s3file` -/
def dictLine (phones : List (List UInt8)) (buf : Buf) (d : Dict) (l : Span buf.size) : Dict :=
  if isDictComment buf l then d
  else match lineWords buf l with
    | [] => d                 -- empty line
    | [_] => d                -- "No pronunciation for word"; ignored
    | w :: ps =>
      match phoneIds phones (ps.map (slice buf)) with
      | none => d             -- "Phone … is missing in the acoustic model; word ignored"
      | some ids => match dictAdd d (slice buf w) ids with
        | none => d           -- "Failed to add the word (duplicate?); ignored"
        | some (d', _) => d'

def dictReadFile (phones : List (List UInt8)) (buf : Buf) (d : Dict) : Dict :=
  (allLines buf 0).foldl (dictLine phones buf) d

inductive DictErr where
  | startInMain | finishInMain | silInMain | silNotFiller
deriving Repr, DecidableEq, Inhabited

def wStart : List UInt8 := Generated.TextIn.startWord
def wFinish : List UInt8 := Generated.TextIn.finishWord
def wSil : List UInt8 := Generated.TextIn.silenceWord

def addIfMissing (d : Dict) (w : List UInt8) (sil : Nat) : Dict :=
  if (d.wordId w).isSome then d else match dictAdd d w [sil] with
    | some (d', _) => d'
    | none => d

/-- the main dictionary file read into an empty dictionary -/
def dictMain (phones : List (List UInt8)) (main : Option Buf) : Dict :=
  match main with | some b => dictReadFile phones b {} | none => {}

/-- `d->filler_start = d->n_word`, then the filler dictionary file -/
def dictFiller (phones : List (List UInt8)) (fdict : Option Buf) (d1 : Dict) : Dict :=
  let d : Dict := { d1 with fillerStart := d1.size }
  match fdict with | some b => dictReadFile phones b d | none => d

/-- `dict_filler_word(d, d->silwid)` -/
def silIsFiller (d : Dict) : Bool :=
  let fillerEnd : Int := (d.size : Int) - 1
  match d.wordId wSil with
  | none => false
  | some sw =>
    let b := match d.words[sw]? with | some e => e.basewid | none => sw
    if some b == d.wordId wStart || some b == d.wordId wFinish then false
    else decide (d.fillerStart ≤ b) && decide ((b : Int) ≤ fillerEnd)

/-- the end of `dict_init_s3file`: add `<s>`, `</s>`, `<sil>` when missing, check the filler range -/
def dictFinish (sil : Nat) (d2 : Dict) : Except DictErr Dict :=
  let d := addIfMissing (addIfMissing (addIfMissing d2 wStart sil) wFinish sil) wSil sil
  if (d.fillerStart : Int) > (d.size : Int) - 1 || !silIsFiller d then .error .silNotFiller else .ok d

/-- `dict_init_s3file` -/
def dictInit (phones : List (List UInt8)) (sil : Nat) (main fdict : Option Buf) : Except DictErr Dict :=
  let d := dictMain phones main
  if (d.wordId wStart).isSome then .error .startInMain
  else if (d.wordId wFinish).isSome then .error .finishInMain
  else if (d.wordId wSil).isSome then .error .silInMain
  else dictFinish sil (dictFiller phones fdict d)

/-! ## `decoder_add_word` -/

/-- maximal runs of bytes not satisfying `sep` -/
def splitOn (sep : UInt8 → Bool) (s : List UInt8) : List (List UInt8) :=
  let rec go (cur : List UInt8) (acc : List (List UInt8)) : List UInt8 → List (List UInt8)
    | [] => (if cur.isEmpty then acc else cur.reverse :: acc).reverse
    | b :: r => if sep b then go [] (if cur.isEmpty then acc else cur.reverse :: acc) r
                else go (b :: cur) acc r
  go [] [] s

inductive AddErr where
  | unknownPhone | emptyPron | refused
deriving Repr, DecidableEq, Inhabited

/-- `decoder_add_word(d, word, phones, …)` on the dictionary `d`: the new word id, or the reason
for `-1` -/
def addWord (phones : List (List UInt8)) (d : Dict) (word phoneStr : List UInt8) :
    Except AddErr (Dict × Nat) :=
  match phoneIds phones (splitOn isSpaceC phoneStr) with
  | none => .error .unknownPhone
  | some [] => .error .emptyPron
  | some ids => match dictAdd d word ids with
    | none => .error .refused
    | some r => .ok r

/-! ## `decoder_set_align_text` -/

/-- the set `" \t\n\r\f"` of `string_trim` -/
def isTrimSpace (b : UInt8) : Bool := Generated.TextIn.trimChars.contains b
/-- the delimiter set `" \t\n\r"` passed to `nextword` -/
def isAlignDelim (b : UInt8) : Bool := Generated.TextIn.alignDelims.contains b

def trimBoth (s : List UInt8) : List UInt8 :=
  ((s.dropWhile isTrimSpace).reverse.dropWhile isTrimSpace).reverse

/-- the words of an alignment text; `.error w` = first word missing from the dictionary -/
def alignWords (d : Dict) (text : List UInt8) : Except (List UInt8) (List (List UInt8)) :=
  let ws := splitOn isAlignDelim (trimBoth text)
  match ws.find? (fun w => (d.wordId w).isNone) with
  | some w => .error w
  | none => .ok ws

/-! ## `cmn_set_repr` -/

/-- split at the first `','` -/
def cutComma : List UInt8 → Option (List UInt8 × List UInt8)
  | [] => none
  | b :: r => if b == 44 then some ([], r) else
    match cutComma r with
    | some (a, rest) => some (b :: a, rest)
    | none => none

/-- the values `cmn_set_repr` parses, in order (at most `veclen`) -/
def cmnVals : (veclen : Nat) → List UInt8 → List FloatLit
  | 0, _ => []
  | n + 1, s =>
    match cutComma s with
    | some (a, rest) => atofLit a :: cmnVals n rest
    | none =>
      -- `if (nvals < cmn->veclen && *c != '\0')`: the remainder is the last value
      if s.isEmpty then [] else [atofLit s]

/-- `(float32)atof(…)` is a finite number: after rounding to `double` and then to `float32`
(nearest-even) the magnitude stays below `2^128`, i.e. `|v| < 2^128 − 2^103 − 2^74` -/
def f32Finite : FloatLit → Bool
  | .nan => false
  | .inf _ => false
  | .fin _ m ten e =>
    let B : Nat := if ten then 10 else 2
    let bound : Nat := 2 ^ 128 - 2 ^ 103 - 2 ^ 74
    if m == 0 then true
    else if e ≥ 0 then
      if e > 200 then false else decide (m * B ^ e.toNat < bound)
    else
      let k := (-e).toNat
      if k > Nat.log2 m + 1 then true else decide (m < bound * B ^ k)

/-- `cmn_set_repr` (repaired, D34): `none` = -1, a value that is not a finite `float32` and the
means unchanged; otherwise the `veclen` new means (missing ones are zero) -/
def cmnSet (veclen : Nat) (s : List UInt8) : Option (List FloatLit) :=
  let vs := cmnVals veclen s
  if vs.all f32Finite then some (vs ++ List.replicate (veclen - vs.length) FloatLit.zero) else none

end SSVerif.TextIn
