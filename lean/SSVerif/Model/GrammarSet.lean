/-! M12 — the grammar-setting calls of `src/decoder.c`: return value and which grammar is active afterwards.

  * `decoder_set_fsg`            decoder.c:608-619   (`setFsg`)
  * `decoder_set_jsgf_file`      decoder.c:621-661   (`setJsgf`)
  * `decoder_set_jsgf_string`    decoder.c:663-703   (`setJsgf`)
  * `decoder_set_align_text`     decoder.c:705-754   (`setAlignText`: `string_trim`, the two `nextword` loops,
                                                      `fsg_model_init` / `fsg_model_trans_add`, `decoder_set_fsg`)
  * `string_trim`, `nextword`    strfuncs.c:84-141

  The decoder state kept here is only `d->search` seen as "the grammar the next utterance is decoded against"
  (`none` = no search module).  `fsg_search_init` and the JSGF front end are parameters (their outcome decides the
  branch taken; what they compute is C05's / C13's / C02's subject).  Core Lean only. -/
namespace SSVerif.GrammarSet

abbrev Word := List UInt8

/-- the delimiter set `" \t\n\r"` handed to `nextword` -/
def isDelim (b : UInt8) : Bool := b == 32 || b == 9 || b == 10 || b == 13

/-- the set `" \t\n\r\f"` of `string_trim` -/
def isTrim (b : UInt8) : Bool := isDelim b || b == 12

/-- `string_trim(s, STRING_BOTH)` (strfuncs.c:84-108) -/
def stringTrim (s : List UInt8) : List UInt8 :=
  ((s.dropWhile isTrim).reverse.dropWhile isTrim).reverse

/-- the words the loop `while ((n = nextword(ptr, " \t\n\r", &word, &delimfound)) >= 0) { …; ptr = word + n;
    *ptr = delimfound; }` visits: maximal runs of non-delimiters, in order (`cur` = the run being read, reversed) -/
def splitAux : List UInt8 → Word → List Word
  | [], cur => if cur.isEmpty then [] else [cur.reverse]
  | b :: r, cur =>
    if isDelim b then (if cur.isEmpty then splitAux r [] else cur.reverse :: splitAux r [])
    else splitAux r (b :: cur)

def splitWords (s : List UInt8) : List Word := splitAux s []

/-- a word FSG as `fsg_model_init` + `fsg_model_trans_add` build it: arcs `(from, to, word)` in insertion order -/
structure Fsg where
  nstate : Nat
  start : Nat
  final : Nat
  arcs : List (Nat × Nat × Word)
deriving DecidableEq, Repr

/-- first pass (decoder.c:714-727): count the words; the first out-of-dictionary word ends the call with -1 -/
def firstPass (known : Word → Bool) : List Word → Nat → Option Nat
  | [], n => some n
  | w :: r, n => if known w then firstPass known r (n + 1) else none

/-- second pass (decoder.c:732-746): one arc `nwords → nwords+1` per word; the (repeated) dictionary test returns -1
    from inside the loop as well -/
def secondPass (known : Word → Bool) : List Word → Nat → List (Nat × Nat × Word) → Option (Nat × List (Nat × Nat × Word))
  | [], n, acc => some (n, acc.reverse)
  | w :: r, n, acc => if known w then secondPass known r (n + 1) ((n, n + 1, w) :: acc) else none

/-- `d->search`: the grammar the next utterance is decoded against -/
structure Dec where
  active : Option Fsg
deriving DecidableEq, Repr

/-- `decoder_set_fsg` (decoder.c:608-619): only when `fsg_search_init` yields a search module is the old one freed
    and replaced -/
def setFsg (initOk : Fsg → Bool) (d : Dec) (g : Fsg) : Int × Dec :=
  if initOk g then (0, { active := some g }) else (-1, d)

/-- `decoder_set_align_text` (decoder.c:705-754) -/
def setAlignText (known : Word → Bool) (initOk : Fsg → Bool) (d : Dec) (text : List UInt8) : Int × Dec :=
  let ws := splitWords (stringTrim text)
  match firstPass known ws 0 with
  | none => (-1, d)
  | some nwords =>
    match secondPass known ws 0 [] with
    | none => (-1, d)
    | some (n, arcs) => setFsg initOk d { nstate := nwords + 1, start := 0, final := n, arcs := arcs }

/-- `decoder_set_jsgf_string` / `decoder_set_jsgf_file` (decoder.c:621-703): `parsed` = `jsgf_parse_*` returned a
    grammar, `ruleFound` = the configured toprule exists (or, toprule unset, a public rule exists), `built` = what
    `jsgf_build_fsg` returned -/
def setJsgf (initOk : Fsg → Bool) (d : Dec) (parsed ruleFound : Bool) (built : Option Fsg) : Int × Dec :=
  if !parsed then (-1, d)
  else if !ruleFound then (-1, d)
  else match built with
    | none => (-1, d)
    | some g => setFsg initOk d g

inductive Call
  | align (text : List UInt8)
  | fsg (g : Fsg)
  | jsgf (parsed ruleFound : Bool) (built : Option Fsg)

def call (known : Word → Bool) (initOk : Fsg → Bool) (d : Dec) : Call → Int × Dec
  | .align t => setAlignText known initOk d t
  | .fsg g => setFsg initOk d g
  | .jsgf p r b => setJsgf initOk d p r b

/-- a session: the return values of the calls and the decoder state after the last one -/
def run (known : Word → Bool) (initOk : Fsg → Bool) : Dec → List Call → List Int × Dec
  | d, [] => ([], d)
  | d, c :: cs =>
    let (rv, d') := call known initOk d c
    let (rvs, d'') := run known initOk d' cs
    (rv :: rvs, d'')

/-- the word chain of a text: states `k … k + |ws|`, one arc per word -/
def chainArcs : List Word → Nat → List (Nat × Nat × Word)
  | [], _ => []
  | w :: r, k => (k, k + 1, w) :: chainArcs r (k + 1)

def chain (ws : List Word) : Fsg :=
  { nstate := ws.length + 1, start := 0, final := ws.length, arcs := chainArcs ws 0 }

/-- label sequences of paths of an FSG without null arcs -/
inductive Path (g : Fsg) : Nat → List Word → Nat → Prop
  | nil (q : Nat) : Path g q [] q
  | cons {p q r : Nat} {w : Word} {s : List Word} : (p, q, w) ∈ g.arcs → Path g q s r → Path g p (w :: s) r

def Accepts (g : Fsg) (s : List Word) : Prop := Path g g.start s g.final

end SSVerif.GrammarSet
