import SSVerif.Model.TextIn
/-!
# M17b — the sub-vector specification parser `parse_subvecs` (`src/feat.c:181-293`) and the
acceptance test of `feat_set_subvecs` (`src/feat.c:305-358`) over raw bytes (C10)

`svspec` is a configuration string (`"0-12/13-25/26-38"`, `"1-12/14-25/0,13,26/27-38"`): sub-vectors
separated by `/`, each a `,`-separated list of dimensions `n` or ranges `n-n2`.  The C code walks
the NUL-terminated string with `sscanf(strp, "%d%n", &n, &l)` and `strp += l`, tests `*strp`
against `-`, `,`, `/`, NUL, expands every range and refuses a dimension that is already in the
current sub-vector.  The model works on the bytes up to the terminator (`List UInt8`, no NUL
inside): "the pointer" is the remaining suffix, so it cannot be moved past the terminator by
construction, and every function below returns a suffix of its argument
(`scanfInt_suffix`, `svItem_suffix`, `svVec_suffix` in `Proofs/TextSvspec.lean`).

Modelled behaviour is that of the code with `fixes/D90` (every syntax error is an error *return*;
the pinned tree calls `E_FATAL` = `exit` at exactly these places — recorded finding class
`config-use:exit:fatal:feat.c`), `D95` and `D95b` (`feat_set_subvecs` refuses an index outside
the feature vector; the pinned tree accepts it and `feat_subvec_project` reads outside the frame).
Core Lean only.
-/
namespace SSVerif.TextIn

/-- optional sign of a number: `(negative, rest)` -/
def signSplit : List UInt8 → Bool × List UInt8
  | 45 :: r => (true, r)
  | 43 :: r => (false, r)
  | s => (false, s)

/-- the digits of a `%d` conversion: at least one, all of them consumed; the value goes through
`strtol` (clamped to `long`) and is stored in an `int` (truncated) -/
def scanDigits (neg : Bool) (s : List UInt8) : Option (Int × List UInt8) :=
  match s with
  | b :: _ =>
    if isDigit b then
      some (wrap32 (satLong (if neg then -((digitsVal 0 s).1 : Int) else ((digitsVal 0 s).1 : Int))), (digitsVal 0 s).2)
    else none
  | [] => none

/-- `sscanf(s, "%d%n", &n, &l) == 1` of glibc: skip `isspace` bytes, optional sign, at least one
digit (all following digits are consumed); the number goes through `strtol` (clamped to `long`)
and is stored in an `int` (truncated).  Returns the stored value and the rest `s + l`.
`none`: the call returns 0 or `EOF` (no digit). -/
def scanfInt (s : List UInt8) : Option (Int × List UInt8) :=
  let p := signSplit (dropSpaceLibc s)
  scanDigits p.1 p.2

inductive SvErr where
  /-- "Couldn't read int32" (first number of an item, or the number after `-`) -/
  | noInt
  /-- "Bad subrange spec": `n < 0` or `n > n2` -/
  | badRange
  /-- "Duplicate dimension" inside one sub-vector -/
  | dup
  /-- "Bad delimiter": an item is followed by something else than `,`, `/` or the end -/
  | badDelim
deriving Repr, DecidableEq, Inhabited

/-- `for (; n <= n2; n++) { if (n ∈ dimlist) error; dimlist = add(dimlist, n); }` with
`cnt = n2 - n + 1` iterations left; the list is kept in input order (the C list is reversed and
turned round again when it is copied to the array) -/
def addRange (dims : List Nat) (n : Nat) : Nat → Option (List Nat)
  | 0 => some dims
  | cnt + 1 => if dims.contains n then none else addRange (dims ++ [n]) (n + 1) cnt

/-- one item `n` or `n-n2` at the head of `s` (feat.c:198-231): the dimensions it denotes are
added to `dims`; returns the new list and the rest of the string -/
def svItem (dims : List Nat) (s : List UInt8) : Except SvErr (List Nat × List UInt8) :=
  match scanfInt s with
  | none => .error .noInt
  | some (n, r) =>
    let second : Except SvErr (Int × List UInt8) :=
      match r with
      | 45 :: r' =>
        match scanfInt r' with
        | none => .error .noInt
        | some (n2, r'') => .ok (n2, r'')
      | _ => .ok (n, r)
    match second with
    | .error e => .error e
    | .ok (n2, r2) =>
      if n < 0 ∨ n > n2 then .error .badRange
      else
        match addRange dims n.toNat (n2 - n + 1).toNat with
        | none => .error .dup
        | some d => .ok (d, r2)

/-- fuel-indexed inner loop (feat.c:197-246): items separated by `,` until `/` or the end.  Every
item consumes at least one byte, so `fuel = length + 1` is never exhausted (`svVec_fuel`). -/
def svVecF : Nat → List Nat → List UInt8 → Except SvErr (List Nat × List UInt8)
  | 0, _, _ => .error .badDelim
  | fuel + 1, dims, s =>
    match svItem dims s with
    | .error e => .error e
    | .ok (d, r) =>
      match r with
      | [] => .ok (d, [])
      | 47 :: _ => .ok (d, r)
      | 44 :: r' => svVecF fuel d r'
      | _ => .error .badDelim

/-- one sub-vector: the rest is `[]` or starts with `/` -/
def svVec (s : List UInt8) : Except SvErr (List Nat × List UInt8) := svVecF (s.length + 1) [] s

/-- fuel-indexed outer loop (feat.c:194-256) -/
def svAllF : Nat → List (List Nat) → List UInt8 → Except SvErr (List (List Nat))
  | 0, _, _ => .error .badDelim
  | fuel + 1, acc, s =>
    match svVec s with
    | .error e => .error e
    | .ok (d, r) =>
      match r with
      | [] => .ok (acc ++ [d])
      | _ :: r' => svAllF fuel (acc ++ [d]) r'   -- `assert(*strp == '/'); strp++;`

/-- `parse_subvecs(str)` on the bytes of `str` (up to its terminator): the sub-vectors in input
order, each with its dimensions in input order -/
def parseSubvecs (s : List UInt8) : Except SvErr (List (List Nat)) := svAllF (s.length + 1) [] s

inductive SvSetErr where
  /-- "Subvector specifications require single-stream features" -/
  | multiStream
  /-- a listed dimension is not an index of the feature vector (D95b) -/
  | dimOutside
  /-- "Total dimensionality of subvector specification > feature dimensionality" -/
  | tooMany
deriving Repr, DecidableEq, Inhabited

/-- `feat_set_subvecs(fcb, subvecs)` for a feature with `nStream` streams and `dim` output
dimensions: `.ok (n_sv, sv_dim)` -/
def svSet (nStream dim : Nat) (vs : List (List Nat)) : Except SvSetErr (Nat × Nat) :=
  if nStream != 1 then .error .multiStream
  else if vs.any (fun v => v.any (fun d => decide (dim ≤ d))) then .error .dimOutside
  else if dim < (vs.map List.length).sum then .error .tooMany
  else .ok (vs.length, (vs.map List.length).sum)

/-- `feat_subvec_project` on one frame: the listed components, in order — every read with its
bound proof -/
def svProject (frame : Array Int) (vs : List (List Nat))
    (h : ∀ v ∈ vs, ∀ d ∈ v, d < frame.size) : List Int :=
  vs.attach.flatMap fun ⟨v, hv⟩ => v.attach.map fun ⟨d, hd⟩ => frame[d]'(h v hv d hd)

end SSVerif.TextIn
