import SSVerif.Model.Lattice
/-!
# M12 (cache part) — the lattice cache under arbitrary call histories

`Cache.request` (Model/Lattice) is one `decoder_lattice` call.  Here the *session* around it: the public
calls of `decoder.h` as the cache sees them (`Call`), the search frame count they move (`Sess.frame`,
`fsg_search_t.frame`), and which API name belongs to which kind (`Call.ofApi`, evaluated by the driver on
the names of the calls the harness really made).

Code modelled: `fsg_search_lattice` l.1367-1375 (reuse test `search->dag->n_frames == fsgs->frame`),
`fsg_search_step` (`++fsgs->frame`), `fsg_search_start` (`frame = 0`), `decoder_start_utt` (decoder.c l.939-943,
residual lattice released), `decoder_set_fsg` & co. (new search object, no lattice), and — the point of the
`other` kind — that NO other public call writes `fsgs->frame` or `search->dag`: in particular
`decoder_add_word(.., update = TRUE)` → `fsg_search_reinit` rebuilds the lextree and empties the history
but leaves `frame` and the cached lattice alone.

Core Lean only (linked into the driver).
-/
namespace SSVerif.Lattice

/-- the public calls as the lattice cache sees them -/
inductive Call
  /-- `decoder_lattice`; `buildable`: construction from the current history would succeed (only read on a miss) -/
  | lattice (buildable : Bool)
  /-- `decoder_process_int16/_float32`, `decoder_end_utt`: the search advanced by `frames` frames (possibly 0) -/
  | audio (frames : Nat)
  /-- `decoder_start_utt` -/
  | startUtt
  /-- `decoder_set_fsg`, `_set_jsgf_*`, `_set_align_text`, `decoder_reinit*`: the search object is replaced -/
  | newSearch
  /-- every other public call -/
  | other
  /-- a grammar-setting call that was REFUSED (returned −1): `decoder_set_fsg` (decoder.c l.609-620) calls
  `fsg_search_init` first and returns −1 when it fails (a word of the grammar is not in the dictionary) BEFORE it
  touches `d->search`; `decoder_set_jsgf_file/_string` return −1 before reaching it when the JSGF does not parse, has no
  public rule or cannot be compiled; `decoder_set_align_text` returns −1 on an unknown word.  The old search object —
  its frame count, hypothesis and cached lattice — stays in place -/
  | refused
deriving DecidableEq, Repr

/-- decoder state reduced to what the cache clause reads -/
structure Sess where
  cache : Cache
  /-- `fsg_search_t.frame` (the C value −1 of a search that never started is represented by 0: nothing can be
  built before `decoder_start_utt`, which sets 0) -/
  frame : Nat

/-- a new decoder -/
def Sess.init : Sess := { cache := { dag := none, nextId := 0 }, frame := 0 }

/-- one call; the second component is the object handed out when the call is a lattice request -/
def Sess.step (s : Sess) : Call → Sess × Option (Option Nat)
  | .lattice b => ({ s with cache := (s.cache.request s.frame b).1 }, some (s.cache.request s.frame b).2)
  | .audio k => ({ s with frame := s.frame + k }, none)
  | .startUtt => ({ cache := s.cache.startUtt, frame := 0 }, none)
  | .newSearch => ({ cache := s.cache.startUtt, frame := 0 }, none)
  | .other => (s, none)
  | .refused => (s, none)

/-- state after a list of calls -/
def Sess.after (s : Sess) : List Call → Sess
  | [] => s
  | c :: cs => Sess.after (s.step c).1 cs

/-- objects handed out by the lattice requests of a call list, in order -/
def Sess.outputs (s : Sess) : List Call → List (Option Nat)
  | [] => []
  | c :: cs =>
    match (s.step c).2 with
    | some r => r :: Sess.outputs (s.step c).1 cs
    | none => Sess.outputs (s.step c).1 cs

/-- "no new audio, no restart": every call except audio that advanced the search, `decoder_start_utt` and a
replacement of the search.  (An audio call that searched no frame — `decoder_end_utt` with nothing left to
flush, a block too short for a frame — is quiet.) -/
def Call.quiet : Call → Bool
  | .lattice _ => true
  | .audio k => k == 0
  | .startUtt => false
  | .newSearch => false
  | .other => true
  | .refused => true

/-- the public calls that neither feed audio nor start an utterance nor replace the search: the cache clause
quantifies over all of them.  (`decoder_free_not_last`: `decoder_free` of a reference that is not the last.) -/
def otherApi : List String :=
  ["decoder_hyp", "decoder_prob", "decoder_seg_iter", "decoder_nbest", "decoder_alignment", "decoder_result_json",
   "decoder_n_frames", "decoder_get_cmn", "decoder_get_cmn_update", "decoder_set_cmn", "decoder_config",
   "decoder_logmath", "decoder_fe", "decoder_feat", "decoder_utt_time", "decoder_all_time", "decoder_retain",
   "decoder_free_not_last", "decoder_lookup_word", "decoder_add_word_noupdate", "decoder_add_word_update",
   "lattice_bestpath", "lattice_posterior"]

def audioApi : List String := ["decoder_process_int16", "decoder_process_float32", "decoder_end_utt"]

def newSearchApi : List String :=
  ["decoder_set_fsg", "decoder_set_jsgf_file", "decoder_set_jsgf_string", "decoder_set_align_text",
   "decoder_reinit", "decoder_reinit_feat"]

/-- the grammar-setting calls when they return an error (the harness appends `_refused` to the name of a call that
returned −1; an accepted one keeps its name and is a `newSearch`).  `decoder_reinit*` are not listed: a failed
re-initialisation does not promise to keep anything. -/
def refusedApi : List String :=
  ["decoder_set_fsg_refused", "decoder_set_jsgf_file_refused", "decoder_set_jsgf_string_refused",
   "decoder_set_align_text_refused"]

/-- kind of a public call by its name; `arg`: frames searched (audio), returned non-`NULL` (lattice) -/
def Call.ofApi (name : String) (arg : Nat) : Option Call :=
  if name = "decoder_lattice" then some (.lattice (arg != 0))
  else if audioApi.contains name then some (.audio arg)
  else if name = "decoder_start_utt" then some .startUtt
  else if newSearchApi.contains name then some .newSearch
  else if otherApi.contains name then some .other
  else if refusedApi.contains name then some .refused
  else none

/-- for every lattice request of a call list: were all calls since the previous request quiet?
(`true` for the first request as well when only quiet calls precede it) — the hypothesis of
`C11_cache_same_object_after_calls`, evaluated by the driver on the harness's call trace -/
def quietFlags : Bool → List Call → List Bool
  | _, [] => []
  | q, .lattice _ :: cs => q :: quietFlags true cs
  | q, c :: cs => quietFlags (q && c.quiet) cs

end SSVerif.Lattice
