/-!
# M4 — index model of the front-end sample bookkeeping (`fe_process`, `fe_end`)

Mirrors `src/fe_interface.c` (`output_frame_count` 379-391, `overflow_append` 393-431,
`read_overflow_frame` 433-469, `create_overflow_frame` 471-514, `append_overflow_frame` 516-575,
`fe_process` 577-669, `fe_end` 693-712, `fe_start` 351-360) and `src/fe_sigproc.c`
(`fe_spch_to_frame` 293-319, `fe_read_frame_*` 321-376, `fe_shift_frame_*` 378-444).

Samples are elements of an arbitrary type `α` (the model is polymorphic, so it cannot inspect
them): the model tracks *which* samples reach *which* analysis window.  Everything numeric that
happens to a window afterwards (pre-emphasis with the `prior` sample, Hamming window, FFT, mel
filters, noise tracking, DCT, lifter) is the opaque frame function of the real code; the model's
output is the list of `(window, prior)` arguments it is applied to.

Every read of the caller's buffer and of the overflow buffer goes through `rd`, which returns
`none` outside the valid range.  The buffer of a call is exactly the sample list handed to *that*
call (`*inout_spch[0 .. *inout_nsamps)`), so the backward read of `create_overflow_frame`
(`*spch - (frame_size - frame_shift)`) and the re-read from `orig_spch` in `append_overflow_frame`
must stay inside it.  `ovf` holds only the *valid* prefix of `fe->overflow_samps`; reading stale
contents is `none` as well.

`Cfg.fixed = false` is the pinned tree; `Cfg.fixed = true` is the tree with
`fixes/D25-fe-full-frame-in-overflow.patch` (the two `n_overflow` caps are one smaller, so a call
never leaves a *complete* frame in the overflow buffer).  Core Lean only.
-/
namespace SSVerif.FeBuf

/-- one invocation of the opaque frame function: the samples of the analysis window
(`fe->spch[0..len)`) and the pre-emphasis prior (`none` = the `0` set by `fe_start`) -/
structure Frame (α : Type) where
  win : List α
  prior : Option α
  deriving DecidableEq, Repr

structure Cfg where
  /-- `fe->frame_size` -/
  size : Nat
  /-- `fe->frame_shift` -/
  shift : Nat
  /-- `true`: with the D25 repair -/
  fixed : Bool
  deriving DecidableEq, Repr

/-- 0 on the pinned tree, 1 with the D25 repair: how much smaller the overflow caps are -/
def Cfg.slack (c : Cfg) : Nat := if c.fixed then 1 else 0

/-- what `fe_t` remembers between calls, plus the frames emitted so far -/
structure Fe (α : Type) where
  /-- valid prefix of `fe->overflow_samps` -/
  ovf : List α
  /-- `fe->num_overflow_samps` (goes non-positive inside `fe_process`) -/
  nOvf : Int
  /-- valid prefix of `fe->spch` -/
  spch : List α
  /-- `fe->pre_emphasis_prior` -/
  prior : Option α
  /-- arguments of every `fe_spch_to_frame`+`fe_write_frame` so far -/
  out : List (Frame α)
  deriving DecidableEq, Repr

variable {α : Type}

/-- `fe_start` -/
def start : Fe α := { ovf := [], nOvf := 0, spch := [], prior := none, out := [] }

/-- bounds-checked read of `n` samples at offset `a` -/
def rd (buf : List α) (a n : Nat) : Option (List α) :=
  if a + n ≤ buf.length then some ((buf.drop a).take n) else none

/-- `fe_spch_to_frame(fe, len)`: hand `spch[0..len)` and the prior to the frame function, then
`prior := spch[frame_shift-1]` (or `spch[len-1]` for a short frame) -/
def spchToFrame (c : Cfg) (fe : Fe α) (len : Nat) : Fe α :=
  { fe with
    out := fe.out ++ [{ win := fe.spch.take len, prior := fe.prior }]
    prior := if c.shift ≤ len then fe.spch[c.shift - 1]? else fe.spch[len - 1]? }

/-- `fe_read_frame_{int16,float32}(fe, in, len)` where `xs = in[0 .. min len frame_size)` -/
def readFrame (c : Cfg) (fe : Fe α) (xs : List α) : Fe α :=
  spchToFrame c { fe with spch := xs } xs.length

/-- `fe_shift_frame_{int16,float32}(fe, in, len)` where `xs = in[0 .. min len frame_shift)` -/
def shiftFrame (c : Cfg) (fe : Fe α) (xs : List α) : Fe α :=
  let offset := c.size - c.shift
  spchToFrame c { fe with spch := (fe.spch.drop c.shift).take offset ++ xs } (offset + xs.length)

/-- `output_frame_count` (the `buf_cep == NULL` path of `fe_process`) -/
def outputFrameCount (c : Cfg) (fe : Fe α) (nsamps : Nat) : Nat :=
  let nfull := if (nsamps : Int) + fe.nOvf < c.size then 0
               else 1 + ((nsamps : Int) + fe.nOvf - c.size).toNat / c.shift
  if nfull * c.shift + c.size > nsamps then nfull + 1 else nfull

/-- `overflow_append` -/
def overflowAppend (fe : Fe α) (buf : List α) : Fe α :=
  if buf.length = 0 then fe
  else { fe with ovf := fe.ovf.take fe.nOvf.toNat ++ buf, nOvf := fe.nOvf + buf.length }

/-- `read_overflow_frame`: complete the overflow frame from the start of the buffer, read it;
returns the number of input samples used -/
def readOverflowFrame (c : Cfg) (fe : Fe α) (buf : List α) : Option (Fe α × Nat) :=
  let offset : Int := c.size - fe.nOvf
  if offset < 0 ∨ fe.nOvf < 0 then none else
  (rd fe.ovf 0 fe.nOvf.toNat).bind fun old =>
  (rd buf 0 offset.toNat).bind fun xs =>
  let ovf := old ++ xs
  (rd ovf 0 (c.size)).map fun w =>
  let fe := readFrame c { fe with ovf := ovf } w
  ({ fe with nOvf := fe.nOvf - c.shift }, offset.toNat)

/-- the `for (i = 1; i < frame_count; ++i)` loop of `fe_process`; `p` = samples of `buf` used -/
def shiftLoop (c : Cfg) (buf : List α) : Nat → Fe α → Nat → Option (Fe α × Nat)
  | 0, fe, p => some (fe, p)
  | n + 1, fe, p =>
    (rd buf p c.shift).bind fun xs =>
    let fe := shiftFrame c fe xs
    let fe := { fe with nOvf := if fe.nOvf > 0 then fe.nOvf - c.shift else fe.nOvf }
    shiftLoop c buf n fe (p + c.shift)

/-- `create_overflow_frame`: the next frame starts `frame_size - frame_shift` samples *before*
the input pointer -/
def createOverflowFrame (c : Cfg) (fe : Fe α) (buf : List α) (p : Nat) : Option (Fe α × Nat) :=
  let nov := min (c.shift - c.slack) (buf.length - p)
  let no := c.size - c.shift + nov
  if no > 0 then
    if p < c.size - c.shift then none
    else (rd buf (p - (c.size - c.shift)) no).map fun xs => ({ fe with ovf := xs, nOvf := no }, p + nov)
  else some ({ fe with ovf := [], nOvf := 0 }, p)

/-- `append_overflow_frame`: keep the last `nOvf` samples of the old overflow data, then append
from the *original* start of the buffer -/
def appendOverflowFrame (c : Cfg) (fe : Fe α) (buf : List α) (p : Nat) (origN : Int) :
    Option (Fe α × Nat) :=
  let cap : Int := c.size - fe.nOvf - c.slack
  if origN < fe.nOvf ∨ cap < 0 then none else
  (rd fe.ovf (origN - fe.nOvf).toNat fe.nOvf.toNat).bind fun moved =>
  let nov := min buf.length cap.toNat
  (rd buf 0 nov).map fun xs =>
  ({ fe with ovf := moved ++ xs, nOvf := fe.nOvf + nov }, if nov > p then nov else p)

/-- `fe_process` with an output buffer of `nframes` rows on the buffer `buf`;
returns the new state, the number of samples consumed and the number of frames written -/
def process (c : Cfg) (fe : Fe α) (buf : List α) (nframes : Nat) : Option (Fe α × Nat × Nat) :=
  if (buf.length : Int) + fe.nOvf < c.size then some (overflowAppend fe buf, buf.length, 0)
  else if nframes < 1 then some (fe, 0, 0)
  else
    let origN := fe.nOvf
    let fc := min (1 + ((buf.length : Int) + fe.nOvf - c.size).toNat / c.shift) nframes
    (if fe.nOvf ≠ 0 then readOverflowFrame c fe buf
     else (rd buf 0 (c.size)).map fun w => (readFrame c fe w, c.size)).bind fun (fe1, p1) =>
    (shiftLoop c buf (fc - 1) fe1 p1).bind fun (fe2, p2) =>
    (if fe2.nOvf ≤ 0 then createOverflowFrame c fe2 buf p2
     else appendOverflowFrame c fe2 buf p2 origN).map fun (fe3, p3) => (fe3, p3, fc)

/-- `fe_end(fe, buf_cep, nframes)` with `buf_cep != NULL`; returns the number of frames written -/
def finish (c : Cfg) (fe : Fe α) (nframes : Nat) : Option (Fe α × Nat) :=
  if nframes > 0 ∧ fe.nOvf > 0 then
    (rd fe.ovf 0 (min fe.nOvf.toNat c.size)).map fun w =>
      ({ readFrame c fe w with ovf := [], nOvf := 0 }, 1)
  else some ({ fe with ovf := [], nOvf := 0 }, 0)

/-! ## the caller -/

/-- what the harness logs per `fe_process` call -/
structure CallLog where
  /-- `fe_process(fe, NULL, &n, NULL, 0)` just before the call -/
  dry : Nat
  limit : Nat
  consumed : Nat
  frames : Nat
  /-- `num_overflow_samps` after the call -/
  novf : Int
  deriving DecidableEq, Repr

/-- calls made for one chunk: one call per element of `limits` (output space of that call) on
whatever is left of the chunk (possibly nothing), then, if samples are still left, one call with
the room `output_frame_count` asks for (as `acmod_process_full_*` does).  Returns the state, the
call log and the samples still not consumed. -/
def feedChunk (c : Cfg) (fe : Fe α) (buf : List α) : List Nat → Option (Fe α × List CallLog × List α)
  | [] =>
    if buf.length = 0 then some (fe, [], buf) else
    let d := outputFrameCount c fe buf.length
    (process c fe buf d).map fun (fe', used, nfr) =>
      (fe', [{ dry := d, limit := d, consumed := used, frames := nfr, novf := fe'.nOvf }], buf.drop used)
  | l :: ls =>
    (process c fe buf l).bind fun (fe', used, nfr) =>
    (feedChunk c fe' (buf.drop used) ls).map fun (fe'', logs, left) =>
      (fe'', { dry := outputFrameCount c fe buf.length, limit := l, consumed := used, frames := nfr,
               novf := fe'.nOvf } :: logs, left)

structure RunResult (α : Type) where
  fe : Fe α
  calls : List CallLog
  /-- samples the caller handed over that were never consumed -/
  left : Nat

/-- feed the chunks one after the other -/
def feedAll (c : Cfg) : Fe α → List (List α × List Nat) → Option (RunResult α)
  | fe, [] => some { fe := fe, calls := [], left := 0 }
  | fe, (buf, limits) :: rest =>
    (feedChunk c fe buf limits).bind fun (fe', logs, left) =>
    (feedAll c fe' rest).map fun r => { r with calls := logs ++ r.calls, left := left.length + r.left }

/-- a whole utterance: `fe_start`, the chunks, `fe_end` with room for `endRoom` frames -/
def run (c : Cfg) (chunks : List (List α × List Nat)) (endRoom : Nat) : Option (RunResult α × Nat) :=
  (feedAll c start chunks).bind fun r =>
  (finish c r.fe endRoom).map fun (fe', n) => ({ r with fe := fe' }, n)

/-! ## the canonical framing -/

/-- number of complete windows in `N` samples -/
def fullCount (size shift N : Nat) : Nat := if N < size then 0 else 1 + (N - size) / shift

/-- the `k`-th complete window: samples `[k·shift, k·shift+size)`, prior `k·shift − 1` -/
def fullFrame (size shift k : Nat) : Frame Nat :=
  { win := List.range' (k * shift) size, prior := if k = 0 then none else some (k * shift - 1) }

/-- the frames of a signal of `N` samples: all complete windows, then the remaining samples
`[K·shift, N)` (if any) as one short window -/
def canonical (size shift N : Nat) : List (Frame Nat) :=
  let K := fullCount size shift N
  (List.range K).map (fullFrame size shift) ++
    (if K * shift < N then
      [{ win := List.range' (K * shift) (N - K * shift), prior := if K = 0 then none else some (K * shift - 1) }]
     else [])

/-- split `[start, …)` into consecutive chunks of the given lengths, each with its limit list -/
def chunksFrom : Nat → List (Nat × List Nat) → List (List Nat × List Nat)
  | _, [] => []
  | s, (n, ls) :: rest => (List.range' s n, ls) :: chunksFrom (s + n) rest

end SSVerif.FeBuf
