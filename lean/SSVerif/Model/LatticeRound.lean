import SSVerif.Model.Lattice
/-!
# M12b — executable side of the C12 rounding-bound theorems (core Lean only)

* `alphaGen`/`betaGen`/`normGen`/`bwdGen`: the forward pass of `lattice_bestpath` (alpha part), the backward
  pass of `lattice_posterior` and the two totals, written once over an arbitrary carrier `R` with an
  "addition" (what `logmath_add` stands for), a "multiplication" (what adding a log score stands for), a
  zero and a one.  `alphaInt`/`betaInt`/`normInt`/`bwdInt` are the instance `(logmath_add, +, log-zero, 0)`
  over `Int` (by `rfl`: `alphaInt_eq_gen` …); the instance `(+, *, 0, 1)` over `Nat` is the exact pass.
* `bwdInt`: the backward total in integers (the C code has none: log-sum over the exits of the start node
  of beta plus link score).
* Boolean checkers evaluated by the driver on every dumped lattice: `roundHypsB` (no path score at or below
  log-zero, path scores plus `c` per log-addition below `hi`; certified by node potentials `Pots`, which the
  driver computes with `potsOf` and the checker verifies), `budOKB` (node budgets `ea`, `eb`, totals `EN`,
  `EW` satisfy the budget conditions; the driver computes them with `budsOf`).  Soundness:
  `Proofs/LatticePostCheck.lean`.
-/
namespace SSVerif.Lattice

/-! ### the passes over an arbitrary carrier -/

structure GenParams (R : Type) where
  add : R → R → R
  mul : R → R → R
  zero : R
  one : R
  w : Link → R

variable {R : Type}

def alphaGenInit (Q : GenParams R) (L : Lat) : Link → R :=
  fun l => if l ∈ L.links ∧ l.src = L.start then Q.one else Q.zero

def alphaGenVisit (Q : GenParams R) (L : Lat) (al : Link → R) (l : Link) : Link → R :=
  let a := Q.mul (al l) (Q.w l)
  (exits L l.dst).foldl (fun al x => upd al x (Q.add (al x) a)) (upd al l a)

def alphaGen (Q : GenParams R) (L : Lat) : Link → R :=
  (traverseEdges L).foldl (alphaGenVisit Q L) (alphaGenInit Q L)

def normGen (Q : GenParams R) (al : Link → R) (ents : List Link) : R :=
  ents.foldl (fun n x => Q.add n (al x)) Q.zero

def betaGenVisit (Q : GenParams R) (L : Lat) (be : Link → R) (l : Link) : Link → R :=
  if l.dst = L.final then upd be l Q.one
  else upd be l ((exits L l.dst).foldl (fun b x => Q.add b (Q.mul (be x) (Q.w x))) Q.zero)

def betaGen (Q : GenParams R) (L : Lat) : Link → R :=
  (traverseEdges L).reverse.foldl (betaGenVisit Q L) (fun _ => Q.zero)

def bwdGen (Q : GenParams R) (L : Lat) (be : Link → R) : R :=
  (exits L L.start).foldl (fun b x => Q.add b (Q.mul (be x) (Q.w x))) Q.zero

/-! #### the same passes over association lists (what the driver executes: a function-valued state is rebuilt
by the compiled code at every lookup); `Proofs/LatticePostExact.lean` proves `alphaGenT_eq`, `betaGenT_eq` -/

abbrev GTab (R : Type) := List (Link × R)

def lookG (dflt : Link → R) : GTab R → Link → R
  | [], y => dflt y
  | (x, v) :: m, y => if y = x then v else lookG dflt m y

def alphaGenVisitT (Q : GenParams R) (L : Lat) (m : GTab R) (l : Link) : GTab R :=
  let a := Q.mul (lookG (alphaGenInit Q L) m l) (Q.w l)
  (exits L l.dst).foldl (fun m x => (x, Q.add (lookG (alphaGenInit Q L) m x) a) :: m) ((l, a) :: m)

def alphaGenT (Q : GenParams R) (L : Lat) : GTab R := (traverseEdges L).foldl (alphaGenVisitT Q L) []

def betaGenVisitT (Q : GenParams R) (L : Lat) (m : GTab R) (l : Link) : GTab R :=
  if l.dst = L.final then (l, Q.one) :: m
  else (l, (exits L l.dst).foldl (fun b x => Q.add b (Q.mul (lookG (fun _ => Q.zero) m x) (Q.w x))) Q.zero) :: m

def betaGenT (Q : GenParams R) (L : Lat) : GTab R := (traverseEdges L).reverse.foldl (betaGenVisitT Q L) []

/-- the integer passes are the instance `(logmath_add, +, log-zero, 0)` -/
def intGen (P : IntParams) : GenParams Int := { add := P.ladd, mul := (· + ·), zero := P.lz, one := 0, w := P.sc }

/-- the exact passes are the instance `(+, *, 0, 1)` over the natural numbers -/
def natGen (w : Link → Nat) : GenParams Nat := { add := (· + ·), mul := (· * ·), zero := 0, one := 1, w := w }

/-- the backward total in integers: log-sum over the exits of the start node of beta plus link score
(the C code does not compute it; the driver rebuilds it from the C betas with the model's `logAdd`) -/
def bwdInt (P : IntParams) (L : Lat) (be : Link → Int) : Int :=
  (exits L L.start).foldl (fun b x => P.ladd b (be x + P.sc x)) P.lz

theorem alphaInt_eq_gen (P : IntParams) (L : Lat) : alphaInt P L = alphaGen (intGen P) L := rfl
theorem betaInt_eq_gen (P : IntParams) (L : Lat) : betaInt P L = betaGen (intGen P) L := rfl
theorem normInt_eq_gen (P : IntParams) (al : Link → Int) (ents : List Link) :
    normInt P al ents = normGen (intGen P) al ents := rfl
theorem bwdInt_eq_gen (P : IntParams) (L : Lat) (be : Link → Int) : bwdInt P L be = bwdGen (intGen P) L be := rfl

/-! ### hypotheses of the rounding theorems as Boolean checks -/

/-- node potentials certifying bounds on path scores: `mLo v ≤` every score of a path start→`v` `≤ mHi v`,
`sLo v ≤` every score of a path `v`→end `≤ sHi v` -/
structure Pots where
  mLo : Nat → Int
  mHi : Nat → Int
  sLo : Nat → Int
  sHi : Nat → Int

/-- the potentials are consistent along every link, start and end carry the empty path, and every
potential is above `lz` / below `hi` with `c` per log-addition to spare (forward: one per link plus the
normaliser's; backward: `KB`, a bound of all backward budgets) -/
def roundHypsB (L : Lat) (sc : Link → Int) (lz c hi : Int) (KB : Nat) (p : Pots) : Bool :=
  let NW : Int := c * ((L.links.length + (entries L L.final).length : Nat) : Int)
  let NB : Int := c * (KB : Int)
  decide (p.mLo L.start ≤ 0) && decide (0 ≤ p.mHi L.start) && decide (p.sLo L.final ≤ 0) && decide (0 ≤ p.sHi L.final) &&
  decide (lz < p.mLo L.start) && decide (p.mHi L.start + NW < hi) && decide (lz < p.sLo L.final) && decide (p.sHi L.final + NB < hi) &&
  L.links.all fun l =>
    decide (p.mLo l.dst ≤ p.mLo l.src + sc l) && decide (p.mHi l.src + sc l ≤ p.mHi l.dst) &&
    decide (p.sLo l.src ≤ sc l + p.sLo l.dst) && decide (sc l + p.sHi l.dst ≤ p.sHi l.src) &&
    decide (lz < p.mLo l.dst) && decide (p.mHi l.dst + NW < hi) && decide (lz < p.sLo l.src) && decide (p.sHi l.src + NB < hi)

/-- potentials by relaxation along the traversal order (unverified: `roundHypsB` checks the result) -/
def potsOf (L : Lat) (sc : Link → Int) : Pots :=
  let big : Int := 4611686018427387904
  let n := L.n
  let ord := traverseEdges L
  let lo0 := (Array.replicate n big).setIfInBounds L.start 0
  let hi0 := (Array.replicate n (-big)).setIfInBounds L.start 0
  let (mlo, mhi) := ord.foldl (fun (st : Array Int × Array Int) l =>
    let a := st.1.getD l.src big + sc l
    let b := st.2.getD l.src (-big) + sc l
    (st.1.setIfInBounds l.dst (min (st.1.getD l.dst big) a), st.2.setIfInBounds l.dst (max (st.2.getD l.dst (-big)) b))) (lo0, hi0)
  let slo0 := (Array.replicate n big).setIfInBounds L.final 0
  let shi0 := (Array.replicate n (-big)).setIfInBounds L.final 0
  let (slo, shi) := ord.reverse.foldl (fun (st : Array Int × Array Int) l =>
    let a := sc l + st.1.getD l.dst big
    let b := sc l + st.2.getD l.dst (-big)
    (st.1.setIfInBounds l.src (min (st.1.getD l.src big) a), st.2.setIfInBounds l.src (max (st.2.getD l.src (-big)) b))) (slo0, shi0)
  { mLo := fun v => mlo.getD v big, mHi := fun v => mhi.getD v (-big), sLo := fun v => slo.getD v big, sHi := fun v => shi.getD v (-big) }

/-- node budgets: `ea v` covers every `ea` of the source of a link into `v` plus one per further entry,
`eb v` the same over the exits; `EN`/`EW` the same for the end node's entries / the start node's exits.
The budget of a link is `ea l.src` forward and `eb l.dst` backward. -/
def budOKB (L : Lat) (ea eb : Nat → Nat) (EN EW KB : Nat) : Bool :=
  decide (EW ≤ KB) && (L.links.all fun l => decide (eb l.dst ≤ KB)) &&
  (L.links.all fun l =>
    (let es := entries L l.src
     es.all fun x => decide (ea x.src + (es.length - 1) ≤ ea l.src)) &&
    (let xs := exits L l.dst
     xs.all fun x => decide (eb x.dst + (xs.length - 1) ≤ eb l.dst))) &&
  (let es := entries L L.final
   es.all fun x => decide (ea x.src + (es.length - 1) ≤ EN)) &&
  (let xs := exits L L.start
   xs.all fun x => decide (eb x.dst + (xs.length - 1) ≤ EW))

/-- node budgets by one sweep over the traversal order and one over its reverse (unverified: `budOKB`
checks the result): `(ea, eb, EN, EW)` with `ea v = max over entries x of ea x.src + (indegree − 1)` -/
def budsOf (L : Lat) : Array Nat × Array Nat × Nat × Nat :=
  let n := L.n
  let ord := traverseEdges L
  let val := fun (mx cnt : Array Nat) (v : Nat) => if cnt.getD v 0 = 0 then 0 else mx.getD v 0 + (cnt.getD v 0 - 1)
  let (amx, acnt) := ord.foldl (fun (st : Array Nat × Array Nat) l =>
    let e := val st.1 st.2 l.src
    (st.1.setIfInBounds l.dst (max (st.1.getD l.dst 0) e), st.2.setIfInBounds l.dst (st.2.getD l.dst 0 + 1)))
    (Array.replicate n 0, Array.replicate n 0)
  let (bmx, bcnt) := ord.reverse.foldl (fun (st : Array Nat × Array Nat) l =>
    let e := val st.1 st.2 l.dst
    (st.1.setIfInBounds l.src (max (st.1.getD l.src 0) e), st.2.setIfInBounds l.src (st.2.getD l.src 0 + 1)))
    (Array.replicate n 0, Array.replicate n 0)
  let ea := (Array.range n).map (val amx acnt)
  let eb := (Array.range n).map (val bmx bcnt)
  (ea, eb, ea.getD L.final 0, eb.getD L.start 0)

/-- hypothesis of `C12_astar_first_is_max` as a Boolean check: no remaining score underflows `WORST_SCORE` -/
def remOKB (L : Lat) : Bool :=
  let T := remLevel L (L.nframes + 2)          -- computed once (`remTable L v` would recompute it per node)
  (List.range L.n).all fun v => decide (T.getD v worstScore > worstScore)

end SSVerif.Lattice
