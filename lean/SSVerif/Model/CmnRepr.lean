import SSVerif.Generated.RangeConsts
/-! C18 (CMN state import/export): exact-rational state machine of the cepstral-mean-normalisation accumulators of
`src/cmn.c` (`cmn_init`, `cmn_set_repr`, batch `cmn()` with `varnorm = 0`) and `src/cmn_live.c` (`cmn_live`,
`cmn_live_shiftwin`, `cmn_live_update`).

What is modelled: WHICH accumulators (`cmn_mean[i]`, `sum[i]`, `nframe`) every operation rewrites and with which
arithmetic expression of the previous ones.  What is NOT modelled: floating point.  `mfcc_t` is `float32` in the C
code; here every value is an exact rational (`Rat`, core Lean), so rounding of `sum[i] / nframe`, of
`vals[i] * CMN_WIN`, the `%.9g` text format of `cmn_update_repr` and `atof` are outside the model (floats stay opaque).
The window constants `CMN_WIN`, `CMN_WIN_HWM` are the regenerated ones of `Generated/RangeConsts.lean`
(tools/gen_ranges.py compiles a dumper against the `cmn.h` of the tree under test).  Core Lean only. -/
namespace SSVerif.CmnRepr

/-- `CMN_WIN` of `<soundswallower/cmn.h>` (regenerated) -/
def cmnWin : Nat := SSVerif.Generated.Ranges.cmnWin
/-- `CMN_WIN_HWM` of `<soundswallower/cmn.h>` (regenerated) -/
def cmnWinHwm : Nat := SSVerif.Generated.Ranges.cmnWinHwm

/-- `CMN_WIN` as it enters the C arithmetic: an `int` converted to the accumulator type -/
def winR : Rat := ((cmnWin : Int) : Rat)

/-- the accumulators of `cmn_t`; `veclen` is `mean.length` (`cmn_var` is only used with `varnorm ≠ 0`) -/
structure St where
  mean : List Rat
  sum : List Rat
  nframe : Int
deriving DecidableEq, Repr

/-- `cmn->veclen` -/
def St.veclen (s : St) : Nat := s.mean.length

/-- `cmn_init(veclen)`: `ckd_calloc`ed vectors, `nframe = 0` -/
def init (n : Nat) : St := { mean := List.replicate n 0, sum := List.replicate n 0, nframe := 0 }

/-- the scratch vector `cmn_set_repr` parses the string into, as seen through the `veclen` accumulators it ends up
in: at most `veclen` values are read (`while (nvals < cmn->veclen …)`), extra values are ignored, missing ones are
zero. -/
def pad (n : Nat) (vals : List Rat) : List Rat := vals.take n ++ List.replicate (n - vals.length) 0

/-- `memset(v, 0, sizeof(v[0]) * veclen)` -/
def clear (n : Nat) : List Rat := List.replicate n 0

/-- `for (i = 0; i < nvals; ++i) dst[i] = src[i];` with `src` the `nvals` parsed values: the first `src.length`
entries of `dst` are overwritten, the others keep what they held -/
def overwrite (dst src : List Rat) : List Rat := src ++ dst.drop src.length

/-- `cmn_set_repr(cmn, repr)` for a string all of whose values are finite (`vals`: the numbers between the commas; a
non-finite one makes the C function return -1 with the state untouched — not modelled, no `Rat` is non-finite).  In the
shape of the code: `nvals = min(#values, veclen)` values are parsed, BOTH `cmn_mean` and `sum` are cleared over all
`veclen` entries, then the first `nvals` entries are written (`sum[i] = vals[i] * CMN_WIN`), `nframe = CMN_WIN`.
Nothing of the previous `mean`/`sum`/`nframe` survives except `veclen`. -/
def setRepr (s : St) (vals : List Rat) : St :=
  let n := s.veclen
  let parsed := vals.take n
  { mean := overwrite (clear n) parsed
    sum := overwrite (clear n) (parsed.map (· * winR))
    nframe := cmnWin }

/-- `cmn_live_update`: nothing when `nframe ≤ 0`; else `cmn_mean[i] = sum[i] / nframe`, and when
`nframe > CMN_WIN_HWM` the sums decay (`sf = 1/nframe; sf = CMN_WIN * sf; sum[i] *= sf`) and `nframe = CMN_WIN`. -/
def update (s : St) : St :=
  if s.nframe ≤ 0 then s
  else
    let mean := s.sum.map (· / (s.nframe : Rat))
    if s.nframe > cmnWinHwm then
      { mean := mean, sum := s.sum.map (· * (winR / (s.nframe : Rat))), nframe := cmnWin }
    else { s with mean := mean }

/-- `cmn_live_shiftwin` (static; called by `cmn_live` only): as `cmn_live_update` but without the `nframe ≤ 0` guard and
with the decay test `nframe >= CMN_WIN_HWM`. -/
def shiftwin (s : St) : St :=
  let mean := s.sum.map (· / (s.nframe : Rat))
  if s.nframe ≥ cmnWinHwm then
    { mean := mean, sum := s.sum.map (· * (winR / (s.nframe : Rat))), nframe := cmnWin }
  else { s with mean := mean }

/-- the test `incep[i][0] < 0` ("zero energy frame"); an empty frame (veclen 0, where C would read out of bounds)
counts as not skipped -/
def skipped (x : List Rat) : Bool := decide (x.headD 0 < 0)

/-- one iteration of the frame loop of `cmn_live` (varnorm = 0): a frame whose c0 is negative is skipped (state
untouched); otherwise `sum[j] += x[j]`, `++nframe`, and `cmn_live_shiftwin` as soon as `nframe > CMN_WIN_HWM`. -/
def accFrame (s : St) (x : List Rat) : St :=
  if skipped x then s
  else
    let s1 : St := { s with sum := List.zipWith (· + ·) s.sum x, nframe := s.nframe + 1 }
    if s1.nframe > cmnWinHwm then shiftwin s1 else s1

/-- what `cmn_live` leaves in the frame buffer: `x[j] -= cmn_mean[j]` with the mean BEFORE this frame's shift; a
skipped frame is left as it is (not normalised) -/
def accFrameOut (s : St) (x : List Rat) : List Rat :=
  if skipped x then x else List.zipWith (· - ·) x s.mean

/-- `cmn_live(cmn, incep, 0, nfr)` on the state: the frame loop -/
def live (s : St) (frames : List (List Rat)) : St := frames.foldl accFrame s

/-- sum over the frames of the batch that are not skipped, starting from the cleared `sum` -/
def batchSum (n : Nat) (used : List (List Rat)) : List Rat :=
  used.foldl (fun acc x => List.zipWith (· + ·) acc x) (clear n)

/-- batch `cmn(cmn, mfc, varnorm = 0, n_frame)`: nothing for `n_frame ≤ 0` (`frames = []`); else `cmn_mean` and `sum`
are cleared, `sum` = Σ of the frames with `c0 ≥ 0`, `nframe` = their number, `cmn_mean = sum / nframe` when
`nframe > 0` (all frames skipped: the mean stays zero). -/
def batch (s : St) (frames : List (List Rat)) : St :=
  if frames.isEmpty then s
  else
    let n := s.veclen
    let used := frames.filter (fun x => !skipped x)
    let sum := batchSum n used
    let nframe : Int := (used.length : Int)
    { mean := if nframe > 0 then sum.map (· / (nframe : Rat)) else clear n
      sum := sum
      nframe := nframe }

/-- what batch `cmn()` leaves in the frame buffers (varnorm = 0): EVERY frame, skipped or not, minus the new mean -/
def batchOut (s : St) (frames : List (List Rat)) : List (List Rat) :=
  frames.map fun x => List.zipWith (· - ·) x (batch s frames).mean

/-- the values `cmn_update_repr` formats (`cmn->cmn_mean[0..veclen)`; the `%.9g` text is not modelled) -/
def «export» (s : St) : List Rat := s.mean

/-- both vectors have `veclen` entries (true of every `cmn_t` the library builds) -/
def WF (s : St) : Prop := s.sum.length = s.mean.length

instance (s : St) : Decidable (WF s) := by unfold WF; exact inferInstance

end SSVerif.CmnRepr
