import SSVerif.Model.Dict
import SSVerif.Generated.Dict2pidConsts
/-!
# M14b — contents of the word-boundary tables (`src/dict2pid.c`) over the triphone lookup of `src/bin_mdef.c`

* `BinMdef` is what `bin_mdef_phone_id` reads of `bin_mdef_t`: the raw `cd_tree` node array (dumped from the real
  model by the harness), the filler flags, the silence phone and `phone[p].ssid`.
* `phoneId` / `nearest` mirror `bin_mdef_phone_id` (tree walk, fillers mapped to silence) and
  `bin_mdef_phone_id_nearest` (exact → other word positions 0..3 → silence contexts → CI phone).
* `Tabs` is the part of `dict2pid_t` the searches read: `ldiph_lc[b][r][*]` rows, `lrdiph_rc[b][*][*]` blocks and the
  compressed `rssid[b][l]` rows.  `build`, `populate`, `addWord` mirror `dict2pid_build`, `populate_lrdiph`,
  `dict2pid_add_word`; `compressTable` mirrors `compress_table`.
* `populate_lrdiph` of the pinned tree also stored single-phone-word ids into `ldiph_lc[b][SIL][*]` and
  `rdiph_rc[b][SIL][*]` (defect D61).  Whether the current source still does is regenerated from the source
  (`Generated.d2pPopulateWritesLdiphSil`, `…RdiphSil`) and the model follows it, so the same model is tied to both trees.
-/
namespace SSVerif.Dict2pid
open SSVerif.Dict

/-- `BAD_S3SSID` -/
def bad : Nat := 0xffff

/-- `cd_tree_t` -/
structure CdNode where
  ctx : Int
  nDown : Nat
  c : Int
deriving Repr, Inhabited

structure BinMdef where
  nCi : Nat
  sil : Int
  filler : Array Bool
  tree : Array CdNode
  ssid : Array Nat
deriving Inhabited

def BinMdef.isFiller (m : BinMdef) (p : Nat) : Bool := m.filler.getD p false

/-- `bin_mdef_pid2ssid`; a phone id outside the table reads as `BAD_S3SSID` -/
def BinMdef.pid2ssid (m : BinMdef) (p : Nat) : Nat := m.ssid.getD p bad

/-- `for (i = 0; i < max; ++i) if (cd_tree[i].ctx == ctx[level]) break;` from `off + i` -/
def scan (t : Array CdNode) (c : Int) (off : Nat) : Nat → Option CdNode
  | 0 => none
  | n + 1 =>
    let nd := t.getD off default
    if nd.ctx = c then some nd else scan t c (off + 1) n

/-- the loop `while (level < 4)` of `bin_mdef_phone_id`: `some pid` for a leaf (pid may be -1), `none` for -1 -/
def walk (t : Array CdNode) : Nat → Nat → Nat → List Int → Option Int
  | 0, _, _, _ => none
  | _, _, _, [] => none
  | lv + 1, off, max, c :: cs =>
    match scan t c off max with
    | none => none
    | some nd => if nd.nDown = 0 then some nd.c else walk t lv nd.c.toNat nd.nDown cs

/-- word positions: 0 internal, 1 begin, 2 end, 3 single (`N_WORD_POSN = 4`) -/
abbrev posInternal := 0
abbrev posBegin := 1
abbrev posEnd := 2
abbrev posSingle := 3

/-- `bin_mdef_phone_id` for non-negative contexts: `none` = a negative return value -/
def phoneId (m : BinMdef) (ci lc rc wpos : Nat) : Option Nat :=
  if m.tree.size = 0 ∨ wpos ≥ 4 then none else
  let l : Int := if m.sil ≥ 0 ∧ m.isFiller lc then m.sil else lc
  let r : Int := if m.sil ≥ 0 ∧ m.isFiller rc then m.sil else rc
  match walk m.tree 4 0 4 [(wpos : Int), (ci : Int), l, r] with
  | some p => if p ≥ 0 then some p.toNat else none
  | none => none

/-- `for (tmppos = 0; tmppos < N_WORD_POSN; tmppos++) if (tmppos != pos) …` -/
def otherPos (f : Nat → Option Nat) (pos : Nat) : Option Nat :=
  ([0, 1, 2, 3].filter (· ≠ pos)).findSome? f

/-- exact word position first, then the other positions in the order 0..3 -/
def tryPos (m : BinMdef) (b l r pos : Nat) : Option Nat :=
  match phoneId m b l r pos with
  | some p => some p
  | none => otherPos (phoneId m b l r) pos

/-- the silence back-off contexts of `bin_mdef_phone_id_nearest` -/
def silCtx (m : BinMdef) (l r pos : Nat) : Nat × Nat :=
  (if m.isFiller l ∨ pos = posBegin ∨ pos = posSingle then m.sil.toNat else l,
   if m.isFiller r ∨ pos = posEnd ∨ pos = posSingle then m.sil.toNat else r)

/-- `bin_mdef_phone_id_nearest` (bin_mdef.c:716-768) for non-negative contexts -/
def nearest (m : BinMdef) (b l r pos : Nat) : Nat :=
  match tryPos m b l r pos with
  | some p => p
  | none =>
    if m.sil ≥ 0 then
      let c := silCtx m l r pos
      if c.1 ≠ l ∨ c.2 ≠ r then (tryPos m b c.1 c.2 pos).getD b else b
    else b

/-- the senone-sequence id the flat network of C02 uses: nearest triphone, then `pid2ssid` -/
def BinMdef.ssidOf (m : BinMdef) (b l r pos : Nat) : Nat := m.pid2ssid (nearest m b l r pos)

/-! ## `compress_table` -/

/-- `xwdssid_t`: `n_ssid = ssid.length` -/
structure Xwd where
  ssid : List Nat
  cimap : List Nat
deriving Repr, Inhabited, DecidableEq

/-- one iteration `r` of the second loop of `compress_table`: `acc` = the non-BAD prefix of `com_tab` -/
def compressStep (s : List Nat × List Nat) (x : Nat) : List Nat × List Nat :=
  if x = bad then (s.1, s.2 ++ [s.1.length])
  else
    let i := s.1.idxOf x
    if i < s.1.length then (s.1, s.2 ++ [i]) else (s.1 ++ [x], s.2 ++ [s.1.length])

/-- `compress_table(uncomp_tab, com_tab, ci_map, n_ci)` followed by the count of leading non-BAD entries -/
def compressTable (row : List Nat) : Xwd :=
  let r := row.foldl compressStep ([], [])
  { ssid := r.1, cimap := r.2 }

/-- `rssid->ssid[rssid->cimap[rc]]` (fsg_lextree.c:599-600, ps_alignment.c:210); outside the arrays = BAD -/
def Xwd.get (x : Xwd) (rc : Nat) : Nat := x.ssid.getD (x.cimap.getD rc x.ssid.length) bad

/-! ## the tables -/

structure Tabs where
  /-- `ldiph_lc[b][r]` rows over `l` that have been written (last write first); absent = all BAD -/
  ldiph : List ((Nat × Nat) × List Nat)
  /-- `lrdiph_rc[b]` blocks `[l][r]` -/
  lrdiph : List (Nat × List (List Nat))
  /-- `rssid[b][l]` with `n_ssid > 0` -/
  rssid : List ((Nat × Nat) × Xwd)
deriving Repr, Inhabited

def Tabs.empty : Tabs := { ldiph := [], lrdiph := [], rssid := [] }

/-- `dict2pid_ldiph_lc(d, b, r, l)` -/
def Tabs.ldiphLc (t : Tabs) (b r l : Nat) : Nat :=
  match t.ldiph.lookup (b, r) with
  | some row => row.getD l bad
  | none => bad

/-- `dict2pid_lrdiph_rc(d, b, l, r)` -/
def Tabs.lrdiphRc (t : Tabs) (b l r : Nat) : Nat :=
  match t.lrdiph.lookup b with
  | some blk => (blk.getD l []).getD r bad
  | none => bad

/-- `dict2pid_rssid(d, ci, lc)`; absent = `{NULL, NULL, 0}` -/
def Tabs.rssidAt (t : Tabs) (b l : Nat) : Xwd :=
  match t.rssid.lookup (b, l) with
  | some x => x
  | none => { ssid := [], cimap := [] }

def rowBegin (m : BinMdef) (b r : Nat) : List Nat := (List.range m.nCi).map fun l => m.ssidOf b l r posBegin
def rowEnd (m : BinMdef) (b l : Nat) : List Nat := (List.range m.nCi).map fun r => m.ssidOf b l r posEnd
def blockSingle (m : BinMdef) (b : Nat) : List (List Nat) :=
  (List.range m.nCi).map fun l => (List.range m.nCi).map fun r => m.ssidOf b l r posSingle
/-- what `populate_lrdiph` stores into `ldiph_lc[b][sil][*]` resp. `rdiph_rc[b][sil][*]` (D61) -/
def rowSingleL (m : BinMdef) (b : Nat) : List Nat := (List.range m.nCi).map fun l => m.ssidOf b l m.sil.toNat posSingle
def rowSingleR (m : BinMdef) (b : Nat) : List Nat := (List.range m.nCi).map fun r => m.ssidOf b m.sil.toNat r posSingle

/-- does `populate_lrdiph` store into the silence rows (regenerated from dict2pid.c)?  Only with a silence phone
inside the phone set: `r == bin_mdef_silphone(mdef)` never holds otherwise. -/
def silInRange (m : BinMdef) : Bool := decide (0 ≤ m.sil) && decide (m.sil.toNat < m.nCi)
def silRowsL (m : BinMdef) : Bool := Generated.d2pPopulateWritesLdiphSil && silInRange m
def silRowsR (m : BinMdef) : Bool := Generated.d2pPopulateWritesRdiphSil && silInRange m

/-- working state of `dict2pid_build`: tables under construction, the uncompressed `rdiph_rc` rows, and the
three bit vectors -/
structure Build where
  ldiph : List ((Nat × Nat) × List Nat) := []
  lrdiph : List (Nat × List (List Nat)) := []
  rdiph : List ((Nat × Nat) × List Nat) := []
  seenL : List (Nat × Nat) := []
  seenR : List (Nat × Nat) := []
  seenS : List Nat := []
deriving Repr, Inhabited

/-- `populate_lrdiph(d2p, rdiph_rc, b)` inside `dict2pid_build` -/
def Build.populate (m : BinMdef) (s : Build) (b : Nat) : Build :=
  let s1 := { s with lrdiph := (b, blockSingle m b) :: s.lrdiph }
  let s2 := if silRowsL m then { s1 with ldiph := ((b, m.sil.toNat), rowSingleL m b) :: s1.ldiph } else s1
  if silRowsR m then { s2 with rdiph := ((b, m.sil.toNat), rowSingleR m b) :: s2.rdiph } else s2

/-- "Populate ldiph_lc" (dict2pid.c:424-437): guarded by the `ldiph` bit vector -/
def Build.markL (m : BinMdef) (s : Build) (b r : Nat) : Build :=
  if s.seenL.contains (b, r) then s
  else { s with seenL := (b, r) :: s.seenL, ldiph := ((b, r), rowBegin m b r) :: s.ldiph }

/-- "Populate rdiph_rc" (dict2pid.c:439-452): guarded by the `rdiph` bit vector -/
def Build.markR (m : BinMdef) (s : Build) (e l : Nat) : Build :=
  if s.seenR.contains (e, l) then s
  else { s with seenR := (e, l) :: s.seenR, rdiph := ((e, l), rowEnd m e l) :: s.rdiph }

/-- single-phone word (dict2pid.c:453-462): guarded by the `single` bit vector -/
def Build.markS (m : BinMdef) (s : Build) (b : Nat) : Build :=
  if s.seenS.contains b then s else { Build.populate m s b with seenS := b :: s.seenS }

/-- one iteration of the word loop of `dict2pid_build` (dict2pid.c:418-462) -/
def Build.word (m : BinMdef) (s : Build) (p : List Nat) : Build :=
  match p with
  | [] => s
  | [b] => Build.markS m s b
  | b :: r :: _ => Build.markR m (Build.markL m s b r) (p.getD (p.length - 1) 0) (p.getD (p.length - 2) 0)

/-- keys of an association list, each once, first occurrence order -/
def keysOf {α β : Type} [BEq α] (l : List (α × β)) : List α :=
  l.foldl (fun acc kv => if acc.contains kv.1 then acc else acc ++ [kv.1]) []

/-- `compress_right_context_tree`: every `rdiph_rc[b][l]` row that was written, compressed; the row visible to a
lookup is the one written last (rows never written are all BAD and get `n_ssid = 0`) -/
def Build.finish (s : Build) : Tabs :=
  { ldiph := s.ldiph, lrdiph := s.lrdiph, rssid := s.rdiph.map fun kv => (kv.1, compressTable kv.2) }

/-- `dict2pid_build` -/
def build (m : BinMdef) (d : Dict) : Tabs :=
  (d.words.foldl (fun s e => Build.word m s e.pron) {}).finish

/-- left-context rows of `dict2pid_add_word` (dict2pid.c:296-312): the test reads the table -/
def addL (m : BinMdef) (t : Tabs) (b r : Nat) : Tabs :=
  if t.ldiphLc b r 0 = bad then { t with ldiph := ((b, r), rowBegin m b r) :: t.ldiph } else t

/-- right-context row of `dict2pid_add_word` (dict2pid.c:313-341) -/
def addR (m : BinMdef) (t : Tabs) (e l : Nat) : Tabs :=
  if (t.rssidAt e l).ssid.length = 0 then { t with rssid := ((e, l), compressTable (rowEnd m e l)) :: t.rssid } else t

/-- single-phone word (dict2pid.c:342-349): `populate_lrdiph(d2p, NULL, b)` -/
def addS (m : BinMdef) (t : Tabs) (b : Nat) : Tabs :=
  if t.lrdiphRc b 0 0 = bad then
    let t1 := { t with lrdiph := (b, blockSingle m b) :: t.lrdiph }
    if silRowsL m then { t1 with ldiph := ((b, m.sil.toNat), rowSingleL m b) :: t1.ldiph } else t1
  else t

/-- `dict2pid_add_word` (dict2pid.c:286-352); the three tests read the tables themselves -/
def addWord (m : BinMdef) (t : Tabs) (p : List Nat) : Tabs :=
  match p with
  | [] => t   -- `pronlen == 0` dereferences NULL in C; excluded by D04
  | [b] => addS m t b
  | b :: r :: _ => addR m (addL m t b r) (p.getD (p.length - 1) 0) (p.getD (p.length - 2) 0)

/-- `dict2pid_internal(d2p, wid, pos)` for `0 < pos < pronlen - 1` -/
def internal (m : BinMdef) (p : List Nat) (pos : Nat) : Nat :=
  m.ssidOf (p.getD pos 0) (p.getD (pos - 1) 0) (p.getD (pos + 1) 0) posInternal

/-- `decoder_add_word` on (dictionary, tables) -/
def decoderAddWordT (md : Mdef) (m : BinMdef) (s : Dict × Tabs) (word phones : SSVerif.HashTable.Key) :
    (Dict × Tabs) × Option Nat :=
  let r := decoderAddWord md s.1 word phones
  match r.2 with
  | none => ((r.1, s.2), none)
  | some i => ((r.1, addWord m s.2 ((r.1.words[i]?).map (·.pron) |>.getD [])), some i)

end SSVerif.Dict2pid
