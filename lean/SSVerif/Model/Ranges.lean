import SSVerif.Generated.RangeConsts
/-!
# M18 — integer range arithmetic of score normalisation, clamping and path scores (property C18)

Executable model (core Lean only) of the INTEGER side of the acoustic-score pipeline:

* `hmm3Step`, `hmm5Step`      — `hmm_vit_eval_3st_lr` / `hmm_vit_eval_5st_lr` (src/hmm.c:482-567, 166-304),
                                non-multiplex (the only kind the library instantiates: every `hmm_init`
                                call passes `mpx = FALSE`), on unbounded `Int` with a *trace* of every
                                value the C code stores in an `int32` variable;
* `ptmNorm`                   — `ptm_mgau_codebook_norm` (src/ptm_mgau.c:264-295);
* `ptmSenoneEval`             — `ptm_mgau_senone_eval` (src/ptm_mgau.c:326-403) incl. the delta-coded active
                                list, the knock-out of inactive codebooks, 8-bit and 4-bit (clustered)
                                mixture weights, `fast_logmath_add` (tied_mgau_common.h:100-117) and the
                                final `-= bestscore` on `int16`;
* `semiNorm`, `semiEval`      — `mgau_norm` and the `get_scores_{8b,4b}_feat*` family + dispatch of
                                `s2_semi_mgau_frame_eval` (src/s2_semi_mgau.c:183-203, 205-866);
* `enterScore`, `nullScore`, `segAscr`, `pathScore` — the score expressions of `fsg_search.c`
                                (`fsg_search_pnode_trans`, `_word_trans`, `_null_prop`, `fsg_seg_bp2itor`).

Floats never appear: density values enter as the `int32` numbers the C code has already produced
(`(int32)d` / `MAX_NEG_INT32`).  Constants come from `Generated/RangeConsts.lean` (regenerated from the
headers on every run).
-/
namespace SSVerif.Ranges
open SSVerif.Generated.Ranges

/-! ## machine integers -/

def I32 (x : Int) : Prop := int32Min ≤ x ∧ x ≤ int32Max
def I16 (x : Int) : Prop := int16Min ≤ x ∧ x ≤ int16Max

instance (x : Int) : Decidable (I32 x) := by unfold I32; exact inferInstance
instance (x : Int) : Decidable (I16 x) := by unfold I16; exact inferInstance

/-- conversion `int → int16` as every supported compiler does it (two's complement truncation) -/
def wrap16 (x : Int) : Int := (x + 32768) % 65536 - 32768
/-- conversion `int → uint8` -/
def wrapU8 (x : Int) : Int := x % 256
/-- `x >> SENSCR_SHIFT` on a (possibly negative) `int32`: arithmetic shift = floor division -/
def shr (x : Int) : Int := x / (2 ^ senscrShift : Int)

abbrev WORST : Int := worstScore

/-- `if (s WORSE_THAN WORST_SCORE) s = WORST_SCORE;` -/
def clampW (x : Int) : Int := if x < WORST then WORST else x

/-- `hmm_tprob_3st(i,j)` / `hmm_tprob_5st(i,j)`: `-tp[i][j]` with `tp` the raw `uint8` matrix -/
def tprob (tp : Nat → Nat → Nat) (i j : Nat) : Int := -((tp i j : Nat) : Int)

/-- `if (x BETTER_THAN best) best = x;` -/
def upd (best x : Int) : Int := if x > best then x else best

/-! ## 3-state left-to-right HMM (hmm.c:482-567) -/

structure H3 where
  s0 : Int
  s1 : Int
  s2 : Int
  out : Int
  h0 : Int
  h1 : Int
  h2 : Int
  hout : Int
  best : Int
deriving Repr, DecidableEq

/-- result of the block "Transitions into non-emitting state 3" -/
structure Exit where
  out : Int
  hout : Int
  best : Int
  t2 : Int          -- the C variable `t2` keeps its value into the next block
  tr : List Int

def exit3 (tp : Nat → Nat → Nat) (s1 s2 : Int) (h : H3) : Exit :=
  if s1 > WORST then
    let t1 := s2 + tprob tp 2 3
    let t2 := if tprob tp 1 3 > tmatWorstScore then s1 + tprob tp 1 3 else intMin
    let s3 := clampW (if t1 > t2 then t1 else t2)
    { out := s3, hout := if t1 > t2 then h.h2 else h.h1, best := s3, t2 := t2, tr := [t1, t2, s3] }
  else
    { out := h.out, hout := h.hout, best := WORST, t2 := intMin, tr := [] }

/-- a new state score and its history, plus the stored intermediates -/
structure Upd where
  s : Int
  h : Int
  tr : List Int

/-- the three-way comparison cascade used for states with a skip predecessor
(`t0` self loop keeps `hself`, `t1` from the previous state, `t2` from the skip state) -/
def pick3 (t0 t1 t2 hself hprev hskip : Int) : Int × Int :=
  if t0 > t1 then
    (if t2 > t0 then (t2, hskip) else (t0, hself))
  else
    (if t2 > t1 then (t2, hskip) else (t1, hprev))

def into2of3 (tp : Nat → Nat → Nat) (s0 s1 s2 t2in : Int) (h : H3) : Upd :=
  let t0 := s2 + tprob tp 2 2
  let t1 := s1 + tprob tp 1 2
  let t2 := if tprob tp 0 2 > tmatWorstScore then s0 + tprob tp 0 2 else t2in
  let p := pick3 t0 t1 t2 h.h2 h.h1 h.h0
  { s := clampW p.1, h := p.2, tr := [t0, t1, t2, clampW p.1] }

def into1 (tp : Nat → Nat → Nat) (s0 s1 hin h1 : Int) : Upd :=
  let t0 := s1 + tprob tp 1 1
  let t1 := s0 + tprob tp 0 1
  if t0 > t1 then { s := clampW t0, h := h1, tr := [t0, t1, clampW t0] }
  else { s := clampW t1, h := hin, tr := [t0, t1, clampW t1] }

/-- `hmm_vit_eval_3st_lr`; `c0 c1 c2` are the raw `int16` entries `senscore[sseq[i]]`
(the C code adds `-senscore[..]`).  Returns the new HMM and every stored `int32` value. -/
def hmm3Step (tp : Nat → Nat → Nat) (c0 c1 c2 : Int) (h : H3) : H3 × List Int :=
  let s2 := h.s2 + -c2
  let s1 := h.s1 + -c1
  let s0 := h.s0 + -c0
  let a := exit3 tp s1 s2 h
  let b := into2of3 tp s0 s1 s2 a.t2 h
  let c := into1 tp s0 s1 h.h0 h.h1
  let s0' := s0 + tprob tp 0 0
  let s0c := clampW s0'
  ({ s0 := s0c, s1 := c.s, s2 := b.s, out := a.out,
     h0 := h.h0, h1 := c.h, h2 := b.h, hout := a.hout,
     best := upd (upd (upd a.best b.s) c.s) s0c },
   [-c2, -c1, -c0, s2, s1, s0] ++ a.tr ++ b.tr ++ c.tr ++ [s0', s0c])

/-- `hmm_enter` (hmm.c:142-148) -/
def H3.enter (h : H3) (score hist : Int) : H3 := { h with s0 := score, h0 := hist }

/-- `hmm_clear` (hmm.c:124-140) -/
def H3.clear : H3 :=
  { s0 := WORST, s1 := WORST, s2 := WORST, out := WORST, h0 := -1, h1 := -1, h2 := -1, hout := -1, best := WORST }

/-- one frame of an HMM's life: optionally entered (between frames), then evaluated -/
structure Frame3 where
  enter : Option (Int × Int)
  c0 : Int
  c1 : Int
  c2 : Int

def Frame3.apply (tp : Nat → Nat → Nat) (h : H3) (f : Frame3) : H3 × List Int :=
  let h' := match f.enter with
    | some (s, hi) => h.enter s hi
    | none => h
  hmm3Step tp f.c0 f.c1 f.c2 h'

/-- any number of frames; the trace is the concatenation of all per-frame traces -/
def hmm3Run (tp : Nat → Nat → Nat) : H3 → List Frame3 → H3 × List Int
  | h, [] => (h, [])
  | h, f :: fs =>
    let r := f.apply tp h
    let r' := hmm3Run tp r.1 fs
    (r'.1, r.2 ++ r'.2)

/-! ## 5-state left-to-right HMM (hmm.c:166-304) -/

structure H5 where
  s0 : Int
  s1 : Int
  s2 : Int
  s3 : Int
  s4 : Int
  out : Int
  h0 : Int
  h1 : Int
  h2 : Int
  h3 : Int
  h4 : Int
  hout : Int
  best : Int
deriving Repr, DecidableEq

/-- "Transitions into non-emitting state 5": guarded by `s3 BETTER_THAN WORST_SCORE` -/
def exit5 (tp : Nat → Nat → Nat) (s3 s4 : Int) (h : H5) : Exit :=
  if s3 > WORST then
    let t1 := s4 + tprob tp 4 5
    let t2 := s3 + tprob tp 3 5
    let s5 := clampW (if t1 > t2 then t1 else t2)
    { out := s5, hout := if t1 > t2 then h.h4 else h.h3, best := s5, t2 := t2, tr := [t1, t2, s5] }
  else
    { out := h.out, hout := h.hout, best := WORST, t2 := 0, tr := [] }

/-- a guarded three-predecessor update ("All transitions into state 4 / 3"): when the guard
`sg BETTER_THAN WORST_SCORE` fails the stored score and history are left untouched -/
def into5g (sg t0 t1 t2 old hself hprev hskip : Int) : Upd :=
  if sg > WORST then
    let p := pick3 t0 t1 t2 hself hprev hskip
    { s := clampW p.1, h := p.2, tr := [t0, t1, t2, clampW p.1] }
  else { s := old, h := hself, tr := [] }

/-- `hmm_vit_eval_5st_lr` -/
def hmm5Step (tp : Nat → Nat → Nat) (c0 c1 c2 c3 c4 : Int) (h : H5) : H5 × List Int :=
  let s4 := h.s4 + -c4
  let s3 := h.s3 + -c3
  let a := exit5 tp s3 s4 h
  let s2 := h.s2 + -c2
  let b4 := into5g s2 (s4 + tprob tp 4 4) (s3 + tprob tp 3 4) (s2 + tprob tp 2 4) h.s4 h.h4 h.h3 h.h2
  let best1 := if s2 > WORST then upd a.best b4.s else a.best
  let s1 := h.s1 + -c1
  -- the block for state 3 reads hmm_history(3), (2), (1): history 3 is still the old one
  let b3 := into5g s1 (s3 + tprob tp 3 3) (s2 + tprob tp 2 3) (s1 + tprob tp 1 3) h.s3 h.h3 h.h2 h.h1
  let best2 := if s1 > WORST then upd best1 b3.s else best1
  let s0 := h.s0 + -c0
  let t0 := s2 + tprob tp 2 2
  let t1 := s1 + tprob tp 1 2
  let t2 := s0 + tprob tp 0 2
  let p2 := pick3 t0 t1 t2 h.h2 h.h1 h.h0
  let s2c := clampW p2.1
  let c := into1 tp s0 s1 h.h0 h.h1
  let s0' := s0 + tprob tp 0 0
  let s0c := clampW s0'
  ({ s0 := s0c, s1 := c.s, s2 := s2c, s3 := b3.s, s4 := b4.s, out := a.out,
     h0 := h.h0, h1 := c.h, h2 := p2.2, h3 := b3.h, h4 := b4.h, hout := a.hout,
     best := upd (upd (upd best2 s2c) c.s) s0c },
   [-c4, -c3, s4, s3] ++ a.tr ++ [-c2, s2] ++ b4.tr ++ [-c1, s1] ++ b3.tr
     ++ [-c0, s0, t0, t1, t2, s2c] ++ c.tr ++ [s0', s0c])

def H5.enter (h : H5) (score hist : Int) : H5 := { h with s0 := score, h0 := hist }

def H5.clear : H5 :=
  { s0 := WORST, s1 := WORST, s2 := WORST, s3 := WORST, s4 := WORST, out := WORST,
    h0 := -1, h1 := -1, h2 := -1, h3 := -1, h4 := -1, hout := -1, best := WORST }

structure Frame5 where
  enter : Option (Int × Int)
  c0 : Int
  c1 : Int
  c2 : Int
  c3 : Int
  c4 : Int

def Frame5.apply (tp : Nat → Nat → Nat) (h : H5) (f : Frame5) : H5 × List Int :=
  let h' := match f.enter with
    | some (s, hi) => h.enter s hi
    | none => h
  hmm5Step tp f.c0 f.c1 f.c2 f.c3 f.c4 h'

def hmm5Run (tp : Nat → Nat → Nat) : H5 → List Frame5 → H5 × List Int
  | h, [] => (h, [])
  | h, f :: fs =>
    let r := f.apply tp h
    let r' := hmm5Run tp r.1 fs
    (r'.1, r.2 ++ r'.2)

/-! ## `fast_logmath_add` and the per-stream density (tied_mgau_common.h:100-117) -/

/-- `fast_logmath_add(lmath, mlx, mly)`; `tab d` is byte `d` of the 8-bit add table.
Returns the value and the table index used. -/
def fastLogAddIdx (x y : Int) : Int := if x > y then x - y else y - x

def fastLogAdd (tab : Nat → Nat) (x y : Int) : Int :=
  if x > y then y - (tab (x - y).toNat : Nat) else x - (tab (y - x).toNat : Nat)

/-- log-sum over the top-N of one stream: `fden = w_0; fden = fast_logmath_add(fden, w_j)`;
`ws` = the list of `mixw + topn[j].score`.  (`fden = 0` when the list is empty: `max_topn = 0`.) -/
def fden (tab : Nat → Nat) : List Int → Int
  | [] => 0
  | w :: ws => ws.foldl (fastLogAdd tab) w

/-- all table indices used while computing `fden` -/
def fdenIdx (tab : Nat → Nat) : List Int → List Int
  | [] => []
  | w :: ws => (ws.foldl (fun (acc : Int × List Int) y => (fastLogAdd tab acc.1 y, acc.2 ++ [fastLogAddIdx acc.1 y])) (w, [])).2

/-! ## PTM: `ptm_mgau_codebook_norm` -/

structure TopN where
  cw : Nat
  score : Int
deriving Repr, DecidableEq, Inhabited

/-- top-N lists, indexed `[codebook][feature][k]` -/
abbrev TopTab := List (List (List TopN))

def headScore (l : List TopN) : Int := (l.headD ⟨0, 0⟩).score

/-- the normaliser of feature `j`: `norm = WORST_SCORE; for active i: if (norm < topn[i][j][0].score >> SHIFT) norm = …` -/
def ptmNormOf (active : List Bool) (t : TopTab) (j : Nat) : Int :=
  (active.zip t).foldl
    (fun n p => if p.1 then (let x := shr (headScore (p.2.getD j [])); if n < x then x else n) else n) WORST

/-- `score >>= SHIFT; score -= norm; score = -score; if (score > MAX_NEG_ASCR) score = MAX_NEG_ASCR;` -/
def normScore (norm s : Int) : Int :=
  let v := -(shr s - norm)
  if v > maxNegAscr then maxNegAscr else v

def normEntry (norm : Int) (e : TopN) : TopN := { e with score := normScore norm e.score }

/-- `ptm_mgau_codebook_norm`: entries of active codebooks are normalised per feature, the rest untouched.
(The C code asserts `norm != WORST_SCORE`; with no active codebook nothing is normalised.) -/
def ptmNorm (active : List Bool) (t : TopTab) : TopTab :=
  (active.zip t).map fun p =>
    if p.1 then p.2.mapIdx fun j l => l.map (normEntry (ptmNormOf active t j)) else p.2

/-! ## PTM: maintenance of the top-N lists (`insertion_sort_topn`, `eval_topn`, `insertion_sort_cb`, `eval_cb`,
ptm_mgau.c:70-225).  Densities enter as the `int32` the C code stores (`(int32)d`, or `MAX_NEG_INT32`). -/

/-- `if (d < (mfcc_t)MAX_NEG_INT32) … MAX_NEG_INT32 else (int32)d` (ptm_mgau.c:128-131, 218-221) for an
integer-valued density -/
def densInt (d : Int) : Int := if d < int32Min then int32Min else d

/-- the right-to-left scan of both insertion sorts, on the REVERSED list (head = last array element):
elements are shifted one place towards the end while the new score is better (`strict`: `d > score`,
`insertion_sort_topn`; otherwise `intd >= score`, `insertion_sort_cb`), then the new entry is stored -/
def beats (strict : Bool) (e x : TopN) : Bool :=
  if strict then decide (e.score > x.score) else decide (e.score ≥ x.score)

def insRev (strict : Bool) (e : TopN) : List TopN → List TopN
  | [] => [e]
  | x :: xs => if beats strict e x then x :: insRev strict e xs else e :: x :: xs

/-- `insertion_sort_topn(topn, i, d)`: entry `i` (re-scored) is inserted into the prefix `[0, i)` -/
def insertTopn (e : TopN) (pre : List TopN) : List TopN := (insRev true e pre.reverse).reverse

/-- `eval_topn`: every entry is re-scored in array order and inserted into the prefix before it -/
def evalTopn (score : Nat → Int) (l : List TopN) : List TopN :=
  l.foldl (fun pre x => insertTopn { x with score := score x.cw } pre) []

/-- `insertion_sort_cb`: the worst entry is overwritten, entries shift down while `intd >= score` -/
def insertCb (e : TopN) (l : List TopN) : List TopN := (insRev false e (l.reverse.drop 1)).reverse

/-- `eval_cb` for integer-valued densities (`dens cw` = the raw density, possibly below `MAX_NEG_INT32`): a
codeword is skipped when its density is below the current worst top-N score (`d < thresh`, tested on the raw
value) or it is already in the list, otherwise its clamped value is inserted -/
def evalCb (dens : Nat → Int) (nden : Nat) (l : List TopN) : List TopN :=
  (List.range nden).foldl (fun l cw =>
    let d := dens cw
    if d < (l.getLast?.getD ⟨0, 0⟩).score then l
    else if l.any (fun e => e.cw == cw) then l
    else insertCb ⟨cw, densInt d⟩ l) l

/-! ## PTM: `ptm_mgau_senone_eval` -/

/-- mixture weights: 8-bit `mixw[f][cw][sen]`, or 4-bit clustered `mixw_cb[nibble of mixw[f][cw][sen/2]]` -/
structure Mixw where
  cb : Option (List Nat)          -- `mixw_cb` (16 entries) when the sendump is 4-bit clustered
  w : List (List (List Nat))      -- `[f][cw][sen]` or `[f][cw][sen/2]`

/-- `byData = true`: PTM (`ptm_mgau_senone_eval`) selects the nibble by the low bit of the DATA byte
(`dcw = (dcw & 1) ? dcw >> 4 : dcw & 0x0f`, ptm_mgau.c:376-377 — modelled as it is);
`byData = false`: s2_semi selects it by the parity of the senone index (`n & 1`). -/
def Mixw.get (m : Mixw) (byData : Bool) (f cw sen : Nat) : Int :=
  match m.cb with
  | none => (((m.w.getD f []).getD cw []).getD sen 0 : Nat)
  | some cb =>
    let dcw := ((m.w.getD f []).getD cw []).getD (sen / 2) 0
    let hi := if byData then dcw % 2 = 1 else sen % 2 = 1
    let idx := if hi then dcw / 16 else dcw % 16
    ((cb.getD idx 0 : Nat) : Int)

/-- decoded list of senone ids of the delta-coded active list (`sen = senone_active[i] + lastsen`),
or `0 … n_sen-1` when all senones are computed -/
def decodeActive (compall : Bool) (nSen : Nat) (deltas : List Nat) : List Nat :=
  if compall then List.range nSen
  else (deltas.foldl (fun (acc : Nat × List Nat) d => (acc.1 + d, acc.2 ++ [acc.1 + d])) (0, [])).2

/-- knock-out of an inactive codebook: every top-N score of every feature := MAX_NEG_ASCR -/
def knock (cbt : List (List TopN)) : List (List TopN) :=
  cbt.map fun l => l.map fun e => { e with score := maxNegAscr }

/-- `ascore` of one senone given its codebook's (possibly knocked-out) top-N lists -/
def ascoreOf (tab : Nat → Nat) (m : Mixw) (sen : Nat) (cbt : List (List TopN)) : Int :=
  (cbt.mapIdx fun f l => fden tab (l.map fun e => m.get true f e.cw sen + e.score)).foldl (· + ·) 0

/-- the main loop: threads the top-N table (knock-outs) and collects `(sen, ascore)` -/
def evalSeq (tab : Nat → Nat) (m : Mixw) (sen2cb : List Nat) (active : List Bool) :
    TopTab → List Nat → TopTab × List (Nat × Int)
  | t, [] => (t, [])
  | t, sen :: rest =>
    let cb := sen2cb.getD sen 0
    let t' := if active.getD cb false then t else t.set cb (knock (t.getD cb []))
    let a := ascoreOf tab m sen (t'.getD cb [])
    let r := evalSeq tab m sen2cb active t' rest
    (r.1, (sen, a) :: r.2)

/-- the stores `senone_scores[sen] = ascore` (an `int16` array) and the running minimum -/
def writeAll : List Int → Int → List (Nat × Int) → List Int × Int
  | sc, best, [] => (sc, best)
  | sc, best, (sen, a) :: r => writeAll (sc.set sen (wrap16 a)) (if a < best then a else best) r

structure PtmOut where
  scores : List Int
  topn : TopTab
  best : Int
deriving Repr

/-- `ptm_mgau_senone_eval`: `memset 0`, loop, `senone_scores[i] -= bestscore` for ALL `i < n_sen`
(so senones that were not evaluated end up at `wrap16 (-bestscore)`), `bestscore` starting at MAX_INT32 -/
def ptmSenoneEval (tab : Nat → Nat) (m : Mixw) (sen2cb : List Nat) (active : List Bool) (t : TopTab)
    (compall : Bool) (deltas : List Nat) : PtmOut :=
  let nSen := sen2cb.length
  let sens := decodeActive compall nSen deltas
  let r := evalSeq tab m sen2cb active t sens
  let w := writeAll (List.replicate nSen 0) int32Max r.2
  { scores := w.1.map fun x => wrap16 (x - w.2), topn := r.1, best := w.2 }

/-! ## semi-continuous: `mgau_norm` and `get_scores_*` (s2_semi_mgau.c) -/

/-- `mgau_norm`: normalise against the top-1 density, clamp, stop early when a score exceeds the
per-feature `topn_beam` (entries after the break keep their raw value).  Returns the new list and `j`. -/
def semiNormLoop (norm beam : Int) : List TopN → Nat → List TopN × Nat
  | [], j => ([], j)
  | e :: rest, j =>
    let v := normScore norm e.score
    if beam ≠ 0 ∧ v > beam then ({ e with score := v } :: rest, j)
    else
      let r := semiNormLoop norm beam rest (j + 1)
      ({ e with score := v } :: r.1, r.2)

def semiNorm (beam : Int) (l : List TopN) : List TopN × Nat :=
  semiNormLoop (shr (headScore l)) beam l 0

/-- per-senone, per-feature log-sum over the first `n` densities (the generic variants always
include density 0, hence `max n 1`).  The unrolled 4-bit variants
(`get_scores_4b_feat_1 … _6`) first store `mixw_cb[j] + score` in a `uint8 w_den[][]`; the generic
ones (`_any`, `_all`) and all 8-bit variants keep `int`. -/
def semiFden (tab : Nat → Nat) (m : Mixw) (u8 : Bool) (f sen : Nat) (l : List TopN) (n : Nat) : Int :=
  fden tab ((l.take (max n 1)).map fun e =>
    let v := m.get false f e.cw sen + e.score
    if u8 then wrapU8 v else v)

/-- which senones a feature pass touches -/
def semiSens (compall : Bool) (is4b : Bool) (nSen : Nat) (deltas : List Nat) : List Nat :=
  if compall then (if is4b then List.range (nSen / 2 * 2) else List.range nSen)
  else decodeActive false nSen deltas

/-- one feature pass: `senone_scores[sen] += tmp` on `int16` -/
def semiPass (tab : Nat → Nat) (m : Mixw) (compall : Bool) (f : Nat) (l : List TopN) (n : Nat)
    (sens : List Nat) (sc : List Int) : List Int :=
  let u8 := m.cb.isSome && !compall && decide (1 ≤ n ∧ n ≤ 6)
  sens.foldl (fun sc sen => sc.set sen (wrap16 (sc.getD sen 0 + semiFden tab m u8 f sen l n))) sc

structure SemiOut where
  scores : List Int
  counts : List Nat
  topn : List (List TopN)
deriving Repr

/-- `s2_semi_mgau_frame_eval` after `mgau_dist`: per feature `mgau_norm` then the score pass -/
def semiEval (tab : Nat → Nat) (m : Mixw) (nSen : Nat) (beams : List Int) (t : List (List TopN))
    (compall : Bool) (deltas : List Nat) : SemiOut :=
  let sens := semiSens compall m.cb.isSome nSen deltas
  let normed := t.mapIdx fun f l => semiNorm (beams.getD f 0) l
  let sc := (List.range t.length).foldl
    (fun sc f => let p := normed.getD f ([], 0); semiPass tab m compall f p.1 p.2 sens sc)
    (List.replicate nSen 0)
  { scores := sc, counts := normed.map (·.2), topn := normed.map (·.1) }

/-! ## search-level score expressions (fsg_search.c) -/

/-- `newscore = hmm_out_score(hmm) + child->logs2prob` / `score + root->logs2prob`, entered iff
`newscore BETTER_THAN thresh && newscore BETTER_THAN hmm_in_score(child)`; returns the child's
in-score afterwards and the stored intermediates (`thresh`, `newscore`) -/
def enterScore (src lp best beam childIn : Int) : Int × List Int :=
  let thresh := best + beam
  let ns := src + lp
  (if ns > thresh ∧ ns > childIn then ns else childIn, [thresh, ns])

/-- `newscore = hist.score + (logs2prob >> SENSCR_SHIFT)`, kept iff `newscore >= thresh` -/
def nullScore (hist lp best wbeam : Int) : Option Int × List Int :=
  let thresh := best + wbeam
  let ns := hist + shr lp
  (if ns ≥ thresh then some ns else none, [thresh, shr lp, ns])

/-- `fsg_seg_bp2itor`: `lscr = logs2prob >> SHIFT; ascr = score - pred.score - lscr; prob = lscr + ascr` -/
def segAscr (score pred lp : Int) : Int × Int × Int × List Int :=
  let lscr := shr lp
  let d := score - pred
  let ascr := d - lscr
  (ascr, lscr, lscr + ascr, [lscr, d, ascr, lscr + ascr])

/-- one frame of a path through the search network, in the units the code adds up:
`sen` = the (non-negated) senone score, `tp` = the raw transition byte, `pen` = insertion
penalties paid on entering an HMM in this frame (0 when staying), `link` = grammar link score
(already shifted) paid in this frame -/
structure PStep where
  sen : Int
  tp : Int
  pen : Int
  link : Int

/-- exact (unbounded) score of a path: what the int32 accumulation computes as long as it neither
wraps nor hits the WORST_SCORE clamp -/
def pathScore : List PStep → Int
  | [] => 0
  | p :: ps => pathScore ps + (-p.sen - p.tp + p.pen + p.link)

def sumAbsLink : List PStep → Int
  | [] => 0
  | p :: ps => sumAbsLink ps + p.link.natAbs

end SSVerif.Ranges
