import SSVerif.Model.Jsgf
/-!
# JSGF text front end: lexer (`jsgf_scanner.l`) and parser (`jsgf_parser.y`)  (C05)

Input is the byte string as a `List Char` (one `Char` per byte).  Core Lean only.

* `lexGo` mirrors the flex scanner: four start conditions (`INITIAL`, `COMMENT`, `DECL`,
  `DECLCOMMENT`, all inclusive), longest match, earliest rule on ties, the catch-all.  It is a
  structural recursion over the input (a skip counter consumes the rest of a match), so it is
  total by construction.
* `pstep` is a pushdown recogniser for the grammar of `jsgf_parser.y`, one total step per token;
  `parseToks` folds it over the token list.  It builds the text-level syntax tree `TGrammar`
  (names and token spellings as written).
* `resolve` interns names (`jsgf_fullname`, `jsgf_fullname_from_rule`) and yields the surface
  `Grammar` of Model/Jsgf.lean plus the name tables; duplicate definitions keep the first.
-/
namespace SSVerif.JsgfText
open SSVerif.Jsgf

/-! ## tokens -/

/-- a decimal literal `mant / 10^exp` (what `atof` reads from a `/weight/`) -/
structure Dec where
  mant : Nat
  exp : Nat
deriving DecidableEq, Repr, Inhabited

def Dec.toRat (d : Dec) : Rat := (d.mant : Rat) / ((10 ^ d.exp : Nat) : Rat)

inductive Tok
  | header
  | grammar
  | import_
  | public_
  | token (s : List Char)
  | rulename (s : List Char)
  | tag (s : List Char)
  | weight (d : Dec)
  | ch (c : Char)
deriving DecidableEq, Repr, Inhabited

inductive LState
  | initial
  | comment
  | decl
  | declcomment
deriving DecidableEq, Repr, Inhabited

/-! ## patterns of `jsgf_scanner.l` (each returns the length of the match at the head, 0 = none) -/

def isWs (c : Char) : Bool := c == ' ' || c == '\t' || c == '\r' || c == '\n'

/-- the characters excluded from `{token}`: `[^ \t\r\n=;|*+<>()\[\]{}*/]` -/
def isSpecial (c : Char) : Bool :=
  isWs c || c == '=' || c == ';' || c == '|' || c == '*' || c == '+' || c == '<' || c == '>' ||
  c == '(' || c == ')' || c == '[' || c == ']' || c == '{' || c == '}' || c == '/'

def isDigit (c : Char) : Bool := '0' ≤ c && c ≤ '9'

/-- `{rulename}` = `\<[^<>]+\>` -/
def mRulename : List Char → Nat
  | '<' :: r =>
    let body := r.takeWhile fun c => c != '<' && c != '>'
    match r.drop body.length with
    | '>' :: _ => if body.isEmpty then 0 else body.length + 2
    | _ => 0
  | _ => 0

/-- index of the delimiter that closes a `{tag}` / `"qstring"` body under longest match:
the first delimiter not preceded by a backslash, else the last delimiter.
`prev` = the previous character was a backslash; `i` = current index; `cand` = last escaped
delimiter seen. -/
def closeIdx (q : Char) : Bool → Nat → Option Nat → List Char → Option Nat
  | _, _, cand, [] => cand
  | prev, i, cand, c :: r =>
    if c == q then
      if prev then closeIdx q false (i + 1) (some i) r else some i
    else closeIdx q (c == '\\') (i + 1) cand r

/-- `{tag}` = `\{(\\.|[^\}]+)*\}` -/
def mTag : List Char → Nat
  | '{' :: r => match closeIdx '}' false 0 none r with
    | some i => i + 2
    | none => 0
  | _ => 0

/-- `{qstring}` = `\"(\\.|[^"]+)*\"` -/
def mQstring : List Char → Nat
  | '"' :: r => match closeIdx '"' false 0 none r with
    | some i => i + 2
    | none => 0
  | _ => 0

/-- `{token}` -/
def mToken (cs : List Char) : Nat := (cs.takeWhile fun c => !isSpecial c).length

/-- `\/\/.*`: a line comment runs to the end of the line or of the input (repaired scanner; the
newline itself is whitespace) -/
def mLineComment : List Char → Nat
  | '/' :: '/' :: r => (r.takeWhile fun c => c != '\n').length + 2
  | _ => 0

def digitsVal (ds : List Char) : Nat := ds.foldl (fun acc c => 10 * acc + (c.toNat - '0'.toNat)) 0

/-- `(\.[0-9]+)?`: fraction digits, whether a `.` was read, the rest -/
def fracPart : List Char → List Char × Bool × List Char
  | '.' :: r => ((r.takeWhile isDigit), true, r.drop (r.takeWhile isDigit).length)
  | r => ([], false, r)

/-- `(e-)?` -/
def expPart : List Char → Bool × List Char
  | 'e' :: '-' :: r => (true, r)
  | r => (false, r)

/-- the value `atof` reads from `d1[.d2][e-d3]` (without `e-` the digits `d3` continue the number) -/
def weightVal (d1 d2 d3 : List Char) (hasFrac hasE : Bool) : Dec :=
  if hasE then
    if d1.isEmpty && !hasFrac then ⟨0, 0⟩
    else if d3.isEmpty then ⟨digitsVal (d1 ++ d2), d2.length⟩
    else ⟨digitsVal (d1 ++ d2), d2.length + digitsVal d3⟩
  else if hasFrac then ⟨digitsVal (d1 ++ d2 ++ d3), d2.length + d3.length⟩
  else ⟨digitsVal (d1 ++ d3), 0⟩

/-- `{weight}` = `\/[0-9]*(\.[0-9]+)?(e-)?[0-9]*\/`: length of the match and the value `atof(yytext+1)` -/
def mWeight : List Char → Nat × Dec
  | '/' :: r =>
    let d1 := r.takeWhile isDigit
    let fp := fracPart (r.drop d1.length)
    if fp.2.1 && fp.1.isEmpty then (0, ⟨0, 0⟩) else
    let ep := expPart fp.2.2
    let d3 := ep.2.takeWhile isDigit
    match ep.2.drop d3.length with
    | '/' :: _ =>
      (1 + d1.length + (if fp.2.1 then 1 + fp.1.length else 0) + (if ep.1 then 2 else 0) + d3.length + 1,
       weightVal d1 fp.1 d3 fp.2.1 ep.1)
    | _ => (0, ⟨0, 0⟩)
  | _ => (0, ⟨0, 0⟩)

def startsWith (p : List Char) (cs : List Char) : Bool := p.isPrefixOf cs

def bom : List Char := [Char.ofNat 0xEF, Char.ofNat 0xBB, Char.ofNat 0xBF]

/-! ## one scanner action at the head of the input -/

/-- result of matching at the head: number of characters consumed (≥ 1), token returned (if any),
next start condition -/
structure LexAct where
  len : Nat
  tok : Option Tok
  next : LState
deriving Repr, Inhabited

def lexAt : LState → List Char → LexAct
  | st, [] => ⟨1, none, st⟩
  | .comment, c :: r =>
    if c == '*' && r.head? == some '/' then ⟨2, none, .initial⟩ else ⟨1, none, .comment⟩
  | .declcomment, c :: r =>
    if c == '*' && r.head? == some '/' then ⟨2, none, .decl⟩ else ⟨1, none, .declcomment⟩
  | .initial, c :: r =>
    let cs := c :: r
    if isWs c then ⟨1, none, .initial⟩
    else if c == '/' then
      if r.head? == some '*' then ⟨2, none, .comment⟩
      else if mLineComment cs > 0 then ⟨mLineComment cs, none, .initial⟩
      else ⟨1, none, .initial⟩
    else if c == '<' then
      if mRulename cs > 0 then ⟨mRulename cs, some (.rulename (cs.take (mRulename cs))), .decl⟩
      else ⟨1, none, .initial⟩
    else if startsWith "#JSGF".toList cs then ⟨5, some .header, .decl⟩
    else if startsWith (bom ++ "#JSGF".toList) cs then ⟨8, some .header, .decl⟩
    else if startsWith "grammar".toList cs then ⟨7, some .grammar, .decl⟩
    else if startsWith "import".toList cs then ⟨6, some .import_, .decl⟩
    else if startsWith "public".toList cs then ⟨6, some .public_, .decl⟩
    else ⟨1, none, .initial⟩
  | .decl, c :: r =>
    let cs := c :: r
    if isWs c then ⟨1, none, .decl⟩
    else if c == '/' then
      if r.head? == some '*' then ⟨2, none, .declcomment⟩
      else if mLineComment cs > 0 then ⟨mLineComment cs, none, .decl⟩
      else if (mWeight cs).1 > 0 then ⟨(mWeight cs).1, some (.weight (mWeight cs).2), .decl⟩
      else ⟨1, some (.ch '/'), .decl⟩
    else if c == '<' then
      if mRulename cs > 0 then ⟨mRulename cs, some (.rulename (cs.take (mRulename cs))), .decl⟩
      else ⟨1, some (.ch '<'), .decl⟩
    else if c == '{' then
      if mTag cs > 0 then ⟨mTag cs, some (.tag (cs.take (mTag cs))), .decl⟩
      else ⟨1, some (.ch '{'), .decl⟩
    else if c == ';' then ⟨1, some (.ch ';'), .initial⟩
    else if isSpecial c then ⟨1, some (.ch c), .decl⟩
    else
      -- `{token}` and `{qstring}` both return TOKEN: the longer match wins
      let n := max (mToken cs) (mQstring cs)
      ⟨n, some (.token (cs.take n)), .decl⟩

/-- the scanner: `skip` characters still belong to the previous match -/
def lexGo : LState → Nat → List Char → List Tok
  | _, _, [] => []
  | st, skip + 1, _ :: r => lexGo st skip r
  | st, 0, c :: r =>
    let a := lexAt st (c :: r)
    match a.tok with
    | some t => t :: lexGo a.next (a.len - 1) r
    | none => lexGo a.next (a.len - 1) r

def lex (cs : List Char) : List Tok := lexGo .initial 0 cs

/-! ## text-level syntax tree -/

mutual
  inductive TExp
    | tok (s : List Char)
    | rule (s : List Char)        -- RULENAME as written, `<NULL>` / `<VOID>` included
    | group (a : TAlts)
    | opt (a : TAlts)
    | star (e : TExp)
    | plus (e : TExp)
  inductive TSeq
    | one (wt : Option Dec) (tags : List (List Char)) (e : TExp)
    | cons (wt : Option Dec) (tags : List (List Char)) (e : TExp) (s : TSeq)
  inductive TAlts
    | one (s : TSeq)
    | cons (s : TSeq) (a : TAlts)
end

structure TItem where
  wt : Option Dec
  tags : List (List Char)
  e : TExp

structure TRule where
  name : List Char
  pub : Bool
  body : TAlts

structure TGrammar where
  headerToks : List (List Char)      -- version, charset, locale (0 to 3 tokens)
  name : List Char
  imports : List (List Char)
  rules : List TRule

/-- items in reverse order → sequence (`none` for the empty list) -/
def mkTSeqRev : List TItem → Option TSeq
  | [] => none
  | last :: before =>
    some (before.foldl (fun s it => TSeq.cons it.wt it.tags it.e s) (TSeq.one last.wt last.tags last.e))

/-- sequences in reverse order → alternatives -/
def mkTAltsRev : List TSeq → Option TAlts
  | [] => none
  | last :: before => some (before.foldl (fun a s => TAlts.cons s a) (TAlts.one last))

/-! ## pushdown recogniser for `jsgf_parser.y` -/

inductive FKind
  | top
  | group
  | opt
deriving DecidableEq, Repr

/-- an open `alternate_list`: finished alternatives and the items of the current one (both
newest first), a weight waiting for its atom, and whether the last item may still take `*`/`+` -/
structure PFrame where
  kind : FKind
  alts : List TSeq
  items : List TItem
  pending : Option Dec       -- WEIGHT read, atom not yet
  havePending : Bool
  postfixOk : Bool           -- the last item is a bare `rule_atom` (no tag yet)
  outerWt : Option Dec       -- weight that applies to this group once closed (kept by the opener)

def PFrame.new (k : FKind) (w : Option Dec) : PFrame :=
  { kind := k, alts := [], items := [], pending := none, havePending := false, postfixOk := false, outerWt := w }

inductive PMode
  | start                          -- expect HEADER
  | hdr (toks : List (List Char))  -- after HEADER: up to three TOKENs, then ';'
  | wantGrammar                    -- expect GRAMMAR
  | wantGName                      -- expect TOKEN
  | wantGSemi (n : List Char)      -- expect ';'
  | body                           -- between statements
  | imp1                           -- after IMPORT
  | imp2 (n : List Char)           -- after IMPORT RULENAME
  | pub1                           -- after PUBLIC
  | rule1 (pub : Bool) (n : List Char)   -- after [PUBLIC] RULENAME, expect '='
  | inRule (pub : Bool) (n : List Char)  -- inside the alternate_list of a rule
deriving Repr

structure PState where
  mode : PMode
  hdrToks : List (List Char)
  gname : List Char
  imports : List (List Char)     -- newest first
  rules : List TRule             -- newest first
  stack : List PFrame            -- innermost first; non-empty exactly in mode `inRule`

def PState.init : PState :=
  { mode := .start, hdrToks := [], gname := [], imports := [], rules := [], stack := [] }

/-- push an item into the innermost frame -/
def pushItem (f : PFrame) (e : TExp) : PFrame :=
  { f with items := { wt := f.pending, tags := [], e } :: f.items, pending := none, havePending := false,
           postfixOk := true }

/-- close the current alternative of a frame (needs at least one item, no dangling weight) -/
def closeAlt (f : PFrame) : Option PFrame :=
  if f.havePending then none else
  match mkTSeqRev f.items with
  | none => none
  | some s => some { f with alts := s :: f.alts, items := [], postfixOk := false }

/-- one token inside a rule body; `none` = syntax error -/
def bodyStep (stack : List PFrame) (t : Tok) : Option (List PFrame) :=
  match stack with
  | [] => none
  | f :: rest =>
    match t with
    | .weight d => if f.havePending then none else some ({ f with pending := some d, havePending := true, postfixOk := false } :: rest)
    | .token s => some (pushItem f (.tok s) :: rest)
    | .rulename s => some (pushItem f (.rule s) :: rest)
    | .ch '(' => some (PFrame.new .group f.pending :: { f with pending := none, havePending := false } :: rest)
    | .ch '[' => some (PFrame.new .opt f.pending :: { f with pending := none, havePending := false } :: rest)
    | .ch ')' =>
      if f.kind != .group then none else
      match closeAlt f, rest with
      | some f', parent :: rest' =>
        match mkTAltsRev f'.alts with
        | some a => some ({ parent with items := { wt := f.outerWt, tags := [], e := .group a } :: parent.items,
                                        postfixOk := true } :: rest')
        | none => none
      | _, _ => none
    | .ch ']' =>
      if f.kind != .opt then none else
      match closeAlt f, rest with
      | some f', parent :: rest' =>
        match mkTAltsRev f'.alts with
        | some a => some ({ parent with items := { wt := f.outerWt, tags := [], e := .opt a } :: parent.items,
                                        postfixOk := true } :: rest')
        | none => none
      | _, _ => none
    | .ch '*' =>
      if !f.postfixOk then none else
      match f.items with
      | it :: its => some ({ f with items := { it with e := .star it.e } :: its } :: rest)
      | [] => none
    | .ch '+' =>
      if !f.postfixOk then none else
      match f.items with
      | it :: its => some ({ f with items := { it with e := .plus it.e } :: its } :: rest)
      | [] => none
    | .tag s =>
      if f.havePending then none else
      match f.items with
      | it :: its => some ({ f with items := { it with tags := it.tags ++ [s] } :: its, postfixOk := false } :: rest)
      | [] => none
    | .ch '|' => (closeAlt f).map fun f' => f' :: rest
    | _ => none

/-- `;` at the end of a rule: exactly the top frame is open -/
def finishRule (s : PState) (p : Bool) (n : List Char) : Option PState :=
  match s.stack with
  | [f] =>
    if f.kind != .top then none else
    match closeAlt f with
    | some f' =>
      match mkTAltsRev f'.alts with
      | some a => some { s with mode := .body, stack := [], rules := { name := n, pub := p, body := a } :: s.rules }
      | none => none
    | none => none
  | _ => none

def pstep (s : PState) (t : Tok) : Option PState :=
  match s.mode, t with
  | .start, .header => some { s with mode := .hdr [] }
  | .hdr toks, .token x => if toks.length < 3 then some { s with mode := .hdr (toks ++ [x]) } else none
  | .hdr toks, .ch ';' => some { s with mode := .wantGrammar, hdrToks := toks }
  | .wantGrammar, .grammar => some { s with mode := .wantGName }
  | .wantGName, .token x => some { s with mode := .wantGSemi x }
  | .wantGSemi x, .ch ';' => some { s with mode := .body, gname := x }
  | .body, .import_ => if s.rules.isEmpty then some { s with mode := .imp1 } else none
  | .imp1, .rulename n => some { s with mode := .imp2 n }
  | .imp2 n, .ch ';' => some { s with mode := .body, imports := n :: s.imports }
  | .body, .public_ => some { s with mode := .pub1 }
  | .pub1, .rulename n => some { s with mode := .rule1 true n }
  | .body, .rulename n => some { s with mode := .rule1 false n }
  | .rule1 p n, .ch '=' => some { s with mode := .inRule p n, stack := [PFrame.new .top none] }
  | .inRule p n, t =>
    if t = .ch ';' then finishRule s p n
    else (bodyStep s.stack t).map fun st => { s with stack := st }
  | _, _ => none

def pfold : Option PState → List Tok → Option PState
  | s, [] => s
  | none, _ => none
  | some s, t :: ts => pfold (pstep s t) ts

/-- `grammar: header | header rule_list | header import_header rule_list` -/
def pfinish (s : PState) : Option TGrammar :=
  match s.mode with
  | .body =>
    if s.rules.isEmpty && !s.imports.isEmpty then none
    else some { headerToks := s.hdrToks, name := s.gname, imports := s.imports.reverse, rules := s.rules.reverse }
  | _ => none

def parseToks (ts : List Tok) : Option TGrammar := (pfold (some PState.init) ts).bind pfinish

/-- the text front end: `none` = `jsgf_parse_string` returns NULL -/
def parseText (cs : List Char) : Option TGrammar := parseToks (lex cs)

/-! ## spelling tokens and printing (the texts `C05_parse_print` is about) -/

def digitChar (n : Nat) : Char := Char.ofNat ('0'.toNat + n % 10)

/-- decimal digits, most significant first (`fuel > n` suffices) -/
def natDigitsF : Nat → Nat → List Char
  | 0, _ => ['0']
  | fuel + 1, n => if n < 10 then [digitChar n] else natDigitsF fuel (n / 10) ++ [digitChar n]

def natDigits (n : Nat) : List Char := natDigitsF (n + 1) n

/-- `/int.frac/` with exactly `exp` fractional digits (no fraction when `exp = 0`) -/
def spellDec (d : Dec) : List Char :=
  let ds := natDigits d.mant
  if d.exp = 0 then '/' :: (ds ++ ['/'])
  else
    let padded := List.replicate (d.exp + 1 - ds.length) '0' ++ ds
    '/' :: (padded.take (padded.length - d.exp) ++ '.' :: (padded.drop (padded.length - d.exp) ++ ['/']))

def spell : Tok → List Char
  | .header => "#JSGF".toList
  | .grammar => "grammar".toList
  | .import_ => "import".toList
  | .public_ => "public".toList
  | .token s => s
  | .rulename s => s
  | .tag s => s
  | .weight d => spellDec d
  | .ch c => [c]

/-- every token followed by one blank -/
def unlex : List Tok → List Char
  | [] => []
  | t :: ts => spell t ++ ' ' :: unlex ts

/-- side conditions on spellings: a plain token has no special character and does not start with a
quote; a quoted token is `"…"` without inner quote and without a backslash before the closing one -/
def plainTokenOK (s : List Char) : Bool :=
  !s.isEmpty && s.all (fun c => !isSpecial c) && s.head? != some '"'

/-- the last character is a backslash (`prev` for the empty string) -/
def endsBS : Bool → List Char → Bool
  | prev, [] => prev
  | _, x :: w => endsBS (x == '\\') w

/-- `open w close` with no `close` inside `w` and no backslash at the end of `w` -/
def delimitedOK (op cl : Char) (s : List Char) : Bool :=
  match s with
  | c :: r => c == op && r.getLast? == some cl && !r.dropLast.contains cl && !endsBS false r.dropLast
  | [] => false

def tokenOK (s : List Char) : Bool := plainTokenOK s || delimitedOK '"' '"' s

def rulenameOK (s : List Char) : Bool :=
  match s with
  | c :: r => c == '<' && r.getLast? == some '>' && !r.dropLast.isEmpty &&
      r.dropLast.all fun x => x != '<' && x != '>'
  | [] => false

def tagOK (s : List Char) : Bool := delimitedOK '{' '}' s

/-- in which start condition the scanner produces a token, and the start condition afterwards -/
def lexNext : LState → Tok → Option LState
  | .initial, .header => some .decl
  | .initial, .grammar => some .decl
  | .initial, .import_ => some .decl
  | .initial, .public_ => some .decl
  | .initial, .rulename s => if rulenameOK s then some .decl else none
  | .decl, .rulename s => if rulenameOK s then some .decl else none
  | .decl, .token s => if tokenOK s then some .decl else none
  | .decl, .tag s => if tagOK s then some .decl else none
  | .decl, .weight _ => some .decl
  | .decl, .ch c =>
    if c = ';' then some .initial
    else if c = '=' ∨ c = '|' ∨ c = '*' ∨ c = '+' ∨ c = '(' ∨ c = ')' ∨ c = '[' ∨ c = ']' then some .decl
    else none
  | _, _ => none

/-- the token list can be produced by the scanner from its blank-separated spelling -/
def lexable : LState → List Tok → Bool
  | _, [] => true
  | st, t :: ts =>
    match lexNext st t with
    | some st' => lexable st' ts
    | none => false

def wtToks : Option Dec → List Tok
  | some d => [.weight d]
  | none => []

mutual
  def toksE : TExp → List Tok
    | .tok s => [.token s]
    | .rule s => [.rulename s]
    | .group a => .ch '(' :: (toksA a ++ [.ch ')'])
    | .opt a => .ch '[' :: (toksA a ++ [.ch ']'])
    | .star e => toksE e ++ [.ch '*']
    | .plus e => toksE e ++ [.ch '+']
  def toksS : TSeq → List Tok
    | .one wt tags e => wtToks wt ++ toksE e ++ tags.map .tag
    | .cons wt tags e s => wtToks wt ++ toksE e ++ tags.map .tag ++ toksS s
  def toksA : TAlts → List Tok
    | .one s => toksS s
    | .cons s a => toksS s ++ .ch '|' :: toksA a
end

mutual
  /-- every spelling in the tree satisfies its side condition -/
  def okE : TExp → Bool
    | .tok s => tokenOK s
    | .rule s => rulenameOK s
    | .group a => okA a
    | .opt a => okA a
    | .star e => okE e
    | .plus e => okE e
  def okS : TSeq → Bool
    | .one _ tags e => okE e && tags.all tagOK
    | .cons _ tags e s => okE e && tags.all tagOK && okS s
  def okA : TAlts → Bool
    | .one s => okS s
    | .cons s a => okS s && okA a
end

def toksRule (r : TRule) : List Tok :=
  (if r.pub then [.public_] else []) ++ .rulename r.name :: .ch '=' :: (toksA r.body ++ [.ch ';'])

def toksG (g : TGrammar) : List Tok :=
  .header :: (g.headerToks.map .token ++ [.ch ';']) ++ [.grammar, .token g.name, .ch ';'] ++
  g.imports.flatMap (fun n => [.import_, .rulename n, .ch ';']) ++ g.rules.flatMap toksRule

/-- side conditions of the printer: spellings (`tokenOK`, `rulenameOK`, `tagOK`), at most three header
tokens, and a grammar with imports has a rule -/
def TGrammar.ok (g : TGrammar) : Bool :=
  decide (g.headerToks.length ≤ 3) && (g.imports.isEmpty || !g.rules.isEmpty) &&
  g.headerToks.all tokenOK && tokenOK g.name && g.imports.all rulenameOK &&
  g.rules.all fun r => rulenameOK r.name && okA r.body

/-- the pretty-printer -/
def printG (g : TGrammar) : List Char := unlex (toksG g)

/-! ## names: `jsgf_fullname`, `jsgf_fullname_from_rule`, interning -/

def hasDotAfter1 (name : List Char) : Bool := (name.drop 1).contains '.'

/-- `jsgf_fullname(jsgf, name)`: the name under which a rule is entered -/
def fullDef (gname name : List Char) : List Char :=
  if hasDotAfter1 name then name else '<' :: (gname ++ '.' :: name.drop 1)

/-- `extract_grammar_name(rule->name)`: what precedes the last dot (searched from the second
character of the name without its `<`) -/
def grammarOf (ruleFull : List Char) : Option (List Char) :=
  let copy := ruleFull.drop 1
  let idxs := (List.range copy.length).filter fun i => decide (1 ≤ i) && copy[i]? == some '.'
  match idxs.getLast? with
  | some i => some (copy.take i)
  | none => none

/-- `jsgf_fullname_from_rule(rule, name)`: the name a reference is looked up under -/
def fullRef (ctx : Option (List Char)) (name : List Char) : List Char :=
  if hasDotAfter1 name then name else
  match ctx with
  | some gn => '<' :: (gn ++ '.' :: name.drop 1)
  | none => name

structure Names where
  rules : List (List Char) := []
  words : List (List Char) := []
deriving Repr, Inhabited

def internIn (l : List (List Char)) (s : List Char) : List (List Char) × Nat :=
  if l.contains s then (l, l.idxOf s) else (l ++ [s], l.length)

/-- exponents beyond this are clipped (the value is zero in single precision long before) -/
def expCap : Nat := 5000

def wtOf : Option Dec → Rat
  | none => 1
  | some d => Dec.toRat { d with exp := min d.exp expCap }

mutual
  /-- names inside groups, optionals and Kleene operands are looked up from an internal rule
  (`<grammar.gNNNNN>`), i.e. relative to the grammar name -/
  def convExp (gname : List Char) (ctx : Option (List Char)) : TExp → Names → Exp × Names
    | .tok s, N =>
      let r := internIn N.words s
      (.tok r.2, { N with words := r.1 })
    | .rule s, N =>
      if s = "<NULL>".toList then (.null, N)
      else if s = "<VOID>".toList then (.void, N)
      else
        let r := internIn N.rules (fullRef ctx s)
        (.ref r.2, { N with rules := r.1 })
    | .group a, N =>
      let r := convAlts gname (some gname) a N
      (.group r.1, r.2)
    | .opt a, N =>
      let r := convAlts gname (some gname) a N
      (.opt r.1, r.2)
    | .star e, N =>
      let r := convExp gname (some gname) e N
      (.star r.1, r.2)
    | .plus e, N =>
      let r := convExp gname (some gname) e N
      (.plus r.1, r.2)
  def convSeq (gname : List Char) (ctx : Option (List Char)) : TSeq → Names → Seq × Names
    | .one wt tags e, N =>
      let r := convExp gname ctx e N
      (.one (wtOf wt) tags.length r.1, r.2)
    | .cons wt tags e s, N =>
      let r := convExp gname ctx e N
      let r2 := convSeq gname ctx s r.2
      (.cons (wtOf wt) tags.length r.1 r2.1, r2.2)
  def convAlts (gname : List Char) (ctx : Option (List Char)) : TAlts → Names → Alts × Names
    | .one s, N =>
      let r := convSeq gname ctx s N
      (.one r.1, r.2)
    | .cons s a, N =>
      let r := convSeq gname ctx s N
      let r2 := convAlts gname ctx a r.2
      (.cons r.1 r2.1, r2.2)
end

def convRules (gname : List Char) : List TRule → Names → Grammar × Names
  | [], N => ([], N)
  | rl :: rest, N =>
    let full := fullDef gname rl.name
    let r := internIn N.rules full
    let b := convAlts gname (grammarOf full) rl.body { N with rules := r.1 }
    let more := convRules gname rest b.2
    ({ name := r.2, pub := rl.pub, body := b.1 } :: more.1, more.2)

/-- the surface grammar of a parsed text, with the tables of rule names and token spellings -/
def resolve (tg : TGrammar) : Grammar × Names := convRules tg.name tg.rules {}

/-! ## from a surface grammar with numbered names to a text-level tree (conventional spellings) -/

/-- a decimal literal for a rational with a power of ten as denominator (`none` otherwise) -/
def decOfRat (q : Rat) : Option Dec :=
  (List.range 24).findSome? fun k =>
    let x := q * ((10 ^ k : Nat) : Rat)
    if x.den = 1 then some ⟨x.num.toNat, k⟩ else none

def wordSpelling (n : Nat) : List Char := 'w' :: natDigits n
def ruleSpelling (n : Nat) : List Char := '<' :: 'r' :: (natDigits n ++ ['>'])

mutual
  def textE : Exp → TExp
    | .tok w => .tok (wordSpelling w)
    | .ref r => .rule (ruleSpelling r)
    | .null => .rule "<NULL>".toList
    | .void => .rule "<VOID>".toList
    | .group a => .group (textA a)
    | .opt a => .opt (textA a)
    | .star e => .star (textE e)
    | .plus e => .plus (textE e)
  def textS : Seq → TSeq
    | .one wt tags e => .one (if wt = 1 then none else decOfRat wt) (List.replicate tags "{t}".toList) (textE e)
    | .cons wt tags e s =>
      .cons (if wt = 1 then none else decOfRat wt) (List.replicate tags "{t}".toList) (textE e) (textS s)
  def textA : Alts → TAlts
    | .one s => .one (textS s)
    | .cons s a => .cons (textS s) (textA a)
end

def textG (g : Grammar) : TGrammar :=
  { headerToks := ["V1.0".toList], name := "g".toList, imports := [],
    rules := g.map fun r => { name := ruleSpelling r.name, pub := r.pub, body := textA r.body } }

end SSVerif.JsgfText
