import SSVerif.Model.BinMdef
/-!
# M16c — the mixture-weight reader of `ms_senone.c` and the assembly of the acoustic model

`senone_mixw_read`/`senone_init_s3file` (ms_senone.c, with D19k), the dimension cross-checks of
`ptm_mgau_init_s3file`, `s2_semi_mgau_init_s3file` (with D19l) and `ms_mgau_init_s3file`, and the
order in which `acmod_load_am` (acmod.c:62-140) / `load_gmm` (js/soundswallower.c) try them.  The
plans of the single files (`Model/S3file.lean`, `Model/BinMdef.lean`) are composed; what is new is
what the C code indexes *across* files: `mdef->sen2cimap[i]` for `i <` the senone count of the
mixture weights, the stream lengths of the front end against the codebook vector lengths.
Core Lean only.
-/
namespace SSVerif.S3file

structure SenOut where
  nSen : Nat
  nFeat : Nat
  nCw : Nat
  n : Nat
deriving Repr, DecidableEq

/-- `senone_mixw_read` (ms_senone.c:101-197 with D19k): the three dimensions are `uint32`, the
count is `int32`; D19k: no zero dimension, product in 64 bits, count within the file -/
def senMixwPlan (f : File) : Res SenOut := do
  let s ← parseHeader (S.init f)
  let (s, a) ← get32 s "s3file_get (arraysize) failed"
  let (s, b) ← get32 s "s3file_get (arraysize) failed"
  let (s, c) ← get32 s "s3file_get (arraysize) failed"
  let (s, d) ← get32 s "s3file_get (arraysize) failed"
  let n := (toI32 d).toNat
  if a = 0 ∨ b = 0 ∨ c = 0 ∨ toI32 d ≤ 0 ∨ a * b > n ∨ n ≠ a * b * c then
    .reject "#float32s doesn't match dimensions" else
  if n > s.avail / 4 then .reject "Mixture weights file truncated" else do
  -- s->pdf = ckd_calloc_3d(...): n cells, row (i, f) of n_cw cells (or transposed); pdf = ckd_calloc(n_cw, 4)
  rowsInside (a * b) c n (a * b)
  let s ← getRows "s3file_get (arraydata) failed" c (a * b) s
  let _ ← verifyChksum s
  .ok { nSen := a, nFeat := b, nCw := c, n }

/-- what the loaders take from the rest of the decoder -/
structure AcCtx where
  /-- `bin_mdef_n_ciphone(mdef)`, `bin_mdef_n_sen(mdef)` -/
  nCiphone : Nat
  nSen : Nat
  /-- `mdef->sen2cimap` (allocated with `sen2cimap.size` cells) -/
  sen2cimap : Array Nat
  /-- `feat_dimension2(fcb, i)` for `i < feat_dimension1(fcb)` -/
  streams : List Nat

/-- `for (i = 0; i < g->n_feat; ++i) if (g->featlen[i] != feat_dimension2(fcb, i))` -/
def streamsLoop (veclen streams : List Nat) : Nat → Nat → Res Unit
  | 0, _ => .ok ()
  | n + 1, i =>
    if i ≥ veclen.length then .idx i veclen.length else
    if i ≥ streams.length then .idx i streams.length else
    if veclen.getD i 0 ≠ streams.getD i 0 then .reject "Dimension of stream does not match"
    else streamsLoop veclen streams n (i + 1)

/-- the front-end checks shared by the three loaders (ptm_mgau.c:759-771 etc.) -/
def checkStreams (ctx : AcCtx) (g : GauOut) : Res Unit :=
  if g.nFeat ≠ ctx.streams.length then .reject "Number of streams does not match"
  else streamsLoop g.veclen ctx.streams g.nFeat 0

/-- `for (i = 0; i < n; ++i) dst[i] = mdef->sen2cimap[i]` (`sen2cb` of ptm_mgau.c:796-798, `mgau` of
ms_senone.c:244-246) -/
def copyMap (src : Array Nat) : Nat → Nat → Array Nat → Res (Array Nat)
  | 0, _, dst => .ok dst
  | n + 1, i, dst => do
    let v ← load src i
    let dst ← store dst i v
    copyMap src n (i + 1) dst

/-- the mixture weights of the PTM / semi-continuous loaders: a senone dump or a mixture-weight file -/
inductive MixSrc where
  | sendump (f : File)
  | mixw (f : File)

/-- `read_sendump` for `bin_mdef_n_sen(mdef)` senones, or `read_mixw` and (D19l) its senone count
against the model definition -/
def tiedMixw (ctx : AcCtx) (g : GauOut) : MixSrc → Res Nat
  | .sendump f => do
    let _ ← sendumpPlan f g.nFeat g.nDensity ctx.nSen
    .ok ctx.nSen
  | .mixw f => do
    let m ← mixwPlan f g.nFeat g.nDensity
    if m.nSen ≠ ctx.nSen then .reject "Number of senones in mixture weights != model definition" else .ok m.nSen

structure TiedOut where
  g : GauOut
  nSen : Nat
  /-- `sen2cb` (PTM only) -/
  sen2cb : Array Nat

/-- `ptm_mgau_init_s3file` (ptm_mgau.c:720-815) -/
def ptmPlan (ctx : AcCtx) (means vars : File) (src : MixSrc) : Res TiedOut := do
  let g ← gaudenPlan means vars
  if g.nMgau > 256 then .reject "Number of codebooks exceeds 256" else
  if g.nMgau ≠ ctx.nCiphone then .reject "Number of codebooks doesn't match number of ciphones" else do
  checkStreams ctx g
  let nSen ← tiedMixw ctx g src
  -- s->sen2cb = ckd_calloc(s->n_sen, 1)
  let sen2cb ← copyMap ctx.sen2cimap nSen 0 (Array.replicate nSen 0)
  .ok { g, nSen, sen2cb }

/-- `s2_semi_mgau_init_s3file` (s2_semi_mgau.c:905-1000) -/
def s2Plan (ctx : AcCtx) (means vars : File) (src : MixSrc) : Res TiedOut := do
  let g ← gaudenPlan means vars
  if g.nMgau ≠ 1 then .reject "only a single codebook is supported" else do
  checkStreams ctx g
  let nSen ← tiedMixw ctx g src
  .ok { g, nSen, sen2cb := #[] }

/-- the senone-to-codebook map of `senone_init_s3file` without a map file (ms_senone.c:232-262):
returns `n_gauden` afterwards -/
def senMgauMap (ctx : AcCtx) (nMgau nSen : Nat) : Res Nat :=
  if nMgau = 1 then .ok 1                       -- s->mgau = ckd_calloc(n_sen, 4)
  else if nMgau = ctx.nCiphone then do          -- s->mgau[i] = mdef->sen2cimap[i]
    let _ ← copyMap ctx.sen2cimap nSen 0 (Array.replicate nSen 0)
    .ok nMgau
  else if nSen ≤ 1 then .reject "#senone must be >1"
  else .ok nSen                                 -- s->mgau[i] = i; s->n_gauden = s->n_sen

structure MsOut where
  g : GauOut
  sen : SenOut
  nGauden : Nat

/-- `ms_mgau_init_s3file` with `senone_init_s3file` (ms_mgau.c:82-160; no senmgau file) -/
def msPlan (ctx : AcCtx) (means vars mixw : File) : Res MsOut := do
  let g ← gaudenPlan means vars
  checkStreams ctx g
  let sen ← senMixwPlan mixw
  if sen.nSen ≠ ctx.nSen then .reject "Number of senones in mixture weights != model definition" else do
  let nGauden ← senMgauMap ctx g.nMgau sen.nSen
  if sen.nFeat ≠ g.nFeat then .reject "#Feature mismatch" else
  if sen.nCw ≠ g.nDensity then .reject "#Densities mismatch" else
  if nGauden > g.nMgau then .reject "Senones need more codebooks than present" else
  .ok { g, sen, nGauden }

/-- which scorer was built -/
inductive Scorer where
  | ptm | s2 | ms
deriving Repr, DecidableEq

/-- an error return lets the caller try the next loader; `oob`/`idx` do not disappear -/
def orElse {α : Type} (x : Res α) (y : Res α) : Res α :=
  match x with
  | .reject _ => y
  | r => r

/-- the fallback order of `acmod_load_am` / `load_gmm`: PTM, semi-continuous, multi-stream (the
last one needs a mixture-weight file) -/
def gmmPlan (ctx : AcCtx) (means vars : File) (src : MixSrc) : Res Scorer :=
  orElse (do let _ ← ptmPlan ctx means vars src; .ok .ptm)
    (orElse (do let _ ← s2Plan ctx means vars src; .ok .s2)
      (match src with
       | .mixw f => do let _ ← msPlan ctx means vars f; .ok .ms
       | .sendump _ => .reject "No mixture weights file"))

/-- `acmod_load_am`: model definition, transition matrices (their count against the model
definition, D19i; `checkTmat = false` for the in-memory path of js/api.js, which has no such test),
then the Gaussian mixture loaders -/
def acmodLoadPlan (mdefF tmatF means vars : File) (src : MixSrc) (streams : List Nat) (checkTmat : Bool) :
    Res Scorer := do
  let m ← mdefPlan mdefF
  let t ← tmatPlan tmatF
  if checkTmat ∧ m.hdr.nTmat > t.nTmat then .reject "Model definition uses more transition matrices" else
  gmmPlan { nCiphone := m.hdr.nCiphone, nSen := m.hdr.nSen, sen2cimap := m.sen2cimap, streams } means vars src

end SSVerif.S3file
