import SSVerif.Model.Align
import SSVerif.Model.JsonParse
/-!
# M11b — the alignment hierarchy as `decoder_result_json(d, start, align_level)` reports it

`format_seg_align` / `format_align_iter` (decoder.c:1454-1571) print, for every alignment entry the iterator API
hands out, `{"b":%.3f,"d":%.3f,"p":%.3f,"t":"<name>"` with

    b = utt_start + (double)start / frate        d = (double)duration / frate

and nest the children of a word (phones; with `align_level ≥ 2` also the states of every phone) in a `"w"` array.
This file reads that tree back from the parsed line (`SSVerif.Json.parseLine`, the recogniser of C14) and recovers
the frame numbers from the rendered times **in exact integer arithmetic**:

* a rendered number `-?[0-9]+.[0-9][0-9][0-9]` is an integer number of thousandths (`milliOf`);
* the utterance position `start` is a C `double`, i.e. the dyadic rational `sn / sd` (the harness prints mantissa and
  exponent of the very `double` it passes to the library);
* `recoverStart` = the frame `f` nearest to `(b − start)·frate`, accepted only if
  `|b − (start + f/frate)| ≤ 0.0005 + 10⁻⁹` (half a unit of the `%.3f` rendering + slack for the two `double`
  roundings of `utt_start + (double)start / frate`); `recoverDur` likewise for `d`.

Core Lean only (the driver links this file).  The statements about these functions are in
`SSVerif/Props/C04Json.lean`.
-/
namespace SSVerif.Align.JsonObs
open SSVerif.Json

/-- value of a digit string -/
def natOfDigits (l : List UInt8) : Nat := l.foldl (fun a c => a * 10 + (c.toNat - 48)) 0

/-- `%.3f` rendering of a finite number → thousandths; anything else (exponent, other precision, `inf`) is refused -/
def milliOf (s : List UInt8) : Option Int :=
  let neg := s.head? == some 45
  let t := if neg then s.drop 1 else s
  let ip := t.takeWhile isDigit
  match t.dropWhile isDigit with
  | [46, a, b, c] =>
    if isDigit a && isDigit b && isDigit c && !ip.isEmpty then
      let v : Int := ((natOfDigits ip * 1000 + natOfDigits [a, b, c] : Nat) : Int)
      some (if neg then -v else v)
    else none
  | _ => none

/-- position of the utterance (`start = sn / sd`, `sd > 0`) and frame rate of one `decoder_result_json` call -/
structure Clock where
  sn : Int
  sd : Int
  frate : Int
  deriving Repr, DecidableEq, Inhabited

/-- tolerance of a rendered time, in units of 10⁻⁹ s: half a thousandth + 10⁻⁹ -/
def tolNano : Int := 500001

/-- `|e| ≤ bound` -/
def within (e bound : Int) : Bool := decide (-bound ≤ e ∧ e ≤ bound)

/-- integer nearest to `n / d` for `d > 0` (halves go up) -/
def roundDiv (n d : Int) : Int := (2 * n + d) / (2 * d)

/-- distance of the rendered begin time `bm/1000` from `start + f/frate`, scaled by `1000·sd·frate` -/
def startErr (c : Clock) (bm f : Int) : Int := bm * c.sd * c.frate - 1000 * c.sn * c.frate - 1000 * c.sd * f

/-- the frame a rendered begin time stands for: `f = round((b − start)·frate)`, accepted iff
`|b − (start + f/frate)| ≤ tolNano·10⁻⁹` -/
def recoverStart (c : Clock) (bm : Int) : Option Int :=
  let f := roundDiv ((bm * c.sd - 1000 * c.sn) * c.frate) (1000 * c.sd)
  if within (1000000 * startErr c bm f) (tolNano * c.sd * c.frate) then some f else none

/-- distance of the rendered duration `dm/1000` from `n/frate`, scaled by `1000·frate` -/
def durErr (c : Clock) (dm n : Int) : Int := dm * c.frate - 1000 * n

/-- the number of frames a rendered duration stands for -/
def recoverDur (c : Clock) (dm : Int) : Option Int :=
  let n := roundDiv (dm * c.frate) 1000
  if within (1000000 * durErr c dm n) (tolNano * c.frate) then some n else none

/-- side condition under which at most one frame number passes the tolerance test (`2·tol < 1/frate`) -/
def clockOK (c : Clock) : Bool := decide (0 < c.sd) && decide (0 < c.frate) && decide (c.frate ≤ 500)

def field (k : String) (kvs : List (List UInt8 × JV)) : Option JV :=
  (kvs.find? (fun kv => kv.1 == k.toUTF8.toList)).map (·.2)

/-- one printed entry: name, recovered start frame and duration; `kids` = the `"w"` array (`none` if absent) -/
structure Node where
  label : List UInt8
  e : Entry
  kids : Option (List JV)

def nodeOf (c : Clock) : JV → Option Node
  | .obj kvs =>
    match field "b" kvs, field "d" kvs, field "t" kvs with
    | some (.num b), some (.num d), some (.str t) =>
      match (milliOf b).bind (recoverStart c), (milliOf d).bind (recoverDur c) with
      | some f, some n =>
        let e : Entry := { start := f, duration := n, score := 0, parent := 0, child := 0, id := 0 }
        match field "w" kvs with
        | none => some { label := t, e, kids := none }
        | some (.arr l) => some { label := t, e, kids := some l }
        | some _ => none
      | _, _ => none
    | _, _, _ => none
  | _ => none

/-- the tree under one call: words > phones (> states with `align_level ≥ 2`), and the names level by level in
print order.  `lvl2 = true`: every phone must carry a `"w"` array (its states); `false`: no phone may. -/
structure Obs where
  tree : List WNode
  wNames : List (List UInt8)
  pNames : List (List UInt8)
  sNames : List (List UInt8)
  /-- frame recovered from the begin time of the enclosing hypothesis object (must be 0: it prints `start`) -/
  top : Int

def stateOf (c : Clock) (j : JV) : Option (List UInt8 × Entry) :=
  match nodeOf c j with
  | some n => if n.kids.isNone then some (n.label, n.e) else none
  | none => none

def phoneOf (c : Clock) (lvl2 : Bool) (j : JV) : Option (List UInt8 × PNode × List (List UInt8)) :=
  match nodeOf c j with
  | some n =>
    match n.kids, lvl2 with
    | none, false => some (n.label, { e := n.e, states := [] }, [])
    | some l, true =>
      match l.mapM (stateOf c) with
      | some ss => some (n.label, { e := n.e, states := ss.map (·.2) }, ss.map (·.1))
      | none => none
    | _, _ => none
  | none => none

def wordOf (c : Clock) (lvl2 : Bool) (j : JV) : Option (List UInt8 × WNode × List (List UInt8) × List (List UInt8)) :=
  match nodeOf c j with
  | some n =>
    match n.kids with
    | some l =>
      match l.mapM (phoneOf c lvl2) with
      | some ps => some (n.label, { e := n.e, phones := ps.map (·.2.1) }, ps.map (·.1), ps.flatMap (·.2.2))
      | none => none
    | none => none
  | none => none

/-- read the hierarchy back from the parsed line of `decoder_result_json(d, start, align_level)` -/
def obsOf (c : Clock) (lvl2 : Bool) (top : JV) : Option Obs :=
  match nodeOf c top with
  | some n =>
    match n.kids with
    | some l =>
      match l.mapM (wordOf c lvl2) with
      | some ws => some { tree := ws.map (·.2.1), wNames := ws.map (·.1), pNames := ws.flatMap (·.2.2.1),
                          sNames := ws.flatMap (·.2.2.2), top := n.e.start }
      | none => none
    | none => none
  | none => none

/-- the time clauses of C04 on a tree of frames: children exactly partition their parent, every level is
contiguous from frame 0 to `T`.  `lvl2 = false`: the tree has no state level. -/
structure TimeOK (lvl2 : Bool) (T : Int) (t : List WNode) : Prop where
  partW : ∀ w ∈ t, Contig (w.phones.map (·.e)) w.e.start (w.e.start + w.e.duration)
  contW : Contig (t.map (·.e)) 0 T
  contP : Contig ((t.flatMap (·.phones)).map (·.e)) 0 T
  partP : lvl2 = true → ∀ w ∈ t, ∀ p ∈ w.phones, Contig p.states p.e.start (p.e.start + p.e.duration)
  contS : lvl2 = true → Contig ((t.flatMap (·.phones)).flatMap (·.states)) 0 T

def timeOKB (lvl2 : Bool) (T : Int) (t : List WNode) : Bool :=
  decide (∀ w ∈ t, Contig (w.phones.map (·.e)) w.e.start (w.e.start + w.e.duration))
  && decide (Contig (t.map (·.e)) 0 T)
  && decide (Contig ((t.flatMap (·.phones)).map (·.e)) 0 T)
  && (!lvl2 || (decide (∀ w ∈ t, ∀ p ∈ w.phones, Contig p.states p.e.start (p.e.start + p.e.duration))
                && decide (Contig ((t.flatMap (·.phones)).flatMap (·.states)) 0 T)))

/-- the level-1 view of a tree: the states are not printed -/
def dropStates (t : List WNode) : List WNode :=
  t.map fun w => { w with phones := w.phones.map fun p => { p with states := [] } }

/-- (start frame, duration) of every entry of a level -/
def spans (l : List Entry) : List (Int × Int) := l.map fun e => (e.start, e.duration)

end SSVerif.Align.JsonObs
