import SSVerif.Model.Protocol
/-!
# M15, system level — two decoder instances, configuration objects, held sub-object references (C09)

`sysStep : Sys → SysCall → Sys × Ret` drives two copies (`Inst.a`, `Inst.b`) of the decoder automaton of
`Model/Protocol.lean` and adds what lives outside a decoder:

* **configuration objects** with identities (`cfgs`, allocated from `nextCfg`, never reused).  A decoder
  uses one (`cfgA` / `cfgB`); the user may hold references in slots (`config_retain(decoder_config(d))`,
  `config_init`), pass a held configuration to `decoder_init` / `decoder_reinit` (the reference is
  *consumed*, decoder.c:251-255, unless it is the decoder's own), and so make two decoders share one
  object.  Of a configuration's content only what the protocol depends on is modelled: what
  `decoder_init_grammar` finds under `jsgf` / `fsg`, and whether the object received a change that no
  decoder is known to accept (`wild`: such an object may only be queried and freed).
* **typed `config_*` calls**: the return class is computed by `cfgRet` from the parameter's type, the
  call and the class of the value, mirroring `anytype_from_str/_int/_float` (config.c).
* **held sub-objects** (`logmath_retain(decoder_logmath(d))`, `fe_retain`, `feat_retain`) and MLLR
  transforms (`mllr_read`; `decoder_apply_mllr` consumes the transform).

`decoder_init`, `decoder_reinit` and `decoder_apply_mllr` need this level (they read a configuration
object / consume a transform), so `SysCall.dec` refuses them; every other decoder call goes through
`SysCall.dec i c` unchanged.
-/
namespace SSVerif.Protocol

inductive Inst | a | b
  deriving DecidableEq, Repr

def Inst.other : Inst → Inst | .a => .b | .b => .a

inductive SubKind | lmath | fe | feat
  deriving DecidableEq, Repr

/-- declared type of a configuration parameter (`config_param_t.type`), `unknown` = no such parameter -/
inductive KeyType | unknown | int | float | bool | str
  deriving DecidableEq, Repr

/-- class of a string value with respect to the parsers of `anytype_from_str`: NULL / "" / a number not
starting with 0 or 1 (`"7"`, `"-3"`, `"2.5"`) / a number starting with 0 or 1 (`"1e-5"`) / a word starting
with one of `yYtTnNfF` / anything else -/
inductive StrVal | null | empty | num | numBool | boolWord | junk
  deriving DecidableEq, Repr

inductive CfgOp
  | setStr (v : StrVal) | setInt | setFloat | setBool | unset | setNull | same | get | typeof | json
  /-- `config_parse_json` into the existing object; `e` = it returned non-NULL -/
  | parse (e : Bool)
  deriving DecidableEq, Repr

/-- `anytype_from_str` (config.c:889-935): NULL resets the value, the empty string is refused, integers need
`sscanf("%ld")` to succeed, Booleans a first character in `yYtT1nNfF0`, `atof` and strings accept everything -/
def cfgStrOk (kt : KeyType) (v : StrVal) : Bool :=
  match v with
  | .null => true
  | .empty => false
  | _ =>
    match kt with
    | .str => true
    | .float => true
    | .int => v == .num || v == .numBool
    | .bool => v == .numBool || v == .boolWord
    | .unknown => false

/-- does the `config_*` call return non-NULL -/
def cfgRet (kt : KeyType) (op : CfgOp) : Bool :=
  match op with
  | .json => true
  | .parse e => e
  | .setStr v => kt != .unknown && cfgStrOk kt v
  | _ => kt != .unknown

/-- what a configuration object says about grammars, and whether it may still be given to a decoder -/
structure CfgObj where
  jsgf : Gram := .none
  fsg : Gram := .none
  wild : Bool := false
  deriving DecidableEq, Repr

/-- `decoder_init_grammar`: JSGF takes precedence -/
def CfgObj.eff (o : CfgObj) : Gram := if o.jsgf ≠ .none then o.jsgf else o.fsg

def CfgObj.setGram (o : CfgObj) (jsgf : Bool) (g : Gram) : CfgObj :=
  if jsgf then { o with jsgf := g } else { o with fsg := g }

def mkCfg (jsgf : Bool) (g : Gram) : CfgObj := ({} : CfgObj).setGram jsgf g

structure Sys where
  da : ApiState := {}
  db : ApiState := {}
  /-- configuration objects by identity -/
  cfgs : List (Nat × CfgObj) := []
  nextCfg : Nat := 0
  /-- the object decoder a / b uses (meaningful while the decoder lives) -/
  cfgA : Nat := 0
  cfgB : Nat := 0
  /-- configuration references held by the user: (slot, object) -/
  cfgSlots : List (Nat × Nat) := []
  /-- held `logmath_t` / `fe_t` / `feat_t` references -/
  subs : List (SubKind × Nat) := []
  /-- held MLLR transforms -/
  mllrs : List Nat := []
  deriving DecidableEq, Repr

def Sys.inst (s : Sys) : Inst → ApiState | .a => s.da | .b => s.db
def Sys.setInst (s : Sys) (i : Inst) (x : ApiState) : Sys :=
  match i with | .a => { s with da := x } | .b => { s with db := x }
def Sys.cfgOf (s : Sys) : Inst → Nat | .a => s.cfgA | .b => s.cfgB
def Sys.setCfgOf (s : Sys) (i : Inst) (id : Nat) : Sys :=
  match i with | .a => { s with cfgA := id } | .b => { s with cfgB := id }

def getCfg (l : List (Nat × CfgObj)) (id : Nat) : CfgObj :=
  match l.find? (·.1 == id) with
  | some p => p.2
  | none => {}
def putCfg (l : List (Nat × CfgObj)) (id : Nat) (o : CfgObj) : List (Nat × CfgObj) :=
  (id, o) :: l.filter (·.1 != id)

def slotObj (l : List (Nat × Nat)) (k : Nat) : Option Nat := (l.find? (·.1 == k)).map (·.2)

inductive CfgTarget | dec (i : Inst) | held (k : Nat)
  deriving DecidableEq, Repr

inductive SysCall
  /-- an ordinary decoder call on instance `i` -/
  | dec (i : Inst) (c : Call)
  /-- `decoder_init(config_init(…))`: a configuration made for this decoder -/
  | initNew (i : Inst) (jsgf : Bool) (g : Gram) (fails : Bool)
  /-- `decoder_init(held configuration)`: the reference is consumed -/
  | initHeld (i : Inst) (k : Nat)
  /-- `decoder_reinit(d, NULL)` / `decoder_reinit(d, decoder_config(d))` -/
  | reinitKeep (i : Inst)
  | reinitNew (i : Inst) (jsgf : Bool) (g : Gram)
  /-- `decoder_reinit(d, held configuration)`: consumed unless it is the decoder's own -/
  | reinitHeld (i : Inst) (k : Nat)
  /-- `config_set_str(…, "jsgf"|"fsg", …)` -/
  | cfgGram (t : CfgTarget) (jsgf : Bool) (g : Gram)
  /-- any other `config_*` call; `safe` = it leaves every parameter at a value decoders accept -/
  | cfgCall (t : CfgTarget) (kt : KeyType) (op : CfgOp) (safe : Bool)
  | cfgNew (k : Nat) (jsgf : Bool) (g : Gram)
  | cfgRetainDec (i : Inst) (k : Nat)
  | cfgRetainHeld (k j : Nat)
  | cfgUse (k : Nat)
  | cfgFree (k : Nat)
  | subRetain (i : Inst) (kind : SubKind) (k : Nat)
  | subUse (kind : SubKind) (k : Nat)
  | subFree (kind : SubKind) (k : Nat)
  | mllrRead (k : Nat) (ok : Bool)
  /-- `decoder_apply_mllr(d, held transform)`; `keep` = the user retained it first and keeps the slot -/
  | mllrApply (i : Inst) (k : Nat) (keep : Bool)
  | mllrApplyNull (i : Inst)
  | mllrFree (k : Nat)
  deriving DecidableEq, Repr

/-- calls that must come through the system level -/
def needsSys : Call → Bool
  | .init _ _ => true | .reinit _ => true | .mllrApply _ => true | _ => false

/-- the object a `config_*` call works on -/
def targetObj (s : Sys) : CfgTarget → Option Nat
  | .dec i => if (s.inst i).refs ≠ 0 then some (s.cfgOf i) else none
  | .held k => slotObj s.cfgSlots k

/-- some live decoder uses configuration object `id` -/
def inUse (s : Sys) (id : Nat) : Bool :=
  (decide (s.da.refs ≠ 0) && s.cfgA == id) || (decide (s.db.refs ≠ 0) && s.cfgB == id)

def sysStep (s : Sys) (c : SysCall) : Sys × Ret :=
  match c with
  | .dec i c =>
    if needsSys c then (s, .oop)
    else let r := step (s.inst i) c; (s.setInst i r.1, r.2)
  | .initNew i jsgf g fails =>
    let o := mkCfg jsgf g
    let r := step (s.inst i) (.init o.eff fails)
    if r.2 = .ptr then
      ({ (s.setInst i r.1).setCfgOf i s.nextCfg with cfgs := putCfg s.cfgs s.nextCfg o, nextCfg := s.nextCfg + 1 }, .ptr)
    else (s, r.2)        -- the configuration is consumed and released with the failed decoder
  | .initHeld i k =>
    match slotObj s.cfgSlots k with
    | none => (s, .oop)
    | some id =>
      let o := getCfg s.cfgs id
      if o.wild then (s, .oop) else
      let r := step (s.inst i) (.init o.eff false)
      if r.2 = .oop then (s, .oop)
      else
        let s1 := { s with cfgSlots := s.cfgSlots.filter (·.1 != k) }
        if r.2 = .ptr then ((s1.setInst i r.1).setCfgOf i id, .ptr) else (s1, r.2)
  | .reinitKeep i =>
    let r := step (s.inst i) (.reinit (getCfg s.cfgs (s.cfgOf i)).eff)
    (s.setInst i r.1, r.2)
  | .reinitNew i jsgf g =>
    let o := mkCfg jsgf g
    let r := step (s.inst i) (.reinit o.eff)
    if r.2 = .oop then (s, .oop)
    else ({ (s.setInst i r.1).setCfgOf i s.nextCfg with cfgs := putCfg s.cfgs s.nextCfg o, nextCfg := s.nextCfg + 1 }, r.2)
  | .reinitHeld i k =>
    match slotObj s.cfgSlots k with
    | none => (s, .oop)
    | some id =>
      let o := getCfg s.cfgs id
      if o.wild then (s, .oop) else
      let r := step (s.inst i) (.reinit o.eff)
      if r.2 = .oop then (s, .oop)
      else if id = s.cfgOf i then (s.setInst i r.1, r.2)
      else (({ s with cfgSlots := s.cfgSlots.filter (·.1 != k) }.setInst i r.1).setCfgOf i id, r.2)
  | .cfgGram t jsgf g =>
    match targetObj s t with
    | none => (s, .oop)
    | some id => ({ s with cfgs := putCfg s.cfgs id ((getCfg s.cfgs id).setGram jsgf g) }, .ptr)
  | .cfgCall t kt op safe =>
    match targetObj s t with
    | none => (s, .oop)
    | some id =>
      if safe then (s, ptrIf (cfgRet kt op))
      else if inUse s id then (s, .oop)
      else ({ s with cfgs := putCfg s.cfgs id { getCfg s.cfgs id with wild := true } }, ptrIf (cfgRet kt op))
  | .cfgNew k jsgf g =>
    if (slotObj s.cfgSlots k).isSome then (s, .oop)
    else ({ s with cfgs := putCfg s.cfgs s.nextCfg (mkCfg jsgf g), nextCfg := s.nextCfg + 1,
                   cfgSlots := (k, s.nextCfg) :: s.cfgSlots }, .ptr)
  | .cfgRetainDec i k =>
    if (s.inst i).refs = 0 ∨ (slotObj s.cfgSlots k).isSome then (s, .oop)
    else ({ s with cfgSlots := (k, s.cfgOf i) :: s.cfgSlots }, .ptr)
  | .cfgRetainHeld k j =>
    match slotObj s.cfgSlots k with
    | none => (s, .oop)
    | some id =>
      if (slotObj s.cfgSlots j).isSome then (s, .oop)
      else ({ s with cfgSlots := (j, id) :: s.cfgSlots }, .ptr)
  | .cfgUse k => if (slotObj s.cfgSlots k).isSome then (s, .void) else (s, .oop)
  | .cfgFree k =>
    if (slotObj s.cfgSlots k).isSome then ({ s with cfgSlots := s.cfgSlots.filter (·.1 != k) }, .void)
    else (s, .oop)
  | .subRetain i kind k =>
    if (s.inst i).refs = 0 ∨ (kind, k) ∈ s.subs then (s, .oop)
    else ({ s with subs := (kind, k) :: s.subs }, .ptr)
  | .subUse kind k => if (kind, k) ∈ s.subs then (s, .void) else (s, .oop)
  | .subFree kind k =>
    if (kind, k) ∈ s.subs then ({ s with subs := s.subs.filter (· != (kind, k)) }, .void) else (s, .oop)
  | .mllrRead k ok =>
    if k ∈ s.mllrs then (s, .oop)
    else if ok then ({ s with mllrs := k :: s.mllrs }, .ptr) else (s, .null)
  | .mllrApply i k keep =>
    if k ∉ s.mllrs then (s, .oop) else
    let r := step (s.inst i) (.mllrApply true)
    if r.2 = .oop then (s, .oop)
    else
      let s1 := if keep then s else { s with mllrs := s.mllrs.filter (· != k) }
      (s1.setInst i r.1, r.2)
  | .mllrApplyNull i =>
    let r := step (s.inst i) (.mllrApply false)
    (s.setInst i r.1, r.2)
  | .mllrFree k =>
    if k ∈ s.mllrs then ({ s with mllrs := s.mllrs.filter (· != k) }, .void) else (s, .oop)

def sysRun (s : Sys) : List SysCall → Sys
  | [] => s
  | c :: cs => sysRun (sysStep s c).1 cs

def sysRets (s : Sys) : List SysCall → List Ret
  | [] => []
  | c :: cs => (sysStep s c).2 :: sysRets (sysStep s c).1 cs

/-- initial system: no decoder, nothing held.  Identities 0 and 1 are placeholders for the configurations of the
two (not yet created) decoders, so that `cfgA ≠ cfgB` holds from the start; real objects start at 2 -/
def sys0 : Sys := { cfgA := 0, cfgB := 1, nextCfg := 2 }

/-- the decoder instance a call is made on (`none`: a call on held objects only) -/
def instOf : SysCall → Option Inst
  | .dec i _ => some i | .initNew i _ _ _ => some i | .initHeld i _ => some i | .reinitKeep i => some i
  | .reinitNew i _ _ => some i | .reinitHeld i _ => some i
  | .cfgGram (.dec i) _ _ => some i | .cfgCall (.dec i) _ _ _ => some i
  | .cfgRetainDec i _ => some i | .subRetain i _ _ => some i
  | .mllrApply i _ _ => some i | .mllrApplyNull i => some i
  | _ => none

/-- calls in which a decoder only ever touches a configuration made for it (no held objects at all) -/
def ownOnly : SysCall → Bool
  | .dec _ _ => true | .initNew _ _ _ _ => true | .reinitKeep _ => true | .reinitNew _ _ _ => true
  | .cfgGram (.dec _) _ _ => true | .cfgCall (.dec _) _ _ _ => true
  | _ => false

/-! ## ledger of the system -/

inductive SysRef
  | ofA (r : Ref) | ofB (r : Ref)
  | userConfig (k : Nat) | userSub (kind : SubKind) (k : Nat) | userTransform (k : Nat)
  deriving DecidableEq, Repr

def sysLedger (s : Sys) : List SysRef :=
  (ledger s.da).map .ofA ++ (ledger s.db).map .ofB
  ++ s.cfgSlots.map (fun p => .userConfig p.1) ++ s.subs.map (fun p => .userSub p.1 p.2)
  ++ s.mllrs.map .userTransform

def SysClosed (s : Sys) : Prop :=
  Closed s.da ∧ Closed s.db ∧ s.cfgSlots = [] ∧ s.subs = [] ∧ s.mllrs = []

instance (s : Sys) : Decidable (SysClosed s) := by unfold SysClosed; infer_instance

end SSVerif.Protocol
