import SSVerif.Model.Nfa
/-!
# M8 — the Viterbi history table and the backtrace (`fsg_history.c`, `fsg_search.c`)

The history table is the only record of the path the search took, so it is the interface of
C01 (results are sentences), C03 (segmentation tiles / scores add up) and C11.

* `Entry` mirrors `fsg_hist_entry_t` (include/soundswallower/fsg_history.h:98-109); the pointer
  `fsglink` becomes an index into the list of arcs of the search FSG.
* `findExit` mirrors `fsg_search_find_exit` (src/fsg_search.c:853-924) statement by statement,
* `hyp` mirrors `fsg_search_hyp` (947-1030, the non-bestpath branch: `__FSG_ALLOW_BESTPATH__` is 0),
* `segs` mirrors `fsg_search_seg_iter` + `fsg_seg_bp2itor` + `fsg_seg_next` (1032-1142).

A minimal FSG record lives here (links with from/to/logp/wid, start, final, filler flags);
`toNfa` reads it as an ε-NFA of the shared library so that results compose with C05/C13.
Core Lean only.
-/
namespace SSVerif.Hist
open SSVerif.Nfa

/-- `fsg_link_t` (fsg_model.h:71-76); `wid < 0` = null/epsilon transition -/
structure Link where
  src : Nat
  dst : Nat
  logp : Int
  wid : Int
deriving Repr, DecidableEq, Inhabited

/-- the part of `fsg_model_t` the backtrace reads: arcs (index = link id), start/final state and
the `silwords` bit vector (`fsg_model_is_filler`) as the list of flagged word ids -/
structure Fsg where
  links : Array Link
  start : Nat
  final : Nat
  filler : List Nat
deriving Repr

def nullLink : Link := ⟨0, 0, 0, -1⟩

def Fsg.link (g : Fsg) (lid : Nat) : Link := g.links.getD lid nullLink

def Fsg.isFiller (g : Fsg) (wid : Int) : Bool := g.filler.contains wid.toNat

/-- label of a link in the ε-NFA reading: `none` for `wid < 0` -/
def Link.label (l : Link) : Option Nat := if l.wid < 0 then none else some l.wid.toNat

/-- the search FSG read as an ε-NFA (states and word ids are the FSG's own numbers) -/
def Fsg.toNfa (g : Fsg) : Nfa :=
  { start := g.start, final := g.final, arcs := g.links.toList.map fun l => (l.src, l.label, l.dst) }

/-- `fsg_hist_entry_t` -/
structure Entry where
  link : Option Nat
  frame : Int
  score : Int
  pred : Int
  lc : Int := 0
  rc : List Nat := []
deriving Repr, Inhabited, DecidableEq

abbrev Hist := Array Entry

/-- the dummy root entry `fsg_search_start` creates (fsg_search.c:790-791) -/
def dummy : Entry := { link := none, frame := -1, score := 0, pred := -1 }

/-- total read of entry `i` (the C code dereferences `fsg_history_entry_get` unchecked; every
theorem below guards the index through `WFHist`) -/
def ent (h : Hist) (i : Nat) : Entry := h.getD i dummy

/-- `fsg_history_entry_get(h, id)` for a C `int` id: `NULL` outside the table -/
def get? (h : Hist) (id : Int) : Option Entry := if id < 0 then none else h[id.toNat]?

/-- destination FSG state of an entry: `l ? fsg_link_to_state(l) : fsg_model_start_state(fsg)`
(fsg_search.c:563, 617) -/
def dest (g : Fsg) (e : Entry) : Nat :=
  match e.link with
  | none => g.start
  | some lid => (g.link lid).dst

/-! ### `fsg_search_find_exit` -/

def intMin : Int := -2147483648

/-- first loop (863-871): from `bpidx` downwards, the first index `> 0` whose frame is
`≤ frameIdx`; `0` when there is none -/
def scanBack (h : Hist) (frameIdx : Int) : Nat → Nat
  | 0 => 0
  | k + 1 => if (ent h (k + 1)).frame ≤ frameIdx then k + 1 else scanBack h frameIdx k

structure Best where
  score : Int
  hist : Int
deriving Repr, DecidableEq

/-- body of the second loop for one entry (887-898) -/
def exitStep (g : Fsg) (final : Bool) (b : Best) (bpidx : Nat) (l : Link) (score : Int) : Best :=
  if score = b.score ∧ l.dst = g.final then { b with hist := bpidx }          -- prefer final hypothesis
  else if score > b.score then
    if !final ∨ l.dst = g.final then { score := score, hist := bpidx } else b
  else b

/-- one iteration of `while (frm == last_frm)`: `none` when the loop condition fails or
`fl == NULL` breaks, otherwise the updated best -/
def exitIter (g : Fsg) (h : Hist) (final : Bool) (lastFrm : Int) (bpidx : Nat) (b : Best) : Option Best :=
  let e := ent h bpidx
  if e.frame ≠ lastFrm then none else
  match e.link with
  | none => none
  | some lid => some (exitStep g final b bpidx (g.link lid) e.score)

/-- second loop (878-906); the recursion is on `bpidx` (`--bpidx; if (bpidx < 0) break`) -/
def exitLoop (g : Fsg) (h : Hist) (final : Bool) (lastFrm : Int) : Nat → Best → Best
  | 0, b => match exitIter g h final lastFrm 0 b with
    | none => b
    | some b' => b'
  | k + 1, b => match exitIter g h final lastFrm (k + 1) b with
    | none => b
    | some b' => exitLoop g h final lastFrm k b'

/-- result of `fsg_search_find_exit`: `bp` is the return value (`≤ 0`: no hypothesis), `score` is
what `*out_score` holds afterwards when the caller initialised it to 0 -/
structure Exit where
  bp : Int
  score : Int
deriving Repr, DecidableEq

/-- `fsg_search_find_exit(fsgs, frame_idx, final, &out_score)`; `cur` = `fsgs->frame` -/
def findExit (g : Fsg) (h : Hist) (cur : Int) (frameIdx0 : Int) (final : Bool) : Exit :=
  let frameIdx := if frameIdx0 = -1 then cur - 1 else frameIdx0
  if h.size = 0 then ⟨-1, 0⟩ else                      -- bpidx = n_entries - 1 = -1
  let bpidx := scanBack h frameIdx (h.size - 1)
  if bpidx = 0 then ⟨0, 0⟩ else                        -- "No hypothesis (yet)": return bpidx
  let lastFrm := (ent h bpidx).frame
  let b := exitLoop g h final lastFrm bpidx ⟨intMin, -1⟩
  if b.hist = -1 then ⟨-1, 0⟩                          -- "Final result does not match the grammar"
  else ⟨b.hist, b.score⟩

/-! ### backtrace -/

/-- `while (bp > 0) { … bp = pred }`, collected in forward order as `fsg_search_seg_iter` stores it
(1113-1131).  `fuel` bounds the walk (in a well-formed table `pred < bp`, so `size` suffices; the C
loop would not terminate on a cyclic table) -/
def chainGo (h : Hist) : Nat → Int → List Nat → List Nat
  | 0, _, acc => acc
  | f + 1, bp, acc => if bp > 0 then chainGo h f (ent h bp.toNat).pred (bp.toNat :: acc) else acc

def chain (h : Hist) (bp : Int) : List Nat := chainGo h h.size bp []

/-- link of an entry on the backtrace; an entry without link is read as a null link (the C code
would dereference NULL — excluded by `WFHist`) -/
def linkOf (g : Fsg) (e : Entry) : Link :=
  match e.link with
  | none => nullLink
  | some lid => g.link lid

/-- words of the hypothesis: `wid < 0 || fsg_model_is_filler` entries are skipped, the others are
reported through `base` (= `dict_basestr(dict_wordid(fsg_model_word_str(wid)))`) (986-999) -/
def hypWords {β : Type} (base : Nat → β) (g : Fsg) (h : Hist) (bp : Int) : List β :=
  (chain h bp).filterMap fun i =>
    let l := linkOf g (ent h i)
    if l.wid < 0 ∨ g.isFiller l.wid then none else some (base l.wid.toNat)

/-- `fsg_search_hyp`: `none` = NULL (no exit, or `len == 0`: no word left after skipping),
second component = `*out_score` -/
def hyp {β : Type} (base : Nat → β) (g : Fsg) (h : Hist) (cur : Int) (final : Bool) : Option (List β) × Int :=
  let x := findExit g h cur cur final
  if x.bp ≤ 0 then (none, x.score) else
  let ws := hypWords base g h x.bp
  (if ws.isEmpty then none else some ws, x.score)

structure Seg where
  wid : Int
  sf : Int
  ef : Int
  ascr : Int
  lscr : Int
  prob : Int
deriving Repr, DecidableEq

/-- `fsg_seg_bp2itor` (1032-1055) with the repair of D24 (a marker recorded before the first
frame is reported at frame 0 instead of −1); `shift` = `SENSCR_SHIFT` -/
def bp2itor (shift : Nat) (g : Fsg) (h : Hist) (e : Entry) : Seg :=
  let ph := if e.pred ≥ 0 then get? h e.pred else none
  let l := linkOf g e
  let ef := e.frame
  let sf0 : Int := match ph with
    | some p => p.frame + 1
    | none => 0
  let sf := if sf0 > ef then ef else sf0             -- "kind of silly but it happens for null transitions"
  let lscr := l.logp >>> shift
  let ascr := match ph with
    | some p => e.score - p.score - lscr
    | none => e.score - lscr
  let sf' := if ef < 0 then 0 else sf                -- D24 repair
  let ef' := if ef < 0 then 0 else ef
  { wid := l.wid, sf := sf', ef := ef', ascr := ascr, lscr := lscr, prob := lscr + ascr }

/-- the segments `seg_iter_next` walks through, for the exit `bp` -/
def segsAt (shift : Nat) (g : Fsg) (h : Hist) (bp : Int) : List Seg :=
  (chain h bp).map fun i => bp2itor shift g h (ent h i)

/-- `fsg_search_seg_iter`: `none` = NULL -/
def segs (shift : Nat) (g : Fsg) (h : Hist) (cur : Int) (final : Bool) : Option (List Seg) :=
  let x := findExit g h cur cur final
  if x.bp ≤ 0 then none else
  let s := segsAt shift g h x.bp
  if s.isEmpty then none else some s                  -- `n_hist == 0`

/-! ### well-formedness of a history table (checked on every dumped table) -/

/-- Invariant of the table the search produces (`fsg_search_start/step`, `fsg_history_entry_add`);
`cur` = `fsgs->frame`, the number of frames searched. -/
structure WFHist (g : Fsg) (h : Hist) (cur : Int) : Prop where
  nonempty : 0 < h.size
  root : (ent h 0).link = none ∧ (ent h 0).frame = -1 ∧ (ent h 0).pred = -1 ∧ (ent h 0).score = 0
  /-- every other entry records a real arc of the FSG that leaves the state its predecessor
  (an earlier entry) ended in; null arcs keep the frame, word arcs strictly advance it -/
  step : ∀ i, 0 < i → i < h.size → ∃ lid, (ent h i).link = some lid ∧ lid < g.links.size ∧
      0 ≤ (ent h i).pred ∧ (ent h i).pred.toNat < i ∧
      (g.link lid).src = dest g (ent h (ent h i).pred.toNat) ∧
      (if (g.link lid).wid < 0 then (ent h i).frame = (ent h (ent h i).pred.toNat).frame
       else (ent h (ent h i).pred.toNat).frame < (ent h i).frame)
  mono : ∀ i, i + 1 < h.size → (ent h i).frame ≤ (ent h (i + 1)).frame
  below : ∀ i, i < h.size → (ent h i).frame < cur

def wfStepB (g : Fsg) (h : Hist) (i : Nat) : Bool :=
  match (ent h i).link with
  | none => false
  | some lid =>
    let e := ent h i
    decide (lid < g.links.size) && decide (0 ≤ e.pred) && decide (e.pred.toNat < i) &&
    decide ((g.link lid).src = dest g (ent h e.pred.toNat)) &&
    (if (g.link lid).wid < 0 then decide (e.frame = (ent h e.pred.toNat).frame)
     else decide ((ent h e.pred.toNat).frame < e.frame))

/-- decidable form of `WFHist` (`wfHistB_iff` in `Proofs/Hist.lean`) -/
def wfHistB (g : Fsg) (h : Hist) (cur : Int) : Bool :=
  decide (0 < h.size) &&
  ((ent h 0).link.isNone && decide ((ent h 0).frame = -1) && decide ((ent h 0).pred = -1) &&
    decide ((ent h 0).score = 0)) &&
  ((List.range h.size).all fun i => i == 0 || wfStepB g h i) &&
  ((List.range h.size).all fun i => !decide (i + 1 < h.size) || decide ((ent h i).frame ≤ (ent h (i + 1)).frame)) &&
  ((List.range h.size).all fun i => decide ((ent h i).frame < cur))

/-! ### C03 predicates on a segment list (evaluated on the real iterator output) -/

/-- `prev` = end frame of the last word/filler segment so far (−1 before the first).  A null
segment is a zero-length marker `sf = ef = max prev 0` and moves no time; a word/filler segment
starts at `prev + 1`, spans at least one frame and ends before `frames`. -/
def tileFrom (frames : Int) : Int → List Seg → Prop
  | _, [] => True
  | prev, s :: rest =>
    if s.wid < 0 then (s.sf = max prev 0 ∧ s.ef = max prev 0) ∧ tileFrom frames prev rest
    else (s.sf = prev + 1 ∧ s.sf ≤ s.ef ∧ s.ef < frames) ∧ tileFrom frames s.ef rest

def SegsTile (frames : Int) (l : List Seg) : Prop := tileFrom frames (-1) l

def tileFromB (frames : Int) : Int → List Seg → Bool
  | _, [] => true
  | prev, s :: rest =>
    if s.wid < 0 then (decide (s.sf = max prev 0) && decide (s.ef = max prev 0)) && tileFromB frames prev rest
    else (decide (s.sf = prev + 1) && decide (s.sf ≤ s.ef) && decide (s.ef < frames)) && tileFromB frames s.ef rest

def segsTileB (frames : Int) (l : List Seg) : Bool := tileFromB frames (-1) l

/-- per-segment scores are consistent (`prob = ascr + lscr`) and add up to the path score -/
def ScoresSum (l : List Seg) (total : Int) : Prop :=
  (∀ s ∈ l, s.prob = s.ascr + s.lscr) ∧ (l.map fun s => s.ascr + s.lscr).sum = total

def scoresSumB (l : List Seg) (total : Int) : Bool :=
  (l.all fun s => decide (s.prob = s.ascr + s.lscr)) && decide ((l.map fun s => s.ascr + s.lscr).sum = total)

/-- hypothesis = base forms of the non-filler, non-null segment words in order -/
def segWords {β : Type} (base : Nat → β) (g : Fsg) (l : List Seg) : List β :=
  l.filterMap fun s => if s.wid < 0 ∨ g.isFiller s.wid then none else some (base s.wid.toNat)

/-! ### projection of the search grammar onto the grammar the user loaded -/

/-- `π w = none` for silence/filler words, `some b` = base form otherwise.  Every arc of the
search grammar `S` is either an arc of the loaded grammar `G` (labels already projected), or a
filler arc that is a self-loop, or an arc whose base form is an arc of `G`. -/
def projB (S G : Nfa) (π : Nat → Option Nat) : Bool :=
  S.start == G.start && S.final == G.final &&
  S.arcs.all fun (p, l, r) =>
    match l with
    | none => G.arcs.contains (p, none, r)
    | some w =>
      match π w with
      | none => p == r || G.arcs.contains (p, none, r)
      | some b => G.arcs.contains (p, some b, r)

/-- verified decision of "`w` labels some path leaving the start state" (partial results);
`none` when the self-check of the computed subset run fails (`decidePrefix_sound`) -/
def decidePrefix (A : Nfa) (w : List Nat) : Option Bool :=
  let sets := runSets A w
  if checkRun A w sets then some (!(sets.getLastD []).isEmpty) else none

end SSVerif.Hist
