import SSVerif.Model.Dict2pid
import SSVerif.Model.LexFlatHyps
/-!
# M14c — the `dict2pid` tables the code builds, as the lookups the lextree construction (C02 ∘ M10) reads

`Model/Dict2pid.lean` models `dict2pid_build` / `populate_lrdiph` / `compress_table` / `dict2pid_add_word` over the
raw triphone lookup of `bin_mdef.c` (`nearest`, `BinMdef.ssidOf`).  This file adds

* the **dense view** of `compress_right_context_tree` / `compress_left_right_context_tree`: the C code compresses
  EVERY row `rdiph_rc[b][l]`, written or not (`denseRow`, `rssidDense`: the `{ssid, cimap, n_ssid}` of every pair
  `(b, l) < n_ci × n_ci`), and every `lrdiph_rc[b][l]` into `lrssid[b][l]` (`lrssidOf`; never refreshed by
  `dict2pid_add_word`, read by no search);
* the **macro lookups** as the five functions of `Search.LexIn` the lextree construction reads
  (`dict2pid_lrdiph_rc(d2p, ci, lc, sil)`, `dict2pid_ldiph_lc`, `dict2pid_internal`, `dict2pid_rssid(..)->cimap[rc]`,
  `dict2pid_rssid(..)->ssid[j]`), taken from a model-built `Tabs` and the dictionary (`LexIn.withD2p`);
* the flat network's direct lookup taken from the same model definition (`Model.withMdef`);
* `mdefGood`: the decidable facts about the acoustic model definition under which `pid2ssid(phone_id_nearest(..))` is
  never `BAD_S3SSID` (every leaf of `cd_tree` and every CI phone is a phone id with a senone-sequence id, no stored id
  is `0xffff`) — evaluated on the dumped real model by the c16 driver.

Core Lean only.
-/
namespace SSVerif.Dict2pid
open SSVerif.Dict

/-! ## dense view of the two compression passes -/

/-- the uncompressed row `rdiph_rc[b][l]` at the end of the word loop of `dict2pid_build`: the row written last, or
`n_ci` times `BAD_S3SSID` (the initialisation loop dict2pid.c:401-409) -/
def Build.denseRow (nCi : Nat) (s : Build) (b l : Nat) : List Nat :=
  (s.rdiph.lookup (b, l)).getD (List.replicate nCi bad)

/-- `compress_right_context_tree`: `rssid[b][l]` for EVERY pair — `compress_table`, then `n_ssid` = number of leading
non-BAD ids; `tmpssid[0] == BAD` gives `{NULL, NULL, 0}` -/
def Build.rssidDense (nCi : Nat) (s : Build) (b l : Nat) : Xwd :=
  let x := compressTable (s.denseRow nCi b l)
  if x.ssid.length = 0 then { ssid := [], cimap := [] } else x

/-- `compress_left_right_context_tree`: `lrssid[b][l]` from the block `lrdiph_rc[b]` (all BAD when never written) -/
def lrssidOf (nCi : Nat) (lrdiph : List (Nat × List (List Nat))) (b l : Nat) : Xwd :=
  let row := match lrdiph.lookup b with
    | some blk => blk.getD l (List.replicate nCi bad)
    | none => List.replicate nCi bad
  let x := compressTable row
  if x.ssid.length = 0 then { ssid := [], cimap := [] } else x

/-! ## the macro lookups, as the lextree construction reads them -/

/-- pronunciation of dictionary word `dw` (`dict_pron(dict, dw, ·)`) -/
def pronOf (d : Dict) (dw : Nat) : List Nat := ((d.words[dw]?).map (·.pron)).getD []

/-- `dict2pid_rssid(d2p, ci, lc)->cimap[rc]` -/
def Tabs.rcMap (t : Tabs) (ci lc rc : Nat) : Nat := (t.rssidAt ci lc).cimap.getD rc (t.rssidAt ci lc).ssid.length

/-- `dict2pid_rssid(d2p, ci, lc)->ssid[j]` -/
def Tabs.rcSsid (t : Tabs) (ci lc j : Nat) : Nat := (t.rssidAt ci lc).ssid.getD j bad

/-- the lextree inputs `li` with the five `dict2pid` lookups read from the model's tables `t` (built from the model
definition `m`) and the model's dictionary `d` -/
def withD2p (li : SSVerif.Search.LexIn) (m : BinMdef) (d : Dict) (t : Tabs) : SSVerif.Search.LexIn :=
  { li with
    lrdiph := fun ci lc => t.lrdiphRc ci lc li.sil
    ldiph := fun ci rc lc => t.ldiphLc ci rc lc
    internal := fun dw pos => internal m (pronOf d dw) pos
    rcMap := fun ci lc rc => t.rcMap ci lc rc
    rcSsid := fun ci lc j => t.rcSsid ci lc j }

/-- the flat network's model with the direct lookup `pid2ssid(phone_id_nearest(ci, lc, rc, wpos))` of `m` -/
def withMdef (M : SSVerif.FlatNet.Model) (m : BinMdef) : SSVerif.FlatNet.Model :=
  { M with ssid := fun ci lc rc wpos => some (m.ssidOf ci lc rc wpos) }

/-! ## the model definition never yields `BAD_S3SSID` -/

/-- every leaf of `cd_tree` holds a phone id with a senone-sequence id, so does every CI phone, and no stored
senone-sequence id is `0xffff` -/
def mdefGood (m : BinMdef) : Bool :=
  decide (m.nCi ≤ m.ssid.size) &&
  m.tree.toList.all (fun nd => nd.nDown != 0 || decide (nd.c.toNat < m.ssid.size)) &&
  m.ssid.toList.all (fun x => x != bad)

/-- the `dict2pid` part of `LexFlat.WordLook`, decided on one word of the model's dictionary: what the lextree
construction reads through the macros for dictionary word `dw` equals the direct lookup — over all context phones -/
def d2pLookB (m : BinMdef) (d : Dict) (t : Tabs) (sil dw : Nat) : Bool :=
  let p := pronOf d dw
  let n := p.length
  (n != 1 || (List.range m.nCi).all fun l => t.lrdiphRc (p.getD 0 0) l sil == m.ssidOf (p.getD 0 0) l sil posSingle) &&
  (decide (n < 2) || (List.range m.nCi).all fun l =>
      t.ldiphLc (p.getD 0 0) (p.getD 1 0) l == m.ssidOf (p.getD 0 0) l (p.getD 1 0) posBegin) &&
  ((List.range (n - 2)).all fun k =>
      internal m p (k + 1) == m.ssidOf (p.getD (k + 1) 0) (p.getD k 0) (p.getD (k + 2) 0) posInternal) &&
  (decide (n < 2) || (List.range m.nCi).all fun r =>
      t.rcSsid (p.getD (n - 1) 0) (p.getD (n - 2) 0) (t.rcMap (p.getD (n - 1) 0) (p.getD (n - 2) 0) r) ==
        m.ssidOf (p.getD (n - 1) 0) (p.getD (n - 2) 0) r posEnd)

end SSVerif.Dict2pid
