import SSVerif.Model.Json
import SSVerif.Proofs.Fmt3
import SSVerif.Model.Dbl
/-!
# The `Fmt` parameter of the `decoder_result_json` model (M13) instantiated by the exact `%.3f` rendering

`Model/Json.lean` leaves `snprintf`'s treatment of a `%.3f` argument abstract (`Fmt`: a text, a count, and the
assumed law *count = length of the text*).  Here the text is `Fmt3.fmtBits` (what glibc prints for the double with
that bit pattern), the count is `Fmt3.lenBits` (a counting loop that never builds the text), and the law is the
theorem `Fmt3.length_fmtBits`.  `val a` is the bit pattern of the `double` the C code passes for the symbolic
argument `a : Num`.  Core Lean only (the proof file it imports uses no Mathlib).
-/
namespace SSVerif.Json
open SSVerif.Fmt3

theorem _root_.SSVerif.Fmt3.length_fmtBits (b : Nat) : (fmtBits b).length = lenBits b := by
  unfold fmtBits lenBits
  cases h : ofBits b with
  | some x => obtain ⟨neg, m, e⟩ := x; exact length_fmt3 neg m e
  | none => by_cases h1 : b / 2 ^ 63 % 2 = 1 <;> by_cases h2 : b % 2 ^ 52 = 0 <;> simp [h1, h2]

/-- `snprintf`'s rendering when the argument `a` is the double with bit pattern `val a` -/
def fmtOf (val : Num → Nat) : Fmt where
  num a := fmtBits (val a)
  numLen a := lenBits (val a)
  numLen_eq a := (length_fmtBits (val a)).symm

/-- a finite table of argument values (what a dump of the real decoder yields); arguments that do not occur are `+0.0` -/
def valOfTable (t : List (Num × Nat)) : Num → Nat :=
  fun a => ((t.find? fun kv => kv.1 = a).map (·.2)).getD 0

/-- the doubles `decoder_result_json` hands to `%.3f`, computed from what it reads: the caller's `start` (bit
pattern), the integers of the iterators through the IEEE model of `Model/Dbl.lean`, and `logmath_exp` (libm's `pow`,
kept as a parameter: `prob logp` = bit pattern of `logmath_exp(lmath, logp)`) -/
def valOf (start : Nat) (prob : Int → Nat) : Num → Nat
  | .start => start
  | .time f fr => SSVerif.Dbl.timeBits start f fr
  | .ratio n fr => SSVerif.Dbl.ratioBits n fr
  | .prob p => prob p

/-! ## the arguments that occur -/

def aentArgs (fr : Int) (e : AEnt) : List Num := [.time e.start fr, .ratio e.dur fr, .prob e.score]

def segArgs (fr : Int) (s : Seg) : List Num := [.time s.sf fr, .ratio (s.ef + 1 - s.sf) fr, .prob s.prob]

def phoneArgs (fr : Int) (sa : Bool) (p : APhone) : List Num :=
  aentArgs fr p.e ++ (if sa then p.states.flatMap (aentArgs fr) else [])

def wordArgs (fr : Int) (sa : Bool) (w : AWord) : List Num := aentArgs fr w.e ++ w.phones.flatMap (phoneArgs fr sa)

/-- every `double` expression `decoder_result_json(d, start, level)` hands to `%.3f` for the result `r` -/
def args (r : Result) (level : Int) : List Num :=
  [.start, .ratio r.nframes r.frate, .prob r.prob] ++
    (if level ≠ 0 then (r.align.getD []).flatMap (wordArgs r.frate (decide (level > 1)))
     else r.segs.flatMap (segArgs r.frate))

/-- the condition under which an argument is proved finite (`C14_args_finite`), evaluated by the check on every
argument of every dumped result: the frame rate is at least 1 (what `fe_init` enforces), the frame number or count
is a C `int`, the probability (`logmath_exp`, libm) is finite -/
def argOK (prob : Int → Nat) : Num → Bool
  | .start => true
  | .time f fr => decide (1 ≤ fr) && decide (f.natAbs ≤ 2 ^ 31)
  | .ratio n fr => decide (1 ≤ fr) && decide (n.natAbs ≤ 2 ^ 31)
  | .prob p => isFiniteBits (prob p)

/-- `decoder_result_json(d, start, align_level)` **with repair D80** (fixes/D80-json-nonfinite-start): a start offset
that is not a finite number is refused (`NULL`) before anything else happens; otherwise the two passes of
`Model/Json.lean` run with `%.3f` rendering the doubles of `valOf` -/
def resultJsonD (start : Nat) (prob : Int → Nat) (r : Result) (level : Int) : Option Out :=
  if isFiniteBits start then resultJson (fmtOf (valOf start prob)) r level else none

end SSVerif.Json
