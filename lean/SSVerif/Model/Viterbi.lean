/-!
# Frame-synchronous max-plus Viterbi DP over a generic network (C02, model M9)

`Option Int` is the max-plus carrier (`none` = −∞).  A `Net` has only *emitting* states; the flat
context-dependent network of `Model/FlatNet.lean` pre-composes "exit of an HMM → (at most one null hop)
→ entry of the next HMM" into single weighted edges, so this generic form is what the model of
`fsg_search.c` instantiates.

Timing convention (fixed by the prototype, DESIGN §4/C02 (a); it is the one of `hmm_vit_eval_*` +
`fsg_search_hmm_prune_prop`): `vAt t j` is the best score of a path that is *ready to occupy* state `j`
at frame `t`; the emission of the source state at frame `t` is added when leaving it.

* `viterbi`   — the specification DP (functions `Nat → Option Int`; not meant to be run)
* `viterbiArr`— the executable DP over arrays, what `ssdriver c02` runs; `viterbiArr_eq` (Proofs/Viterbi)
  shows it equals `viterbi` on well-formed nets
* `Alignment` — frame-by-frame paths and their scores
-/
namespace SSVerif.Viterbi

/-- max on `Option Int` with `none` = −∞ -/
def omax : Option Int → Option Int → Option Int
  | none, b => b
  | a, none => a
  | some a, some b => some (max a b)

def best (l : List (Option Int)) : Option Int := l.foldl omax none

/-- `a ≤ b` on `Option Int`, `none` = −∞ -/
def ole : Option Int → Option Int → Prop
  | none, _ => True
  | some _, none => False
  | some a, some b => a ≤ b

structure Net where
  /-- (src, dst, cost) between emitting states, self-loops included -/
  edges : List (Nat × Nat × Int)
  /-- (state, entry cost) for frame 0 -/
  init  : List (Nat × Int)
  /-- (state, exit cost) after the last frame -/
  exits : List (Nat × Int)

/-- frame 0: best entry cost per state -/
def v0 (N : Net) : Nat → Option Int := fun j =>
  best (N.init.map fun (s, c) => if s = j then some c else none)

/-- one frame: leave state `i` with its emission, pay the edge -/
def stepV (N : Net) (em : Nat → Int) (v : Nat → Option Int) : Nat → Option Int := fun j =>
  best (N.edges.map fun (i, j', c) => if j' = j then (v i).map (· + em i + c) else none)

def vAt (N : Net) (em : Nat → Nat → Int) : Nat → (Nat → Option Int)
  | 0 => v0 N
  | t+1 => stepV N (em t) (vAt N em t)

/-- final score after `T` frames (`T ≥ 1`): states occupied at frames `0..T-1` -/
def viterbi (N : Net) (em : Nat → Nat → Int) (T : Nat) : Option Int :=
  best (N.exits.map fun (i, c) => (vAt N em (T-1) i).map (· + em (T-1) i + c))

/-- `PathTo N em t j sc`: there is a path occupying frames `0..t-1` and *ready to occupy* `j` at frame
`t`, whose accumulated score (entry + emissions of frames `< t` + edges) is `sc` -/
inductive PathTo (N : Net) (em : Nat → Nat → Int) : Nat → Nat → Int → Prop
  | start {s c} : (s, c) ∈ N.init → PathTo N em 0 s c
  | step {t i j c sc} : PathTo N em t i sc → (i, j, c) ∈ N.edges →
      PathTo N em (t+1) j (sc + em t i + c)

/-- a complete alignment of `T` frames with its total score -/
inductive Alignment (N : Net) (em : Nat → Nat → Int) (T : Nat) : Int → Prop
  | mk {i c sc} : PathTo N em (T-1) i sc → (i, c) ∈ N.exits →
      Alignment N em T (sc + em (T-1) i + c)

/-! ### the same DP with arbitrary pruning (what any beam search computes) -/

/-- which candidates survive: per frame and edge, per initial entry, per exit.  Beam pruning of states,
of whole HMMs, of phone/word transitions and of history entries are all instances (the decisions of a
run of the real search on given scores form one such mask). -/
structure Mask where
  edge : Nat → Nat × Nat × Int → Bool
  init : Nat × Int → Bool
  exit : Nat × Int → Bool

def v0K (N : Net) (K : Mask) : Nat → Option Int := fun j =>
  best (N.init.map fun e => if K.init e ∧ e.1 = j then some e.2 else none)

def stepVK (N : Net) (K : Mask) (t : Nat) (em : Nat → Int) (v : Nat → Option Int) : Nat → Option Int := fun j =>
  best (N.edges.map fun e => if K.edge t e ∧ e.2.1 = j then (v e.1).map (· + em e.1 + e.2.2) else none)

def vAtK (N : Net) (K : Mask) (em : Nat → Nat → Int) : Nat → (Nat → Option Int)
  | 0 => v0K N K
  | t+1 => stepVK N K t (em t) (vAtK N K em t)

/-- value reported by a search that drops the candidates `K` masks out -/
def viterbiK (N : Net) (K : Mask) (em : Nat → Nat → Int) (T : Nat) : Option Int :=
  best (N.exits.map fun e => if K.exit e then (vAtK N K em (T-1) e.1).map (· + em (T-1) e.1 + e.2) else none)

/-! ### executable version over arrays (`n` = number of states) -/

abbrev Vec := Array (Option Int)

def vget (v : Vec) (i : Nat) : Option Int := v[i]?.getD none

/-- relax one edge into the accumulator -/
def relax (em : Nat → Int) (v : Vec) (acc : Vec) (e : Nat × Nat × Int) : Vec :=
  match vget v e.1 with
  | none => acc
  | some x => acc.modify e.2.1 (omax · (some (x + em e.1 + e.2.2)))

def stepArr (edges : List (Nat × Nat × Int)) (n : Nat) (em : Nat → Int) (v : Vec) : Vec :=
  edges.foldl (relax em v) (Array.replicate n none)

def v0Arr (N : Net) (n : Nat) : Vec :=
  N.init.foldl (fun acc (e : Nat × Int) => acc.modify e.1 (omax · (some e.2))) (Array.replicate n none)

def vAtArr (N : Net) (n : Nat) (em : Nat → Nat → Int) : Nat → Vec
  | 0 => v0Arr N n
  | t+1 => stepArr N.edges n (em t) (vAtArr N n em t)

def finishArr (N : Net) (em : Nat → Int) (v : Vec) : Option Int :=
  best (N.exits.map fun (i, c) => (vget v i).map (· + em i + c))

def viterbiArr (N : Net) (n : Nat) (em : Nat → Nat → Int) (T : Nat) : Option Int :=
  finishArr N (em (T-1)) (vAtArr N n em (T-1))

/-- every state mentioned by the net is `< n` (checked by the driver before running `viterbiArr`) -/
def Net.wf (N : Net) (n : Nat) : Bool :=
  N.edges.all (fun e => decide (e.1 < n) && decide (e.2.1 < n)) &&
  N.init.all (fun e => decide (e.1 < n)) && N.exits.all (fun e => decide (e.1 < n))

/-! ### a path given explicitly, checked (used to print and validate the optimal alignment) -/

/-- score of the explicit path `s₀ →c₁ s₁ → … → s_{T-1}` with entry cost `c0` and exit cost `cx`;
`none` when a claimed entry/edge/exit is not in the net or the length is not `T` -/
def pathScoreGo (N : Net) (em : Nat → Nat → Int) : Nat → Nat → Int → List (Nat × Int) → Int → Option Int
  | t, i, sc, [], cx => if N.exits.contains (i, cx) then some (sc + em t i + cx) else none
  | t, i, sc, (j, c) :: rest, cx =>
    if N.edges.contains (i, j, c) then pathScoreGo N em (t+1) j (sc + em t i + c) rest cx else none

def pathScore (N : Net) (em : Nat → Nat → Int) (T : Nat) (s0 : Nat) (c0 : Int) (steps : List (Nat × Int)) (cx : Int) : Option Int :=
  if N.init.contains (s0, c0) ∧ steps.length + 1 = T then pathScoreGo N em 0 s0 c0 steps cx else none

end SSVerif.Viterbi
