import SSVerif.Model.Viterbi
/-!
# The beam logic of one frame of `fsg_search.c` as a pruning mask (C02)

`fsg_search_hmm_eval` computes `bestscore` = the best `hmm_bestscore` over the active HMMs (the best new state
score or exit score any HMM holds after `hmm_vit_eval`).  `fsg_search_hmm_prune_prop`, `fsg_search_pnode_trans`,
`fsg_search_pnode_exit`, `fsg_search_null_prop` and `fsg_search_word_trans` then apply, with
`thresh = bestscore + beam`, `phone_thresh = bestscore + pbeam`, `word_thresh = bestscore + wbeam`:

* an HMM stays alive and may propagate only if `hmm_bestscore >= thresh` (fsg_search.c:515);
* a phone transition needs `hmm_out_score >= phone_thresh` (526) and `out + child->logs2prob > thresh` (422);
* a word exit needs `hmm_out_score >= word_thresh` (531); a null hop `score + logp >= word_thresh` (581; for
  "no null hop" this repeats the previous test with `+0`); the entry into a root `score + root->logs2prob > thresh` (640);
* at utterance start `bestscore = 0`: null hop `>= wbeam`, root entry `> beam` (fsg_search.c:773-783).

A `BNet` is a `Viterbi.Net` whose pre-composed edges remember their components (`cx` = cost up to leaving the source
HMM — the whole cost for an edge inside an HMM —, the null hop, the entry penalty), the HMM every state belongs to,
and the exit candidates (`outs`) of every HMM.  `beamMask` is the `Viterbi.Mask` these tests induce (the pruned
vectors `bv` it is computed from are the beam search's own); `regime` is the executable no-pruning condition.
-/
namespace SSVerif.Beam
open SSVerif.Viterbi

structure BEdge where
  src : Nat
  dst : Nat
  /-- cost up to leaving the source HMM (for an intra-HMM edge: the transition cost) -/
  cx : Int
  /-- `some` for cross-word edges: cost of the null arc followed, `0` for none -/
  hop : Option Int
  /-- `some` for phone and cross-word edges: `logs2prob` of the node entered -/
  entry : Option Int
deriving DecidableEq, Repr, Inhabited

def BEdge.cost (b : BEdge) : Int := b.cx + b.hop.getD 0 + b.entry.getD 0
def BEdge.triple (b : BEdge) : Nat × Nat × Int := (b.src, b.dst, b.cost)
def BEdge.isIntra (b : BEdge) : Bool := b.hop.isNone && b.entry.isNone

structure BInit where
  state : Nat
  hop : Int
  entry : Int
deriving DecidableEq, Repr

structure BExit where
  state : Nat
  cx : Int
  hop : Int
deriving DecidableEq, Repr

structure BNet where
  edges : List BEdge
  init : List BInit
  exits : List BExit
  /-- (emitting state, cost into the exit state) for every HMM -/
  outs : List (Nat × Int)
  /-- HMM a state belongs to -/
  hmm : Nat → Nat

def BInit.pair (i : BInit) : Nat × Int := (i.state, i.hop + i.entry)
def BExit.pair (x : BExit) : Nat × Int := (x.state, x.cx + x.hop)

def BNet.toNet (B : BNet) : Net :=
  { edges := B.edges.map BEdge.triple, init := B.init.map BInit.pair, exits := B.exits.map BExit.pair }

structure Beams where
  beam : Int
  pbeam : Int
  wbeam : Int

/-- the narrowest of the three beams (they are `≤ 0`; the largest is the narrowest) -/
def Beams.narrow (b : Beams) : Int := max b.beam (max b.pbeam b.wbeam)

/-- leave state `s` with its emission and pay `c` -/
def cand (v : Nat → Option Int) (e : Nat → Int) (s : Nat) (c : Int) : Option Int := (v s).map (· + e s + c)

/-- what the HMMs hold after `hmm_vit_eval`: (HMM, new state score candidate or exit candidate) -/
def held (B : BNet) (v : Nat → Option Int) (e : Nat → Int) : List (Nat × Option Int) :=
  (B.edges.map fun b => (B.hmm b.src, if b.isIntra then cand v e b.src b.cx else none)) ++
  (B.outs.map fun o => (B.hmm o.1, cand v e o.1 o.2))

/-- `fsgs->bestscore` -/
def bestAll (B : BNet) (v : Nat → Option Int) (e : Nat → Int) : Option Int := best ((held B v e).map (·.2))
/-- `hmm_bestscore` of HMM `g` -/
def bestOf (B : BNet) (v : Nat → Option Int) (e : Nat → Int) (g : Nat) : Option Int :=
  best ((held B v e).map fun p => if p.1 = g then p.2 else none)
/-- `hmm_out_score` of HMM `g` -/
def outOf (B : BNet) (v : Nat → Option Int) (e : Nat → Int) (g : Nat) : Option Int :=
  best (B.outs.map fun o => if B.hmm o.1 = g then cand v e o.1 o.2 else none)

def oge (a : Option Int) (x : Int) : Bool := match a with | some y => decide (y ≥ x) | none => false
def ogt (a : Option Int) (x : Int) : Bool := match a with | some y => decide (y > x) | none => false

/-- does the candidate of edge `b` survive the tests of this frame? -/
def keepEdge (B : BNet) (bm : Beams) (v : Nat → Option Int) (e : Nat → Int) (b : BEdge) : Bool :=
  match bestAll B v e with
  | none => true
  | some bb =>
    let g := B.hmm b.src
    oge (bestOf B v e g) (bb + bm.beam) &&
    match b.hop, b.entry with
    | none, none => true
    | none, some en => oge (outOf B v e g) (bb + bm.pbeam) && ogt ((outOf B v e g).map (· + en)) (bb + bm.beam)
    | some hp, en? =>
      oge (outOf B v e g) (bb + bm.wbeam) && oge ((outOf B v e g).map (· + hp)) (bb + bm.wbeam) &&
      match en? with
      | none => true
      | some en => ogt ((outOf B v e g).map (· + hp + en)) (bb + bm.beam)

/-- word exit (and null hop) in the last frame: the history entry `find_exit` reads -/
def keepExit (B : BNet) (bm : Beams) (v : Nat → Option Int) (e : Nat → Int) (x : BExit) : Bool :=
  match bestAll B v e with
  | none => true
  | some bb =>
    let g := B.hmm x.state
    oge (bestOf B v e g) (bb + bm.beam) && oge (outOf B v e g) (bb + bm.wbeam) &&
    oge ((outOf B v e g).map (· + x.hop)) (bb + bm.wbeam)

/-- utterance start (`bestscore = 0`) -/
def keepInit (bm : Beams) (i : BInit) : Bool := decide (i.hop ≥ bm.wbeam) && decide (i.hop + i.entry > bm.beam)

/-- the beam search's own vectors: `bv t j` = score ready to occupy `j` at frame `t` after pruning -/
def bv (B : BNet) (bm : Beams) (em : Nat → Nat → Int) : Nat → (Nat → Option Int)
  | 0 => fun j => best (B.init.map fun i => if keepInit bm i ∧ i.state = j then some (i.hop + i.entry) else none)
  | t+1 => fun j => best (B.edges.map fun b =>
      if keepEdge B bm (bv B bm em t) (em t) b ∧ b.dst = j then cand (bv B bm em t) (em t) b.src b.cost else none)

/-- value the beam search reports -/
def viterbiBeam (B : BNet) (bm : Beams) (em : Nat → Nat → Int) (T : Nat) : Option Int :=
  best (B.exits.map fun x => if keepExit B bm (bv B bm em (T-1)) (em (T-1)) x
    then cand (bv B bm em (T-1)) (em (T-1)) x.state (x.cx + x.hop) else none)

/-- the pruning mask the beam tests induce on the plain network (a triple survives when an edge with that
triple does; equal triples contribute equal candidates, so this loses nothing: `viterbiBeam_eq_mask`) -/
def beamMask (B : BNet) (bm : Beams) (em : Nat → Nat → Int) (T : Nat) : Mask :=
  { edge := fun t tr => B.edges.any fun b => b.triple == tr && keepEdge B bm (bv B bm em t) (em t) b
    init := fun p => B.init.any fun i => i.pair == p && keepInit bm i
    exit := fun p => B.exits.any fun x => x.pair == p && keepExit B bm (bv B bm em (T-1)) (em (T-1)) x }

/-! ### the no-pruning regime, executable -/

/-- every phone/cross edge and every exit leaves its HMM through a listed exit candidate -/
def wfOuts (B : BNet) : Bool :=
  B.edges.all (fun b => b.isIntra || B.outs.contains (b.src, b.cx)) && B.exits.all (fun x => B.outs.contains (x.state, x.cx))

/-- a finite value is above the limit -/
def above (lim : Int) : Option Int → Bool
  | none => true
  | some y => decide (y > lim)

/-- in this frame every finite partial sum of every candidate is above `bestscore + narrowest beam` -/
def frameOK (B : BNet) (bm : Beams) (v : Nat → Option Int) (e : Nat → Int) (last : Bool) : Bool :=
  match bestAll B v e with
  | none => true
  | some bb =>
    let lim := bb + bm.narrow
    B.edges.all (fun b => above lim (cand v e b.src b.cx) && above lim (cand v e b.src (b.cx + b.hop.getD 0)) &&
      above lim (cand v e b.src b.cost)) &&
    B.outs.all (fun o => above lim (cand v e o.1 o.2)) &&
    (!last || B.exits.all fun x => above lim (cand v e x.state (x.cx + x.hop)))

def regimeFrom (B : BNet) (bm : Beams) (n : Nat) (em : Nat → Nat → Int) : Nat → Nat → Vec → Bool
  | 0, _, _ => true
  | k+1, t, v => frameOK B bm (vget v) (em t) (k == 0) && regimeFrom B bm n em k (t+1) (stepArr B.toNet.edges n (em t) v)

/-- the no-pruning regime of an utterance of `T` frames, evaluated on the *unpruned* array DP -/
def regime (B : BNet) (bm : Beams) (n : Nat) (em : Nat → Nat → Int) (T : Nat) : Bool :=
  wfOuts B && B.toNet.wf n && B.init.all (keepInit bm) && regimeFrom B bm n em T 0 (v0Arr B.toNet n)

end SSVerif.Beam
