import SSVerif.Model.ProtocolApi
/-!
# M15, prediction level — what earlier calls determine is part of the step function (C09)

`Model/ProtocolApi.lean` steps a call whose data-dependent flags come with the call.  This file puts the layer that
REPLACES those flags by predictions inside the model: `pStep : PState → PCall → PState × Ret` is the function the
correspondence driver runs (`Driver/C09.lean` only parses and prints), and the theorems of `Props/C09Pred.lean` are
about `pStep` over all call lists.

* `PState` = the API-level state `XState` + what the history has seen of each decoder (`Seen`: frame counter, whether
  `decoder_hyp` / `decoder_seg_iter` return NULL, the words added to the dictionary) + for every iterator the history
  holds the number of further elements it will deliver (`rem`).
* `PCall` = the call as the transcript gives it (`XCall`, flags as reported by the implementation) + the observations
  made with that call (`PObs`).  `pPredict` overwrites every flag the state determines; only the overwritten call is
  stepped, so a reported flag that is predicted has NO influence on the model (`Props/C09Pred.lean`,
  `C09_pred_flags_not_echoed`).
* **iterator exhaustion**: when an iterator over `k+1` elements is created the harness observes `k` ONCE (it walks a
  second, private iterator); from then on the model predicts every `…_next`: non-NULL exactly `k` times, then NULL, and
  the call that returns NULL has freed the iterator (`seg_iter_next`: fsg_search.c `fsg_seg_next`, ps_lattice.c
  `ps_lattice_seg_next`; `alignment_iter_next`: ps_alignment.c:401-413; `ps_latnode_iter_next` / `ps_latlink_iter_next`:
  ps_lattice.c, plain list walks).  The `last` flag the transcript carries is ignored for such an iterator.
* a **refused** call (out-of-protocol, or a listed out-of-order call that returned its error value) leaves the WHOLE
  predicted state unchanged — by definition here, and `C09_pred_refines` shows that this agrees with `xStep`.
-/
namespace SSVerif.Protocol

/-- observations that come with one call of the transcript -/
structure PObs where
  /-- `decoder_n_frames` of the decoder the call was made on, read after the call (used only where the model has no
  prediction of its own) -/
  fed : Nat := 0
  /-- the count a `decoder_process_*` call returned -/
  nret : Nat := 0
  w : WordInfo := .echo
  p : PhoneInfo := .echo
  /-- a call that created (or repositioned) an iterator: how many FURTHER elements it will deliver -/
  k : Option Nat := none
  deriving DecidableEq, Repr

structure PCall where
  call : XCall
  obs : PObs := {}
  deriving DecidableEq, Repr

structure PState where
  x : XState := x0
  sa : Seen := {}
  sb : Seen := {}
  /-- iterator id ↦ number of further non-NULL `…_next` results, per decoder instance -/
  ra : List (Nat × Nat) := []
  rb : List (Nat × Nat) := []
  deriving DecidableEq, Repr

def p0 : PState := {}

def PState.seen (p : PState) : Inst → Seen | .a => p.sa | .b => p.sb
def PState.setSeen (p : PState) (i : Inst) (m : Seen) : PState :=
  match i with | .a => { p with sa := m } | .b => { p with sb := m }
def PState.rem (p : PState) : Inst → List (Nat × Nat) | .a => p.ra | .b => p.rb
def PState.setRem (p : PState) (i : Inst) (l : List (Nat × Nat)) : PState :=
  match i with | .a => { p with ra := l } | .b => { p with rb := l }

/-- a decoder that no longer exists has nothing to remember (iterators may outlive it: `rem` stays) -/
def PState.forget (p : PState) : PState :=
  { p with sa := if p.x.sys.da.refs = 0 then {} else p.sa, sb := if p.x.sys.db.refs = 0 then {} else p.sb }

/-! ## remaining-element table -/

def remOf (l : List (Nat × Nat)) (id : Nat) : Option Nat := (l.find? (·.1 == id)).map (·.2)
def remDel (l : List (Nat × Nat)) (id : Nat) : List (Nat × Nat) := l.filter (·.1 != id)
def remSet (l : List (Nat × Nat)) (id r : Nat) : List (Nat × Nat) := (id, r) :: remDel l id

/-- the five iterator types of the API that are advanced by a `…_next` call which frees them at the end -/
inductive NextFam | seg | hyp | ali | latN | latL
  deriving DecidableEq, Repr

def NextFam.call : NextFam → Nat → Bool → Call
  | .seg, id, l => .segNext id l | .hyp, id, l => .hypNext id l | .ali, id, l => .aliNext id l
  | .latN, id, l => .lnodeNext id l | .latL, id, l => .llinkNext id l

def NextFam.accepts : NextFam → IterKind → Bool
  | .seg => isSeg | .hyp => isHyp | .ali => isAli | .latN => isLatN | .latL => isLatL

/-- `last` as the table predicts it: the iterator stands on its last element iff nothing remains -/
def predLast (rem : List (Nat × Nat)) (id : Nat) (l : Bool) : Bool :=
  match remOf rem id with | some r => r == 0 | none => l

/-- the `…_next` calls with their `last` flag replaced by the prediction -/
def predictIter (rem : List (Nat × Nat)) : XCall → XCall
  | .base (.dec i (.segNext id l)) c => .base (.dec i (.segNext id (predLast rem id l))) c
  | .base (.dec i (.hypNext id l)) c => .base (.dec i (.hypNext id (predLast rem id l))) c
  | .base (.dec i (.aliNext id l)) c => .base (.dec i (.aliNext id (predLast rem id l))) c
  | .base (.dec i (.lnodeNext id l)) c => .base (.dec i (.lnodeNext id (predLast rem id l))) c
  | .base (.dec i (.llinkNext id l)) c => .base (.dec i (.llinkNext id (predLast rem id l))) c
  | c => c

/-- the iterator a call creates (or, `alignment_iter_goto`, repositions) when it returns non-NULL -/
def createdId : XCall → Option Nat
  | .base (.dec _ (.seg id _)) _ => some id
  | .base (.dec _ (.hypSeg dst _ _)) _ => some dst
  | .base (.dec _ (.nbest id _ _)) _ => some id
  | .base (.dec _ (.alIter id _ _ _ _ _)) _ => some id
  | .base (.dec _ (.aliChild dst _ _)) _ => some dst
  | .base (.dec _ (.aliGoto id _)) _ => some id
  | .base (.dec _ (.lnode id _ _ _)) _ => some id
  | .base (.dec _ (.llink dst _ _)) _ => some dst
  | _ => none

/-- the iterator a `…_next` call advances -/
def nextId : XCall → Option Nat
  | .base (.dec _ (.segNext id _)) _ => some id | .base (.dec _ (.hypNext id _)) _ => some id
  | .base (.dec _ (.aliNext id _)) _ => some id | .base (.dec _ (.lnodeNext id _)) _ => some id
  | .base (.dec _ (.llinkNext id _)) _ => some id
  | _ => none

/-- the iterator a `…_free` call releases -/
def freedId : XCall → Option Nat
  | .base (.dec _ (.segFree id)) _ => some id | .base (.dec _ (.hypFree id)) _ => some id
  | .base (.dec _ (.aliFree id)) _ => some id | .base (.dec _ (.lnodeFree id)) _ => some id
  | .base (.dec _ (.llinkFree id)) _ => some id
  | _ => none

/-- the table after an accepted call that returned `ret`; `k` = the count observed with a creating call -/
def remUpdate (rem : List (Nat × Nat)) (c : XCall) (ret : Ret) (k : Option Nat) : List (Nat × Nat) :=
  match createdId c with
  | some id =>
    (match ret, k with
     | .ptr, some r => remSet rem id r
     | _, _ => remDel rem id)
  | none =>
    match nextId c with
    | some id =>
      if ret = .ptr then
        (match remOf rem id with
         | some (r + 1) => remSet rem id r
         | some 0 => remDel rem id
         | none => rem)
      else remDel rem id
    | none =>
      match freedId c with
      | some id => remDel rem id
      | none => rem

/-! ## the step -/

/-- the call the model steps: every flag the predicted state determines is overwritten -/
def pPredict (p : PState) (c : PCall) : XCall :=
  match instOfX c.call with
  | some i => predictIter (p.rem i) ((p.seen i).predict c.obs.w c.obs.p c.call)
  | none => c.call

/-- refused: not a call of the protocol, or a listed out-of-order call (which returns its documented error value) -/
def refusedX (x : XState) (c : XCall) (r : Ret) : Bool := r == .oop || decide (outOfOrderX x c)

def pStep (p : PState) (c : PCall) : PState × Ret :=
  let xc := pPredict p c
  let r := xStep p.x xc
  if refusedX p.x xc r.2 then (p, r.2)
  else
    match instOfX c.call with
    | some i =>
      let m := (p.seen i).update xc r.2 false c.obs.nret c.obs.fed c.obs.w
      ((({ p with x := r.1 }.setSeen i m).setRem i (remUpdate (p.rem i) xc r.2 c.obs.k)).forget, r.2)
    | none => ({ p with x := r.1 }.forget, r.2)

def pRun (p : PState) : List PCall → PState
  | [] => p
  | c :: cs => pRun (pStep p c).1 cs

def pRets (p : PState) : List PCall → List Ret
  | [] => []
  | c :: cs => (pStep p c).2 :: pRets (pStep p c).1 cs

/-- the calls `xStep` is given along a history (flags overwritten by the predictions of the state reached) -/
def pCalls (p : PState) : List PCall → List XCall
  | [] => []
  | c :: cs => pPredict p c :: pCalls (pStep p c).1 cs

/-- the history without the calls that were refused -/
def pAccepted (p : PState) : List PCall → List PCall
  | [] => []
  | c :: cs =>
    if refusedX p.x (pPredict p c) (pStep p c).2 then pAccepted p cs
    else c :: pAccepted (pStep p c).1 cs

/-- the returns of the calls that were not refused -/
def pAcceptedRets (p : PState) : List PCall → List Ret
  | [] => []
  | c :: cs =>
    if refusedX p.x (pPredict p c) (pStep p c).2 then pAcceptedRets p cs
    else (pStep p c).2 :: pAcceptedRets (pStep p c).1 cs

end SSVerif.Protocol
