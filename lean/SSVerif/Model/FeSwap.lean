import SSVerif.Model.FeBuf
/-!
# M4s — byte-order model of the front-end sample bookkeeping (`fe->swap`, dither placement)

Extends the index model `SSVerif/Model/FeBuf.lean` (which tracks *which* sample goes *where*) with
the **byte order** every stored sample is in.  Mirrors the same functions of `src/fe_interface.c`
(`overflow_append`, `read_overflow_frame`, `create_overflow_frame`, `append_overflow_frame`,
`fe_process`, `fe_end`) and `src/fe_sigproc.c` (`fe_read_frame_int16`, `fe_read_frame_float32`,
`fe_shift_frame_int16`, `fe_shift_frame_float32`, `fe_spch_to_frame`), this time including every
`if (fe->swap) SWAP_INT16(..)` / `SWAP_FLOAT32(..)` and the place where the dither noise is added.

A stored sample is a `Cell`: the source index of the sample, whether its bytes are currently
**reversed with respect to the host order** (`rev`), the parity of the number of `SWAP_*` applied to
it since it left the caller's buffer (`par`), whether the value is in float units (int16 value
`/ FLOAT32_SCALE`, `unit = true`) or in int16 units, and how often dither noise was added to it.
The caller hands samples over in *input* order, i.e. `rev = fe->swap` (`fe->swap` is set by `fe_init`
iff `input_endian` differs from the host); int16 input is in int16 units, float32 input in float
units.  `SWAP_*` flips `rev` and `par`.  Every *arithmetic* use of a cell (int16 → float32
conversion, `/ FLOAT32_SCALE`, `* FLOAT32_SCALE`, adding dither, pre-emphasis / copy to the frame in
`fe_spch_to_frame`) needs the value in host order: it is `none` (the explicit failure outcome
"wrong-order read") on a cell with `rev = true`; scaling a value that already has the target scale,
or handing a float-unit value to the frame function, is `none` as well ("wrong-scale read").
`memcpy`/`memmove` move cells unchanged.  The dither noise itself is opaque (`dith` counts
applications).

The routing of cells (positions, counts, bounds-checked reads) is *not* re-modelled: every function
below is the function of the same name in `FeBuf` (used at sample type `Cell`) with the per-cell
conversions of the C code inserted at the places where the C code has them.  Core Lean only.
-/
namespace SSVerif.FeSwap
open SSVerif.FeBuf

/-- a stored sample: which sample, in which byte order, how often dithered -/
structure Cell where
  /-- source index of the sample -/
  src : Nat
  /-- bytes reversed with respect to the host order -/
  rev : Bool
  /-- parity of the number of `SWAP_INT16`/`SWAP_FLOAT32` applied since the caller's buffer -/
  par : Bool
  /-- value in float units (`int16 / FLOAT32_SCALE`); `false`: int16 units -/
  unit : Bool
  /-- number of times dither noise was added -/
  dith : Nat
  deriving DecidableEq, Repr

/-- sample encoding of the call (`FE_PCM16` / `FE_FLOAT32`) -/
inductive Enc | int16 | float32
  deriving DecidableEq, Repr

/-- what `fe_init` fixed: `fe->swap`, `fe->dither`; and the encoding of the calls -/
structure Mode where
  swap : Bool
  dither : Bool
  enc : Enc
  deriving DecidableEq, Repr

/-- sample `i` as the caller hands it over: input byte order (reversed iff `fe->swap`), no dither -/
def inC (m : Mode) (i : Nat) : Cell :=
  { src := i, rev := m.swap, par := false, unit := (m.enc = .float32), dith := 0 }

/-- sample `i` as the overflow buffer is supposed to hold it between calls: a float-unit value in
**input** byte order, swapped an even number of times, never dithered -/
def ovfC (m : Mode) (i : Nat) : Cell := { src := i, rev := m.swap, par := false, unit := true, dith := 0 }

/-- sample `i` as a host-order value in int16 units that was byte-swapped an odd number of times iff
`fe->swap` and went through the dither step once (noise added iff `fe->dither`) — what a window is
supposed to hold -/
def hostC (m : Mode) (i : Nat) : Cell :=
  { src := i, rev := false, par := m.swap, unit := false, dith := if m.dither then 1 else 0 }

/-- `if (fe->swap) SWAP_INT16(&x)` / `SWAP_FLOAT32(&x)` -/
def swapIf (m : Mode) (c : Cell) : Cell := if m.swap then { c with rev := !c.rev, par := !c.par } else c

/-- an arithmetic use of an int16-unit value that keeps the scale: needs host order -/
def arith (c : Cell) : Option Cell := if c.rev || c.unit then none else some c

/-- `(float32)sample / FLOAT32_SCALE`: needs a host-order int16-unit value -/
def scaleDown (c : Cell) : Option Cell := if c.rev || c.unit then none else some { c with unit := true }

/-- `sample * FLOAT32_SCALE`: needs a host-order float-unit value -/
def scaleUp (c : Cell) : Option Cell := if c.rev || !c.unit then none else some { c with unit := false }

/-- adding the dither noise (opaque) -/
def addDither (c : Cell) : Cell := { c with dith := c.dith + 1 }

/-- one sample on its way into the overflow buffer.
`FE_PCM16` (loops of `overflow_append` 420-430, `read_overflow_frame` 458-468,
`create_overflow_frame` 502-512, `append_overflow_frame` 551-561): `SWAP_INT16` if swap, convert and
scale (arithmetic), `SWAP_FLOAT32` back if swap.  `FE_FLOAT32`: `memcpy`. -/
def cellToOvf (m : Mode) (c : Cell) : Option Cell :=
  match m.enc with
  | .float32 => some c
  | .int16 => (scaleDown (swapIf m c)).map (swapIf m)

/-- one sample on its way into `fe->spch` through reader `e`.
`fe_read_frame_int16` / `fe_shift_frame_int16`: one loop: `SWAP_INT16` if swap, then `+= dither` if
dither (arithmetic), store as float.  `fe_read_frame_float32` / `fe_shift_frame_float32`: two
separate loops (dither / no dither), each: `SWAP_FLOAT32` if swap, then `* FLOAT32_SCALE (+ dither)`. -/
def cellToSpch (m : Mode) (e : Enc) (c : Cell) : Option Cell :=
  match e with
  | .int16 => (arith (swapIf m c)).map fun x => if m.dither then addDither x else x
  | .float32 =>
    if m.dither then (scaleUp (swapIf m c)).map addDither
    else scaleUp (swapIf m c)

/-- apply a per-cell step to every cell, failing if one fails -/
def mapO (f : Cell → Option Cell) : List Cell → Option (List Cell)
  | [] => some []
  | c :: cs => (f c).bind fun c' => (mapO f cs).map (c' :: ·)

def toOvf (m : Mode) (xs : List Cell) : Option (List Cell) := mapO (cellToOvf m) xs
def toSpch (m : Mode) (e : Enc) (xs : List Cell) : Option (List Cell) := mapO (cellToSpch m e) xs

/-- all cells in host order and in int16 units -/
def hostAll (xs : List Cell) : Bool := xs.all fun c => !c.rev && !c.unit

/-- `fe_spch_to_frame(fe, len)`: `fe_pre_emphasis` / `fe_copy_to_frame` read `spch[0..len)` and the
prior arithmetically -/
def spchToFrameS (c : Cfg) (fe : Fe Cell) (len : Nat) : Option (Fe Cell) :=
  if hostAll (fe.spch.take len) && hostAll fe.prior.toList then some (FeBuf.spchToFrame c fe len) else none

/-- `fe_read_frame_{int16,float32}` (reader `e`) -/
def readFrameS (m : Mode) (e : Enc) (c : Cfg) (fe : Fe Cell) (xs : List Cell) : Option (Fe Cell) :=
  (toSpch m e xs).bind fun ys => spchToFrameS c { fe with spch := ys } ys.length

/-- `fe_shift_frame_{int16,float32}`: `memmove` inside `fe->spch`, then the new samples -/
def shiftFrameS (m : Mode) (c : Cfg) (fe : Fe Cell) (xs : List Cell) : Option (Fe Cell) :=
  (toSpch m m.enc xs).bind fun ys =>
  let offset := c.size - c.shift
  spchToFrameS c { fe with spch := (fe.spch.drop c.shift).take offset ++ ys } (offset + ys.length)

/-- `overflow_append` -/
def overflowAppendS (m : Mode) (fe : Fe Cell) (buf : List Cell) : Option (Fe Cell) :=
  (toOvf m buf).map fun xs => FeBuf.overflowAppend fe xs

/-- `read_overflow_frame`: the completed frame is always read with `fe_read_frame_float32` -/
def readOverflowFrameS (m : Mode) (c : Cfg) (fe : Fe Cell) (buf : List Cell) : Option (Fe Cell × Nat) :=
  let offset : Int := c.size - fe.nOvf
  if offset < 0 ∨ fe.nOvf < 0 then none else
  (rd fe.ovf 0 fe.nOvf.toNat).bind fun old =>
  (rd buf 0 offset.toNat).bind fun xs =>
  (toOvf m xs).bind fun xs' =>
  let ovf := old ++ xs'
  (rd ovf 0 (c.size)).bind fun w =>
  (readFrameS m .float32 c { fe with ovf := ovf } w).map fun fe =>
  ({ fe with nOvf := fe.nOvf - c.shift }, offset.toNat)

/-- the `for (i = 1; i < frame_count; ++i)` loop of `fe_process` -/
def shiftLoopS (m : Mode) (c : Cfg) (buf : List Cell) : Nat → Fe Cell → Nat → Option (Fe Cell × Nat)
  | 0, fe, p => some (fe, p)
  | n + 1, fe, p =>
    (rd buf p c.shift).bind fun xs =>
    (shiftFrameS m c fe xs).bind fun fe =>
    let fe := { fe with nOvf := if fe.nOvf > 0 then fe.nOvf - c.shift else fe.nOvf }
    shiftLoopS m c buf n fe (p + c.shift)

/-- `create_overflow_frame` -/
def createOverflowFrameS (m : Mode) (c : Cfg) (fe : Fe Cell) (buf : List Cell) (p : Nat) :
    Option (Fe Cell × Nat) :=
  let nov := min (c.shift - c.slack) (buf.length - p)
  let no := c.size - c.shift + nov
  if no > 0 then
    if p < c.size - c.shift then none
    else (rd buf (p - (c.size - c.shift)) no).bind fun xs =>
      (toOvf m xs).map fun xs' => ({ fe with ovf := xs', nOvf := no }, p + nov)
  else some ({ fe with ovf := [], nOvf := 0 }, p)

/-- `append_overflow_frame`: `memmove` of the old overflow data (cells unchanged), then the
converted samples from the original start of the buffer -/
def appendOverflowFrameS (m : Mode) (c : Cfg) (fe : Fe Cell) (buf : List Cell) (p : Nat) (origN : Int) :
    Option (Fe Cell × Nat) :=
  let cap : Int := c.size - fe.nOvf - c.slack
  if origN < fe.nOvf ∨ cap < 0 then none else
  (rd fe.ovf (origN - fe.nOvf).toNat fe.nOvf.toNat).bind fun moved =>
  let nov := min buf.length cap.toNat
  (rd buf 0 nov).bind fun xs =>
  (toOvf m xs).map fun xs' =>
  ({ fe with ovf := moved ++ xs', nOvf := fe.nOvf + nov }, if nov > p then nov else p)

/-- `fe_process_{int16,float32}` (encoding `m.enc`) with an output buffer of `nframes` rows -/
def processS (m : Mode) (c : Cfg) (fe : Fe Cell) (buf : List Cell) (nframes : Nat) :
    Option (Fe Cell × Nat × Nat) :=
  if (buf.length : Int) + fe.nOvf < c.size then (overflowAppendS m fe buf).map fun fe' => (fe', buf.length, 0)
  else if nframes < 1 then some (fe, 0, 0)
  else
    let origN := fe.nOvf
    let fc := min (1 + ((buf.length : Int) + fe.nOvf - c.size).toNat / c.shift) nframes
    (if fe.nOvf ≠ 0 then readOverflowFrameS m c fe buf
     else (rd buf 0 (c.size)).bind fun w => (readFrameS m m.enc c fe w).map fun fe' => (fe', c.size)).bind
    fun (fe1, p1) =>
    (shiftLoopS m c buf (fc - 1) fe1 p1).bind fun (fe2, p2) =>
    (if fe2.nOvf ≤ 0 then createOverflowFrameS m c fe2 buf p2
     else appendOverflowFrameS m c fe2 buf p2 origN).map fun (fe3, p3) => (fe3, p3, fc)

/-- `fe_end`: the rest is read with `fe_read_frame_float32` -/
def finishS (m : Mode) (c : Cfg) (fe : Fe Cell) (nframes : Nat) : Option (Fe Cell × Nat) :=
  if nframes > 0 ∧ fe.nOvf > 0 then
    (rd fe.ovf 0 (min fe.nOvf.toNat c.size)).bind fun w =>
      (readFrameS m .float32 c fe w).map fun fe' => ({ fe' with ovf := [], nOvf := 0 }, 1)
  else some ({ fe with ovf := [], nOvf := 0 }, 0)

/-! ## the caller (same as `FeBuf.feedChunk` / `feedAll` / `run`) -/

def feedChunkS (m : Mode) (c : Cfg) (fe : Fe Cell) (buf : List Cell) :
    List Nat → Option (Fe Cell × List CallLog × List Cell)
  | [] =>
    if buf.length = 0 then some (fe, [], buf) else
    let d := outputFrameCount c fe buf.length
    (processS m c fe buf d).map fun (fe', used, nfr) =>
      (fe', [{ dry := d, limit := d, consumed := used, frames := nfr, novf := fe'.nOvf }], buf.drop used)
  | l :: ls =>
    (processS m c fe buf l).bind fun (fe', used, nfr) =>
    (feedChunkS m c fe' (buf.drop used) ls).map fun (fe'', logs, left) =>
      (fe'', { dry := outputFrameCount c fe buf.length, limit := l, consumed := used, frames := nfr,
               novf := fe'.nOvf } :: logs, left)

def feedAllS (m : Mode) (c : Cfg) : Fe Cell → List (List Cell × List Nat) → Option (RunResult Cell)
  | fe, [] => some { fe := fe, calls := [], left := 0 }
  | fe, (buf, limits) :: rest =>
    (feedChunkS m c fe buf limits).bind fun (fe', logs, left) =>
    (feedAllS m c fe' rest).map fun r => { r with calls := logs ++ r.calls, left := left.length + r.left }

/-- a whole utterance: `fe_start`, the chunks, `fe_end` -/
def runS (m : Mode) (c : Cfg) (chunks : List (List Cell × List Nat)) (endRoom : Nat) :
    Option (RunResult Cell × Nat) :=
  (feedAllS m c start chunks).bind fun r =>
  (finishS m c r.fe endRoom).map fun (fe', n) => ({ r with fe := fe' }, n)

/-- the chunks of a schedule as the caller hands them over (input byte order) -/
def inChunks (m : Mode) (chunks : List (List Nat × List Nat)) : List (List Cell × List Nat) :=
  chunks.map fun x => (x.1.map (inC m), x.2)

/-- the same front end used through the other entry point (`fe_process_int16` / `fe_process_float32`) -/
def Mode.withEnc (m : Mode) (e : Enc) : Mode := { m with enc := e }

/-- chunks with a per-chunk encoding: all calls made for a chunk go through that chunk's entry
point, but the two entry points may alternate within one utterance -/
def feedAllX (m : Mode) (c : Cfg) : Fe Cell → List (Enc × List Nat × List Nat) → Option (RunResult Cell)
  | fe, [] => some { fe := fe, calls := [], left := 0 }
  | fe, (e, buf, limits) :: rest =>
    (feedChunkS (m.withEnc e) c fe (buf.map (inC (m.withEnc e))) limits).bind fun (fe', logs, left) =>
    (feedAllX m c fe' rest).map fun r => { r with calls := logs ++ r.calls, left := left.length + r.left }

/-- a whole utterance with a per-chunk encoding -/
def runX (m : Mode) (c : Cfg) (chunks : List (Enc × List Nat × List Nat)) (endRoom : Nat) :
    Option (RunResult Cell × Nat) :=
  (feedAllX m c start chunks).bind fun r =>
  (finishS m c r.fe endRoom).map fun (fe', n) => ({ r with fe := fe' }, n)

/-- the tagged state that corresponds to an index state: overflow buffer in **input** order (float
units, even swap count, no dither), `fe->spch`, the pre-emphasis prior and every emitted window in
**host** order (int16 units, swap count odd iff `fe->swap`, through the dither step once) -/
def tag (m : Mode) (fe : Fe Nat) : Fe Cell :=
  { ovf := fe.ovf.map (ovfC m), nOvf := fe.nOvf, spch := fe.spch.map (hostC m),
    prior := fe.prior.map (hostC m),
    out := fe.out.map fun fr => { win := fr.win.map (hostC m), prior := fr.prior.map (hostC m) } }

end SSVerif.FeSwap
