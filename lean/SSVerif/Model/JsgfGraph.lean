import SSVerif.Model.Jsgf
/-!
# JSGF: the rule-reference graph of a rule table and the graph reading of "the compiler accepts" (C05)

Independent of `okRule`/`okAtoms` (the compiler's refusal test unfolded, Model/Jsgf.lean): nothing here
mentions a rule stack, a recursion depth, `ntail` or a fuel.  Core Lean only.

The nodes are the rule names of the desugared table (`jsgf_define_rule`: user rules and the internal
rules `<g.gNNNNN>` the parser makes for `( )`, `[ ]`, `*`, `+`), because that is the graph `expand_rule`/
`expand_rhs` (jsgf.c:308-440) walk: groups, optionals and Kleene operators are not looked into, they are
references to internal rules (`jsgf_kleene_new`: `g = <NULL> | atom g`, `jsgf_optional_new`:
`g = <NULL> | alternatives`).

* `altRefs alt` — the rule references of one right-hand side, left to right, each with the flag
  "is the last atom of this right-hand side" (`gnode_next(gn) == NULL` in `expand_rhs`; a trailing
  `<NULL>`, `<VOID>` or token after the reference makes it not last; `<NULL>`/`<VOID>` themselves are
  not references and do not end the scan).
* `Table.edges T r` — all references of all alternatives of rule `r` (none for an undefined rule).
* `Edge T r s last` — rule `r` references rule `s`, in last position (`last = true`) or elsewhere.
* `Reach T a b` — reflexive-transitive closure of `Edge`, flags ignored.
* `Representable' T root` — (1) every rule reachable from `root` is defined; (2) no reference that lies on
  a cycle of the reference graph reachable from `root` is in a position that is not last: a reference
  `r → s` made elsewhere than in last position, with `r` reachable from `root`, must not be able to come
  back (`¬ Reach s r`).  Equivalently: inside every strongly connected component reachable from the root
  all references are tail references.
* `reachList`, `representableGB` — executable versions (closure iteration; proved in Props/C05Graph.lean).
-/
namespace SSVerif.Jsgf

/-- the rule references of one right-hand side with the flag "last atom of the right-hand side" -/
def altRefs : List Atom → List (RName × Bool)
  | [] => []
  | .ref s :: rest => (s, rest.isEmpty) :: altRefs rest
  | _ :: rest => altRefs rest

/-- all references made by rule `r` (every alternative) -/
def Table.edges (T : Table) (r : RName) : List (RName × Bool) := (T.rules r).flatMap altRefs

/-- `r` references `s`; `last` says whether the reference is the last atom of its alternative -/
def Edge (T : Table) (r s : RName) (last : Bool) : Prop := (s, last) ∈ T.edges r

/-- reachability in the reference graph -/
inductive Reach (T : Table) (a : RName) : RName → Prop
  | refl : Reach T a a
  | snoc {b c l} : Reach T a b → Edge T b c l → Reach T a c

/-- **the graph reading of "the compiler accepts rule `root` of table `T`"** -/
def Representable' (T : Table) (root : RName) : Prop :=
  (∀ r, Reach T root r → T.defined r = true) ∧
  (∀ r s, Reach T root r → Edge T r s false → ¬ Reach T s r)

/-! ### executable versions -/

/-- `S` followed by the members of `xs` that are not yet there (no repetition is added) -/
def addAll : List RName → List RName → List RName
  | S, [] => S
  | S, x :: xs => addAll (if S.contains x then S else S ++ [x]) xs

/-- the targets of all references made by members of `S` -/
def succsOf (T : Table) (S : List RName) : List RName := S.flatMap fun r => (T.edges r).map (·.1)

/-- `n` rounds of adding successors -/
def closeN (T : Table) : Nat → List RName → List RName
  | 0, S => S
  | n + 1, S => addAll (closeN T n S) (succsOf T (closeN T n S))

/-- the rules reachable from `a`: `T.length + 1` rounds (a path without repetition passes, before its
end, only through pairwise different defined rules, so `T.length` rounds are enough; `mem_reachList`) -/
def reachList (T : Table) (a : RName) : List RName := closeN T (T.length + 1) [a]

/-- every successor of a member of `S` is in `S` -/
def closedUnder (T : Table) (S : List RName) : Bool :=
  S.all fun r => (T.edges r).all fun e => S.contains e.1

/-- the closure iteration came to an end (always true: `reachList_closed`; the driver evaluates it too) -/
def reachClosed (T : Table) (a : RName) : Bool := closedUnder T (reachList T a)

/-- **executable graph predicate**: all reachable rules are defined, and no non-last reference made by a
reachable rule can come back to the rule that makes it -/
def representableGB (T : Table) (root : RName) : Bool :=
  (reachList T root).all fun r =>
    T.defined r && (T.edges r).all fun e => e.2 || !(reachList T e.1).contains r

/-- features of the reference graph below `root`, for the measured input distribution of the check:
(undefined rule reachable, some reachable reference lies on a cycle, a non-last one does, a cycle passes
through two different user rules, a cycle through a user rule passes through an internal rule) -/
def graphFeatures (T : Table) (root : RName) : Bool × Bool × Bool × Bool × Bool :=
  let R := reachList T root
  let isUser : RName → Bool := fun r => match r with | .user _ => true | .gen _ => false
  let onCycle : RName → RName → Bool := fun r s => (reachList T s).contains r
  (R.any fun r => !T.defined r,
   R.any fun r => (T.edges r).any fun e => isUser r && onCycle r e.1,
   R.any fun r => (T.edges r).any fun e => !e.2 && onCycle r e.1,
   R.any fun r => isUser r && (reachList T r).any fun s => isUser s && s != r && (reachList T s).contains r,
   R.any fun r => isUser r && (reachList T r).any fun s => !isUser s && (reachList T s).contains r)

/-! ### the same graph read on the surface grammar (user rules only)

`sRefsA body` — the references of a rule body with the flag "tail reference": last item of its sequence, every
enclosing group / optional in turn the last item of its sequence; anything under `*` / `+` is not (it is followed by
the operator's own loop `g = atom g`). -/

/-- weaken the flags of a list of references by the flag of the context -/
def andFlag (l0 : Bool) (xs : List (Nat × Bool)) : List (Nat × Bool) := xs.map fun e => (e.1, l0 && e.2)

mutual
  def sRefsE : Exp → List (Nat × Bool)
    | .tok _ => []
    | .ref r => [(r, true)]
    | .null => []
    | .void => []
    | .group a => sRefsA a
    | .opt a => sRefsA a
    | .star e => andFlag false (sRefsE e)
    | .plus e => andFlag false (sRefsE e)
  def sRefsS : Seq → List (Nat × Bool)
    | .one _ _ e => sRefsE e
    | .cons _ _ e s => andFlag false (sRefsE e) ++ sRefsS s
  def sRefsA : Alts → List (Nat × Bool)
    | .one s => sRefsS s
    | .cons s a => sRefsS s ++ sRefsA a
end

/-- user rule `r` (first definition) references user rule `s`, as a tail reference or not -/
def SEdge (g : Grammar) (r s : Nat) (last : Bool) : Prop := ∃ body, g.lookup r = some body ∧ (s, last) ∈ sRefsA body

inductive SReach (g : Grammar) (a : Nat) : Nat → Prop
  | refl : SReach g a a
  | snoc {b c l} : SReach g a b → SEdge g b c l → SReach g a c

/-- the graph predicate on the surface grammar -/
def SRepresentable (g : Grammar) (root : Nat) : Prop :=
  (∀ r, SReach g root r → (g.lookup r).isSome = true) ∧
  (∀ r s, SReach g root r → SEdge g r s false → ¬ SReach g s r)

end SSVerif.Jsgf
