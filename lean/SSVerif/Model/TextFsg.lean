import SSVerif.Model.TextIn
/-!
# M17 — the FSG text reader `fsg_model_read_s3file` (`src/fsg_model.c:470-693`) over raw bytes

Mirrors the C control flow on the list of lines `allLines buf 0` (the remaining list is the state of
`s3f->ptr`).  What is modelled: comment lines, keyword matching by `strncmp(word, KW, ptr - word)`
(= the word is a non-empty *prefix* of the keyword), the header values and their `strtol`
conversions including clamping to `long` and the `(int)` truncation, the state range checks, the
probability range check on the exact value of the `atof` literal after its two roundings
(`double`, then `float32`), vocabulary numbering in order of first appearance, and the filtering
of null self-loops.  What is **not** modelled: the integer log-probability
(`logmath_log(p) * lw`, floating point — checked on the implementation by the harness oracle) and
the null-transition closure (M6 / C13).

Repaired behaviour modelled (see `fixes/`): `nan` is refused (D18); numbers are scanned on the
token only, never beyond `end` (D30).  The declared state count is a `long` handed to an `int32`
parameter: when the reader tests an upper bound (`Generated.TextIn.fsgNStatesMax`, regenerated from
the source; D88 adds `n_state > MAX_INT32`) larger values are `nStatesMalformed`; where it does not
(the pinned tree), the value is truncated, and a negative truncation makes the C code `exit` in
`ckd_calloc`: the model returns `allocFail` (known finding).
-/
namespace SSVerif.TextIn

inductive FsgErr where
  | beginMissing | nStatesMissing | nStatesMalformed | allocFail
  | startMissing | startMalformed | finalMissing | finalMalformed
  | fromMissing | fromInvalid | toMissing | toInvalid | probMissing | probMalformed
deriving Repr, DecidableEq, Inhabited

def kwBegin : List UInt8 := Generated.TextIn.fsgBeginDecl
def kwEnd : List UInt8 := Generated.TextIn.fsgEndDecl
def kwN : List UInt8 := Generated.TextIn.fsgNDecl
def kwNumStates : List UInt8 := Generated.TextIn.fsgNumStatesDecl
def kwS : List UInt8 := Generated.TextIn.fsgSDecl
def kwStartState : List UInt8 := Generated.TextIn.fsgStartStateDecl
def kwF : List UInt8 := Generated.TextIn.fsgFDecl
def kwFinalState : List UInt8 := Generated.TextIn.fsgFinalStateDecl
def kwT : List UInt8 := Generated.TextIn.fsgTDecl
def kwTransition : List UInt8 := Generated.TextIn.fsgTransitionDecl

/-- `0 == strncmp(word, kw, ptr - word)` for a token (non-empty, no NUL inside): the token is a
prefix of the keyword -/
def isPrefixKw (w kw : List UInt8) : Bool := w.length ≤ kw.length && kw.take w.length == w

/-- `copy_header_value` (fsg_model.c:470-503): skip comment lines, empty lines and lines whose
first word matches neither keyword; on the first matching line return a copy of the second word
(`none` when the line has no second word — `s3file_copy_nextword` returns NULL) and the remaining
lines.  `none` also at end of input. -/
def headerValue (buf : Buf) (name : List UInt8) (short : Option (List UInt8)) :
    List (Span buf.size) → Option (List UInt8) × List (Span buf.size)
  | [] => (none, [])
  | l :: rest =>
    if l.first == Generated.TextIn.fsgCommentChar then headerValue buf name short rest
    else match lineWords buf l with
      | [] => headerValue buf name short rest
      | w :: ws =>
        let wb := slice buf w
        if (match short with | some s => isPrefixKw wb s | none => false) || isPrefixKw wb name then
          (ws.head?.map (slice buf), rest)
        else headerValue buf name short rest

/-- the exact acceptance test of `p = (float32)atof(word); (p <= 0.0) || (p > 1.0)` on a
positive finite literal `m * B^e`: after rounding to `double` and then to `float32` (both to
nearest-even) the value is `> 0` iff `m*B^e > 2^-150 + 2^-203` and `≤ 1` iff
`m*B^e ≤ 1 + 2^-24 + 2^-53`; written without fractions. -/
def probInRange (m : Nat) (ten : Bool) (e : Int) : Prop :=
  let B : Nat := if ten then 10 else 2
  let up := B ^ e.toNat
  let dn := B ^ (-e).toNat
  (2 ^ 53 + 1) * dn < m * up * 2 ^ 203 ∧ m * up * 2 ^ 53 ≤ (2 ^ 53 + 2 ^ 29 + 1) * dn

instance (m : Nat) (ten : Bool) (e : Int) : Decidable (probInRange m ten e) := by
  unfold probInRange; exact inferInstance

/-- number of digits of `m` in base `B` is at most `n` (cheap syntactic bound used to avoid
computing astronomically large powers) -/
def probAccept : FloatLit → Bool
  | .nan => false          -- repaired (D18); the pinned code lets NaN through both comparisons
  | .inf _ => false
  | .fin true _ _ _ => false   -- negative or -0
  | .fin false m ten e =>
    if m == 0 then false
    -- magnitude short cuts (they only refuse): m ≥ 1 and e ≥ 1 gives a value ≥ 2 > 1;
    -- with d = #digits of m, e ≤ -(d + 160) gives a value < B^-160 < 2^-150
    else if e ≥ 1 then false
    else if e ≤ -((Nat.log2 m : Int) + 1 + 160) then false
    else decide (probInRange m ten e)

structure FsgObj where
  name : List UInt8
  nState : Nat
  start : Nat
  final : Nat
  /-- word strings, word id = index (order of first appearance) -/
  vocab : List (List UInt8)
  /-- word transitions in file order: from, to, word id, probability literal -/
  trans : List (Nat × Nat × Nat × FloatLit)
  /-- null transitions in file order with self-loops dropped: from, to, probability literal -/
  nulls : List (Nat × Nat × FloatLit)
deriving Repr, Inhabited

/-- `x = (int)strtol(word, &endptr, 10); if (endptr == word || x < 0 || x >= n_state) error` -/
def parseState (nState : Nat) (w : List UInt8) : Option Nat :=
  match strtol10 w with
  | none => none
  | some v =>
    let x := wrap32 v
    if x < 0 ∨ x ≥ (nState : Int) then none else some x.toNat

/-- id of a word in the vocabulary, adding it at the end when new
(`hash_table_lookup_int32` / `hash_table_enter_int32(vocab, val, lastwid)`) -/
def vocabAdd (vocab : List (List UInt8)) (w : List UInt8) : List (List UInt8) × Nat :=
  match vocab.idxOf? w with
  | some i => (vocab, i)
  | none => (vocab ++ [w], vocab.length)

structure TransSt where
  vocab : List (List UInt8) := []
  trans : List (Nat × Nat × Nat × FloatLit) := []   -- newest first
  nulls : List (Nat × Nat × FloatLit) := []          -- newest first
deriving Inhabited

/-- one `TRANSITION from to prob [word]` line (fsg_model.c:597-645); `ws` are the words after the keyword -/
def transLine (buf : Buf) (nState : Nat) (ws : List (Span buf.size)) (st : TransSt) : Except FsgErr TransSt :=
  match ws with
  | [] => .error .fromMissing
  | wi :: ws =>
    match parseState nState (slice buf wi) with
    | none => .error .fromInvalid
    | some i =>
      match ws with
      | [] => .error .toMissing
      | wj :: ws =>
        match parseState nState (slice buf wj) with
        | none => .error .toInvalid
        | some j =>
          match ws with
          | [] => .error .probMissing
          | wp :: ws =>
            let p := atofLit (slice buf wp)
            if !probAccept p then .error .probMalformed
            else match ws with
              | ww :: _ =>
                let (v, wid) := vocabAdd st.vocab (slice buf ww)
                .ok { st with vocab := v, trans := (i, j, wid, p) :: st.trans }
              | [] =>
                -- fsg_model_null_trans_add: self-loops are redundant and never stored
                if i == j then .ok st else .ok { st with nulls := (i, j, p) :: st.nulls }

/-- the transition loop (fsg_model.c:584-648): until `FSG_END` (any prefix of it) or end of input -/
def readTrans (buf : Buf) (nState : Nat) : List (Span buf.size) → TransSt → Except FsgErr TransSt
  | [], st => .ok st
  | l :: rest, st =>
    if l.first == Generated.TextIn.fsgCommentChar then readTrans buf nState rest st
    else match lineWords buf l with
      | [] => readTrans buf nState rest st
      | w :: ws =>
        let wb := slice buf w
        if isPrefixKw wb kwEnd then .ok st
        else if isPrefixKw wb kwT || isPrefixKw wb kwTransition then
          match transLine buf nState ws st with
          | .error e => .error e
          | .ok st' => readTrans buf nState rest st'
        else readTrans buf nState rest st

/-- the upper-bound part of the test on the declared state count (fsg_model.c:545), as far as the
source has one -/
def nStatesTooBig (n : Int) : Bool :=
  match Generated.TextIn.fsgNStatesMax with
  | some mx => decide (n > (mx : Int))
  | none => false

/-- `fsg_model_read_s3file` up to (not including) the null closure -/
def fsgRead (buf : Buf) : Except FsgErr FsgObj :=
  let (name, ls) := headerValue buf kwBegin none (allLines buf 0)
  match name with
  | none => .error .beginMissing
  | some name =>
    let (v, ls) := headerValue buf kwNumStates (some kwN) ls
    match v with
    | none => .error .nStatesMissing
    | some v =>
      match strtol10 v with
      | none => .error .nStatesMalformed
      | some n =>
        if n < 0 ∨ nStatesTooBig n = true then .error .nStatesMalformed
        else
          -- fsg_model_init(fsgname, lmath, lw, n_state): the parameter is int32
          let n32 := wrap32 n
          if n32 < 0 then .error .allocFail
          else
            let nState := n32.toNat
            let (v, ls) := headerValue buf kwStartState (some kwS) ls
            match v with
            | none => .error .startMissing
            | some v =>
              match parseState nState v with
              | none => .error .startMalformed
              | some start =>
                let (v, ls) := headerValue buf kwFinalState (some kwF) ls
                match v with
                | none => .error .finalMissing
                | some v =>
                  match parseState nState v with
                  | none => .error .finalMalformed
                  | some final =>
                    match readTrans buf nState ls {} with
                    | .error e => .error e
                    | .ok st =>
                      .ok { name, nState, start, final, vocab := st.vocab,
                            trans := st.trans.reverse, nulls := st.nulls.reverse }

end SSVerif.TextIn
