import SSVerif.Generated.S3Consts
/-!
# M16 — the byte-level reader of `src/s3file.c` and the read plans of the acoustic-model loaders

Core Lean only.  The model is of the code **with the D19 repairs applied** (`/verif/fixes/D19*.patch`);
the places where the pinned code differs are marked `D19x`.

A file is `size` bytes; `byte i` is meaningful only for `i < size`.  Every access of file bytes in
the model goes through `rd`/`get`/`skip`, which carry the explicit bound: touching an offset
`≥ size` yields `Res.oob`, and storing into an allocated array at an index `≥` its element count
yields `Res.idx`.  `Props/C17.lean` proves that neither result is reachable for any file and any
byte content (i.e. every truncation and every header/count value).

Scope: 64-bit `size_t`, little-endian host, element sizes 1, 2, 4 (the only ones the loaders use).
-/
namespace SSVerif.S3file

/-- the bytes `[buf, end)` of an `s3file_t`; truncation = smaller `size` -/
structure File where
  size : Nat
  byte : Nat → UInt8

/-- the file consisting of the bytes `l` -/
def File.ofList (l : List UInt8) : File := { size := l.length, byte := fun i => l.getD i 0 }

/-- outcome of a model step -/
inductive Res (α : Type) where
  /-- the step completed -/
  | ok (a : α)
  /-- the C code returns its error value (`-1`/`NULL`) from the named site -/
  | reject (site : String)
  /-- a read of file offset `i` with `i ≥ size` (outside `[buf, end)`) -/
  | oob (i : Nat)
  /-- a store/load at index `i` of an array allocated with `n ≤ i` elements -/
  | idx (i n : Nat)
deriving Repr

namespace Res
@[inline] protected def bind {α β : Type} : Res α → (α → Res β) → Res β
  | ok a, f => f a
  | reject s, _ => reject s
  | oob i, _ => oob i
  | idx i n, _ => idx i n
instance : Monad Res where
  pure := ok
  bind := Res.bind
end Res

/-! ## The reader state (`s3file_t`, s3file.h) -/

structure Hdr where
  name : List UInt8
  value : List UInt8
deriving Repr, DecidableEq

structure S where
  f : File
  ptr : Nat
  headers : List Hdr := []
  swap : Bool := false
  chk : Bool := false
  sum : UInt32 := 0

/-- `s3file_init` -/
def S.init (f : File) : S := { f, ptr := 0 }
/-- `s->end - s->ptr` -/
def S.avail (s : S) : Nat := s.f.size - s.ptr
/-- the invariant `buf ≤ ptr ≤ end` -/
def S.WF (s : S) : Prop := s.ptr ≤ s.f.size

/-- one byte at offset `i` -/
def rd (f : File) (i : Nat) : Res UInt8 := if i < f.size then .ok (f.byte i) else .oob i

/-- `n` bytes starting at `off` (`memcpy` out of the file) -/
def rdN (f : File) (off n : Nat) : Res (List UInt8) :=
  if off + n ≤ f.size then .ok ((List.range n).map fun i => f.byte (off + i)) else .oob (off + n - 1)

/-- value of the `k`-byte element stored at `off`, as the host sees it after `swap_buf`
(little-endian host; `swap` reverses the bytes) -/
def valAt (f : File) (off k : Nat) (swap : Bool) : Nat :=
  (List.range k).foldl (fun acc j => acc * 256 + (f.byte (off + (if swap then j else k - 1 - j))).toNat) 0

def toI32 (v : Nat) : Int := if v < 2147483648 then (v : Int) else (v : Int) - 4294967296

/-- one step of `chksum_accum` (s3file.c:365-395): rotate by 5/10/20 bits and add the element -/
def rot (k : Nat) (sum : UInt32) : UInt32 :=
  if k = 1 then (sum <<< 5) ||| (sum >>> 27)
  else if k = 2 then (sum <<< 10) ||| (sum >>> 22)
  else (sum <<< 20) ||| (sum >>> 12)

/-- `chksum_accum` over `n` elements of size `k` starting at `off` -/
def accum (f : File) (k : Nat) (swap : Bool) : Nat → Nat → UInt32 → UInt32
  | 0, _, sum => sum
  | n + 1, off, sum => accum f k swap n (off + k) (rot k sum + UInt32.ofNat (valAt f off k swap))

/-- `s3file_get` (s3file.c:423-444): returns `min(n, available / el_sz)` elements and advances.
The `else` branch is the explicit bound of the `memcpy`. -/
def get (s : S) (k n : Nat) : Res (S × Nat) :=
  let n' := if s.avail < k * n then s.avail / k else n
  if n' = 0 then .ok (s, 0)
  else if s.ptr + k * n' ≤ s.f.size then
    .ok ({ s with ptr := s.ptr + k * n',
                  sum := if s.chk then accum s.f k s.swap n' s.ptr s.sum else s.sum }, n')
  else .oob (s.ptr + k * n' - 1)

/-- `s3file_get(&v, 4, 1, s) != 1 → error`; the value as `uint32` -/
def get32 (s : S) (site : String) : Res (S × Nat) := do
  let p := s.ptr
  let (s', c) ← get s 4 1
  if c ≠ 1 then .reject site else .ok (s', valAt s.f p 4 s.swap)

/-- advance `ptr` by `n` bytes that the caller uses in place (`s->ptr += n` after the check
`n > end - ptr → error`; bin_mdef.c, ptm_mgau.c read_sendump with D19e/D19h) -/
def skip (s : S) (n : Nat) (site : String) : Res S :=
  if n > s.avail then .reject site
  else if s.ptr + n ≤ s.f.size then .ok { s with ptr := s.ptr + n } else .oob (s.ptr + n - 1)

/-- `s3file_verify_chksum` (s3file.c:550-570) -/
def verifyChksum (s : S) : Res S :=
  if !s.chk then .ok s else do
    let (s1, v) ← get32 { s with chk := false } "get(chksum) failed"
    if v ≠ s.sum.toNat then .reject "Checksum error" else .ok s1

/-! ## `s3file_get_1d/_2d/_3d` (s3file.c:446-548, with D19b/D19c/D19f) -/

structure Arr where
  /-- element count allocated by `ckd_calloc(n, el_sz)` and read -/
  n : Nat
  /-- file offset of the first element -/
  off : Nat
deriving Repr

/-- `s3file_get_1d`.  D19c: a zero count or a count larger than the rest of the file is an error
return (pinned: `E_FATAL` on zero, allocation of up to 32 GB otherwise). -/
def get1d (s : S) (k : Nat) : Res (S × Arr) := do
  let (s1, n) ← get32 s "get(arraysize) failed"
  if n = 0 ∨ n > s1.avail / k then .reject "Bad arraysize" else
  let (s2, c) ← get s1 k n
  if c ≠ n then .reject "get(arraydata) failed" else .ok (s2, { n, off := s1.ptr })

/-- `ckd_alloc_2d_ptr(d1, d2, raw)`: row `i` is `raw[i*d2 .. (i+1)*d2)`; every row must lie inside
the `n` elements allocated for `raw` -/
def rowsInside (d1 d2 n : Nat) : Nat → Res Unit
  | 0 => .ok ()
  | i + 1 => if (i + 1) * d2 ≤ n ∧ i < d1 then rowsInside d1 d2 n i else .idx ((i + 1) * d2) n

/-- `s3file_get_2d`.  D19f: a count that is not `d1*d2` is an error return (pinned: `assert`). -/
def get2d (s : S) (k : Nat) : Res (S × Nat × Nat × Arr) := do
  let (s, d1) ← get32 s "get(dimension1) failed"
  let (s, d2) ← get32 s "get(dimension2) failed"
  let (s, a) ← get1d s k
  if a.n ≠ d1 * d2 then .reject "array size does not match dimensions" else do
  rowsInside d1 d2 a.n d1
  .ok (s, d1, d2, a)

/-- `s3file_get_3d`; the row table of `ckd_alloc_3d_ptr` has `d1*d2` rows of `d3` elements -/
def get3d (s : S) (k : Nat) : Res (S × Nat × Nat × Nat × Arr) := do
  let (s, d1) ← get32 s "get(dimension1) failed"
  let (s, d2) ← get32 s "get(dimension2) failed"
  let (s, d3) ← get32 s "get(dimension3) failed"
  let (s, a) ← get1d s k
  if d1 * d2 > a.n ∨ a.n ≠ d1 * d2 * d3 then .reject "array size does not match dimensions" else do
  rowsInside (d1 * d2) d3 a.n (d1 * d2)
  .ok (s, d1, d2, d3, a)

/-! ## Header parsing (s3file.c:152-327) -/

/-- `isspace_c` (strfuncs.c:52): `strchr(" \t\n\r\v\f", ch) != NULL`, which is also true for NUL -/
def isSpace (b : UInt8) : Bool := Generated.s3Blanks.contains b

/-- the scan of `s3file_nextline`: first `p' ≥ p` with `p' = end` or `byte p' = '\n'` -/
def scanNl (f : File) : Nat → Nat → Res Nat
  | 0, p => .ok p
  | fuel + 1, p =>
    if p < f.size then do
      let b ← rd f p
      if b = 10 then .ok p else scanNl f fuel (p + 1)
    else .ok p

/-- `s3file_nextline`: `none` at EOF, else the pointer after the line (the line starts at `p`) -/
def nextline (f : File) (p : Nat) : Res (Option Nat) :=
  if p = f.size then .ok none else do
    let e ← scanNl f (f.size - p) p
    .ok (some (if e ≠ f.size then e + 1 else e))

/-- `while (*ptr < end && isspace_c(**ptr)) ++*ptr` -/
def skipSp (f : File) (lim : Nat) : Nat → Nat → Res Nat
  | 0, p => .ok p
  | fuel + 1, p =>
    if p < lim then do
      let b ← rd f p
      if isSpace b then skipSp f lim fuel (p + 1) else .ok p
    else .ok p

/-- `for (word = *ptr; *ptr < end && !isspace_c(**ptr); ++*ptr)` -/
def skipNon (f : File) (lim : Nat) : Nat → Nat → Res Nat
  | 0, p => .ok p
  | fuel + 1, p =>
    if p < lim then do
      let b ← rd f p
      if isSpace b then .ok p else skipNon f lim fuel (p + 1)
    else .ok p

/-- `s3file_nextword(s, &ptr)` inside a line ending at `lim` (= `s->ptr`): `(word, ptr')` -/
def nextword (f : File) (lim p : Nat) : Res (Option (Nat × Nat)) :=
  if p ≥ lim then .ok none else do
    let w ← skipSp f lim (lim - p) p
    if w ≥ lim then .ok none else do
      let e ← skipNon f lim (lim - w) w
      .ok (some (w, e))

/-- `strncmp(file + off, lit, n) == 0` (reads `file[off+i]` for `i < n` until a difference or NUL) -/
def strncmpEq (f : File) (off : Nat) (lit : List UInt8) : Nat → Nat → Res Bool
  | 0, _ => .ok true
  | n + 1, i => do
    let a ← rd f (off + i)
    if a ≠ lit.getD i 0 then .ok false
    else if a = 0 then .ok true
    else strncmpEq f off lit n (i + 1)

/-- string literals of the C code as bytes; those of s3file.c are regenerated from the sources
(`Generated/S3Consts.lean`, tools/gen_s3file.py) -/
def litEndhdr : List UInt8 := Generated.s3Endhdr
def litEndComment : List UInt8 := Generated.s3EndComment
def litS3 : List UInt8 := Generated.s3Sniff
def litChksum0 : List UInt8 := Generated.s3ChksumName
def litVersion : List UInt8 := [118, 101, 114, 115, 105, 111, 110]
def litFeatureCount : List UInt8 := [102, 101, 97, 116, 117, 114, 101, 95, 99, 111, 117, 110, 116, 32]
def litMixtureCount : List UInt8 := [109, 105, 120, 116, 117, 114, 101, 95, 99, 111, 117, 110, 116, 32]
def litModelCount : List UInt8 := [109, 111, 100, 101, 108, 95, 99, 111, 117, 110, 116, 32]
def litClusterCount : List UInt8 := [99, 108, 117, 115, 116, 101, 114, 95, 99, 111, 117, 110, 116, 32]
def litClusterBits : List UInt8 := [99, 108, 117, 115, 116, 101, 114, 95, 98, 105, 116, 115, 32]

/-- what both header loops see in a line (s3file.c:230-245 and 254-267 are the same code) -/
inductive Line where
  | comment (np : Nat)
  | endhdr (np : Nat)
  | entry (np w e : Nat)
deriving Repr

/-- next line, its first word, `#` comment test and the `strncmp(word, "endhdr", ptr - word)` test -/
def classify (f : File) (p : Nat) : Res Line := do
  match ← nextline f p with
  | none => .reject "Premature EOF"
  | some np =>
    match ← nextword f np p with
    | none => .reject "Missing header"
    | some (w, e) =>
      let c ← rd f w
      if c = 35 then .ok (.comment np)
      else if ← strncmpEq f w litEndhdr (e - w) 0 then .ok (.endhdr np)
      else .ok (.entry np w e)

/-- first pass over the header lines (s3file.c:228-247): counts the entries -/
def pass1 (f : File) : Nat → Nat → Nat → Res Nat
  | 0, _, _ => .reject "Premature EOF"
  | fuel + 1, p, cnt => do
    match ← classify f p with
    | .comment np => pass1 f fuel np cnt
    | .endhdr _ => .ok cnt
    | .entry np _ _ => pass1 f fuel np (cnt + 1)

/-- second pass (s3file.c:252-297): fills `headers[i]`; `nhdr` is the allocated count.
Returns the pointer after the `endhdr` line, the entries and `do_chksum`. -/
def pass2 (f : File) (nhdr : Nat) : Nat → Nat → List Hdr → Bool → Res (Nat × List Hdr × Bool)
  | 0, _, _, _ => .reject "Premature EOF"
  | fuel + 1, p, acc, chk => do
    match ← classify f p with
    | .comment np => pass2 f nhdr fuel np acc chk
    | .endhdr np => .ok (np, acc.reverse, chk)
    | .entry np w e =>
      if acc.length ≥ nhdr then .idx acc.length nhdr
      else do
        let name ← rdN f w (e - w)
        match ← nextword f np e with
        | none => .reject "Missing value"
        | some (v, ve) =>
          let value ← rdN f v (ve - v)
          pass2 f nhdr fuel np ({ name, value } :: acc) (chk || name == litChksum0)

/-- the old header format (s3file.c:298-317): skip lines until one that is a prefix of
`*end_comment*\n` -/
def oldFmt (f : File) : Nat → Nat → Res Nat
  | 0, _ => .reject "Premature EOF"
  | fuel + 1, p => do
    match ← nextline f p with
    | none => .reject "Premature EOF"
    | some np =>
      if ← strncmpEq f p litEndComment (np - p) 0 then .ok np else oldFmt f fuel np

def bswap32 (v : Nat) : Nat :=
  (v % 256) * 16777216 + (v / 256 % 256) * 65536 + (v / 65536 % 256) * 256 + v / 16777216 % 256

/-- `swap_check` (s3file.c:126-150): the 32-bit byte-order magic, read unswapped, not checksummed -/
def swapCheck (s : S) : Res (S × Bool) := do
  let (s', magic) ← get32 { s with swap := false, chk := false } "Cannot read BYTEORDER MAGIC NO."
  if magic = Generated.s3ByteOrderMagic then .ok (s', false)
  else if bswap32 magic = Generated.s3ByteOrderMagic then .ok (s', true)
  else .reject "Bad BYTEORDER MAGIC NO"

/-- is the first line `"s3\n"`?  D19f: compared only when the line has 3 bytes (pinned: `strncmp`
reads up to 2 bytes past the end of a 1- or 2-byte file). -/
def sniffS3 (f : File) (p np : Nat) : Res Bool :=
  if np - p ≥ 3 then strncmpEq f p litS3 3 0 else .ok false

/-- the two header formats: pointer after the header text, the entries, `do_chksum` -/
def hdrBody (f : File) (p np : Nat) (isS3 : Bool) : Res (Nat × List Hdr × Bool) :=
  if isS3 then do
    let n ← pass1 f (f.size - np + 1) np 0
    -- s->headers = ckd_calloc(s->nhdr, sizeof(*s->headers))
    pass2 f n (f.size - np + 1) np [] false
  else do
    let v ← rdN f p (np - p)
    let q ← oldFmt f (f.size - np + 1) np
    .ok (q, [{ name := litVersion, value := v }], false)

/-- `s3file_parse_header` on a fresh/rewound reader -/
def parseHeader (s : S) : Res S := do
  match ← nextline s.f s.ptr with
  | none => .reject "Premature EOF"
  | some np =>
    let isS3 ← sniffS3 s.f s.ptr np
    let r ← hdrBody s.f s.ptr np isS3
    let r2 ← swapCheck { s with ptr := r.1, headers := r.2.1 }
    .ok { r2.1 with swap := r2.2, chk := r.2.2 }

/-! ## Arbitrary use of the reader -/

inductive Op where
  | hdr
  | get (k n : Nat)
  | get1d (k : Nat)
  | get2d (k : Nat)
  | get3d (k : Nat)
  | verify
deriving Repr

def Op.run (s : S) : Op → Res S
  | .hdr => parseHeader s
  | .get k n => do let (s', _) ← S3file.get s k n; pure s'
  | .get1d k => do let (s', _) ← S3file.get1d s k; pure s'
  | .get2d k => do let (s', _) ← S3file.get2d s k; pure s'
  | .get3d k => do let (s', _) ← S3file.get3d s k; pure s'
  | .verify => verifyChksum s

def runOps : List Op → S → Res S
  | [], s => .ok s
  | o :: os, s => do let s' ← o.run s; runOps os s'

/-! ## Read plans of the loaders -/

/-- `n` successive `s3file_get(buf, 4, per, s) != per → error` (one matrix / one pdf per call) -/
def getRows (site : String) (per : Nat) : Nat → S → Res S
  | 0, s => .ok s
  | n + 1, s => do
    let (s', c) ← get s 4 per
    if c ≠ per then .reject site else getRows site per n s'

structure TmatOut where
  nTmat : Nat
  nState : Nat
  nDst : Nat
  /-- the coefficient count stored in the file -/
  n : Nat
deriving Repr, DecidableEq

/-- `tmat_init_s3file` (tmat.c:107-228 with D19b/D19c/D19g).  The float-valued topology checks
(`tmat_chk_uppertri`, `tmat_chk_1skip`) are outside the model.  Counts are C `int32`; once a
count is known to be positive the model continues with its `Nat` value. -/
def tmatPlan (f : File) : Res TmatOut := do
  let s ← parseHeader (S.init f)
  let (s, a) ← get32 s "Failed to read tmat header"
  let (s, b) ← get32 s "Failed to read tmat header"
  let (s, c) ← get32 s "Failed to read tmat header"
  let (s, d) ← get32 s "Failed to read tmat header"
  if toI32 a ≤ 0 ∨ toI32 a ≥ 32767 then .reject "Number of transition matrices out of range" else
  if toI32 b ≤ 0 ∨ toI32 b ≥ 32767 then .reject "Number of source states out of range" else
  if toI32 c ≠ toI32 b + 1 then .reject "Unsupported transition matrix" else
  let nt := (toI32 a).toNat; let ns := (toI32 b).toNat; let nd := (toI32 c).toNat; let n := (toI32 d).toNat
  if toI32 d < 0 ∨ n ≠ nt * (ns * nd) then .reject "Invalid transitions" else
  if n > s.avail / 4 then .reject "Transition matrix file truncated" else do
  -- t->tp = ckd_calloc_3d(n_tmat, n_src, n_dst); matrix i is stored at [i*per, (i+1)*per)
  rowsInside nt (ns * nd) n nt
  let s ← getRows "Failed to read transition matrix" (ns * nd) nt s
  let _ ← verifyChksum s
  .ok { nTmat := nt, nState := ns, nDst := nd, n }

structure GauOut where
  nMgau : Nat
  nFeat : Nat
  nDensity : Nat
  veclen : List Nat
  /-- the float count stored in the file (= size of `buf`) -/
  n : Nat
deriving Repr, DecidableEq

/-- the pointer set-up loop of `gauden_param_read` (ms_gauden.c:176-183): `out[i][j][k] = &buf[l];
l += veclen[j]`; each vector `[l, l+veclen[j])` must lie inside the `n` floats of `buf` -/
def placeVecs (n : Nat) : List Nat → Nat → Res Nat
  | [], l => .ok l
  | v :: vs, l => if l + v ≤ n then placeVecs n vs (l + v) else .idx (l + v) n

/-- the vector lengths in the order of the triple loop `i < n_mgau, j < n_feat, k < n_density` -/
def vecOrder (nMgau nDensity : Nat) (veclen : List Nat) : List Nat :=
  (List.replicate nMgau (veclen.flatMap fun v => List.replicate nDensity v)).flatten

def sumN : List Nat → Nat
  | [] => 0
  | x :: r => x + sumN r

/-- `gauden_param_read` (ms_gauden.c:103-204 with D19c/D19g) -/
def gaudenParamPlan (f : File) : Res GauOut := do
  let s ← parseHeader (S.init f)
  let (s, a) ← get32 s "Failed to read number fo codebooks"
  let (s, b) ← get32 s "Failed to read number of features"
  let (s, c) ← get32 s "read (#density/codebook) failed"
  if toI32 a ≤ 0 ∨ toI32 b ≤ 0 ∨ toI32 c ≤ 0 ∨ (toI32 b).toNat > s.avail / 4 then .reject "Bad dimensions" else do
  let nm := (toI32 a).toNat; let nf := (toI32 b).toNat; let dn := (toI32 c).toNat
  -- veclen = ckd_calloc(n_feat, 4)
  let p := s.ptr
  let (s, got) ← get s 4 nf
  if got ≠ nf then .reject "read (feature-lengths) failed" else
  let vl := (List.range nf).map fun i => toI32 (valAt s.f (p + 4 * i) 4 s.swap)
  let veclen := vl.map Int.toNat
  let blk := sumN veclen
  if vl.any (· ≤ 0) ∨ blk > 2147483647 then .reject "Bad feature length" else do
  let (s, d) ← get32 s "Failed to read number of parameters"
  let n := (toI32 d).toNat
  if toI32 d ≤ 0 ∨ nm * dn > n ∨ n ≠ nm * dn * blk then .reject "Number of parameters doesn't match dimensions" else
  if n > s.avail / 4 then .reject "File truncated" else do
  -- out = ckd_calloc_3d(n_mgau, n_feat, n_density, sizeof(float32*)); buf = ckd_calloc(n, 4)
  let _ ← placeVecs n (vecOrder nm dn veclen) 0
  let (s, got) ← get s 4 n
  if got ≠ n then .reject "Failed to read density data" else do
  let _ ← verifyChksum s
  .ok { nMgau := nm, nFeat := nf, nDensity := dn, veclen, n }

/-- `gauden_init_s3file` (ms_gauden.c:262-300): means, then variances, then the dimension
cross-checks -/
def gaudenPlan (means vars : File) : Res GauOut := do
  let m ← gaudenParamPlan means
  let v ← gaudenParamPlan vars
  if v.nMgau ≠ m.nMgau ∨ v.nFeat ≠ m.nFeat ∨ v.nDensity ≠ m.nDensity then
    .reject "Mixture-gaussians dimensions for means and variances differ"
  else if v.veclen ≠ m.veclen then .reject "Feature lengths for means and variances differ"
  else .ok m

structure LdaOut where
  nLda : Nat
  rows : Nat
  cols : Nat
  n : Nat
deriving Repr, DecidableEq

/-- `feat_read_lda_s3file` (lda.c:83-125 with D19b): `streamLen = feat->stream_len[0]` -/
def ldaPlan (f : File) (streamLen : Nat) : Res LdaOut := do
  let s ← parseHeader (S.init f)
  let (s, d1, d2, d3, a) ← get3d s 4
  let _ ← verifyChksum s
  if d3 ≠ streamLen then .reject "LDA matrix dimension doesn't match feature stream size"
  else .ok { nLda := d1, rows := d2, cols := d3, n := a.n }

/-! ### `read_sendump` (ptm_mgau.c:456-609 with D19e) -/

/-- `atoi` on a bounded, NUL-terminated copy: optional blanks, optional sign, digits -/
def atoi (l : List UInt8) : Int :=
  let l := l.dropWhile fun b => b = 32 || (9 ≤ b && b ≤ 13)
  let (neg, l) := match l with
    | 45 :: r => (true, r)
    | 43 :: r => (false, r)
    | r => (false, r)
  let v : Nat := (l.takeWhile fun b => 48 ≤ b && b ≤ 57).foldl (fun acc b => acc * 10 + (b.toNat - 48)) 0
  if neg then -(v : Int) else v

/-- `!strncmp(hstr, key, strlen(key))` followed by `atoi(hstr + strlen(key))` on the copy `hstr`
(at most 63 bytes, cut at the first NUL) -/
def kvInt (hstr : List UInt8) (k : List UInt8) : Option Int :=
  if k.isPrefixOf hstr then some (atoi (hstr.drop k.length)) else none

structure SdHdr where
  nFeat : Int
  nDensity : Int
  nSen : Int
  nClust : Int := 0
  nBits : Int := 8

/-- the loop over the header strings (ptm_mgau.c:511-541) -/
def sdStrings : Nat → S → SdHdr → Res (S × SdHdr)
  | 0, _, _ => .reject "Failed to read header string size"
  | fuel + 1, s, h => do
    let (s, nn) ← get32 s "Failed to read header string size"
    let n := toI32 nn
    if n = 0 then .ok (s, h) else
    if n < 0 ∨ n.toNat > s.avail then .reject "Header truncated" else do
    let raw ← rdN s.f s.ptr (min n.toNat 63)
    let hstr := raw.takeWhile (· ≠ 0)
    let h := { h with
      nFeat := (kvInt hstr litFeatureCount).getD h.nFeat
      nDensity := (kvInt hstr litMixtureCount).getD h.nDensity
      nSen := (kvInt hstr litModelCount).getD h.nSen
      nClust := (kvInt hstr litClusterCount).getD h.nClust
      nBits := (kvInt hstr litClusterBits).getD h.nBits }
    let s ← skip s n.toNat "Header truncated"
    sdStrings fuel s h

/-- rows of the mixture-weight array set up in place: `(*out_mixw)[n][i] = ptr; ptr += step` -/
def sdRows (step : Nat) : Nat → S → Res S
  | 0, s => .ok s
  | n + 1, s => do
    let s ← skip s step "Mixture weights truncated"
    sdRows step n s

structure SdOut where
  rows : Nat
  cols : Nat
  clust : Nat
  /-- `n_bits` of the header strings (8 when absent): 4 = two weights per byte -/
  bits : Nat
  /-- file offset of `mixw[0][0]` -/
  dataOff : Nat
  /-- `s3f->ptr` after the last row -/
  endPtr : Nat
deriving Repr, DecidableEq

/-- bytes of one row of `cols` weights: `int step = c; if (n_bits == 4) step = (step + 1) / 2;` -/
def sdStep (bits cols : Nat) : Nat := if bits = 4 then (cols + 1) / 2 else cols

/-- file offset of the row pointer `(*out_mixw)[n][i]` (`n < n_feat`, `i < rows`): the rows are laid out
feature-major, `step` bytes apart, starting at `dataOff` -/
def SdOut.rowOff (o : SdOut) (n i : Nat) : Nat := o.dataOff + (n * o.rows + i) * sdStep o.bits o.cols

/-- the title length "is extremely bogus": native or byte-swapped value in 1..999 decides `do_swap` -/
def sdTitleLen (s : S) (t : Nat) : Res (S × Nat) :=
  if 1 ≤ toI32 t ∧ toI32 t ≤ 999 then .ok (s, (toI32 t).toNat)
  else if 1 ≤ toI32 (bswap32 t) ∧ toI32 (bswap32 t) ≤ 999 then .ok ({ s with swap := true }, (toI32 (bswap32 t)).toNat)
  else .reject "Title length out of range"

/-- a length-prefixed, NUL-terminated block (title, header): `n` bytes skipped in place -/
def sdBlock (s : S) (n : Nat) (site : String) : Res S :=
  if n < 1 ∨ n > s.avail then .reject site else do
  let z ← rd s.f (s.ptr + n - 1)
  if z ≠ 0 then .reject "Bad title/header in dump file" else skip s n site

/-- `#rows`, `#columns` are in the file only when there is no cluster codebook -/
def sdRowsCols (s : S) (h : SdHdr) : Res (S × Int × Int) :=
  if h.nClust = 0 then do
    let (s, r) ← get32 s "Cannot read #rows"
    let (s, c) ← get32 s "Cannot read #columns"
    .ok (s, toI32 r, toI32 c)
  else .ok (s, h.nDensity, h.nSen)

def sdCodebook (s : S) (nClust : Nat) : Res S :=
  if nClust ≠ 0 then skip s nClust "Cluster codebook truncated" else .ok s

/-- `read_sendump`; `gFeat`, `gDensity` from the codebooks, `mdefSen` from the model definition -/
def sendumpPlan (f : File) (gFeat gDensity mdefSen : Nat) : Res SdOut := do
  let (s, t) ← get32 (S.init f) "Failed to read title size"
  let (s, n) ← sdTitleLen s t
  let s ← sdBlock s n "Title truncated"
  let (s, hh) ← get32 s "Failed to read header size"
  if toI32 hh < 1 then .reject "Header truncated" else do
  let s ← sdBlock s (toI32 hh).toNat "Header truncated"
  let (s, h) ← sdStrings (s.avail / 4 + 1) s { nFeat := gFeat, nDensity := gDensity, nSen := mdefSen }
  let (s, r, c) ← sdRowsCols s h
  if h.nFeat ≠ gFeat then .reject "Number of feature streams mismatch" else
  if h.nDensity ≠ gDensity then .reject "Number of densities mismatch" else
  if h.nSen ≠ mdefSen then .reject "Number of senones mismatch" else
  if ¬ (h.nClust = 0 ∨ h.nClust = 15 ∨ h.nClust = 16) then .reject "Cluster count must be 0, 15, or 16" else
  let nClust : Nat := if h.nClust = 0 then 0 else 16
  if ¬ (h.nBits = 8 ∨ h.nBits = 4) then .reject "Cluster count must be 4 or 8" else
  if r ≠ h.nDensity ∨ c < h.nSen then .reject "Mixture weight array does not match" else do
  let s ← sdCodebook s nClust
  -- *out_mixw = ckd_calloc_2d(n_feat, n_density): row i < r = n_density of feature n is stored at [n][i]
  let step := if h.nBits = 4 then (c.toNat + 1) / 2 else c.toNat
  let dataOff := s.ptr
  let s ← sdRows step (gFeat * gDensity) s
  .ok { rows := gDensity, cols := c.toNat, clust := nClust, bits := h.nBits.toNat, dataOff, endPtr := s.ptr }

/-! ### `read_mixw` (ptm_mgau.c:611-690 with D19g) -/

structure MixwOut where
  nSen : Nat
  nFeat : Nat
  nComp : Nat
  n : Nat
deriving Repr, DecidableEq

/-- `read_mixw`; `gFeat`, `gDensity` from the codebooks.  The C function does not verify the
checksum.  `*out_mixw = ckd_calloc_3d(g->n_feat, g->n_density, n_sen)`: cell `[f][c][i]` with
`f < n_feat = g->n_feat`, `c < n_comp = g->n_density`, `i < n_sen`. -/
def mixwPlan (f : File) (gFeat gDensity : Nat) : Res MixwOut := do
  let s ← parseHeader (S.init f)
  let (s, a) ← get32 s "s3file_get (arraysize) failed"
  let (s, b) ← get32 s "s3file_get (arraysize) failed"
  let (s, c) ← get32 s "s3file_get (arraysize) failed"
  let (s, d) ← get32 s "s3file_get (arraysize) failed"
  if toI32 b ≠ (gFeat : Int) then .reject "#Features streams mismatch" else
  if toI32 c ≠ (gDensity : Int) then .reject "#Mixture components mismatch" else
  let ns := (toI32 a).toNat; let n := (toI32 d).toNat
  if toI32 a ≤ 0 ∨ toI32 d ≤ 0 ∨ ns * gFeat > n ∨ n ≠ ns * gFeat * gDensity then
    .reject "#float32s doesn't match header dimensions" else
  if n > s.avail / 4 then .reject "Mixture weights file truncated" else do
  rowsInside (ns * gFeat) gDensity n (ns * gFeat)
  let _ ← getRows "s3file_get (arraydata) failed" gDensity (ns * gFeat) s
  .ok { nSen := ns, nFeat := gFeat, nComp := gDensity, n }

end SSVerif.S3file
