import SSVerif.Model.Search
import SSVerif.Model.FlatNet
/-!
# Decidable side conditions of the certificate-free proof "lextree network ⊆ flat network" (C02)

* `leafCtxB lt`: every leaf pnode has at least one bit in its context set (`fsg_lextree.c` allocates a leaf only for a right
  context it then sets; a filler's / single-phone word's pnode gets all bits).  `fsg_search_find_exit` does not look at the
  context set, so without this a leaf that no right context selects could still end an alignment.  PROVED for `buildLexTree`
  (`Proofs/LexCoverLeaf.lean`, `leafCtxB_build`); evaluated on the real lextree as part of the tie.
* `fillerSingleB M`: a word the FSG marks as filler has one phone.  `fsg_search_pnode_exit` lets a filler leave to EVERY right
  context (`fsg_model_is_filler(...) || dict_is_single_phone(...)`), while `fsg_lextree.c` gives a filler of two or more phones
  one word-final pnode per right context like any other word; the flat network follows the lextree there, so for such a word
  the search is more permissive than the flat network (not exercised by the generated cases: the check evaluates this on every case).

* `ctxRangeB M`: the silence phone and every phone of a word on an arc fit the context bit vectors of the model
  (`< 32 * ctxtBvsz`; the C code sizes the vectors by `n_ciphone`, the model by a regenerated constant).

All are evaluated by `ssdriver c02s` on the dumped real lextree / the model of every case.  Core Lean only.
-/
namespace SSVerif.LexCover
open SSVerif.Search SSVerif.FlatNet

def leafCtxB (lt : LexTree) : Bool :=
  (List.range lt.nodes.size).all fun p => !(lt.node p).leaf || (lt.node p).ctxt != 0

def fillerSingleB (M : Model) : Bool :=
  (wordArcs M).all fun x => !x.2.2.filler || x.2.2.pron.length == 1

def ctxRangeB (M : Model) : Bool :=
  decide (M.sil < 32 * SSVerif.Generated.Search.ctxtBvsz) &&
  (wordArcs M).all fun x => x.2.2.pron.all fun p => decide (p < 32 * SSVerif.Generated.Search.ctxtBvsz)

end SSVerif.LexCover
