import SSVerif.Model.Nfa
/-!
# M6 — model of `src/fsg_model.c` (finite-state grammars)

Shared by C13 (owner), C01, C05, C11.  Core Lean only.

## Representation

* `Link = {src, dst, logp, wid}` is `fsg_link_t` (`from_state`, `to_state`, `logs2prob`, `wid`;
  `wid = none` is the C `wid < 0`, a null transition).  (`from`/`to` are Lean keywords.)
* `Fsg = {nState, start, final, links, …}` is `fsg_model_t`.  The C code keeps, per source state, a
  hash table `to_state ↦ glist of word links` and a hash table `to_state ↦ null link`.  The model
  keeps one list `links`, **newest first**: restricted to one `(src, dst)` pair this is exactly
  the order of the C `glist` (`glist_add_ptr` prepends), which is the only order the C code
  depends on (`fsg_model_trans_add` updates the *first* link with the given label).  The order in
  which the C hash tables are iterated is *not* modelled: every function below whose C
  counterpart iterates a hash table produces a result that is compared with the C result as a
  multiset of arcs, and for the closure the result is proved independent of the order
  (`Proofs/FsgClosure.lean`, `closure_null_is_best`).
* `vocab` is the C `vocab` array (word id = index), `sil`/`alt` are the bit vectors `silwords` /
  `altwords` as lists of word ids.  `name = ""` stands for both `NULL` and the empty string (the
  writer prints both the same way).

## API (small on purpose)

construction: `Fsg.init`, `wordAdd`, `transAdd`, `nullAdd`, `closure`, `addSilence`, `addAlt`,
`write`, `read`;  semantics: `Run`, `accepts`, `IsBest`, `realWords`, `acceptsReal`,
`IsBestReal`, `project`, `Fsg.toNfa`, executable `bestLogProb`.
-/
namespace SSVerif.Fsg

structure Link where
  src : Nat
  dst : Nat
  logp : Int
  wid : Option Nat
deriving DecidableEq, Repr, Inhabited

structure Fsg where
  nState : Nat
  start : Nat
  final : Nat
  /-- newest first -/
  links : List Link
  vocab : List String := []
  sil : List Nat := []
  alt : List Nat := []
  name : String := ""
  /-- `logmath_get_zero(fsg->lmath)` = `MAX_NEG_INT32 >> (shift + 2)`, the log of probability zero
  (`-2^29` for the decoder's shift 0); the closure saturates its sums there (fix D51) -/
  logZero : Int := -536870912
deriving Repr, Inhabited, DecidableEq

/-- `fsg_model_init` (+ the assignments of `start_state`/`final_state` every caller makes) -/
def Fsg.init (name : String) (nState start final : Nat) (logZero : Int := -536870912) : Fsg :=
  { nState, start, final, links := [], name, logZero }

def Link.isNull (l : Link) : Bool := l.wid.isNone

/-- the null link `a → c` (`fsg_model_null_trans(fsg, a, c)` finds it) -/
def Link.isNullAt (a c : Nat) (l : Link) : Bool := l.wid.isNone && l.src == a && l.dst == c

/-- a link `a → c` labelled `w` (an element of `fsg_model_trans(fsg, a, c)` with `wid == w`) -/
def Link.isWordAt (a c w : Nat) (l : Link) : Bool := l.wid == some w && l.src == a && l.dst == c

/-- overwrite `logs2prob` of the first link satisfying `p` -/
def raiseFirst (p : Link → Bool) (lp : Int) : List Link → List Link
  | [] => []
  | l :: ls => if p l then { l with logp := lp } :: ls else l :: raiseFirst p lp ls

/-! ### vocabulary (`fsg_model_word_id`, `fsg_model_word_add`, fsg_model.c:314-356) -/

def wordId (g : Fsg) (w : String) : Option Nat := g.vocab.idxOf? w

def wordAdd (g : Fsg) (w : String) : Fsg × Nat :=
  match wordId g w with
  | some i => (g, i)
  | none => ({ g with vocab := g.vocab ++ [w] }, g.vocab.length)

def wordStr (g : Fsg) (w : Nat) : String := g.vocab.getD w ""

/-! ### arcs (`fsg_model_trans_add`, `fsg_model_tag_trans_add`, fsg_model.c:62-148) -/

/-- `fsg_model_trans_add`: a link with the same label between the same states keeps the higher
probability; otherwise a new link is put at the head of the list -/
def transAdd (g : Fsg) (a c : Nat) (lp : Int) (w : Nat) : Fsg :=
  match g.links.find? (Link.isWordAt a c w) with
  | some l => if l.logp < lp then { g with links := raiseFirst (Link.isWordAt a c w) lp g.links } else g
  | none => { g with links := ⟨a, c, lp, some w⟩ :: g.links }

def nullLookup (g : Fsg) (a c : Nat) : Option Int := (g.links.find? (Link.isNullAt a c)).map (·.logp)

/-- `fsg_model_null_trans_add` for `logp ≤ 0` (`logp > 0` is `E_FATAL` in the C code and is not
part of the model: callers below never produce it from links `≤ 0`).  Returns the C return
value: `-1` nothing changed (self-loop, or an existing link at least as good), `0` existing
link raised, `1` new link. -/
def nullAdd (g : Fsg) (a c : Nat) (lp : Int) : Fsg × Int :=
  if a = c then (g, -1) else
  match nullLookup g a c with
  | some old =>
    if old < lp then ({ g with links := raiseFirst (Link.isNullAt a c) lp g.links }, 0) else (g, -1)
  | none => ({ g with links := ⟨a, c, lp, none⟩ :: g.links }, 1)

/-! ### null-transition closure (`fsg_model_null_trans_closure`, fsg_model.c:150-218)

The C `nulls` glist holds pointers to live links; a null link is unique per `(src, dst)`, so a
pointer is modelled by that pair and the live `logs2prob` is looked up when the C code
dereferences it.  New pointers are prepended to the glist, hence not visited in the pass that
created them: the model folds over the list as it was at the start of the pass.  The inner loop
iterates the null table of `tl1->to_state`; every insertion of the inner loop goes into the
table of `tl1->from_state`, a different table (null self-loops do not exist), so iterating a
snapshot is exact. -/

abbrev Key := Nat × Nat

structure PassSt where
  g : Fsg
  nulls : List Key
  updated : Bool

/-- `logp = (int64)a + (int64)b; if (logp < zero) logp = zero;` (fsg_model.c, closure loop, D51) -/
def satAdd (z a b : Int) : Int := if a + b < z then z else a + b

def innerStep (z : Int) (a : Nat) (lp1 : Int) (s : PassSt) (tl2 : Link) : PassSt :=
  let r := nullAdd s.g a tl2.dst (satAdd z lp1 tl2.logp)
  { g := r.1,
    nulls := if r.2 > 0 then (a, tl2.dst) :: s.nulls else s.nulls,
    updated := s.updated || decide (r.2 ≥ 0) }

def outerStep (z : Int) (s : PassSt) (k : Key) : PassSt :=
  match nullLookup s.g k.1 k.2 with
  | none => s
  | some lp1 =>
    (s.g.links.filter fun l => l.isNull && l.src == k.2).foldl (innerStep z k.1 lp1) s

/-- one iteration of the `do … while (updated)` loop -/
def pass (z : Int) (g : Fsg) (nulls : List Key) : PassSt :=
  nulls.foldl (outerStep z) { g, nulls, updated := false }

/-- the `do … while (updated)` loop with fuel; the last component says whether the loop ended
because a pass made no update (`true`) or because the fuel ran out (`false`) -/
def closureLoop (z : Int) : Nat → Fsg → List Key → Fsg × List Key × Bool
  | 0, g, nulls => (g, nulls, false)
  | fuel + 1, g, nulls =>
    let s := pass z g nulls
    if s.updated then closureLoop z fuel s.g s.nulls else (s.g, s.nulls, true)

def nullLinks (g : Fsg) : List Link := g.links.filter Link.isNull

/-- the list the C code builds when called with `nulls == NULL`; the reader passes the list of
the links it created, which is the same set -/
def nullKeys (g : Fsg) : List Key := (nullLinks g).map fun l => (l.src, l.dst)

/-- number of passes that always suffices (`closure_terminates`): one per null link, plus the
final pass that finds nothing to do -/
def closureFuel (g : Fsg) : Nat := (nullLinks g).length + 1

def closureRun (g : Fsg) : Fsg × List Key × Bool := closureLoop g.logZero (closureFuel g) g (nullKeys g)

/-- `fsg_model_null_trans_closure(fsg, NULL)` -/
def closure (g : Fsg) : Fsg := (closureRun g).1

/-! ### silence / filler self-loops and alternates (fsg_model.c:358-451) -/

def setBit (s : List Nat) (i : Nat) : List Nat := if s.contains i then s else i :: s

/-- `fsg_model_add_silence(fsg, word, state, silprob)` with `lp = (int32)(log(silprob) * lw)`;
`state = none` is the C `-1` (every state).  Returns the C return value (number of calls of
`fsg_model_trans_add`). -/
def addSilence (g : Fsg) (word : String) (state : Option Nat) (lp : Int) : Fsg × Nat :=
  let r := wordAdd g word
  let g1 : Fsg := { r.1 with sil := setBit r.1.sil r.2 }
  match state with
  | none => ((List.range g.nState).foldl (fun acc s => transAdd acc s s lp r.2) g1, g.nState)
  | some s => (transAdd g1 s s lp r.2, 1)

/-- `fsg_model_add_alt(fsg, baseword, altword)`: every link labelled with the base word is copied
with the alternate's label — without looking for an existing link with that label.  In each
C glist the copies are prepended one by one while walking the old list from its head.  Returns
the number of copies, `-1` when the base word is not in the vocabulary. -/
def addAlt (g : Fsg) (base altw : String) : Fsg × Int :=
  match wordId g base with
  | none => (g, -1)
  | some bw =>
    let r := wordAdd g altw
    let g1 : Fsg := { r.1 with alt := setBit r.1.alt r.2,
                               sil := if r.1.sil.contains bw then setBit r.1.sil r.2 else r.1.sil }
    let copies := (g1.links.filter fun l => l.wid == some bw).map fun l => { l with wid := some r.2 }
    ({ g1 with links := copies.reverse ++ g1.links }, copies.length)

/-- `fsg_search_add_silences` (fsg_search.c:83-118): `<sil>` with `silprob`, then every other
filler word of the dictionary (without `<s>`, `</s>`) with `fillprob` -/
def addSilences (g : Fsg) (fillers : List String) (lpSil lpFill : Int) : Fsg :=
  fillers.foldl (fun acc w => (addSilence acc w none lpFill).1) (addSilence g "<sil>" none lpSil).1

/-- `fsg_search_add_altpron` (fsg_search.c:143-169): for every word that was in the vocabulary
when the scan started, every alternate the dictionary chains to it; returns the grammar and the
sum of the `fsg_model_add_alt` return values -/
def addAltpron (g : Fsg) (altsOf : String → List String) : Fsg × Int :=
  g.vocab.foldl
    (fun acc w => (altsOf w).foldl (fun acc2 a => let r := addAlt acc2.1 w a; (r.1, acc2.2 + r.2)) acc) (g, 0)

/-! ### text writer and reader at token level (fsg_model.c:473-693, 764-793)

A file is a list of lines, a line a list of non-empty tokens (`s3file_nextline`/`nextword`
and comment lines are the lexer's business, C10/C17).  Decimal numbers are libc's: the four
conversions are parameters. -/

structure Codec where
  /-- `printf("%d", n)` -/
  showN : Nat → String
  /-- `strtol(tok, &end, 10)` with `end != tok` -/
  parseN : String → Option Int
  /-- `printf("%f", logmath_exp(lmath, (int32)(logp / lw)))` -/
  printP : Int → String
  /-- `p = (float32)atof(tok)`; `none` when `p <= 0 || p > 1`, else
  `(int32)(logmath_log(lmath, p) * lw)` -/
  parseP : String → Option Int
  /-- `logmath_get_zero` of the `lmath` handed to the reader -/
  zero : Int := -536870912

/-- arcs of state `i` in the order of `fsg_model_arcs`: word links first, then null links -/
def arcsOf (g : Fsg) (i : Nat) : List Link :=
  (g.links.filter fun l => !l.isNull && l.src == i) ++ (g.links.filter fun l => l.isNull && l.src == i)

def optTok (s : String) : List String := if s = "" then [] else [s]

def writeLink (C : Codec) (g : Fsg) (l : Link) : List String :=
  ["TRANSITION", C.showN l.src, C.showN l.dst, C.printP l.logp] ++
    (match l.wid with | none => [] | some w => optTok (wordStr g w))

/-- `fsg_model_write` (with the D21 repair: an unnamed grammar is written as `unknown`, the name
the original Sphinx reader gave to a grammar without one) -/
def write (C : Codec) (g : Fsg) : List (List String) :=
  [["FSG_BEGIN", if g.name = "" then "unknown" else g.name], ["NUM_STATES", C.showN g.nState], ["START_STATE", C.showN g.start],
   ["FINAL_STATE", C.showN g.final]] ++
  ((List.range g.nState).flatMap fun i => (arcsOf g i).map (writeLink C g)) ++ [["FSG_END"]]

/-- `0 == strncmp(word, name, ptr - word)`: the token is a prefix of the keyword -/
def kwMatch (tok kw : String) : Bool := tok.toList.isPrefixOf kw.toList

/-- `copy_header_value`: skip lines until one whose first token matches the short or the long
keyword; the value is the next token of that line (`none` = the C `NULL`, also at end of file) -/
def headerValue (name : String) (short : Option String) :
    List (List String) → Option String × List (List String)
  | [] => (none, [])
  | [] :: rest => headerValue name short rest
  | (w :: toks) :: rest =>
    if (match short with | some s => kwMatch w s | none => false) || kwMatch w name then (toks.head?, rest)
    else headerValue name short rest

inductive ReadErr where
  | beginMissing | numStatesMissing | numStatesMalformed | startMissing | startMalformed
  | finalMissing | finalMalformed | fromMissing | fromInvalid | toMissing | toInvalid
  | probMissing | probMalformed
deriving Repr, DecidableEq

def ReadErr.str : ReadErr → String
  | .beginMissing => "beginMissing" | .numStatesMissing => "numStatesMissing"
  | .numStatesMalformed => "numStatesMalformed" | .startMissing => "startMissing"
  | .startMalformed => "startMalformed" | .finalMissing => "finalMissing"
  | .finalMalformed => "finalMalformed" | .fromMissing => "fromMissing" | .fromInvalid => "fromInvalid"
  | .toMissing => "toMissing" | .toInvalid => "toInvalid" | .probMissing => "probMissing"
  | .probMalformed => "probMalformed"

/-- a state number token: `strtol` succeeded and `0 <= v < n` -/
def stateTok (C : Codec) (n : Nat) (tok : String) : Option Nat :=
  match C.parseN tok with
  | some v => if 0 ≤ v ∧ v < (n : Int) then some v.toNat else none
  | none => none

/-- one `TRANSITION` line (tokens after the keyword) -/
def readTrans (C : Codec) (g : Fsg) (toks : List String) : Except ReadErr Fsg :=
  match toks with
  | [] => .error .fromMissing
  | f :: rest =>
    match stateTok C g.nState f with
    | none => .error .fromInvalid
    | some i =>
      match rest with
      | [] => .error .toMissing
      | t :: rest2 =>
        match stateTok C g.nState t with
        | none => .error .toInvalid
        | some j =>
          match rest2 with
          | [] => .error .probMissing
          | p :: rest3 =>
            match C.parseP p with
            | none => .error .probMalformed
            | some lp =>
              match rest3 with
              | [] => .ok (nullAdd g i j lp).1
              | w :: _ => let r := wordAdd g w; .ok (transAdd r.1 i j lp r.2)

/-- the transition loop: stops at `FSG_END` (or at end of file), ignores lines that start with
anything but a prefix of `TRANSITION` -/
def readLines (C : Codec) (g : Fsg) : List (List String) → Except ReadErr Fsg
  | [] => .ok g
  | [] :: rest => readLines C g rest
  | (w :: toks) :: rest =>
    if kwMatch w "FSG_END" then .ok g
    else if kwMatch w "T" || kwMatch w "TRANSITION" then
      match readTrans C g toks with
      | .ok g' => readLines C g' rest
      | .error e => .error e
    else readLines C g rest

/-- `fsg_model_read_s3file` after tokenisation -/
def read (C : Codec) (lines : List (List String)) : Except ReadErr Fsg :=
  match headerValue "FSG_BEGIN" none lines with
  | (none, _) => .error .beginMissing
  | (some name, l1) =>
    match headerValue "NUM_STATES" (some "N") l1 with
    | (none, _) => .error .numStatesMissing
    | (some nTok, l2) =>
      match C.parseN nTok with
      | none => .error .numStatesMalformed
      | some n =>
        if n < 0 then .error .numStatesMalformed else
        match headerValue "START_STATE" (some "S") l2 with
        | (none, _) => .error .startMissing
        | (some sTok, l3) =>
          match stateTok C n.toNat sTok with
          | none => .error .startMalformed
          | some s =>
            match headerValue "FINAL_STATE" (some "F") l3 with
            | (none, _) => .error .finalMissing
            | (some fTok, l4) =>
              match stateTok C n.toNat fTok with
              | none => .error .finalMalformed
              | some f =>
                match readLines C (Fsg.init name n.toNat s f C.zero) l4 with
                | .error e => .error e
                | .ok g => .ok (closure g)

/-! ### semantics -/

/-- `Run g p ws v q`: there is a path from `p` to `q` whose word labels spell `ws` and whose
log-probabilities sum to `v` -/
inductive Run (g : Fsg) : Nat → List Nat → Int → Nat → Prop
  | nil {q} : Run g q [] 0 q
  | eps {l ws v r} : l ∈ g.links → l.wid = none → Run g l.dst ws v r → Run g l.src ws (l.logp + v) r
  | sym {l w ws v r} : l ∈ g.links → l.wid = some w → Run g l.dst ws v r →
      Run g l.src (w :: ws) (l.logp + v) r

/-- the grammar accepts the word sequence -/
def accepts (g : Fsg) (ws : List Nat) : Prop := ∃ v, Run g g.start ws v g.final

/-- `v` is the best (highest) log-probability of an accepting path for `ws` -/
def IsBest (g : Fsg) (ws : List Nat) (v : Int) : Prop :=
  Run g g.start ws v g.final ∧ ∀ v', Run g g.start ws v' g.final → v' ≤ v

/-- projection to real words: drop fillers, map alternates to their base word -/
def realWords (isFiller : Nat → Bool) (base : Nat → Nat) (ws : List Nat) : List Nat :=
  (ws.filter fun w => !isFiller w).map base

def acceptsReal (isFiller : Nat → Bool) (base : Nat → Nat) (g : Fsg) (rs : List Nat) : Prop :=
  ∃ ws, accepts g ws ∧ realWords isFiller base ws = rs

/-- there is an accepting path of weight `v` whose labels project to `rs` -/
def RunReal (isFiller : Nat → Bool) (base : Nat → Nat) (g : Fsg) (rs : List Nat) (v : Int) : Prop :=
  ∃ ws, Run g g.start ws v g.final ∧ realWords isFiller base ws = rs

def IsBestReal (isFiller : Nat → Bool) (base : Nat → Nat) (g : Fsg) (rs : List Nat) (v : Int) : Prop :=
  RunReal isFiller base g rs v ∧ ∀ v', RunReal isFiller base g rs v' → v' ≤ v

/-- relabelled grammar whose plain language is the real-word language: filler labels become
null, alternates become their base word -/
def project (isFiller : Nat → Bool) (base : Nat → Nat) (g : Fsg) : Fsg :=
  { g with links := g.links.map fun l =>
      { l with wid := match l.wid with
                      | none => none
                      | some w => if isFiller w then none else some (base w) } }

def Fsg.toNfa (g : Fsg) : SSVerif.Nfa.Nfa :=
  { start := g.start, final := g.final, arcs := g.links.map fun l => (l.src, l.wid, l.dst) }

/-! ### executable best log-probability (max-plus, `none` = −∞)

A forward dynamic programme over the sentence: a vector holds, per state, the best weight of a
path from the start state spelling the prefix read so far; after each word (and at the start) the
vector is closed under null links by Bellman–Ford (Jacobi) rounds *until a round changes
nothing*.  Reaching that fixpoint is what makes the result exact (`Proofs/FsgBest.lean`,
`bestLogProb_sound`, for every grammar); if the fuel runs out first the function says so
(`none`), which cannot happen when null log-probabilities are `≤ 0` (`bestLogProb_total`). -/

def omax : Option Int → Option Int → Option Int
  | none, b => b
  | a, none => a
  | some a, some b => some (if a < b then b else a)

def oadd : Option Int → Int → Option Int
  | none, _ => none
  | some a, b => some (a + b)

abbrev Vec := List (Option Int)

def Vec.get (v : Vec) (i : Nat) : Option Int := v.getD i none

def tabulate (n : Nat) (f : Nat → Option Int) : Vec := (List.range n).map f

/-- per link of `ls`: target state and the weight reached through it from `v` -/
def cands (v : Vec) (ls : List Link) : List (Nat × Option Int) :=
  ls.map fun l => (l.dst, oadd (v.get l.src) l.logp)

/-- best of `init` and the candidates for state `j` -/
def pick (cs : List (Nat × Option Int)) (j : Nat) (init : Option Int) : Option Int :=
  cs.foldl (fun acc c => if c.1 = j then omax acc c.2 else acc) init

/-- one Bellman–Ford round over the null links (all states at once, from the old vector) -/
def relaxNull (g : Fsg) (n : Nat) (v : Vec) : Vec :=
  let cs := cands v (nullLinks g)
  tabulate n fun j => pick cs j (v.get j)

/-- rounds until one changes nothing; `none` when `fuel` rounds did not get there -/
def nullClose (g : Fsg) (n : Nat) : Nat → Vec → Option Vec
  | 0, _ => none
  | fuel + 1, v =>
    let v' := relaxNull g n v
    if v' == v then some v else nullClose g n fuel v'

def stepWord (g : Fsg) (n : Nat) (v : Vec) (w : Nat) : Vec :=
  let cs := cands v (g.links.filter fun l => l.wid == some w)
  tabulate n fun j => pick cs j none

/-- states are `0 … n-1` with `n = max nState (1 + largest state mentioned)` -/
def stateBound (g : Fsg) : Nat :=
  g.links.foldl (fun m l => max m (max l.src l.dst + 1)) (max g.nState (max g.start g.final + 1))

/-- rounds allowed per closure: one per null link (plus the round that finds nothing to do)
suffices for null log-probabilities `≤ 0` (`bestLogProb_total`) -/
def closeFuel (g : Fsg) : Nat := (nullLinks g).length + 2

def dpInit (g : Fsg) (n : Nat) : Option Vec :=
  nullClose g n (closeFuel g) (tabulate n fun j => if j = g.start then some 0 else none)

def dpStep (g : Fsg) (n : Nat) (v : Vec) (w : Nat) : Option Vec :=
  nullClose g n (closeFuel g) (stepWord g n v w)

def dpRun (g : Fsg) (n : Nat) : Vec → List Nat → Option Vec
  | v, [] => some v
  | v, w :: ws => match dpStep g n v w with
    | some v' => dpRun g n v' ws
    | none => none

/-- the vector after reading `ws` -/
def dpVec (g : Fsg) (ws : List Nat) : Option Vec :=
  match dpInit g (stateBound g) with
  | some v0 => dpRun g (stateBound g) v0 ws
  | none => none

/-- `some (some v)`: the best accepting path for `ws` weighs `v`; `some none`: `ws` is not
accepted; `none`: gave up (a null cycle of positive weight) -/
def bestLogProb? (g : Fsg) (ws : List Nat) : Option (Option Int) :=
  (dpVec g ws).map (·.get g.final)

/-- the same with "gave up" mapped to "not accepted" (use `bestLogProb?` to tell them apart) -/
def bestLogProb (g : Fsg) (ws : List Nat) : Option Int := (bestLogProb? g ws).join

end SSVerif.Fsg
