import SSVerif.Model.Ranges
/-!
Helper lemmas for Props/C18: facts about the regenerated constants, the clamp, the comparison cascade,
and the per-block range lemmas of `hmm3Step` / `hmm5Step`.
-/
namespace SSVerif.Ranges
open SSVerif.Generated.Ranges

/-! ## the regenerated constants: only these facts are used by the proofs -/

/-- What the proofs need from the headers.  `decide` re-checks it against the regenerated file: a
`WORST_SCORE` without 33 023 units of head-room above `INT32_MIN`, a wider senone-score or
transition type, … break the build of this lemma. -/
theorem const_facts :
    int32Min = -2147483648 ∧ int32Max = 2147483647 ∧ int16Min = -32768 ∧ int16Max = 32767 ∧
    intMin = int32Min ∧ worstScore ≤ 0 ∧ int32Min + 32768 + 255 ≤ worstScore ∧
    tmatWorstScore = -255 ∧ 0 ≤ maxNegAscr ∧ 0 ≤ maxNegMixw ∧
    sizeofSenscr = 2 ∧ sizeofHmmScore = 4 ∧ sizeofHistScore = 4 ∧ sizeofTp = 1 := by decide

theorem shr_eq (x : Int) : shr x = x / 1024 := by
  have : (2 : Int) ^ senscrShift = 1024 := by decide
  unfold shr; rw [this]

theorem i32_iff (x : Int) : I32 x ↔ -2147483648 ≤ x ∧ x ≤ 2147483647 := by
  obtain ⟨h1, h2, -⟩ := const_facts
  unfold I32; rw [h1, h2]

theorem i16_iff (x : Int) : I16 x ↔ -32768 ≤ x ∧ x ≤ 32767 := by
  obtain ⟨-, -, h1, h2, -⟩ := const_facts
  unfold I16; rw [h1, h2]

theorem worst_le_zero : WORST ≤ 0 := const_facts.2.2.2.2.2.1
theorem worst_room : -2147483648 + 32768 + 255 ≤ WORST := by
  have h := const_facts.2.2.2.2.2.2.1
  rw [const_facts.1] at h; exact h
/-- room below `WORST_SCORE` for a shifted density (`|x >> 10| ≤ 2^21`) in `ptm_mgau_codebook_norm` -/
theorem worst_room2 : -2147483648 + 4194304 ≤ WORST := by
  have h : int32Min + 4194304 ≤ worstScore := by decide
  rw [const_facts.1] at h; exact h
theorem intMin_eq : intMin = -2147483648 := by
  rw [const_facts.2.2.2.2.1, const_facts.1]

/-! ## clamp, update, cascade -/

theorem clampW_ge (x : Int) : WORST ≤ clampW x := by
  unfold clampW; split <;> omega

theorem clampW_le {x hi : Int} (h : x ≤ hi) (hw : WORST ≤ hi) : clampW x ≤ hi := by
  unfold clampW; split <;> omega

theorem clampW_of_ge {x : Int} (h : WORST ≤ x) : clampW x = x := by
  unfold clampW; split <;> omega

theorem upd_ge_left (b x : Int) : b ≤ upd b x := by unfold upd; split <;> omega
theorem upd_le {b x hi : Int} (hb : b ≤ hi) (hx : x ≤ hi) : upd b x ≤ hi := by unfold upd; split <;> omega

theorem pick3_val (t0 t1 t2 a b c : Int) :
    (pick3 t0 t1 t2 a b c).1 = t0 ∨ (pick3 t0 t1 t2 a b c).1 = t1 ∨ (pick3 t0 t1 t2 a b c).1 = t2 := by
  unfold pick3; split <;> split <;> simp

/-- the cascade returns the maximum of its three candidates -/
theorem pick3_max (t0 t1 t2 a b c : Int) :
    t0 ≤ (pick3 t0 t1 t2 a b c).1 ∧ t1 ≤ (pick3 t0 t1 t2 a b c).1 ∧ t2 ≤ (pick3 t0 t1 t2 a b c).1 := by
  unfold pick3; split <;> split <;> simp <;> omega

theorem tprob_range {tp : Nat → Nat → Nat} (htp : ∀ i j, tp i j ≤ 255) (i j : Nat) :
    -255 ≤ tprob tp i j ∧ tprob tp i j ≤ 0 := by
  unfold tprob; have := htp i j; omega

/-! ## blocks of the 3-state evaluation

`L ≤ s ≤ H` are bounds on the state scores after the senone score has been added; the blocks need
`INT32_MIN + 255 ≤ L` (room for one transition score) and `WORST ≤ H ≤ INT32_MAX`. -/

section blocks
variable {tp : Nat → Nat → Nat} (htp : ∀ i j, tp i j ≤ 255)
variable {L H : Int} (hL : -2147483648 + 255 ≤ L) (hH : H ≤ 2147483647) (hWH : WORST ≤ H)
include htp hL hH hWH

theorem exit3_ok {s1 s2 : Int} {h : H3} (b1 : L ≤ s1 ∧ s1 ≤ H) (b2 : L ≤ s2 ∧ s2 ≤ H)
    (ho : WORST ≤ h.out ∧ h.out ≤ H) :
    (∀ x ∈ (exit3 tp s1 s2 h).tr, I32 x) ∧
    WORST ≤ (exit3 tp s1 s2 h).out ∧ (exit3 tp s1 s2 h).out ≤ H ∧
    WORST ≤ (exit3 tp s1 s2 h).best ∧ (exit3 tp s1 s2 h).best ≤ H ∧
    ((exit3 tp s1 s2 h).t2 = intMin ∨ (L - 255 ≤ (exit3 tp s1 s2 h).t2 ∧ (exit3 tp s1 s2 h).t2 ≤ H)) := by
  have r23 := tprob_range htp 2 3
  have r13 := tprob_range htp 1 3
  have hW := worst_room
  have hIM := intMin_eq
  unfold exit3
  split
  · -- evaluated
    simp only
    have ht2 : (if tprob tp 1 3 > tmatWorstScore then s1 + tprob tp 1 3 else intMin) = intMin ∨
        (L - 255 ≤ (if tprob tp 1 3 > tmatWorstScore then s1 + tprob tp 1 3 else intMin) ∧
         (if tprob tp 1 3 > tmatWorstScore then s1 + tprob tp 1 3 else intMin) ≤ H) := by
      split
      · right; omega
      · left; rfl
    generalize (if tprob tp 1 3 > tmatWorstScore then s1 + tprob tp 1 3 else intMin) = t2 at ht2 ⊢
    have hsel : (if s2 + tprob tp 2 3 > t2 then s2 + tprob tp 2 3 else t2) ≤ H := by
      split
      · omega
      · rcases ht2 with h | h <;> omega
    refine ⟨?_, clampW_ge _, clampW_le hsel hWH, clampW_ge _, clampW_le hsel hWH, ht2⟩
    intro x hx
    simp only [List.mem_cons, List.mem_nil_iff, or_false] at hx
    rw [i32_iff]
    rcases hx with e | e | e <;> rw [e]
    · omega
    · rcases ht2 with h | h <;> omega
    · have := clampW_ge (if s2 + tprob tp 2 3 > t2 then s2 + tprob tp 2 3 else t2)
      have := clampW_le hsel hWH
      omega
  · simp only
    refine ⟨(by intro x hx; cases hx), ho.1, ho.2, Int.le_refl _, hWH, (by simp)⟩

theorem into2of3_ok {s0 s1 s2 t2in : Int} {h : H3} (b0 : L ≤ s0 ∧ s0 ≤ H) (b1 : L ≤ s1 ∧ s1 ≤ H)
    (b2 : L ≤ s2 ∧ s2 ≤ H) (ht : t2in = intMin ∨ (L - 255 ≤ t2in ∧ t2in ≤ H)) :
    (∀ x ∈ (into2of3 tp s0 s1 s2 t2in h).tr, I32 x) ∧
    WORST ≤ (into2of3 tp s0 s1 s2 t2in h).s ∧ (into2of3 tp s0 s1 s2 t2in h).s ≤ H := by
  have r22 := tprob_range htp 2 2
  have r12 := tprob_range htp 1 2
  have r02 := tprob_range htp 0 2
  have hIM := intMin_eq
  unfold into2of3
  simp only
  have ht2 : (if tprob tp 0 2 > tmatWorstScore then s0 + tprob tp 0 2 else t2in) = intMin ∨
      (L - 255 ≤ (if tprob tp 0 2 > tmatWorstScore then s0 + tprob tp 0 2 else t2in) ∧
       (if tprob tp 0 2 > tmatWorstScore then s0 + tprob tp 0 2 else t2in) ≤ H) := by
    split
    · right; omega
    · exact ht
  generalize (if tprob tp 0 2 > tmatWorstScore then s0 + tprob tp 0 2 else t2in) = t2 at ht2 ⊢
  have hp : (pick3 (s2 + tprob tp 2 2) (s1 + tprob tp 1 2) t2 h.h2 h.h1 h.h0).1 ≤ H := by
    rcases pick3_val (s2 + tprob tp 2 2) (s1 + tprob tp 1 2) t2 h.h2 h.h1 h.h0 with e | e | e <;> rw [e]
    · omega
    · omega
    · rcases ht2 with h | h <;> omega
  refine ⟨?_, clampW_ge _, clampW_le hp hWH⟩
  intro x hx
  simp only [List.mem_cons, List.mem_nil_iff, or_false] at hx
  rw [i32_iff]
  rcases hx with e | e | e | e <;> rw [e]
  · omega
  · omega
  · rcases ht2 with h | h <;> omega
  · have := clampW_ge (pick3 (s2 + tprob tp 2 2) (s1 + tprob tp 1 2) t2 h.h2 h.h1 h.h0).1
    have := clampW_le hp hWH
    have := worst_room
    omega

theorem into1_ok {s0 s1 hin h1 : Int} (b0 : L ≤ s0 ∧ s0 ≤ H) (b1 : L ≤ s1 ∧ s1 ≤ H) :
    (∀ x ∈ (into1 tp s0 s1 hin h1).tr, I32 x) ∧
    WORST ≤ (into1 tp s0 s1 hin h1).s ∧ (into1 tp s0 s1 hin h1).s ≤ H := by
  have r11 := tprob_range htp 1 1
  have r01 := tprob_range htp 0 1
  have hW := worst_room
  unfold into1
  simp only
  split
  · refine ⟨?_, clampW_ge _, clampW_le (by omega) hWH⟩
    intro x hx
    simp only [List.mem_cons, List.mem_nil_iff, or_false] at hx
    rw [i32_iff]
    rcases hx with rfl | rfl | rfl
    · omega
    · omega
    · have := clampW_ge (s1 + tprob tp 1 1)
      have := clampW_le (x := s1 + tprob tp 1 1) (hi := H) (by omega) hWH
      omega
  · refine ⟨?_, clampW_ge _, clampW_le (by omega) hWH⟩
    intro x hx
    simp only [List.mem_cons, List.mem_nil_iff, or_false] at hx
    rw [i32_iff]
    rcases hx with rfl | rfl | rfl
    · omega
    · omega
    · have := clampW_ge (s0 + tprob tp 0 1)
      have := clampW_le (x := s0 + tprob tp 0 1) (hi := H) (by omega) hWH
      omega

theorem exit5_ok {s3 s4 : Int} {h : H5} (b3 : L ≤ s3 ∧ s3 ≤ H) (b4 : L ≤ s4 ∧ s4 ≤ H)
    (ho : WORST ≤ h.out ∧ h.out ≤ H) :
    (∀ x ∈ (exit5 tp s3 s4 h).tr, I32 x) ∧
    WORST ≤ (exit5 tp s3 s4 h).out ∧ (exit5 tp s3 s4 h).out ≤ H ∧
    WORST ≤ (exit5 tp s3 s4 h).best ∧ (exit5 tp s3 s4 h).best ≤ H := by
  have r45 := tprob_range htp 4 5
  have r35 := tprob_range htp 3 5
  have hW := worst_room
  unfold exit5
  split
  · simp only
    have hsel : (if s4 + tprob tp 4 5 > s3 + tprob tp 3 5 then s4 + tprob tp 4 5 else s3 + tprob tp 3 5) ≤ H := by
      split <;> omega
    refine ⟨?_, clampW_ge _, clampW_le hsel hWH, clampW_ge _, clampW_le hsel hWH⟩
    intro x hx
    simp only [List.mem_cons, List.mem_nil_iff, or_false] at hx
    rw [i32_iff]
    rcases hx with rfl | rfl | rfl
    · omega
    · omega
    · have := clampW_ge (if s4 + tprob tp 4 5 > s3 + tprob tp 3 5 then s4 + tprob tp 4 5 else s3 + tprob tp 3 5)
      have := clampW_le hsel hWH
      omega
  · simp only
    exact ⟨(by intro x hx; cases hx), ho.1, ho.2, Int.le_refl _, hWH⟩

omit htp in
theorem into5g_ok {sg t0 t1 t2 old a b c : Int} (b0 : L - 255 ≤ t0 ∧ t0 ≤ H) (b1 : L - 255 ≤ t1 ∧ t1 ≤ H)
    (b2 : L - 255 ≤ t2 ∧ t2 ≤ H) (bo : WORST ≤ old ∧ old ≤ H) :
    (∀ x ∈ (into5g sg t0 t1 t2 old a b c).tr, I32 x) ∧
    WORST ≤ (into5g sg t0 t1 t2 old a b c).s ∧ (into5g sg t0 t1 t2 old a b c).s ≤ H := by
  have hW := worst_room
  unfold into5g
  split
  · simp only
    have hp : (pick3 t0 t1 t2 a b c).1 ≤ H := by
      rcases pick3_val t0 t1 t2 a b c with e | e | e <;> rw [e] <;> omega
    refine ⟨?_, clampW_ge _, clampW_le hp hWH⟩
    intro x hx
    simp only [List.mem_cons, List.mem_nil_iff, or_false] at hx
    rw [i32_iff]
    rcases hx with rfl | rfl | rfl | rfl
    · omega
    · omega
    · omega
    · have := clampW_ge (pick3 t0 t1 t2 a b c).1
      have := clampW_le hp hWH
      omega
  · simp only
    exact ⟨(by intro x hx; cases hx), bo.1, bo.2⟩

end blocks


/-! ## whole steps -/

/-- all four scores of a 3-state HMM lie in `[lo, hi]` -/
structure Bd3 (lo hi : Int) (h : H3) : Prop where
  s0 : lo ≤ h.s0 ∧ h.s0 ≤ hi
  s1 : lo ≤ h.s1 ∧ h.s1 ≤ hi
  s2 : lo ≤ h.s2 ∧ h.s2 ≤ hi
  out : lo ≤ h.out ∧ h.out ≤ hi

structure Bd5 (lo hi : Int) (h : H5) : Prop where
  s0 : lo ≤ h.s0 ∧ h.s0 ≤ hi
  s1 : lo ≤ h.s1 ∧ h.s1 ≤ hi
  s2 : lo ≤ h.s2 ∧ h.s2 ≤ hi
  s3 : lo ≤ h.s3 ∧ h.s3 ≤ hi
  s4 : lo ≤ h.s4 ∧ h.s4 ≤ hi
  out : lo ≤ h.out ∧ h.out ≤ hi

/-- Core step lemma.  Senone scores in `[cl, ch] ⊆ int16`, state scores in `[WORST, U]`; `V` bounds both
`U` and `U - cl`.  Then every stored value is an int32 and the new scores are in `[WORST, V]`. -/
theorem hmm3Step_core {tp : Nat → Nat → Nat} (htp : ∀ i j, tp i j ≤ 255) {cl ch U V c0 c1 c2 : Int} {h : H3}
    (hcl : -32768 ≤ cl) (hch : ch ≤ 32767) (hV : V ≤ 2147483647) (hUV : U ≤ V) (hUc : U - cl ≤ V)
    (hWU : WORST ≤ U)
    (b0 : cl ≤ c0 ∧ c0 ≤ ch) (b1 : cl ≤ c1 ∧ c1 ≤ ch) (b2 : cl ≤ c2 ∧ c2 ≤ ch) (hb : Bd3 WORST U h) :
    (∀ x ∈ (hmm3Step tp c0 c1 c2 h).2, I32 x) ∧ Bd3 WORST V (hmm3Step tp c0 c1 c2 h).1 ∧
    WORST ≤ (hmm3Step tp c0 c1 c2 h).1.best ∧ (hmm3Step tp c0 c1 c2 h).1.best ≤ V := by
  have hW := worst_room
  have hW0 := worst_le_zero
  obtain ⟨⟨l0, u0⟩, ⟨l1, u1⟩, ⟨l2, u2⟩, ⟨lo, uo⟩⟩ := hb
  have hL : -2147483648 + 255 ≤ WORST - ch := by omega
  have hWV : WORST ≤ V := by omega
  have B0 : WORST - ch ≤ h.s0 + -c0 ∧ h.s0 + -c0 ≤ V := by omega
  have B1 : WORST - ch ≤ h.s1 + -c1 ∧ h.s1 + -c1 ≤ V := by omega
  have B2 : WORST - ch ≤ h.s2 + -c2 ∧ h.s2 + -c2 ≤ V := by omega
  have A := exit3_ok htp hL hV hWV (h := h) B1 B2 ⟨lo, by omega⟩
  have B := into2of3_ok htp hL hV hWV (h := h) B0 B1 B2 A.2.2.2.2.2
  have C := into1_ok htp hL hV hWV (hin := h.h0) (h1 := h.h1) B0 B1
  have r00 := tprob_range htp 0 0
  have hs0 : h.s0 + -c0 + tprob tp 0 0 ≤ V := by omega
  unfold hmm3Step
  simp only
  refine ⟨?_, ⟨⟨clampW_ge _, clampW_le hs0 hWV⟩, ⟨C.2.1, C.2.2⟩, ⟨B.2.1, B.2.2⟩, ⟨A.2.1, A.2.2.1⟩⟩, ?_, ?_⟩
  · intro x hx
    simp only [List.mem_append, List.mem_cons, List.mem_nil_iff, or_false] at hx
    rcases hx with (((((e | e | e | e | e | e) | hx) | hx) | hx) | (e | e))
    all_goals first
      | exact A.1 x hx
      | exact B.1 x hx
      | exact C.1 x hx
      | (rw [e, i32_iff]
         have := clampW_ge (h.s0 + -c0 + tprob tp 0 0)
         have := clampW_le hs0 hWV
         omega)
  · exact Int.le_trans (Int.le_trans (Int.le_trans A.2.2.2.1 (upd_ge_left _ _)) (upd_ge_left _ _)) (upd_ge_left _ _)
  · exact upd_le (upd_le (upd_le A.2.2.2.2.1 B.2.2) C.2.2) (clampW_le hs0 hWV)

theorem hmm5Step_core {tp : Nat → Nat → Nat} (htp : ∀ i j, tp i j ≤ 255) {cl ch U V c0 c1 c2 c3 c4 : Int} {h : H5}
    (hcl : -32768 ≤ cl) (hch : ch ≤ 32767) (hV : V ≤ 2147483647) (hUV : U ≤ V) (hUc : U - cl ≤ V)
    (hWU : WORST ≤ U)
    (b0 : cl ≤ c0 ∧ c0 ≤ ch) (b1 : cl ≤ c1 ∧ c1 ≤ ch) (b2 : cl ≤ c2 ∧ c2 ≤ ch)
    (b3 : cl ≤ c3 ∧ c3 ≤ ch) (b4 : cl ≤ c4 ∧ c4 ≤ ch) (hb : Bd5 WORST U h) :
    (∀ x ∈ (hmm5Step tp c0 c1 c2 c3 c4 h).2, I32 x) ∧ Bd5 WORST V (hmm5Step tp c0 c1 c2 c3 c4 h).1 ∧
    WORST ≤ (hmm5Step tp c0 c1 c2 c3 c4 h).1.best ∧ (hmm5Step tp c0 c1 c2 c3 c4 h).1.best ≤ V := by
  have hW := worst_room
  have hW0 := worst_le_zero
  obtain ⟨⟨l0, u0⟩, ⟨l1, u1⟩, ⟨l2, u2⟩, ⟨l3, u3⟩, ⟨l4, u4⟩, ⟨lo, uo⟩⟩ := hb
  have hL : -2147483648 + 255 ≤ WORST - ch := by omega
  have hWV : WORST ≤ V := by omega
  have B0 : WORST - ch ≤ h.s0 + -c0 ∧ h.s0 + -c0 ≤ V := by omega
  have B1 : WORST - ch ≤ h.s1 + -c1 ∧ h.s1 + -c1 ≤ V := by omega
  have B2 : WORST - ch ≤ h.s2 + -c2 ∧ h.s2 + -c2 ≤ V := by omega
  have B3 : WORST - ch ≤ h.s3 + -c3 ∧ h.s3 + -c3 ≤ V := by omega
  have B4 : WORST - ch ≤ h.s4 + -c4 ∧ h.s4 + -c4 ≤ V := by omega
  have r := fun i j => tprob_range htp i j
  have A := exit5_ok htp hL hV hWV (h := h) B3 B4 ⟨lo, by omega⟩
  have G4 := into5g_ok hL hV hWV (sg := h.s2 + -c2) (t0 := h.s4 + -c4 + tprob tp 4 4)
    (t1 := h.s3 + -c3 + tprob tp 3 4) (t2 := h.s2 + -c2 + tprob tp 2 4) (old := h.s4)
    (a := h.h4) (b := h.h3) (c := h.h2)
    (by have := r 4 4; omega) (by have := r 3 4; omega) (by have := r 2 4; omega) ⟨l4, by omega⟩
  have G3 := into5g_ok hL hV hWV (sg := h.s1 + -c1) (t0 := h.s3 + -c3 + tprob tp 3 3)
    (t1 := h.s2 + -c2 + tprob tp 2 3) (t2 := h.s1 + -c1 + tprob tp 1 3) (old := h.s3)
    (a := h.h3) (b := h.h2) (c := h.h1)
    (by have := r 3 3; omega) (by have := r 2 3; omega) (by have := r 1 3; omega) ⟨l3, by omega⟩
  have C := into1_ok htp hL hV hWV (hin := h.h0) (h1 := h.h1) B0 B1
  have r00 := r 0 0
  have r22 := r 2 2
  have r12 := r 1 2
  have r02 := r 0 2
  have hs0 : h.s0 + -c0 + tprob tp 0 0 ≤ V := by omega
  have hp2 : (pick3 (h.s2 + -c2 + tprob tp 2 2) (h.s1 + -c1 + tprob tp 1 2) (h.s0 + -c0 + tprob tp 0 2)
      h.h2 h.h1 h.h0).1 ≤ V := by
    rcases pick3_val (h.s2 + -c2 + tprob tp 2 2) (h.s1 + -c1 + tprob tp 1 2) (h.s0 + -c0 + tprob tp 0 2)
      h.h2 h.h1 h.h0 with e | e | e <;> rw [e] <;> omega
  have hb1 : WORST ≤ (if h.s2 + -c2 > WORST then upd (exit5 tp (h.s3 + -c3) (h.s4 + -c4) h).best
      (into5g (h.s2 + -c2) (h.s4 + -c4 + tprob tp 4 4) (h.s3 + -c3 + tprob tp 3 4) (h.s2 + -c2 + tprob tp 2 4)
        h.s4 h.h4 h.h3 h.h2).s else (exit5 tp (h.s3 + -c3) (h.s4 + -c4) h).best) ∧
      (if h.s2 + -c2 > WORST then upd (exit5 tp (h.s3 + -c3) (h.s4 + -c4) h).best
      (into5g (h.s2 + -c2) (h.s4 + -c4 + tprob tp 4 4) (h.s3 + -c3 + tprob tp 3 4) (h.s2 + -c2 + tprob tp 2 4)
        h.s4 h.h4 h.h3 h.h2).s else (exit5 tp (h.s3 + -c3) (h.s4 + -c4) h).best) ≤ V := by
    split
    · exact ⟨Int.le_trans A.2.2.2.1 (upd_ge_left _ _), upd_le A.2.2.2.2 G4.2.2⟩
    · exact ⟨A.2.2.2.1, A.2.2.2.2⟩
  generalize hbest1 : (if h.s2 + -c2 > WORST then upd (exit5 tp (h.s3 + -c3) (h.s4 + -c4) h).best
      (into5g (h.s2 + -c2) (h.s4 + -c4 + tprob tp 4 4) (h.s3 + -c3 + tprob tp 3 4) (h.s2 + -c2 + tprob tp 2 4)
        h.s4 h.h4 h.h3 h.h2).s else (exit5 tp (h.s3 + -c3) (h.s4 + -c4) h).best) = best1 at hb1
  have hb2 : WORST ≤ (if h.s1 + -c1 > WORST then upd best1
      (into5g (h.s1 + -c1) (h.s3 + -c3 + tprob tp 3 3) (h.s2 + -c2 + tprob tp 2 3) (h.s1 + -c1 + tprob tp 1 3)
        h.s3 h.h3 h.h2 h.h1).s else best1) ∧
      (if h.s1 + -c1 > WORST then upd best1
      (into5g (h.s1 + -c1) (h.s3 + -c3 + tprob tp 3 3) (h.s2 + -c2 + tprob tp 2 3) (h.s1 + -c1 + tprob tp 1 3)
        h.s3 h.h3 h.h2 h.h1).s else best1) ≤ V := by
    split
    · exact ⟨Int.le_trans hb1.1 (upd_ge_left _ _), upd_le hb1.2 G3.2.2⟩
    · exact hb1
  unfold hmm5Step
  simp only
  rw [hbest1]
  refine ⟨?_, ⟨⟨clampW_ge _, clampW_le hs0 hWV⟩, ⟨C.2.1, C.2.2⟩, ⟨clampW_ge _, clampW_le hp2 hWV⟩,
    ⟨G3.2.1, G3.2.2⟩, ⟨G4.2.1, G4.2.2⟩, ⟨A.2.1, A.2.2.1⟩⟩, ?_, ?_⟩
  · intro x hx
    simp only [List.mem_append, List.mem_cons, List.mem_nil_iff, or_false] at hx
    have k2 := clampW_ge (pick3 (h.s2 + -c2 + tprob tp 2 2) (h.s1 + -c1 + tprob tp 1 2) (h.s0 + -c0 + tprob tp 0 2)
      h.h2 h.h1 h.h0).1
    have k2' := clampW_le hp2 hWV
    have k0 := clampW_ge (h.s0 + -c0 + tprob tp 0 0)
    have k0' := clampW_le hs0 hWV
    rcases hx with ((((((((e | e | e | e) | hx) | (e | e)) | hx) | (e | e)) | hx) | (e | e | e | e | e | e)) | hx) | (e | e)
    all_goals first
      | exact A.1 x hx
      | exact G4.1 x hx
      | exact G3.1 x hx
      | exact C.1 x hx
      | (rw [e, i32_iff]; omega)
  · exact Int.le_trans (Int.le_trans (Int.le_trans hb2.1 (upd_ge_left _ _)) (upd_ge_left _ _)) (upd_ge_left _ _)
  · exact upd_le (upd_le (upd_le hb2.2 (clampW_le hp2 hWV)) C.2.2) (clampW_le hs0 hWV)

end SSVerif.Ranges
