import SSVerif.Proofs.DictLoad
/-!
# Simulation: C10's dictionary reader model (`TextIn.dictInit`) = projection of the bridge (`loadDict`)

`TextIn.Dict` (C10's "well-formed internal object": the word table only, lookup by linear search) is the
projection `proj` of C16's dictionary object (word table + hash map + bookkeeping).  Case-sensitive
mode (`TextIn` does not model `dictcase`).
-/
namespace SSVerif.DictLoad
open SSVerif.HashTable (Key)
open SSVerif.Dict
open SSVerif.TextIn (Buf Span allLines lineWords slice isDictComment)

/-- simulation relation between C10's dictionary object and C16's -/
structure Sim (dT : TextIn.Dict) (dC : Dict) : Prop where
  nc : dC.nocase = false
  wf : WF dC
  pr : proj dC = dT

theorem norm_false (k : Key) : norm false k = k := by simp [norm]

/-- linear search over the word table = hash-map lookup, in a well-formed dictionary -/
theorem sim_wordId {dT : TextIn.Dict} {dC : Dict} (s : Sim dT dC) (w : Key) : dT.wordId w = dC.wordid w := by
  rw [← s.pr]
  unfold TextIn.Dict.wordId proj
  simp only
  cases h : dC.wordid w with
  | none =>
    rw [List.findIdx?_eq_none_iff]
    intro x hx
    obtain ⟨e, he, rfl⟩ := List.mem_map.1 hx
    obtain ⟨i, hi⟩ := List.getElem?_of_mem he
    have := s.wf.ht_complete i e hi
    by_cases hw : e.word = w
    · subst hw; rw [this] at h; cases h
    · simpa [projEntry] using hw
  | some i =>
    have hl : dC.ht.lookup (norm dC.nocase w) = some i := h
    obtain ⟨e, he, hn⟩ := s.wf.ht_sound _ _ hl
    rw [s.nc, norm_false, norm_false] at hn
    rw [List.findIdx?_eq_some_iff_getElem]
    obtain ⟨hi, hget⟩ := List.getElem?_eq_some_iff.1 he
    refine ⟨by simpa using hi, ?_, ?_⟩
    · simp [projEntry, hget, hn]
    · intro j hji
      simp only [List.getElem_map, projEntry, beq_iff_eq]
      intro hj
      have hjl : j < dC.words.length := by omega
      have hj' : dC.words[j]? = some dC.words[j] := by simp [hjl]
      have := s.wf.ht_complete j _ hj'
      rw [hj, h] at this
      cases this
      omega

theorem getD_vs_getElem? (w : Key) (k : Nat) (c : UInt8) (hc : c ≠ 0) :
    (w[k]? == some c) = decide (w.getD k 0 = c) := by
  rw [List.getD_eq_getElem?_getD]
  cases w[k]? with
  | none =>
    have : ¬ ((0 : UInt8) = c) := fun h => hc h.symm
    simp [this]
  | some x => by_cases hx : x = c <;> simp [hx]

theorem lastParen_eq (w : Key) : ∀ k : Nat,
    TextIn.lastParen w k = if scanParen w k > 0 then some (scanParen w k) else none
  | 0 => by simp [TextIn.lastParen, scanParen]
  | k + 1 => by
    simp only [TextIn.lastParen, scanParen]
    rw [getD_vs_getElem? w (k + 1) 40 (by decide)]
    by_cases h : w.getD (k + 1) 0 = 40
    · simp only [if_pos (decide_eq_true h), if_pos h]
      simp
    · simp only [if_neg (fun hd => h (of_decide_eq_true hd)), if_neg h]
      exact lastParen_eq w k

/-- the two models of `dict_word2basestr` agree -/
theorem baseStr_eq (w : Key) : TextIn.baseStr w = word2basestr w := by
  unfold TextIn.baseStr word2basestr
  rw [lastParen_eq]
  by_cases h0 : w.length = 0
  · have : w = [] := List.eq_nil_of_length_eq_zero h0
    subst this; simp
  · simp only [h0, if_false]
    have : (w.getLast? == some 41) = decide (w.getD (w.length - 1) 0 = 41) := by
      rw [List.getLast?_eq_getElem?]
      exact getD_vs_getElem? w (w.length - 1) 41 (by decide)
    rw [this]
    by_cases h1 : w.getD (w.length - 1) 0 = 41
    · rw [if_pos (decide_eq_true h1), if_pos h1]
      by_cases h2 : scanParen w (w.length - 2) > 0
      · simp only [h2, if_true]
      · simp only [h2, if_false]
    · rw [if_neg (fun hd => h1 (of_decide_eq_true hd)), if_neg h1]

theorem phoneId_eq (phones : List Key) (sil : Nat) (p : Key) :
    TextIn.phoneId phones p = Mdef.ciphoneId { ciphones := phones, sil := sil } p := by
  unfold TextIn.phoneId Mdef.ciphoneId List.idxOf? List.idxOf
  rw [List.findIdx?_eq_guard_findIdx_lt]
  simp only [Option.guard]
  split <;> simp_all

theorem phoneIds_eq (phones : List Key) (sil : Nat) : ∀ toks : List Key,
    TextIn.phoneIds phones toks = mapIds (Mdef.ciphoneId { ciphones := phones, sil := sil }) toks
  | [] => rfl
  | t :: ts => by
    simp only [TextIn.phoneIds, mapIds, phoneId_eq phones sil, phoneIds_eq phones sil ts]
    cases Mdef.ciphoneId { ciphones := phones, sil := sil } t with
    | none => rfl
    | some i =>
      cases mapIds (Mdef.ciphoneId { ciphones := phones, sil := sil }) ts <;> rfl

theorem proj_grow (d : Dict) : proj (grow d) = proj d := by
  unfold grow proj; split <;> rfl

theorem sim_grow {dT : TextIn.Dict} {dC : Dict} (s : Sim dT dC) : Sim dT (grow dC) :=
  ⟨by rw [grow_nocase]; exact s.nc, wf_grow s.wf, by rw [proj_grow]; exact s.pr⟩

/-- the word table after a successful `dict_add_word` of a base word, projected -/
theorem proj_post_none (d : Dict) (word : Key) (pron : List Nat) :
    (post d word pron none).words.map projEntry =
      d.words.map projEntry ++ [{ word := word, pron := pron, basewid := d.words.length, alt := none }] := by
  simp [post, linkAndAppend, projEntry]

/-- … of an alternate of word `w0`, projected -/
theorem proj_post_some (d : Dict) (word : Key) (pron : List Nat) (w0 : Nat) (hlt : w0 < d.words.length) :
    (post d word pron (some w0)).words.map projEntry =
      TextIn.setAlt (d.words.map projEntry) w0 d.words.length ++
          [{ word := word, pron := pron, basewid := w0,
             alt := match (d.words.map projEntry)[w0]? with | some e => e.alt | none => none }] := by
  have hb : d.words[w0]? = some d.words[w0] := by simp [hlt]
  simp only [post, linkAndAppend, hb, TextIn.setAlt, List.modify_eq_set, List.getElem?_map, Option.map_some,
    Option.getD_some, List.map_append, List.map_set, List.map_cons, List.map_nil]
  rfl

theorem sim_dictAdd {dT : TextIn.Dict} {dC : Dict} (s : Sim dT dC) (w : Key) (p : List Nat) :
    (TextIn.dictAdd dT w p = none ∧ (dictAddWord dC w p).2 = none ∧ Sim dT (dictAddWord dC w p).1) ∨
    (∃ dT' n, TextIn.dictAdd dT w p = some (dT', n) ∧ (dictAddWord dC w p).2 = some n ∧
      Sim dT' (dictAddWord dC w p).1) := by
  have hsize : dT.size = dC.words.length := by rw [← s.pr]; simp [TextIn.Dict.size, proj]
  rcases dictAddWord_spec s.wf w p with ⟨h0, r⟩ | ⟨h0, hf, r⟩ | ⟨h0, ⟨i, hi⟩, r⟩ | ⟨h0, hnew, bw, hfb, r⟩
  · left
    rw [r]
    exact ⟨by simp [TextIn.dictAdd, h0], rfl, s⟩
  · left
    rw [r]
    obtain ⟨b, hb, hwb⟩ := findBase_fail hf
    refine ⟨?_, rfl, sim_grow s⟩
    have : w.isEmpty = false := by cases w <;> simp_all
    simp [TextIn.dictAdd, this, baseStr_eq, hb, sim_wordId s, hwb]
  · left
    rw [r]
    refine ⟨?_, rfl, sim_grow s⟩
    have : w.isEmpty = false := by cases w <;> simp_all
    simp only [TextIn.dictAdd, this, baseStr_eq, sim_wordId s, hi]
    cases word2basestr w with
    | none => simp
    | some b =>
      simp only []
      split <;> simp <;> split <;> rfl
  · right
    rw [r]
    have hne : w.isEmpty = false := by cases w <;> simp_all
    have hmap : (grow dC).words.map projEntry = dT.words := by rw [← s.pr]; simp [proj]
    have hlen : (grow dC).words.length = dC.words.length := by simp
    have hm' : dT.words = dC.words.map projEntry := by rw [← s.pr]; rfl
    have hf' : dT.fillerStart = dC.fillerStart := by rw [← s.pr]; rfl
    have hwf : WF (post (grow dC) w p bw) :=
      wf_post (wf_grow s.wf) h0 (by simpa using hnew) (by simpa using hfb)
    have hnc : (post (grow dC) w p bw).nocase = false := by simp [s.nc]
    have hfs : (post (grow dC) w p bw).fillerStart = dT.fillerStart := by rw [← s.pr]; simp [proj]
    cases bw with
    | none =>
      have hb := findBase_none hfb
      have hpw := proj_post_none (grow dC) w p
      refine ⟨proj (post (grow dC) w p none), dC.words.length, ?_, rfl, hnc, hwf, rfl⟩
      simp [TextIn.dictAdd, hne, baseStr_eq, hb, sim_wordId s, hnew, hsize, proj, hpw, hlen, hm', hf']
    | some w0 =>
      obtain ⟨b, hb, hwb⟩ := findBase_some hfb
      have hlt : w0 < (grow dC).words.length := by
        obtain ⟨b', hb'⟩ := bw_lt s.wf hfb rfl
        simpa using (List.getElem?_eq_some_iff.1 hb').1
      have hpw := proj_post_some (grow dC) w p w0 hlt
      refine ⟨proj (post (grow dC) w p (some w0)), dC.words.length, ?_, rfl, hnc, hwf, rfl⟩
      simp [TextIn.dictAdd, hne, baseStr_eq, hb, sim_wordId s, hwb, hnew, hsize, proj, hpw, hlen, hm', hf']
      cases dC.words[w0]? <;> rfl

/-! ## lines, files -/

theorem sim_line (phones : List Key) (sil : Nat) {dT : TextIn.Dict} {dC : Dict} (s : Sim dT dC) (buf : Buf)
    (l : Span buf.size) :
    Sim (TextIn.dictLine phones buf dT l) (loadLineR { ciphones := phones, sil := sil } buf dC l).1 := by
  unfold TextIn.dictLine loadLineR
  by_cases hc : isDictComment buf l = true
  · rw [if_pos hc, if_pos hc]; exact s
  · rw [if_neg hc, if_neg hc]
    cases hw : lineWords buf l with
    | nil => exact s
    | cons w ps =>
      cases ps with
      | nil => exact s
      | cons p1 ps =>
        simp only [phoneIds_eq phones sil, phoneIdOf, s.nc]
        cases hm : mapIds (Mdef.ciphoneId { ciphones := phones, sil := sil }) (List.map (slice buf) (p1 :: ps)) with
        | none => simp only [Bool.false_eq_true, if_false, hm]; exact s
        | some ids =>
          simp only [Bool.false_eq_true, if_false, hm]
          rcases sim_dictAdd s (slice buf w) ids with ⟨h1, h2, h3⟩ | ⟨dT', n, h1, h2, h3⟩
          · rw [h1]
            simp only [h2]
            exact h3
          · rw [h1]
            simp only [h2]
            exact h3

theorem sim_lines (phones : List Key) (sil : Nat) (buf : Buf) : ∀ (ls : List (Span buf.size)) {dT : TextIn.Dict}
    {dC : Dict}, Sim dT dC →
    Sim (ls.foldl (TextIn.dictLine phones buf) dT) (loadLines { ciphones := phones, sil := sil } buf dC ls).1
  | [], _, _, s => s
  | l :: ls, _, _, s => by
    simp only [List.foldl_cons, loadLines]
    exact sim_lines phones sil buf ls (sim_line phones sil s buf l)

theorem sim_initial (main fdict : Option Buf) : Sim {} (initial false main fdict) :=
  ⟨rfl, wf_initial false main fdict, rfl⟩

theorem sim_main (phones : List Key) (sil : Nat) (main fdict : Option Buf) :
    Sim (TextIn.dictMain phones main) (afterMain { ciphones := phones, sil := sil } false main fdict).1 := by
  unfold TextIn.dictMain afterMain loadOpt
  cases main with
  | none => exact sim_initial none fdict
  | some b => exact sim_lines phones sil b _ (sim_initial (some b) fdict)

theorem sim_filler (phones : List Key) (sil : Nat) (fdict : Option Buf) {dT : TextIn.Dict} {dC : Dict} (s : Sim dT dC) :
    Sim (TextIn.dictFiller phones fdict dT) (afterFiller { ciphones := phones, sil := sil } fdict dC).1 := by
  have s' : Sim { dT with fillerStart := dT.size } { dC with fillerStart := dC.words.length } := by
    refine ⟨s.nc, wf_congr s.wf rfl rfl rfl, ?_⟩
    rw [← s.pr]
    simp [proj, TextIn.Dict.size]
  unfold TextIn.dictFiller afterFiller loadOpt
  cases fdict with
  | none => exact s'
  | some b => exact sim_lines phones sil b _ s'

theorem sim_addIfMissing (phones : List Key) (sil : Nat) {dT : TextIn.Dict} {dC : Dict} (s : Sim dT dC) (w : Key) :
    Sim (TextIn.addIfMissing dT w sil) (addIfMissing { ciphones := phones, sil := sil } dC w) := by
  unfold TextIn.addIfMissing addIfMissing
  rw [sim_wordId s]
  cases h : dC.wordid w with
  | some i => simpa using s
  | none =>
    simp only [Option.isSome_none, Bool.false_eq_true, if_false, if_true]
    rcases sim_dictAdd s w [sil] with ⟨h1, _, h3⟩ | ⟨dT', n, h1, _, h3⟩
    · rw [h1]; exact h3
    · rw [h1]; exact h3

theorem wStart_eq : TextIn.wStart = Generated.s3StartWord := by decide
theorem wFinish_eq : TextIn.wFinish = Generated.s3FinishWord := by decide
theorem wSil_eq : TextIn.wSil = Generated.s3SilenceWord := by decide

/-- what C10's reader returns for a C16 result -/
def toText : Except LoadErr Loaded → Except TextIn.DictErr TextIn.Dict
  | .ok r => .ok (proj r.dict)
  | .error .startInMain => .error .startInMain
  | .error .finishInMain => .error .finishInMain
  | .error .silInMain => .error .silInMain
  | .error _ => .error .silNotFiller

/-- the final tests of `dict_init_s3file` agree -/
theorem sim_finish (phones : List Key) (sil : Nat) {dT : TextIn.Dict} {dC : Dict} (s : Sim dT dC) :
    TextIn.dictFinish sil dT =
      match finish { ciphones := phones, sil := sil } dC with
      | some d => .ok (proj d)
      | none => .error .silNotFiller := by
  have s1 := sim_addIfMissing phones sil s TextIn.wStart
  have s2 := sim_addIfMissing phones sil s1 TextIn.wFinish
  have s3 := sim_addIfMissing phones sil s2 TextIn.wSil
  unfold TextIn.dictFinish finish
  simp only [← wStart_eq, ← wFinish_eq, ← wSil_eq]
  generalize TextIn.addIfMissing (TextIn.addIfMissing (TextIn.addIfMissing dT TextIn.wStart sil) TextIn.wFinish sil)
    TextIn.wSil sil = d4T at s3 ⊢
  generalize addIfMissing { ciphones := phones, sil := sil } (addIfMissing { ciphones := phones, sil := sil }
    (addIfMissing { ciphones := phones, sil := sil } dC TextIn.wStart) TextIn.wFinish) TextIn.wSil = d4C at s3 ⊢
  have hsz : d4T.size = d4C.words.length := by rw [← s3.pr]; simp [TextIn.Dict.size, proj]
  have hfs : d4T.fillerStart = d4C.fillerStart := by rw [← s3.pr]; rfl
  have hpr : ∀ (a : Nat) (b c d : Option Nat),
      proj { d4C with fillerEnd := a, startwid := b, finishwid := c, silwid := d } = d4T := fun _ _ _ _ => s3.pr
  simp only [TextIn.silIsFiller, sim_wordId s3, hsz, hfs]
  cases hsw : d4C.wordid TextIn.wSil with
  | none =>
    simp
  | some sw =>
    obtain ⟨e, he, _⟩ := s3.wf.ht_sound _ _ hsw
    have hlt : sw < d4C.words.length := (List.getElem?_eq_some_iff.1 he).1
    have heT : d4T.words[sw]? = some (projEntry e) := by rw [← s3.pr]; simp [proj, he]
    simp only [heT, Dict.isFiller, he]
    have hb : (projEntry e).basewid = e.basewid := rfl
    rw [hb]
    by_cases hst : some e.basewid = d4C.wordid TextIn.wStart
    · simp [hst, hpr]
    · by_cases hfi : some e.basewid = d4C.wordid TextIn.wFinish
      · simp [hfi, hpr]
      · have h1 : ((d4C.fillerStart : Int) > (d4C.words.length : Int) - 1) ↔ d4C.fillerStart > d4C.words.length - 1 := by
          omega
        have h2 : ((e.basewid : Int) ≤ (d4C.words.length : Int) - 1) ↔ e.basewid ≤ d4C.words.length - 1 := by omega
        by_cases c1 : d4C.fillerStart > d4C.words.length - 1
        · simp [c1, h1.2 c1]
        · have c1' : ¬ ((d4C.fillerStart : Int) > (d4C.words.length : Int) - 1) := fun h => c1 (h1.1 h)
          by_cases c2 : d4C.fillerStart ≤ e.basewid ∧ e.basewid ≤ d4C.words.length - 1
          · simp [c1, c1', hst, hfi, c2.1, c2.2, h2.2 c2.2, hpr]
          · have : ¬ (d4C.fillerStart ≤ e.basewid ∧ (e.basewid : Int) ≤ (d4C.words.length : Int) - 1) :=
              fun h => c2 ⟨h.1, h2.1 h.2⟩
            simp [c1, c1', hst, hfi, c2, this]

/-- **the simulation.** C10's reader model returns exactly the projection of what the bridge returns -/
theorem sim_dictInit (phones : List Key) (sil : Nat) (main fdict : Option Buf) :
    loadDict { ciphones := phones, sil := sil } false main fdict = .error .tooMany ∨
    toText (loadDict { ciphones := phones, sil := sil } false main fdict) = TextIn.dictInit phones sil main fdict := by
  by_cases hn : nLines main + nLines fdict ≥ maxS3wid
  · left; simp [loadDict, hn]
  · right
    have sm := sim_main phones sil main fdict
    unfold loadDict TextIn.dictInit
    rw [if_neg hn]
    simp only [sim_wordId sm, wStart_eq, wFinish_eq, wSil_eq]
    cases h1 : (afterMain { ciphones := phones, sil := sil } false main fdict).1.wordid Generated.s3StartWord with
    | some i => simp [toText]
    | none =>
      cases h2 : (afterMain { ciphones := phones, sil := sil } false main fdict).1.wordid Generated.s3FinishWord with
      | some i => simp [toText]
      | none =>
        cases h3 : (afterMain { ciphones := phones, sil := sil } false main fdict).1.wordid Generated.s3SilenceWord with
        | some i => simp [toText]
        | none =>
          simp only [Option.isSome_none, Bool.false_eq_true, if_false, ne_eq, not_true_eq_false]
          rw [sim_finish phones sil (sim_filler phones sil fdict sm)]
          cases finish { ciphones := phones, sil := sil }
            (afterFiller { ciphones := phones, sil := sil } fdict
              (afterMain { ciphones := phones, sil := sil } false main fdict).1).1 <;> rfl

end SSVerif.DictLoad
