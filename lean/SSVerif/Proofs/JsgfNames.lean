import SSVerif.Model.JsgfNames
/-!
Interning keeps the table of full rule names free of repetitions: `(resolve tg).2.rules.Nodup` for every
syntax tree (used by `C05_text_rule_strings_injective`, Props/C05Names.lean).
-/
namespace SSVerif.JsgfNames
open SSVerif.Jsgf SSVerif.JsgfText

theorem internIn_nodup (l : List (List Char)) (s : List Char) (h : l.Nodup) : (internIn l s).1.Nodup := by
  unfold internIn
  split
  · exact h
  · rename_i hc
    have hn : s ∉ l := fun hm => hc (List.contains_iff_mem.mpr hm)
    refine List.nodup_append.mpr ⟨h, by simp, ?_⟩
    intro a ha b hb
    simp only [List.mem_singleton] at hb
    subst hb
    exact fun e => hn (e ▸ ha)

mutual
  theorem convExp_nodup (gname : List Char) (ctx : Option (List Char)) :
      ∀ (e : TExp) (N : Names), N.rules.Nodup → (convExp gname ctx e N).2.rules.Nodup
    | .tok s, N, h => by simp only [convExp]; exact h
    | .rule s, N, h => by
      simp only [convExp]
      split
      · exact h
      · split
        · exact h
        · exact internIn_nodup _ _ h
    | .group a, N, h => by simp only [convExp]; exact convAlts_nodup gname (some gname) a N h
    | .opt a, N, h => by simp only [convExp]; exact convAlts_nodup gname (some gname) a N h
    | .star e, N, h => by simp only [convExp]; exact convExp_nodup gname (some gname) e N h
    | .plus e, N, h => by simp only [convExp]; exact convExp_nodup gname (some gname) e N h
  theorem convSeq_nodup (gname : List Char) (ctx : Option (List Char)) :
      ∀ (s : TSeq) (N : Names), N.rules.Nodup → (convSeq gname ctx s N).2.rules.Nodup
    | .one wt tags e, N, h => by simp only [convSeq]; exact convExp_nodup gname ctx e N h
    | .cons wt tags e s, N, h => by
      simp only [convSeq]
      exact convSeq_nodup gname ctx s _ (convExp_nodup gname ctx e N h)
  theorem convAlts_nodup (gname : List Char) (ctx : Option (List Char)) :
      ∀ (a : TAlts) (N : Names), N.rules.Nodup → (convAlts gname ctx a N).2.rules.Nodup
    | .one s, N, h => by simp only [convAlts]; exact convSeq_nodup gname ctx s N h
    | .cons s a, N, h => by
      simp only [convAlts]
      exact convAlts_nodup gname ctx a _ (convSeq_nodup gname ctx s N h)
end

theorem convRules_nodup (gname : List Char) : ∀ (rs : List TRule) (N : Names), N.rules.Nodup →
    (convRules gname rs N).2.rules.Nodup
  | [], N, h => by simp only [convRules]; exact h
  | rl :: rest, N, h => by
    simp only [convRules]
    apply convRules_nodup gname rest
    apply convAlts_nodup
    exact internIn_nodup _ _ h

theorem resolve_nodup (tg : TGrammar) : (resolve tg).2.rules.Nodup := by
  unfold resolve
  exact convRules_nodup _ _ _ (by simp)

end SSVerif.JsgfNames
