import SSVerif.Proofs.ProtocolApi
/-! borrowed pointers of the API-level model: the objects they point into are released only by the calls the white
lists `keepsHyp` / `keepsJson` / `keepsCmn` exclude -/
namespace SSVerif.Protocol


@[simp] theorem latticeStep_rsj (s : ApiState) (e : Bool) :
    (latticeStep s e).1.refs = s.refs ∧ (latticeStep s e).1.search = s.search ∧ (latticeStep s e).1.json = s.json := by
  unfold latticeStep; split
  · simp
  · split <;> simp

@[simp] theorem alignStep_rsj (s : ApiState) (ru r a : Bool) :
    (alignStep s ru r a).1.refs = s.refs ∧ (alignStep s ru r a).1.search = s.search ∧ (alignStep s ru r a).1.json = s.json := by
  unfold alignStep; split
  · simp
  · split <;> simp

@[simp] theorem latOf_rsj (s : ApiState) (src : LatSrc) (e : Bool) :
    (latOf s src e).1.refs = s.refs ∧ (latOf s src e).1.search = s.search ∧ (latOf s src e).1.json = s.json := by
  cases src <;> simp [latOf]

set_option maxHeartbeats 4000000 in
/-- what the objects borrowed pointers point into need: no call other than the last `decoder_free`, `decoder_reinit`
and `decoder_init` releases the decoder or its search, none other than these and `decoder_start_utt` the JSON buffer -/
theorem step_keeps (s : ApiState) (dc : Call) (h1 : dc ≠ .free) (h2 : ∀ g, dc ≠ .reinit g) (h3 : ∀ g f, dc ≠ .init g f) :
    (s.refs ≠ 0 → (step s dc).1.refs ≠ 0) ∧ (s.search ≠ .none → (step s dc).1.search ≠ .none)
      ∧ (dc ≠ .start → s.json = true → (step s dc).1.json = true) := by
  have L := latticeStep_rsj s
  have A := alignStep_rsj s
  have O := latOf_rsj s
  cases dc <;> simp only [step, ptrIf] <;> (repeat' split) <;> simp_all

theorem inst_setInst_eq (s : Sys) (i : Inst) (x : ApiState) : (s.setInst i x).inst i = x := by cases i <;> rfl

/-- kinds of calls that may release the decoder, its search or its JSON buffer -/
def killer : OpKind → Bool
  | .free | .reinitKeep | .reinitNew | .reinitHeld | .initNew | .initHeld => true
  | _ => false

/-- the object a borrowed pointer points into exists -/
def liveB (s : Sys) : BSrc → Prop
  | .hypStr i => (s.inst i).search ≠ .none
  | .jsonStr i => (s.inst i).json = true
  | .cmnStr i => (s.inst i).refs ≠ 0
  | .iterStr i id => (findIter (s.inst i).iters id).isSome = true

theorem sysStep_keeps (s : Sys) (c : SysCall) (j : Inst) (hk : instOf c = some j → killer c.kind = false) :
    ((s.inst j).refs ≠ 0 → ((sysStep s c).1.inst j).refs ≠ 0) ∧
    ((s.inst j).search ≠ .none → ((sysStep s c).1.inst j).search ≠ .none) ∧
    ((instOf c = some j → c.kind ≠ .start) → (s.inst j).json = true → ((sysStep s c).1.inst j).json = true) := by
  by_cases hi : instOf c = some j
  · have hk' := hk hi
    cases c with
    | dec i dc =>
      have hij : i = j := by simpa [instOf] using hi
      subst hij
      by_cases hn : needsSys dc = true
      · simp [sysStep, hn]
      · have h1 : dc ≠ .free := by intro h; subst h; simp [SysCall.kind, Call.kind, killer] at hk'
        have h2 : ∀ g, dc ≠ .reinit g := by intro g h; subst h; simp [needsSys] at hn
        have h3 : ∀ g f, dc ≠ .init g f := by intro g f h; subst h; simp [needsSys] at hn
        obtain ⟨a, b, c⟩ := step_keeps (s.inst i) dc h1 h2 h3
        simp only [sysStep, hn, Bool.false_eq_true, if_false, inst_setInst_eq]
        refine ⟨a, b, ?_⟩
        intro hs
        apply c
        intro h; subst h
        exact hs hi rfl
    | mllrApply i k keep =>
      have hij : i = j := by simpa [instOf] using hi
      subst hij
      obtain ⟨a, b, c⟩ := step_keeps (s.inst i) (.mllrApply true) (by simp) (by simp) (by simp)
      simp only [sysStep]
      split
      · simp
      · split
        · simp
        · split <;> simp [inst_setInst_eq, Sys.inst, Sys.setInst] <;> first | exact ⟨a, b, fun _ => c (by simp)⟩ | skip
          all_goals (cases i <;> simp_all [Sys.inst, Sys.setInst])
    | mllrApplyNull i =>
      have hij : i = j := by simpa [instOf] using hi
      subst hij
      obtain ⟨a, b, c⟩ := step_keeps (s.inst i) (.mllrApply false) (by simp) (by simp) (by simp)
      simp only [sysStep, inst_setInst_eq]
      exact ⟨a, b, fun _ => c (by simp)⟩
    | initNew => simp [SysCall.kind, killer] at hk'
    | initHeld => simp [SysCall.kind, killer] at hk'
    | reinitKeep => simp [SysCall.kind, killer] at hk'
    | reinitNew => simp [SysCall.kind, killer] at hk'
    | reinitHeld => simp [SysCall.kind, killer] at hk'
    | cfgGram t _ _ =>
      simp only [sysStep]
      split <;> simp [Sys.inst] <;> (cases j <;> simp)
    | cfgCall t _ _ _ =>
      simp only [sysStep]
      split
      · simp
      · split
        · simp
        · split <;> simp [Sys.inst] <;> (cases j <;> simp)
    | cfgRetainDec i k =>
      simp only [sysStep]
      split <;> simp [Sys.inst] <;> (cases j <;> simp)
    | subRetain i kind k =>
      simp only [sysStep]
      split <;> simp [Sys.inst] <;> (cases j <;> simp)
    | _ => simp [instOf] at hi
  · rw [sysStep_other_inst s c j hi]
    exact ⟨id, id, fun _ => id⟩


theorem keepsHyp_not_killer (k : OpKind) (h : keepsHyp k = true) : killer k = false := by
  cases k <;> simp_all [keepsHyp, killer]
theorem keepsJson_not_killer (k : OpKind) (h : keepsJson k = true) : killer k = false ∧ k ≠ .start := by
  cases k <;> simp_all [keepsJson, killer]
theorem keepsCmn_not_killer (k : OpKind) (h : keepsCmn k = true) : killer k = false := by
  cases k <;> simp_all [keepsCmn, killer]

/-- a borrow that `survive` keeps across a base call still points into an existing object -/
theorem liveB_survive (s : Sys) (c : SysCall) (b : BSrc) (hl : liveB s b)
    (hk : ∀ i, instOf c = some i → keeps c.kind i b = true) (ha : iterAlive (sysStep s c).1 b = true) :
    liveB (sysStep s c).1 b := by
  cases b with
  | hypStr j =>
    refine (sysStep_keeps s c j ?_).2.1 hl
    intro hi
    have := hk j hi
    simp [keeps] at this
    exact keepsHyp_not_killer _ this
  | jsonStr j =>
    have hx : instOf c = some j → killer c.kind = false ∧ c.kind ≠ .start := by
      intro hi
      have := hk j hi
      simp [keeps] at this
      exact keepsJson_not_killer _ this
    exact (sysStep_keeps s c j (fun hi => (hx hi).1)).2.2 (fun hi => (hx hi).2) hl
  | cmnStr j =>
    refine (sysStep_keeps s c j ?_).1 hl
    intro hi
    have := hk j hi
    simp [keeps] at this
    exact keepsCmn_not_killer _ this
  | iterStr j id => simpa [iterAlive, liveB] using ha



/-- every borrowed pointer the model lets the history read points into an object that exists -/
def BorrowsLive (x : XState) : Prop := ∀ p ∈ x.borrows, liveB x.sys p.2

theorem mem_survive {k : OpKind} {oi : Option Inst} {s' : Sys} {l : List (Nat × BSrc)} {p : Nat × BSrc}
    (h : p ∈ survive k oi s' l) : p ∈ l ∧ (∀ i, oi = some i → keeps k i p.2 = true) ∧ iterAlive s' p.2 = true := by
  simp only [survive, List.mem_filter, Bool.and_eq_true] at h
  obtain ⟨h1, h2, h3⟩ := h
  refine ⟨h1, ?_, h3⟩
  intro i hi
  subst hi
  simpa using h2

@[simp] theorem setCreated_borrows (x : XState) (i : Inst) (v n : Bool) : (x.setCreated i v n).borrows = x.borrows := by
  cases i <;> rfl
@[simp] theorem setProc_borrows (x : XState) (i : Inst) (v : Bool) : (x.setProc i v).borrows = x.borrows := by
  cases i <;> rfl
@[simp] theorem postBase_borrows (x1 : XState) (c : SysCall) (cons : Bool) (r : Ret) :
    (postBase x1 c cons r).borrows = x1.borrows := by
  unfold postBase; split <;> (try split) <;> simp

theorem quiet_sys (x : XState) (c : SysCall) (h : quietCall x c = true) : (sysStep x.sys c).1 = x.sys := by
  cases c with
  | dec i dc =>
    have ho : outOfOrder (x.sys.inst i) dc := by simpa [quietCall] using h
    have hns : needsSys dc = false := by cases dc <;> simp_all [outOfOrder, needsSys]
    simp [sysStep, hns, C09_out_of_order_is_noop _ _ ho, setInst_inst]
  | _ => simp [quietCall] at h

/-- **one base call keeps every surviving borrow alive** -/
theorem baseStep_live (x : XState) (c : SysCall) (cons : Bool) (h : BorrowsLive x) : BorrowsLive (baseStep x c cons).1 := by
  unfold baseStep
  simp only []
  split
  · exact h
  · split
    · rename_i hq
      intro p hp
      simp only [quiet_sys x c hq]
      exact h p hp
    · intro p hp
      simp only [postBase_borrows, postBase_sys] at hp ⊢
      obtain ⟨h1, h2, h3⟩ := mem_survive hp
      exact liveB_survive x.sys c p.2 (h p h1) h2 h3




theorem liveB_congr (s s' : Sys) (b : BSrc) (h : s'.inst b.inst = s.inst b.inst) (hl : liveB s b) : liveB s' b := by
  cases b <;> simp_all [liveB, BSrc.inst]

/-- a call on another decoder instance (or on no instance) leaves the borrow's object alone -/
theorem liveB_other (s : Sys) (c : SysCall) (b : BSrc) (h : instOf c ≠ some b.inst) (hl : liveB s b) :
    liveB (sysStep s c).1 b :=
  liveB_congr s _ b (sysStep_other_inst s c b.inst h) hl

/-- a call that is neither a releasing call nor `decoder_start_utt` keeps every borrow's object, provided a
hypothesis-iterator string's iterator is still in the table -/
theorem liveB_nonkiller (s : Sys) (c : SysCall) (b : BSrc) (hk : killer c.kind = false) (hs : c.kind ≠ .start)
    (ha : iterAlive (sysStep s c).1 b = true) (hl : liveB s b) : liveB (sysStep s c).1 b := by
  cases b with
  | hypStr j => exact (sysStep_keeps s c j (fun _ => hk)).2.1 hl
  | jsonStr j => exact (sysStep_keeps s c j (fun _ => hk)).2.2 (fun _ => hs) hl
  | cmnStr j => exact (sysStep_keeps s c j (fun _ => hk)).1 hl
  | iterStr j id => simpa [iterAlive, liveB] using ha

theorem keeps_create (k : OpKind) (hk : k = .createNew ∨ k = .createNull) (i : Inst) (b : BSrc)
    (h : keeps k i b = true) : b.inst ≠ i ∨ ∃ j id, b = .iterStr j id := by
  rcases hk with rfl | rfl <;> cases b <;> simp_all [keeps, keepsHyp, keepsJson, keepsCmn, BSrc.inst]

theorem mem_setBorrow {l : List (Nat × BSrc)} {k : Nat} {b : BSrc} {p : Nat × BSrc} (h : p ∈ setBorrow l k b) :
    p = (k, b) ∨ p ∈ l := by
  simp only [setBorrow, List.mem_cons, List.mem_filter] at h
  rcases h with h | h
  · exact .inl h
  · exact .inr h.1

theorem json_ptr (s : ApiState) (lvl : Nat) (ru r a : Bool) (h : (step s (.json lvl ru r a)).2 = .ptr) :
    (step s (.json lvl ru r a)).1.json = true := by
  simp only [step] at h ⊢
  split at h
  · simp at h
  · split at h
    · split <;> simp_all
    · split at h
      · split <;> simp_all
      · simp at h

theorem getCmn_refs (s : ApiState) (h : (step s .getCmn).2 ≠ .oop) : (step s .getCmn).1.refs ≠ 0 := by
  simp only [step] at h ⊢
  split <;> simp_all

theorem anyOp_kind (ty : AnyTy) : killer (anyOp ty).kind = false ∧ (anyOp ty).kind ≠ .start := by
  cases ty <;> simp [anyOp, CfgOp.kind, killer]

theorem xStep_live (x : XState) (c : XCall) (h : BorrowsLive x) : BorrowsLive (xStep x c).1 := by
  unfold xStep
  split
  · exact h
  cases c with
  | base sc cons =>
    cases sc with
    | reinitKeep i =>
      simp only [xCore]
      split
      · split <;> exact h
      · exact baseStep_live _ _ _ h
    | _ => exact baseStep_live _ _ _ h
  | createNew i jsgf g =>
    simp only [xCore]
    split
    · exact h
    · intro p hp
      simp only [setCreated_borrows, setCreated_sys] at hp ⊢
      obtain ⟨h1, h2, h3⟩ := mem_survive hp
      have hl := h p h1
      rcases keeps_create .createNew (.inl rfl) i p.2 (h2 i rfl) with hne | ⟨j, id, hb⟩
      · have e1 := sysStep_other_inst x.sys (.initNew i jsgf .none false) p.2.inst (by simpa [instOf] using hne.symm)
        have e2 := sysStep_other_inst (sysStep x.sys (.initNew i jsgf .none false)).1 (.cfgGram (.dec i) jsgf g) p.2.inst
          (by simpa [instOf] using hne.symm)
        exact liveB_congr x.sys _ p.2 (by rw [e2, e1]) hl
      · rw [hb] at h3 ⊢
        simpa [iterAlive, liveB] using h3
  | createNull i =>
    simp only [xCore]
    split
    · exact h
    · intro p hp
      simp only [setCreated_borrows, setCreated_sys] at hp ⊢
      obtain ⟨h1, h2, h3⟩ := mem_survive hp
      have hl := h p h1
      rcases keeps_create .createNull (.inr rfl) i p.2 (h2 i rfl) with hne | ⟨j, id, hb⟩
      · exact liveB_other x.sys _ p.2 (by simpa [instOf] using hne.symm) hl
      · rw [hb] at h3 ⊢
        simpa [iterAlive, liveB] using h3
  | hypHold i k e =>
    simp only [xCore]
    split
    · exact h
    · split
      · exact h
      · rename_i hoop hs
        have keep : ∀ p ∈ survive OpKind.hypHold (some i) (sysStep x.sys (.dec i (.hyp e))).1 x.borrows,
            liveB (sysStep x.sys (.dec i (.hyp e))).1 p.2 := by
          intro p hp
          obtain ⟨h1, _, h3⟩ := mem_survive hp
          exact liveB_nonkiller x.sys _ p.2 (by simp [SysCall.kind, Call.kind, killer]) (by simp [SysCall.kind, Call.kind]) h3 (h p h1)
        intro p hp
        simp only at hp ⊢
        split at hp
        · rcases mem_setBorrow hp with rfl | hp
          · exact (sysStep_keeps x.sys (.dec i (.hyp e)) i (fun _ => by simp [SysCall.kind, Call.kind, killer])).2.1 hs
          · exact keep p hp
        · exact keep p (List.mem_filter.mp hp).1
  | borrowUse k => simp only [xCore]; split <;> exact h
  | strUse k => simp only [xCore]; split <;> exact h
  | strFree k => simp only [xCore]; split <;> exact h
  | alProp i k => simp only [xCore]; split <;> exact h
  | cfgValidate t e => simp only [xCore]; split <;> exact h
  | cfgExpand t => simp only [xCore]; split <;> exact h
  | cfgLog t => simp only [xCore]; split <;> exact h
  | jsonHold i k lvl ru r a =>
    simp only [xCore]
    split
    · exact h
    · have keep : ∀ p ∈ survive OpKind.jsonHold (some i) (sysStep x.sys (.dec i (.json lvl ru r a))).1 x.borrows,
          liveB (sysStep x.sys (.dec i (.json lvl ru r a))).1 p.2 := by
        intro p hp
        obtain ⟨h1, _, h3⟩ := mem_survive hp
        exact liveB_nonkiller x.sys _ p.2 (by simp [SysCall.kind, Call.kind, killer]) (by simp [SysCall.kind, Call.kind]) h3 (h p h1)
      intro p hp
      simp only at hp ⊢
      split at hp
      · rename_i hptr
        rcases mem_setBorrow hp with rfl | hp
        · simp only [sysStep, needsSys, Bool.false_eq_true, if_false] at hptr ⊢
          simp only [liveB, inst_setInst_eq]
          exact json_ptr _ _ _ _ _ hptr
        · exact keep p hp
      · exact keep p (List.mem_filter.mp hp).1
  | cmnHold i k =>
    simp only [xCore]
    split
    · exact h
    · rename_i hoop
      have keep : ∀ p ∈ survive OpKind.cmnHold (some i) (sysStep x.sys (.dec i .getCmn)).1 x.borrows,
          liveB (sysStep x.sys (.dec i .getCmn)).1 p.2 := by
        intro p hp
        obtain ⟨h1, _, h3⟩ := mem_survive hp
        exact liveB_nonkiller x.sys _ p.2 (by simp [SysCall.kind, Call.kind, killer]) (by simp [SysCall.kind, Call.kind]) h3 (h p h1)
      intro p hp
      simp only at hp ⊢
      rcases mem_setBorrow hp with rfl | hp
      · simp only [sysStep, needsSys, Bool.false_eq_true, if_false] at hoop ⊢
        simp only [liveB, inst_setInst_eq]
        exact getCmn_refs _ hoop
      · exact keep p hp
  | iterHold i id k e =>
    simp only [xCore]
    split
    · rename_i it hf
      split
      · split
        · intro p hp
          simp only at hp ⊢
          rcases mem_setBorrow hp with rfl | hp
          · simp [liveB, hf]
          · exact h p hp
        · intro p hp
          exact h p (List.mem_filter.mp hp).1
      · exact h
    · exact h
  | lookupHold i k found =>
    simp only [xCore]
    split
    · exact h
    · split
      · exact h
      · intro p hp
        simp only at hp ⊢
        obtain ⟨h1, _, h3⟩ := mem_survive hp
        exact liveB_nonkiller x.sys _ p.2 (by simp [SysCall.kind, Call.kind, killer]) (by simp [SysCall.kind, Call.kind]) h3 (h p h1)
  | cfgParseNew k ok =>
    simp only [xCore]
    split
    · split
      · exact h
      · intro p hp
        simp only at hp ⊢
        have e1 := sysStep_other_inst x.sys (.cfgNew k false .none) p.2.inst (by simp [instOf])
        have e2 := sysStep_other_inst (sysStep x.sys (.cfgNew k false .none)).1 (.cfgCall (.held k) .unknown .get false)
          p.2.inst (by simp [instOf])
        exact liveB_congr x.sys _ p.2 (by rw [e2, e1]) (h p hp)
    · split <;> exact h
  | cfgSetAny t kt ty safe =>
    simp only [xCore]
    split
    · exact h
    · intro p hp
      simp only at hp ⊢
      obtain ⟨h1, _, h3⟩ := mem_survive hp
      exact liveB_nonkiller x.sys _ p.2 (by simpa [SysCall.kind] using (anyOp_kind ty).1)
        (by simpa [SysCall.kind] using (anyOp_kind ty).2) h3 (h p h1)




/-- a base call on decoder `i` drops no borrowed string of the other decoder -/
theorem other_instance_borrows_survive (x : XState) (sc : SysCall) (cons : Bool) (i : Inst) (p : Nat × BSrc)
    (hi : instOf sc = some i) (hj : p.2.inst ≠ i) (hn : ∀ j id, p.2 ≠ .iterStr j id) (hp : p ∈ x.borrows) :
    p ∈ (baseStep x sc cons).1.borrows := by
  unfold baseStep
  simp only []
  split
  · exact hp
  · split
    · exact hp
    · simp only [postBase_borrows, survive, List.mem_filter, hi]
      refine ⟨hp, ?_⟩
      cases hb : p.2 with
      | hypStr j => simp [keeps, iterAlive]; left; simpa [hb, BSrc.inst] using hj
      | jsonStr j => simp [keeps, iterAlive]; left; simpa [hb, BSrc.inst] using hj
      | cmnStr j => simp [keeps, iterAlive]; left; simpa [hb, BSrc.inst] using hj
      | iterStr j id => exact absurd hb (hn j id)


end SSVerif.Protocol
