import SSVerif.Proofs.LexCover
import SSVerif.Proofs.LexFlatCheck
import SSVerif.Model.LexCoverHyps
/-!
# The interface of `Proofs/LexCover.lean` holds for the lextree the code builds (C02)

`envOf M li tmat`: the search environment over `buildLexTree li (fsgOf M)`.  From `lexHypsB M li` (the hypotheses of
`C02_lextree_paths_eq_flat_instances`), `fillerSingleB M` and `leafCtxB` of the built lextree, every root-to-leaf path of the
lextree offers its instances in `FlatNet.allInsts M` (`bridge_paths`, i.e. `C02_lextree_paths_are_flat_instances`), hence every
alignment of the lextree network is an alignment of the flat network with the same score.
-/
namespace SSVerif.LexCover
open SSVerif.Search SSVerif.Hist SSVerif.Hmm SSVerif.Viterbi SSVerif.FlatNet SSVerif.SearchScore SSVerif.LexFlat

/-- the search environment of the lextree the code builds for the flat model `M`.  `ar`: does `fsg_search_pnode_exit` let a
FILLER leave to every right context whatever its length (`true`: the code as it is, `fsg_model_is_filler(...) ||
dict_is_single_phone(...)`; `false`: with fix D110, `dict_is_single_phone(...)` only) -/
def envOfG (ar : Bool) (M : Model) (li : LexIn) (tmat : Nat → List Nat) : Env :=
  { lt := buildLexTree li (fsgOf M), g := fsgOf M, tmat := tmat, sil := M.sil,
    anyRc := fun w => match M.word w with | some wd => (ar && wd.filler) || wd.pron.length == 1 | none => false }

/-- the code as it is -/
abbrev envOf (M : Model) (li : LexIn) (tmat : Nat → List Nat) : Env := envOfG true M li tmat

variable {ar : Bool}

/-- what `instsOfArc` makes: roots are at position 0, leaves at the last position; a one-phone word has root-and-leaf
instances without right context -/
theorem insts_facts {M : Model} {i : Nat} {a : Arc} {w : Word} {l : List Inst} (hi : instsOfArc M i a w = some l) :
    ∀ y ∈ l, (y.isRoot = true → y.pos = 0) ∧ (y.isLeaf = true → y.pos = w.pron.length - 1) ∧
      (w.pron.length = 1 → y.rc = none ∧ y.isRoot = true) := by
  unfold instsOfArc at hi
  cases hp : w.pron with
  | nil => simp [hp] at hi
  | cons p0 t =>
    cases t with
    | nil =>
      by_cases hf : w.filler = true
      · simp only [hp, hf, if_true, Option.bind_eq_bind, Option.bind_eq_some_iff, Option.pure_def, Option.some.injEq] at hi
        obtain ⟨ss, _, tmv, _, hins⟩ := hi
        intro y hy
        rw [← hins] at hy
        simp only [List.mem_singleton] at hy
        subst hy
        simp
      · have hf' : w.filler = false := by simpa using hf
        simp only [hp, hf', Bool.false_eq_true, if_false, Option.bind_eq_bind, Option.bind_eq_some_iff] at hi
        obtain ⟨tmv, _, hmap⟩ := hi
        intro y hy
        obtain ⟨lc, _, hfx⟩ := mem_mapM_option hmap y hy
        simp only [Option.bind_eq_some_iff, Option.pure_def, Option.some.injEq] at hfx
        obtain ⟨ss, _, hxe⟩ := hfx
        subst hxe
        simp
    | cons p1 rest =>
      simp only [hp, Option.bind_eq_bind, Option.bind_eq_some_iff, Option.pure_def, Option.some.injEq] at hi
      obtain ⟨tm0, _, roots, hroots, inner, hinner, tml, _, leaves, hleaves, hins⟩ := hi
      intro y hy
      rw [← hins] at hy
      rcases List.mem_append.1 hy with h1 | h1
      · rcases List.mem_append.1 h1 with h2 | h2
        · obtain ⟨k, _, hk⟩ := mem_mapM_option hroots y h2
          simp only [Option.bind_eq_some_iff, Option.some.injEq] at hk
          obtain ⟨_, _, hk⟩ := hk
          subst hk
          simp
        · obtain ⟨k, _, hk⟩ := mem_mapM_option hinner y h2
          simp only [Option.bind_eq_some_iff, Option.some.injEq] at hk
          obtain ⟨_, _, _, _, hk⟩ := hk
          subst hk
          simp
      · obtain ⟨k, _, hk⟩ := mem_mapM_option hleaves y h1
        simp only [Option.bind_eq_some_iff, Option.some.injEq] at hk
        obtain ⟨_, _, hk⟩ := hk
        subst hk
        simp

theorem optFlatten_sub : ∀ (ls : List (Option (List Inst))) (r : List Inst), optFlatten ls = some r →
    ∀ l, some l ∈ ls → ∀ h ∈ l, h ∈ r
  | [], _, _, _, hl, _, _ => by cases hl
  | none :: _, _, h, _, _, _, _ => by simp [optFlatten] at h
  | some l0 :: rest, r, h, l, hl, x, hx => by
    unfold optFlatten at h
    cases hr : optFlatten rest with
    | none => rw [hr] at h; cases h
    | some r' =>
      rw [hr] at h
      simp only [Option.map_some, Option.some.injEq] at h
      subst h
      rcases List.mem_cons.1 hl with h1 | h1
      · cases h1
        exact List.mem_append.2 (Or.inl hx)
      · exact List.mem_append.2 (Or.inr (optFlatten_sub rest r' hr l h1 x hx))

/-- a stamped instance of a word arc is in the flat network's instance array -/
theorem stamp_mem {M : Model} {l : List Inst} (hl : allInsts M = some l) {i : Nat} {a : Arc} {w : Word} (hx : (i, a, w) ∈ wordArcs M)
    {il : List Inst} (hi : instsOfArc M i a w = some il) {y : Inst} (hy : y ∈ il) :
    ∃ hidx, (stamp i a y, hidx) ∈ l.toArray.toList.zipIdx := by
  unfold allInsts at hl
  have hm : stamp i a y ∈ l := by
    refine optFlatten_sub _ l hl (il.map (stamp i a)) ?_ _ (List.mem_map.2 ⟨y, hy, rfl⟩)
    exact List.mem_map.2 ⟨(i, a, w), hx, by simp [hi]⟩
  obtain ⟨n, hn⟩ := List.mem_iff_getElem?.1 hm
  exact ⟨n, List.mem_zipIdx_iff_getElem?.2 (by simpa using hn)⟩

theorem roots_state {li : LexIn} {g : Fsg} (hsil : li.sil < li.nCi) {d r : Nat} (h : r ∈ (buildLexTree li g).roots d) : d < li.nState := by
  obtain ⟨_, hsz, _⟩ := buildFold_inv li g hsil li.nState (Nat.le_refl _)
  have hsz' : (buildLexTree li g).root.size = li.nState := hsz
  rcases Nat.lt_or_ge d li.nState with h1 | h1
  · exact h1
  · unfold LexTree.roots at h
    have hn : (buildLexTree li g).root.getD d none = none := by
      rw [Array.getD_eq_getD_getElem?, Array.getElem?_eq_none (by omega)]; rfl
    rw [hn] at h
    cases hz : (buildLexTree li g).nodes.size with
    | zero => rw [hz] at h; simp [LexTree.chain] at h
    | succ n => rw [hz] at h; simp [LexTree.chain] at h

theorem reach_hops (M : Model) {s d : Nat} {hop : Int} (h : (d, hop) ∈ reach (fsgOf M) s) : hop ∈ hops M s d := by
  unfold hops
  rcases mem_reach.1 h with ⟨rfl, rfl⟩ | ⟨lid, l, hm, rfl, rfl⟩
  · exact List.mem_append.2 (Or.inl (by simp))
  · refine List.mem_append.2 (Or.inr ?_)
    unfold nullFrom at hm
    obtain ⟨lid', hr, hf⟩ := List.mem_filterMap.1 hm
    split at hf
    · rename_i hc
      simp only [Option.some.injEq, Prod.mk.injEq] at hf
      obtain ⟨rfl, rfl⟩ := hf
      obtain ⟨a, ha, hma⟩ := arc_of_lt M (List.mem_range.1 hr)
      rw [fsgOf_link M ha] at hc ⊢
      simp only at hc ⊢
      refine List.mem_filterMap.2 ⟨a, ?_, by simp [hc.2]⟩
      unfold nullArcs
      exact List.mem_filter.2 ⟨hma, by rw [(widInt_neg a).1 hc.1]; rfl⟩
    · cases hf

theorem leaf_bit {lt : LexTree} (h : leafCtxB lt = true) {p : Nat} (hl : (lt.node p).leaf = true) : ∃ c, (lt.node p).ctxt.testBit c = true := by
  have hp : p < lt.nodes.size := by
    rcases Nat.lt_or_ge p lt.nodes.size with h1 | h1
    · exact h1
    · unfold LexTree.node at hl
      rw [Array.getD_eq_getD_getElem?, Array.getElem?_eq_none h1] at hl
      simp at hl
  unfold leafCtxB at h
  have := List.all_eq_true.1 h p (List.mem_range.2 hp)
  rw [hl] at this
  simp only [Bool.not_true, Bool.false_or, bne_iff_ne, ne_eq] at this
  exact Nat.exists_testBit_of_ne_zero this

theorem fillerSingle_spec {M : Model} (h : fillerSingleB M = true) {i : Nat} {a : Arc} {w : Word} (hx : (i, a, w) ∈ wordArcs M)
    (hf : w.filler = true) : w.pron.length = 1 := by
  unfold fillerSingleB at h
  have := List.all_eq_true.1 h (i, a, w) hx
  simp only [hf, Bool.not_true, Bool.false_or, beq_iff_eq] at this
  exact this

/-- **every root-to-leaf path of the lextree the code builds offers its instances in the flat network** -/
theorem spec_of_build {M : Model} {li : LexIn} (tmat : Nat → List Nat) {l : List Inst} (hyp : lexHypsB M li = true)
    (hfill : ar = true → fillerSingleB M = true) (hbitB : leafCtxB (buildLexTree li (fsgOf M)) = true) (hl : allInsts M = some l)
    (d m : Nat) (q : Nat → Nat) (h0 : q 0 ∈ (buildLexTree li (fsgOf M)).roots d)
    (hch : ∀ j, j < m → q (j + 1) ∈ (buildLexTree li (fsgOf M)).children (q j))
    (hleaf : ((buildLexTree li (fsgOf M)).node (q m)).leaf = true) :
    ∃ S, Spec (envOfG ar M li tmat) l.toArray d m q S := by
  obtain ⟨hA, hLk, hTm, hall⟩ := lexHyps_sound (of_decide_eq_true hyp)
  have hd := roots_state hA.silCi h0
  obtain ⟨i, a, w, il, hx, hi, hsrc, hlen, hlink, hk0, hk1⟩ := bridge_paths hA hLk hTm hall hd m q h0 hch hleaf
  have facts := insts_facts hi
  have hget := (wordArcs_spec hx).1
  have v := arcView hA hLk hx
  refine ⟨fun j x => ∃ y ∈ il, x = stamp i a y ∧ y.pos = j ∧ NodeOf ((buildLexTree li (fsgOf M)).node (q j)) y ∧
    (j = 0 → y.isRoot = true), ?_⟩
  have hleafy : ∀ y, NodeOf ((buildLexTree li (fsgOf M)).node (q m)) y → y.isLeaf = true := by
    intro y hn; rw [← hn.2.1]; exact hleaf
  refine
    { mem := ?_, arc := ?_, pos := ?_, src := ?_, dst := ?_, ssid := ?_, tm := ?_, entry := ?_, leaf := ?_, root := ?_, ciR := ?_,
      ciL := ?_, ex0 := ?_, exI := ?_, exL := ?_, rc0 := ?_, anyF := ?_, bit := ?_ }
  · rintro j x ⟨y, hy, rfl, _⟩
    exact stamp_mem hl hx hi hy
  · rintro j x j' x' ⟨y, _, rfl, _⟩ ⟨y', _, rfl, _⟩
    rfl
  · rintro j x ⟨y, _, rfl, hp, _⟩
    exact hp
  · rintro x ⟨y, _, rfl, _⟩
    exact hsrc
  · rintro x ⟨y, _, rfl, _⟩
    show a.dst = ((fsgOf M).link ((buildLexTree li (fsgOf M)).node (q m)).link).dst
    rw [hlink, fsgOf_link M hget]
  · rintro j x ⟨y, _, rfl, _, hn, _⟩
    exact hn.2.2.1.symm
  · rintro j x ⟨y, _, rfl, _, hn, _⟩
    exact hn.2.2.2.1.symm
  · rintro j x ⟨y, _, rfl, _, hn, _⟩
    exact hn.2.2.2.2.1.symm
  · rintro j x ⟨y, _, rfl, _, hn, _⟩
    exact hn.2.1.symm
  · rintro x ⟨y, _, rfl, _, _, hr⟩
    exact hr rfl
  · rintro x ⟨y, _, rfl, _, hn, hr⟩
    exact (hn.2.2.2.2.2.2.1 (Or.inl (hr rfl))).symm
  · rintro x ⟨y, _, rfl, _, hn, _⟩
    exact (hn.2.2.2.2.2.2.1 (Or.inr (hleafy y hn))).symm
  · intro c hc
    rcases Nat.eq_zero_or_pos m with hm | hm
    · have hw1 : w.pron.length = 1 := by rw [hlen, hm]
      rcases hk0 hm with ⟨y, hy, hn, hlc, _⟩ | hcs
      · exact ⟨stamp i a y, ⟨y, hy, rfl, (facts y hy).1 ((facts y hy).2.2 hw1).2, hn, fun _ => ((facts y hy).2.2 hw1).2⟩, Or.inl hlc⟩
      · obtain ⟨y, hy, hn, hlc⟩ := hcs c hc
        exact ⟨stamp i a y, ⟨y, hy, rfl, (facts y hy).1 ((facts y hy).2.2 hw1).2, hn, fun _ => ((facts y hy).2.2 hw1).2⟩, Or.inr hlc⟩
    · obtain ⟨y, hy, hr, hlc, hn⟩ := (hk1 hm).1 c hc
      exact ⟨stamp i a y, ⟨y, hy, rfl, (facts y hy).1 hr, hn, fun _ => hr⟩, Or.inr hlc⟩
  · intro j hj hjm
    obtain ⟨y, hy, _, _, hp, hn⟩ := (hk1 (by omega)).2.1 j hj hjm
    exact ⟨stamp i a y, y, hy, rfl, hp, hn, fun h => absurd h (by omega)⟩
  · intro hm c hc
    obtain ⟨y, hy, hlf, hrc, hn⟩ := (hk1 hm).2.2 c hc
    exact ⟨stamp i a y, ⟨y, hy, rfl, by rw [(facts y hy).2.1 hlf, hlen]; omega, hn, fun h => absurd h (by omega)⟩, Or.inr hrc⟩
  · rintro hm x ⟨y, hy, rfl, _⟩
    exact ((facts y hy).2.2 (by rw [hlen, hm])).1
  · intro hm
    obtain ⟨wid, hwid, hwd, _⟩ := v.wid
    show (envOfG ar M li tmat).anyRc ((fsgOf M).link ((buildLexTree li (fsgOf M)).node (q m)).link).wid.toNat = false
    rw [hlink, hwid]
    show (match M.word wid with | some wd => (ar && wd.filler) || wd.pron.length == 1 | none => false) = false
    rw [hwd]
    have hnf : (ar && w.filler) = false := by
      cases har : ar with
      | false => rfl
      | true =>
        cases hf : w.filler with
        | false => rfl
        | true => have := fillerSingle_spec (hfill har) hx hf; omega
    simp only [hnf, Bool.false_or, beq_eq_false_iff_ne, ne_eq]
    omega
  · intro _
    exact leaf_bit hbitB hleaf

/-- the interface of `Proofs/LexCover.lean`, for the lextree the code builds -/
theorem iface_of_build {M : Model} {li : LexIn} (tmat : Nat → List Nat) {l : List Inst} (hyp : lexHypsB M li = true)
    (hfill : ar = true → fillerSingleB M = true) (hbitB : leafCtxB (buildLexTree li (fsgOf M)) = true) (hl : allInsts M = some l) :
    Iface (envOfG ar M li tmat) M l.toArray :=
  { spec := fun d m q h0 hch hleaf => spec_of_build tmat hyp hfill hbitB hl d m q h0 hch hleaf
    reach := fun _ _ _ h => reach_hops M h
    start := rfl, final := rfl, sil := rfl }

end SSVerif.LexCover
