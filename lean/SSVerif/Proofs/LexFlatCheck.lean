import SSVerif.Proofs.LexFlatSound
/-!
# The decidable predicate `lexHyps M li` (Model/LexFlatHyps.lean) gives every hypothesis of the lextree / flat-network theorems
-/
namespace SSVerif.LexFlat
open SSVerif.Search SSVerif.Hist
open SSVerif.FlatNet (Model Arc Word Inst instsOfArc wordArcs)

theorem lookup_fst_mem {l : List (Nat × Nat)} {k v : Nat} (h : l.lookup k = some v) : (k, v) ∈ l := lookup_mem h

theorem arcWordP_some {M : Model} {li : LexIn} {a : Arc} (h : arcWordP M li a) {wid : Nat} (hw : a.wid = some wid) :
    ∃ wd, M.word wid = some wd ∧ (li.word wid).pron = wd.pron ∧ (li.word wid).fsgFiller = wd.filler ∧ wd.pron ≠ [] ∧
      (∀ p ∈ wd.pron, p < li.nCi) ∧ WordLook M li wid wd := by
  unfold arcWordP at h
  rw [hw] at h
  simp only at h
  cases hm : M.word wid with
  | none => rw [hm] at h; exact absurd h (by simp)
  | some wd => rw [hm] at h; exact ⟨wd, rfl, h⟩

/-- **the checked predicate gives all hypotheses** — with the transition-matrix function `tmOf M li` it constructs -/
theorem lexHyps_sound {M : Model} {li : LexIn} (h : lexHyps M li) :
    Agree M li ∧ LookAgree M li ∧ SsidTmat li (fsgOf M) (tmOf M li) ∧
    (∀ i a w, (i, a, w) ∈ wordArcs M → ∃ insts, instsOfArc M i a w = some insts) := by
  obtain ⟨h1, h2, h3, h4, h5, h6, h7, h8, h9, h10⟩ := h
  refine ⟨⟨h1, h2, ?_, h7, h8⟩, ⟨h3, h4, h5, ?_⟩, ?_, ?_⟩
  · intro a ha wid hw
    obtain ⟨wd, e1, e2, e3, e4, e5, _⟩ := arcWordP_some (h6 a ha) hw
    exact ⟨wd, e1, e2, e3, e4, e5⟩
  · intro a ha wid hw wd hwd
    obtain ⟨wd', e1, _, _, _, _, e6⟩ := arcWordP_some (h6 a ha) hw
    rw [hwd] at e1
    cases e1
    exact e6
  · intro lid hlid hwid p hp1 hp2
    obtain ⟨a, ha, hma⟩ := arc_of_lt M hlid
    rw [fsgOf_link M ha] at hwid hp2 ⊢
    simp only at hwid hp2 ⊢
    cases hw : a.wid with
    | none => have := (widInt_neg a).2 hw; omega
    | some wid =>
      rw [widInt_some hw] at hp2 ⊢
      obtain ⟨k, rfl⟩ : ∃ k, p = k + 1 := ⟨p - 1, by omega⟩
      have hmem : (li.internal (li.word wid).dictWid (k + 1), li.tmat ((li.word wid).pron.getD (k + 1) 0)) ∈ intPairs M li := by
        unfold intPairs
        refine List.mem_flatMap.2 ⟨a, hma, ?_⟩
        rw [hw]
        exact List.mem_map.2 ⟨k, List.mem_range.2 (by omega), rfl⟩
      exact (h10 _ hmem).symm
  · intro i a w hx
    have := h9 (i, a, w) hx
    simp only at this
    cases hi : instsOfArc M i a w with
    | none => rw [hi] at this; cases this
    | some insts => exact ⟨insts, rfl⟩

end SSVerif.LexFlat
