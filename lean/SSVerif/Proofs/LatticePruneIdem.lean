import SSVerif.Proofs.LatticePruneBest
/-! pruning the pruned lattice again with the same beam and unchanged posteriors changes nothing -/
namespace SSVerif.Lattice
open SSVerif.Nfa
namespace Prune

/-! ### a link list sorted by source is the concatenation of its exit lists -/

theorem split_sorted : ∀ (xs : List Link) (n : Nat), (∀ x ∈ xs, x.src ≤ n) →
    xs.Pairwise (fun a b => a.src ≤ b.src) →
    xs = xs.filter (fun x => decide (x.src < n)) ++ xs.filter (fun x => x.src == n) := by
  intro xs n
  induction xs with
  | nil => intro _ _; rfl
  | cons x xs ih =>
    intro hle hs
    obtain ⟨h1, h2⟩ := List.pairwise_cons.1 hs
    have hx := hle x List.mem_cons_self
    by_cases hlt : x.src < n
    · have hne : (x.src == n) = false := by simp; omega
      rw [List.filter_cons_of_pos (by simpa using hlt), List.filter_cons_of_neg (by simp [hne])]
      rw [List.cons_append, ← ih (fun y hy => hle y (List.mem_cons_of_mem _ hy)) h2]
    · have hxn : x.src = n := by omega
      have hall : ∀ y ∈ xs, y.src = n := by
        intro y hy
        have := h1 y hy
        have := hle y (List.mem_cons_of_mem _ hy)
        omega
      have e1 : (x :: xs).filter (fun x => decide (x.src < n)) = [] := by
        apply List.filter_eq_nil_iff.2
        intro y hy
        rcases List.mem_cons.1 hy with rfl | hy
        · simpa using hlt
        · have := hall y hy; simp; omega
      have e2 : (x :: xs).filter (fun x => x.src == n) = x :: xs := by
        apply List.filter_eq_self.2
        intro y hy
        rcases List.mem_cons.1 hy with rfl | hy
        · simpa using hxn
        · simpa using hall y hy
      rw [e1, e2]; rfl

theorem flatMap_congr' {α β : Type} {f g : α → List β} : ∀ (l : List α), (∀ a ∈ l, f a = g a) →
    l.flatMap f = l.flatMap g
  | [], _ => rfl
  | a :: l, h => by
    simp only [List.flatMap_cons]
    rw [h a List.mem_cons_self, flatMap_congr' l (fun b hb => h b (List.mem_cons_of_mem _ hb))]

theorem grouped : ∀ (n : Nat) (xs : List Link), (∀ x ∈ xs, x.src < n) →
    xs.Pairwise (fun a b => a.src ≤ b.src) →
    (List.range n).flatMap (fun i => xs.filter (fun x => x.src == i)) = xs := by
  intro n
  induction n with
  | zero =>
    intro xs h _
    cases xs with
    | nil => rfl
    | cons x xs => exact absurd (h x List.mem_cons_self) (by omega)
  | succ n ih =>
    intro xs h hs
    rw [List.range_succ, List.flatMap_append]
    have hsplit := split_sorted xs n (fun x hx => by have := h x hx; omega) hs
    have e1 : (List.range n).flatMap (fun i => xs.filter (fun x => x.src == i)) =
        (List.range n).flatMap (fun i => (xs.filter (fun x => decide (x.src < n))).filter (fun x => x.src == i)) := by
      apply flatMap_congr'
      intro i hi
      have hin := List.mem_range.1 hi
      rw [List.filter_filter]
      apply List.filter_congr
      intro x _
      by_cases e : x.src = i
      · simp [e, hin]
      · simp [e]
    rw [e1, ih _ (fun x hx => by simpa using (List.mem_filter.1 hx).2) (hs.sublist List.filter_sublist)]
    simp only [List.flatMap_cons, List.flatMap_nil, List.append_nil]
    exact hsplit.symm

theorem idxOf_range {n v : Nat} (h : v < n) : (List.range n).idxOf v = v := by
  have h' : v < (List.range n).length := by simpa using h
  have := (List.nodup_range (n := n)).idxOf_getElem v h'
  rwa [List.getElem_range] at this

theorem nodes_range (L : Lat) : (List.range L.n).map L.node = L.nodes := by
  apply List.ext_getElem
  · simp [Lat.n]
  · intro i h1 h2
    simp [Lat.node, List.getD_eq_getElem?_getD, List.getElem?_eq_getElem h2]

theorem idxOf_mono {l : List Nat} (h : l.Nodup) : l.Pairwise (fun a b => l.idxOf a ≤ l.idxOf b) := by
  rw [List.pairwise_iff_getElem]
  intro i j hi hj hij
  rw [h.idxOf_getElem i hi, h.idxOf_getElem j hj]
  omega

variable {G : Nfa} {L : Lat} {post : Link → Int} {beam : Int}

local notation "ord" => keepOrder L post beam
local notation "LP" => prunedLat L post beam

theorem links_sorted : (LP).links.Pairwise (fun a b => a.src ≤ b.src) := by
  show ((keptLinks L post beam).map (renumLink (ord))).Pairwise _
  rw [List.pairwise_map]
  unfold keptLinks
  simp only
  rw [List.pairwise_flatMap]
  constructor
  · intro v _
    apply List.pairwise_of_forall_mem_list
    intro a ha b hb
    have h1 := (mem_exitsCut.1 (List.mem_filter.1 ha).1).2
    have h2 := (mem_exitsCut.1 (List.mem_filter.1 hb).1).2
    rw [link_src, link_src, h1, h2]
    exact Nat.le_refl _
  · refine (idxOf_mono (ord_nodup (L := L) (post := post) (beam := beam))).imp ?_
    intro v w hvw x hx y hy
    have h1 := (mem_exitsCut.1 (List.mem_filter.1 hx).1).2
    have h2 := (mem_exitsCut.1 (List.mem_filter.1 hy).1).2
    rw [link_src, link_src, h1, h2]
    exact hvw

theorem path_rank_dag {L : Lat} {rank : Nat → Nat} (dg : DagOK L rank) {u v : Nat} {p : List Link}
    (h : Path L u p v) : rank u + p.length ≤ rank v := by
  induction h with
  | nil => simp
  | cons hm hs _ ih =>
    have := dg.rank_lt _ hm
    subst hs
    simp only [List.length_cons]; omega

theorem Lat.ext' {A B : Lat} (h1 : A.nframes = B.nframes) (h2 : A.nodes = B.nodes) (h3 : A.links = B.links)
    (h4 : A.start = B.start) (h5 : A.final = B.final) : A = B := by
  cases A; cases B; simp_all

variable {post' : Link → Int}

theorem vis_mem' (ok : LatticeOK G L) (l : Link) : l ∈ traverseEdges (LP) ↔ l ∈ (LP).links :=
  (traverse_topological (dagOK (post := post) (beam := beam) ok)).1.mem_iff

theorem cut_none (ok : LatticeOK G L) (h : ∀ l' ∈ (LP).links, beam ≤ post' l') :
    cutB (traverseEdges (LP)) post' beam = fun _ => false := by
  funext l
  unfold cutB
  by_cases hl : l ∈ traverseEdges (LP)
  · have := h l ((vis_mem' ok l).1 hl)
    have e : decide (post' l < beam) = false := by simpa using this
    rw [e, Bool.and_false]
  · have e : (traverseEdges (LP)).contains l = false := by simpa using hl
    rw [e, Bool.false_and]

theorem survivors_eq (ok : LatticeOK G L) (h : ∀ l' ∈ (LP).links, beam ≤ post' l') :
    survivors (LP) post' beam = (LP).links := by
  unfold survivors
  rw [cut_none ok h]
  exact List.filter_eq_self.2 (fun _ _ => rfl)

theorem nPruned_zero (ok : LatticeOK G L) (h : ∀ l' ∈ (LP).links, beam ≤ post' l') :
    nPruned (LP) post' beam = 0 := by
  unfold nPruned
  apply List.length_eq_zero_iff.2
  apply List.filter_eq_nil_iff.2
  intro l hl
  have := h l ((vis_mem' ok l).1 hl)
  simpa using this

theorem rank_le_idx (ok : LatticeOK G L) {i : Nat} (hi : i < (LP).n) : (LP).rank i ≤ L.nframes + 1 := by
  obtain ⟨v, hv, rfl⟩ := exists_of_lt hi
  rw [rank_idx ok hv]
  exact rank_le ok (lt_of_ord ok hv)

theorem keep_all (ok : LatticeOK G L) {i : Nat} (hi : i < (LP).n) : keepB (LP) (LP).links i = true := by
  by_cases hP : Survives L post beam
  · obtain ⟨p, q, hp, hq⟩ := all_on_path ok hP hi
    have dg := dagOK (post := post) (beam := beam) ok
    have r1 := path_rank_dag dg hp
    have r2 := path_rank_dag dg hq
    have b1 := rank_le_idx ok hi
    have b2 := rank_le_idx (post := post) (beam := beam) ok
      (show (LP).final < (LP).n from (endpoints ok).2.1)
    have hp' : Path ((LP).withLinks (LP).links) (LP).start p i := hp
    have hq' : Path ((LP).withLinks (LP).links) i q (LP).final := hq
    have f1 : i ∈ fromStart (LP) (LP).links :=
      reachGo_complete (sweepFuel (LP)) [(LP).start] p.length (LP).start i (List.mem_singleton.2 rfl)
        (chain_of_path_fwd hp') (by show p.length ≤ L.nframes + 2; omega)
    have hb : ∀ l ∈ (LP).links, stale (LP) l.src = false := by
      intro l hl
      unfold stale staleV
      have : (traverseEdges (LP)).any (fun x => x.src == l.src) = true :=
        List.any_eq_true.2 ⟨l, (vis_mem' ok l).2 hl, by simp⟩
      rw [this]; rfl
    have f2 : i ∈ toEnd (LP) (LP).links :=
      reachGo_complete (sweepFuel (LP)) [(LP).final] q.length (LP).final i (List.mem_singleton.2 rfl)
        (chain_of_path_bwd hb hq') (by show q.length ≤ L.nframes + 2; omega)
    unfold keepB
    rw [List.contains_iff_mem.2 f1, List.contains_iff_mem.2 f2]
    simp
  · obtain ⟨_, h2⟩ := all_cut ok hP
    obtain ⟨v, hv, rfl⟩ := exists_of_lt hi
    have hv' : v ∈ (List.range L.n).filter (fun v => v == L.start || v == L.final) := by rw [← h2]; exact hv
    have h3 := (List.mem_filter.1 hv').2
    rw [Bool.or_eq_true, beq_iff_eq, beq_iff_eq] at h3
    unfold keepB
    rcases h3 with h3 | h3
    · rw [(idx_eq_start ok hv).2 h3]; simp
    · rw [(idx_eq_final ok hv).2 h3]; simp

theorem order_all (ok : LatticeOK G L) (h : ∀ l' ∈ (LP).links, beam ≤ post' l') :
    keepOrder (LP) post' beam = List.range (LP).n := by
  unfold keepOrder
  rw [survivors_eq ok h]
  exact List.filter_eq_self.2 (fun i hi => keep_all ok (List.mem_range.1 hi))

theorem exitsCut_eq (ok : LatticeOK G L) (h : ∀ l' ∈ (LP).links, beam ≤ post' l') (v : Nat) :
    exitsCut (LP) post' beam v = exits (LP) v := by
  unfold exitsCut
  simp only
  rw [cut_none ok h]
  have e1 : (exits (LP) v).filter (fun _ => false) = [] := List.filter_eq_nil_iff.2 (fun _ _ => by simp)
  have e2 : (exits (LP) v).filter (fun l => !(fun _ => false) l) = exits (LP) v :=
    List.filter_eq_self.2 (fun _ _ => rfl)
  rw [e1, e2]
  rfl

theorem keptLinks_eq (ok : LatticeOK G L) (h : ∀ l' ∈ (LP).links, beam ≤ post' l') :
    keptLinks (LP) post' beam = (LP).links := by
  unfold keptLinks
  simp only
  rw [order_all ok h, survivors_eq ok h]
  have e : ∀ v ∈ List.range (LP).n,
      ((exitsCut (LP) post' beam v).filter fun l => keepB (LP) (LP).links l.dst) =
        (LP).links.filter (fun x => x.src == v) := by
    intro v _
    rw [exitsCut_eq ok h]
    apply List.filter_eq_self.2
    intro l hl
    exact keep_all ok ((endpoints ok).2.2 l (mem_exits.1 hl).1).2
  rw [flatMap_congr' _ e]
  exact grouped (LP).n (LP).links (fun x hx => ((endpoints ok).2.2 x hx).1) links_sorted

theorem prunedLat_eq_self (M : Lat) (hE : EndpointsOK M) (hO : keepOrder M post' beam = List.range M.n)
    (hK : keptLinks M post' beam = M.links) : prunedLat M post' beam = M := by
  apply Lat.ext'
  · rfl
  · show (keepOrder M post' beam).map M.node = M.nodes
    rw [hO]; exact nodes_range M
  · show (keptLinks M post' beam).map (renumLink (keepOrder M post' beam)) = M.links
    rw [hO, hK]
    have : ∀ l ∈ M.links, renumLink (List.range M.n) l = id l := by
      intro l hl
      have he := hE.2.2 l hl
      cases l
      simp only [renumLink, renumNode, id]
      rw [idxOf_range he.1, idxOf_range he.2]
    rw [List.map_congr_left this, List.map_id]
  · show (keepOrder M post' beam).idxOf M.start = M.start
    rw [hO]; exact idxOf_range hE.1
  · show (keepOrder M post' beam).idxOf M.final = M.final
    rw [hO]; exact idxOf_range hE.2.1

/-- pruning again with the same beam and posteriors that are not below it changes nothing and returns 0 -/
theorem idempotent (ok : LatticeOK G L) (h : ∀ l' ∈ (LP).links, beam ≤ post' l') :
    posteriorPrune (LP) post' beam = (LP, 0) := by
  unfold posteriorPrune
  rw [nPruned_zero ok h, prunedLat_eq_self (LP) (endpoints ok) (order_all ok h) (keptLinks_eq ok h)]

end Prune
end SSVerif.Lattice
