import SSVerif.Proofs.JsgfDesugar
/-!
The mirror of `expand_rule` (`expandTop`) refuses exactly the tops that `representable` refuses.
-/
namespace SSVerif.Jsgf

theorem atomsOf_scaleFirst (c : Rat) : ∀ alt : List WAtom, atomsOf (scaleFirst c alt) = atomsOf alt
  | [] => rfl
  | _ :: _ => by simp [scaleFirst, atomsOf]

theorem altsOf_normalise (rl : Rule) : altsOf (normaliseRule rl).alts = altsOf rl.alts := by
  simp only [normaliseRule, altsOf, List.map_map]
  apply List.map_congr_left
  intro alt _
  exact atomsOf_scaleFirst _ alt

def RhsRes.ok : RhsRes → Bool
  | .err => false
  | _ => true

theorem xAtoms_ok {T : Table} {recur : Nat → RName → XSt → Option XSt} {recurB : Nat → RName → Bool}
    (H : ∀ nt s st, (recur nt s st).isSome = recurB nt s) (stack : List RName) (ntail : Nat) :
    ∀ (alt : List WAtom) (last : Nat) (st : XSt),
      (xAtoms T recur stack ntail alt last st).1.ok = okAtoms T true recurB stack ntail (atomsOf alt)
  | [], last, st => by simp [xAtoms, okAtoms, atomsOf, RhsRes.ok]
  | a :: rest, last, st => by
    have ih := xAtoms_ok (T := T) H stack ntail rest
    cases ha : a.atom with
    | tok w =>
      simp only [xAtoms, ha, atomsOf, List.map_cons, okAtoms]
      exact ih _ _
    | null =>
      simp only [xAtoms, ha, atomsOf, List.map_cons, okAtoms]
      exact ih _ _
    | void =>
      simp only [xAtoms, ha, atomsOf, List.map_cons, okAtoms]
      exact ih _ _
    | ref s =>
      simp only [xAtoms, ha, atomsOf, List.map_cons, okAtoms]
      have e1 : (List.map (fun x : WAtom => x.atom) rest).isEmpty = rest.isEmpty := by cases rest <;> rfl
      rw [e1]
      cases hd : T.defined s with
      | false => simp [RhsRes.ok]
      | true =>
        simp only [Bool.not_true, Bool.false_eq_true, if_false]
        cases hs : stack.contains s with
        | true =>
          simp only [if_true, Bool.false_or]
          cases hc : (rest.isEmpty && decide (List.idxOf s stack ≤ ntail)) with
          | true => simp [RhsRes.ok]
          | false => simp [RhsRes.ok]
        | false =>
          simp only [Bool.false_eq_true, if_false]
          have hr := H (if rest.isEmpty then ntail + 1 else 0) s st
          cases hrec : recur (if rest.isEmpty = true then ntail + 1 else 0) s st with
          | none =>
            rw [hrec] at hr
            simp only [Option.isSome_none] at hr
            rw [← hr]
            simp [RhsRes.ok]
          | some st' =>
            rw [hrec] at hr
            simp only [Option.isSome_some] at hr
            rw [← hr, Bool.true_and]
            exact ih _ _

theorem xAlts_ok {T : Table} {recur : Nat → RName → XSt → Option XSt} {recurB : Nat → RName → Bool}
    (H : ∀ nt s st, (recur nt s st).isSome = recurB nt s) (stack : List RName) (ntail entry exit : Nat) :
    ∀ (alts : List (List WAtom)) (st : XSt),
      (xAlts T recur stack ntail entry exit alts st).isSome =
        (altsOf alts).all fun alt => okAtoms T true recurB stack ntail alt
  | [], st => by simp [xAlts, altsOf]
  | alt :: rest, st => by
    have h1 := xAtoms_ok (T := T) H stack ntail alt entry st
    have ih := xAlts_ok (T := T) H stack ntail entry exit rest
    simp only [xAlts, altsOf, List.map_cons, List.all_cons]
    rw [← h1]
    generalize xAtoms T recur stack ntail alt entry st = r
    obtain ⟨res, st'⟩ := r
    cases res with
    | err => simp [RhsRes.ok]
    | recursion => simp only [RhsRes.ok, Bool.true_and]; exact ih _
    | last n => simp only [RhsRes.ok, Bool.true_and]; exact ih _

theorem okAtoms_congr (T : Table) (f : Nat → RName → Bool) (g : Nat → RName → Bool) (stack : List RName) (ntail : Nat) :
    ∀ alt : List Atom, (∀ nt s, T.defined s = true → f nt s = g nt s) →
      okAtoms T true f stack ntail alt = okAtoms T true g stack ntail alt := by
  intro alt
  induction alt with
  | nil => intro _; rfl
  | cons a rest ih =>
    intro hfg
    cases a with
    | ref s =>
      simp only [okAtoms]
      by_cases hd : T.defined s = true
      · simp only [hd, Bool.not_true, Bool.false_eq_true, if_false]
        rw [hfg _ s hd, ih hfg]
      · simp only [Bool.not_eq_true] at hd
        simp [hd]
    | tok w => simp only [okAtoms]; exact ih hfg
    | null => simp only [okAtoms]; exact ih hfg
    | void => simp only [okAtoms]; exact ih hfg

theorem xRule_ok (T : Table) : ∀ (fuel : Nat) (stack : List RName) (ntail : Nat) (r : RName) (st : XSt),
    T.defined r = true → (xRule T fuel stack ntail r st).isSome = okRule T true fuel stack ntail r
  | 0, _, _, _, _, _ => by simp [xRule, okRule]
  | fuel + 1, stack, ntail, r, st, hd => by
    unfold Table.defined at hd
    cases hf : T.find r with
    | none => simp [hf] at hd
    | some rl =>
      simp only [xRule, okRule, hf]
      have H : ∀ nt s st', (xRule T fuel (r :: stack) nt s st').isSome =
          (T.defined s && okRule T true fuel (r :: stack) nt s) := by
        intro nt s st'
        by_cases hs : T.defined s = true
        · rw [xRule_ok T fuel (r :: stack) nt s st' hs, hs, Bool.true_and]
        · simp only [Bool.not_eq_true] at hs
          rw [hs, Bool.false_and]
          cases fuel with
          | zero => simp [xRule]
          | succ f =>
            unfold Table.defined at hs
            cases hf2 : T.find s with
            | none => simp [xRule, hf2]
            | some x => simp [hf2] at hs
      rw [xAlts_ok H]
      have e1 : T.rules r = altsOf rl.alts := by
        unfold Table.rules; rw [hf]; rfl
      rw [e1, altsOf_normalise]
      -- the two recursion functions agree wherever `okAtoms` consults them (only on defined rules)
      congr 1
      funext alt
      exact okAtoms_congr T _ _ (r :: stack) ntail alt (by intro nt s hs; simp [hs])

/-- the mirror of `expand_rule` refuses exactly what `representable` refuses -/
theorem expandTop_isSome (T : Table) (top : RName) : (expandTop T top).isSome = representable T top := by
  unfold expandTop representable
  cases hd : T.defined top with
  | false => simp
  | true =>
    simp only [if_true, Bool.true_and]
    exact xRule_ok T _ [] 0 top {} hd

end SSVerif.Jsgf
