import SSVerif.Model.TextJson
import SSVerif.Proofs.TextIn
/-! # the JSON tokeniser only produces tokens inside the text; typed assignment keeps types (C10) -/
namespace SSVerif.TextIn

/-- a token as far as the scan got (`pos`): it starts at or before `pos`, and when closed its end
is between its start and `pos` -/
def TokOk (pos : Nat) (t : Tok) : Prop := t.start ≤ pos ∧ ∀ e, t.stop = some e → t.start ≤ e ∧ e ≤ pos

def AllOk (pos : Nat) (toks : Array Tok) : Prop := ∀ i (h : i < toks.size), TokOk pos (toks[i]'h)

theorem TokOk.mono {p p' : Nat} {t : Tok} (h : p ≤ p') (ht : TokOk p t) : TokOk p' t :=
  ⟨Nat.le_trans ht.1 h, fun e he => ⟨(ht.2 e he).1, Nat.le_trans (ht.2 e he).2 h⟩⟩

theorem AllOk.mono {p p' : Nat} {toks : Array Tok} (h : p ≤ p') (ha : AllOk p toks) : AllOk p' toks :=
  fun i hi => (ha i hi).mono h

theorem AllOk.push {p : Nat} {toks : Array Tok} {t : Tok} (ha : AllOk p toks) (ht : TokOk p t) :
    AllOk p (toks.push t) := by
  intro i hi
  rw [Array.getElem_push]
  split
  · exact ha i _
  · exact ht

theorem AllOk.set {p : Nat} {toks : Array Tok} {t : Tok} (i : Nat) (ha : AllOk p toks) (ht : TokOk p t) :
    AllOk p (toks.set! i t) := by
  intro j hj
  have hj' : j < toks.size := by simpa using hj
  simp only [Array.set!_eq_setIfInBounds, Array.getElem_setIfInBounds hj']
  split
  · exact ht
  · exact ha j hj'

theorem jsmnLoop_ok (js : Buf) (pos : Nat) (toks : Array Tok) (sup : Option Nat) (out : Array Tok) :
    jsmnLoop js pos toks sup = .ok out → pos ≤ js.size → AllOk pos toks →
    ∀ i (h : i < out.size), ∃ e, (out[i]'h).stop = some e ∧ (out[i]'h).start ≤ e ∧ e ≤ js.size := by
  fun_induction jsmnLoop js pos toks sup with
  | case1 pos toks sup h c hc t ih =>
    intro hr hle hok
    exact ih hr (by omega) ((hok.mono (Nat.le_succ pos)).push ⟨Nat.le_succ pos, by intro e he; cases he⟩)
  | case2 => intro hr; cases hr
  | case3 => intro hr; cases hr
  | case4 => intro hr; cases hr
  | case5 pos toks sup h c hc1 hc2 ty i hi t ht hty toks' ih =>
    intro hr hle hok
    refine ih hr (by omega) ((hok.mono (Nat.le_succ pos)).set i ?_)
    have hi' : i < toks.size := by
      rcases Nat.lt_or_ge i toks.size with hlt | hge
      · exact hlt
      · rw [Array.getElem?_eq_none hge] at ht; cases ht
    have : toks[i]'hi' = t := by
      rw [Array.getElem?_eq_getElem hi'] at ht; injection ht
    have hti := hok i hi'
    rw [this] at hti
    exact ⟨Nat.le_trans hti.1 (Nat.le_succ pos), by intro e he; injection he with he; subst he; exact ⟨Nat.le_trans hti.1 (Nat.le_succ pos), Nat.le_refl _⟩⟩
  | case6 pos toks sup h c hc1 hc2 hc3 q hq ih =>
    intro hr hle hok
    obtain ⟨q1, q2⟩ := scanStr_closed js _ _ hq
    refine ih hr (by omega) ((hok.mono (by omega)).push ⟨by simp only; omega, ?_⟩)
    intro e he; injection he with he; subst he
    exact ⟨q1, Nat.le_succ _⟩
  | case7 => intro hr; cases hr
  | case8 => intro hr; cases hr
  | case9 pos toks sup h c hc1 hc2 hc3 hws ih =>
    intro hr hle hok
    exact ih hr (by omega) (hok.mono (Nat.le_succ pos))
  | case10 pos toks sup h c hc1 hc2 hc3 hws hc4 ih =>
    intro hr hle hok
    exact ih hr (by omega) (hok.mono (Nat.le_succ pos))
  | case11 pos toks sup h c hc1 hc2 hc3 hws hc4 hc5 sup' ih =>
    intro hr hle hok
    exact ih hr (by omega) (hok.mono (Nat.le_succ pos))
  | case12 => intro hr; cases hr
  | case13 => intro hr; cases hr
  | case14 pos toks sup h c hc1 hc2 hc3 hws hc4 hc5 hbad q hq ih =>
    intro hr hle hok
    have hge := scanPrim_ge js _ _ hq
    have hqle : q ≤ js.size := by
      -- scanPrim never runs beyond the end
      have : ∀ p q, scanPrim js p = some q → p ≤ js.size → q ≤ js.size := by
        intro p
        fun_induction scanPrim js p with
        | case1 p hp c hc => intro q h _; injection h with h; omega
        | case2 p hp c hc hbad => intro q h; cases h
        | case3 p hp c hc hbad ih => intro q h _; exact ih q h (by omega)
        | case4 p hp => intro q h hle; injection h with h; omega
      exact this _ _ hq (by omega)
    refine ih hr hqle ((hok.mono (by omega)).push ⟨by simp only; omega, ?_⟩)
    intro e he; injection he with he; subst he
    exact ⟨by simp only; omega, Nat.le_refl _⟩
  | case15 => intro hr; cases hr
  | case16 pos toks sup hp hany =>
    intro hr hle hok i hi
    injection hr with hr; subst hr
    have hany' : ∀ (x : Nat) (x_1 : x < toks.size), ¬ (toks[x]'x_1).stop = none := by simpa using hany
    cases hs : (toks[i]'hi).stop with
    | none => exact absurd hs (hany' i hi)
    | some e =>
      have := (hok i hi).2 e hs
      exact ⟨e, rfl, this.1, by omega⟩

/-- **every token of an accepted JSON text is closed and lies inside the text**: the copies
`config_parse_json` makes (`json + tokens[i].start`, length `end - start`) stay inside the string -/
theorem jsmnParse_tokens_in_text (js : Buf) (toks : Array Tok) (h : jsmnParse js = .ok toks) :
    0 < toks.size ∧
    ∀ i (hi : i < toks.size), ∃ e, (toks[i]'hi).stop = some e ∧ (toks[i]'hi).start ≤ e ∧ e ≤ js.size := by
  unfold jsmnParse at h
  split at h
  · cases h
  · rename_i out hout
    split at h
    · cases h
    · rename_i hz
      injection h with h; subst h
      refine ⟨by
        rcases Nat.eq_zero_or_pos out.size with h0 | h0
        · simp [h0] at hz
        · exact h0, ?_⟩
      exact jsmnLoop_ok js 0 #[] none _ hout (Nat.zero_le _) (by intro i hi; simp at hi)

/-! ## typed assignment -/

/-- the value has the constructor of the declared type; integers are inside the range of `long` -/
def TypeOk (ty : Nat) : CfgVal → Prop
  | .int v => (ty = 2 ∨ ty = 3) ∧ longMin ≤ v ∧ v ≤ longMax
  | .flt _ => ty = 4 ∨ ty = 5
  | .bool _ => ty = 16 ∨ ty = 17
  | .str _ => ¬ (ty = 2 ∨ ty = 3 ∨ ty = 4 ∨ ty = 5 ∨ ty = 16 ∨ ty = 17)

theorem anytypeFromStr_typeOk (ty : Nat) (s : List UInt8) (v : CfgVal) (h : anytypeFromStr ty s = some v) :
    TypeOk ty v := by
  unfold anytypeFromStr at h
  split at h
  · cases h
  · split at h
    · rename_i hty
      cases hs : strtol10 s with
      | none => rw [hs] at h; cases h
      | some x =>
        rw [hs] at h; injection h with h; subst h
        have := strtol10_range s x hs
        simp at hty
        exact ⟨hty, this⟩
    · split at h
      · rename_i hty; injection h with h; subst h; simp at hty; exact hty
      · split at h
        · rename_i hty
          simp at hty
          split at h
          · split at h
            · injection h with h; subst h; exact hty
            · split at h
              · injection h with h; subst h; exact hty
              · cases h
          · cases h
        · split at h
          · rename_i h1 h2 h3 hty
            injection h with h; subst h
            simp at h1 h2 h3 hty
            show ¬ _
            omega
          · cases h

theorem zeroVal_typeOk (ty : Nat) : TypeOk ty (zeroVal ty) := by
  unfold zeroVal
  split
  · rename_i h; simp at h; exact ⟨h, by decide, by decide⟩
  · split
    · rename_i h; simp at h; exact h
    · split
      · rename_i h; simp at h; exact h
      · rename_i h1 h2 h3
        simp at h1 h2 h3
        show ¬ _
        omega

def CfgOk (c : Config) : Prop := ∀ x ∈ c, TypeOk x.1.ty x.2

theorem configInit_ok (defs : List CfgDef) : CfgOk (configInit defs) := by
  intro x hx
  unfold configInit at hx
  obtain ⟨d, _, hd⟩ := List.mem_filterMap.mp hx
  split at hd
  · injection hd with hd; subst hd; exact zeroVal_typeOk _
  · rename_i s _
    cases hv : anytypeFromStr d.ty s with
    | none => rw [hv] at hd; cases hd
    | some v => rw [hv] at hd; injection hd with hd; subst hd; exact anytypeFromStr_typeOk _ _ _ hv

theorem configSetStr_ok (c c' : Config) (name val : List UInt8) (hc : CfgOk c) (h : configSetStr c name val = some c') :
    CfgOk c' ∧ c'.map (·.1.name) = c.map (·.1.name) := by
  unfold configSetStr at h
  split at h
  · cases h
  · rename_i i hi
    split at h
    · cases h
    · rename_i d v hd
      split at h
      · cases h
      · rename_i v' hv
        injection h with h; subst h
        constructor
        · intro x hx
          rcases List.mem_or_eq_of_mem_set hx with hx | rfl
          · exact hc x hx
          · exact anytypeFromStr_typeOk _ _ _ hv
        · apply List.ext_getElem
          · simp
          · intro j h1 h2
            simp only [List.getElem_map, List.getElem_set]
            split
            · rename_i hij
              subst hij
              have hj : i < c.length := by simpa using h2
              rw [List.getElem?_eq_getElem hj] at hd
              injection hd with hd
              rw [hd]
            · rfl

theorem configWalk_ok_aux (js : Buf) (n : Nat) : ∀ (toks : List Tok), toks.length ≤ n → ∀ (c c' : Config), CfgOk c →
    configWalk js toks c = .ok c' → CfgOk c' ∧ c'.map (·.1.name) = c.map (·.1.name) := by
  induction n with
  | zero =>
    intro toks hl c c' hc h
    have : toks = [] := List.eq_nil_of_length_eq_zero (by omega)
    subst this
    simp [configWalk] at h; subst h; exact ⟨hc, rfl⟩
  | succ n ih =>
    intro toks hl c c' hc h
    match toks, hl, h with
    | [], _, h => simp [configWalk] at h; subst h; exact ⟨hc, rfl⟩
    | [k], _, h =>
      unfold configWalk at h
      split at h
      · cases h
      · cases h
    | k :: v :: rest, hl, h =>
      unfold configWalk at h
      split at h
      · cases h
      · simp only at h
        split at h
        · cases h
        · rename_i c1 hset
          obtain ⟨a, b⟩ := configSetStr_ok _ _ _ _ hc hset
          obtain ⟨a', b'⟩ := ih rest (by simp at hl; omega) c1 c' a h
          exact ⟨a', by rw [b', b]⟩

theorem configWalk_ok (js : Buf) (toks : List Tok) (c c' : Config) (hc : CfgOk c) (h : configWalk js toks c = .ok c') :
    CfgOk c' ∧ c'.map (·.1.name) = c.map (·.1.name) := by
  induction toks generalizing c with
  | nil => simp [configWalk] at h; subst h; exact ⟨hc, rfl⟩
  | cons k rest ih0 =>
    -- two tokens are consumed per step: strong induction on the list length instead
    exact configWalk_ok_aux js (k :: rest).length (k :: rest) (Nat.le_refl _) c c' hc h

/-- an accepted JSON configuration has exactly the declared parameters, in the declared order,
each with a value of its declared type (integers inside `long`) -/
theorem configParseJson_wf (defs : List CfgDef) (json : List UInt8) (c : Config)
    (h : configParseJson defs json = .ok c) :
    CfgOk c ∧ c.map (·.1.name) = (configInit defs).map (·.1.name) := by
  unfold configParseJson at h
  simp only at h
  split at h
  · cases h
  · exact configWalk_ok _ _ _ _ (configInit_ok defs) h

end SSVerif.TextIn
