import SSVerif.Model.DictLoad
import SSVerif.Props.C16
/-!
# Lemmas for the bridge C10 → C16 (`Model/DictLoad.lean`)
-/
namespace SSVerif.DictLoad
open SSVerif.HashTable (Key)
open SSVerif.Dict
open SSVerif.TextIn (Buf Span allLines lineWords slice isDictComment)

/-- `d'` extends `d`: every entry keeps index, spelling, pronunciation, base id; every known spelling
keeps its id; same case mode -/
def Ext (d d' : Dict) : Prop :=
  (∀ (i : Nat) (e : Entry), d.words[i]? = some e →
    ∃ e', d'.words[i]? = some e' ∧ e'.word = e.word ∧ e'.pron = e.pron ∧ e'.basewid = e.basewid) ∧
  (∀ (k : Key) (i : Nat), d.wordid k = some i → d'.wordid k = some i) ∧
  d'.nocase = d.nocase ∧ d.words.length ≤ d'.words.length

theorem Ext.refl (d : Dict) : Ext d d :=
  ⟨fun _ e h => ⟨e, h, rfl, rfl, rfl⟩, fun _ _ h => h, rfl, Nat.le_refl _⟩

theorem Ext.trans {a b c : Dict} (h1 : Ext a b) (h2 : Ext b c) : Ext a c := by
  refine ⟨?_, fun k i h => h2.2.1 k i (h1.2.1 k i h), h2.2.2.1.trans h1.2.2.1, Nat.le_trans h1.2.2.2 h2.2.2.2⟩
  intro i e h
  obtain ⟨e', he', a1, a2, a3⟩ := h1.1 i e h
  obtain ⟨e'', he'', b1, b2, b3⟩ := h2.1 i e' he'
  exact ⟨e'', he'', b1.trans a1, b2.trans a2, b3.trans a3⟩

theorem Ext.of_eq {d d' : Dict} (hw : d'.words = d.words) (hh : d'.ht = d.ht) (hn : d'.nocase = d.nocase) :
    Ext d d' := by
  refine ⟨fun i e h => ⟨e, by rw [hw]; exact h, rfl, rfl, rfl⟩, fun k i h => ?_, hn, by rw [hw]; exact Nat.le_refl _⟩
  unfold Dict.wordid at h ⊢
  rw [hh, hn]; exact h

theorem dictAddWord_length (d : Dict) (h : WF d) (w : Key) (p : List Nat) :
    d.words.length ≤ (dictAddWord d w p).1.words.length := by
  rcases dictAddWord_spec h w p with ⟨_, r⟩ | ⟨_, _, r⟩ | ⟨_, _, r⟩ | ⟨_, _, bw, _, r⟩
  · rw [r]; exact Nat.le_refl _
  · rw [r]; simp
  · rw [r]; simp
  · have := (C16_add_then_lookup h r).2.1
    rw [r]
    simp only
    omega

theorem ext_dictAddWord {d : Dict} (h : WF d) (w : Key) (p : List Nat) : Ext d (dictAddWord d w p).1 :=
  ⟨fun _ _ he => dictAddWord_old_entry h w p he, fun _ _ hk => dictAddWord_old_id h w p hk,
   (dictAddWord_fields d w p).1, dictAddWord_length d h w p⟩

/-- word `w` with phones `p` is found at id `i` -/
def Found (d : Dict) (i : Nat) (w : Key) (p : List Nat) : Prop :=
  d.wordid w = some i ∧ ∃ e, d.words[i]? = some e ∧ e.word = w ∧ e.pron = p

theorem Found.ext {d d' : Dict} (hx : Ext d d') {i : Nat} {w : Key} {p : List Nat} (h : Found d i w p) :
    Found d' i w p := by
  obtain ⟨h1, e, he, a1, a2⟩ := h
  obtain ⟨e', he', b1, b2, _⟩ := hx.1 i e he
  exact ⟨hx.2.1 w i h1, e', he', b1.trans a1, b2.trans a2⟩

theorem phoneIdOf_lt {m : Mdef} {nocase : Bool} {k : Key} {i : Nat} (h : phoneIdOf m nocase k = some i) :
    i < m.ciphones.length := by
  unfold phoneIdOf at h
  split at h
  · unfold Mdef.ciphoneIdNocase at h
    simp only at h
    split at h
    · cases h; assumption
    · cases h
  · unfold Mdef.ciphoneId at h
    simp only at h
    split at h
    · cases h; assumption
    · cases h

theorem mapIds_lt {m : Mdef} {nocase : Bool} : ∀ {toks : List Key} {ids : List Nat},
    mapIds (phoneIdOf m nocase) toks = some ids → ∀ x ∈ ids, x < m.ciphones.length
  | [], ids, h => by
    simp only [mapIds] at h; cases h; simp
  | t :: ts, ids, h => by
    simp only [mapIds] at h
    split at h
    · cases h
    · next i hi =>
      cases hr : mapIds (phoneIdOf m nocase) ts with
      | none => rw [hr] at h; cases h
      | some r =>
        rw [hr] at h
        cases h
        intro x hx
        rcases List.mem_cons.1 hx with rfl | hx
        · exact phoneIdOf_lt hi
        · exact mapIds_lt hr x hx

/-- what one line does, in terms of `dict_add_word` -/
theorem loadLineR_cases (m : Mdef) (buf : Buf) (d : Dict) (l : Span buf.size) :
    ((loadLineR m buf d l).1 = d ∧
      ((loadLineR m buf d l).2 = .comment ∨ (loadLineR m buf d l).2 = .blank ∨
       (loadLineR m buf d l).2 = .noPron ∨ (loadLineR m buf d l).2 = .badPhone)) ∨
    ∃ (w : Key) (ids : List Nat), ids ≠ [] ∧ (∀ x ∈ ids, x < m.ciphones.length) ∧
      (loadLineR m buf d l).1 = (dictAddWord d w ids).1 ∧
      (((dictAddWord d w ids).2 = none ∧ (loadLineR m buf d l).2 = .refused w (findBase d w).isNone) ∨
       ∃ i, (dictAddWord d w ids).2 = some i ∧ (loadLineR m buf d l).2 = .loaded i w ids) := by
  unfold loadLineR
  split
  · left; exact ⟨rfl, Or.inl rfl⟩
  · split
    · left; exact ⟨rfl, Or.inr (Or.inl rfl)⟩
    · left; exact ⟨rfl, Or.inr (Or.inr (Or.inl rfl))⟩
    · next w ps hne _ =>
      split
      · left; exact ⟨rfl, Or.inr (Or.inr (Or.inr rfl))⟩
      · next ids hids =>
        right
        refine ⟨slice buf w, ids, ?_, mapIds_lt hids, ?_⟩
        · intro h0
          rw [h0] at hids
          have := mapIds_nil_iff hids
          cases ps with
          | nil => exact hne rfl
          | cons a b => simp at this
        · simp only
          split
          · next hn => exact ⟨rfl, Or.inl ⟨hn, rfl⟩⟩
          · next i hi => exact ⟨rfl, Or.inr ⟨i, hi, rfl⟩⟩

theorem wf_loadLineR {d : Dict} (h : WF d) (m : Mdef) (buf : Buf) (l : Span buf.size) :
    WF (loadLineR m buf d l).1 := by
  rcases loadLineR_cases m buf d l with ⟨e, _⟩ | ⟨w, ids, _, _, e, _⟩
  · rw [e]; exact h
  · rw [e]; exact wf_dictAddWord h w ids

theorem ext_loadLineR {d : Dict} (h : WF d) (m : Mdef) (buf : Buf) (l : Span buf.size) :
    Ext d (loadLineR m buf d l).1 := by
  rcases loadLineR_cases m buf d l with ⟨e, _⟩ | ⟨w, ids, _, _, e, _⟩
  · rw [e]; exact Ext.refl d
  · rw [e]; exact ext_dictAddWord h w ids

theorem wf_loadLines {d : Dict} (h : WF d) (m : Mdef) (buf : Buf) (ls : List (Span buf.size)) :
    WF (loadLines m buf d ls).1 := by
  induction ls generalizing d with
  | nil => exact h
  | cons l ls ih => exact ih (wf_loadLineR h m buf l)

theorem ext_loadLines {d : Dict} (h : WF d) (m : Mdef) (buf : Buf) (ls : List (Span buf.size)) :
    Ext d (loadLines m buf d ls).1 := by
  induction ls generalizing d with
  | nil => exact Ext.refl d
  | cons l ls ih => exact (ext_loadLineR h m buf l).trans (ih (wf_loadLineR h m buf l))

/-- a line reported as loaded: appended at the end, found by lookup -/
theorem loadLineR_loaded {d : Dict} (h : WF d) (m : Mdef) (buf : Buf) (l : Span buf.size)
    {i : Nat} {w : Key} {p : List Nat} (hl : (loadLineR m buf d l).2 = .loaded i w p) :
    i = d.words.length ∧ (loadLineR m buf d l).1.words.length = i + 1 ∧
    Found (loadLineR m buf d l).1 i w p ∧ p ≠ [] ∧ (∀ x ∈ p, x < m.ciphones.length) ∧
    d.wordid w = none := by
  rcases loadLineR_cases m buf d l with ⟨_, e | e | e | e⟩ | ⟨w', ids, hne, hlt, e, ⟨_, e2⟩ | ⟨j, hj, e2⟩⟩
  · rw [e] at hl; cases hl
  · rw [e] at hl; cases hl
  · rw [e] at hl; cases hl
  · rw [e] at hl; cases hl
  · rw [e2] at hl; cases hl
  · rw [e2] at hl
    cases hl
    have hr : dictAddWord d w p = ((dictAddWord d w p).1, some i) := by rw [← hj]
    obtain ⟨a1, a2, a3, en, a4, a5, a6⟩ := C16_add_then_lookup h hr
    rw [e]
    refine ⟨a1, a2, ⟨a3, en, a4, a5, a6⟩, hne, hlt, ?_⟩
    rcases dictAddWord_spec h w p with ⟨_, r⟩ | ⟨_, _, r⟩ | ⟨_, _, r⟩ | ⟨_, hnew, _, _, _⟩
    · rw [r] at hj; cases hj
    · rw [r] at hj; cases hj
    · rw [r] at hj; cases hj
    · exact hnew

theorem loadLines_loaded {d : Dict} (h : WF d) (m : Mdef) (buf : Buf) (ls : List (Span buf.size))
    {i : Nat} {w : Key} {p : List Nat} (hl : LineRes.loaded i w p ∈ (loadLines m buf d ls).2) :
    Found (loadLines m buf d ls).1 i w p ∧ p ≠ [] ∧ (∀ x ∈ p, x < m.ciphones.length) ∧
    d.words.length ≤ i := by
  induction ls generalizing d with
  | nil => simp [loadLines] at hl
  | cons l ls ih =>
    simp only [loadLines, List.mem_cons] at hl
    rcases hl with hl | hl
    · obtain ⟨a1, _, a3, a4, a5, _⟩ := loadLineR_loaded h m buf l hl.symm
      exact ⟨a3.ext (ext_loadLines (wf_loadLineR h m buf l) m buf ls), a4, a5, by omega⟩
    · obtain ⟨b1, b2, b3, b4⟩ := ih (wf_loadLineR h m buf l) hl
      exact ⟨b1, b2, b3, Nat.le_trans (ext_loadLineR h m buf l).2.2.2 b4⟩

theorem wf_loadOpt {d : Dict} (h : WF d) (m : Mdef) (b : Option Buf) : WF (loadOpt m b d).1 := by
  cases b with
  | none => exact h
  | some buf => exact wf_loadLines h m buf _

theorem ext_loadOpt {d : Dict} (h : WF d) (m : Mdef) (b : Option Buf) : Ext d (loadOpt m b d).1 := by
  cases b with
  | none => exact Ext.refl d
  | some buf => exact ext_loadLines h m buf _

theorem loadOpt_loaded {d : Dict} (h : WF d) (m : Mdef) (b : Option Buf)
    {i : Nat} {w : Key} {p : List Nat} (hl : LineRes.loaded i w p ∈ (loadOpt m b d).2) :
    Found (loadOpt m b d).1 i w p ∧ p ≠ [] ∧ (∀ x ∈ p, x < m.ciphones.length) ∧ d.words.length ≤ i := by
  cases b with
  | none => simp [loadOpt] at hl
  | some buf => exact loadLines_loaded h m buf _ hl

theorem ext_addIfMissing {d : Dict} (h : WF d) (m : Mdef) (w : Key) : Ext d (addIfMissing m d w) := by
  unfold addIfMissing; split
  · exact ext_dictAddWord h _ _
  · exact Ext.refl d

theorem finish_spec {m : Mdef} {d3 d : Dict} (h : WF d3) (hf : finish m d3 = some d) :
    WF d ∧ Ext d3 d ∧ d.fillerStart = d3.fillerStart ∧
    d.startwid = d.wordid Generated.s3StartWord ∧ d.finishwid = d.wordid Generated.s3FinishWord ∧
    d.silwid = d.wordid Generated.s3SilenceWord ∧ d.fillerEnd = d.words.length - 1 ∧
    d.fillerStart ≤ d.fillerEnd ∧ ∃ s, d.silwid = some s ∧ d.isFiller s = true := by
  unfold finish at hf
  simp only at hf
  split at hf
  · cases hf
  · next hle =>
    split at hf
    · cases hf
    · next s hs =>
      split at hf
      · next hfil =>
        cases hf
        have w1 := wf_addIfMissing h m Generated.s3StartWord
        have w2 := wf_addIfMissing w1 m Generated.s3FinishWord
        have w3 := wf_addIfMissing w2 m Generated.s3SilenceWord
        have x1 := ext_addIfMissing h m Generated.s3StartWord
        have x2 := ext_addIfMissing w1 m Generated.s3FinishWord
        have x3 := ext_addIfMissing w2 m Generated.s3SilenceWord
        refine ⟨wf_congr w3 rfl rfl rfl, ((x1.trans x2).trans x3).trans (Ext.of_eq rfl rfl rfl), ?_, rfl, rfl, rfl,
          rfl, by simpa using hle, s, hs, hfil⟩
        simp only [addIfMissing]
        split <;> split <;> split <;> simp [(dictAddWord_fields _ _ _).2.1]
      · cases hf

theorem wf_initial (nocase : Bool) (main fdict : Option Buf) : WF (initial nocase main fdict) := wf_empty _ _

theorem wf_afterMain (m : Mdef) (nocase : Bool) (main fdict : Option Buf) : WF (afterMain m nocase main fdict).1 :=
  wf_loadOpt (wf_initial nocase main fdict) m main

theorem wf_afterFiller {d1 : Dict} (h : WF d1) (m : Mdef) (fdict : Option Buf) : WF (afterFiller m fdict d1).1 :=
  wf_loadOpt (d := { d1 with fillerStart := d1.words.length }) (wf_congr h rfl rfl rfl) m fdict

/-- decomposition of a successful `dict_init_s3file` -/
theorem loadDict_ok {m : Mdef} {nocase : Bool} {main fdict : Option Buf} {r : Loaded}
    (h : loadDict m nocase main fdict = .ok r) :
    nLines main + nLines fdict < maxS3wid ∧
    (afterMain m nocase main fdict).1.wordid Generated.s3StartWord = none ∧
    (afterMain m nocase main fdict).1.wordid Generated.s3FinishWord = none ∧
    (afterMain m nocase main fdict).1.wordid Generated.s3SilenceWord = none ∧
    finish m (afterFiller m fdict (afterMain m nocase main fdict).1).1 = some r.dict ∧
    r.mainRep = (afterMain m nocase main fdict).2 ∧
    r.fillerRep = (afterFiller m fdict (afterMain m nocase main fdict).1).2 := by
  unfold loadDict at h
  split at h
  · cases h
  · next hn =>
    simp only at h
    split at h
    · cases h
    · next h1 =>
      split at h
      · cases h
      · next h2 =>
        split at h
        · cases h
        · next h3 =>
          split at h
          · cases h
          · next d hd =>
            cases h
            exact ⟨by omega, by simpa using h1, by simpa using h2, by simpa using h3, hd, rfl, rfl⟩

end SSVerif.DictLoad
