import SSVerif.Model.Assembly
import SSVerif.Proofs.BinMdef
/-!
# Bounds of the mixture-weight reader of ms_senone.c and of the acoustic-model assembly
-/
namespace SSVerif.S3file

theorem senMixwPlan_sat (f : File) :
    (senMixwPlan f).Sat fun o => 0 < o.nSen ∧ 0 < o.nFeat ∧ 0 < o.nCw ∧ o.n = o.nSen * o.nFeat * o.nCw := by
  unfold senMixwPlan
  refine Sat.bind (parseHeader_sat (good_init f)) ?_
  intro s0 h0
  refine Sat.bind (get32_sat _ h0) ?_
  rintro ⟨s1, a⟩ ⟨h1, _⟩
  refine Sat.bind (get32_sat _ h1) ?_
  rintro ⟨s2, b⟩ ⟨h2, _⟩
  refine Sat.bind (get32_sat _ h2) ?_
  rintro ⟨s3, c⟩ ⟨h3, _⟩
  refine Sat.bind (get32_sat _ h3) ?_
  rintro ⟨s4, d⟩ ⟨h4, _⟩
  simp only
  split
  · trivial
  rename_i c1
  split
  · trivial
  have hn : (toI32 d).toNat = a * b * c :=
    Classical.byContradiction fun h => c1 (Or.inr (Or.inr (Or.inr (Or.inr (Or.inr h)))))
  refine Sat.bind (rowsInside_sat _ _ _ hn _ (Nat.le_refl _)) ?_
  intro _ _
  refine Sat.bind (getRows_sat _ _ _ s4 h4) ?_
  intro s5 h5
  refine Sat.bind (verifyChksum_sat h5) ?_
  intro _ _
  refine ⟨?_, ?_, ?_, hn⟩
  · show 0 < a; exact Nat.pos_of_ne_zero fun h => c1 (Or.inl h)
  · show 0 < b; exact Nat.pos_of_ne_zero fun h => c1 (Or.inr (Or.inl h))
  · show 0 < c; exact Nat.pos_of_ne_zero fun h => c1 (Or.inr (Or.inr (Or.inl h)))

theorem streamsLoop_sat (veclen streams : List Nat) :
    ∀ n i, i + n ≤ veclen.length → i + n ≤ streams.length → (streamsLoop veclen streams n i).Sat fun _ => True
  | 0, _, _, _ => trivial
  | n + 1, i, h1, h2 => by
    unfold streamsLoop
    rw [if_neg (by omega), if_neg (by omega)]
    split
    · trivial
    · exact streamsLoop_sat veclen streams n (i + 1) (by omega) (by omega)

theorem checkStreams_sat (ctx : AcCtx) (g : GauOut) (hg : g.veclen.length = g.nFeat) :
    (checkStreams ctx g).Sat fun _ => g.nFeat = ctx.streams.length := by
  unfold checkStreams
  by_cases h : g.nFeat ≠ ctx.streams.length
  · rw [if_pos h]; trivial
  · rw [if_neg h]
    have he : g.nFeat = ctx.streams.length := Classical.byContradiction fun hx => h hx
    exact Sat.mono (streamsLoop_sat g.veclen ctx.streams g.nFeat 0 (by omega) (by omega)) fun _ _ => he

/-- **copying `mdef->sen2cimap[0 .. n)`** stays inside the map when `n` is at most its size -/
theorem copyMap_sat (src : Array Nat) :
    ∀ n i (dst : Array Nat), i + n ≤ src.size → i + n ≤ dst.size → (copyMap src n i dst).Sat fun r => r.size = dst.size
  | 0, _, _, _, _ => rfl
  | n + 1, i, dst, h1, h2 => by
    unfold copyMap
    refine Sat.bind (load_sat (by omega)) ?_
    intro v _
    refine Sat.bind (store_sat (by omega)) ?_
    intro dst' hd
    exact Sat.mono (copyMap_sat src n (i + 1) dst' (by omega) (by omega)) fun r hr => by omega

theorem tiedMixw_sat (ctx : AcCtx) (g : GauOut) (src : MixSrc) : (tiedMixw ctx g src).Sat fun n => n = ctx.nSen := by
  cases src with
  | sendump f =>
    unfold tiedMixw
    exact Sat.bind (sendumpPlan_sat f _ _ _) fun _ _ => rfl
  | mixw f =>
    unfold tiedMixw
    refine Sat.bind (mixwPlan_sat f _ _) ?_
    intro m _
    split
    · trivial
    · rename_i h; exact Classical.byContradiction fun hx => h hx

/-- what a completed tied-mixture loader has established -/
def TiedOut.Consistent (ctx : AcCtx) (o : TiedOut) : Prop :=
  o.g.Consistent ∧ o.g.nFeat = ctx.streams.length ∧ o.nSen = ctx.nSen

theorem ptmPlan_sat (ctx : AcCtx) (hctx : ctx.sen2cimap.size = ctx.nSen) (means vars : File) (src : MixSrc) :
    (ptmPlan ctx means vars src).Sat fun o => o.Consistent ctx ∧ o.g.nMgau = ctx.nCiphone ∧ o.g.nMgau ≤ 256 ∧
      o.sen2cb.size = ctx.nSen := by
  unfold ptmPlan
  refine Sat.bind (gaudenPlan_sat means vars) ?_
  intro g ⟨hg, _⟩
  split
  · trivial
  rename_i c1
  split
  · trivial
  rename_i c2
  refine Sat.bind (checkStreams_sat ctx g hg.2.2.2.1) ?_
  intro _ hst
  refine Sat.bind (tiedMixw_sat ctx g src) ?_
  intro nSen hn
  subst hn
  refine Sat.bind (copyMap_sat ctx.sen2cimap ctx.nSen 0 _ (by omega) (by simp)) ?_
  intro sen2cb hs
  refine ⟨⟨hg, hst, rfl⟩, Classical.byContradiction fun hx => c2 hx, by show g.nMgau ≤ 256; omega, ?_⟩
  show sen2cb.size = ctx.nSen
  rw [hs]; simp

theorem s2Plan_sat (ctx : AcCtx) (means vars : File) (src : MixSrc) :
    (s2Plan ctx means vars src).Sat fun o => o.Consistent ctx ∧ o.g.nMgau = 1 := by
  unfold s2Plan
  refine Sat.bind (gaudenPlan_sat means vars) ?_
  intro g ⟨hg, _⟩
  split
  · trivial
  rename_i c1
  refine Sat.bind (checkStreams_sat ctx g hg.2.2.2.1) ?_
  intro _ hst
  refine Sat.bind (tiedMixw_sat ctx g src) ?_
  intro nSen hn
  exact ⟨⟨hg, hst, hn⟩, Classical.byContradiction fun hx => c1 hx⟩

theorem senMgauMap_sat (ctx : AcCtx) (hctx : ctx.sen2cimap.size = ctx.nSen) (nMgau : Nat) :
    (senMgauMap ctx nMgau ctx.nSen).Sat fun _ => True := by
  unfold senMgauMap
  split
  · trivial
  split
  · exact Sat.bind (copyMap_sat ctx.sen2cimap ctx.nSen 0 _ (by omega) (by simp)) fun _ _ => trivial
  split
  · trivial
  · trivial

theorem msPlan_sat (ctx : AcCtx) (hctx : ctx.sen2cimap.size = ctx.nSen) (means vars mixw : File) :
    (msPlan ctx means vars mixw).Sat fun o => o.g.Consistent ∧ o.g.nFeat = ctx.streams.length ∧
      o.sen.nSen = ctx.nSen ∧ o.sen.nFeat = o.g.nFeat ∧ o.sen.nCw = o.g.nDensity ∧ o.nGauden ≤ o.g.nMgau := by
  unfold msPlan
  refine Sat.bind (gaudenPlan_sat means vars) ?_
  intro g ⟨hg, _⟩
  refine Sat.bind (checkStreams_sat ctx g hg.2.2.2.1) ?_
  intro _ hst
  refine Sat.bind (senMixwPlan_sat mixw) ?_
  intro sen _
  split
  · trivial
  rename_i c1
  have hs : sen.nSen = ctx.nSen := Classical.byContradiction fun hx => c1 hx
  rw [hs]
  refine Sat.bind (senMgauMap_sat ctx hctx g.nMgau) ?_
  intro nG _
  split
  · trivial
  rename_i c2
  split
  · trivial
  rename_i c3
  split
  · trivial
  rename_i c4
  exact ⟨hg, hst, hs, Classical.byContradiction fun hx => c2 hx, Classical.byContradiction fun hx => c3 hx, by show nG ≤ g.nMgau; omega⟩

theorem orElse_sat {α : Type} {x y : Res α} {Q : α → Prop} (hx : x.Sat Q) (hy : y.Sat Q) : (orElse x y).Sat Q := by
  unfold orElse
  cases x with
  | ok a => exact hx
  | reject s => exact hy
  | oob i => exact hx
  | idx i n => exact hx

theorem gmmPlan_sat (ctx : AcCtx) (hctx : ctx.sen2cimap.size = ctx.nSen) (means vars : File) (src : MixSrc) :
    (gmmPlan ctx means vars src).Sat fun _ => True := by
  unfold gmmPlan
  refine orElse_sat (Sat.bind (ptmPlan_sat ctx hctx means vars src) fun _ _ => trivial) ?_
  refine orElse_sat (Sat.bind (s2Plan_sat ctx means vars src) fun _ _ => trivial) ?_
  cases src with
  | mixw f => exact Sat.bind (msPlan_sat ctx hctx means vars f) fun _ _ => trivial
  | sendump f => trivial

theorem acmodLoadPlan_sat (mdefF tmatF means vars : File) (src : MixSrc) (streams : List Nat) (ct : Bool) :
    (acmodLoadPlan mdefF tmatF means vars src streams ct).Sat fun _ => True := by
  unfold acmodLoadPlan
  refine Sat.bind (mdefPlan_sat mdefF) ?_
  intro m hm
  refine Sat.bind (tmatPlan_sat tmatF) ?_
  intro t _
  split
  · trivial
  · exact gmmPlan_sat _ hm.2.2.2 means vars src

end SSVerif.S3file
