import SSVerif.Model.FlatNet
import SSVerif.Proofs.SearchLexEnd
/-!
# The lextree the code builds against the flat network of C02 — context sets

`FlatNet` (C02, `Model/FlatNet.lean`) defines the left/right context phone sets of an FSG state declaratively
(`lcSet`/`rcSet`: the silence phone, the last/first phones of the word arcs entering/leaving the state, and those
of the states one null arc away).  `fsg_lextree_lc_rc` — mirrored by `ctxFlags` in `Model/SearchLex.lean`, which
is tied to the real lextree node by node — computes them by three passes over bit vectors, the last one an
in-place, order-dependent propagation along the null arcs.  This file proves that on an FSG whose null arcs are
transitively closed the two agree as sets (`lc_iff`, `rc_iff`).
-/
namespace SSVerif.LexFlat
open SSVerif.Search SSVerif.Hist

/-! ### bit vectors in arrays -/

theorem testBit_bit (c c' : Nat) : (1 <<< c).testBit c' = decide (c = c') := by
  rw [Nat.one_shiftLeft, Nat.testBit_two_pow]

theorem orBit_size (a : Array Nat) (s c : Nat) : (orBit a s c).size = a.size := size_amod a s _

theorem orBit_bit (a : Array Nat) (s c : Nat) {s' : Nat} (hs : s' < a.size) (c' : Nat) :
    ((orBit a s c).getD s' 0).testBit c' = ((a.getD s' 0).testBit c' || decide (s = s' ∧ c = c')) := by
  unfold orBit
  rw [getD_modify a s _ hs]
  by_cases h : s = s'
  · simp only [h, if_true, Nat.testBit_or, testBit_bit, true_and]
  · simp [h]

/-- `a[to] |= a[from] & m` -/
def prop1 (m : Nat) (a : Array Nat) (p : Nat × Nat) : Array Nat := amod a p.2 (· ||| (a.getD p.1 0 &&& m))

theorem prop1_size (m : Nat) (a : Array Nat) (p : Nat × Nat) : (prop1 m a p).size = a.size := size_amod a _ _

theorem prop1_bit (nCi : Nat) (a : Array Nat) (p : Nat × Nat) {s : Nat} (hs : s < a.size) (c : Nat) :
    ((prop1 (2 ^ nCi - 1) a p).getD s 0).testBit c =
      ((a.getD s 0).testBit c || (decide (p.2 = s) && ((a.getD p.1 0).testBit c && decide (c < nCi)))) := by
  unfold prop1
  rw [getD_modify a p.2 _ hs]
  by_cases h : p.2 = s
  · simp only [h, if_true, Nat.testBit_or, Nat.testBit_and, Nat.testBit_two_pow_sub_one, decide_true, Bool.true_and]
  · simp [h]

/-! ### in-place propagation along a transitively closed relation reaches exactly the one-hop closure -/

section Propagate
variable {ι : Type} (isN : ι → Bool) (pr : ι → Nat × Nat) (nCi n : Nat)

/-- the fold of the third loop of `fsg_lextree_lc_rc` over one of the two vectors -/
def propStep (a : Array Nat) (x : ι) : Array Nat := if isN x then prop1 (2 ^ nCi - 1) a (pr x) else a

theorem propStep_size (a : Array Nat) (x : ι) : (propStep isN pr nCi a x).size = a.size := by
  unfold propStep; split
  · exact prop1_size _ _ _
  · rfl

/-- what holds after the prefix `done` of the list has been processed: the current vector `a` contains the base
sets, stays within the one-hop closure over the WHOLE list, and a processed pair has delivered its base set -/
structure PInv (l : List ι) (base : Nat → Nat → Prop) (done : List ι) (a : Array Nat) : Prop where
  size : a.size = n
  lb : ∀ s, s < n → ∀ c, base s c → (a.getD s 0).testBit c = true
  ub : ∀ s, s < n → ∀ c, (a.getD s 0).testBit c = true →
        base s c ∨ ∃ x ∈ l, isN x = true ∧ (pr x).2 = s ∧ base (pr x).1 c
  pr' : ∀ x ∈ done, isN x = true → ∀ c, c < nCi → base (pr x).1 c → (a.getD (pr x).2 0).testBit c = true

theorem propFold_inv (l : List ι) (base : Nat → Nat → Prop)
    (hbound : ∀ x ∈ l, isN x = true → (pr x).1 < n ∧ (pr x).2 < n)
    (hclosed : ∀ x ∈ l, ∀ y ∈ l, isN x = true → isN y = true → (pr x).2 = (pr y).1 →
      (pr x).1 = (pr y).2 ∨ ∃ z ∈ l, isN z = true ∧ (pr z).1 = (pr x).1 ∧ (pr z).2 = (pr y).2) :
    ∀ (rest done : List ι) (a : Array Nat), done ++ rest = l → PInv isN pr nCi n l base done a →
      PInv isN pr nCi n l base l (rest.foldl (propStep isN pr nCi) a) := by
  intro rest
  induction rest with
  | nil => intro done a hl h; simp at hl; subst hl; exact h
  | cons x rest ih =>
    intro done a hl h
    simp only [List.foldl_cons]
    have hxl : x ∈ l := by rw [← hl]; simp
    refine ih (done ++ [x]) _ (by rw [← hl]; simp) ?_
    unfold propStep
    by_cases hx : isN x = true
    · simp only [hx, if_true]
      obtain ⟨b1, b2⟩ := hbound x hxl hx
      have hbit := fun {s : Nat} (hs : s < n) (c : Nat) => prop1_bit nCi a (pr x) (s := s) (by rw [h.size]; exact hs) c
      refine ⟨by rw [prop1_size]; exact h.size, ?_, ?_, ?_⟩
      · intro s hs c hb
        rw [hbit hs, h.lb s hs c hb]; rfl
      · intro s hs c hc
        rw [hbit hs] at hc
        simp only [Bool.or_eq_true, Bool.and_eq_true, decide_eq_true_eq] at hc
        rcases hc with hc | ⟨hps, hsrc, _⟩
        · exact h.ub s hs c hc
        · -- the bit came over the pair `x = (u, s)`: it is in the closure of `u`, hence in that of `s`
          rcases h.ub (pr x).1 b1 c hsrc with hb | ⟨y, hyl, hy, hy2, hyb⟩
          · exact Or.inr ⟨x, hxl, hx, hps, hb⟩
          · rcases hclosed y hyl x hxl hy hx hy2 with heq | ⟨z, hzl, hz, hz1, hz2⟩
            · exact Or.inl (by rw [← hps, ← heq]; exact hyb)
            · exact Or.inr ⟨z, hzl, hz, by rw [hz2]; exact hps, by rw [hz1]; exact hyb⟩
      · intro y hy hyn c hc hb
        have hyl : y ∈ l := by
          rw [← hl]
          rcases List.mem_append.1 hy with h1 | h1
          · exact List.mem_append_left _ h1
          · simp only [List.mem_singleton] at h1; rw [h1]; simp
        obtain ⟨c1, c2⟩ := hbound y hyl hyn
        rw [hbit c2]
        rcases List.mem_append.1 hy with h1 | h1
        · rw [h.pr' y h1 hyn c hc hb]; rfl
        · simp only [List.mem_singleton] at h1
          subst h1
          simp only [Bool.or_eq_true, Bool.and_eq_true, decide_eq_true_eq]
          exact Or.inr ⟨trivial, h.lb _ c1 c hb, hc⟩
    · simp only [hx]
      refine ⟨h.size, h.lb, h.ub, ?_⟩
      intro y hy hyn c hc hb
      rcases List.mem_append.1 hy with h1 | h1
      · exact h.pr' y h1 hyn c hc hb
      · simp only [List.mem_singleton] at h1
        subst h1
        exact absurd hyn hx

/-- the propagated vector is the one-hop closure of the base sets -/
theorem propFold_char (l : List ι) (base : Nat → Nat → Prop) (a0 : Array Nat) (hsz : a0.size = n)
    (hbase : ∀ s, s < n → ∀ c, (a0.getD s 0).testBit c = true ↔ base s c)
    (hbound : ∀ x ∈ l, isN x = true → (pr x).1 < n ∧ (pr x).2 < n)
    (hclosed : ∀ x ∈ l, ∀ y ∈ l, isN x = true → isN y = true → (pr x).2 = (pr y).1 →
      (pr x).1 = (pr y).2 ∨ ∃ z ∈ l, isN z = true ∧ (pr z).1 = (pr x).1 ∧ (pr z).2 = (pr y).2)
    {s : Nat} (hs : s < n) {c : Nat} (hc : c < nCi) :
    ((l.foldl (propStep isN pr nCi) a0).getD s 0).testBit c = true ↔
      (base s c ∨ ∃ x ∈ l, isN x = true ∧ (pr x).2 = s ∧ base (pr x).1 c) := by
  have h := propFold_inv isN pr nCi n l base hbound hclosed l [] a0 (by simp)
    ⟨hsz, fun s hs c hb => (hbase s hs c).2 hb, fun s hs c hb => Or.inl ((hbase s hs c).1 hb), fun x hx => by cases hx⟩
  constructor
  · exact h.ub s hs c
  · rintro (hb | ⟨x, hxl, hx, hx2, hb⟩)
    · exact h.lb s hs c hb
    · rw [← hx2]; exact h.pr' x hxl hx c hc hb

end Propagate

/-! ### the three passes of `fsg_lextree_lc_rc` (`ctxFlags`) bit by bit -/

/-- phone a word arc contributes to `lc[to]` / `rc[from]` (first loop of `fsg_lextree_lc_rc`) -/
def lastPh (li : LexIn) (g : Fsg) (lid : Nat) : Nat :=
  if (li.word (g.link lid).wid.toNat).fsgFiller then li.sil else (li.word (g.link lid).wid.toNat).pron.getLastD 0
def firstPh (li : LexIn) (g : Fsg) (lid : Nat) : Nat :=
  if (li.word (g.link lid).wid.toNat).fsgFiller then li.sil else (li.word (g.link lid).wid.toNat).pron.headD 0

def pass1L (li : LexIn) (g : Fsg) (a : Array Nat) (lid : Nat) : Array Nat :=
  if (g.link lid).wid < 0 then a else orBit a (g.link lid).dst (lastPh li g lid)
def pass1R (li : LexIn) (g : Fsg) (a : Array Nat) (lid : Nat) : Array Nat :=
  if (g.link lid).wid < 0 then a else orBit a (g.link lid).src (firstPh li g lid)

theorem ctxPass1_eq (li : LexIn) (g : Fsg) (acc : Array Nat × Array Nat) (lid : Nat) :
    ctxPass1 li g acc lid = (pass1L li g acc.1 lid, pass1R li g acc.2 lid) := by
  unfold ctxPass1 pass1L pass1R lastPh firstPh
  simp only
  split
  · rfl
  · split <;> rfl

theorem fold_pass1 (li : LexIn) (g : Fsg) : ∀ (l : List Nat) (acc : Array Nat × Array Nat),
    l.foldl (ctxPass1 li g) acc = (l.foldl (pass1L li g) acc.1, l.foldl (pass1R li g) acc.2) := by
  intro l
  induction l with
  | nil => intro acc; rfl
  | cons x rest ih => intro acc; simp only [List.foldl_cons]; rw [ctxPass1_eq, ih]

def isNull (g : Fsg) (lid : Nat) : Bool := decide ((g.link lid).wid < 0)
def prL (g : Fsg) (lid : Nat) : Nat × Nat := ((g.link lid).src, (g.link lid).dst)
def prR (g : Fsg) (lid : Nat) : Nat × Nat := ((g.link lid).dst, (g.link lid).src)

theorem ctxPass3_eq (li : LexIn) (g : Fsg) (acc : Array Nat × Array Nat) (lid : Nat) :
    ctxPass3 li g acc lid = (propStep (isNull g) (prL g) li.nCi acc.1 lid, propStep (isNull g) (prR g) li.nCi acc.2 lid) := by
  unfold ctxPass3 propStep isNull prL prR prop1
  simp only
  by_cases h : (g.link lid).wid < 0
  · simp [h]
  · simp [h]

theorem fold_pass3 (li : LexIn) (g : Fsg) : ∀ (l : List Nat) (acc : Array Nat × Array Nat),
    l.foldl (ctxPass3 li g) acc =
      (l.foldl (propStep (isNull g) (prL g) li.nCi) acc.1, l.foldl (propStep (isNull g) (prR g) li.nCi) acc.2) := by
  intro l
  induction l with
  | nil => intro acc; rfl
  | cons x rest ih => intro acc; simp only [List.foldl_cons]; rw [ctxPass3_eq, ih]

/-- bits after a fold of conditional `orBit`s -/
theorem orFold_bit (cond : Nat → Bool) (tgt ph : Nat → Nat) : ∀ (l : List Nat) (a : Array Nat) {s : Nat} (_ : s < a.size) (c : Nat),
    (((l.foldl (fun a x => if cond x then orBit a (tgt x) (ph x) else a) a).getD s 0).testBit c = true ↔
      ((a.getD s 0).testBit c = true ∨ ∃ x ∈ l, cond x = true ∧ tgt x = s ∧ ph x = c)) ∧
    (l.foldl (fun a x => if cond x then orBit a (tgt x) (ph x) else a) a).size = a.size := by
  intro l
  induction l with
  | nil => intro a s _ c; simp
  | cons x rest ih =>
    intro a s hs c
    simp only [List.foldl_cons]
    by_cases hx : cond x = true
    · simp only [hx, if_true]
      obtain ⟨h1, h2⟩ := ih (orBit a (tgt x) (ph x)) (s := s) (by rw [orBit_size]; exact hs) c
      refine ⟨?_, by rw [h2, orBit_size]⟩
      rw [h1, orBit_bit a _ _ hs]
      simp only [Bool.or_eq_true, decide_eq_true_eq, List.mem_cons]
      constructor
      · rintro ((h | ⟨h3, h4⟩) | ⟨y, hy, h5⟩)
        · exact Or.inl h
        · exact Or.inr ⟨x, Or.inl rfl, hx, h3, h4⟩
        · exact Or.inr ⟨y, Or.inr hy, h5⟩
      · rintro (h | ⟨y, hy | hy, h5⟩)
        · exact Or.inl (Or.inl h)
        · subst hy; exact Or.inl (Or.inr ⟨h5.2.1, h5.2.2⟩)
        · exact Or.inr ⟨y, hy, h5⟩
    · have hx' : cond x = false := by simpa using hx
      simp only [hx', Bool.false_eq_true, if_false]
      obtain ⟨h1, h2⟩ := ih a hs c
      refine ⟨?_, h2⟩
      rw [h1]
      simp only [List.mem_cons]
      constructor
      · rintro (h | ⟨y, hy, h5⟩)
        · exact Or.inl h
        · exact Or.inr ⟨y, Or.inr hy, h5⟩
      · rintro (h | ⟨y, hy | hy, h5⟩)
        · exact Or.inl h
        · subst hy; exact absurd h5.1 hx
        · exact Or.inr ⟨y, hy, h5⟩

/-- the arcs the passes run over: every arc of a state `< nState` -/
def allArcs (li : LexIn) (g : Fsg) : List Nat := (List.range li.nState).flatMap (arcsOf g)

theorem mem_allArcs (li : LexIn) (g : Fsg) (lid : Nat) :
    lid ∈ allArcs li g ↔ lid < g.links.size ∧ (g.link lid).src < li.nState := by
  unfold allArcs arcsOf
  simp only [List.mem_flatMap, List.mem_range, List.mem_filter, decide_eq_true_eq]
  constructor
  · rintro ⟨s, hs, hl, he⟩; exact ⟨hl, by rw [he]; exact hs⟩
  · rintro ⟨hl, hs⟩; exact ⟨_, hs, hl, rfl⟩

/-- `lc[s]` / `rc[s]` before the null-arc pass: silence, and the last / first phones of the word arcs entering / leaving `s` -/
def baseL (li : LexIn) (g : Fsg) (s c : Nat) : Prop :=
  c = li.sil ∨ ∃ lid ∈ allArcs li g, ¬ (g.link lid).wid < 0 ∧ (g.link lid).dst = s ∧ lastPh li g lid = c
def baseR (li : LexIn) (g : Fsg) (s c : Nat) : Prop :=
  c = li.sil ∨ ∃ lid ∈ allArcs li g, ¬ (g.link lid).wid < 0 ∧ (g.link lid).src = s ∧ firstPh li g lid = c

/-- the FSG's states are `< nState` and its null arcs are transitively closed -/
structure FsgOK (li : LexIn) (g : Fsg) : Prop where
  bound : ∀ lid, lid < g.links.size → (g.link lid).src < li.nState ∧ (g.link lid).dst < li.nState
  closed : ∀ x y, x < g.links.size → y < g.links.size → (g.link x).wid < 0 → (g.link y).wid < 0 →
    (g.link x).dst = (g.link y).src → (g.link x).src = (g.link y).dst ∨
      ∃ z, z < g.links.size ∧ (g.link z).wid < 0 ∧ (g.link z).src = (g.link x).src ∧ (g.link z).dst = (g.link y).dst

theorem getD_mapOr (b : Array Nat) (k : Nat) {t : Nat} (ht : t < b.size) (c : Nat) :
    ((b.toList.map (· ||| (1 <<< k))).toArray.getD t 0).testBit c = ((b.getD t 0).testBit c || decide (k = c)) := by
  rw [getD_map b _ ht, Nat.testBit_or, testBit_bit]

/-- **`lextree->lc[s]` as a set**: the base set of `s` and the base sets of the sources of null arcs into `s` -/
theorem ctxFlags_lc (li : LexIn) (g : Fsg) (ok : FsgOK li g) {s : Nat} (hs : s < li.nState) {c : Nat} (hc : c < li.nCi) :
    ((ctxFlags li g).1.getD s 0).testBit c = true ↔
      (baseL li g s c ∨ ∃ lid ∈ allArcs li g, (g.link lid).wid < 0 ∧ (g.link lid).dst = s ∧ baseL li g (g.link lid).src c) := by
  have hz : (Array.replicate li.nState 0 : Array Nat).size = li.nState := by simp
  have h1 := fun (s : Nat) (hs : s < li.nState) (c : Nat) =>
    orFold_bit (fun lid => !decide ((g.link lid).wid < 0)) (fun lid => (g.link lid).dst) (lastPh li g) (allArcs li g)
      (Array.replicate li.nState 0) (s := s) (by rw [hz]; exact hs) c
  have hfun : (fun a x => if (!decide ((g.link x).wid < 0)) = true then orBit a (g.link x).dst (lastPh li g x) else a) = pass1L li g := by
    funext a x
    unfold pass1L
    by_cases h : (g.link x).wid < 0 <;> simp [h]
  rw [hfun] at h1
  have hsz1 : ((allArcs li g).foldl (pass1L li g) (Array.replicate li.nState 0)).size = li.nState := by
    rw [(h1 0 (by omega) 0).2, hz]
  have hcf : (ctxFlags li g).1 = (allArcs li g).foldl (propStep (isNull g) (prL g) li.nCi)
      (((allArcs li g).foldl (pass1L li g) (Array.replicate li.nState 0)).toList.map (· ||| (1 <<< li.sil))).toArray := by
    unfold ctxFlags
    simp only
    rw [fold_pass3, fold_pass1]
    rfl
  rw [hcf]
  have hchar := propFold_char (isNull g) (prL g) li.nCi li.nState (allArcs li g) (baseL li g)
    (((allArcs li g).foldl (pass1L li g) (Array.replicate li.nState 0)).toList.map (· ||| (1 <<< li.sil))).toArray
    (by simp [hsz1]) ?_ ?_ ?_ hs hc
  · rw [hchar]
    unfold isNull prL
    simp only [decide_eq_true_eq]
  · intro t ht c'
    rw [getD_mapOr _ _ (by rw [hsz1]; exact ht)]
    simp only [Bool.or_eq_true, decide_eq_true_eq]
    rw [(h1 t ht c').1]
    unfold baseL
    simp only [Bool.not_eq_true', decide_eq_false_iff_not]
    constructor
    · rintro ((h | ⟨x, hx, h2⟩) | h)
      · have h0 : (Array.replicate li.nState 0 : Array Nat).getD t 0 = 0 := by simp [Array.getD, ht]
        rw [h0] at h; simp at h
      · exact Or.inr ⟨x, hx, h2⟩
      · exact Or.inl h.symm
    · rintro (h | ⟨x, hx, h2⟩)
      · exact Or.inr h.symm
      · exact Or.inl (Or.inr ⟨x, hx, h2⟩)
  · intro x hx _
    exact ok.bound x ((mem_allArcs li g x).1 hx).1
  · intro x hx y hy hxn hyn he
    unfold isNull at hxn hyn
    simp only [decide_eq_true_eq] at hxn hyn
    have hxl := ((mem_allArcs li g x).1 hx).1
    have hyl := ((mem_allArcs li g y).1 hy).1
    rcases ok.closed x y hxl hyl hxn hyn he with h | ⟨z, hz1, hz2, hz3, hz4⟩
    · exact Or.inl h
    · exact Or.inr ⟨z, (mem_allArcs li g z).2 ⟨hz1, (ok.bound z hz1).1⟩, by unfold isNull; simpa using hz2, hz3, hz4⟩

/-- **`lextree->rc[s]` as a set**: the base set of `s` and the base sets of the targets of null arcs out of `s` -/
theorem ctxFlags_rc (li : LexIn) (g : Fsg) (ok : FsgOK li g) {s : Nat} (hs : s < li.nState) {c : Nat} (hc : c < li.nCi) :
    ((ctxFlags li g).2.getD s 0).testBit c = true ↔
      (baseR li g s c ∨ ∃ lid ∈ allArcs li g, (g.link lid).wid < 0 ∧ (g.link lid).src = s ∧ baseR li g (g.link lid).dst c) := by
  have hz : (Array.replicate li.nState 0 : Array Nat).size = li.nState := by simp
  have h1 := fun (s : Nat) (hs : s < li.nState) (c : Nat) =>
    orFold_bit (fun lid => !decide ((g.link lid).wid < 0)) (fun lid => (g.link lid).src) (firstPh li g) (allArcs li g)
      (Array.replicate li.nState 0) (s := s) (by rw [hz]; exact hs) c
  have hfun : (fun a x => if (!decide ((g.link x).wid < 0)) = true then orBit a (g.link x).src (firstPh li g x) else a) = pass1R li g := by
    funext a x
    unfold pass1R
    by_cases h : (g.link x).wid < 0 <;> simp [h]
  rw [hfun] at h1
  have hsz1 : ((allArcs li g).foldl (pass1R li g) (Array.replicate li.nState 0)).size = li.nState := by
    rw [(h1 0 (by omega) 0).2, hz]
  have hcf : (ctxFlags li g).2 = (allArcs li g).foldl (propStep (isNull g) (prR g) li.nCi)
      (((allArcs li g).foldl (pass1R li g) (Array.replicate li.nState 0)).toList.map (· ||| (1 <<< li.sil))).toArray := by
    unfold ctxFlags
    simp only
    rw [fold_pass3, fold_pass1]
    rfl
  rw [hcf]
  have hchar := propFold_char (isNull g) (prR g) li.nCi li.nState (allArcs li g) (baseR li g)
    (((allArcs li g).foldl (pass1R li g) (Array.replicate li.nState 0)).toList.map (· ||| (1 <<< li.sil))).toArray
    (by simp [hsz1]) ?_ ?_ ?_ hs hc
  · rw [hchar]
    unfold isNull prR
    simp only [decide_eq_true_eq]
  · intro t ht c'
    rw [getD_mapOr _ _ (by rw [hsz1]; exact ht)]
    simp only [Bool.or_eq_true, decide_eq_true_eq]
    rw [(h1 t ht c').1]
    unfold baseR
    simp only [Bool.not_eq_true', decide_eq_false_iff_not]
    constructor
    · rintro ((h | ⟨x, hx, h2⟩) | h)
      · have h0 : (Array.replicate li.nState 0 : Array Nat).getD t 0 = 0 := by simp [Array.getD, ht]
        rw [h0] at h; simp at h
      · exact Or.inr ⟨x, hx, h2⟩
      · exact Or.inl h.symm
    · rintro (h | ⟨x, hx, h2⟩)
      · exact Or.inr h.symm
      · exact Or.inl (Or.inr ⟨x, hx, h2⟩)
  · intro x hx _
    exact ⟨(ok.bound x ((mem_allArcs li g x).1 hx).1).2, (ok.bound x ((mem_allArcs li g x).1 hx).1).1⟩
  · intro x hx y hy hxn hyn he
    unfold isNull at hxn hyn
    simp only [decide_eq_true_eq] at hxn hyn
    have hxl := ((mem_allArcs li g x).1 hx).1
    have hyl := ((mem_allArcs li g y).1 hy).1
    rcases ok.closed y x hyl hxl hyn hxn he.symm with h | ⟨z, hz1, hz2, hz3, hz4⟩
    · exact Or.inl h.symm
    · exact Or.inr ⟨z, (mem_allArcs li g z).2 ⟨hz1, (ok.bound z hz1).1⟩, by unfold isNull; simpa using hz2, hz4, hz3⟩

/-! ### the declarative sets of the flat network -/

open SSVerif.FlatNet (Model Arc Word insertNat lcBase rcBase lcSet rcSet wordArcs nullArcs firstPhone lastPhone)

theorem mem_insertNat {c x : Nat} {l : List Nat} : c ∈ insertNat x l ↔ c = x ∨ c ∈ l := by
  unfold insertNat
  split
  · rename_i h
    have hx : x ∈ l := by simpa using h
    constructor
    · exact Or.inr
    · rintro (h1 | h1)
      · rw [h1]; exact hx
      · exact h1
  · simp only [List.mem_append, List.mem_singleton]
    constructor
    · rintro (h1 | h1)
      · exact Or.inr h1
      · exact Or.inl h1
    · rintro (h1 | h1)
      · exact Or.inr h1
      · exact Or.inl h1

theorem mem_foldl_insertIf {β : Type} (P : β → Prop) [DecidablePred P] (k : β → Nat) (c : Nat) :
    ∀ (l : List β) (init : List Nat),
      c ∈ l.foldl (fun acc b => if P b then insertNat (k b) acc else acc) init ↔ c ∈ init ∨ ∃ b ∈ l, P b ∧ k b = c := by
  intro l
  induction l with
  | nil => intro init; simp
  | cons x rest ih =>
    intro init
    simp only [List.foldl_cons]
    rw [ih]
    by_cases hx : P x
    · simp only [hx, if_true, mem_insertNat, List.mem_cons]
      constructor
      · rintro ((h | h) | ⟨b, hb, h⟩)
        · exact Or.inr ⟨x, Or.inl rfl, hx, h.symm⟩
        · exact Or.inl h
        · exact Or.inr ⟨b, Or.inr hb, h⟩
      · rintro (h | ⟨b, hb | hb, h⟩)
        · exact Or.inl (Or.inr h)
        · subst hb; exact Or.inl (Or.inl h.2.symm)
        · exact Or.inr ⟨b, hb, h⟩
    · simp only [hx, if_false, List.mem_cons]
      constructor
      · rintro (h | ⟨b, hb, h⟩)
        · exact Or.inl h
        · exact Or.inr ⟨b, Or.inr hb, h⟩
      · rintro (h | ⟨b, hb | hb, h⟩)
        · exact Or.inl h
        · subst hb; exact absurd h.1 hx
        · exact Or.inr ⟨b, hb, h⟩

theorem mem_foldl_insertAll (c : Nat) : ∀ (xs init : List Nat),
    c ∈ xs.foldl (fun a x => insertNat x a) init ↔ c ∈ init ∨ c ∈ xs := by
  intro xs
  induction xs with
  | nil => intro init; simp
  | cons x rest ih =>
    intro init
    simp only [List.foldl_cons]
    rw [ih, mem_insertNat, List.mem_cons]
    constructor
    · rintro ((h | h) | h)
      · exact Or.inr (Or.inl h)
      · exact Or.inl h
      · exact Or.inr (Or.inr h)
    · rintro (h | h | h)
      · exact Or.inl (Or.inr h)
      · exact Or.inl (Or.inl h)
      · exact Or.inr h

theorem mem_foldl_unionIf {β : Type} (P : β → Prop) [DecidablePred P] (K : β → List Nat) (c : Nat) :
    ∀ (l : List β) (init : List Nat),
      c ∈ l.foldl (fun acc n => if P n then (K n).foldl (fun a x => insertNat x a) acc else acc) init ↔
        c ∈ init ∨ ∃ n ∈ l, P n ∧ c ∈ K n := by
  intro l
  induction l with
  | nil => intro init; simp
  | cons x rest ih =>
    intro init
    simp only [List.foldl_cons]
    rw [ih]
    by_cases hx : P x
    · simp only [hx, if_true, mem_foldl_insertAll, List.mem_cons]
      constructor
      · rintro ((h | h) | ⟨b, hb, h⟩)
        · exact Or.inl h
        · exact Or.inr ⟨x, Or.inl rfl, hx, h⟩
        · exact Or.inr ⟨b, Or.inr hb, h⟩
      · rintro (h | ⟨b, hb | hb, h⟩)
        · exact Or.inl (Or.inl h)
        · subst hb; exact Or.inl (Or.inr h.2)
        · exact Or.inr ⟨b, hb, h⟩
    · simp only [hx, if_false, List.mem_cons]
      constructor
      · rintro (h | ⟨b, hb, h⟩)
        · exact Or.inl h
        · exact Or.inr ⟨b, Or.inr hb, h⟩
      · rintro (h | ⟨b, hb | hb, h⟩)
        · exact Or.inl h
        · subst hb; exact absurd h.1 hx
        · exact Or.inr ⟨b, hb, h⟩

theorem mem_wordArcs (M : Model) (x : Nat × Arc × Word) :
    x ∈ wordArcs M ↔ M.arcs[x.1]? = some x.2.1 ∧ ∃ wid, x.2.1.wid = some wid ∧ M.word wid = some x.2.2 := by
  obtain ⟨i, a, w⟩ := x
  unfold wordArcs
  simp only [List.mem_filterMap]
  constructor
  · rintro ⟨⟨a', i'⟩, hm, hf⟩
    have hget := List.mem_zipIdx_iff_getElem?.1 hm
    simp only at hget hf
    cases hw : a'.wid with
    | none => rw [hw] at hf; simp at hf
    | some wid =>
      rw [hw] at hf
      simp only [Option.map_eq_some_iff] at hf
      obtain ⟨wd, h1, h2⟩ := hf
      cases h2
      exact ⟨hget, wid, hw, h1⟩
  · rintro ⟨hget, wid, hw, hwd⟩
    refine ⟨(a, i), List.mem_zipIdx_iff_getElem?.2 hget, ?_⟩
    simp only at hw hwd ⊢
    rw [hw]
    simp [hwd]

theorem mem_lcBase (M : Model) (s c : Nat) :
    c ∈ lcBase M s ↔ c = M.sil ∨ ∃ x ∈ wordArcs M, x.2.1.dst = s ∧ lastPhone M x.2.2 = c := by
  have h := mem_foldl_insertIf (fun x : Nat × Arc × Word => x.2.1.dst = s) (fun x => lastPhone M x.2.2) c (wordArcs M) [M.sil]
  simp only [List.mem_singleton] at h
  exact h

theorem mem_rcBase (M : Model) (s c : Nat) :
    c ∈ rcBase M s ↔ c = M.sil ∨ ∃ x ∈ wordArcs M, x.2.1.src = s ∧ firstPhone M x.2.2 = c := by
  have h := mem_foldl_insertIf (fun x : Nat × Arc × Word => x.2.1.src = s) (fun x => firstPhone M x.2.2) c (wordArcs M) [M.sil]
  simp only [List.mem_singleton] at h
  exact h

theorem mem_lcSet (M : Model) (s c : Nat) :
    c ∈ lcSet M s ↔ c ∈ lcBase M s ∨ ∃ n ∈ nullArcs M, n.dst = s ∧ c ∈ lcBase M n.src :=
  mem_foldl_unionIf (fun n : Arc => n.dst = s) (fun n => lcBase M n.src) c (nullArcs M) (lcBase M s)

theorem mem_rcSet (M : Model) (s c : Nat) :
    c ∈ rcSet M s ↔ c ∈ rcBase M s ∨ ∃ n ∈ nullArcs M, n.src = s ∧ c ∈ rcBase M n.dst :=
  mem_foldl_unionIf (fun n : Arc => n.src = s) (fun n => rcBase M n.dst) c (nullArcs M) (rcBase M s)

/-! ### the bridge: the FSG and the words the lextree construction reads, taken from the flat model -/

def widInt (a : Arc) : Int := match a.wid with | none => -1 | some w => (w : Int)

/-- the search FSG as the lextree construction reads it (arc ids = positions in `M.arcs`) -/
def fsgOf (M : Model) : Fsg :=
  { links := (M.arcs.map fun a => (⟨a.src, a.dst, a.logp, widInt a⟩ : Link)).toArray, start := M.start, final := M.final,
    filler := [] }

theorem fsgOf_size (M : Model) : (fsgOf M).links.size = M.arcs.length := by simp [fsgOf]

theorem fsgOf_link (M : Model) {i : Nat} {a : Arc} (h : M.arcs[i]? = some a) :
    (fsgOf M).link i = ⟨a.src, a.dst, a.logp, widInt a⟩ := by
  unfold Fsg.link fsgOf
  have hi : i < M.arcs.length := by
    rcases Nat.lt_or_ge i M.arcs.length with h1 | h1
    · exact h1
    · rw [List.getElem?_eq_none h1] at h; cases h
  have ha : M.arcs[i] = a := by
    rw [List.getElem?_eq_getElem hi] at h; exact Option.some.inj h
  simp [Array.getD, hi, ha]

theorem arc_of_lt (M : Model) {i : Nat} (h : i < (fsgOf M).links.size) : ∃ a, M.arcs[i]? = some a ∧ a ∈ M.arcs := by
  rw [fsgOf_size] at h
  exact ⟨M.arcs[i], List.getElem?_eq_getElem h, List.getElem_mem h⟩

theorem widInt_neg (a : Arc) : widInt a < 0 ↔ a.wid = none := by
  unfold widInt
  cases a.wid with
  | none => simp
  | some w => simp

theorem widInt_some {a : Arc} {w : Nat} (h : a.wid = some w) : (widInt a).toNat = w := by
  unfold widInt; rw [h]; simp

/-- the lextree's inputs agree with the flat model: same silence phone, same pronunciations and filler flags for
the words on the arcs (non-empty, phones `< nCi`), states `< nState`, and the null arcs transitively closed (what
the driver checks with `nullClosed`, without the cost clause) -/
structure Agree (M : Model) (li : LexIn) : Prop where
  sil : li.sil = M.sil
  silCi : li.sil < li.nCi
  word : ∀ a ∈ M.arcs, ∀ wid, a.wid = some wid → ∃ wd, M.word wid = some wd ∧ (li.word wid).pron = wd.pron ∧
    (li.word wid).fsgFiller = wd.filler ∧ wd.pron ≠ [] ∧ ∀ p ∈ wd.pron, p < li.nCi
  state : ∀ a ∈ M.arcs, a.src < li.nState ∧ a.dst < li.nState
  closed : ∀ a ∈ M.arcs, ∀ b ∈ M.arcs, a.wid = none → b.wid = none → a.dst = b.src →
    a.src = b.dst ∨ ∃ c ∈ M.arcs, c.wid = none ∧ c.src = a.src ∧ c.dst = b.dst

theorem Agree.fsgOK {M : Model} {li : LexIn} (h : Agree M li) : FsgOK li (fsgOf M) := by
  refine ⟨?_, ?_⟩
  · intro lid hl
    obtain ⟨a, ha, hm⟩ := arc_of_lt M hl
    rw [fsgOf_link M ha]
    exact h.state a hm
  · intro x y hx hy hxn hyn he
    obtain ⟨a, ha, hma⟩ := arc_of_lt M hx
    obtain ⟨b, hb, hmb⟩ := arc_of_lt M hy
    rw [fsgOf_link M ha] at hxn he ⊢
    rw [fsgOf_link M hb] at hyn he ⊢
    simp only at hxn hyn he ⊢
    rcases h.closed a hma b hmb ((widInt_neg a).1 hxn) ((widInt_neg b).1 hyn) he with h1 | ⟨c, hc, hcn, hc1, hc2⟩
    · exact Or.inl h1
    · obtain ⟨z, hz⟩ := List.mem_iff_getElem?.1 hc
      have hzl : z < (fsgOf M).links.size := by
        rw [fsgOf_size]
        rcases Nat.lt_or_ge z M.arcs.length with h1 | h1
        · exact h1
        · rw [List.getElem?_eq_none h1] at hz; cases hz
      refine Or.inr ⟨z, hzl, ?_⟩
      rw [fsgOf_link M hz]
      exact ⟨(widInt_neg c).2 hcn, hc1, hc2⟩

theorem getLastD_ne_nil {l : List Nat} (h : l ≠ []) (a b : Nat) : l.getLastD a = l.getLastD b := by
  cases l with
  | nil => exact absurd rfl h
  | cons x xs => simp [List.getLastD]

theorem headD_ne_nil {l : List Nat} (h : l ≠ []) (a b : Nat) : l.headD a = l.headD b := by
  cases l with
  | nil => exact absurd rfl h
  | cons x xs => rfl

/-- a word arc of the flat model seen from both sides -/
theorem Agree.wordArc {M : Model} {li : LexIn} (h : Agree M li) {i : Nat} {a : Arc} (ha : M.arcs[i]? = some a) {wid : Nat}
    (hw : a.wid = some wid) :
    ∃ wd, M.word wid = some wd ∧ lastPh li (fsgOf M) i = lastPhone M wd ∧ firstPh li (fsgOf M) i = firstPhone M wd ∧
      lastPhone M wd < li.nCi ∧ firstPhone M wd < li.nCi := by
  have hm : a ∈ M.arcs := List.mem_iff_getElem?.2 ⟨i, ha⟩
  obtain ⟨wd, h1, h2, h3, h4, h5⟩ := h.word a hm wid hw
  refine ⟨wd, h1, ?_, ?_, ?_, ?_⟩
  · unfold lastPh lastPhone
    rw [fsgOf_link M ha]
    simp only [widInt_some hw, h2, h3, h.sil]
    split
    · rfl
    · exact getLastD_ne_nil h4 _ _
  · unfold firstPh firstPhone
    rw [fsgOf_link M ha]
    simp only [widInt_some hw, h2, h3, h.sil]
    split
    · rfl
    · exact headD_ne_nil h4 _ _
  · unfold lastPhone
    split
    · rw [← h.sil]; exact h.silCi
    · have : wd.pron.getLastD M.sil ∈ wd.pron := by
        rw [List.getLastD_eq_getLast?, List.getLast?_eq_some_getLast h4]
        exact List.getLast_mem h4
      exact h5 _ this
  · unfold firstPhone
    split
    · rw [← h.sil]; exact h.silCi
    · have : wd.pron.headD M.sil ∈ wd.pron := by
        cases hp : wd.pron with
        | nil => exact absurd hp h4
        | cons x xs => simp
      exact h5 _ this

theorem Agree.arc_mem {M : Model} {li : LexIn} (h : Agree M li) {i : Nat} {a : Arc} (ha : M.arcs[i]? = some a) :
    i ∈ allArcs li (fsgOf M) := by
  have hm : a ∈ M.arcs := List.mem_iff_getElem?.2 ⟨i, ha⟩
  have hi : i < M.arcs.length := by
    rcases Nat.lt_or_ge i M.arcs.length with h1 | h1
    · exact h1
    · rw [List.getElem?_eq_none h1] at ha; cases ha
  refine (mem_allArcs li (fsgOf M) i).2 ⟨by rw [fsgOf_size]; exact hi, ?_⟩
  rw [fsgOf_link M ha]
  exact (h.state a hm).1

theorem Agree.baseL_iff {M : Model} {li : LexIn} (h : Agree M li) (s c : Nat) :
    baseL li (fsgOf M) s c ↔ c ∈ lcBase M s := by
  rw [mem_lcBase]
  unfold baseL
  rw [h.sil]
  constructor
  · rintro (h1 | ⟨lid, hl, hw, hd, hp⟩)
    · exact Or.inl h1
    · obtain ⟨a, ha, _⟩ := arc_of_lt M ((mem_allArcs li (fsgOf M) lid).1 hl).1
      rw [fsgOf_link M ha] at hw hd
      simp only at hw hd
      cases hwid : a.wid with
      | none => exact absurd ((widInt_neg a).2 hwid) hw
      | some wid =>
        obtain ⟨wd, h1, h2, _⟩ := h.wordArc ha hwid
        exact Or.inr ⟨(lid, a, wd), (mem_wordArcs M _).2 ⟨ha, wid, hwid, h1⟩, hd, by rw [← h2]; exact hp⟩
  · rintro (h1 | ⟨⟨i, a, w⟩, hx, hd, hp⟩)
    · exact Or.inl h1
    · obtain ⟨ha, wid, hwid, hwd⟩ := (mem_wordArcs M _).1 hx
      simp only at ha hwid hwd hd hp
      obtain ⟨wd, h1, h2, _⟩ := h.wordArc ha hwid
      have : wd = w := by rw [hwd] at h1; exact (Option.some.inj h1).symm
      subst this
      refine Or.inr ⟨i, h.arc_mem ha, ?_, ?_, by rw [h2]; exact hp⟩
      · rw [fsgOf_link M ha]
        simp only
        intro hneg
        rw [(widInt_neg a).1 hneg] at hwid; cases hwid
      · rw [fsgOf_link M ha]; exact hd

theorem Agree.baseR_iff {M : Model} {li : LexIn} (h : Agree M li) (s c : Nat) :
    baseR li (fsgOf M) s c ↔ c ∈ rcBase M s := by
  rw [mem_rcBase]
  unfold baseR
  rw [h.sil]
  constructor
  · rintro (h1 | ⟨lid, hl, hw, hd, hp⟩)
    · exact Or.inl h1
    · obtain ⟨a, ha, _⟩ := arc_of_lt M ((mem_allArcs li (fsgOf M) lid).1 hl).1
      rw [fsgOf_link M ha] at hw hd
      simp only at hw hd
      cases hwid : a.wid with
      | none => exact absurd ((widInt_neg a).2 hwid) hw
      | some wid =>
        obtain ⟨wd, h1, _, h3, _⟩ := h.wordArc ha hwid
        exact Or.inr ⟨(lid, a, wd), (mem_wordArcs M _).2 ⟨ha, wid, hwid, h1⟩, hd, by rw [← h3]; exact hp⟩
  · rintro (h1 | ⟨⟨i, a, w⟩, hx, hd, hp⟩)
    · exact Or.inl h1
    · obtain ⟨ha, wid, hwid, hwd⟩ := (mem_wordArcs M _).1 hx
      simp only at ha hwid hwd hd hp
      obtain ⟨wd, h1, _, h3, _⟩ := h.wordArc ha hwid
      have : wd = w := by rw [hwd] at h1; exact (Option.some.inj h1).symm
      subst this
      refine Or.inr ⟨i, h.arc_mem ha, ?_, ?_, by rw [h3]; exact hp⟩
      · rw [fsgOf_link M ha]
        simp only
        intro hneg
        rw [(widInt_neg a).1 hneg] at hwid; cases hwid
      · rw [fsgOf_link M ha]; exact hd

/-- members of the declarative sets are CI phones -/
theorem Agree.lcBase_lt {M : Model} {li : LexIn} (h : Agree M li) {s c : Nat} (hc : c ∈ lcBase M s) : c < li.nCi := by
  rcases (mem_lcBase M s c).1 hc with h1 | ⟨⟨i, a, w⟩, hx, _, hp⟩
  · rw [h1, ← h.sil]; exact h.silCi
  · obtain ⟨ha, wid, hwid, hwd⟩ := (mem_wordArcs M _).1 hx
    simp only at ha hwid hwd hp
    obtain ⟨wd, h1, _, _, h4, _⟩ := h.wordArc ha hwid
    have : wd = w := by rw [hwd] at h1; exact (Option.some.inj h1).symm
    subst this
    rw [← hp]; exact h4

theorem Agree.rcBase_lt {M : Model} {li : LexIn} (h : Agree M li) {s c : Nat} (hc : c ∈ rcBase M s) : c < li.nCi := by
  rcases (mem_rcBase M s c).1 hc with h1 | ⟨⟨i, a, w⟩, hx, _, hp⟩
  · rw [h1, ← h.sil]; exact h.silCi
  · obtain ⟨ha, wid, hwid, hwd⟩ := (mem_wordArcs M _).1 hx
    simp only at ha hwid hwd hp
    obtain ⟨wd, h1, _, _, _, h5⟩ := h.wordArc ha hwid
    have : wd = w := by rw [hwd] at h1; exact (Option.some.inj h1).symm
    subst this
    rw [← hp]; exact h5

theorem mem_nullArcs (M : Model) (n : Arc) : n ∈ nullArcs M ↔ n ∈ M.arcs ∧ n.wid = none := by
  unfold nullArcs
  simp [List.mem_filter]

/-- **the left-context phone list the lextree construction uses for state `s` (`lextree->lc[s]`, the list every
word-initial pnode set of `s` is built from) has exactly the members of the flat network's `lcSet M s`** -/
theorem lc_iff {M : Model} {li : LexIn} (h : Agree M li) {s : Nat} (hs : s < li.nState) (c : Nat) :
    c ∈ ctxList li ((ctxFlags li (fsgOf M)).1.getD s 0) ↔ c ∈ lcSet M s := by
  rw [mem_lcSet]
  unfold ctxList
  simp only [List.mem_filter, List.mem_range]
  constructor
  · rintro ⟨hc, hb⟩
    rcases (ctxFlags_lc li (fsgOf M) h.fsgOK hs hc).1 hb with h1 | ⟨lid, hl, hw, hd, hbase⟩
    · exact Or.inl ((h.baseL_iff s c).1 h1)
    · obtain ⟨a, ha, hm⟩ := arc_of_lt M ((mem_allArcs li (fsgOf M) lid).1 hl).1
      rw [fsgOf_link M ha] at hw hd hbase
      simp only at hw hd hbase
      exact Or.inr ⟨a, (mem_nullArcs M a).2 ⟨hm, (widInt_neg a).1 hw⟩, hd, (h.baseL_iff _ c).1 hbase⟩
  · intro hmem
    have hc : c < li.nCi := by
      rcases hmem with h1 | ⟨n, _, _, h1⟩
      · exact h.lcBase_lt h1
      · exact h.lcBase_lt h1
    refine ⟨hc, (ctxFlags_lc li (fsgOf M) h.fsgOK hs hc).2 ?_⟩
    rcases hmem with h1 | ⟨n, hn, hd, h1⟩
    · exact Or.inl ((h.baseL_iff s c).2 h1)
    · obtain ⟨hm, hnull⟩ := (mem_nullArcs M n).1 hn
      obtain ⟨i, hi⟩ := List.mem_iff_getElem?.1 hm
      refine Or.inr ⟨i, h.arc_mem hi, ?_⟩
      rw [fsgOf_link M hi]
      exact ⟨(widInt_neg n).2 hnull, hd, (h.baseL_iff _ c).2 h1⟩

/-- **the right-context phone list of state `s` (`lextree->rc[s]`, the list every word-final pnode set of an arc
into `s` is built from) has exactly the members of the flat network's `rcSet M s`** -/
theorem rc_iff {M : Model} {li : LexIn} (h : Agree M li) {s : Nat} (hs : s < li.nState) (c : Nat) :
    c ∈ ctxList li ((ctxFlags li (fsgOf M)).2.getD s 0) ↔ c ∈ rcSet M s := by
  rw [mem_rcSet]
  unfold ctxList
  simp only [List.mem_filter, List.mem_range]
  constructor
  · rintro ⟨hc, hb⟩
    rcases (ctxFlags_rc li (fsgOf M) h.fsgOK hs hc).1 hb with h1 | ⟨lid, hl, hw, hd, hbase⟩
    · exact Or.inl ((h.baseR_iff s c).1 h1)
    · obtain ⟨a, ha, hm⟩ := arc_of_lt M ((mem_allArcs li (fsgOf M) lid).1 hl).1
      rw [fsgOf_link M ha] at hw hd hbase
      simp only at hw hd hbase
      exact Or.inr ⟨a, (mem_nullArcs M a).2 ⟨hm, (widInt_neg a).1 hw⟩, hd, (h.baseR_iff _ c).1 hbase⟩
  · intro hmem
    have hc : c < li.nCi := by
      rcases hmem with h1 | ⟨n, _, _, h1⟩
      · exact h.rcBase_lt h1
      · exact h.rcBase_lt h1
    refine ⟨hc, (ctxFlags_rc li (fsgOf M) h.fsgOK hs hc).2 ?_⟩
    rcases hmem with h1 | ⟨n, hn, hd, h1⟩
    · exact Or.inl ((h.baseR_iff s c).2 h1)
    · obtain ⟨hm, hnull⟩ := (mem_nullArcs M n).1 hn
      obtain ⟨i, hi⟩ := List.mem_iff_getElem?.1 hm
      refine Or.inr ⟨i, h.arc_mem hi, ?_⟩
      rw [fsgOf_link M hi]
      exact ⟨(widInt_neg n).2 hnull, hd, (h.baseR_iff _ c).2 h1⟩

/-- both lists are duplicate-free, so they are equal as multisets too (`List.Perm`) -/
theorem ctxList_nodup (li : LexIn) (mask : Nat) : (ctxList li mask).Nodup := by
  unfold ctxList
  exact List.Nodup.sublist List.filter_sublist List.nodup_range

end SSVerif.LexFlat
