import SSVerif.Proofs.Protocol
import SSVerif.Model.ProtocolSys
/-! helper lemmas for the system level of C09 -/
namespace SSVerif.Protocol

@[simp] theorem inst_setInst_same (s : Sys) (i : Inst) (x : ApiState) : (s.setInst i x).inst i = x := by
  cases i <;> rfl

@[simp] theorem inst_setInst_other (s : Sys) (i : Inst) (x : ApiState) : (s.setInst i x).inst i.other = s.inst i.other := by
  cases i <;> rfl

theorem inst_setInst_ne (s : Sys) {i j : Inst} (h : j ≠ i) (x : ApiState) : (s.setInst i x).inst j = s.inst j := by
  cases i <;> cases j <;> first | rfl | exact absurd rfl h

@[simp] theorem inst_setCfgOf (s : Sys) (i j : Inst) (id : Nat) : (s.setCfgOf i id).inst j = s.inst j := by
  cases i <;> cases j <;> rfl

theorem other_ne (i : Inst) : i.other ≠ i := by cases i <;> simp [Inst.other]

theorem eq_other_of_ne {i j : Inst} (h : j ≠ i) : j = i.other := by
  cases i <;> cases j <;> first | rfl | exact absurd rfl h

/-- both decoder automata are well-formed -/
def SysWF (s : Sys) : Prop := WF s.da ∧ WF s.db

theorem SysWF.inst {s : Sys} (h : SysWF s) (i : Inst) : WF (s.inst i) := by
  cases i
  · exact h.1
  · exact h.2

theorem SysWF.setInst {s : Sys} (h : SysWF s) (i : Inst) {x : ApiState} (hx : WF x) : SysWF (s.setInst i x) := by
  cases i
  · exact ⟨hx, h.2⟩
  · exact ⟨h.1, hx⟩

/-- `SysWF` only looks at the two decoder states -/
theorem SysWF.of_eq {s s' : Sys} (h : SysWF s) (ha : s'.da = s.da) (hb : s'.db = s.db) : SysWF s' := by
  unfold SysWF; rw [ha, hb]; exact h

theorem sysStep_wf (s : Sys) (c : SysCall) (h : SysWF s) : SysWF (sysStep s c).1 := by
  have hstep : ∀ i dc, SysWF (s.setInst i (step (s.inst i) dc).1) :=
    fun i dc => h.setInst i (wf_step _ dc (h.inst i))
  cases c with
  | dec i c =>
    simp only [sysStep]
    split
    · exact h
    · exact hstep i c
  | initNew i jsgf g fails =>
    simp only [sysStep]
    split
    · have := hstep i (.init (mkCfg jsgf g).eff fails)
      cases i <;> exact this.of_eq rfl rfl
    · exact h
  | initHeld i k =>
    simp only [sysStep]
    split
    · exact h
    · split
      · exact h
      · split
        · exact h
        · split
          · rename_i id _ _ _ _
            have := hstep i (.init (getCfg s.cfgs id).eff false)
            cases i <;> exact this.of_eq rfl rfl
          · exact h.of_eq rfl rfl
  | reinitKeep i => simp only [sysStep]; exact hstep i _
  | reinitNew i jsgf g =>
    simp only [sysStep]
    split
    · exact h
    · have := hstep i (.reinit (mkCfg jsgf g).eff)
      cases i <;> exact this.of_eq rfl rfl
  | reinitHeld i k =>
    simp only [sysStep]
    split
    · exact h
    · split
      · exact h
      · split
        · exact h
        · split
          · exact hstep i _
          · rename_i id _ _ _ _
            have := hstep i (.reinit (getCfg s.cfgs id).eff)
            cases i <;> exact this.of_eq rfl rfl
  | cfgGram t jsgf g => simp only [sysStep]; split <;> first | exact h | exact h.of_eq rfl rfl
  | cfgCall t kt op safe =>
    simp only [sysStep]
    (repeat' split) <;> first | exact h | exact h.of_eq rfl rfl
  | cfgNew k jsgf g => simp only [sysStep]; split <;> first | exact h | exact h.of_eq rfl rfl
  | cfgRetainDec i k => simp only [sysStep]; split <;> first | exact h | exact h.of_eq rfl rfl
  | cfgRetainHeld k j => simp only [sysStep]; (repeat' split) <;> first | exact h | exact h.of_eq rfl rfl
  | cfgUse k => simp only [sysStep]; split <;> exact h
  | cfgFree k => simp only [sysStep]; split <;> first | exact h | exact h.of_eq rfl rfl
  | subRetain i kind k => simp only [sysStep]; split <;> first | exact h | exact h.of_eq rfl rfl
  | subUse kind k => simp only [sysStep]; split <;> exact h
  | subFree kind k => simp only [sysStep]; split <;> first | exact h | exact h.of_eq rfl rfl
  | mllrRead k ok => simp only [sysStep]; (repeat' split) <;> first | exact h | exact h.of_eq rfl rfl
  | mllrApply i k keep =>
    simp only [sysStep]
    split
    · exact h
    · split
      · exact h
      · split
        · exact hstep i _
        · have := hstep i (.mllrApply true)
          cases i <;> exact this.of_eq rfl rfl
  | mllrApplyNull i => simp only [sysStep]; exact hstep i _
  | mllrFree k => simp only [sysStep]; split <;> first | exact h | exact h.of_eq rfl rfl

theorem sysWF_sys0 : SysWF sys0 := ⟨wf_init0, wf_init0⟩

theorem sysRun_wf (s : Sys) (h : SysWF s) (cs : List SysCall) : SysWF (sysRun s cs) := by
  induction cs generalizing s with
  | nil => exact h
  | cons c cs ih => exact ih _ (sysStep_wf s c h)

/-! ### isolation of the two instances -/

macro "iso_b" : tactic =>
  `(tactic| (simp only [sysStep, Sys.setInst, Sys.setCfgOf]
             (repeat' (first | rfl | split))
             all_goals (first | rfl | simp [apply_ite Prod.fst, apply_ite Sys.da, apply_ite Sys.db])))

theorem sysStep_da (s : Sys) (c : SysCall) (h : instOf c ≠ some .a) : (sysStep s c).1.da = s.da := by
  cases c with
  | dec j c => cases j; · exact absurd rfl h
               · iso_b
  | initNew j jsgf g fails => cases j; · exact absurd rfl h
                              · iso_b
  | initHeld j k => cases j; · exact absurd rfl h
                    · iso_b
  | reinitKeep j => cases j; · exact absurd rfl h
                    · iso_b
  | reinitNew j jsgf g => cases j; · exact absurd rfl h
                          · iso_b
  | reinitHeld j k => cases j; · exact absurd rfl h
                      · iso_b
  | cfgGram t jsgf g =>
    cases t with
    | dec j => cases j; · exact absurd rfl h
               · iso_b
    | held k => iso_b
  | cfgCall t kt op safe =>
    cases t with
    | dec j => cases j; · exact absurd rfl h
               · iso_b
    | held k => iso_b
  | cfgRetainDec j k => cases j; · exact absurd rfl h
                        · iso_b
  | subRetain j kind k => cases j; · exact absurd rfl h
                          · iso_b
  | mllrApply j k keep => cases j; · exact absurd rfl h
                          · iso_b
  | mllrApplyNull j => cases j; · exact absurd rfl h
                       · iso_b
  | cfgNew k jsgf g => iso_b
  | cfgRetainHeld k j => iso_b
  | cfgUse k => iso_b
  | cfgFree k => iso_b
  | subUse kind k => iso_b
  | subFree kind k => iso_b
  | mllrRead k ok => iso_b
  | mllrFree k => iso_b

theorem sysStep_db (s : Sys) (c : SysCall) (h : instOf c ≠ some .b) : (sysStep s c).1.db = s.db := by
  cases c with
  | dec j c => cases j; · iso_b
               · exact absurd rfl h
  | initNew j jsgf g fails => cases j; · iso_b
                              · exact absurd rfl h
  | initHeld j k => cases j; · iso_b
                    · exact absurd rfl h
  | reinitKeep j => cases j; · iso_b
                    · exact absurd rfl h
  | reinitNew j jsgf g => cases j; · iso_b
                          · exact absurd rfl h
  | reinitHeld j k => cases j; · iso_b
                      · exact absurd rfl h
  | cfgGram t jsgf g =>
    cases t with
    | dec j => cases j; · iso_b
               · exact absurd rfl h
    | held k => iso_b
  | cfgCall t kt op safe =>
    cases t with
    | dec j => cases j; · iso_b
               · exact absurd rfl h
    | held k => iso_b
  | cfgRetainDec j k => cases j; · iso_b
                        · exact absurd rfl h
  | subRetain j kind k => cases j; · iso_b
                          · exact absurd rfl h
  | mllrApply j k keep => cases j; · iso_b
                          · exact absurd rfl h
  | mllrApplyNull j => cases j; · iso_b
                       · exact absurd rfl h
  | cfgNew k jsgf g => iso_b
  | cfgRetainHeld k j => iso_b
  | cfgUse k => iso_b
  | cfgFree k => iso_b
  | subUse kind k => iso_b
  | subFree kind k => iso_b
  | mllrRead k ok => iso_b
  | mllrFree k => iso_b

/-- a call that is not made on instance `i` leaves the whole decoder state of `i` (protocol state, iterators,
lattice and alignment references) untouched -/
theorem sysStep_other_inst (s : Sys) (c : SysCall) (i : Inst) (h : instOf c ≠ some i) :
    (sysStep s c).1.inst i = s.inst i := by
  cases i
  · exact sysStep_da s c h
  · exact sysStep_db s c h

/-! ### solo equivalence for decoders that use their own configurations -/

theorem getCfg_putCfg_same (l : List (Nat × CfgObj)) (id : Nat) (o : CfgObj) : getCfg (putCfg l id o) id = o := by
  simp [getCfg, putCfg]

theorem find_filter_ne (l : List (Nat × CfgObj)) {id id' : Nat} (h : id' ≠ id) :
    (l.filter (·.1 != id)).find? (·.1 == id') = l.find? (·.1 == id') := by
  rw [List.find?_filter]
  congr 1
  funext a
  by_cases hq : a.1 = id'
  · have hne : a.1 ≠ id := fun e => h (hq ▸ e)
    simp [hq, hne, h]
  · simp [hq]

theorem getCfg_putCfg_ne (l : List (Nat × CfgObj)) {id id' : Nat} (o : CfgObj) (h : id' ≠ id) :
    getCfg (putCfg l id o) id' = getCfg l id' := by
  unfold getCfg putCfg
  have h1 : ¬ id = id' := fun e => h e.symm
  rw [List.find?_cons_of_neg (by simpa using h1), find_filter_ne l h]

/-- the two decoders' configuration identities are distinct and below the allocation counter -/
def CfgSep (s : Sys) : Prop := s.cfgA ≠ s.cfgB ∧ s.cfgA < s.nextCfg ∧ s.cfgB < s.nextCfg

theorem cfgSep_sys0 : CfgSep sys0 := by simp [CfgSep, sys0]

theorem CfgSep.ne {s : Sys} (h : CfgSep s) (i : Inst) : s.cfgOf i.other ≠ s.cfgOf i := by
  cases i
  · exact fun e => h.1 e.symm
  · exact h.1

theorem CfgSep.lt {s : Sys} (h : CfgSep s) (i : Inst) : s.cfgOf i < s.nextCfg := by
  cases i
  · exact h.2.1
  · exact h.2.2

@[simp] theorem cfgOf_setInst (s : Sys) (i j : Inst) (x : ApiState) : (s.setInst i x).cfgOf j = s.cfgOf j := by
  cases i <;> cases j <;> rfl
@[simp] theorem cfgs_setInst (s : Sys) (i : Inst) (x : ApiState) : (s.setInst i x).cfgs = s.cfgs := by cases i <;> rfl
@[simp] theorem nextCfg_setInst (s : Sys) (i : Inst) (x : ApiState) : (s.setInst i x).nextCfg = s.nextCfg := by
  cases i <;> rfl
@[simp] theorem cfgOf_setCfgOf_same (s : Sys) (i : Inst) (id : Nat) : (s.setCfgOf i id).cfgOf i = id := by cases i <;> rfl
@[simp] theorem cfgOf_setCfgOf_other (s : Sys) (i : Inst) (id : Nat) : (s.setCfgOf i id).cfgOf i.other = s.cfgOf i.other := by
  cases i <;> rfl
@[simp] theorem cfgs_setCfgOf (s : Sys) (i : Inst) (id : Nat) : (s.setCfgOf i id).cfgs = s.cfgs := by cases i <;> rfl
@[simp] theorem nextCfg_setCfgOf (s : Sys) (i : Inst) (id : Nat) : (s.setCfgOf i id).nextCfg = s.nextCfg := by
  cases i <;> rfl
@[simp] theorem inst_withStore (s : Sys) (i : Inst) (c : List (Nat × CfgObj)) (n : Nat) :
    ({ s with cfgs := c, nextCfg := n } : Sys).inst i = s.inst i := by cases i <;> rfl
@[simp] theorem cfgOf_withStore (s : Sys) (i : Inst) (c : List (Nat × CfgObj)) (n : Nat) :
    ({ s with cfgs := c, nextCfg := n } : Sys).cfgOf i = s.cfgOf i := by cases i <;> rfl
@[simp] theorem inst_withCfgs (s : Sys) (i : Inst) (c : List (Nat × CfgObj)) :
    ({ s with cfgs := c } : Sys).inst i = s.inst i := by cases i <;> rfl
@[simp] theorem cfgOf_withCfgs (s : Sys) (i : Inst) (c : List (Nat × CfgObj)) :
    ({ s with cfgs := c } : Sys).cfgOf i = s.cfgOf i := by cases i <;> rfl

/-- what instance `i` can observe of the system: its own decoder state and the content of its configuration -/
def SoloRel (i : Inst) (s1 s2 : Sys) : Prop :=
  s1.inst i = s2.inst i ∧ getCfg s1.cfgs (s1.cfgOf i) = getCfg s2.cfgs (s2.cfgOf i)

/-- a call of instance `i` that only involves `i`'s own configuration does the same thing in two systems that
look the same to `i` -/
theorem solo_self {i : Inst} {s1 s2 : Sys} (hr : SoloRel i s1 s2) (c : SysCall) (hi : instOf c = some i)
    (ho : ownOnly c = true) :
    SoloRel i (sysStep s1 c).1 (sysStep s2 c).1 ∧ (sysStep s1 c).2 = (sysStep s2 c).2 := by
  obtain ⟨h1, h2⟩ := hr
  cases c with
  | dec j dc =>
    have : j = i := by simpa [instOf] using hi
    subst this
    simp only [sysStep]
    split
    · exact ⟨⟨h1, h2⟩, rfl⟩
    · rw [h1]; exact ⟨⟨by simp, by simpa using h2⟩, rfl⟩
  | initNew j jsgf g fails =>
    have : j = i := by simpa [instOf] using hi
    subst this
    simp only [sysStep]
    rw [h1]
    split
    · exact ⟨⟨by simp, by simp [getCfg_putCfg_same]⟩, rfl⟩
    · exact ⟨⟨h1, h2⟩, rfl⟩
  | reinitKeep j =>
    have : j = i := by simpa [instOf] using hi
    subst this
    simp only [sysStep]
    rw [h1, h2]
    exact ⟨⟨by simp, by simpa using h2⟩, rfl⟩
  | reinitNew j jsgf g =>
    have : j = i := by simpa [instOf] using hi
    subst this
    simp only [sysStep]
    rw [h1]
    split
    · exact ⟨⟨h1, h2⟩, rfl⟩
    · exact ⟨⟨by simp, by simp [getCfg_putCfg_same]⟩, rfl⟩
  | cfgGram t jsgf g =>
    cases t with
    | held k => simp [ownOnly] at ho
    | dec j =>
      have : j = i := by simpa [instOf] using hi
      subst this
      simp only [sysStep, targetObj]
      rw [h1]
      by_cases ha : (s2.inst j).refs ≠ 0
      · rw [if_pos ha, if_pos ha]
        refine ⟨⟨by simpa using h1, ?_⟩, rfl⟩
        simp [getCfg_putCfg_same, h2]
      · rw [if_neg ha, if_neg ha]
        exact ⟨⟨h1, h2⟩, rfl⟩
  | cfgCall t kt op safe =>
    cases t with
    | held k => simp [ownOnly] at ho
    | dec j =>
      have : j = i := by simpa [instOf] using hi
      subst this
      simp only [sysStep, targetObj]
      rw [h1]
      by_cases ha : (s2.inst j).refs ≠ 0
      · rw [if_pos ha, if_pos ha]
        by_cases hs : safe = true
        · simp only [hs, if_true]
          exact ⟨⟨h1, h2⟩, trivial⟩
        · -- an unsafe change of the configuration of a live decoder is out-of-protocol in both
          have u1 : inUse s1 (s1.cfgOf j) = true := by
            cases j <;> simp [inUse, Sys.cfgOf, Sys.inst] at h1 ha ⊢ <;> simp [h1, ha]
          have u2 : inUse s2 (s2.cfgOf j) = true := by
            cases j <;> simp [inUse, Sys.cfgOf, Sys.inst] at ha ⊢ <;> simp [ha]
          simp only [hs, u1, u2, if_true, if_false, Bool.false_eq_true]
          exact ⟨⟨h1, h2⟩, trivial⟩
      · rw [if_neg ha, if_neg ha]
        exact ⟨⟨h1, h2⟩, rfl⟩
  | _ => simp [ownOnly] at ho

/-- what an own-configuration call of instance `j` does to the configuration store: the other decoder's identity
stays, and only the objects `nextCfg` (a new one) and `cfgOf j` (its own) can change -/
theorem own_store {s : Sys} (c : SysCall) (j : Inst) (hi : instOf c = some j) (ho : ownOnly c = true) :
    (sysStep s c).1.cfgOf j.other = s.cfgOf j.other ∧
    ∀ id, id ≠ s.nextCfg → id ≠ s.cfgOf j → getCfg (sysStep s c).1.cfgs id = getCfg s.cfgs id := by
  cases c with
  | dec k dc =>
    have : k = j := by simpa [instOf] using hi
    subst this
    simp only [sysStep]
    split <;> simp
  | initNew k jsgf g fails =>
    have : k = j := by simpa [instOf] using hi
    subst this
    simp only [sysStep]
    split
    · refine ⟨by simp, fun id h1 _ => ?_⟩
      simp [getCfg_putCfg_ne _ _ h1]
    · simp
  | reinitKeep k =>
    have : k = j := by simpa [instOf] using hi
    subst this
    simp [sysStep]
  | reinitNew k jsgf g =>
    have : k = j := by simpa [instOf] using hi
    subst this
    simp only [sysStep]
    split
    · simp
    · refine ⟨by simp, fun id h1 _ => ?_⟩
      simp [getCfg_putCfg_ne _ _ h1]
  | cfgGram t jsgf g =>
    cases t with
    | held k => simp [ownOnly] at ho
    | dec k =>
      have : k = j := by simpa [instOf] using hi
      subst this
      simp only [sysStep, targetObj]
      by_cases ha : (s.inst k).refs ≠ 0
      · rw [if_pos ha]
        refine ⟨by simp, fun id _ h2 => ?_⟩
        simp [getCfg_putCfg_ne _ _ h2]
      · rw [if_neg ha]; simp
  | cfgCall t kt op safe =>
    cases t with
    | held k => simp [ownOnly] at ho
    | dec k =>
      have : k = j := by simpa [instOf] using hi
      subst this
      simp only [sysStep, targetObj]
      by_cases ha : (s.inst k).refs ≠ 0
      · rw [if_pos ha]
        by_cases hs : safe = true
        · simp [hs]
        · have u : inUse s (s.cfgOf k) = true := by
            cases k <;> simp [inUse, Sys.cfgOf, Sys.inst] at ha ⊢ <;> simp [ha]
          simp [hs, u]
      · rw [if_neg ha]; simp
  | _ => simp [ownOnly] at ho

/-- the separation of the two decoders' configurations is kept by own-configuration calls -/
theorem cfgSep_step {s : Sys} (h : CfgSep s) (c : SysCall) (ho : ownOnly c = true) : CfgSep (sysStep s c).1 := by
  obtain ⟨hne, ha, hb⟩ := h
  cases c with
  | dec k dc =>
    simp only [sysStep]
    split
    · exact ⟨hne, ha, hb⟩
    · cases k <;> exact ⟨hne, ha, hb⟩
  | initNew k jsgf g fails =>
    simp only [sysStep]
    split
    · cases k
      · exact ⟨by simp [Sys.setCfgOf, Sys.setInst]; omega, by simp [Sys.setCfgOf, Sys.setInst],
               by simp [Sys.setCfgOf, Sys.setInst]; omega⟩
      · exact ⟨by simp [Sys.setCfgOf, Sys.setInst]; omega, by simp [Sys.setCfgOf, Sys.setInst]; omega,
               by simp [Sys.setCfgOf, Sys.setInst]⟩
    · exact ⟨hne, ha, hb⟩
  | reinitKeep k => simp only [sysStep]; cases k <;> exact ⟨hne, ha, hb⟩
  | reinitNew k jsgf g =>
    simp only [sysStep]
    split
    · exact ⟨hne, ha, hb⟩
    · cases k
      · exact ⟨by simp [Sys.setCfgOf, Sys.setInst]; omega, by simp [Sys.setCfgOf, Sys.setInst],
               by simp [Sys.setCfgOf, Sys.setInst]; omega⟩
      · exact ⟨by simp [Sys.setCfgOf, Sys.setInst]; omega, by simp [Sys.setCfgOf, Sys.setInst]; omega,
               by simp [Sys.setCfgOf, Sys.setInst]⟩
  | cfgGram t jsgf g =>
    simp only [sysStep]
    split <;> exact ⟨hne, ha, hb⟩
  | cfgCall t kt op safe =>
    simp only [sysStep]
    (repeat' split) <;> exact ⟨hne, ha, hb⟩
  | _ => simp [ownOnly] at ho

/-- an own-configuration call of the OTHER instance changes nothing `i` can observe -/
theorem solo_other {i : Inst} {s1 s2 : Sys} (hr : SoloRel i s1 s2) (hs : CfgSep s1) (c : SysCall)
    (hi : instOf c = some i.other) (ho : ownOnly c = true) : SoloRel i (sysStep s1 c).1 s2 := by
  obtain ⟨h1, h2⟩ := hr
  have hne : instOf c ≠ some i := by rw [hi]; simpa using other_ne i
  obtain ⟨e1, e2⟩ := own_store (s := s1) c i.other hi ho
  have oo : i.other.other = i := by cases i <;> rfl
  rw [oo] at e1
  refine ⟨by rw [sysStep_other_inst s1 c i hne]; exact h1, ?_⟩
  rw [e1, e2 _ (Nat.ne_of_lt (hs.lt i)) (fun e => hs.ne i e.symm)]
  exact h2

end SSVerif.Protocol
