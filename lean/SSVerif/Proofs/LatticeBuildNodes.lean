import SSVerif.Proofs.LatticeBuildDefs
/-!
# First pass of `fsg_search_lattice`: `buildNodes` yields `NodesOK`
-/
namespace SSVerif.Lattice
open SSVerif.Nfa
namespace BuildNodes

theorem node_eq (b : Build) (v : Nat) : b.node v = (b.nodes[v]?).getD default := by
  unfold Build.node; exact Array.getD_eq_getD_getElem?

theorem node_lt (b : Build) (v : Nat) (hv : v < b.nodes.size) : b.node v = b.nodes[v] := by
  rw [node_eq]; simp [hv]

/-- `findNode` found: index in range with the key -/
theorem findNode_some {b : Build} {sf w : Nat} {st : Option Nat} {i : Nat}
    (hf : findNode b sf w st = some i) :
    i < b.nodes.size ∧ (b.node i).sf = sf ∧ (b.node i).word = w ∧ (b.node i).state = st := by
  unfold findNode at hf
  rw [Array.findIdx?_eq_some_iff_getElem] at hf
  obtain ⟨hi, hp, _⟩ := hf
  refine ⟨hi, ?_⟩
  rw [node_lt b i hi]
  simpa using hp

/-- `findNode` not found: no node has the key -/
theorem findNode_none {b : Build} {sf w : Nat} {st : Option Nat}
    (hf : findNode b sf w st = none) (v : Nat) (hv : v < b.nodes.size) :
    ¬ ((b.node v).sf = sf ∧ (b.node v).word = w ∧ (b.node v).state = st) := by
  unfold findNode at hf
  rw [Array.findIdx?_eq_none_iff] at hf
  have := hf b.nodes[v] (Array.getElem_mem hv)
  rw [node_lt b v hv]
  simpa using this

/-- what `newNode` does, without array operations: either the key exists at `i` and only `fef`/`lef`/`bestExit`
of node `i` change, or no node has the key and one node is appended -/
theorem newNode_spec (b : Build) (sf ef w : Nat) (st : Option Nat) (ascr : Int) :
    (newNode b sf ef w st ascr).links = b.links ∧
    ((∃ i, i < b.nodes.size ∧ (newNode b sf ef w st ascr).nodes.size = b.nodes.size ∧
        (b.node i).sf = sf ∧ (b.node i).word = w ∧ (b.node i).state = st ∧
        (∀ v, v ≠ i → (newNode b sf ef w st ascr).node v = b.node v) ∧
        ((newNode b sf ef w st ascr).node i).sf = sf ∧ ((newNode b sf ef w st ascr).node i).word = w ∧
        ((newNode b sf ef w st ascr).node i).state = st ∧
        ((newNode b sf ef w st ascr).node i).fef = min (b.node i).fef ef ∧
        ((newNode b sf ef w st ascr).node i).lef = max (b.node i).lef ef) ∨
     ((∀ v, v < b.nodes.size → ¬ ((b.node v).sf = sf ∧ (b.node v).word = w ∧ (b.node v).state = st)) ∧
        (newNode b sf ef w st ascr).nodes.size = b.nodes.size + 1 ∧
        (∀ v, v < b.nodes.size → (newNode b sf ef w st ascr).node v = b.node v) ∧
        (newNode b sf ef w st ascr).node b.nodes.size = ⟨w, sf, ef, ef, st, ascr⟩)) := by
  unfold newNode
  cases hf : findNode b sf w st with
  | some i =>
    obtain ⟨hi, h1, h2, h3⟩ := findNode_some hf
    refine ⟨rfl, Or.inl ⟨i, hi, ?_, h1, h2, h3, ?_, ?_⟩⟩
    · simp only [Array.size_modify]
    · intro v hv
      simp only [node_eq, Array.getElem?_modify]
      rw [if_neg (fun h => hv h.symm)]
    · have hn : ∀ (g : BNode → BNode), (({ b with nodes := b.nodes.modify i g } : Build).node i) = g (b.node i) := by
        intro g
        simp only [node_eq, Array.getElem?_modify, if_true]
        simp [hi]
      simp only [hn]
      refine ⟨h1, h2, h3, ?_, ?_⟩
      · simp only [Nat.min_def]; split <;> split <;> omega
      · simp only [Nat.max_def]; split <;> split <;> omega
  | none =>
    refine ⟨rfl, Or.inr ⟨findNode_none hf, ?_, ?_, ?_⟩⟩
    · simp only [Array.size_push]
    · intro v hv
      simp only [node_eq, Array.getElem?_push]
      rw [if_neg (by omega)]
    · simp only [node_eq, Array.getElem?_push, if_true, Option.getD_some]

theorem sf_eq (h : Array HEntry) (e : HEntry) :
    (entrySfAscr h e).1 = if e.pred ≠ 0 then ((hent h e.pred.toNat).frame + 1).toNat else 0 := by
  unfold entrySfAscr hent
  split <;> rfl

/-- what `HistWF` gives for the word entry at index `k` -/
theorem entry_facts (G : Nfa) (h : Array HEntry) (frame : Nat) (hwf : HistWF G h frame)
    (k : Nat) (hk : k < h.size) (f w t : Nat) (harc : (hent h k).arc = some (f, some w, t)) :
    1 ≤ (hent h k).frame ∧ (hent h k).frame < frame ∧
    (entrySfAscr h (hent h k)).1 ≤ (hent h k).frame.toNat ∧
    ((entrySfAscr h (hent h k)).1 = 0 → stepOK G G.start w t) ∧
    (0 < (entrySfAscr h (hent h k)).1 → ∃ j f' w' t', j < h.size ∧
      (hent h j).arc = some (f', some w', t') ∧
      ((hent h j).frame + 1).toNat = (entrySfAscr h (hent h k)).1 ∧ stepOK G t' w t) := by
  have hw := hwf k hk
  unfold EntryWF at hw
  rw [harc] at hw
  simp only at hw
  obtain ⟨harcG, h1, h2, hp⟩ := hw
  rw [sf_eq]
  generalize hent h k = e at *
  unfold PredOK at hp
  by_cases hp0 : e.pred = 0
  · rw [if_pos hp0] at hp
    simp only [hp0, ne_eq, not_true_eq_false, if_false]
    refine ⟨h1, h2, Nat.zero_le _, ?_, ?_⟩
    · intro _; subst hp; exact Or.inl harcG
    · intro hc; exact absurd hc (Nat.lt_irrefl 0)
  · rw [if_neg hp0] at hp
    obtain ⟨hpos, hlt, hfr, hm⟩ := hp
    simp only [ne_eq, hp0, not_false_eq_true, if_true]
    generalize hpe : hent h e.pred.toNat = p at *
    refine ⟨h1, h2, by omega, ?_, ?_⟩
    · intro hz
      cases hpa : p.arc with
      | none => rw [hpa] at hm; exact absurd hm (by simp)
      | some a =>
        obtain ⟨pf, pw, pt⟩ := a
        cases pw with
        | some pw =>
          rw [hpa] at hm; simp only at hm
          omega
        | none =>
          rw [hpa] at hm; simp only at hm
          obtain ⟨hpt, hpG, hnp⟩ := hm
          unfold NullPredOK at hnp
          by_cases hpp : p.pred = 0
          · rw [if_pos hpp] at hnp
            right
            refine ⟨(pf, none, pt), hpG, hnp.1, rfl, ?_⟩
            simp only; rw [hpt]; exact harcG
          · rw [if_neg hpp] at hnp
            omega
    · intro hz
      cases hpa : p.arc with
      | none => rw [hpa] at hm; exact absurd hm (by simp)
      | some a =>
        obtain ⟨pf, pw, pt⟩ := a
        cases pw with
        | some pw =>
          rw [hpa] at hm; simp only at hm
          refine ⟨e.pred.toNat, pf, pw, pt, by omega, ?_, ?_, ?_⟩
          · rw [hpe]; exact hpa
          · rw [hpe]
          · left; rw [hm.1]; exact harcG
        | none =>
          rw [hpa] at hm; simp only at hm
          obtain ⟨hpt, hpG, hnp⟩ := hm
          unfold NullPredOK at hnp
          by_cases hpp : p.pred = 0
          · rw [if_pos hpp] at hnp
            omega
          · rw [if_neg hpp] at hnp
            obtain ⟨hpp0, hpplt, hppfr, hpfr0, hmm⟩ := hnp
            cases hppa : (hent h p.pred.toNat).arc with
            | none => rw [hppa] at hmm; exact absurd hmm (by simp)
            | some a2 =>
              obtain ⟨ppf, ppw, ppt⟩ := a2
              cases ppw with
              | none => rw [hppa] at hmm; exact absurd hmm (by simp)
              | some ppw =>
                rw [hppa] at hmm; simp only at hmm
                refine ⟨p.pred.toNat, ppf, ppw, ppt, by omega, hppa, by rw [hppfr], ?_⟩
                right
                refine ⟨(pf, none, pt), hpG, hmm.symm, rfl, ?_⟩
                simp only; rw [hpt]; exact harcG

/-- `NodesOK` with the coverage clause restricted to the entries `i < k` processed so far -/
structure Inv (G : Nfa) (h : Array HEntry) (frame : Nat) (k : Nat) (b : Build) : Prop where
  nolinks : b.links = #[]
  keys : ∀ u v, u < b.nodes.size → v < b.nodes.size → (b.node u).sf = (b.node v).sf →
    (b.node u).word = (b.node v).word → (b.node u).state = (b.node v).state → u = v
  node : ∀ v, v < b.nodes.size → ∃ t, (b.node v).state = some t ∧
    (b.node v).sf ≤ (b.node v).fef ∧ (b.node v).fef ≤ (b.node v).lef ∧ 1 ≤ (b.node v).lef ∧
    (b.node v).lef < frame ∧ ((b.node v).sf = 0 → stepOK G G.start (b.node v).word t) ∧
    (0 < (b.node v).sf → ∃ j f' w' t', j < h.size ∧ (hent h j).arc = some (f', some w', t') ∧
      ((hent h j).frame + 1).toNat = (b.node v).sf ∧ stepOK G t' (b.node v).word t)
  covered : ∀ i f w t, i < k → i < h.size → (hent h i).arc = some (f, some w, t) →
    ∃ v, v < b.nodes.size ∧ (b.node v).sf = (entrySfAscr h (hent h i)).1 ∧ (b.node v).word = w ∧
      (b.node v).state = some t ∧ (b.node v).fef ≤ (hent h i).frame.toNat ∧
      (hent h i).frame.toNat ≤ (b.node v).lef

theorem inv_init (G : Nfa) (h : Array HEntry) (frame : Nat) :
    Inv G h frame 0 { nodes := #[], links := #[] } where
  nolinks := rfl
  keys := by intro u v hu; simp at hu
  node := by intro v hv; simp at hv
  covered := by intro i f w t hi; omega

/-- an entry that is not a word entry: nothing to cover -/
theorem inv_skip {G : Nfa} {h : Array HEntry} {frame k : Nat} {b : Build} (hinv : Inv G h frame k b)
    (hna : ∀ f w t, (hent h k).arc ≠ some (f, some w, t)) : Inv G h frame (k + 1) b where
  nolinks := hinv.nolinks
  keys := hinv.keys
  node := hinv.node
  covered := by
    intro i f w t hi hs harc
    by_cases hik : i = k
    · subst hik; exact absurd harc (hna f w t)
    · exact hinv.covered i f w t (by omega) hs harc

/-- the step of `buildNodes` at a word entry -/
theorem inv_word {G : Nfa} {h : Array HEntry} {frame k : Nat} {b : Build} (hwf : HistWF G h frame)
    (hinv : Inv G h frame k b) (hk : k < h.size) (f w t : Nat)
    (harc : (hent h k).arc = some (f, some w, t)) :
    Inv G h frame (k + 1) (newNode b (entrySfAscr h (hent h k)).1 (hent h k).frame.toNat w (some t)
      (entrySfAscr h (hent h k)).2) := by
  obtain ⟨hf1, hf2, hsfle, hz, hpos⟩ := entry_facts G h frame hwf k hk f w t harc
  have hef1 : 1 ≤ (hent h k).frame.toNat := by omega
  have hef2 : (hent h k).frame.toNat < frame := by omega
  obtain ⟨hl, hcase⟩ := newNode_spec b (entrySfAscr h (hent h k)).1 (hent h k).frame.toNat w (some t)
    (entrySfAscr h (hent h k)).2
  generalize newNode b (entrySfAscr h (hent h k)).1 (hent h k).frame.toNat w (some t)
    (entrySfAscr h (hent h k)).2 = b' at *
  generalize hsfdef : (entrySfAscr h (hent h k)).1 = sf at *
  generalize hefdef : (hent h k).frame.toNat = ef at *
  rcases hcase with ⟨i, hi, hsz, hk1, hk2, hk3, hoth, hn1, hn2, hn3, hn4, hn5⟩ |
    ⟨hnone, hsz, hold, hnew⟩
  · -- the key exists
    have hkey : ∀ u, (b'.node u).sf = (b.node u).sf ∧ (b'.node u).word = (b.node u).word ∧
        (b'.node u).state = (b.node u).state := by
      intro u
      by_cases hu : u = i
      · subst hu; rw [hn1, hn2, hn3, hk1, hk2, hk3]; exact ⟨rfl, rfl, rfl⟩
      · rw [hoth u hu]; exact ⟨rfl, rfl, rfl⟩
    have hfl : ∀ u, (b'.node u).fef ≤ (b.node u).fef ∧ (b.node u).lef ≤ (b'.node u).lef := by
      intro u
      by_cases hu : u = i
      · subst hu; rw [hn4, hn5]; omega
      · rw [hoth u hu]; omega
    refine ⟨by rw [hl]; exact hinv.nolinks, ?_, ?_, ?_⟩
    · intro u v hu hv h1 h2 h3
      rw [hsz] at hu hv
      rw [(hkey u).1, (hkey v).1] at h1
      rw [(hkey u).2.1, (hkey v).2.1] at h2
      rw [(hkey u).2.2, (hkey v).2.2] at h3
      exact hinv.keys u v hu hv h1 h2 h3
    · intro v hv
      rw [hsz] at hv
      by_cases hvi : v = i
      · subst hvi
        obtain ⟨t', ht', ha, hb, hc, hd, he, hg⟩ := hinv.node v hv
        refine ⟨t', ?_, ?_, ?_, ?_, ?_, ?_, ?_⟩
        · rw [(hkey v).2.2]; exact ht'
        · rw [hn1, hn4]; omega
        · rw [hn4, hn5]; omega
        · rw [hn5]; omega
        · rw [hn5]; omega
        · rw [(hkey v).1, (hkey v).2.1]; exact he
        · rw [(hkey v).1, (hkey v).2.1]; exact hg
      · rw [hoth v hvi]; exact hinv.node v hv
    · intro i' f' w' t' hi' hs' harc'
      by_cases hik : i' = k
      · subst hik
        rw [harc] at harc'
        simp only [Option.some.injEq, Prod.mk.injEq] at harc'
        obtain ⟨_, hw', ht'⟩ := harc'
        subst hw' ht'
        refine ⟨i, by omega, ?_, hn2, hn3, ?_, ?_⟩
        · rw [hn1, hsfdef]
        · rw [hn4, hefdef]; omega
        · rw [hn5, hefdef]; omega
      · obtain ⟨v, hv, c1, c2, c3, c4, c5⟩ := hinv.covered i' f' w' t' (by omega) hs' harc'
        refine ⟨v, by omega, ?_, ?_, ?_, ?_, ?_⟩
        · rw [(hkey v).1]; exact c1
        · rw [(hkey v).2.1]; exact c2
        · rw [(hkey v).2.2]; exact c3
        · have := (hfl v).1; omega
        · have := (hfl v).2; omega
  · -- a new node is appended
    refine ⟨by rw [hl]; exact hinv.nolinks, ?_, ?_, ?_⟩
    · intro u v hu hv h1 h2 h3
      rw [hsz] at hu hv
      by_cases hus : u < b.nodes.size
      · by_cases hvs : v < b.nodes.size
        · rw [hold u hus, hold v hvs] at h1 h2 h3
          exact hinv.keys u v hus hvs h1 h2 h3
        · have hve : v = b.nodes.size := by omega
          subst hve
          rw [hold u hus, hnew] at h1 h2 h3
          exact absurd ⟨h1, h2, h3⟩ (hnone u hus)
      · have hue : u = b.nodes.size := by omega
        by_cases hvs : v < b.nodes.size
        · subst hue
          rw [hold v hvs, hnew] at h1 h2 h3
          exact absurd ⟨h1.symm, h2.symm, h3.symm⟩ (hnone v hvs)
        · omega
    · intro v hv
      rw [hsz] at hv
      by_cases hvs : v < b.nodes.size
      · rw [hold v hvs]; exact hinv.node v hvs
      · have hve : v = b.nodes.size := by omega
        subst hve
        rw [hnew]
        exact ⟨t, rfl, hsfle, Nat.le_refl _, hef1, hef2, hz, hpos⟩
    · intro i' f' w' t' hi' hs' harc'
      by_cases hik : i' = k
      · subst hik
        rw [harc] at harc'
        simp only [Option.some.injEq, Prod.mk.injEq] at harc'
        obtain ⟨_, hw', ht'⟩ := harc'
        subst hw' ht'
        refine ⟨b.nodes.size, by omega, ?_⟩
        rw [hnew]
        exact ⟨hsfdef.symm, rfl, rfl, by rw [hefdef]; exact Nat.le_refl _, by rw [hefdef]; exact Nat.le_refl _⟩
      · obtain ⟨v, hv, c⟩ := hinv.covered i' f' w' t' (by omega) hs' harc'
        refine ⟨v, by omega, ?_⟩
        rw [hold v hv]; exact c

/-- one step of the fold in `buildNodes` -/
def step (h : Array HEntry) (b : Build) (e : HEntry) : Build :=
  match e.arc with
  | some (_, some w, to) =>
    let (sf, ascr) := entrySfAscr h e
    newNode b sf e.frame.toNat w (some to) ascr
  | _ => b

theorem buildNodes_eq (h : Array HEntry) :
    buildNodes h = h.toList.foldl (step h) { nodes := #[], links := #[] } := by
  unfold buildNodes
  rw [Array.foldl_toList]
  rfl

theorem inv_step {G : Nfa} {h : Array HEntry} {frame k : Nat} {b : Build} (hwf : HistWF G h frame)
    (hinv : Inv G h frame k b) (hk : k < h.size) : Inv G h frame (k + 1) (step h b (hent h k)) := by
  unfold step
  split
  · rename_i f w t harc
    exact inv_word hwf hinv hk f w t harc
  · rename_i hna
    exact inv_skip hinv (fun f w t harc => hna f w t harc)

theorem hent_toList (h : Array HEntry) (pre post : List HEntry) (e : HEntry)
    (hs : pre ++ e :: post = h.toList) : hent h pre.length = e ∧ pre.length < h.size := by
  have hlen : pre.length < h.size := by
    have := congrArg List.length hs
    simp only [List.length_append, List.length_cons, Array.length_toList] at this
    omega
  refine ⟨?_, hlen⟩
  unfold hent
  rw [Array.getD_eq_getD_getElem?]
  have : h[pre.length]? = some e := by
    rw [← Array.getElem?_toList, ← hs]
    simp
  rw [this]; rfl

theorem inv_fold {G : Nfa} {h : Array HEntry} {frame : Nat} (hwf : HistWF G h frame)
    (post : List HEntry) : ∀ (pre : List HEntry) (b : Build), pre ++ post = h.toList →
      Inv G h frame pre.length b → Inv G h frame h.size (post.foldl (step h) b) := by
  induction post with
  | nil =>
    intro pre b hs hinv
    have : pre.length = h.size := by
      have := congrArg List.length hs
      simpa using this
    rw [← this]; exact hinv
  | cons e post ih =>
    intro pre b hs hinv
    obtain ⟨he, hk⟩ := hent_toList h pre post e hs
    rw [List.foldl_cons]
    have := inv_step hwf hinv hk
    rw [he] at this
    refine ih (pre ++ [e]) _ (by rw [← hs]; simp) ?_
    simpa using this

end BuildNodes

/-- the first pass of `fsg_search_lattice` over a well-formed history table: one word node per key,
node times inside the utterance, every word entry covered by its node -/
theorem buildNodes_nodesOK (G : Nfa) (h : Array HEntry) (frame : Nat) (hwf : HistWF G h frame) :
    NodesOK G h frame (buildNodes h) := by
  have hinv := BuildNodes.inv_fold hwf h.toList [] _ rfl (BuildNodes.inv_init G h frame)
  rw [← BuildNodes.buildNodes_eq] at hinv
  exact ⟨hinv.nolinks, hinv.keys, hinv.node,
    fun i f w t hi harc => hinv.covered i f w t hi hi harc⟩
end SSVerif.Lattice
