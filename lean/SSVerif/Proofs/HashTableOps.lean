import SSVerif.Proofs.HashTable
/-!
Table-level lemmas for C20: every operation preserves `Inv` and acts on the
abstraction `fun k => lookup P h k` like the corresponding update of a finite map;
the iteration order enumerates the live entries without repetition.
-/
namespace SSVerif.HashTable

variable {P : Params} {size : Nat}

theorem flatten_length_set (h : HT) (i : Nat) (b : List Entry) (hi : i < h.buckets.length) :
    ((iter { h with buckets := h.buckets.set i b }).length : Int)
      = ((iter h).length : Int) - ((h.bucket i).length : Int) + b.length := by
  unfold iter HT.bucket
  exact sum_length_set h.buckets i b hi

/-- generic preservation: replacing bucket `hashf k` by `b'` -/
theorem inv_set (hI : Inv P h) {i : Nat} {b' : List Entry} {n : Int} (hi : i < h.size)
    (hhome : ∀ e ∈ b', P.hashf e.key = i) (hnd : NoDup P b')
    (hcount : n = h.inuse - ((h.bucket i).length : Int) + b'.length) :
    Inv P { h with buckets := h.buckets.set i b', inuse := n } := by
  have hi' : i < h.buckets.length := by rw [hI.len]; exact hi
  have hb : ∀ j, ({ h with buckets := h.buckets.set i b', inuse := n } : HT).bucket j
      = if i = j then b' else h.bucket j := by
    intro j
    have := bucket_set (h := h) (j := j) (b := b') hi'
    simpa [HT.bucket] using this
  refine ⟨by simp [hI.len], ?_, ?_, ?_⟩
  · intro j e he
    rw [hb j] at he
    by_cases hij : i = j
    · subst hij; simp at he; exact hhome e he
    · simp [hij] at he; exact hI.home j e he
  · intro j
    rw [hb j]
    by_cases hij : i = j
    · simp [hij]; exact hnd
    · simp [hij]; exact hI.nodup j
  · have := flatten_length_set h i b' hi'
    simp only [iter] at this ⊢
    rw [this, hcount, hI.count]; simp [iter]

theorem lookup_set (hI : Inv P h) {i : Nat} {b' : List Entry} {n : Int} (hi : i < h.size) (k' : Key) :
    lookup P { h with buckets := h.buckets.set i b', inuse := n } k'
      = if i = P.hashf k' then (findB P b' k').map (·.val) else lookup P h k' := by
  have hi' : i < h.buckets.length := by rw [hI.len]; exact hi
  unfold lookup
  have := bucket_set (h := h) (j := P.hashf k') (b := b') hi'
  simp only [HT.bucket] at this ⊢
  rw [this]
  split <;> rfl

theorem findB_congr {b : List Entry} {k k' : Key}
    (hc : ∀ x ∈ b, P.keq x.key k' = P.keq x.key k) : findB P b k' = findB P b k := by
  induction b with
  | nil => rfl
  | cons x xs ih =>
    have hx := hc x (by simp)
    have ih' := ih (fun y hy => hc y (by simp [hy]))
    cases h : P.keq x.key k with
    | true => rw [findB_cons_pos h, findB_cons_pos (hx.trans h)]
    | false => rw [findB_cons_neg h, findB_cons_neg (hx.trans h), ih']

/-! ### enter / replace -/

theorem inv_enter (L : Lawful P h.size) (hI : Inv P h) (k : Key) (v : Int) (repl : Bool) :
    Inv P (enter P h k v repl).1 := by
  unfold enter
  simp only
  have hi := L.hash_lt k
  cases hf : findB P (h.bucket (P.hashf k)) k with
  | some e =>
    cases repl with
    | false => simpa using hI
    | true =>
      simp only [if_true]
      have : Inv P { h with buckets := h.buckets.set (P.hashf k) (replaceFirst P k v (h.bucket (P.hashf k))), inuse := h.inuse } := by
        apply inv_set hI hi
        · intro e' he'
          rcases mem_replaceFirst he' with rfl | he'
          · rfl
          · exact hI.home _ e' he'
        · exact noDup_replaceFirst L v (hI.nodup _)
        · rw [length_replaceFirst]; omega
      simpa using this
  | none =>
    simp only
    apply inv_set hI hi
    · intro e' he'
      rcases mem_insertB.mp he' with rfl | he'
      · rfl
      · exact hI.home _ e' he'
    · exact noDup_insertB L v hf (hI.nodup _)
    · rw [length_insertB]; push_cast; omega

theorem enter_ret (h : HT) (k : Key) (v : Int) (repl : Bool) :
    (enter P h k v repl).2 = (lookup P h k).getD v := by
  unfold enter lookup
  simp only
  cases hf : findB P (h.bucket (P.hashf k)) k with
  | some e => cases repl <;> simp
  | none => simp

theorem lookup_enter (L : Lawful P h.size) (hI : Inv P h) (k : Key) (v : Int) (repl : Bool) (k' : Key) :
    lookup P (enter P h k v repl).1 k'
      = if P.keq k k' then some (if repl then v else (lookup P h k).getD v) else lookup P h k' := by
  have hi := L.hash_lt k
  have hne : P.keq k k' = false → P.hashf k = P.hashf k' → True := fun _ _ => trivial
  unfold enter
  simp only
  cases hf : findB P (h.bucket (P.hashf k)) k with
  | some e =>
    have hlk : lookup P h k = some e.val := by unfold lookup; rw [hf]; rfl
    cases repl with
    | false =>
      simp only [Bool.false_eq_true, if_false]
      cases hk : P.keq k k' with
      | false => simp
      | true =>
        simp only [if_true, hlk, Option.getD_some]
        -- the entry found for `k` is the entry found for `k'`
        have hh := L.hash_compat _ _ hk
        unfold lookup
        rw [← hh]
        have : findB P (h.bucket (P.hashf k)) k' = some e := by
          rw [← hf]
          apply findB_congr
          intro x _
          cases hx : P.keq x.key k with
          | true => exact (L.trans _ _ _ hx hk)
          | false => exact L.ne_symm (L.ne_of_left hk (L.ne_symm hx))
        rw [this]; rfl
    | true =>
      simp only [if_true]
      have := lookup_set (P := P) (b' := replaceFirst P k v (h.bucket (P.hashf k))) (n := h.inuse) hI hi k'
      have e1 : ({ h with buckets := h.buckets.set (P.hashf k) (replaceFirst P k v (h.bucket (P.hashf k))) } : HT)
          = { h with buckets := h.buckets.set (P.hashf k) (replaceFirst P k v (h.bucket (P.hashf k))), inuse := h.inuse } := rfl
      rw [e1, this]
      by_cases hh : P.hashf k = P.hashf k'
      · simp only [hh, if_true]
        rw [← hh, findB_replaceFirst L v k' hf]
        cases hk : P.keq k k' with
        | true => simp
        | false => simp [lookup, hh]
      · simp only [hh, if_false]
        have : P.keq k k' = false := by
          cases hk : P.keq k k' with
          | false => rfl
          | true => exact absurd (L.hash_compat _ _ hk) hh
        simp [this]
  | none =>
    have hlk : lookup P h k = none := by unfold lookup; rw [hf]; rfl
    simp only
    rw [lookup_set hI hi k']
    by_cases hh : P.hashf k = P.hashf k'
    · simp only [hh, if_true]
      rw [← hh, findB_insertB L v k' hf]
      cases hk : P.keq k k' with
      | true => cases repl <;> simp [hlk]
      | false => simp [lookup, hh]
    · simp only [hh, if_false]
      have : P.keq k k' = false := by
        cases hk : P.keq k k' with
        | false => rfl
        | true => exact absurd (L.hash_compat _ _ hk) hh
      simp [this]

theorem inuse_enter (h : HT) (k : Key) (v : Int) (repl : Bool) :
    (enter P h k v repl).1.inuse = h.inuse + (if (lookup P h k).isSome then 0 else 1) := by
  unfold enter lookup
  simp only
  cases hf : findB P (h.bucket (P.hashf k)) k with
  | some e => cases repl <;> simp
  | none => simp

/-! ### delete -/

theorem inv_delete (L : Lawful P h.size) (hI : Inv P h) (k : Key) : Inv P (delete P h k).1 := by
  unfold delete
  simp only
  have hi := L.hash_lt k
  cases hf : findB P (h.bucket (P.hashf k)) k with
  | none => simpa using hI
  | some e =>
    simp only
    apply inv_set hI hi
    · intro e' he'
      exact hI.home _ e' (mem_eraseB he')
    · exact noDup_eraseB (hI.nodup _)
    · have := length_eraseB hf
      omega

theorem delete_ret (h : HT) (k : Key) : (delete P h k).2 = lookup P h k := by
  unfold delete lookup
  simp only
  cases hf : findB P (h.bucket (P.hashf k)) k <;> simp

theorem lookup_delete (L : Lawful P h.size) (hI : Inv P h) (k k' : Key) :
    lookup P (delete P h k).1 k' = if P.keq k k' then none else lookup P h k' := by
  have hi := L.hash_lt k
  unfold delete
  simp only
  cases hf : findB P (h.bucket (P.hashf k)) k with
  | none =>
    simp only
    cases hk : P.keq k k' with
    | false => simp
    | true =>
      simp only [if_true]
      have hh := L.hash_compat _ _ hk
      unfold lookup
      rw [← hh]
      have : findB P (h.bucket (P.hashf k)) k' = none := by
        rw [findB_none_iff] at hf ⊢
        intro x hx
        exact L.ne_symm (L.ne_of_left hk (L.ne_symm (hf x hx)))
      rw [this]; rfl
  | some e =>
    simp only
    rw [lookup_set hI hi k']
    by_cases hh : P.hashf k = P.hashf k'
    · simp only [hh, if_true]
      rw [← hh, findB_eraseB L k' (hI.nodup _)]
      cases hk : P.keq k k' with
      | true => simp
      | false => simp [lookup, hh]
    · simp only [hh, if_false]
      have : P.keq k k' = false := by
        cases hk : P.keq k k' with
        | false => rfl
        | true => exact absurd (L.hash_compat _ _ hk) hh
      simp [this]

theorem inuse_delete (h : HT) (k : Key) :
    (delete P h k).1.inuse = h.inuse - (if (lookup P h k).isSome then 1 else 0) := by
  unfold delete lookup
  simp only
  cases hf : findB P (h.bucket (P.hashf k)) k <;> simp

/-! ### empty -/

theorem lookup_empty (h : HT) (k : Key) : lookup P (empty h) k = none := by
  unfold lookup empty
  have := bucket_new h.size (P.hashf k)
  simp only [HT.bucket, HT.new] at this ⊢
  rw [this]; rfl

/-! ### iteration -/

theorem pairwise_forall {α : Type} {R : α → α → Prop} {l : List α} (hp : l.Pairwise R)
    (hs : ∀ x y, R x y → R y x) {a b : α} (ha : a ∈ l) (hb : b ∈ l) (hne : a ≠ b) : R a b := by
  induction l with
  | nil => cases ha
  | cons x xs ih =>
    rw [List.pairwise_cons] at hp
    rcases List.mem_cons.mp ha with rfl | ha'
    · rcases List.mem_cons.mp hb with rfl | hb'
      · exact absurd rfl hne
      · exact hp.1 b hb'
    · rcases List.mem_cons.mp hb with rfl | hb'
      · exact hs _ _ (hp.1 a ha')
      · exact ih hp.2 ha' hb'

theorem mem_iter_iff (hI : Inv P h) (e : Entry) :
    e ∈ iter h ↔ e ∈ h.bucket (P.hashf e.key) := by
  unfold iter
  rw [List.mem_flatten]
  constructor
  · rintro ⟨b, hb, he⟩
    obtain ⟨i, hi, rfl⟩ := List.getElem_of_mem hb
    have hbi : h.bucket i = h.buckets[i] := by
      simp [HT.bucket, List.getD_eq_getElem?_getD, hi]
    have := hI.home i e (by rw [hbi]; exact he)
    rw [this, hbi]; exact he
  · intro he
    unfold HT.bucket at he
    rw [List.getD_eq_getElem?_getD] at he
    cases hg : h.buckets[P.hashf e.key]? with
    | none => rw [hg] at he; simp at he
    | some b =>
      rw [hg] at he
      exact ⟨b, List.mem_of_getElem? hg, by simpa using he⟩

/-- a live key is found exactly through an entry that iteration visits -/
theorem lookup_eq_some_iff (L : Lawful P h.size) (hI : Inv P h) (k : Key) (v : Int) :
    lookup P h k = some v ↔ ∃ e ∈ iter h, P.keq e.key k = true ∧ e.val = v := by
  constructor
  · intro hl
    unfold lookup at hl
    cases hf : findB P (h.bucket (P.hashf k)) k with
    | none => rw [hf] at hl; cases hl
    | some e =>
      rw [hf] at hl
      obtain ⟨hm, hk⟩ := findB_some_mem hf
      refine ⟨e, ?_, hk, by simpa using hl⟩
      rw [mem_iter_iff hI, L.hash_compat _ _ hk]; exact hm
  · rintro ⟨e, he, hk, rfl⟩
    rw [mem_iter_iff hI, L.hash_compat _ _ hk] at he
    unfold lookup
    cases hf : findB P (h.bucket (P.hashf k)) k with
    | none => exact absurd hk (by rw [(findB_none_iff.mp hf) e he]; simp)
    | some e' =>
      obtain ⟨hm', hk'⟩ := findB_some_mem hf
      -- two entries of one bucket matching `k` are the same entry
      have hnd := hI.nodup (P.hashf k)
      have : e' = e := by
        by_cases heq : e' = e
        · exact heq
        · exfalso
          unfold NoDup at hnd
          have hkk : P.keq e'.key e.key = true := L.trans _ _ _ hk' (L.symm _ _ hk)
          have hsymm : ∀ x y : Entry, P.keq x.key y.key = false → P.keq y.key x.key = false :=
            fun x y hxy => L.ne_symm hxy
          have := pairwise_forall hnd hsymm hm' he heq
          rw [hkk] at this; cases this
      rw [this]; rfl

end SSVerif.HashTable
