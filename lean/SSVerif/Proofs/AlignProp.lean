import SSVerif.Proofs.Align
/-!
`alignment_propagate` on block-structured vectors: when the `parent` fields of the children are
`0,…,0,1,…,1,2,…` (block `i` has `lens[i] > 0` entries — what `alignment_populate` builds), each of the two
loops replaces parent `i` by the summary of block `i`.  Tilings lift from children to parents.
-/
namespace SSVerif.Align

/-- parent fields of a block-structured child vector, blocks numbered from `off` -/
def patternFrom : Nat → List Nat → List Nat
  | _, [] => []
  | off, n :: ns => List.replicate n off ++ patternFrom (off + 1) ns

/-- cut a vector into consecutive blocks of the given lengths -/
def splitLens : List Nat → List Entry → List (List Entry)
  | [], _ => []
  | n :: ns, l => l.take n :: splitLens ns (l.drop n)

/-- what the loop leaves in a parent whose children are the block `b` -/
def summarize (p : Entry) (b : List Entry) : Entry :=
  { p with start := (b.head?.map (·.start)).getD p.start, duration := sumDur b, score := sumScore b }

theorem sumDur_cons (c : Entry) (cs : List Entry) : sumDur (c :: cs) = c.duration + sumDur cs := by
  simp [sumDur]

theorem sumScore_cons (c : Entry) (cs : List Entry) : sumScore (c :: cs) = c.score + sumScore cs := by
  simp [sumScore]

theorem sumScore_append (a b : List Entry) : sumScore (a ++ b) = sumScore a + sumScore b := by
  simp [sumScore]

theorem sumDur_append (a b : List Entry) : sumDur (a ++ b) = sumDur a + sumDur b := by
  simp [sumDur]

/-- further children of the current parent only add to it -/
theorem propGo_same (off : Nat) (rest todo : List Entry) :
    ∀ (cs : List Entry) (done : List Entry) (p : Entry), done.length = off → (∀ c ∈ cs, c.parent = off) →
      propGo (cs ++ rest) (some off) (done ++ p :: todo) =
        propGo rest (some off)
          (done ++ { p with duration := p.duration + sumDur cs, score := p.score + sumScore cs } :: todo)
  | [], done, p, _, _ => by simp [sumDur, sumScore]
  | c :: cs, done, p, hlen, hall => by
    have hc : c.parent = off := hall c (List.mem_cons_self ..)
    have hcs : ∀ x ∈ cs, x.parent = off := fun x hx => hall x (List.mem_cons_of_mem _ hx)
    simp only [List.cons_append, propGo, hc, ne_eq, not_true_eq_false, if_false]
    rw [← hlen, modifyAt_append_len]
    rw [hlen]
    have := propGo_same off rest todo cs done
      { p with duration := p.duration + c.duration, score := p.score + c.score } hlen hcs
    rw [this]
    simp only [sumDur_cons, sumScore_cons]
    congr 4 <;> omega

/-- a whole block whose parent differs from the previous one -/
theorem propGo_block (off : Nat) (rest todo : List Entry) (c : Entry) (cs : List Entry) (done : List Entry)
    (p : Entry) (last : Option Nat) (hlen : done.length = off) (hall : ∀ x ∈ c :: cs, x.parent = off)
    (hlast : last ≠ some off) :
    propGo ((c :: cs) ++ rest) last (done ++ p :: todo) =
      propGo rest (some off) (done ++ summarize p (c :: cs) :: todo) := by
  have hc : c.parent = off := hall c (List.mem_cons_self ..)
  have hcs : ∀ x ∈ cs, x.parent = off := fun x hx => hall x (List.mem_cons_of_mem _ hx)
  simp only [List.cons_append, propGo, hc, ne_eq, hlast, not_false_eq_true, if_true]
  rw [← hlen, modifyAt_append_len, modifyAt_append_len]
  rw [hlen]
  have := propGo_same off rest todo cs done
    { p with start := c.start, duration := 0 + c.duration, score := 0 + c.score } hlen hcs
  simp only at this
  rw [this]
  simp only [summarize, sumDur_cons, sumScore_cons, List.head?_cons, Option.map_some, Option.getD_some]
  congr 4 <;> omega

theorem map_eq_replicate_append {l : List Entry} {n off : Nat} {tl : List Nat}
    (h : l.map (·.parent) = List.replicate n off ++ tl) :
    (l.take n).length = n ∧ (∀ x ∈ l.take n, x.parent = off) ∧ (l.drop n).map (·.parent) = tl := by
  have hl : n ≤ l.length := by
    have := congrArg List.length h
    simp at this; omega
  refine ⟨by simp [hl], ?_, ?_⟩
  · intro x hx
    have h1 : (l.take n).map (·.parent) = List.replicate n off := by
      rw [List.map_take, h]; simp
    have : x.parent ∈ (l.take n).map (·.parent) := List.mem_map_of_mem hx
    rw [h1] at this
    exact (List.mem_replicate.1 this).2
  · rw [List.map_drop, h]; simp

/-- **One loop of `alignment_propagate`** on a block-structured child vector -/
theorem propGo_blocks : ∀ (lens : List Nat) (children done todo : List Entry) (last : Option Nat),
    children.map (·.parent) = patternFrom done.length lens → (∀ n ∈ lens, 0 < n) → todo.length = lens.length →
    (∀ k, last = some k → k < done.length) →
    propGo children last (done ++ todo) = done ++ List.zipWith summarize todo (splitLens lens children)
  | [], children, done, todo, last, hpat, _, hlen, _ => by
    have hc : children = [] := by simpa [patternFrom] using hpat
    have ht : todo = [] := by simpa using hlen
    subst hc; subst ht
    simp [propGo, splitLens]
  | n :: ns, children, done, todo, last, hpat, hpos, hlen, hlast => by
    cases todo with
    | nil => simp at hlen
    | cons p todo =>
      obtain ⟨h1, h2, h3⟩ := map_eq_replicate_append (by simpa [patternFrom] using hpat)
      have hn : 0 < n := hpos n (List.mem_cons_self ..)
      have hsplit : children = children.take n ++ children.drop n := (List.take_append_drop n children).symm
      cases hb : children.take n with
      | nil => rw [hb] at h1; simp at h1; omega
      | cons c cs =>
        rw [hb] at h2
        have hne : last ≠ some done.length := by
          intro h; have := hlast _ h; omega
        have step := propGo_block done.length (children.drop n) todo c cs done p last rfl h2 hne
        have key : propGo children last (done ++ p :: todo) =
            propGo ((c :: cs) ++ children.drop n) last (done ++ p :: todo) := by
          rw [← hb, List.take_append_drop]
        rw [key, step]
        have ih := propGo_blocks ns (children.drop n) (done ++ [summarize p (c :: cs)]) todo (some done.length)
          (by simpa using h3) (fun m hm => hpos m (List.mem_cons_of_mem _ hm)) (by simpa using hlen)
          (by intro k hk; cases hk; simp)
        have e1 : done ++ summarize p (c :: cs) :: todo = (done ++ [summarize p (c :: cs)]) ++ todo := by simp
        rw [e1, ih]
        simp [splitLens, hb]

theorem propLevel_blocks (lens : List Nat) (children parents : List Entry)
    (hpat : children.map (·.parent) = patternFrom 0 lens) (hpos : ∀ n ∈ lens, 0 < n)
    (hlen : parents.length = lens.length) :
    propLevel children parents = List.zipWith summarize parents (splitLens lens children) := by
  have := propGo_blocks lens children [] parents none (by simpa using hpat) hpos hlen (by intro k hk; cases hk)
  simpa [propLevel] using this

/-! ### tilings lift from children to parents -/

/-- parents and their blocks: every block tiles its parent's frames, and the parent's score is the block's sum -/
def Parts : List Entry → List (List Entry) → Prop
  | [], [] => True
  | p :: ps, b :: bs => Contig b p.start (p.start + p.duration) ∧ p.score = sumScore b ∧ b ≠ [] ∧ Parts ps bs
  | _, _ => False

theorem splitLens_flatten : ∀ (lens : List Nat) (l : List Entry), l.length = lens.sum → (splitLens lens l).flatten = l
  | [], l, h => by
    have : l = [] := by simpa using h
    simp [splitLens, this]
  | n :: ns, l, h => by
    simp only [splitLens, List.flatten_cons]
    rw [splitLens_flatten ns (l.drop n) (by simp only [List.sum_cons, List.length_drop] at h ⊢; omega)]
    exact List.take_append_drop n l

theorem contig_blocks : ∀ (lens : List Nat) (children ps : List Entry) (a b : Int),
    (∀ n ∈ lens, 0 < n) → children.length = lens.sum → ps.length = lens.length → Contig children a b →
    Contig (List.zipWith summarize ps (splitLens lens children)) a b ∧
      Parts (List.zipWith summarize ps (splitLens lens children)) (splitLens lens children)
  | [], children, ps, a, b, _, hl, hp, hc => by
    have h1 : children = [] := by simpa using hl
    have h2 : ps = [] := by simpa using hp
    subst h1; subst h2
    simpa [splitLens, Parts] using hc
  | n :: ns, children, ps, a, b, hpos, hl, hp, hc => by
    cases ps with
    | nil => simp at hp
    | cons p ps =>
      have hn : 0 < n := hpos n (List.mem_cons_self ..)
      have hle : n ≤ children.length := by simp only [List.sum_cons] at hl; omega
      rw [← List.take_append_drop n children] at hc
      obtain ⟨m, hc1, hc2⟩ := (contig_append _ _ a b).1 hc
      have ih := contig_blocks ns (children.drop n) ps m b (fun k hk => hpos k (List.mem_cons_of_mem _ hk))
        (by simp only [List.sum_cons, List.length_drop] at hl ⊢; omega) (by simpa using hp) hc2
      cases hb : children.take n with
      | nil =>
        have := congrArg List.length hb
        rw [List.length_take, List.length_nil] at this; omega
      | cons c cs =>
        rw [hb] at hc1
        have hm := contig_sum _ _ _ hc1
        obtain ⟨hs, hd, _⟩ := hc1
        simp only [splitLens, List.zipWith_cons_cons, hb]
        have hstart : (summarize p (c :: cs)).start = a := by simp [summarize, hs]
        have hdur : (summarize p (c :: cs)).duration = sumDur (c :: cs) := rfl
        have hlt := contig_lt c cs a m (by rw [← hb]; rw [hb]; exact ⟨hs, hd, by assumption⟩)
        refine ⟨⟨hstart, by rw [hdur]; omega, ?_⟩, ⟨?_, rfl, by simp, ih.2⟩⟩
        · rw [hdur, ← hm]; exact ih.1
        · rw [hstart, hdur, ← hm]; exact ⟨hs, hd, by assumption⟩

end SSVerif.Align
