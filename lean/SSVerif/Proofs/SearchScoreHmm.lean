import SSVerif.Proofs.SearchScoreMax
import SSVerif.Proofs.FlatNet
/-! Local lemmas of the search proof: `hmm_enter` folds over arrays, `fsg_search_hmm_eval` per pnode, and the new
state / exit scores of one HMM as maxima over the network edges `hmmEdges` / `hmmExits` of *that* pnode. Core Lean only. -/
namespace SSVerif.SearchScore
open SSVerif.Viterbi SSVerif.Hmm SSVerif.Search
open SSVerif.FlatNet (hmmEdges hmmExits st vec3)

/-- emitting state `k` of an HMM -/
def comp (s : ISt) : Nat → Option Int := vec3 s.s0 s.s1 s.s2

theorem comp_inact (k : Nat) : comp inact k = none := by
  unfold comp inact vec3; split <;> rfl

/-! ### `enter` -/

theorem enter_size (h : Array ISt) (x : Nat × Int) : (enter h x).size = h.size := by
  unfold enter amod; split <;> simp

theorem hget_enter (h : Array ISt) (x : Nat × Int) (j : Nat) (hj : j < h.size) :
    hget (enter h x) j = if x.1 = j then { hget h j with s0 := omax (hget h j).s0 (some x.2) } else hget h j := by
  unfold enter amod hget
  by_cases hx : x.1 < h.size
  · simp only [hx, dite_true, Array.getElem?_set]
    by_cases he : x.1 = j
    · subst he
      simp [hx]
    · simp [he]
  · simp only [hx, dite_false]
    have : x.1 ≠ j := by omega
    simp [this]

theorem foldl_enter (l : List (Nat × Int)) : ∀ (h : Array ISt) (j : Nat), j < h.size →
    (l.foldl enter h).size = h.size ∧
    comp (hget (l.foldl enter h) j) 1 = comp (hget h j) 1 ∧ comp (hget (l.foldl enter h) j) 2 = comp (hget h j) 2 ∧
    ∀ P, IsMax P (comp (hget h j) 0) → IsMax (fun v => P v ∨ (j, v) ∈ l) (comp (hget (l.foldl enter h) j) 0) := by
  induction l with
  | nil =>
    intro h j _
    refine ⟨rfl, rfl, rfl, fun P hP => hP.congr fun v => by simp⟩
  | cons x xs ih =>
    intro h j hj
    have hj' : j < (enter h x).size := by rw [enter_size]; exact hj
    obtain ⟨i1, i2, i3, i4⟩ := ih (enter h x) j hj'
    have hg := hget_enter h x j hj
    rw [List.foldl_cons]
    refine ⟨by rw [i1, enter_size], ?_, ?_, fun P hP => ?_⟩
    · rw [i2, hg]; split <;> rfl
    · rw [i3, hg]; split <;> rfl
    · have h0 : IsMax (fun v => P v ∨ (x.1 = j ∧ v = x.2)) (comp (hget (enter h x) j) 0) := by
        rw [hg]
        by_cases he : x.1 = j
        · simp only [he, if_true]
          have := hP.omax (isMax_some x.2)
          exact this.congr fun v => by simp
        · simp only [he, if_false]
          exact hP.congr fun v => by simp [he]
      refine (i4 _ h0).congr fun v => ?_
      simp only [List.mem_cons]
      constructor
      · rintro ((h1 | ⟨h1, h2⟩) | h3)
        · exact Or.inl h1
        · right; left; cases x; simp_all
        · exact Or.inr (Or.inr h3)
      · rintro (h1 | h2 | h3)
        · exact Or.inl (Or.inl h1)
        · left; right; cases x; simp_all
        · exact Or.inr h3

/-! ### `evalAll` -/

theorem evalAll_size (E : Env) (e : Nat → Nat → Int) (h : Array ISt) : (evalAll E e h).size = E.n := by
  simp [evalAll]

theorem evget_evalAll (E : Env) (e : Nat → Nat → Int) (h : Array ISt) (p : Nat) (hp : p < E.n) :
    evget (evalAll E e h) p = hmmStepIdeal (E.tp p) (e (E.node p).ssid) (hget h p) := by
  simp [evget, evalAll, hp]

theorem hget_fst (ev : Array (ISt × Option Int)) (p : Nat) :
    hget ((ev.toList.map (·.1)).toArray) p = (evget ev p).1 := by
  unfold hget evget
  simp only [List.getElem?_toArray, List.getElem?_map, Array.getElem?_toList]
  cases ev[p]? <;> rfl

/-! ### one HMM against its network edges -/

theorem hmmEdges_shift (tp : List Nat) (p : Nat) :
    hmmEdges tp p = (hmmEdges tp 0).map fun x => (3 * p + x.1, 3 * p + x.2.1, x.2.2) := by
  unfold hmmEdges st; split <;> simp

theorem hmmEdges0_lt (tp : List Nat) : ∀ x ∈ hmmEdges tp 0, x.1 < 3 ∧ x.2.1 < 3 := by
  unfold hmmEdges st; split <;> simp

theorem hmmExits_lt (tp : List Nat) : ∀ x ∈ hmmExits tp, x.1 < 3 := by
  unfold hmmExits; split <;> simp

theorem vec3_some_lt {a0 a1 a2 : Option Int} {i : Nat} (hi : i < 3) (V : Nat → Option Int) (p : Nat)
    (hV : ∀ i, i < 3 → V (3 * p + i) = vec3 a0 a1 a2 i) : V (3 * p + i) = vec3 a0 a1 a2 i := hV i hi

/-- the new score of emitting state `k` of pnode `p` is the maximum over the edges of `hmmEdges (tp) p` into
network state `3p + k`, for any vector `V` / emission `Em` that agree with the HMM on its three states -/
theorem isMax_hmm_state (tp : List Nat) (e : Nat → Int) (s : ISt) (p k : Nat) (hk : k < 3)
    (V : Nat → Option Int) (Em : Nat → Int) (hV : ∀ i, i < 3 → V (3 * p + i) = comp s i)
    (hE : ∀ i, i < 3 → Em (3 * p + i) = e i) :
    IsMax (fun x => ∃ i c u, (i, 3 * p + k, c) ∈ hmmEdges tp p ∧ V i = some u ∧ x = u + Em i + c)
      (comp (hmmStepIdeal tp e s).1 k) := by
  have hid := FlatNet.hmmEdges_ideal tp e s.s0 s.s1 s.s2
  obtain ⟨h0, h1, h2, _⟩ := hid
  have hk' : comp (hmmStepIdeal tp e s).1 k = stepV ⟨hmmEdges tp 0, [], []⟩ e (comp s) k := by
    rcases k with _ | _ | _ | k
    · exact h0.symm
    · exact h1.symm
    · exact h2.symm
    · omega
  rw [hk']
  refine (isMax_stepV _ e (comp s) k).congr fun x => ?_
  simp only
  constructor
  · rintro ⟨i0, c, u, hm, hv, rfl⟩
    have hlt := hmmEdges0_lt tp _ hm
    refine ⟨3 * p + i0, c, u, ?_, ?_, ?_⟩
    · rw [hmmEdges_shift]
      exact List.mem_map.mpr ⟨(i0, k, c), hm, rfl⟩
    · rw [hV i0 hlt.1]; exact hv
    · rw [hE i0 hlt.1]
  · rintro ⟨i, c, u, hm, hv, rfl⟩
    rw [hmmEdges_shift] at hm
    obtain ⟨⟨i0, j0, c0⟩, hm0, heq⟩ := List.mem_map.mp hm
    have hlt := hmmEdges0_lt tp _ hm0
    simp only [Prod.mk.injEq] at heq
    obtain ⟨rfl, hj, rfl⟩ := heq
    have : j0 = k := by omega
    subst this
    refine ⟨i0, c0, u, hm0, ?_, ?_⟩
    · rw [← hV i0 hlt.1]; exact hv
    · rw [hE i0 hlt.1]

/-- the exit score of pnode `p` is the maximum over `hmmExits` -/
theorem isMax_hmm_out (tp : List Nat) (e : Nat → Int) (s : ISt) (p : Nat)
    (V : Nat → Option Int) (Em : Nat → Int) (hV : ∀ i, i < 3 → V (3 * p + i) = comp s i)
    (hE : ∀ i, i < 3 → Em (3 * p + i) = e i) :
    IsMax (fun x => ∃ k cx u, (k, cx) ∈ hmmExits tp ∧ V (3 * p + k) = some u ∧ x = u + Em (3 * p + k) + cx)
      (hmmStepIdeal tp e s).2 := by
  have hid := FlatNet.hmmEdges_ideal tp e s.s0 s.s1 s.s2
  obtain ⟨_, _, _, h3⟩ := hid
  have h3' : (hmmStepIdeal tp e s).2 = best ((hmmExits tp).map fun (k, c) => (comp s k).map (· + e k + c)) := h3.symm
  rw [h3']
  refine (isMax_best _).congr fun x => ?_
  simp only [List.mem_map]
  constructor
  · rintro ⟨⟨k, cx⟩, hm, he⟩
    have hlt := hmmExits_lt tp _ hm
    simp only at he
    cases hc : comp s k with
    | none => rw [hc] at he; cases he
    | some u =>
      rw [hc] at he
      simp only [Option.map_some, Option.some.injEq] at he
      exact ⟨k, cx, u, hm, by rw [hV k hlt]; exact hc, by rw [hE k hlt]; exact he.symm⟩
  · rintro ⟨k, cx, u, hm, hv, rfl⟩
    have hlt := hmmExits_lt tp _ hm
    refine ⟨(k, cx), hm, ?_⟩
    rw [hV k hlt] at hv
    simp [hv, hE k hlt]

end SSVerif.SearchScore
