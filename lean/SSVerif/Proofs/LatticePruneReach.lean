import SSVerif.Model.LatticePrune
/-! the level iteration `reachGo` marks exactly the nodes joined to a marked seed by a chain of unblocked
steps (soundness for any fuel; completeness for chains not longer than the fuel) -/
namespace SSVerif.Lattice

variable {S : List Link} {a b : Link → Nat} {blk : Nat → Bool}

/-- `Chain k u v`: `k` steps `a l ↦ b l` over links of `S`, none entering a blocked node -/
inductive Chain (S : List Link) (a b : Link → Nat) (blk : Nat → Bool) : Nat → Nat → Nat → Prop
  | nil (u : Nat) : Chain S a b blk 0 u u
  | cons {k u v : Nat} {l : Link} : l ∈ S → a l = u → blk (b l) = false → Chain S a b blk k (b l) v →
      Chain S a b blk (k + 1) u v

theorem Chain.snoc {k u v : Nat} (h : Chain S a b blk k u v) {l : Link} (hl : l ∈ S) (ha : a l = v)
    (hb : blk (b l) = false) : Chain S a b blk (k + 1) u (b l) := by
  induction h with
  | nil u => exact .cons hl ha hb (.nil _)
  | cons h1 h2 h3 _ ih => exact .cons h1 h2 h3 (ih ha)

theorem subset_reachGo : ∀ (fuel : Nat) (M : List Nat) (v : Nat), v ∈ M → v ∈ reachGo S a b blk fuel M := by
  intro fuel
  induction fuel with
  | zero => intro M v h; exact h
  | succ f ih =>
    intro M v h
    unfold reachGo
    simp only
    split
    · exact h
    · exact ih _ v (List.mem_append_right _ h)

theorem reachGo_sound (P : Nat → Prop) (hstep : ∀ l ∈ S, blk (b l) = false → P (a l) → P (b l)) :
    ∀ (fuel : Nat) (M : List Nat), (∀ v ∈ M, P v) → ∀ v ∈ reachGo S a b blk fuel M, P v := by
  intro fuel
  induction fuel with
  | zero => intro M h v hv; exact h v hv
  | succ f ih =>
    intro M h v hv
    unfold reachGo at hv
    simp only at hv
    split at hv
    · exact h v hv
    · refine ih _ ?_ v hv
      intro w hw
      rcases List.mem_append.1 hw with hw | hw
      · obtain ⟨l, hl, rfl⟩ := List.mem_map.1 hw
        have hf := List.mem_filter.1 hl
        have h2 := hf.2
        simp only [Bool.and_eq_true, Bool.not_eq_true', List.contains_iff_mem] at h2
        exact hstep l hf.1 h2.1.2 (h _ h2.1.1)
      · exact h w hw

theorem closed_chain {M : List Nat} (hc : ∀ l ∈ S, a l ∈ M → blk (b l) = false → b l ∈ M) :
    ∀ {k u v : Nat}, Chain S a b blk k u v → u ∈ M → v ∈ M := by
  intro k u v h
  induction h with
  | nil u => exact id
  | cons h1 h2 h3 _ ih => intro hu; exact ih (hc _ h1 (h2 ▸ hu) h3)

theorem reachGo_complete : ∀ (fuel : Nat) (M : List Nat) (k u v : Nat), u ∈ M → Chain S a b blk k u v → k ≤ fuel →
    v ∈ reachGo S a b blk fuel M := by
  intro fuel
  induction fuel with
  | zero =>
    intro M k u v hu h hk
    have : k = 0 := by omega
    subst this
    cases h
    exact hu
  | succ f ih =>
    intro M k u v hu h hk
    unfold reachGo
    simp only
    split
    · rename_i hemp
      refine closed_chain ?_ h hu
      intro l hl ha hb
      apply Classical.byContradiction
      intro hn
      have : b l ∈ (S.filter fun l => M.contains (a l) && !blk (b l) && !M.contains (b l)).map b := by
        refine List.mem_map.2 ⟨l, List.mem_filter.2 ⟨hl, ?_⟩, rfl⟩
        simp only [Bool.and_eq_true, Bool.not_eq_true', List.contains_iff_mem]
        exact ⟨⟨ha, hb⟩, by simpa using hn⟩
      rw [List.isEmpty_iff.1 hemp] at this
      cases this
    · cases h with
      | nil u => exact subset_reachGo _ _ _ (List.mem_append_right _ hu)
      | cons h1 h2 h3 h4 =>
        rename_i k' l
        refine ih _ k' (b l) v ?_ h4 (by omega)
        by_cases hm : b l ∈ M
        · exact List.mem_append_right _ hm
        · refine List.mem_append_left _ (List.mem_map.2 ⟨l, List.mem_filter.2 ⟨h1, ?_⟩, rfl⟩)
          simp only [Bool.and_eq_true, Bool.not_eq_true', List.contains_iff_mem]
          exact ⟨⟨h2 ▸ hu, h3⟩, by simpa using hm⟩

end SSVerif.Lattice
