import SSVerif.Model.Jsgf
import SSVerif.Proofs.Nfa
/-! helper lemmas for C05: machine ↔ denotation, soundness of the explored automaton -/
namespace SSVerif.Jsgf
open SSVerif.Nfa

/-! ### leftmost-rewriting machine = denotation -/

theorem Step.ctx {R a l a'} (b : List Atom) (h : Step R a l a') : Step R (a ++ b) l (a' ++ b) := by
  cases h with
  | tok => exact .tok
  | null => exact .null
  | ref hm => rw [List.cons_append, List.append_assoc]; exact .ref hm

theorem Run.append {R a b w1 w2} (h1 : Run R a w1) (h2 : Run R b w2) : Run R (a ++ b) (w1 ++ w2) := by
  induction h1 with
  | done => simpa using h2
  | eps hs _ ih => exact .eps (hs.ctx b) ih
  | sym hs _ ih => exact .sym (hs.ctx b) ih

theorem Der.toRun {R α ws} (h : Der R α ws) : Run R α ws := by
  induction h with
  | nil => exact .done
  | tok _ ih => exact .sym .tok ih
  | null _ ih => exact .eps .null ih
  | ref hm _ _ ih1 ih2 => exact .eps (.ref hm) (Run.append ih1 ih2)

theorem Der.split {R} : ∀ (a b : List Atom) (ws : List Nat), Der R (a ++ b) ws →
    ∃ w1 w2, ws = w1 ++ w2 ∧ Der R a w1 ∧ Der R b w2 := by
  intro a
  induction a with
  | nil => intro b ws h; exact ⟨[], ws, rfl, .nil, h⟩
  | cons x a ih =>
    intro b ws h
    cases h with
    | tok h' =>
      obtain ⟨w1, w2, rfl, d1, d2⟩ := ih b _ h'
      exact ⟨_ :: w1, w2, rfl, .tok d1, d2⟩
    | null h' =>
      obtain ⟨w1, w2, rfl, d1, d2⟩ := ih b _ h'
      exact ⟨w1, w2, rfl, .null d1, d2⟩
    | ref hm dalt drest =>
      obtain ⟨w1, w2, rfl, d1, d2⟩ := ih b _ drest
      exact ⟨_ ++ w1, w2, by simp, .ref hm dalt d1, d2⟩

theorem Run.toDer {R α ws} (h : Run R α ws) : Der R α ws := by
  induction h with
  | done => exact .nil
  | eps hs _ ih =>
    cases hs with
    | null => exact .null ih
    | ref hm =>
      obtain ⟨w1, w2, rfl, d1, d2⟩ := Der.split _ _ _ ih
      exact .ref hm d1 d2
  | sym hs _ ih =>
    cases hs with
    | tok => exact .tok ih

theorem run_iff_der (R : Rules) (α : List Atom) (ws : List Nat) : Run R α ws ↔ Der R α ws :=
  ⟨Run.toDer, Der.toRun⟩

theorem Der.append {R a b w1 w2} (h1 : Der R a w1) (h2 : Der R b w2) : Der R (a ++ b) (w1 ++ w2) :=
  (Run.append h1.toRun h2.toRun).toDer

theorem Der.single_ref {R r alt ws} (hm : alt ∈ R r) (h : Der R alt ws) : Der R [.ref r] ws := by
  have := Der.ref (rest := []) hm h .nil
  simpa using this

/-! ### explored automaton -/

theorem mem_succs {R : Rules} {a b : List Atom} {l : Option Nat} :
    (l, b) ∈ succs R a ↔ Step R a l b := by
  constructor
  · intro h
    match a, h with
    | .tok w :: rest, h =>
      simp only [succs, List.mem_singleton, Prod.mk.injEq] at h
      obtain ⟨rfl, rfl⟩ := h; exact .tok
    | .null :: rest, h =>
      simp only [succs, List.mem_singleton, Prod.mk.injEq] at h
      obtain ⟨rfl, rfl⟩ := h; exact .null
    | .ref r :: rest, h =>
      simp only [succs, List.mem_map, Prod.mk.injEq] at h
      obtain ⟨alt, hm, rfl, rfl⟩ := h; exact .ref hm
    | .void :: rest, h => simp [succs] at h
    | [], h => simp [succs] at h
  · intro h
    cases h with
    | tok => simp [succs]
    | null => simp [succs]
    | ref hm => simp only [succs, List.mem_map]; exact ⟨_, hm, rfl⟩

theorem idxOf_inj {V : List (List Atom)} {f f' : List Atom} (hf : f ∈ V) (hf' : f' ∈ V)
    (h : V.idxOf f = V.idxOf f') : f = f' := by
  have h1 : V.idxOf f < V.length := List.idxOf_lt_length_iff.mpr hf
  have h2 : V.idxOf f' < V.length := List.idxOf_lt_length_iff.mpr hf'
  have e1 := List.getElem_idxOf h1
  have e2 := List.getElem_idxOf h2
  rw [← e1, ← e2]
  simp only [h]

theorem mem_arcs {R : Rules} {V : List (List Atom)} {top : RName} {p q : Nat} {l : Option Nat} :
    (p, l, q) ∈ (mkNfa R V top).arcs ↔
      ∃ f ∈ V, ∃ f', Step R f l f' ∧ p = V.idxOf f ∧ q = V.idxOf f' := by
  simp only [mkNfa, List.mem_flatMap, List.mem_map, Prod.mk.injEq]
  constructor
  · rintro ⟨f, hf, ⟨l', f'⟩, hs, rfl, rfl, rfl⟩
    exact ⟨f, hf, f', mem_succs.mp hs, rfl, rfl⟩
  · rintro ⟨f, hf, f', hs, rfl, rfl⟩
    exact ⟨f, hf, (l, f'), mem_succs.mpr hs, rfl, rfl, rfl⟩

theorem closedB_spec {R : Rules} {V : List (List Atom)} (h : closedB R V = true)
    {f f' : List Atom} {l : Option Nat} (hf : f ∈ V) (hs : Step R f l f') : f' ∈ V := by
  simp only [closedB, List.all_eq_true] at h
  have := h f hf (l, f') (mem_succs.mpr hs)
  simpa using this

theorem reach_to_run {R : Rules} {V : List (List Atom)} {top : RName} (hc : closedB R V = true)
    (h0 : [] ∈ V) {p q : Nat} {ws : List Nat} (hr : Reach (mkNfa R V top) p ws q) :
    ∀ f ∈ V, p = V.idxOf f → q = V.idxOf [] → Run R f ws := by
  induction hr with
  | refl =>
    intro f hf hp hq
    have : f = [] := idxOf_inj hf h0 (hp.symm.trans hq)
    subst this; exact .done
  | eps ha _ ih =>
    intro f hf hp hq
    obtain ⟨f0, hf0, f', hs, hp0, hq0⟩ := mem_arcs.mp ha
    have : f = f0 := idxOf_inj hf hf0 (hp.symm.trans hp0)
    subst this
    exact .eps hs (ih f' (closedB_spec hc hf hs) hq0 hq)
  | sym ha _ ih =>
    intro f hf hp hq
    obtain ⟨f0, hf0, f', hs, hp0, hq0⟩ := mem_arcs.mp ha
    have : f = f0 := idxOf_inj hf hf0 (hp.symm.trans hp0)
    subst this
    exact .sym hs (ih f' (closedB_spec hc hf hs) hq0 hq)

theorem run_to_reach {R : Rules} {V : List (List Atom)} {top : RName} (hc : closedB R V = true)
    {f : List Atom} {ws : List Nat} (hr : Run R f ws) :
    f ∈ V → Reach (mkNfa R V top) (V.idxOf f) ws (V.idxOf []) := by
  induction hr with
  | done => intro _; exact .refl
  | eps hs _ ih =>
    intro hf
    exact .eps (mem_arcs.mpr ⟨_, hf, _, hs, rfl, rfl⟩) (ih (closedB_spec hc hf hs))
  | sym hs _ ih =>
    intro hf
    exact .sym (mem_arcs.mpr ⟨_, hf, _, hs, rfl, rfl⟩) (ih (closedB_spec hc hf hs))

/-- a closed set of forms containing `[]` and the start form gives an automaton that accepts
exactly the denotation of the start form -/
theorem mkNfa_accepts {R : Rules} {V : List (List Atom)} {top : RName} (hc : closedB R V = true)
    (h0 : [] ∈ V) (ht : [Atom.ref top] ∈ V) (ws : List Nat) :
    Accepts (mkNfa R V top) ws ↔ Der R [.ref top] ws := by
  rw [← run_iff_der]
  constructor
  · intro h
    exact reach_to_run hc h0 h _ ht rfl rfl
  · intro h
    exact run_to_reach hc h ht

theorem explore_sound {R : Rules} {top : RName} {fuel : Nat} {A : Nfa}
    (h : explore R top fuel = some A) (ws : List Nat) : Accepts A ws ↔ Der R [.ref top] ws := by
  unfold explore at h
  simp only at h
  split at h
  · rename_i hc
    simp only [Bool.and_eq_true, List.contains_iff_mem] at hc
    cases h
    exact mkNfa_accepts hc.2 hc.1.1 hc.1.2 ws
  · cases h

end SSVerif.Jsgf

namespace SSVerif.Jsgf
open SSVerif.Nfa

/-! ### a rule table that represents a surface grammar has the same denotation -/

def Seq.exps : Seq → List Exp
  | .one _ _ e => [e]
  | .cons _ _ e s => e :: s.exps

/-- denotation of a list of surface expressions (concatenation) -/
inductive SemL (g : Grammar) : List Exp → List Nat → Prop
  | nil : SemL g [] []
  | cons {x xs w1 w2} : Sem g (.e x) w1 → SemL g xs w2 → SemL g (x :: xs) (w1 ++ w2)

theorem SemL.single {g x ws} (h : SemL g [x] ws) : Sem g (.e x) ws := by
  cases h with
  | cons h1 h2 => cases h2; simpa using h1

theorem SemL.pair {g x y ws} (h : SemL g [x, y] ws) :
    ∃ w1 w2, ws = w1 ++ w2 ∧ Sem g (.e x) w1 ∧ Sem g (.e y) w2 := by
  cases h with
  | cons h1 h2 => exact ⟨_, _, rfl, h1, h2.single⟩

theorem SemL.toSeq {g} : ∀ (s : Seq) {ws}, SemL g s.exps ws → Sem g (.s s) ws
  | .one _ _ _, _, h => .seqOne h.single
  | .cons _ _ _ s, _, h => by
    cases h with
    | cons h1 h2 => exact .seqCons h1 (SemL.toSeq s h2)

inductive RepL (R : Rules) : List Atom → List Exp → Prop
  | nil : RepL R [] []
  | cons {a e as es} : repE R a e = true → RepL R as es → RepL R (a :: as) (e :: es)

theorem repS_repL {R} : ∀ (s : Seq) (α : List Atom), repS R α s = true → RepL R α s.exps
  | .one _ _ e, α, h => by
    match α, h with
    | [a], h => simp only [repS] at h; exact .cons h .nil
    | [], h => simp [repS] at h
    | _ :: _ :: _, h => simp [repS] at h
  | .cons _ _ e s, α, h => by
    match α, h with
    | a :: rest, h =>
      simp only [repS, Bool.and_eq_true] at h
      exact .cons h.1 (repS_repL s rest h.2)
    | [], h => simp [repS] at h

/-- an alternative of a represented alternative list represents one of the surface sequences -/
theorem repA_mem {R g} : ∀ (body : Alts) (alts : List (List Atom)), repA R alts body = true →
    ∀ alt ∈ alts, ∃ s, repS R alt s = true ∧ ∀ ws, Sem g (.s s) ws → Sem g (.a body) ws
  | .one s, alts, h, alt, hm => by
    match alts, h, hm with
    | [alt0], h, hm =>
      simp only [repA] at h
      simp only [List.mem_singleton] at hm
      subst hm
      exact ⟨s, h, fun _ hs => .altOne hs⟩
    | [], h, _ => simp [repA] at h
    | _ :: _ :: _, h, _ => simp [repA] at h
  | .cons s a, alts, h, alt, hm => by
    match alts, h, hm with
    | alt0 :: rest, h, hm =>
      simp only [repA, Bool.and_eq_true] at h
      rcases List.mem_cons.mp hm with rfl | hm'
      · exact ⟨s, h.1, fun _ hs => .altHead hs⟩
      · obtain ⟨s', hs', hsem⟩ := repA_mem (g := g) a rest h.2 alt hm'
        exact ⟨s', hs', fun ws hw => .altTail (hsem ws hw)⟩
    | [], h, _ => simp [repA] at h

/-- what `tableMatches` establishes -/
structure Matches (R : Rules) (g : Grammar) : Prop where
  defd : ∀ n body, g.lookup n = some body → repA R (R (.user n)).reverse body = true
  undef : ∀ n, g.lookup n = none → R (.user n) = []

theorem der_alt_sem {R g} {alts : List (List Atom)} {body : Alts} {alt : List Atom} {ws : List Nat}
    (hrep : repA R alts body = true) (hm : alt ∈ alts)
    (ih : ∀ es, RepL R alt es → SemL g es ws) : Sem g (.a body) ws := by
  obtain ⟨s, hs, hsem⟩ := repA_mem (g := g) body alts hrep alt hm
  exact hsem ws (SemL.toSeq s (ih _ (repS_repL s alt hs)))

theorem repL_null {R} : RepL R [Atom.null] [Exp.null] := .cons (by simp [repE]) .nil

theorem semL_null_nil {g ws} (h : SemL g [Exp.null] ws) : ws = [] := by
  have := h.single
  cases this
  rfl

theorem der_to_sem {R g} (M : Matches R g) {α ws} (h : Der R α ws) :
    ∀ es, RepL R α es → SemL g es ws := by
  induction h with
  | nil => intro es hes; cases hes; exact .nil
  | tok _ ih =>
    intro es hes
    cases hes with
    | cons he hrest =>
      rename_i e es'
      cases e <;> simp [repE] at he
      subst he
      exact SemL.cons (w1 := [_]) .tok (ih _ hrest)
  | null _ ih =>
    intro es hes
    cases hes with
    | cons he hrest =>
      rename_i e es'
      cases e <;> simp [repE] at he
      exact SemL.cons (w1 := []) .null (ih _ hrest)
  | @ref r alt rest ws1 ws2 hm _ _ ih1 ih2 =>
    intro es hes
    cases hes with
    | cons he hrest =>
      rename_i e es'
      refine SemL.cons ?_ (ih2 _ hrest)
      cases r with
      | user n =>
        cases e <;> simp [repE] at he
        subst he
        cases hl : g.lookup n with
        | none => rw [M.undef n hl] at hm; cases hm
        | some body =>
          exact .ref hl (der_alt_sem (M.defd n body hl) (List.mem_reverse.mpr hm) ih1)
      | gen k =>
        cases e with
        | tok _ => simp [repE] at he
        | ref _ => simp [repE] at he
        | null => simp [repE] at he
        | void => simp [repE] at he
        | group body =>
          simp only [repE] at he
          exact .group (der_alt_sem he (List.mem_reverse.mpr hm) ih1)
        | opt body =>
          simp only [repE] at he
          split at he
          · rename_i rest' heq
            rw [heq] at hm
            rcases List.mem_cons.mp hm with rfl | hm'
            · have := semL_null_nil (ih1 _ repL_null)
              subst this
              exact .optNone
            · exact .optSome (der_alt_sem he (List.mem_reverse.mpr hm') ih1)
          · cases he
        | star x =>
          have he0 := he
          simp only [repE] at he
          split at he
          · rename_i a k' heq
            simp only [Bool.and_eq_true, beq_iff_eq] at he
            obtain ⟨rfl, ha⟩ := he
            rw [heq] at hm
            simp only [List.mem_cons, List.not_mem_nil, or_false] at hm
            rcases hm with rfl | rfl
            · have := semL_null_nil (ih1 _ repL_null)
              subst this
              exact .starNil
            · obtain ⟨w1, w2, rfl, h1, h2⟩ := (ih1 [x, .star x] (.cons ha (.cons he0 .nil))).pair
              exact .starCons h1 h2
          · cases he
        | plus x =>
          have he0 := he
          simp only [repE] at he
          split at he
          · rename_i a' a k' heq
            simp only [Bool.and_eq_true, beq_iff_eq] at he
            obtain ⟨⟨rfl, rfl⟩, ha⟩ := he
            rw [heq] at hm
            simp only [List.mem_cons, List.not_mem_nil, or_false] at hm
            rcases hm with rfl | rfl
            · exact .plusOne (ih1 [x] (.cons ha .nil)).single
            · obtain ⟨w1, w2, rfl, h1, h2⟩ := (ih1 [x, .plus x] (.cons ha (.cons he0 .nil))).pair
              exact .plusCons h1 h2
          · cases he

/-- motive of the converse direction, by syntactic category -/
def SemDer (R : Rules) : Syn → List Nat → Prop
  | .e x, ws => ∀ a, repE R a x = true → Der R [a] ws
  | .s s, ws => ∀ α, repS R α s = true → Der R α ws
  | .a body, ws => ∀ alts, repA R alts body = true → ∃ alt ∈ alts, Der R alt ws

theorem der_null {R} : Der R [Atom.null] [] := .null .nil

theorem sem_to_der {R g} (M : Matches R g) {syn ws} (h : Sem g syn ws) : SemDer R syn ws := by
  induction h with
  | tok =>
    intro a ha
    cases a <;> simp [repE] at ha
    subst ha
    exact .tok .nil
  | null =>
    intro a ha
    cases a <;> simp [repE] at ha
    exact der_null
  | @ref r body ws hl _ ih =>
    intro a ha
    cases a with
    | ref rn =>
      cases rn with
      | user n =>
        simp only [repE, beq_iff_eq] at ha
        subst ha
        obtain ⟨alt, hm, hd⟩ := ih _ (M.defd _ body hl)
        exact Der.single_ref (List.mem_reverse.mp hm) hd
      | gen k => simp [repE] at ha
    | tok _ => simp [repE] at ha
    | null => simp [repE] at ha
    | void => simp [repE] at ha
  | group _ ih =>
    intro a ha
    cases a with
    | ref rn =>
      cases rn with
      | user n => simp [repE] at ha
      | gen k =>
        simp only [repE] at ha
        obtain ⟨alt, hm, hd⟩ := ih _ ha
        exact Der.single_ref (List.mem_reverse.mp hm) hd
    | tok _ => simp [repE] at ha
    | null => simp [repE] at ha
    | void => simp [repE] at ha
  | optNone =>
    intro a ha
    cases a with
    | ref rn =>
      cases rn with
      | user n => simp [repE] at ha
      | gen k =>
        simp only [repE] at ha
        split at ha
        · rename_i rest heq
          exact Der.single_ref (alt := [.null]) (by rw [heq]; simp) der_null
        · cases ha
    | tok _ => simp [repE] at ha
    | null => simp [repE] at ha
    | void => simp [repE] at ha
  | optSome _ ih =>
    intro a ha
    cases a with
    | ref rn =>
      cases rn with
      | user n => simp [repE] at ha
      | gen k =>
        simp only [repE] at ha
        split at ha
        · rename_i rest heq
          obtain ⟨alt, hm, hd⟩ := ih _ ha
          exact Der.single_ref (alt := alt) (by rw [heq]; exact List.mem_cons_of_mem _ (List.mem_reverse.mp hm)) hd
        · cases ha
    | tok _ => simp [repE] at ha
    | null => simp [repE] at ha
    | void => simp [repE] at ha
  | starNil =>
    intro a ha
    cases a with
    | ref rn =>
      cases rn with
      | user n => simp [repE] at ha
      | gen k =>
        simp only [repE] at ha
        split at ha
        · rename_i a0 k' heq
          exact Der.single_ref (alt := [.null]) (by rw [heq]; simp) der_null
        · cases ha
    | tok _ => simp [repE] at ha
    | null => simp [repE] at ha
    | void => simp [repE] at ha
  | starCons _ _ ih1 ih2 =>
    intro a ha
    cases a with
    | ref rn =>
      cases rn with
      | user n => simp [repE] at ha
      | gen k =>
        have ha0 := ha
        simp only [repE] at ha
        split at ha
        · rename_i a0 k' heq
          simp only [Bool.and_eq_true, beq_iff_eq] at ha
          obtain ⟨rfl, hx⟩ := ha
          have d := Der.append (ih1 a0 hx) (ih2 _ ha0)
          exact Der.single_ref (alt := [a0, .ref (.gen k)]) (by rw [heq]; simp) d
        · cases ha
    | tok _ => simp [repE] at ha
    | null => simp [repE] at ha
    | void => simp [repE] at ha
  | plusOne _ ih =>
    intro a ha
    cases a with
    | ref rn =>
      cases rn with
      | user n => simp [repE] at ha
      | gen k =>
        simp only [repE] at ha
        split at ha
        · rename_i a' a0 k' heq
          simp only [Bool.and_eq_true, beq_iff_eq] at ha
          obtain ⟨⟨rfl, rfl⟩, hx⟩ := ha
          exact Der.single_ref (alt := [a0]) (by rw [heq]; simp) (ih a0 hx)
        · cases ha
    | tok _ => simp [repE] at ha
    | null => simp [repE] at ha
    | void => simp [repE] at ha
  | plusCons _ _ ih1 ih2 =>
    intro a ha
    cases a with
    | ref rn =>
      cases rn with
      | user n => simp [repE] at ha
      | gen k =>
        have ha0 := ha
        simp only [repE] at ha
        split at ha
        · rename_i a' a0 k' heq
          simp only [Bool.and_eq_true, beq_iff_eq] at ha
          obtain ⟨⟨rfl, rfl⟩, hx⟩ := ha
          have d := Der.append (ih1 a0 hx) (ih2 _ ha0)
          exact Der.single_ref (alt := [a0, .ref (.gen k)]) (by rw [heq]; simp) d
        · cases ha
    | tok _ => simp [repE] at ha
    | null => simp [repE] at ha
    | void => simp [repE] at ha
  | seqOne _ ih =>
    intro α hα
    match α, hα with
    | [a], hα => simp only [repS] at hα; exact ih a hα
    | [], hα => simp [repS] at hα
    | _ :: _ :: _, hα => simp [repS] at hα
  | seqCons _ _ ih1 ih2 =>
    intro α hα
    match α, hα with
    | a :: rest, hα =>
      simp only [repS, Bool.and_eq_true] at hα
      exact Der.append (a := [a]) (ih1 a hα.1) (ih2 rest hα.2)
    | [], hα => simp [repS] at hα
  | altOne _ ih =>
    intro alts ha
    match alts, ha with
    | [alt], ha => simp only [repA] at ha; exact ⟨alt, by simp, ih alt ha⟩
    | [], ha => simp [repA] at ha
    | _ :: _ :: _, ha => simp [repA] at ha
  | altHead _ ih =>
    intro alts ha
    match alts, ha with
    | alt :: rest, ha =>
      simp only [repA, Bool.and_eq_true] at ha
      exact ⟨alt, by simp, ih alt ha.1⟩
    | [], ha => simp [repA] at ha
  | altTail _ ih =>
    intro alts ha
    match alts, ha with
    | alt :: rest, ha =>
      simp only [repA, Bool.and_eq_true] at ha
      obtain ⟨alt', hm, hd⟩ := ih rest ha.2
      exact ⟨alt', List.mem_cons_of_mem _ hm, hd⟩
    | [], ha => simp [repA] at ha

theorem matches_lang {R g} (M : Matches R g) (r : Nat) (ws : List Nat) :
    Der R [.ref (.user r)] ws ↔ Lang g r ws := by
  constructor
  · intro h
    exact (der_to_sem M h [.ref r] (.cons (by simp [repE]) .nil)).single
  · intro h
    exact sem_to_der M h (.ref (.user r)) (by simp [repE])

end SSVerif.Jsgf

namespace SSVerif.Jsgf

/-! ### `tableMatches` establishes `Matches` -/

theorem lookup_some_mem {g : Grammar} {n : Nat} {body : Alts} (h : g.lookup n = some body) :
    ∃ rl ∈ g, rl.name = n ∧ rl.body = body := by
  unfold Grammar.lookup at h
  cases hf : List.find? (fun rl => rl.name == n) g with
  | none => simp [hf] at h
  | some rl =>
    simp only [hf, Option.map_some, Option.some.injEq] at h
    have h1 := List.mem_of_find?_eq_some hf
    have h2 := List.find?_some hf
    exact ⟨rl, h1, by simpa using h2, h⟩

theorem tableMatches_spec {T : Table} {g : Grammar} (h : tableMatches T g = true) :
    Matches T.rules g := by
  simp only [tableMatches, Bool.and_eq_true, List.all_eq_true] at h
  obtain ⟨hg, hT⟩ := h
  constructor
  · intro n body hl
    obtain ⟨rl, hm, hn, _⟩ := lookup_some_mem hl
    have := (hg rl hm).2
    rw [hn, hl] at this
    exact this
  · intro n hl
    unfold Table.rules
    cases hf : T.find (.user n) with
    | none => rfl
    | some rl =>
      exfalso
      unfold Table.find at hf
      have h1 := List.mem_of_find?_eq_some hf
      have h2 := List.find?_some hf
      have h3 : rl.name = .user n := by simpa using h2
      have := hT rl h1
      rw [h3] at this
      simp [hl] at this

/-! ### weight normalisation -/

theorem rat_inv_one : (1 : Rat)⁻¹ = 1 := by
  have := Rat.mul_inv_cancel 1 (by decide)
  rwa [Rat.one_mul] at this

theorem rat_div_one (a : Rat) : a / 1 = a := by
  rw [Rat.div_def, rat_inv_one, Rat.mul_one]

theorem rat_div_self {a : Rat} (h : a ≠ 0) : a / a = 1 := by
  rw [Rat.div_def, Rat.mul_inv_cancel _ h]

theorem rat_add_div (a b c : Rat) : (a + b) / c = a / c + b / c := by
  rw [Rat.div_def, Rat.div_def, Rat.div_def, Rat.add_mul]

theorem sumRat_map_div (c : Rat) : ∀ l : List Rat, sumRat (l.map (· / c)) = sumRat l / c
  | [] => by simp [sumRat, Rat.div_def, Rat.zero_mul]
  | x :: xs => by simp only [List.map_cons, sumRat, rat_add_div, sumRat_map_div c xs]

theorem scaleFirst_one : ∀ alt : List WAtom, scaleFirst 1 alt = alt
  | [] => rfl
  | a :: rest => by simp [scaleFirst, rat_div_one]

theorem firstWeights_scale (c : Rat) : ∀ alts : List (List WAtom),
    (alts.map (scaleFirst c)).filterMap (fun alt => alt.head?.map (·.wt)) =
      (alts.filterMap fun alt => alt.head?.map (·.wt)).map (· / c)
  | [] => rfl
  | [] :: rest => by
    have ih := firstWeights_scale c rest
    simp only [List.map_cons, scaleFirst, List.filterMap_cons, List.head?_nil, Option.map_none]
    exact ih
  | (a :: r) :: rest => by
    have ih := firstWeights_scale c rest
    simp only [List.map_cons, scaleFirst, List.filterMap_cons, List.head?_cons, Option.map_some]
    rw [ih]

theorem firstWeights_normalise (rl : Rule) :
    firstWeights (normaliseRule rl) = (firstWeights rl).map (· / normFactor rl) := by
  simp only [firstWeights, normaliseRule]
  exact firstWeights_scale _ _

theorem normalise_zero {rl : Rule} (h : sumRat (firstWeights rl) = 0) : normaliseRule rl = rl := by
  simp only [normaliseRule, normFactor, h, if_true]
  have : rl.alts.map (scaleFirst 1) = rl.alts := by
    induction rl.alts with
    | nil => rfl
    | cons a as ih => simp [scaleFirst_one, ih]
  rw [this]

theorem normalise_sum {rl : Rule} (h : sumRat (firstWeights rl) ≠ 0) :
    sumRat (firstWeights (normaliseRule rl)) = 1 := by
  rw [firstWeights_normalise, sumRat_map_div]
  simp only [normFactor, h, if_false]
  exact rat_div_self h

theorem normalise_idem (rl : Rule) : normaliseRule (normaliseRule rl) = normaliseRule rl := by
  by_cases h : sumRat (firstWeights rl) = 0
  · rw [normalise_zero h, normalise_zero h]
  · have h1 := normalise_sum h
    have hf : normFactor (normaliseRule rl) = 1 := by
      simp only [normFactor, h1]; decide
    have : ∀ r : Rule, normFactor r = 1 → normaliseRule r = r := by
      intro r hr
      simp only [normaliseRule, hr]
      have : r.alts.map (scaleFirst 1) = r.alts := by
        induction r.alts with
        | nil => rfl
        | cons a as ih => simp [scaleFirst_one, ih]
      rw [this]
    exact this _ hf

end SSVerif.Jsgf
