import SSVerif.Proofs.Hist
import SSVerif.Proofs.LatticeHistBridge
/-! The backtrace of the modelled `fsg_search_find_exit` / `fsg_search_seg_iter` (M8, `Model/Hist.lean`), restricted
to its word entries, is a complete chain in the sense of `chainOKB` (`Model/LatticeHist.lean`), and its lattice
segmentation is the word part of what `fsg_search_seg_iter` reports.  Core Lean only. -/
namespace SSVerif.Lattice
open SSVerif.Hist HistBridge

/-- the word entries (non-null arcs) on the backtrace from exit `bp`, in time order -/
def wordChain (g : Hist.Fsg) (h : Hist.Hist) (bp : Int) : List Nat :=
  (Hist.chain h bp).filter fun i => decide (¬ (Hist.linkOf g (Hist.ent h i)).wid < 0)

/-- the word segments of a segmentation of M8 as lattice segments `(word, sf, ef)` -/
def wordSegs (ss : List Hist.Seg) : List Lattice.Seg :=
  (ss.filter fun s => decide (¬ s.wid < 0)).map fun s => ⟨s.wid.toNat, s.sf.toNat, s.ef.toNat⟩

namespace ChainSearch

theorem size_toH (g : Hist.Fsg) (h : Hist.Hist) : (toH g h).size = h.size := by unfold toH; simp

/-- entry `i` records a word arc (the filter predicate of `wordChain`) -/
def isW (g : Hist.Fsg) (h : Hist.Hist) (i : Nat) : Bool :=
  decide (¬ (Hist.linkOf g (Hist.ent h i)).wid < 0)

theorem wordChain_eq (g : Hist.Fsg) (h : Hist.Hist) (bp : Int) :
    wordChain g h bp = (Hist.chain h bp).filter (isW g h) := rfl

theorem linkOf_some {g : Hist.Fsg} {e : Hist.Entry} {lid : Nat} (hl : e.link = some lid) :
    Hist.linkOf g e = g.link lid := by
  unfold Hist.linkOf; rw [hl]

theorem isW_root {g : Hist.Fsg} {h : Hist.Hist} {cur : Int} (wf : Hist.WFHist g h cur) : isW g h 0 = false := by
  unfold isW Hist.linkOf
  rw [wf.root.1]
  simp [Hist.nullLink]

/-- the `HEntry` view and the M8 view agree on which entries are word entries -/
theorem isWordEntry_toH (g : Hist.Fsg) (h : Hist.Hist) (i : Nat) (hi : i < h.size) :
    isWordEntry (toH g h) i = isW g h i := by
  unfold isWordEntry wordOf isW
  rw [hent_toH g h i hi]
  cases hl : (ent h i).link with
  | none => simp [Hist.linkOf, hl, Hist.nullLink]
  | some lid =>
    rw [linkOf_some hl]
    by_cases hw : (g.link lid).wid < 0
    · simp [label_none hw, hw]
    · simp [label_some hw, hw]

/-- the nearest word entry at or above `i` on the `pred` chain (null entries do not chain) -/
def lastW (g : Hist.Fsg) (h : Hist.Hist) (i : Nat) : Option Nat :=
  if i = 0 then none
  else if isW g h i = true then some i
  else if (ent h i).pred = 0 then none
  else some (ent h i).pred.toNat

/-- `prevWord` of a word entry, in terms of M8 -/
theorem prevWord_toH {g : Hist.Fsg} {h : Hist.Hist} {cur : Int} (wf : Hist.WFHist g h cur)
    {i : Nat} (hpos : 0 < i) (hi : i < h.size) :
    prevWord (toH g h) i = lastW g h (ent h i).pred.toNat := by
  obtain ⟨lid, hlk, _, hp0, hplt, _, _⟩ := wf.step i hpos hi
  unfold prevWord
  simp only
  rw [hent_toH g h i hi]
  simp only
  by_cases hp : (ent h i).pred = 0
  · rw [if_pos hp, hp]
    simp [lastW]
  · rw [if_neg hp]
    have hpp : 0 < (ent h i).pred.toNat := by omega
    have hpl : (ent h i).pred.toNat < h.size := by omega
    obtain ⟨lid', hlk', _, _, _, _, _⟩ := wf.step _ hpp hpl
    rw [hent_toH g h _ hpl]
    have hne : (ent h i).pred.toNat ≠ 0 := by omega
    unfold lastW
    rw [if_neg hne]
    unfold isW
    rw [linkOf_some hlk']
    simp only [hlk', Option.map_some]
    by_cases hw : (g.link lid').wid < 0
    · simp [label_none hw, hw]
    · simp [label_some hw, hw]

/-- `chainFrom` on a list extended at the end -/
theorem chainFrom_snoc (H : Array HEntry) (i : Nat) : ∀ (l : List Nat) (prev : Option Nat),
    chainFrom H prev (l ++ [i]) =
      (chainFrom H prev l && (decide (i < H.size) && isWordEntry H i && (prevWord H i == l.getLast?.or prev))) := by
  intro l
  induction l with
  | nil => intro prev; simp [chainFrom]
  | cons a l ih =>
    intro prev
    have hor : l.getLast?.or (some a) = (a :: l).getLast?.or prev := by
      rw [List.getLast?_cons]
      cases l.getLast? <;> simp
    simp only [List.cons_append, chainFrom, ih, hor, Bool.and_assoc]

/-- all entries on the backtrace from `i` are `≤ i` -/
theorem isChain_mem_le {g : Hist.Fsg} {h : Hist.Hist} {cur : Int} (wf : Hist.WFHist g h cur) {i : Nat} {l : List Nat}
    (hc : IsChain h i l) (hi : i < h.size) : ∀ j ∈ l, j ≤ i := by
  induction hc with
  | zero => simp
  | @step i l hpos _ ih =>
    intro j hj
    have hd := wf.desc i hpos hi
    rcases List.mem_append.1 hj with h1 | h1
    · have := ih (by omega) j h1; omega
    · simp at h1; omega

theorem filter_snoc (p : Nat → Bool) (l : List Nat) (i : Nat) :
    (l ++ [i]).filter p = if p i = true then l.filter p ++ [i] else l.filter p := by
  rw [List.filter_append]
  by_cases hp : p i = true
  · simp [hp]
  · simp [hp]

/-- chain part of T1, with the last element -/
theorem isChain_chainFrom {g : Hist.Fsg} {h : Hist.Hist} {cur : Int} (wf : Hist.WFHist g h cur) (ex : Extra g h)
    {i : Nat} {l : List Nat} (hc : IsChain h i l) (hi : i < h.size) :
    chainFrom (toH g h) none (l.filter (isW g h)) = true ∧ (l.filter (isW g h)).getLast? = lastW g h i := by
  induction hc with
  | zero => simp [chainFrom, lastW]
  | @step i l hpos _ ih =>
    obtain ⟨lid, hlk, _, hp0, hplt, _, _⟩ := wf.step i hpos hi
    obtain ⟨ih1, ih2⟩ := ih (by omega)
    have hne : i ≠ 0 := by omega
    rw [filter_snoc]
    by_cases hw : isW g h i = true
    · rw [if_pos hw]
      refine ⟨?_, ?_⟩
      · rw [chainFrom_snoc, ih1, ih2, prevWord_toH wf hpos hi, isWordEntry_toH g h i hi, hw, size_toH]
        simp [hi]
      · rw [List.getLast?_concat]
        simp [lastW, hne, hw]
    · rw [if_neg hw]
      refine ⟨ih1, ?_⟩
      rw [ih2]
      have hwid : (g.link lid).wid < 0 := by
        unfold isW at hw
        rw [linkOf_some hlk] at hw
        simpa using hw
      unfold lastW
      rw [if_neg hne, if_neg hw]
      by_cases hp : (ent h i).pred = 0
      · rw [if_pos hp, hp]; simp
      · rw [if_neg hp]
        have hpp : (ent h i).pred.toNat ≠ 0 := by omega
        obtain ⟨lid', hlk', hw'⟩ := ex.noNullChain i lid hpos hi hlk hwid hp
        have : isW g h (ent h i).pred.toNat = true := by
          unfold isW
          rw [linkOf_some hlk']
          simpa using hw'
        rw [if_neg hpp, if_pos this]

/-- a positive result of `find_exit` (called with `frame_idx = fsgs->frame`, as `hyp`/`seg_iter` do) is an
entry of the last frame of the table -/
theorem findExit_frame {g : Hist.Fsg} {h : Hist.Hist} {cur : Int} {final : Bool} (wf : Hist.WFHist g h cur)
    (hpos : 0 < (Hist.findExit g h cur cur final).bp) :
    ∃ j : Nat, (Hist.findExit g h cur cur final).bp = (j : Int) ∧ 0 < j ∧ j < h.size ∧
      (ent h j).frame = (ent h (h.size - 1)).frame := by
  have hcur : cur ≠ -1 := by
    have := wf.below 0 wf.nonempty
    rw [wf.root.2.1] at this
    omega
  have hk : scanBack h (if cur = -1 then cur - 1 else cur) (h.size - 1) = h.size - 1 := by
    rw [if_neg hcur]
    cases hm : h.size - 1 with
    | zero => rfl
    | succ m =>
      apply scanBack_hit
      have := wf.below (m + 1) (by omega)
      omega
  rw [findExit_eq] at hpos ⊢
  rw [hk] at hpos ⊢
  have hg := exitLoop_good (g := g) (h := h) (final := final) (lastFrm := (ent h (h.size - 1)).frame)
    (top := h.size - 1) (h.size - 1) ⟨intMin, -1⟩ (Nat.le_refl _) (Or.inl rfl)
  generalize exitLoop g h final (ent h (h.size - 1)).frame (h.size - 1) ⟨intMin, -1⟩ = b at hpos hg ⊢
  have h1 : h.size ≠ 0 := by have := wf.nonempty; omega
  by_cases h2 : h.size - 1 = 0
  · simp [h1, h2] at hpos
  · by_cases h3 : b.hist = -1
    · simp [h1, h2, h3] at hpos
    · simp only [h1, h2, h3, if_false] at hpos ⊢
      rcases hg with hg | ⟨j, hj, hjle, hfr, _⟩
      · exact absurd hg h3
      · refine ⟨j, hj, ?_, by omega, hfr⟩
        rw [hj] at hpos; omega

theorem frame_mono {g : Hist.Fsg} {h : Hist.Hist} {cur : Int} (wf : Hist.WFHist g h cur) :
    ∀ j, j < h.size → ∀ i, i ≤ j → (ent h i).frame ≤ (ent h j).frame := by
  intro j
  induction j with
  | zero => intro _ i hi; have : i = 0 := by omega
            subst this; exact Int.le_refl _
  | succ j ih =>
    intro hj i hi
    by_cases he : i = j + 1
    · subst he; exact Int.le_refl _
    · have := ih (by omega) i (by omega)
      have := wf.mono j hj
      omega

/-- an entry with the frame of the last entry of the table dominates -/
theorem lastDominates_toH {g : Hist.Fsg} {h : Hist.Hist} {cur : Int} (wf : Hist.WFHist g h cur) {k : Nat}
    (hk : k < h.size) (hfr : (ent h k).frame = (ent h (h.size - 1)).frame) :
    lastDominates (toH g h) k = true := by
  unfold lastDominates
  simp only [List.all_eq_true, List.mem_range, size_toH, Bool.or_eq_true, decide_eq_true_eq]
  intro m hm
  right
  rw [hent_toH g h m hm, hent_toH g h k hk]
  simp only
  rw [hfr]
  exact frame_mono wf (h.size - 1) (by omega) m (by omega)

/-- `lastW` is an entry of the table with the same frame -/
theorem lastW_some {g : Hist.Fsg} {h : Hist.Hist} {cur : Int} (wf : Hist.WFHist g h cur) {j k : Nat}
    (hj : j < h.size) (hl : lastW g h j = some k) : k < h.size ∧ (ent h k).frame = (ent h j).frame := by
  unfold lastW at hl
  by_cases h0 : j = 0
  · rw [if_pos h0] at hl; cases hl
  rw [if_neg h0] at hl
  by_cases hw : isW g h j = true
  · rw [if_pos hw] at hl
    cases hl; exact ⟨hj, rfl⟩
  rw [if_neg hw] at hl
  by_cases hp : (ent h j).pred = 0
  · rw [if_pos hp] at hl; cases hl
  rw [if_neg hp] at hl
  cases hl
  obtain ⟨lid, hlk, _, hp0, hplt, _, hfr⟩ := wf.step j (by omega) hj
  have hwid : (g.link lid).wid < 0 := by
    unfold isW at hw
    rw [linkOf_some hlk] at hw
    simpa using hw
  rw [if_pos hwid] at hfr
  exact ⟨by omega, hfr.symm⟩

/-- the lattice segment of a word entry is the M8 segment (no clamping, no D24 branch: `ef ≥ 1`) -/
theorem segOf_toH {g : Hist.Fsg} {h : Hist.Hist} {cur : Int} (wf : Hist.WFHist g h cur) (shift : Nat) {i : Nat}
    (hpos : 0 < i) (hi : i < h.size) (hw : isW g h i = true) :
    segOf (toH g h) i = ⟨(bp2itor shift g h (ent h i)).wid.toNat, (bp2itor shift g h (ent h i)).sf.toNat,
      (bp2itor shift g h (ent h i)).ef.toNat⟩ := by
  obtain ⟨lid, hlk, _, hp0, hplt, _, _⟩ := wf.step i hpos hi
  obtain ⟨hwid, _, _, hsf⟩ := bp2itor_wf wf shift hpos hi _ rfl
  have hnw : ¬ (g.link lid).wid < 0 := by
    unfold isW at hw
    rw [linkOf_some hlk] at hw
    simpa using hw
  rw [linkOf_some hlk] at hwid
  rw [hwid, if_neg hnw] at hsf
  obtain ⟨hsf1, hef, _⟩ := hsf
  rw [hwid, hsf1, hef]
  have hget : ∀ n, (toH g h).getD n default = hent (toH g h) n := fun _ => rfl
  unfold segOf entrySfAscr wordOf
  rw [hent_toH g h i hi]
  simp only [hlk, Option.map_some, label_some hnw, Option.getD_some, hget]
  by_cases hp : (ent h i).pred = 0
  · have hr := wf.root.2.1
    rw [hp] at *
    simp [hr]
  · rw [hent_toH g h _ (by omega)]
    simp [hp]

/-- filter/map commute along a list of word/null entries -/
theorem segs_filter_map {g : Hist.Fsg} {h : Hist.Hist} {cur : Int} (wf : Hist.WFHist g h cur) (shift : Nat) :
    ∀ l : List Nat, (∀ i ∈ l, 0 < i ∧ i < h.size) →
      (l.filter (isW g h)).map (segOf (toH g h)) = wordSegs (l.map fun i => bp2itor shift g h (ent h i)) := by
  intro l
  induction l with
  | nil => intro _; rfl
  | cons a l ih =>
    intro hall
    obtain ⟨hpos, hi⟩ := hall a (List.mem_cons_self ..)
    have ih' := ih fun i hi => hall i (List.mem_cons_of_mem _ hi)
    obtain ⟨hwid, _⟩ := bp2itor_wf wf shift hpos hi _ rfl
    unfold wordSegs at ih' ⊢
    by_cases hw : isW g h a = true
    · have hq : ¬ (bp2itor shift g h (ent h a)).wid < 0 := by
        rw [hwid]; unfold isW at hw; simpa using hw
      simp only [List.filter_cons, hw, if_true, List.map_cons, hq, not_false_eq_true, decide_true, ih',
        segOf_toH wf shift hpos hi hw]
    · have hq : (bp2itor shift g h (ent h a)).wid < 0 := by
        rw [hwid]; unfold isW at hw; simpa using hw
      simp only [List.filter_cons, hw, List.map_cons, hq, not_true_eq_false, decide_false]
      exact ih'

end ChainSearch

/-- T1: the word entries on the backtrace of `find_exit`'s result form a complete chain ending in the last
word-exit frame -/
theorem chainOKB_of_findExit (g : Hist.Fsg) (h : Hist.Hist) (cur : Int) (final : Bool)
    (wf : Hist.WFHist g h cur) (ex : extraB (HistBridge.toH g h) = true)
    (hpos : 0 < (Hist.findExit g h cur cur final).bp)
    (hne : wordChain g h (Hist.findExit g h cur cur final).bp ≠ []) :
    chainOKB (HistBridge.toH g h) (wordChain g h (Hist.findExit g h cur cur final).bp) = true := by
  have exx := extra_of_extraB g h ex
  obtain ⟨j, hj, hjpos, hjlt, hfr⟩ := ChainSearch.findExit_frame wf hpos
  rw [hj] at hne ⊢
  have hc := chain_isChain wf hjlt
  obtain ⟨h1, h2⟩ := ChainSearch.isChain_chainFrom wf exx hc hjlt
  rw [ChainSearch.wordChain_eq] at hne ⊢
  unfold chainOKB
  rw [h1, h2]
  cases hl : ChainSearch.lastW g h j with
  | none =>
    rw [hl] at h2
    exact absurd (List.getLast?_eq_none_iff.1 h2) hne
  | some k =>
    obtain ⟨hk, hkf⟩ := ChainSearch.lastW_some wf hjlt hl
    simp only [Bool.true_and]
    exact ChainSearch.lastDominates_toH wf hk (hkf.trans hfr)

/-- T2: its lattice segmentation is the word part of what `fsg_search_seg_iter` reports -/
theorem segsOf_wordChain (g : Hist.Fsg) (h : Hist.Hist) (cur : Int) (shift : Nat) (bp : Nat)
    (wf : Hist.WFHist g h cur) (ex : extraB (HistBridge.toH g h) = true) (hbp : bp < h.size) :
    segsOf (HistBridge.toH g h) (wordChain g h (bp : Int)) = wordSegs (Hist.segsAt shift g h (bp : Int)) := by
  have _ := ex   -- not needed: the word segments agree entry by entry under `WFHist` alone
  have hc := chain_isChain wf hbp
  unfold segsOf Hist.segsAt
  rw [ChainSearch.wordChain_eq]
  apply ChainSearch.segs_filter_map wf shift
  intro i hi
  have := ChainSearch.isChain_mem_le wf hc hbp i hi
  exact ⟨hc.mem_pos i hi, by omega⟩

end SSVerif.Lattice
