import SSVerif.Proofs.SearchScoreStep
/-! `fsg_search_start`, the run over `T` frames and `fsg_search_find_exit`: the unpruned scoring search reports the
optimum of the lextree network. Core Lean only. -/
namespace SSVerif.SearchScore
open SSVerif.Viterbi SSVerif.Hmm SSVerif.Search SSVerif.Hist
open SSVerif.FlatNet (hmmEdges hmmExits st shiftS)

/-! ### start -/

theorem hget_replicate (n p : Nat) : hget ((List.replicate n inact).toArray) p = inact := by
  unfold hget
  simp only [List.getElem?_toArray, List.getElem?_replicate]
  split <;> rfl

/-- the entries `fsg_search_start` makes -/
def startToks (E : Env) : List Tok :=
  dummyTok E :: (nullFrom E.g (dummyTok E).dst).map fun (lid, l) =>
    (⟨some lid, l.dst, -1, (dummyTok E).score + shiftS l.logp, (dummyTok E).lc, (dummyTok E).rc⟩ : Tok)

theorem searchStart_hmm (E : Env) :
    (searchStart E).hmm = (wordRelax E (startToks E)).foldl enter ((List.replicate E.n inact).toArray) := rfl

theorem searchStart_cur (E : Env) : (searchStart E).cur = startToks E := rfl

theorem startToks_sound {E : Env} {tk : Tok} (h : tk ∈ startToks E) :
    ∃ d hop, (d, hop) ∈ reach E.g E.g.start ∧ tk.dst = d ∧ tk.score = hop ∧ tk.lc = E.sil ∧ tk.rc = allCtx ∧
      tk.frame = -1 := by
  unfold startToks at h
  simp only [List.mem_cons, List.mem_map, Prod.exists] at h
  rcases h with rfl | ⟨lid, l, hm, rfl⟩
  · exact ⟨E.g.start, 0, mem_reach.mpr (Or.inl ⟨rfl, rfl⟩), rfl, rfl, rfl, rfl, rfl⟩
  · refine ⟨l.dst, shiftS l.logp, mem_reach.mpr (Or.inr ⟨lid, l, hm, rfl, rfl⟩), rfl, ?_, rfl, rfl, rfl⟩
    simp [dummyTok]

theorem startToks_compl {E : Env} {d : Nat} {hop : Int} (h : (d, hop) ∈ reach E.g E.g.start) :
    ∃ tk ∈ startToks E, tk.dst = d ∧ tk.score = hop ∧ tk.lc = E.sil ∧ tk.rc = allCtx := by
  rcases mem_reach.mp h with ⟨rfl, rfl⟩ | ⟨lid, l, hm, rfl, rfl⟩
  · exact ⟨dummyTok E, by simp [startToks], rfl, rfl, rfl, rfl⟩
  · refine ⟨⟨some lid, l.dst, -1, (dummyTok E).score + shiftS l.logp, (dummyTok E).lc, (dummyTok E).rc⟩, ?_, rfl, ?_, rfl, rfl⟩
    · unfold startToks
      simp only [List.mem_cons, List.mem_map, Prod.exists]
      exact Or.inr ⟨lid, l, hm, rfl⟩
    · simp [dummyTok]

theorem start_hmm (E : Env) (e : Nat → Nat → Nat → Int) : HmmInv E e 0 (searchStart E).hmm := by
  rw [searchStart_hmm]
  have hsz : ((List.replicate E.n inact).toArray).size = E.n := by simp
  have hfold := foldl_enter (wordRelax E (startToks E)) ((List.replicate E.n inact).toArray)
  have hst : ∀ a b : Nat, st a b = 3 * a + b := fun _ _ => rfl
  constructor
  · by_cases hn : 0 < E.n
    · rw [(hfold 0 (by omega)).1, hsz]
    · have : ∀ l : List (Nat × Int), ∀ a : Array ISt, (l.foldl enter a).size = a.size := by
        intro l
        induction l with
        | nil => intro a; rfl
        | cons x xs ih => intro a; rw [List.foldl_cons, ih, enter_size]
      rw [this, hsz]
  · intro p hp k hk
    obtain ⟨_, b1, b2, b0⟩ := hfold p (by omega)
    have hdp := isMax_v0 (treeNet E) (st p k)
    show _ = v0 (treeNet E) (st p k)
    rcases Nat.lt_or_ge 0 k with hk0 | hk0
    · have hmodel : comp (hget ((wordRelax E (startToks E)).foldl enter ((List.replicate E.n inact).toArray)) p) k = none := by
        rcases k with _ | _ | _ | k
        · omega
        · rw [b1, hget_replicate, comp_inact]
        · rw [b2, hget_replicate, comp_inact]
        · omega
      rw [hmodel]
      refine (isMax_none).unique (hdp.congr fun x => ?_)
      constructor
      · rintro h
        obtain ⟨d, hop, _, r, _, _, hj, _⟩ := mem_init.mp h
        rw [hst, hst] at hj
        omega
      · intro h; exact h.elim
    · have hk00 : k = 0 := by omega
      subst hk00
      have h0 : IsMax (fun _ => False) (comp (hget ((List.replicate E.n inact).toArray) p) 0) := by
        rw [hget_replicate, comp_inact]; exact isMax_none
      refine (b0 _ h0).unique (hdp.congr fun x => ?_)
      constructor
      · intro h
        obtain ⟨d, hop, hr, r, hrr, hadm, hj, rfl⟩ := mem_init.mp h
        rw [hst, hst] at hj
        have : r = p := by omega
        subst this
        obtain ⟨tk, htk, g1, g2, g3, g4⟩ := startToks_compl hr
        right
        exact mem_wordRelax.mpr ⟨tk, htk, by rw [g1]; exact hrr, by rw [g3, g4]; exact hadm, by rw [g2]⟩
      · rintro (h | h)
        · exact h.elim
        · obtain ⟨tk, htk, hroot, hadm, rfl⟩ := mem_wordRelax.mp h
          obtain ⟨d, hop, hr, g1, g2, g3, g4, _⟩ := startToks_sound htk
          exact mem_init.mpr ⟨d, hop, hr, p, by rw [← g1]; exact hroot, by rw [← g3, ← g4]; exact hadm, rfl, by rw [g2]⟩

/-! ### the run -/

theorem runSearch_succ (E : Env) (e : Nat → Nat → Nat → Int) (T : Nat) :
    runSearch E e (T + 1) = searchFrame E (e T) (runSearch E e T) := by
  unfold runSearch
  rw [List.range_succ, List.foldl_append]
  rfl

/-- what holds between frames -/
structure RunInv (E : Env) (e : Nat → Nat → Nat → Int) (T : Nat) (s : SS) : Prop where
  hmm : HmmInv E e T s.hmm
  frame : s.frame = (T : Int)
  old : ∀ tk ∈ s.table, tk.frame < (T : Int)
  ne : s.table ≠ []

theorem searchFrame_old (E : Env) (e : Nat → Nat → Int) (s : SS) : (searchFrame E e s).old = s.old ++ s.cur := rfl
theorem searchFrame_frame (E : Env) (e : Nat → Nat → Int) (s : SS) : (searchFrame E e s).frame = s.frame + 1 := rfl

theorem run_inv (E : Env) (e : Nat → Nat → Nat → Int) : ∀ T, RunInv E e T (runSearch E e T) := by
  intro T
  induction T with
  | zero =>
    refine ⟨start_hmm E e, rfl, ?_, ?_⟩
    · intro tk htk
      have : tk ∈ startToks E := htk
      obtain ⟨_, _, _, _, _, _, _, hf⟩ := startToks_sound this
      rw [hf]; decide
    · simp [SS.table, runSearch, searchStart]
  | succ T ih =>
    rw [runSearch_succ]
    refine ⟨frame_hmm E e T _ ih.hmm, ?_, ?_, ?_⟩
    · rw [searchFrame_frame, ih.frame]; omega
    · intro tk htk
      unfold SS.table at htk
      rw [searchFrame_old, searchFrame_cur] at htk
      rcases List.mem_append.mp htk with h | h
      · have := ih.old tk h
        omega
      · obtain ⟨_, _, _, _, _, _, _, _, _, _, _, _, hf, _⟩ := tok_sound h
        rw [hf, ih.frame]; omega
    · unfold SS.table
      rw [searchFrame_old]
      intro h
      have := List.append_eq_nil_iff.mp h
      exact ih.ne this.1

/-! ### `findExit` -/

theorem takeWhile_all {α : Type} (p : α → Bool) (l1 l2 : List α) (h1 : ∀ x ∈ l1, p x = true) (h2 : ∀ x ∈ l2, p x = false) :
    (l1 ++ l2).takeWhile p = l1 := by
  induction l1 with
  | nil =>
    cases l2 with
    | nil => rfl
    | cons y ys => simp [List.takeWhile, h2 y (by simp)]
  | cons x xs ih =>
    simp only [List.cons_append, List.takeWhile_cons, h1 x (by simp), if_true]
    rw [ih (fun y hy => h1 y (List.mem_cons_of_mem _ hy))]

/-- when the last frame `f` has entries, `find_exit` reads exactly them -/
theorem findExit_cur (final : Nat) (old cur : List Tok) (f : Int) (hold : old ≠ []) (hcur : cur ≠ [])
    (h1 : ∀ tk ∈ cur, tk.frame = f ∧ tk.link.isSome = true) (h2 : ∀ tk ∈ old, tk.frame ≠ f) :
    ∃ y, findExit final (old ++ cur) = some (f, y) ∧ IsMax (fun v => ∃ tk ∈ cur, tk.dst = final ∧ v = tk.score) y := by
  obtain ⟨last, hlast⟩ : ∃ last, cur.getLast? = some last := by
    cases h : cur.getLast? with
    | none => exact absurd (List.getLast?_eq_none_iff.mp h) hcur
    | some x => exact ⟨x, rfl⟩
  have hlmem : last ∈ cur := List.mem_of_getLast? hlast
  have hlen : ¬ (old ++ cur).length ≤ 1 := by
    have : 0 < old.length := List.length_pos_iff.mpr hold
    have : 0 < cur.length := List.length_pos_iff.mpr hcur
    simp only [List.length_append]; omega
  have hgl : (old ++ cur).getLast? = some last := by
    rw [List.getLast?_append, hlast]; rfl
  have htw : (old ++ cur).reverse.takeWhile (fun e => e.frame == last.frame && e.link.isSome) = cur.reverse := by
    rw [List.reverse_append]
    apply takeWhile_all
    · intro x hx
      have := h1 x (List.mem_reverse.mp hx)
      simp [this.1, this.2, (h1 last hlmem).1]
    · intro x hx
      have := h2 x (List.mem_reverse.mp hx)
      have hne : (x.frame == last.frame) = false := by
        rw [(h1 last hlmem).1]; simpa using this
      simp [hne]
  refine ⟨best (cur.reverse.map fun e => if e.dst = final then some e.score else none), ?_, ?_⟩
  · unfold findExit
    have hlf := (h1 last hlmem).1
    rw [hlf] at htw
    simp only [hlen, if_false, hgl, hlf, htw]
  · refine (isMax_best _).congr fun v => ?_
    simp only [List.mem_map, List.mem_reverse]
    constructor
    · rintro ⟨tk, htk, he⟩
      split at he
      · rename_i hd
        cases he
        exact ⟨tk, htk, hd, rfl⟩
      · cases he
    · rintro ⟨tk, htk, hd, rfl⟩
      exact ⟨tk, htk, by simp [hd]⟩

/-- whatever `find_exit` returns carries the frame of an entry of the table -/
theorem findExit_frame {final : Nat} {tbl : List Tok} {f : Int} {y : Option Int} (h : findExit final tbl = some (f, y)) :
    ∃ tk ∈ tbl, tk.frame = f := by
  unfold findExit at h
  split at h
  · cases h
  · cases hl : tbl.getLast? with
    | none => rw [hl] at h; cases h
    | some last =>
      rw [hl] at h
      simp only [Option.some.injEq, Prod.mk.injEq] at h
      exact ⟨last, List.mem_of_getLast? hl, h.1⟩

/-! ### the result -/

/-- **The unpruned search computes the DP of the lextree network.**  For every lextree, FSG, transition matrices,
context data, emission scores and length `T ≥ 1`: if the optimum over the alignments of the lextree network is
finite, `fsg_search_find_exit` reads it from an entry of the last frame; and whenever `find_exit` answers from the last
frame (it falls back to earlier frames when the last one made no entry), its answer — a score, or "final state not
reached" — is the optimum. -/
theorem search_is_tree_dp (E : Env) (e : Nat → Nat → Nat → Int) (T : Nat) (hT : 0 < T) :
    (∀ v, viterbi (treeNet E) (treeEm E e) T = some v →
      findExit E.g.final (runSearch E e T).table = some (((T - 1 : Nat) : Int), some v)) ∧
    (∀ f sc, findExit E.g.final (runSearch E e T).table = some (f, sc) → f = ((T - 1 : Nat) : Int) →
      sc = viterbi (treeNet E) (treeEm E e) T) := by
  obtain ⟨t, rfl⟩ : ∃ t, T = t + 1 := ⟨T - 1, by omega⟩
  have hT1 : t + 1 - 1 = t := by omega
  rw [hT1]
  have ih := run_inv E e t
  let s := runSearch E e t
  let out : Nat → Option Int := fun p => (evget (evalAll E (e t) s.hmm) p).2
  have htable : (runSearch E e (t + 1)).table = s.table ++ curOf E out (t : Int) := by
    rw [runSearch_succ]
    unfold SS.table
    rw [searchFrame_old, searchFrame_cur, ih.frame]
  have hvit := isMax_viterbi (treeNet E) (treeEm E e) (t + 1)
  rw [hT1] at hvit
  -- tokens of the last frame that end in the final state vs. the exit candidates of the DP
  have hsound : ∀ tk ∈ curOf E out (t : Int), tk.dst = E.g.final →
      ∃ i c u, (i, c) ∈ (treeNet E).exits ∧ vAt (treeNet E) (treeEm E e) t i = some u ∧
        tk.score = u + treeEm E e t i + c := by
    intro tk htk hd
    obtain ⟨q, hq, hl, w, d, hop, ho, hr, h1, h2, _, _, _, _⟩ := tok_sound htk
    obtain ⟨k, cx, u, hx, hv, rfl⟩ := (isMax_out E e t s ih.hmm q hq).1 w ho
    have hdf : d = E.g.final := by rw [← h1]; exact hd
    subst hdf
    exact ⟨st q k, cx + hop, u, mem_exits.mpr ⟨q, hq, hl, hop, hr, k, cx, hx, rfl, rfl⟩, hv, by omega⟩
  have hcompl : ∀ i c u, (i, c) ∈ (treeNet E).exits → vAt (treeNet E) (treeEm E e) t i = some u →
      ∃ tk ∈ curOf E out (t : Int), tk.dst = E.g.final ∧ u + treeEm E e t i + c ≤ tk.score := by
    intro i c u hm hv
    obtain ⟨q, hq, hl, hop, hr, k, cx, hx, rfl, rfl⟩ := mem_exits.mp hm
    have hge := (isMax_out E e t s ih.hmm q hq).2 _ ⟨k, cx, u, hx, hv, rfl⟩
    obtain ⟨w, ho, hle⟩ := ole_some_elim hge
    obtain ⟨tk, htk, g1, g2⟩ := (tok_compl (out := out) (t : Int) hq hl ho hr).2
    exact ⟨tk, htk, g1, by omega⟩
  by_cases hcur : curOf E out (t : Int) = []
  · -- no entry in the last frame: the optimum is −∞ and `find_exit` falls back to an earlier frame
    have hnone : viterbi (treeNet E) (treeEm E e) (t + 1) = none := by
      apply hvit.none_iff.mpr
      rintro v ⟨i, c, u, hm, hv, rfl⟩
      obtain ⟨tk, htk, _, _⟩ := hcompl i c u hm hv
      rw [hcur] at htk
      cases htk
    constructor
    · intro v hv; rw [hnone] at hv; cases hv
    · intro f sc hfe hf
      rw [htable, hcur, List.append_nil] at hfe
      obtain ⟨tk, htk, hfr⟩ := findExit_frame hfe
      have := ih.old tk htk
      omega
  · have h1 : ∀ tk ∈ curOf E out (t : Int), tk.frame = (t : Int) ∧ tk.link.isSome = true := by
      intro tk htk
      obtain ⟨_, _, _, _, _, _, _, _, _, _, _, _, hf, hl⟩ := tok_sound htk
      exact ⟨hf, hl⟩
    have h2 : ∀ tk ∈ s.table, tk.frame ≠ (t : Int) := by
      intro tk htk
      have := ih.old tk htk
      omega
    obtain ⟨y, hfe, hy⟩ := findExit_cur E.g.final s.table (curOf E out (t : Int)) (t : Int) ih.ne hcur h1 h2
    have hyv : y = viterbi (treeNet E) (treeEm E e) (t + 1) := by
      refine hy.eq_of_cofinal hvit ?_ ?_
      · rintro v ⟨tk, htk, hd, rfl⟩
        obtain ⟨i, c, u, hm, hv, he⟩ := hsound tk htk hd
        exact ⟨_, ⟨i, c, u, hm, hv, rfl⟩, by omega⟩
      · rintro v ⟨i, c, u, hm, hv, rfl⟩
        obtain ⟨tk, htk, hd, hle⟩ := hcompl i c u hm hv
        exact ⟨tk.score, ⟨tk, htk, hd, rfl⟩, hle⟩
    rw [htable, hfe]
    constructor
    · intro v hv
      rw [hyv, hv]
    · intro f sc h _
      simp only [Option.some.injEq, Prod.mk.injEq] at h
      rw [← h.2, hyv]

end SSVerif.SearchScore
