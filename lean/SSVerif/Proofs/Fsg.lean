import SSVerif.Model.Fsg
/-!
# Helper lemmas for M6 (`Model/Fsg.lean`): simulation preorders, projection to real words

`Dom g g'`  — every link of `g` has a counterpart in `g'` (same ends and label) at least as probable.
`Sim g' g`  — every link of `g'` is matched in `g` by a path with the same label at least as probable.
`Ext g g'`  — both; then `g` and `g'` accept the same sentences with the same best log-probability.
-/
namespace SSVerif.Fsg

/-! ### runs -/

theorem Run.trans {g p u v q w x r} (h1 : Run g p u v q) (h2 : Run g q w x r) :
    Run g p (u ++ w) (v + x) r := by
  induction h1 with
  | nil => simpa using h2
  | eps hm hw _ ih => rw [Int.add_assoc]; exact .eps hm hw (ih h2)
  | sym hm hw _ ih => rw [Int.add_assoc]; exact .sym hm hw (ih h2)

/-- label of a link as a word sequence -/
def lab : Option Nat → List Nat
  | none => []
  | some w => [w]

theorem Run.single {g : Fsg} {l : Link} (h : l ∈ g.links) : Run g l.src (lab l.wid) l.logp l.dst := by
  cases hw : l.wid with
  | none => have := Run.eps h hw (Run.nil (g := g) (q := l.dst)); simpa [lab] using this
  | some w => have := Run.sym h hw (Run.nil (g := g) (q := l.dst)); simpa [lab] using this

def Dom (g g' : Fsg) : Prop :=
  ∀ l ∈ g.links, ∃ l' ∈ g'.links, l'.src = l.src ∧ l'.dst = l.dst ∧ l'.wid = l.wid ∧ l.logp ≤ l'.logp

def Sim (g' g : Fsg) : Prop :=
  ∀ l' ∈ g'.links, ∃ v, l'.logp ≤ v ∧ Run g l'.src (lab l'.wid) v l'.dst

theorem Dom.refl (g : Fsg) : Dom g g := fun l h => ⟨l, h, rfl, rfl, rfl, Int.le_refl _⟩

theorem Dom.trans {a b c : Fsg} (h1 : Dom a b) (h2 : Dom b c) : Dom a c := by
  intro l hl
  obtain ⟨l1, m1, s1, d1, w1, p1⟩ := h1 l hl
  obtain ⟨l2, m2, s2, d2, w2, p2⟩ := h2 l1 m1
  exact ⟨l2, m2, s2.trans s1, d2.trans d1, w2.trans w1, Int.le_trans p1 p2⟩

theorem Run.dom {g g' : Fsg} (h : Dom g g') {p ws v q} (r : Run g p ws v q) :
    ∃ v', v ≤ v' ∧ Run g' p ws v' q := by
  induction r with
  | nil => exact ⟨0, Int.le_refl _, .nil⟩
  | @eps l ws v r hm hw _ ih =>
    obtain ⟨v', hv, r'⟩ := ih
    obtain ⟨l', m', s', d', w', p'⟩ := h l hm
    refine ⟨l'.logp + v', Int.add_le_add p' hv, ?_⟩
    rw [← s']; exact .eps m' (w'.trans hw) (d' ▸ r')
  | @sym l w ws v r hm hw _ ih =>
    obtain ⟨v', hv, r'⟩ := ih
    obtain ⟨l', m', s', d', w', p'⟩ := h l hm
    refine ⟨l'.logp + v', Int.add_le_add p' hv, ?_⟩
    rw [← s']; exact .sym m' (w'.trans hw) (d' ▸ r')

theorem Run.sim {g g' : Fsg} (h : Sim g' g) {p ws v q} (r : Run g' p ws v q) :
    ∃ v', v ≤ v' ∧ Run g p ws v' q := by
  induction r with
  | nil => exact ⟨0, Int.le_refl _, .nil⟩
  | @eps l ws v r hm hw _ ih =>
    obtain ⟨v', hv, r'⟩ := ih
    obtain ⟨x, hx, rx⟩ := h l hm
    rw [hw] at rx
    exact ⟨x + v', Int.add_le_add hx hv, by simpa [lab] using rx.trans r'⟩
  | @sym l w ws v r hm hw _ ih =>
    obtain ⟨v', hv, r'⟩ := ih
    obtain ⟨x, hx, rx⟩ := h l hm
    rw [hw] at rx
    exact ⟨x + v', Int.add_le_add hx hv, by simpa [lab] using rx.trans r'⟩

theorem Sim.refl (g : Fsg) : Sim g g := fun l h => ⟨l.logp, Int.le_refl _, Run.single h⟩

theorem Sim.trans {a b c : Fsg} (h1 : Sim a b) (h2 : Sim b c) : Sim a c := by
  intro l hl
  obtain ⟨v, hv, r⟩ := h1 l hl
  obtain ⟨v', hv', r'⟩ := r.sim h2
  exact ⟨v', Int.le_trans hv hv', r'⟩

/-- `g'` extends `g` without changing what it accepts or how well -/
structure Ext (g g' : Fsg) : Prop where
  dom : Dom g g'
  sim : Sim g' g
  start : g'.start = g.start
  final : g'.final = g.final

theorem Ext.refl (g : Fsg) : Ext g g := ⟨Dom.refl g, Sim.refl g, rfl, rfl⟩

theorem Ext.trans {a b c : Fsg} (h1 : Ext a b) (h2 : Ext b c) : Ext a c :=
  ⟨h1.dom.trans h2.dom, h2.sim.trans h1.sim, h2.start.trans h1.start, h2.final.trans h1.final⟩

theorem Ext.accepts_iff {g g' : Fsg} (h : Ext g g') (ws : List Nat) : accepts g' ws ↔ accepts g ws := by
  unfold accepts; rw [h.start, h.final]
  constructor
  · rintro ⟨v, r⟩; obtain ⟨v', _, r'⟩ := r.sim h.sim; exact ⟨v', r'⟩
  · rintro ⟨v, r⟩; obtain ⟨v', _, r'⟩ := r.dom h.dom; exact ⟨v', r'⟩

theorem Ext.isBest_iff {g g' : Fsg} (h : Ext g g') (ws : List Nat) (v : Int) : IsBest g' ws v ↔ IsBest g ws v := by
  unfold IsBest; rw [h.start, h.final]
  constructor
  · rintro ⟨r, hmax⟩
    obtain ⟨v1, hv1, r1⟩ := r.sim h.sim
    obtain ⟨v2, hv2, r2⟩ := r1.dom h.dom
    have : v1 = v := Int.le_antisymm (Int.le_trans hv2 (hmax v2 r2)) hv1
    subst this
    refine ⟨r1, fun x rx => ?_⟩
    obtain ⟨x', hx', rx'⟩ := rx.dom h.dom
    exact Int.le_trans hx' (hmax x' rx')
  · rintro ⟨r, hmax⟩
    obtain ⟨v1, hv1, r1⟩ := r.dom h.dom
    obtain ⟨v2, hv2, r2⟩ := r1.sim h.sim
    have : v1 = v := Int.le_antisymm (Int.le_trans hv2 (hmax v2 r2)) hv1
    subst this
    refine ⟨r1, fun x rx => ?_⟩
    obtain ⟨x', hx', rx'⟩ := rx.sim h.sim
    exact Int.le_trans hx' (hmax x' rx')

/-! ### `raiseFirst`, `transAdd`, `nullAdd` -/

theorem mem_raiseFirst {p : Link → Bool} {lp : Int} {ls : List Link} {x : Link} (h : x ∈ raiseFirst p lp ls) :
    x ∈ ls ∨ ∃ l ∈ ls, p l = true ∧ x = { l with logp := lp } := by
  induction ls with
  | nil => simp [raiseFirst] at h
  | cons l ls ih =>
    simp only [raiseFirst] at h
    split at h
    · rename_i hp
      rcases List.mem_cons.1 h with rfl | h
      · exact .inr ⟨l, List.mem_cons_self, hp, rfl⟩
      · exact .inl (List.mem_cons_of_mem _ h)
    · rcases List.mem_cons.1 h with rfl | h
      · exact .inl List.mem_cons_self
      · rcases ih h with h | ⟨l', m, hp, e⟩
        · exact .inl (List.mem_cons_of_mem _ h)
        · exact .inr ⟨l', List.mem_cons_of_mem _ m, hp, e⟩

/-- every old link survives `raiseFirst`, possibly with `logp` replaced by `lp` when it matched -/
theorem raiseFirst_covers {p : Link → Bool} {lp : Int} {ls : List Link} {x : Link} (h : x ∈ ls) :
    x ∈ raiseFirst p lp ls ∨ (p x = true ∧ { x with logp := lp } ∈ raiseFirst p lp ls ∧
      ls.find? p = some x) := by
  induction ls with
  | nil => cases h
  | cons l ls ih =>
    simp only [raiseFirst]
    by_cases hp : p l = true
    · simp only [hp, if_true]
      rcases List.mem_cons.1 h with rfl | h
      · exact .inr ⟨hp, List.mem_cons_self, by simp [List.find?, hp]⟩
      · exact .inl (List.mem_cons_of_mem _ h)
    · simp only [hp]
      rcases List.mem_cons.1 h with rfl | h
      · exact .inl List.mem_cons_self
      · rcases ih h with h | ⟨h1, h2, h3⟩
        · exact .inl (List.mem_cons_of_mem _ h)
        · refine .inr ⟨h1, List.mem_cons_of_mem _ h2, ?_⟩
          simp only [List.find?]
          have : p l = false := by simpa using hp
          rw [this]; exact h3

theorem isNullAt_iff {a c : Nat} {l : Link} : Link.isNullAt a c l = true ↔ l.wid = none ∧ l.src = a ∧ l.dst = c := by
  simp [Link.isNullAt, Option.isNone_iff_eq_none, and_assoc]

theorem isWordAt_iff {a c w : Nat} {l : Link} : Link.isWordAt a c w l = true ↔ l.wid = some w ∧ l.src = a ∧ l.dst = c := by
  simp [Link.isWordAt, and_assoc]

theorem nullLookup_some {g : Fsg} {a c : Nat} {v : Int} (h : nullLookup g a c = some v) :
    ∃ l ∈ g.links, l.wid = none ∧ l.src = a ∧ l.dst = c ∧ l.logp = v := by
  unfold nullLookup at h
  cases hf : g.links.find? (Link.isNullAt a c) with
  | none => simp [hf] at h
  | some l =>
    simp [hf] at h
    have := isNullAt_iff.1 (List.find?_some hf)
    exact ⟨l, List.mem_of_find?_eq_some hf, this.1, this.2.1, this.2.2, h⟩

theorem nullLookup_none {g : Fsg} {a c : Nat} (h : nullLookup g a c = none) :
    ∀ l ∈ g.links, ¬ (l.wid = none ∧ l.src = a ∧ l.dst = c) := by
  unfold nullLookup at h
  cases hf : g.links.find? (Link.isNullAt a c) with
  | none => intro l hl hc; exact (List.find?_eq_none.1 hf l hl) (isNullAt_iff.2 hc)
  | some l => simp [hf] at h

/-- raising the first link matching `p` from a value `< lp`, or not touching the list -/
theorem dom_raiseFirst {g : Fsg} {p : Link → Bool} {lp : Int} {l0 : Link}
    (hf : g.links.find? p = some l0) (hlt : l0.logp < lp) :
    Dom g { g with links := raiseFirst p lp g.links } := by
  intro l hl
  rcases raiseFirst_covers (p := p) (lp := lp) hl with h | ⟨_, h2, h3⟩
  · exact ⟨l, h, rfl, rfl, rfl, Int.le_refl _⟩
  · have : l = l0 := Option.some.inj (h3.symm.trans hf)
    subst this
    exact ⟨_, h2, rfl, rfl, rfl, Int.le_of_lt hlt⟩

theorem nullAdd_start (g : Fsg) (a c : Nat) (lp : Int) :
    (nullAdd g a c lp).1.start = g.start ∧ (nullAdd g a c lp).1.final = g.final ∧
    (nullAdd g a c lp).1.nState = g.nState ∧ (nullAdd g a c lp).1.vocab = g.vocab ∧
    (nullAdd g a c lp).1.sil = g.sil ∧ (nullAdd g a c lp).1.alt = g.alt ∧ (nullAdd g a c lp).1.name = g.name ∧
    (nullAdd g a c lp).1.logZero = g.logZero := by
  unfold nullAdd; split
  · simp
  · split
    · split <;> simp
    · simp

theorem nullAdd_dom (g : Fsg) (a c : Nat) (lp : Int) : Dom g (nullAdd g a c lp).1 := by
  unfold nullAdd; split
  · exact Dom.refl g
  · cases hlk : nullLookup g a c with
    | none => exact fun l hl => ⟨l, List.mem_cons_of_mem _ hl, rfl, rfl, rfl, Int.le_refl _⟩
    | some old =>
      simp only
      split
      · rename_i hlt
        unfold nullLookup at hlk
        cases hf : g.links.find? (Link.isNullAt a c) with
        | none => simp [hf] at hlk
        | some l0 =>
          simp [hf] at hlk
          exact dom_raiseFirst hf (hlk ▸ hlt)
      · exact Dom.refl g

/-- membership in the result of `nullAdd` -/
theorem mem_nullAdd {g : Fsg} {a c : Nat} {lp : Int} {x : Link} (h : x ∈ (nullAdd g a c lp).1.links) :
    x ∈ g.links ∨ (x.src = a ∧ x.dst = c ∧ x.wid = none ∧ x.logp = lp ∧ a ≠ c) := by
  unfold nullAdd at h; split at h
  · exact .inl h
  · rename_i hne
    cases hlk : nullLookup g a c with
    | none =>
      simp only [hlk] at h
      rcases List.mem_cons.1 h with rfl | h
      · exact .inr ⟨rfl, rfl, rfl, rfl, hne⟩
      · exact .inl h
    | some old =>
      simp only [hlk] at h
      split at h
      · rcases mem_raiseFirst h with h | ⟨l, _, hp, rfl⟩
        · exact .inl h
        · have := isNullAt_iff.1 hp
          exact .inr ⟨this.2.1, this.2.2, this.1, rfl, hne⟩
      · exact .inl h

theorem nullAdd_sim {g : Fsg} {a c : Nat} {lp : Int} (h : ∃ v, lp ≤ v ∧ Run g a [] v c) :
    Sim (nullAdd g a c lp).1 g := by
  intro x hx
  rcases mem_nullAdd hx with hx | ⟨rfl, rfl, hw, hl, _⟩
  · exact ⟨x.logp, Int.le_refl _, Run.single hx⟩
  · obtain ⟨v, hv, r⟩ := h
    exact ⟨v, hl ▸ hv, by rw [hw]; exact r⟩

theorem nullAdd_ext {g : Fsg} {a c : Nat} {lp : Int} (h : ∃ v, lp ≤ v ∧ Run g a [] v c) :
    Ext g (nullAdd g a c lp).1 :=
  ⟨nullAdd_dom g a c lp, nullAdd_sim h, (nullAdd_start g a c lp).1, (nullAdd_start g a c lp).2.1⟩

/-! ### the closure loop only extends: language (for every grammar and every saturation point) -/

/-- weight-free simulation: every link of `g'` is matched in `g` by a path with the same label -/
def LSim (g' g : Fsg) : Prop := ∀ l' ∈ g'.links, ∃ v, Run g l'.src (lab l'.wid) v l'.dst

theorem Run.lsim {g g' : Fsg} (h : LSim g' g) {p ws v q} (r : Run g' p ws v q) : ∃ v', Run g p ws v' q := by
  induction r with
  | nil => exact ⟨0, .nil⟩
  | @eps l ws v r hm hw _ ih =>
    obtain ⟨v', r'⟩ := ih
    obtain ⟨x, rx⟩ := h l hm
    rw [hw] at rx
    exact ⟨x + v', by simpa [lab] using rx.trans r'⟩
  | @sym l w ws v r hm hw _ ih =>
    obtain ⟨v', r'⟩ := ih
    obtain ⟨x, rx⟩ := h l hm
    rw [hw] at rx
    exact ⟨x + v', by simpa [lab] using rx.trans r'⟩

theorem LSim.refl (g : Fsg) : LSim g g := fun _ h => ⟨_, Run.single h⟩

theorem LSim.trans {a b c : Fsg} (h1 : LSim a b) (h2 : LSim b c) : LSim a c := by
  intro l hl
  obtain ⟨v, r⟩ := h1 l hl
  exact r.lsim h2

theorem Sim.lsim {g g' : Fsg} (h : Sim g' g) : LSim g' g := fun l hl => by
  obtain ⟨v, _, r⟩ := h l hl; exact ⟨v, r⟩

/-- `g'` extends `g` without changing the language (weights of new links are not constrained) -/
structure LExt (g g' : Fsg) : Prop where
  dom : Dom g g'
  lsim : LSim g' g
  start : g'.start = g.start
  final : g'.final = g.final

theorem LExt.refl (g : Fsg) : LExt g g := ⟨Dom.refl g, LSim.refl g, rfl, rfl⟩

theorem LExt.trans {a b c : Fsg} (h1 : LExt a b) (h2 : LExt b c) : LExt a c :=
  ⟨h1.dom.trans h2.dom, h2.lsim.trans h1.lsim, h2.start.trans h1.start, h2.final.trans h1.final⟩

theorem Ext.lext {g g' : Fsg} (h : Ext g g') : LExt g g' := ⟨h.dom, h.sim.lsim, h.start, h.final⟩

theorem LExt.accepts_iff {g g' : Fsg} (h : LExt g g') (ws : List Nat) : accepts g' ws ↔ accepts g ws := by
  unfold accepts; rw [h.start, h.final]
  constructor
  · rintro ⟨v, r⟩; exact r.lsim h.lsim
  · rintro ⟨v, r⟩; obtain ⟨v', _, r'⟩ := r.dom h.dom; exact ⟨v', r'⟩

theorem nullAdd_lext {g : Fsg} {a c : Nat} {lp : Int} (h : ∃ v, Run g a [] v c) : LExt g (nullAdd g a c lp).1 := by
  refine ⟨nullAdd_dom g a c lp, fun x hx => ?_, (nullAdd_start g a c lp).1, (nullAdd_start g a c lp).2.1⟩
  rcases mem_nullAdd hx with hx | ⟨rfl, rfl, hw, _, _⟩
  · exact ⟨_, Run.single hx⟩
  · obtain ⟨v, r⟩ := h; exact ⟨v, by rw [hw]; exact r⟩

theorem innerFold_lext {z : Int} {a : Nat} {lp1 : Int} : ∀ (tl2s : List Link) (s : PassSt),
    (∀ tl2 ∈ tl2s, ∃ v, Run s.g a [] v tl2.dst) → LExt s.g (tl2s.foldl (innerStep z a lp1) s).g
  | [], _, _ => LExt.refl _
  | t :: ts, s, h => by
    have e1 : LExt s.g (innerStep z a lp1 s t).g := nullAdd_lext (h t List.mem_cons_self)
    refine e1.trans (innerFold_lext ts _ fun tl2 hm => ?_)
    obtain ⟨v, r⟩ := h tl2 (List.mem_cons_of_mem _ hm)
    obtain ⟨v', _, r'⟩ := r.dom e1.dom
    exact ⟨v', r'⟩

theorem outerStep_lext (z : Int) (s : PassSt) (k : Key) : LExt s.g (outerStep z s k).g := by
  unfold outerStep
  cases hlk : nullLookup s.g k.1 k.2 with
  | none => exact LExt.refl _
  | some lp1 =>
    simp only
    obtain ⟨l1, m1, w1, s1, d1, p1⟩ := nullLookup_some hlk
    apply innerFold_lext
    intro tl2 hm
    have hm' := List.mem_filter.1 hm
    have hw2 : tl2.wid = none := by
      have := hm'.2; simp [Link.isNull, Option.isNone_iff_eq_none] at this; exact this.1
    have hs2 : tl2.src = k.2 := by
      have := hm'.2; simp [Link.isNull] at this; exact this.2
    have r2 : Run s.g tl2.src [] (tl2.logp + 0) tl2.dst := .eps hm'.1 hw2 .nil
    have r1 : Run s.g l1.src [] (l1.logp + (tl2.logp + 0)) tl2.dst := .eps m1 w1 (by rw [d1, ← hs2]; exact r2)
    exact ⟨_, by rw [s1] at r1; exact r1⟩

theorem outerFold_lext (z : Int) : ∀ (ks : List Key) (s : PassSt), LExt s.g (ks.foldl (outerStep z) s).g
  | [], _ => LExt.refl _
  | k :: ks, s => (outerStep_lext z s k).trans (outerFold_lext z ks _)

theorem pass_lext (z : Int) (g : Fsg) (nulls : List Key) : LExt g (pass z g nulls).g :=
  outerFold_lext z nulls { g, nulls, updated := false }

theorem closureLoop_lext (z : Int) : ∀ (fuel : Nat) (g : Fsg) (nulls : List Key), LExt g (closureLoop z fuel g nulls).1
  | 0, g, _ => LExt.refl g
  | fuel + 1, g, nulls => by
    simp only [closureLoop]
    split
    · exact (pass_lext z g nulls).trans (closureLoop_lext z fuel _ _)
    · exact pass_lext z g nulls

theorem closure_lext (g : Fsg) : LExt g (closure g) := closureLoop_lext _ _ g _

/-! ### projection to real words -/

def projLabel (F : Nat → Bool) (B : Nat → Nat) : Option Nat → Option Nat
  | none => none
  | some w => if F w then none else some (B w)

def projLink (F : Nat → Bool) (B : Nat → Nat) (l : Link) : Link := { l with wid := projLabel F B l.wid }

theorem project_links (F : Nat → Bool) (B : Nat → Nat) (g : Fsg) :
    (project F B g).links = g.links.map (projLink F B) := by
  unfold project projLink projLabel
  simp only
  apply List.map_congr_left
  intro l _
  cases l.wid <;> rfl

theorem realWords_cons (F : Nat → Bool) (B : Nat → Nat) (w : Nat) (ws : List Nat) :
    realWords F B (w :: ws) = lab (projLabel F B (some w)) ++ realWords F B ws := by
  unfold realWords projLabel
  by_cases h : F w = true <;> simp [h, lab]

theorem run_project {F : Nat → Bool} {B : Nat → Nat} {g : Fsg} {p ws v q} (r : Run g p ws v q) :
    Run (project F B g) p (realWords F B ws) v q := by
  induction r with
  | nil => exact .nil
  | @eps l ws v r hm hw _ ih =>
    have hm' : projLink F B l ∈ (project F B g).links := by
      rw [project_links]; exact List.mem_map_of_mem hm
    exact Run.eps (l := projLink F B l) hm' (by simp [projLink, hw, projLabel]) ih
  | @sym l w ws v r hm hw _ ih =>
    have hm' : projLink F B l ∈ (project F B g).links := by
      rw [project_links]; exact List.mem_map_of_mem hm
    rw [realWords_cons]
    have h1 := Run.single hm'
    have : (projLink F B l).wid = projLabel F B (some w) := by simp [projLink, hw]
    rw [this] at h1
    exact h1.trans ih

theorem run_of_project {F : Nat → Bool} {B : Nat → Nat} {g : Fsg} {p rs v q}
    (r : Run (project F B g) p rs v q) : ∃ ws, Run g p ws v q ∧ realWords F B ws = rs := by
  induction r with
  | nil => exact ⟨[], .nil, rfl⟩
  | @eps l' rs v r hm hw _ ih =>
    obtain ⟨ws, r0, e⟩ := ih
    rw [project_links] at hm
    obtain ⟨l, hl, rfl⟩ := List.mem_map.1 hm
    cases hlw : l.wid with
    | none => exact ⟨ws, Run.eps (l := l) hl hlw r0, e⟩
    | some w =>
      have hF : F w = true := by
        simp only [projLink, hlw, projLabel] at hw
        by_cases h : F w = true
        · exact h
        · simp [h] at hw
      refine ⟨w :: ws, Run.sym (l := l) hl hlw r0, ?_⟩
      rw [realWords_cons, e]; simp [projLabel, hF, lab]
  | @sym l' b rs v r hm hw _ ih =>
    obtain ⟨ws, r0, e⟩ := ih
    rw [project_links] at hm
    obtain ⟨l, hl, rfl⟩ := List.mem_map.1 hm
    cases hlw : l.wid with
    | none => simp [projLink, hlw, projLabel] at hw
    | some w =>
      simp only [projLink, hlw, projLabel] at hw
      by_cases h : F w = true
      · simp [h] at hw
      · simp [h] at hw
        refine ⟨w :: ws, Run.sym (l := l) hl hlw r0, ?_⟩
        rw [realWords_cons, e]; simp [projLabel, h, lab, hw]

theorem runReal_iff_project (F : Nat → Bool) (B : Nat → Nat) (g : Fsg) (rs : List Nat) (v : Int) :
    RunReal F B g rs v ↔ Run (project F B g) (project F B g).start rs v (project F B g).final := by
  constructor
  · rintro ⟨ws, r, rfl⟩; exact run_project r
  · intro r; exact run_of_project r

theorem acceptsReal_iff_project (F : Nat → Bool) (B : Nat → Nat) (g : Fsg) (rs : List Nat) :
    acceptsReal F B g rs ↔ accepts (project F B g) rs := by
  constructor
  · rintro ⟨ws, ⟨v, r⟩, rfl⟩; exact ⟨v, run_project r⟩
  · rintro ⟨v, r⟩
    obtain ⟨ws, r0, e⟩ := run_of_project r
    exact ⟨ws, ⟨v, r0⟩, e⟩

theorem isBestReal_iff_project (F : Nat → Bool) (B : Nat → Nat) (g : Fsg) (rs : List Nat) (v : Int) :
    IsBestReal F B g rs v ↔ IsBest (project F B g) rs v := by
  unfold IsBestReal IsBest
  rw [runReal_iff_project]
  constructor
  · rintro ⟨h1, h2⟩; exact ⟨h1, fun v' r => h2 v' ((runReal_iff_project F B g rs v').2 r)⟩
  · rintro ⟨h1, h2⟩; exact ⟨h1, fun v' r => h2 v' ((runReal_iff_project F B g rs v').1 r)⟩

theorem Dom.project {g g' : Fsg} (h : Dom g g') (F : Nat → Bool) (B : Nat → Nat) :
    Dom (project F B g) (project F B g') := by
  intro l hl
  rw [project_links] at hl ⊢
  obtain ⟨l0, h0, rfl⟩ := List.mem_map.1 hl
  obtain ⟨l1, m1, s1, d1, w1, p1⟩ := h l0 h0
  exact ⟨projLink F B l1, List.mem_map_of_mem m1, s1, d1, by simp [projLink, w1], p1⟩

theorem lab_projLabel (F : Nat → Bool) (B : Nat → Nat) (o : Option Nat) :
    realWords F B (lab o) = lab (projLabel F B o) := by
  cases o with
  | none => rfl
  | some w => rw [lab, realWords_cons]; simp [realWords]

theorem Sim.project {g g' : Fsg} (h : Sim g' g) (F : Nat → Bool) (B : Nat → Nat) :
    Sim (project F B g') (project F B g) := by
  intro l hl
  rw [project_links] at hl
  obtain ⟨l0, h0, rfl⟩ := List.mem_map.1 hl
  obtain ⟨v, hv, r⟩ := h l0 h0
  refine ⟨v, hv, ?_⟩
  have := run_project (F := F) (B := B) r
  rw [lab_projLabel] at this
  exact this

theorem Ext.project {g g' : Fsg} (h : Ext g g') (F : Nat → Bool) (B : Nat → Nat) :
    Ext (project F B g) (project F B g') :=
  ⟨h.dom.project F B, h.sim.project F B, h.start, h.final⟩

theorem LSim.project {g g' : Fsg} (h : LSim g' g) (F : Nat → Bool) (B : Nat → Nat) :
    LSim (project F B g') (project F B g) := by
  intro l hl
  rw [project_links] at hl
  obtain ⟨l0, h0, rfl⟩ := List.mem_map.1 hl
  obtain ⟨v, r⟩ := h l0 h0
  refine ⟨v, ?_⟩
  have := run_project (F := F) (B := B) r
  rw [lab_projLabel] at this
  exact this

theorem LExt.project {g g' : Fsg} (h : LExt g g') (F : Nat → Bool) (B : Nat → Nat) :
    LExt (project F B g) (project F B g') :=
  ⟨h.dom.project F B, h.lsim.project F B, h.start, h.final⟩

/-- a transformation that only adds (or raises) links, each new link being either a relabelled
copy of an old link with the same projection or a filler self-loop with log-probability `≤ 0`,
preserves the projected grammar -/
theorem ext_project {F : Nat → Bool} {B : Nat → Nat} {g g' : Fsg}
    (hs : g'.start = g.start) (hf : g'.final = g.final) (hd : Dom g g')
    (h : ∀ x ∈ g'.links, (∃ l ∈ g.links, projLink F B x = projLink F B l) ∨
      (x.src = x.dst ∧ (∃ w, x.wid = some w ∧ F w = true) ∧ x.logp ≤ 0)) :
    Ext (project F B g) (project F B g') := by
  refine ⟨hd.project F B, ?_, hs, hf⟩
  intro x' hx'
  rw [project_links] at hx'
  obtain ⟨x, hx, rfl⟩ := List.mem_map.1 hx'
  rcases h x hx with ⟨l, hl, e⟩ | ⟨hsd, ⟨w, hw, hF⟩, hle⟩
  · rw [e]
    have : projLink F B l ∈ (project F B g).links := by rw [project_links]; exact List.mem_map_of_mem hl
    exact ⟨_, Int.le_refl _, Run.single this⟩
  · refine ⟨0, hle, ?_⟩
    have : (projLink F B x).wid = none := by simp [projLink, hw, projLabel, hF]
    rw [this]
    show Run _ x.src [] 0 x.dst
    rw [hsd]; exact .nil

/-! ### `transAdd`, `addSilence`, `addAlt` -/

theorem transAdd_fields (g : Fsg) (a c : Nat) (lp : Int) (w : Nat) :
    (transAdd g a c lp w).start = g.start ∧ (transAdd g a c lp w).final = g.final ∧
    (transAdd g a c lp w).nState = g.nState ∧ (transAdd g a c lp w).vocab = g.vocab ∧
    (transAdd g a c lp w).sil = g.sil ∧ (transAdd g a c lp w).alt = g.alt ∧ (transAdd g a c lp w).name = g.name ∧
    (transAdd g a c lp w).logZero = g.logZero := by
  unfold transAdd; split
  · split <;> simp
  · simp

theorem transAdd_dom (g : Fsg) (a c : Nat) (lp : Int) (w : Nat) : Dom g (transAdd g a c lp w) := by
  unfold transAdd
  cases hf : g.links.find? (Link.isWordAt a c w) with
  | none => exact fun l hl => ⟨l, List.mem_cons_of_mem _ hl, rfl, rfl, rfl, Int.le_refl _⟩
  | some l0 =>
    simp only
    split
    · rename_i hlt; exact dom_raiseFirst hf hlt
    · exact Dom.refl g

theorem mem_transAdd {g : Fsg} {a c : Nat} {lp : Int} {w : Nat} {x : Link} (h : x ∈ (transAdd g a c lp w).links) :
    x ∈ g.links ∨ (x.src = a ∧ x.dst = c ∧ x.wid = some w ∧ x.logp = lp) := by
  unfold transAdd at h
  cases hf : g.links.find? (Link.isWordAt a c w) with
  | none =>
    simp only [hf] at h
    rcases List.mem_cons.1 h with rfl | h
    · exact .inr ⟨rfl, rfl, rfl, rfl⟩
    · exact .inl h
  | some l0 =>
    simp only [hf] at h
    split at h
    · rcases mem_raiseFirst h with h | ⟨l, _, hp, rfl⟩
      · exact .inl h
      · have := isWordAt_iff.1 hp
        exact .inr ⟨this.2.1, this.2.2, this.1, rfl⟩
    · exact .inl h

/-- what a fold of `transAdd s s lp wid` over a list of states does to the link set -/
theorem silFold_spec (lp : Int) (wid : Nat) : ∀ (ss : List Nat) (g : Fsg),
    let g' := ss.foldl (fun acc s => transAdd acc s s lp wid) g
    Dom g g' ∧ g'.start = g.start ∧ g'.final = g.final ∧
    ∀ x ∈ g'.links, x ∈ g.links ∨ (x.src = x.dst ∧ x.wid = some wid ∧ x.logp = lp)
  | [], g => ⟨Dom.refl g, rfl, rfl, fun _ h => .inl h⟩
  | s :: ss, g => by
    obtain ⟨d, hs, hf, hm⟩ := silFold_spec lp wid ss (transAdd g s s lp wid)
    have tf := transAdd_fields g s s lp wid
    refine ⟨(transAdd_dom g s s lp wid).trans d, hs.trans tf.1, hf.trans tf.2.1, fun x hx => ?_⟩
    rcases hm x hx with h | h
    · rcases mem_transAdd h with h | ⟨h1, h2, h3, h4⟩
      · exact .inl h
      · exact .inr ⟨h1.trans h2.symm, h3, h4⟩
    · exact .inr h

theorem addSilence_spec (g : Fsg) (word : String) (state : Option Nat) (lp : Int) :
    let g' := (addSilence g word state lp).1
    Dom g g' ∧ g'.start = g.start ∧ g'.final = g.final ∧
    ∀ x ∈ g'.links, x ∈ g.links ∨ (x.src = x.dst ∧ x.wid = some (wordAdd g word).2 ∧ x.logp = lp) := by
  have hw : (wordAdd g word).1.links = g.links ∧ (wordAdd g word).1.start = g.start ∧
      (wordAdd g word).1.final = g.final := by
    unfold wordAdd; split <;> simp
  unfold addSilence
  cases state with
  | none =>
    simp only
    have := silFold_spec lp (wordAdd g word).2 (List.range g.nState)
      { (wordAdd g word).1 with sil := setBit (wordAdd g word).1.sil (wordAdd g word).2 }
    simp only at this
    obtain ⟨d, hs, hf, hm⟩ := this
    refine ⟨?_, hs.trans hw.2.1, hf.trans hw.2.2, fun x hx => ?_⟩
    · intro l hl
      exact d l (by simpa [hw.1] using hl)
    · rcases hm x hx with h | h
      · exact .inl (by simpa [hw.1] using h)
      · exact .inr h
  | some s =>
    simp only
    have := silFold_spec lp (wordAdd g word).2 [s]
      { (wordAdd g word).1 with sil := setBit (wordAdd g word).1.sil (wordAdd g word).2 }
    simp only [List.foldl] at this
    obtain ⟨d, hs, hf, hm⟩ := this
    refine ⟨?_, hs.trans hw.2.1, hf.trans hw.2.2, fun x hx => ?_⟩
    · intro l hl
      exact d l (by simpa [hw.1] using hl)
    · rcases hm x hx with h | h
      · exact .inl (by simpa [hw.1] using h)
      · exact .inr h

theorem addSilence_ext_project {F : Nat → Bool} {B : Nat → Nat} (g : Fsg) (word : String)
    (state : Option Nat) (lp : Int) (hF : F (wordAdd g word).2 = true) (hlp : lp ≤ 0) :
    Ext (project F B g) (project F B (addSilence g word state lp).1) := by
  obtain ⟨d, hs, hf, hm⟩ := addSilence_spec g word state lp
  refine ext_project hs hf d fun x hx => ?_
  rcases hm x hx with h | ⟨h1, h2, h3⟩
  · exact .inl ⟨x, h, rfl⟩
  · exact .inr ⟨h1, ⟨_, h2, hF⟩, h3 ▸ hlp⟩

theorem addAlt_spec (g : Fsg) (base altw : String) :
    let g' := (addAlt g base altw).1
    g'.start = g.start ∧ g'.final = g.final ∧ (∀ x ∈ g.links, x ∈ g'.links) ∧
    ∀ bw, wordId g base = some bw →
      ∀ x ∈ g'.links, x ∈ g.links ∨ ∃ l ∈ g.links, l.wid = some bw ∧ x = { l with wid := some (wordAdd g altw).2 } := by
  have hw : (wordAdd g altw).1.links = g.links ∧ (wordAdd g altw).1.start = g.start ∧
      (wordAdd g altw).1.final = g.final := by
    unfold wordAdd; split <;> simp
  unfold addAlt
  cases hb : wordId g base with
  | none => exact ⟨rfl, rfl, fun _ h => h, fun bw h => by cases h⟩
  | some bw =>
    simp only [hw.1]
    refine ⟨hw.2.1, hw.2.2, fun x hx => List.mem_append_right _ hx, fun bw' hbw x hx => ?_⟩
    cases hbw
    rcases List.mem_append.1 hx with h | h
    · rw [List.mem_reverse] at h
      obtain ⟨l, hl, rfl⟩ := List.mem_map.1 h
      have := List.mem_filter.1 hl
      exact .inr ⟨l, this.1, by simpa using this.2, rfl⟩
    · exact .inl h

theorem addAlt_ext_project {F : Nat → Bool} {B : Nat → Nat} (g : Fsg) (base altw : String)
    (h : ∀ bw, wordId g base = some bw → F (wordAdd g altw).2 = F bw ∧ B (wordAdd g altw).2 = B bw) :
    Ext (project F B g) (project F B (addAlt g base altw).1) := by
  obtain ⟨hs, hf, hsub, hm⟩ := addAlt_spec g base altw
  refine ext_project hs hf (fun l hl => ⟨l, hsub l hl, rfl, rfl, rfl, Int.le_refl _⟩) fun x hx => ?_
  cases hb : wordId g base with
  | none =>
    have : (addAlt g base altw).1 = g := by unfold addAlt; simp [hb]
    exact .inl ⟨x, this ▸ hx, rfl⟩
  | some bw =>
    obtain ⟨hF, hB⟩ := h bw hb
    rcases hm bw hb x hx with h1 | ⟨l, hl, hlw, rfl⟩
    · exact .inl ⟨x, h1, rfl⟩
    · refine .inl ⟨l, hl, ?_⟩
      simp [projLink, hlw, projLabel, hF, hB]

/-! ### the ε-NFA of a grammar -/

theorem reach_of_run {g : Fsg} {p ws v q} (r : Run g p ws v q) : SSVerif.Nfa.Reach g.toNfa p ws q := by
  induction r with
  | nil => exact .refl
  | @eps l ws v r hm hw _ ih =>
    refine .eps (q' := l.dst) ?_ ih
    exact List.mem_map.2 ⟨l, hm, by rw [hw]⟩
  | @sym l w ws v r hm hw _ ih =>
    refine .sym (q' := l.dst) ?_ ih
    exact List.mem_map.2 ⟨l, hm, by rw [hw]⟩

theorem run_of_reach {g : Fsg} {p ws q} (r : SSVerif.Nfa.Reach g.toNfa p ws q) : ∃ v, Run g p ws v q := by
  induction r with
  | refl => exact ⟨0, .nil⟩
  | eps hm _ ih =>
    obtain ⟨v, r⟩ := ih
    obtain ⟨l, hl, e⟩ := List.mem_map.1 hm
    simp only [Prod.mk.injEq] at e
    obtain ⟨rfl, hw, rfl⟩ := e
    exact ⟨_, .eps hl hw r⟩
  | sym hm _ ih =>
    obtain ⟨v, r⟩ := ih
    obtain ⟨l, hl, e⟩ := List.mem_map.1 hm
    simp only [Prod.mk.injEq] at e
    obtain ⟨rfl, hw, rfl⟩ := e
    exact ⟨_, .sym hl hw r⟩

theorem accepts_iff_nfa (g : Fsg) (ws : List Nat) : accepts g ws ↔ SSVerif.Nfa.Accepts g.toNfa ws :=
  ⟨fun ⟨_, r⟩ => reach_of_run r, fun r => run_of_reach r⟩

end SSVerif.Fsg
