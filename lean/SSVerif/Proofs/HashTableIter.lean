import SSVerif.Model.HashTableIter
import SSVerif.Proofs.HashTable
/-!
# the cursor walk of `hash_table_iter(_next)` and the loop of `hash_table_tolist` enumerate `buckets.flatten`

Only hypothesis anywhere: `h.buckets.length = h.size` (field `len` of the table invariant `Inv`, proved for every
reachable table).
-/
namespace SSVerif.HashTable

theorem bucket_eq_getElem {h : HT} {i : Nat} (hi : i < h.buckets.length) : h.bucket i = h.buckets[i] := by
  unfold HT.bucket
  simp [List.getD_eq_getElem?_getD, hi]

theorem drop_flatten_step {h : HT} {i : Nat} (hi : i < h.buckets.length) :
    (h.buckets.drop i).flatten = h.bucket i ++ (h.buckets.drop (i + 1)).flatten := by
  rw [List.drop_eq_getElem_cons hi, List.flatten_cons, bucket_eq_getElem hi]

/-- postcondition of the bucket-skipping loop started with its variant `size - idx` as fuel: it stops at the
first non-empty bucket at or after `idx`, or at `size`; everything it skipped was empty -/
theorem scan_spec {h : HT} (hl : h.buckets.length = h.size) :
    ∀ fuel idx, fuel = h.size - idx → idx ≤ h.size →
      idx ≤ scan h fuel idx ∧ scan h fuel idx ≤ h.size ∧
      (∀ i, idx ≤ i → i < scan h fuel idx → h.bucket i = []) ∧
      (scan h fuel idx < h.size → h.bucket (scan h fuel idx) ≠ []) ∧
      (h.buckets.drop idx).flatten = (h.buckets.drop (scan h fuel idx)).flatten := by
  intro fuel
  induction fuel with
  | zero =>
    intro idx hf hi
    have : idx = h.size := by omega
    subst this
    have hs : scan h 0 h.size = h.size := rfl
    rw [hs]
    exact ⟨Nat.le_refl _, Nat.le_refl _, fun i h1 h2 => by omega, fun h1 => by omega, rfl⟩
  | succ fuel ih =>
    intro idx hf hi
    have hlt : idx < h.size := by omega
    by_cases hb : h.bucket idx = []
    · have hs : scan h (fuel + 1) idx = scan h fuel (idx + 1) := by
        simp only [scan]; rw [if_pos ⟨hlt, hb⟩]
      rw [hs]
      obtain ⟨a1, a2, a3, a4, a5⟩ := ih (idx + 1) (by omega) (by omega)
      refine ⟨by omega, a2, ?_, a4, ?_⟩
      · intro i h1 h2
        by_cases hi' : i = idx
        · subst hi'; exact hb
        · exact a3 i (by omega) h2
      · rw [drop_flatten_step (by omega), hb, List.nil_append, a5]
    · have hs : scan h (fuel + 1) idx = idx := by
        simp only [scan]; rw [if_neg (fun hc => hb hc.2)]
      rw [hs]
      exact ⟨Nat.le_refl _, hi, fun i h1 h2 => by omega, fun _ => hb, rfl⟩

/-- what is still to be visited from an iterator value (`none` = NULL) -/
def remOf (h : HT) : Option IterState → List Entry
  | none => []
  | some s =>
    match s.ent with
    | none => []
    | some (b, j) => (h.bucket b).drop j ++ (h.buckets.drop s.idx).flatten

/-- invariant of the iterator values the code hands out: `ent` points at an existing entry of bucket `idx - 1` -/
def Good (h : HT) : Option IterState → Prop
  | none => True
  | some s => ∃ b j, s.ent = some (b, j) ∧ s.idx = b + 1 ∧ b < h.size ∧ j < (h.bucket b).length

/-- the "scan forward" branch of `hash_table_iter_next` -/
theorem scan_branch {h : HT} (hl : h.buckets.length = h.size) (idx0 : Nat) (hi : idx0 ≤ h.size) :
    let r := scan h (h.size - idx0) idx0
    let os : Option IterState := if r = h.size then none else some { ent := some (r, 0), idx := r + 1 }
    Good h os ∧ remOf h os = (h.buckets.drop idx0).flatten := by
  intro r os
  obtain ⟨a1, a2, _, a4, a5⟩ := scan_spec hl (h.size - idx0) idx0 rfl hi
  by_cases hr : r = h.size
  · have : os = none := if_pos hr
    rw [this]
    refine ⟨trivial, ?_⟩
    show [] = _
    rw [a5]
    show [] = (h.buckets.drop r).flatten
    rw [hr, ← hl, List.drop_length]; rfl
  · have : os = some { ent := some (r, 0), idx := r + 1 } := if_neg hr
    rw [this]
    have hlt : r < h.size := Nat.lt_of_le_of_ne a2 hr
    have hne : h.bucket r ≠ [] := a4 hlt
    refine ⟨⟨r, 0, rfl, rfl, hlt, List.length_pos_iff.mpr hne⟩, ?_⟩
    show (h.bucket r).drop 0 ++ (h.buckets.drop (r + 1)).flatten = _
    rw [List.drop_zero, ← drop_flatten_step (by omega), a5]

theorem start_good {h : HT} (hl : h.buckets.length = h.size) :
    Good h (iterStart h) ∧ remOf h (iterStart h) = h.buckets.flatten := by
  have := scan_branch hl 0 (Nat.zero_le _)
  simpa [iterStart, iterNext, entNext] using this

theorem next_good {h : HT} (hl : h.buckets.length = h.size) {s : IterState} (hg : Good h (some s)) :
    Good h (iterNext h s) ∧ ∃ e, iterCur h s = some e ∧ remOf h (some s) = e :: remOf h (iterNext h s) := by
  obtain ⟨b, j, he, hidx, hb, hj⟩ := hg
  have hcur : iterCur h s = some (h.bucket b)[j] := by
    simp only [iterCur, he]; exact List.getElem?_eq_getElem hj
  have hrem : remOf h (some s) = (h.bucket b)[j] :: ((h.bucket b).drop (j + 1) ++ (h.buckets.drop s.idx).flatten) := by
    simp only [remOf, he]
    rw [List.drop_eq_getElem_cons hj, List.cons_append]
  by_cases hn : j + 1 < (h.bucket b).length
  · have hnx : iterNext h s = some { s with ent := some (b, j + 1) } := by
      simp only [iterNext, he, entNext, if_pos hn]
    rw [hnx]
    refine ⟨⟨b, j + 1, rfl, hidx, hb, hn⟩, _, hcur, ?_⟩
    rw [hrem]; rfl
  · have hnx : iterNext h s =
        (if scan h (h.size - s.idx) s.idx = h.size then none
         else some { ent := some (scan h (h.size - s.idx) s.idx, 0), idx := scan h (h.size - s.idx) s.idx + 1 }) := by
      simp only [iterNext, he, entNext, if_neg hn]
    obtain ⟨g1, g2⟩ := scan_branch hl s.idx (by omega)
    rw [hnx]
    refine ⟨g1, _, hcur, ?_⟩
    rw [hrem, g2, List.drop_eq_nil_of_le (by omega), List.nil_append]

/-- the caller's loop from a good iterator value: it ends with NULL after exactly `|remOf|` visits -/
theorem iterLoop_good {h : HT} (hl : h.buckets.length = h.size) :
    ∀ fuel os, Good h os →
      iterLoop h fuel os = if (remOf h os).length ≤ fuel then some (remOf h os) else none := by
  intro fuel
  induction fuel with
  | zero =>
    intro os hg
    cases os with
    | none => simp [iterLoop, remOf]
    | some s =>
      obtain ⟨_, e, _, hr⟩ := next_good hl hg
      rw [hr]; simp [iterLoop]
  | succ fuel ih =>
    intro os hg
    cases os with
    | none => simp [iterLoop, remOf]
    | some s =>
      obtain ⟨hg', e, hc, hr⟩ := next_good hl hg
      rw [hr]
      simp only [iterLoop, hc, ih _ hg', List.length_cons, Nat.add_le_add_iff_right]
      by_cases hle : (remOf h (iterNext h s)).length ≤ fuel
      · rw [if_pos hle, if_pos hle]; rfl
      · rw [if_neg hle, if_neg hle]; rfl

/-! ### `hash_table_tolist` -/

theorem tolist_chain (chain : List Entry) (a : List Entry) (n : Nat) :
    chain.foldl (fun (g : List Entry × Nat) e => (e :: g.1, g.2 + 1)) (a, n) = (chain.reverse ++ a, n + chain.length) := by
  induction chain generalizing a n with
  | nil => simp
  | cons x xs ih =>
    simp only [List.foldl_cons, ih, List.reverse_cons, List.append_assoc, List.singleton_append, List.length_cons]
    congr 1; omega

theorem tolistBucket_eq (g : List Entry × Nat) (b : List Entry) :
    tolistBucket g b = (b.reverse ++ g.1, g.2 + b.length) := by
  cases b with
  | nil => simp [tolistBucket]
  | cons hd chain =>
    simp only [tolistBucket, tolist_chain, List.reverse_cons, List.append_assoc, List.singleton_append,
      List.length_cons]
    congr 1; omega

theorem tolist_prefix {h : HT} (hl : h.buckets.length = h.size) :
    ∀ n, n ≤ h.size →
      (List.range n).foldl (fun g i => tolistBucket g (h.bucket i)) ([], 0)
        = ((h.buckets.take n).flatten.reverse, (h.buckets.take n).flatten.length) := by
  intro n
  induction n with
  | zero => intro _; simp
  | succ n ih =>
    intro hn
    have hlt : n < h.buckets.length := by omega
    rw [List.range_succ, List.foldl_append, ih (by omega)]
    simp only [List.foldl_cons, List.foldl_nil, tolistBucket_eq]
    rw [List.take_succ_eq_append_getElem hlt, List.flatten_append, List.reverse_append, List.length_append,
      bucket_eq_getElem hlt]
    simp

end SSVerif.HashTable
