import SSVerif.Proofs.LexFlatPaths
import SSVerif.Model.LexFlatHyps
/-!
# The instances of the flat network (`FlatNet.instsOfArc`) as pnodes of the lextree the code builds

`Proofs/LexFlatPaths.lean` shows, in terms of the lextree's own lookups, that every (arc, left context, right context)
has its root-to-leaf path.  Here the lookups are instantiated by those of the flat model `M` (`LookAgree`: the `dict2pid`
tables return what the direct model-definition lookups of `FlatNet` return — `C16_d2p_tables_exact`), and the statement
is about the HMM instances `instsOfArc M i a w` returns.
-/
namespace SSVerif.LexFlat
open SSVerif.Search SSVerif.Hist
open SSVerif.FlatNet (Model Arc Word Inst instsOfArc wordArcs lcSet rcSet shiftS)
open SSVerif.Generated.Search (wposSingle wposBegin wposInternal wposEnd senscrShift)

/-- the lextree's lookups and penalties are those of the flat model, for the words on the arcs of `M` -/
structure LookAgree (M : Model) (li : LexIn) : Prop where
  wip : li.wip = M.wip
  pip : li.pip = M.pip
  shift : li.shift = senscrShift
  words : ∀ a ∈ M.arcs, ∀ wid, a.wid = some wid → ∀ wd, M.word wid = some wd → WordLook M li wid wd

theorem ctxList_lt {li : LexIn} {m c : Nat} (h : c ∈ ctxList li m) : c < li.nCi := by
  unfold ctxList at h
  exact List.mem_range.1 (List.mem_filter.1 h).1

section WordLookLemmas
variable {M : Model} {li : LexIn} {wid : Nat} {wd : Word}

theorem WordLook.ciTmat' (hw : WordLook M li wid wd) {k t : Nat} (hk : k < wd.pron.length) (h : M.ciTmat (wd.pron.getD k 0) = some t) :
    li.tmat (wd.pron.getD k 0) = t := hw.ciTmat k hk t h

theorem WordLook.ciTmat'' (hw : WordLook M li wid wd) {l : List Nat} (hp : wd.pron = l) {k t : Nat} (hk : k < l.length)
    (h : M.ciTmat (l.getD k 0) = some t) : li.tmat (l.getD k 0) = t := by
  subst hp; exact hw.ciTmat k hk t h

theorem WordLook.ciSsid' (hw : WordLook M li wid wd) {p ss : Nat} (hp : wd.pron = [p]) (h : M.ciSsid p = some ss) : li.ciSsid p = ss := by
  have := hw.ciSsid (by rw [hp]; rfl)
  rw [hp] at this
  exact this ss h

theorem WordLook.single' (hw : WordLook M li wid wd) {p l ss : Nat} (hp : wd.pron = [p]) (hl : l < li.nCi)
    (h : M.ssid p l M.sil wposSingle = some ss) : li.lrdiph p l = ss := by
  have := hw.single (by rw [hp]; rfl) l hl
  rw [hp] at this
  exact this ss h

theorem WordLook.begin' (hw : WordLook M li wid wd) {p0 p1 l ss : Nat} {rest : List Nat} (hp : wd.pron = p0 :: p1 :: rest) (hl : l < li.nCi)
    (h : M.ssid p0 l p1 wposBegin = some ss) : li.ldiph p0 p1 l = ss := by
  have := hw.begin_ (by rw [hp]; simp) l hl
  rw [hp] at this
  exact this ss h

theorem WordLook.internal' (hw : WordLook M li wid wd) {k ss : Nat} (hk : k < wd.pron.length - 2)
    (h : M.ssid (wd.pron.getD (k + 1) 0) (wd.pron.getD k 0) (wd.pron.getD (k + 2) 0) wposInternal = some ss) :
    li.internal (li.word wid).dictWid (k + 1) = ss := hw.internal k hk ss h

theorem WordLook.final' (hw : WordLook M li wid wd) {p0 p1 r ss : Nat} {rest : List Nat} (hp : wd.pron = p0 :: p1 :: rest) (hr : r < li.nCi)
    (h : M.ssid ((p0 :: p1 :: rest).getD ((p0 :: p1 :: rest).length - 1) 0) ((p0 :: p1 :: rest).getD ((p0 :: p1 :: rest).length - 2) 0) r wposEnd = some ss) :
    li.rcSsid ((p0 :: p1 :: rest).getD ((p0 :: p1 :: rest).length - 1) 0) ((p0 :: p1 :: rest).getD ((p0 :: p1 :: rest).length - 2) 0)
      (li.rcMap ((p0 :: p1 :: rest).getD ((p0 :: p1 :: rest).length - 1) 0) ((p0 :: p1 :: rest).getD ((p0 :: p1 :: rest).length - 2) 0) r) = ss := by
  have := hw.final (by rw [hp]; simp) r hr
  rw [hp] at this
  exact this ss h

end WordLookLemmas

/-- pnode `n` is the HMM instance `h`: same FSG state, senone-sequence id, transition matrix, entry penalty, leaf flag and
arc, phone presented to the neighbours, and the instance's context phones are in the pnode's context set -/
def NodeOf (n : PNode) (h : Inst) : Prop :=
  n.owner = h.src ∧ n.leaf = h.isLeaf ∧ n.ssid = h.ssid ∧ n.tmatid = h.tmat ∧ n.logs2prob = h.entry ∧
  (h.isLeaf = true → n.link = h.arc) ∧ ((h.isRoot = true ∨ h.isLeaf = true) → n.ciExt = h.ciExt) ∧
  (∀ c, h.lc = some c → n.ctxt.testBit c = true) ∧ (∀ c, h.rc = some c → n.ctxt.testBit c = true)

theorem mem_mapM_option {α β : Type} {f : α → Option β} : ∀ {l : List α} {out : List β}, l.mapM f = some out →
    ∀ y ∈ out, ∃ x ∈ l, f x = some y := by
  intro l
  induction l with
  | nil => intro out h y hy; simp at h; subst h; cases hy
  | cons a rest ih =>
    intro out h y hy
    simp only [List.mapM_cons, Option.bind_eq_bind, Option.bind_eq_some_iff] at h
    obtain ⟨b, hb, bs, hbs, hout⟩ := h
    simp at hout
    subst hout
    rcases List.mem_cons.1 hy with h1 | h1
    · exact ⟨a, List.mem_cons_self .., by rw [h1]; exact hb⟩
    · obtain ⟨x, hx, hfx⟩ := ih hbs y h1
      exact ⟨x, List.mem_cons_of_mem _ hx, hfx⟩

/-- what a word arc of the flat model is on the lextree's side -/
structure ArcView (M : Model) (li : LexIn) (i : Nat) (a : Arc) (w : Word) : Prop where
  mem : i ∈ stateArcs (fsgOf M) a.src
  src : a.src < li.nState
  dst : ((fsgOf M).link i).dst = a.dst
  dstLt : a.dst < li.nState
  logp : ((fsgOf M).link i).logp = a.logp
  pron : (li.word ((fsgOf M).link i).wid.toNat).pron = w.pron
  filler : (li.word ((fsgOf M).link i).wid.toNat).dictFiller = w.filler
  wid : ∃ wid, ((fsgOf M).link i).wid.toNat = wid ∧ M.word wid = some w ∧ WordLook M li wid w
  ne : w.pron ≠ []

theorem arcView {M : Model} {li : LexIn} (h : Agree M li) (hl : LookAgree M li) {i : Nat} {a : Arc} {w : Word}
    (hx : (i, a, w) ∈ wordArcs M) : ArcView M li i a w := by
  obtain ⟨ha, wid, hwid, hwd⟩ := (mem_wordArcs M _).1 hx
  simp only at ha hwid hwd
  have hm : a ∈ M.arcs := List.mem_iff_getElem?.2 ⟨i, ha⟩
  obtain ⟨wd, h1, h2, _, h4, _⟩ := h.word a hm wid hwid
  have hwdw : wd = w := by rw [hwd] at h1; exact (Option.some.inj h1).symm
  subst hwdw
  have hlink := fsgOf_link M ha
  have hi : i < M.arcs.length := by
    rcases Nat.lt_or_ge i M.arcs.length with h5 | h5
    · exact h5
    · rw [List.getElem?_eq_none h5] at ha; cases ha
  have hwt : ((fsgOf M).link i).wid.toNat = wid := by rw [hlink]; exact widInt_some hwid
  refine ⟨?_, (h.state a hm).1, by rw [hlink], (h.state a hm).2, by rw [hlink], by rw [hwt]; exact h2,
    by rw [hwt]; exact (hl.words a hm wid hwid wd hwd).filler, ⟨wid, hwt, hwd, hl.words a hm wid hwid wd hwd⟩, h4⟩
  unfold stateArcs arcsOf
  simp only [List.mem_filter, List.mem_range, decide_eq_true_eq]
  refine ⟨⟨by rw [fsgOf_size]; exact hi, by rw [hlink]⟩, ?_⟩
  rw [hlink]
  show 0 ≤ widInt a
  unfold widInt; rw [hwid]; simp

theorem agree_pron {M : Model} {li : LexIn} (h : Agree M li) :
    ∀ s, s < li.nState → ∀ lid ∈ stateArcs (fsgOf M) s, 1 ≤ (li.word ((fsgOf M).link lid).wid.toNat).pron.length := by
  intro s _ lid hlid
  obtain ⟨h1, _, h3⟩ := mem_stateArcs hlid
  obtain ⟨a, ha, hm⟩ := arc_of_lt M h1
  rw [fsgOf_link M ha] at h3 ⊢
  simp only at h3 ⊢
  cases hw : a.wid with
  | none => have := (widInt_neg a).2 hw; omega
  | some wid =>
    obtain ⟨wd, _, h2, _, h4, _⟩ := h.word a hm wid hw
    rw [widInt_some hw, h2]
    cases hp : wd.pron with
    | nil => exact absurd hp h4
    | cons _ _ => simp

theorem shift_eq {M : Model} {li : LexIn} (hl : LookAgree M li) (x : Int) : x >>> li.shift = shiftS x := by
  unfold shiftS; rw [hl.shift]

/-- **fillers**: the one instance of a single-phone filler arc is a root-and-leaf pnode of `root[src]` that accepts every context -/
theorem bridge_filler {M : Model} {li : LexIn} (h : Agree M li) (hl : LookAgree M li) {i : Nat} {a : Arc} {w : Word}
    (hx : (i, a, w) ∈ wordArcs M) {p : Nat} (hp : w.pron = [p]) (hf : w.filler = true) {insts : List Inst}
    (hi : instsOfArc M i a w = some insts) :
    ∀ x ∈ insts, ∃ r ∈ (buildLexTree li (fsgOf M)).roots a.src,
      NodeOf ((buildLexTree li (fsgOf M)).node r) x ∧ AllCtx ((buildLexTree li (fsgOf M)).node r) := by
  have v := arcView h hl hx
  obtain ⟨wid, hwid, hwd, hw⟩ := v.wid
  unfold instsOfArc at hi
  simp only [hp, hf, if_true, Option.bind_eq_bind, Option.bind_eq_some_iff, Option.pure_def, Option.some.injEq] at hi
  obtain ⟨ss, hss, tmv, htm, hins⟩ := hi
  have hb := build_single li (fsgOf M) h.silCi v.src v.mem (by rw [v.pron, hp]; rfl)
  rw [v.filler, hf] at hb
  simp only [if_true] at hb
  obtain ⟨r, hr, hh, hall⟩ := hb
  intro x hxm
  rw [← hins] at hxm
  simp only [List.mem_singleton] at hxm
  subst hxm
  obtain ⟨f1, f2, f3, f4, f5, f6, f7⟩ := hh.fields
  refine ⟨r, hr, ⟨f1, f2, ?_, ?_, ?_, fun _ => f3, fun _ => (by rw [f7]; exact h.sil), fun c hc => (by cases hc), fun c hc => (by cases hc)⟩, hall⟩
  · rw [f4, v.pron, hp]; exact hw.ciSsid' hp hss
  · rw [f5, v.pron, hp]; exact hw.ciTmat'' hp (k := 0) (by simp) htm
  · rw [f6, v.logp, shift_eq hl, hl.wip, hl.pip]

/-- **single-phone words**: every instance (one per left context of the source state) is a root-and-leaf pnode of `root[src]`
with that context in its context set -/
theorem bridge_single {M : Model} {li : LexIn} (h : Agree M li) (hl : LookAgree M li) {i : Nat} {a : Arc} {w : Word}
    (hx : (i, a, w) ∈ wordArcs M) {p : Nat} (hp : w.pron = [p]) (hf : w.filler = false) {insts : List Inst}
    (hi : instsOfArc M i a w = some insts) :
    ∀ x ∈ insts, ∃ r ∈ (buildLexTree li (fsgOf M)).roots a.src, NodeOf ((buildLexTree li (fsgOf M)).node r) x := by
  have v := arcView h hl hx
  obtain ⟨wid, hwid, hwd, hw⟩ := v.wid
  unfold instsOfArc at hi
  simp only [hp, hf, Bool.false_eq_true, if_false, Option.bind_eq_bind, Option.bind_eq_some_iff] at hi
  obtain ⟨tmv, htm, hmap⟩ := hi
  have hb := build_single li (fsgOf M) h.silCi v.src v.mem (by rw [v.pron, hp]; rfl)
  rw [v.filler, hf] at hb
  simp only [Bool.false_eq_true, if_false] at hb
  intro x hxm
  obtain ⟨l, hlm, hfx⟩ := mem_mapM_option hmap x hxm
  simp only [Option.bind_eq_some_iff, Option.pure_def, Option.some.injEq] at hfx
  obtain ⟨ss, hss, hxe⟩ := hfx
  subst hxe
  obtain ⟨r, hr, hh⟩ := hb l ((lc_iff h v.src l).2 hlm)
  obtain ⟨f1, f2, f3, f4, f5, f6, f7⟩ := hh.fields
  refine ⟨r, hr, f1, f2, ?_, ?_, ?_, fun _ => f3, fun _ => (by rw [f7, v.pron, hp]; rfl), fun c hc => ?_, fun c hc => (by cases hc)⟩
  · rw [f4, v.pron, hp]; exact hw.single' hp (ctxList_lt ((lc_iff h v.src l).2 hlm)) hss
  · rw [f5, v.pron, hp]; exact hw.ciTmat'' hp (k := 0) (by simp) htm
  · rw [f6, v.logp, shift_eq hl, hl.wip, hl.pip]
  · simp only [Option.some.injEq] at hc
    subst hc
    exact hh.2 l rfl

/-- **multi-phone words**: for every word-initial instance `R` (one per left context of the source state) and every word-final
instance `L` (one per right context of the target state) of the arc there is a root-to-leaf path of the lextree: a root of
`root[src]` that is `R`, pnodes `qf 1 … qf (n−2)` that are the word-internal instances (`qf x.pos` is the instance `x`), a leaf
that is `L`, each a child of the one before -/
theorem bridge_multi {M : Model} {li : LexIn} {tm : Nat → Nat} (h : Agree M li) (hl : LookAgree M li) (htm : SsidTmat li (fsgOf M) tm)
    {i : Nat} {a : Arc} {w : Word} (hx : (i, a, w) ∈ wordArcs M) {p0 p1 : Nat} {rest : List Nat} (hp : w.pron = p0 :: p1 :: rest)
    {insts : List Inst} (hi : instsOfArc M i a w = some insts) :
    ∀ R ∈ insts, R.isRoot = true → ∀ L ∈ insts, L.isLeaf = true →
      ∃ r ∈ (buildLexTree li (fsgOf M)).roots a.src, ∃ (qf : Nat → Nat) (l : Nat),
        NodeOf ((buildLexTree li (fsgOf M)).node r) R ∧ NodeOf ((buildLexTree li (fsgOf M)).node l) L ∧
        (∀ x ∈ insts, x.isRoot = false → x.isLeaf = false →
          1 ≤ x.pos ∧ x.pos ≤ w.pron.length - 2 ∧ NodeOf ((buildLexTree li (fsgOf M)).node (qf x.pos)) x) ∧
        (w.pron.length - 2 = 0 → l ∈ (buildLexTree li (fsgOf M)).children r) ∧
        (1 ≤ w.pron.length - 2 →
          qf 1 ∈ (buildLexTree li (fsgOf M)).children r ∧
          (∀ j, 1 ≤ j → j < w.pron.length - 2 → qf (j + 1) ∈ (buildLexTree li (fsgOf M)).children (qf j)) ∧
          l ∈ (buildLexTree li (fsgOf M)).children (qf (w.pron.length - 2))) := by
  have v := arcView h hl hx
  obtain ⟨wid, hwid, hwd, hw⟩ := v.wid
  unfold instsOfArc at hi
  simp only [hp, Option.bind_eq_bind, Option.bind_eq_some_iff, Option.pure_def, Option.some.injEq] at hi
  obtain ⟨tm0, htm0, roots, hroots, inner, hinner, tml, html, leaves, hleaves, hins⟩ := hi
  have hlen : (li.word ((fsgOf M).link i).wid.toNat).pron.length = w.pron.length := by rw [v.pron]
  have hwlen : w.pron.length = (p0 :: p1 :: rest).length := by rw [hp]
  intro R hR hRroot L hL hLleaf
  rw [← hins] at hR hL
  -- `R` is a word-initial instance, `L` a word-final one
  have hRr : R ∈ roots := by
    rcases List.mem_append.1 hR with h1 | h1
    · rcases List.mem_append.1 h1 with h2 | h2
      · exact h2
      · obtain ⟨k, _, hk⟩ := mem_mapM_option hinner R h2
        simp only [Option.bind_eq_some_iff, Option.some.injEq] at hk
        obtain ⟨_, _, _, _, hk⟩ := hk
        rw [← hk] at hRroot; cases hRroot
    · obtain ⟨k, _, hk⟩ := mem_mapM_option hleaves R h1
      simp only [Option.bind_eq_some_iff, Option.some.injEq] at hk
      obtain ⟨_, _, hk⟩ := hk
      rw [← hk] at hRroot; cases hRroot
  have hLl : L ∈ leaves := by
    rcases List.mem_append.1 hL with h1 | h1
    · rcases List.mem_append.1 h1 with h2 | h2
      · obtain ⟨k, _, hk⟩ := mem_mapM_option hroots L h2
        simp only [Option.bind_eq_some_iff, Option.some.injEq] at hk
        obtain ⟨_, _, hk⟩ := hk
        rw [← hk] at hLleaf; cases hLleaf
      · obtain ⟨k, _, hk⟩ := mem_mapM_option hinner L h2
        simp only [Option.bind_eq_some_iff, Option.some.injEq] at hk
        obtain ⟨_, _, _, _, hk⟩ := hk
        rw [← hk] at hLleaf; cases hLleaf
    · exact h1
  obtain ⟨lc, hlcm, hRe⟩ := mem_mapM_option hroots R hRr
  simp only [Option.bind_eq_some_iff, Option.some.injEq] at hRe
  obtain ⟨ssR, hssR, hRe⟩ := hRe
  obtain ⟨rc, hrcm, hLe⟩ := mem_mapM_option hleaves L hLl
  simp only [Option.bind_eq_some_iff, Option.some.injEq] at hLe
  obtain ⟨ssL, hssL, hLe⟩ := hLe
  have h2 : 2 ≤ (li.word ((fsgOf M).link i).wid.toNat).pron.length := by rw [hlen, hwlen]; simp
  obtain ⟨r, hr, qf, l, hrh, hint, hlh, hk0, hk1⟩ := build_multi li (fsgOf M) tm h.silCi htm (agree_pron h) v.src v.mem h2
    ((lc_iff h v.src lc).2 hlcm) (rc := rc) (by rw [v.dst]; exact (rc_iff h v.dstLt rc).2 hrcm)
  rw [hlen] at hint hlh hk0 hk1
  refine ⟨r, hr, qf, l, ?_, ?_, ?_, hk0, hk1⟩
  · obtain ⟨f1, f2, f3, f4, f5, f6, f7⟩ := hrh.fields
    rw [← hRe]
    refine ⟨f1, f2, ?_, ?_, ?_, fun hc => (by cases hc), fun _ => (by rw [f7, v.pron, hp]; rfl), fun c hc => ?_, fun c hc => (by cases hc)⟩
    · rw [f4, v.pron, hp]; exact hw.begin' hp (ctxList_lt ((lc_iff h v.src lc).2 hlcm)) hssR
    · rw [f5, v.pron, hp]; exact hw.ciTmat'' hp (k := 0) (by simp) htm0
    · rw [f6, hl.wip, hl.pip]
    · simp only [Option.some.injEq] at hc
      subst hc
      exact hrh.2 lc rfl
  · obtain ⟨f1, f2, f3, f4, f5, f6, f7⟩ := hlh.fields
    have e1 : w.pron.length - 2 + 1 = (p0 :: p1 :: rest).length - 1 := by rw [hwlen]; simp
    have e2 : w.pron.length - 2 = (p0 :: p1 :: rest).length - 2 := by rw [hwlen]
    rw [← hLe]
    refine ⟨f1, f2, ?_, ?_, ?_, fun _ => f3, fun _ => (by rw [f7, v.pron, e1, hp]), fun c hc => (by cases hc), fun c hc => ?_⟩
    · rw [f4, v.pron, e1, e2, hp]; exact hw.final' hp (ctxList_lt ((rc_iff h v.dstLt rc).2 hrcm)) hssL
    · rw [f5, v.pron, e1, hp]; exact hw.ciTmat'' hp (k := (p0 :: p1 :: rest).length - 1) (by simp) html
    · rw [f6, v.logp, shift_eq hl, hl.pip]
    · simp only [Option.some.injEq] at hc
      subst hc
      exact hlh.2 rc rfl
  · intro x hxm hxr hxl
    rw [← hins] at hxm
    have hxi : x ∈ inner := by
      rcases List.mem_append.1 hxm with h1 | h1
      · rcases List.mem_append.1 h1 with h3 | h3
        · obtain ⟨k, _, hk⟩ := mem_mapM_option hroots x h3
          simp only [Option.bind_eq_some_iff, Option.some.injEq] at hk
          obtain ⟨_, _, hk⟩ := hk
          rw [← hk] at hxr; cases hxr
        · exact h3
      · obtain ⟨k, _, hk⟩ := mem_mapM_option hleaves x h1
        simp only [Option.bind_eq_some_iff, Option.some.injEq] at hk
        obtain ⟨_, _, hk⟩ := hk
        rw [← hk] at hxl; cases hxl
    obtain ⟨k, hkm, hxe⟩ := mem_mapM_option hinner x hxi
    simp only [Option.bind_eq_some_iff, Option.some.injEq] at hxe
    obtain ⟨ssI, hssI, tmI, htmI, hxe⟩ := hxe
    have hk : k < w.pron.length - 2 := by rw [hwlen]; exact List.mem_range.1 hkm
    obtain ⟨d1, d2, d3, d4⟩ := hint (k + 1) (by omega) (by omega)
    rw [← hxe]
    refine ⟨by simp, by simp; omega, ?_⟩
    have hok := build_lexTreeOK li (fsgOf M) h.silCi
    have hk1' := hk1 (by omega)
    have hrown : ((buildLexTree li (fsgOf M)).node r).owner = a.src := hrh.fields.1
    have hrlt : r < (buildLexTree li (fsgOf M)).nodes.size := by
      have hrs : a.src < (buildLexTree li (fsgOf M)).root.size := by
        rcases Nat.lt_or_ge a.src (buildLexTree li (fsgOf M)).root.size with h5 | h5
        · exact h5
        · exact absurd hr (by
            unfold LexTree.roots
            have : (buildLexTree li (fsgOf M)).root.getD a.src none = none := by simp [Array.getD, Nat.not_lt.2 h5]
            rw [this, chain_none]; simp)
      exact (hok.1 a.src hrs r hr).1
    have hownAll : ∀ j, 1 ≤ j → j ≤ w.pron.length - 2 →
        qf j < (buildLexTree li (fsgOf M)).nodes.size ∧ ((buildLexTree li (fsgOf M)).node (qf j)).owner = a.src := by
      intro j
      induction j with
      | zero => intro h0; omega
      | succ j ih =>
        intro _ hj2
        by_cases hj0 : j = 0
        · subst hj0
          have := hok.2.1 r hrlt (qf 1) hk1'.1
          exact ⟨this.1, by rw [this.2]; exact hrown⟩
        · obtain ⟨i1, i2⟩ := ih (by omega) (by omega)
          have := hok.2.1 (qf j) i1 (qf (j + 1)) (hk1'.2.1 j (by omega) (by omega))
          exact ⟨this.1, by rw [this.2]; exact i2⟩
    have hown : ((buildLexTree li (fsgOf M)).node (qf (k + 1))).owner = a.src := (hownAll (k + 1) (by omega) (by omega)).2
    refine ⟨hown, d1, ?_, ?_, ?_, fun hc => (by cases hc), fun hc => (by rcases hc with hc | hc <;> cases hc), fun c hc => (by cases hc),
      fun c hc => (by cases hc)⟩
    · rw [d2, hwid]
      have := hw.internal' (k := k) (by omega) (by rw [hp]; exact hssI)
      exact this
    · rw [d3, v.pron, hp]; exact hw.ciTmat'' hp (k := k + 1) (by rw [← hp]; omega) htmI
    · rw [d4, hl.pip]

end SSVerif.LexFlat
