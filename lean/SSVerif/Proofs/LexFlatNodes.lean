import SSVerif.Proofs.LexFlatBridge
/-!
# The converse at the level of pnodes: every pnode of the lextree the code builds, and every bit of its context set,
# comes from a word arc

`Proofs/LexFlatPaths.lean` shows that every (arc, left context, right context) has its root-to-leaf path in `buildLexTree li g`.
Here: **nothing else is allocated and no other context bit is set**.  Every pnode is, for some word arc `lid` leaving its state,

* the leaf-and-root pnode of a single-phone word (`SingleS`; every bit `c` of its context set is a left context of the state
  and the pnode's ssid is that of `(phone, c, SIL)`) or of a single-phone filler (`FillerS`);
* a word-initial pnode of a word of `n ≥ 2` phones (`RootS`; every bit is a left context `c` of the state with
  `ssid = ldiph p₀ p₁ c`);
* a word-internal pnode of position `j` (`InternalS`; no context bit);
* a word-final pnode (`LeafS`; carries the arc; every bit is a right context `c` of the arc's target state with
  `ssid = rssid p_{n−1} p_{n−2} c`).

The statement reads only `core` and `ctxt` of a pnode, so no pointer structure is involved: the invariant `AllS` is kept by
every step of the construction.
-/
namespace SSVerif.LexFlat
open SSVerif.Search SSVerif.Hist

/-! ### what the statement reads of a pnode -/

def view (n : PNode) : (Nat × Bool × Nat × Nat × Nat × Int × Nat) × Nat := (core n, n.ctxt)

theorem view_core {n n' : PNode} (h : view n' = view n) : core n' = core n := congrArg Prod.fst h
theorem view_ctxt {n n' : PNode} (h : view n' = view n) : n'.ctxt = n.ctxt := congrArg Prod.snd h

theorem view_amod (a : Array PNode) (p : Nat) (f : PNode → PNode) (hf : ∀ n, view (f n) = view n) (x : Nat) :
    view (ndOf (amod a p f) x) = view (ndOf a x) := by
  by_cases hx : x < a.size
  · rw [ndOf_modify a p f hx]
    split
    · exact hf _
    · rfl
  · rw [ndOf_ge _ (by rw [size_amod]; omega), ndOf_ge _ (by omega)]

theorem view_setSucc (a : Array PNode) (p : Nat) (q : Option Nat) (x : Nat) : view (ndOf (setSucc a p q) x) = view (ndOf a x) := by
  unfold setSucc; apply view_amod; intro n; rfl

theorem view_setSibling (a : Array PNode) (p : Nat) (q : Option Nat) (x : Nat) : view (ndOf (setSibling a p q) x) = view (ndOf a x) := by
  unfold setSibling; apply view_amod; intro n; rfl

theorem view_setSuccAll (id : Nat) (x : Nat) : ∀ (l : List Nat) (a : Array PNode),
    view (ndOf (l.foldl (fun a r => setSucc a r (some id)) a) x) = view (ndOf a x) := by
  intro l
  induction l with
  | nil => intro a; rfl
  | cons r rest ih => intro a; simp only [List.foldl_cons]; rw [ih, view_setSucc]

theorem view_attachRoots (head : Option Nat) (x : Nat) : ∀ (l : List Nat) (a : Array PNode),
    view (ndOf (attachRoots a head l) x) = view (ndOf a x) := by
  intro l
  induction l with
  | nil => intro a; rfl
  | cons r rest ih =>
    intro a
    simp only [attachRoots]
    split
    · rw [ih, view_setSucc]
    · exact view_setSibling _ _ _ _

theorem ndOf_addCtxt_ne (a : Array PNode) {q x : Nat} (c : Nat) (h : q ≠ x) : ndOf (addCtxt a q c) x = ndOf a x := by
  unfold addCtxt
  by_cases hx : x < a.size
  · rw [ndOf_modify a q _ hx]; simp [h]
  · rw [ndOf_ge _ (by rw [size_amod]; omega), ndOf_ge _ (by omega)]

theorem ndOf_addCtxt_eq (a : Array PNode) {q : Nat} (hq : q < a.size) (c : Nat) :
    ndOf (addCtxt a q c) q = { ndOf a q with ctxt := (ndOf a q).ctxt ||| (1 <<< c) } := by
  unfold addCtxt
  rw [ndOf_modify a q _ hq]; simp

theorem bit_or_one (m c c' : Nat) (h : (m ||| (1 <<< c)).testBit c' = true) : m.testBit c' = true ∨ c' = c := by
  rw [Nat.testBit_or, testBit_bit] at h
  simp only [Bool.or_eq_true, decide_eq_true_eq] at h
  rcases h with h | h
  · exact Or.inl h
  · exact Or.inr h.symm

/-! ### the kinds of pnodes -/

section Kinds
variable (li : LexIn) (g : Fsg)

/-- the leaf-and-root pnode of the single-phone, non-filler word on arc `lid` leaving `s` -/
def SingleS (lclist : List Nat) (s lid : Nat) (n : PNode) : Prop :=
  core n = (s, true, lid, n.ssid, li.tmat ((li.word (g.link lid).wid.toNat).pron.headD 0),
    ((g.link lid).logp >>> li.shift) + li.wip + li.pip, (li.word (g.link lid).wid.toNat).pron.headD 0) ∧
  ∀ c, n.ctxt.testBit c = true → c ∈ lclist ∧ n.ssid = li.lrdiph ((li.word (g.link lid).wid.toNat).pron.headD 0) c

/-- the leaf-and-root pnode of the single-phone filler on arc `lid` -/
def FillerS (s lid : Nat) (n : PNode) : Prop :=
  core n = (s, true, lid, li.ciSsid ((li.word (g.link lid).wid.toNat).pron.headD 0),
    li.tmat ((li.word (g.link lid).wid.toNat).pron.headD 0), ((g.link lid).logp >>> li.shift) + li.wip + li.pip, li.sil)

/-- a word-initial pnode of the root set `(ci, rc)` of state `s` -/
def RootS (lclist : List Nat) (s ci rc : Nat) (n : PNode) : Prop :=
  core n = (s, false, 0, n.ssid, li.tmat ci, li.wip + li.pip, ci) ∧
  ∀ c, n.ctxt.testBit c = true → c ∈ lclist ∧ n.ssid = li.ldiph ci rc c

/-- a word-internal pnode: position `j` of the dictionary word `dw`, phone `ci` -/
def InternalS (s ci dw j : Nat) (n : PNode) : Prop :=
  core n = (s, false, 0, li.internal dw j, li.tmat ci, li.pip, ci) ∧ ∀ c, n.ctxt.testBit c = false

/-- a word-final pnode of arc `lid`: last phone `ci`, the phone before it `lc` -/
def LeafS (rclist : List Nat) (s lid ci lc : Nat) (logp : Int) (n : PNode) : Prop :=
  core n = (s, true, lid, n.ssid, li.tmat ci, (logp >>> li.shift) + li.pip, ci) ∧
  ∀ c, n.ctxt.testBit c = true → c ∈ rclist ∧ n.ssid = li.rcSsid ci lc (li.rcMap ci lc c)

/-- **the pnode `n` comes from a word arc** (`lcOf s`: the left contexts of state `s`; `rcOf lid`: the right contexts of the
target state of arc `lid`) -/
def NodeSound (lcOf rcOf : Nat → List Nat) (n : PNode) : Prop :=
  ∃ s lid, lid ∈ stateArcs g s ∧ (
    ((li.word (g.link lid).wid.toNat).pron.length = 1 ∧ (li.word (g.link lid).wid.toNat).dictFiller = false ∧
        SingleS li g (lcOf s) s lid n) ∨
    ((li.word (g.link lid).wid.toNat).pron.length = 1 ∧ (li.word (g.link lid).wid.toNat).dictFiller = true ∧ FillerS li g s lid n) ∨
    (2 ≤ (li.word (g.link lid).wid.toNat).pron.length ∧
        RootS li (lcOf s) s ((li.word (g.link lid).wid.toNat).pron.headD 0) ((li.word (g.link lid).wid.toNat).pron.getD 1 0) n) ∨
    (∃ j, 1 ≤ j ∧ j + 2 ≤ (li.word (g.link lid).wid.toNat).pron.length ∧
        InternalS li s ((li.word (g.link lid).wid.toNat).pron.getD j 0) (li.word (g.link lid).wid.toNat).dictWid j n) ∨
    (2 ≤ (li.word (g.link lid).wid.toNat).pron.length ∧
        LeafS li (rcOf lid) s lid ((li.word (g.link lid).wid.toNat).pron.getD ((li.word (g.link lid).wid.toNat).pron.length - 1) 0)
          ((li.word (g.link lid).wid.toNat).pron.getD ((li.word (g.link lid).wid.toNat).pron.length - 1 - 1) 0) (g.link lid).logp n))

def AllS (lcOf rcOf : Nat → List Nat) (a : Array PNode) : Prop := ∀ x, x < a.size → NodeSound li g lcOf rcOf (ndOf a x)

variable {li g}

theorem SingleS.congr {lclist : List Nat} {s lid : Nat} {n n' : PNode} (h : view n' = view n) (hs : SingleS li g lclist s lid n) :
    SingleS li g lclist s lid n' := by
  unfold SingleS at *
  rw [view_core h, core_ssid (view_core h), view_ctxt h]; exact hs

theorem FillerS.congr {s lid : Nat} {n n' : PNode} (h : view n' = view n) (hs : FillerS li g s lid n) : FillerS li g s lid n' := by
  unfold FillerS at *
  rw [view_core h]; exact hs

theorem RootS.congr {lclist : List Nat} {s ci rc : Nat} {n n' : PNode} (h : view n' = view n) (hs : RootS li lclist s ci rc n) :
    RootS li lclist s ci rc n' := by
  unfold RootS at *
  rw [view_core h, core_ssid (view_core h), view_ctxt h]; exact hs

theorem InternalS.congr {s ci dw j : Nat} {n n' : PNode} (h : view n' = view n) (hs : InternalS li s ci dw j n) :
    InternalS li s ci dw j n' := by
  unfold InternalS at *
  rw [view_core h, view_ctxt h]; exact hs

theorem LeafS.congr {rclist : List Nat} {s lid ci lc : Nat} {logp : Int} {n n' : PNode} (h : view n' = view n)
    (hs : LeafS li rclist s lid ci lc logp n) : LeafS li rclist s lid ci lc logp n' := by
  unfold LeafS at *
  rw [view_core h, core_ssid (view_core h), view_ctxt h]; exact hs

theorem NodeSound.congr {lcOf rcOf : Nat → List Nat} {n n' : PNode} (h : view n' = view n) (hs : NodeSound li g lcOf rcOf n) :
    NodeSound li g lcOf rcOf n' := by
  obtain ⟨s, lid, hm, hk⟩ := hs
  refine ⟨s, lid, hm, ?_⟩
  rcases hk with ⟨h1, h2, h3⟩ | ⟨h1, h2, h3⟩ | ⟨h1, h3⟩ | ⟨j, h1, h2, h3⟩ | ⟨h1, h3⟩
  · exact Or.inl ⟨h1, h2, h3.congr h⟩
  · exact Or.inr (Or.inl ⟨h1, h2, h3.congr h⟩)
  · exact Or.inr (Or.inr (Or.inl ⟨h1, h3.congr h⟩))
  · exact Or.inr (Or.inr (Or.inr (Or.inl ⟨j, h1, h2, h3.congr h⟩)))
  · exact Or.inr (Or.inr (Or.inr (Or.inr ⟨h1, h3.congr h⟩)))

/-- steps that change pointers only -/
theorem AllS.same {lcOf rcOf : Nat → List Nat} {a a' : Array PNode} (h : AllS li g lcOf rcOf a) (hs : a'.size = a.size)
    (hv : ∀ x, view (ndOf a' x) = view (ndOf a x)) : AllS li g lcOf rcOf a' :=
  fun x hx => (h x (by omega)).congr (hv x)

theorem AllS.push {lcOf rcOf : Nat → List Nat} {a : Array PNode} (h : AllS li g lcOf rcOf a) {n : PNode}
    (hn : NodeSound li g lcOf rcOf n) : AllS li g lcOf rcOf (a.push n) := by
  intro x hx
  rw [Array.size_push] at hx
  by_cases hlt : x < a.size
  · rw [ndOf_push_lt a n hlt]; exact h x hlt
  · have : x = a.size := by omega
    subst this
    rw [ndOf_push_eq]; exact hn

end Kinds

/-! ### the three loops over context lists: the new pnodes are of the loop's kind, the old ones are untouched -/

/-- what a loop that allocates pnodes of kind `K` and sets context bits on them keeps -/
structure LoopS (K : PNode → Prop) (a0 a : Array PNode) : Prop where
  size : a0.size ≤ a.size
  old : ∀ x, x < a0.size → ndOf a x = ndOf a0 x
  new : ∀ x, a0.size ≤ x → x < a.size → K (ndOf a x)

theorem LoopS.refl (K : PNode → Prop) (a : Array PNode) : LoopS K a a :=
  ⟨Nat.le_refl _, fun _ _ => rfl, fun x h1 h2 => by omega⟩

/-- a context bit on a new pnode `q` -/
theorem LoopS.bit {K : PNode → Prop} {a0 a : Array PNode} (h : LoopS K a0 a) {q : Nat} (hq0 : a0.size ≤ q) (hq : q < a.size) (c : Nat)
    (hK : K { ndOf a q with ctxt := (ndOf a q).ctxt ||| (1 <<< c) }) : LoopS K a0 (addCtxt a q c) := by
  refine ⟨by rw [size_addCtxt]; exact h.size, fun x hx => by rw [ndOf_addCtxt_ne a c (by omega : q ≠ x)]; exact h.old x hx, ?_⟩
  intro x h1 h2
  rw [size_addCtxt] at h2
  by_cases hx : q = x
  · subst hx
    rw [ndOf_addCtxt_eq a hq c]; exact hK
  · rw [ndOf_addCtxt_ne a c hx]; exact h.new x h1 h2

/-- a new pnode with its first context bit -/
theorem LoopS.alloc {K : PNode → Prop} {a0 a : Array PNode} (h : LoopS K a0 a) (n : PNode) (c : Nat)
    (hK : K { n with ctxt := n.ctxt ||| (1 <<< c) }) : LoopS K a0 (addCtxt (a.push n) a.size c) := by
  have hsz : (a.push n).size = a.size + 1 := Array.size_push ..
  refine ⟨by rw [size_addCtxt, hsz]; have := h.size; omega, ?_, ?_⟩
  · intro x hx
    have := h.size
    rw [ndOf_addCtxt_ne _ c (by omega : a.size ≠ x), ndOf_push_lt a n (by omega)]; exact h.old x hx
  · intro x h1 h2
    rw [size_addCtxt, hsz] at h2
    by_cases hx : a.size = x
    · subst hx
      rw [ndOf_addCtxt_eq _ (by rw [hsz]; omega) c, ndOf_push_eq]; exact hK
    · rw [ndOf_addCtxt_ne _ c hx, ndOf_push_lt a n (by omega)]; exact h.new x h1 (by omega)

/-- a new pnode that already has its context set -/
theorem LoopS.push {K : PNode → Prop} {a0 a : Array PNode} (h : LoopS K a0 a) (n : PNode) (hK : K n) : LoopS K a0 (a.push n) := by
  have hsz : (a.push n).size = a.size + 1 := Array.size_push ..
  refine ⟨by rw [hsz]; have := h.size; omega, ?_, ?_⟩
  · intro x hx
    have := h.size
    rw [ndOf_push_lt a n (by omega)]; exact h.old x hx
  · intro x h1 h2
    rw [hsz] at h2
    by_cases hx : x = a.size
    · subst hx; rw [ndOf_push_eq]; exact hK
    · rw [ndOf_push_lt a n (by omega)]; exact h.new x h1 (by omega)

theorem LoopS.allS {li : LexIn} {g : Fsg} {lcOf rcOf : Nat → List Nat} {K : PNode → Prop} {a0 a : Array PNode} (h : LoopS K a0 a)
    (h0 : AllS li g lcOf rcOf a0) (hK : ∀ n, K n → NodeSound li g lcOf rcOf n) : AllS li g lcOf rcOf a := by
  intro x hx
  by_cases hlt : x < a0.size
  · rw [h.old x hlt]; exact h0 x hlt
  · exact hK _ (h.new x (by omega) hx)

section Loops
variable {li : LexIn} {g : Fsg}

/-- the single-phone loop (402-437) -/
theorem singleFold_s {lclist : List Nat} {s lid : Nat} (a0 : Array PNode) (root0 : Option Nat) :
    LoopS (SingleS li g lclist s lid) a0
      (lclist.foldl (singleStep li s lid ((li.word (g.link lid).wid.toNat).pron.headD 0) (g.link lid).logp)
        { nodes := a0, root := root0, lcl := [] }).nodes := by
  have h := foldl_inv (fun st : LcSt => LoopS (SingleS li g lclist s lid) a0 st.nodes ∧ ∀ p ∈ st.lcl, a0.size ≤ p ∧ p < st.nodes.size)
    (singleStep li s lid ((li.word (g.link lid).wid.toNat).pron.headD 0) (g.link lid).logp) lclist
    { nodes := a0, root := root0, lcl := [] } ⟨LoopS.refl _ _, nil_all⟩ ?_
  · exact h.1
  intro st lc hlc ⟨hL, hlcl⟩
  unfold singleStep
  simp only
  split
  · rename_i p hf
    obtain ⟨hpm, hq⟩ := find?_spec hf
    have hssid : (ndOf st.nodes p).ssid = li.lrdiph ((li.word (g.link lid).wid.toNat).pron.headD 0) lc := by simpa using hq
    obtain ⟨hp0, hp⟩ := hlcl p hpm
    refine ⟨hL.bit hp0 hp lc ?_, fun q hq' => by rw [size_addCtxt]; exact hlcl q hq'⟩
    obtain ⟨k1, k2⟩ := hL.new p hp0 hp
    refine ⟨k1, fun c hc => ?_⟩
    rcases bit_or_one _ _ _ hc with h1 | h1
    · exact k2 c h1
    · subst h1; exact ⟨hlc, hssid⟩
  · refine ⟨hL.push _ ⟨rfl, fun c hc => ?_⟩, ?_⟩
    · have hc' : (1 <<< lc).testBit c = true := hc
      rw [testBit_bit] at hc'
      have : lc = c := by simpa using hc'
      subst this
      exact ⟨hlc, rfl⟩
    · intro q hq'
      rw [Array.size_push]
      rcases List.mem_cons.1 hq' with h1 | h1
      · rw [h1]; exact ⟨hL.size, by omega⟩
      · have := hlcl q h1; omega

/-- the word-initial loop (503-544) -/
theorem rootFold_s {lclist : List Nat} {s ci rc : Nat} (a0 : Array PNode) (root0 : Option Nat) :
    LoopS (RootS li lclist s ci rc) a0
      (lclist.foldl (rootStep li s ci rc) { nodes := a0, root := root0, lcl := [] }).nodes := by
  have h := foldl_inv (fun st : LcSt => LoopS (RootS li lclist s ci rc) a0 st.nodes ∧ ∀ p ∈ st.lmap, a0.size ≤ p ∧ p < st.nodes.size)
    (rootStep li s ci rc) lclist { nodes := a0, root := root0, lcl := [] } ⟨LoopS.refl _ _, nil_all⟩ ?_
  · exact h.1
  intro st lc hlc ⟨hL, hlm⟩
  unfold rootStep
  simp only
  split
  · rename_i p hf
    obtain ⟨hpm, hq⟩ := find?_spec hf
    have hssid : (ndOf st.nodes p).ssid = li.ldiph ci rc lc := by simpa using hq
    obtain ⟨hp0, hp⟩ := hlm p hpm
    refine ⟨hL.bit hp0 hp lc ?_, fun q hq' => by rw [size_addCtxt]; exact hlm q hq'⟩
    obtain ⟨k1, k2⟩ := hL.new p hp0 hp
    refine ⟨k1, fun c hc => ?_⟩
    rcases bit_or_one _ _ _ hc with h1 | h1
    · exact k2 c h1
    · subst h1; exact ⟨hlc, hssid⟩
  · refine ⟨hL.alloc _ lc ⟨rfl, fun c hc => ?_⟩, ?_⟩
    · rcases bit_or_one _ _ _ hc with h1 | h1
      · have h1' : (0 : Nat).testBit c = true := h1
        simp at h1'
      · subst h1; exact ⟨hlc, rfl⟩
    · intro q hq'
      rw [size_addCtxt, Array.size_push]
      rcases List.mem_append.1 hq' with h1 | h1
      · have := hlm q h1; omega
      · simp only [List.mem_singleton] at h1
        rw [h1]; exact ⟨hL.size, by omega⟩

/-- the word-final loop (600-632) -/
theorem leafFold_s {rclist : List Nat} {s lid ci lc p : Nat} {logp : Int} (a0 : Array PNode) :
    LoopS (LeafS li rclist s lid ci lc logp) a0 (rclist.foldl (leafStep li s lid ci lc p logp) { nodes := a0 }).nodes := by
  have h := foldl_inv (fun st : RcSt => LoopS (LeafS li rclist s lid ci lc logp) a0 st.nodes ∧
      ∀ pr ∈ st.rmap, a0.size ≤ pr.2 ∧ pr.2 < st.nodes.size ∧ (ndOf st.nodes pr.2).ssid = li.rcSsid ci lc pr.1)
    (leafStep li s lid ci lc p logp) rclist { nodes := a0 } ⟨LoopS.refl _ _, nil_all⟩ ?_
  · exact h.1
  intro st rc hrc ⟨hL, hrm⟩
  unfold leafStep
  split
  · rename_i q hq
    obtain ⟨hq0, hqlt, hqs⟩ := hrm _ (lookup_mem hq)
    simp only at hq0 hqlt hqs
    refine ⟨hL.bit hq0 hqlt rc ?_, ?_⟩
    · obtain ⟨k1, k2⟩ := hL.new q hq0 hqlt
      refine ⟨k1, fun c hc => ?_⟩
      rcases bit_or_one _ _ _ hc with h1 | h1
      · exact k2 c h1
      · subst h1; exact ⟨hrc, hqs⟩
    · intro pr hpr
      obtain ⟨h1, h2, h3⟩ := hrm pr hpr
      refine ⟨h1, by rw [size_addCtxt]; exact h2, ?_⟩
      by_cases hx : q = pr.2
      · rw [← hx, ndOf_addCtxt_eq _ hqlt rc]; rw [← hx] at h3; exact h3
      · rw [ndOf_addCtxt_ne _ rc hx]; exact h3
  · refine ⟨hL.alloc _ rc ⟨rfl, fun c hc => ?_⟩, ?_⟩
    · rcases bit_or_one _ _ _ hc with h1 | h1
      · have h1' : (0 : Nat).testBit c = true := h1
        simp at h1'
      · subst h1; exact ⟨hrc, rfl⟩
    · intro pr hpr
      have hsz : (st.nodes.push (leafNode li s lid ci lc p logp st.rcl.head? rc)).size = st.nodes.size + 1 := Array.size_push ..
      rcases List.mem_cons.1 hpr with h1 | h1
      · rw [h1]
        refine ⟨hL.size, by rw [size_addCtxt, hsz]; omega, ?_⟩
        show (ndOf (addCtxt _ st.nodes.size rc) st.nodes.size).ssid = _
        rw [ndOf_addCtxt_eq _ (by rw [hsz]; omega) rc, ndOf_push_eq]; rfl
      · obtain ⟨h2, h3, h4⟩ := hrm pr h1
        refine ⟨h2, by rw [size_addCtxt, hsz]; omega, ?_⟩
        rw [ndOf_addCtxt_ne _ rc (by omega : st.nodes.size ≠ pr.2), ndOf_push_lt _ _ h3]; exact h4

end Loops

/-! ### phones, arcs, states -/

section Build
variable {li : LexIn} {g : Fsg} {lcOf rcOf : Nat → List Nat}

theorem phoneStep_s {s lid : Nat} (hlid : lid ∈ stateArcs g s) {lcl : List Nat} (st : PhSt) {p : Nat} (hp1 : 1 ≤ p)
    (hp2 : p < (li.word (g.link lid).wid.toNat).pron.length) (h : AllS li g lcOf rcOf st.nodes) :
    AllS li g lcOf rcOf (phoneStep li s lid (li.word (g.link lid).wid.toNat) (g.link lid).logp (rcOf lid) lcl st p).nodes := by
  unfold phoneStep
  simp only
  split
  · rename_i hne
    have hnew : ∀ head, NodeSound li g lcOf rcOf
        (internalNode li s ((li.word (g.link lid).wid.toNat).pron.getD p 0) p (li.word (g.link lid).wid.toNat).dictWid head) :=
      fun head => ⟨s, lid, hlid, Or.inr (Or.inr (Or.inr (Or.inl ⟨p, hp1, by omega, rfl, fun c => Nat.zero_testBit c⟩)))⟩
    split
    · exact h
    · split
      · exact (h.push (hnew _)).same (size_setSuccAll _ lcl _) (fun x => view_setSuccAll _ x lcl _)
      · exact (h.push (hnew _)).same (size_setSucc _ _ _) (fun x => view_setSucc _ _ _ x)
  · rename_i heq
    have hp : p = (li.word (g.link lid).wid.toNat).pron.length - 1 := by omega
    have hleaf : AllS li g lcOf rcOf ((rcOf lid).foldl (leafStep li s lid ((li.word (g.link lid).wid.toNat).pron.getD p 0)
        ((li.word (g.link lid).wid.toNat).pron.getD (p - 1) 0) p (g.link lid).logp) { nodes := st.nodes }).nodes := by
      refine (leafFold_s (li := li) st.nodes).allS h (fun n hK => ⟨s, lid, hlid, Or.inr (Or.inr (Or.inr (Or.inr ⟨by omega, ?_⟩)))⟩)
      rw [← hp]; exact hK
    split
    · exact hleaf.same (size_attachRoots _ _ _) (fun x => view_attachRoots _ x _ _)
    · rw [attachOne_eq]
      exact hleaf.same (size_attachRoots _ _ _) (fun x => view_attachRoots _ x _ _)

theorem addTrans_s {s lid : Nat} (hlid : lid ∈ stateArcs g s) (hn : 1 ≤ (li.word (g.link lid).wid.toNat).pron.length) (w0 : Bld)
    (h : AllS li g lcOf rcOf w0.nodes) : AllS li g lcOf rcOf (addTrans li g s (lcOf s) (rcOf lid) w0 lid).nodes := by
  unfold addTrans
  simp only
  split
  · rename_i h1
    split
    · rename_i hf
      have hf' : (li.word (g.link lid).wid.toNat).dictFiller = false := by simpa using hf
      exact (singleFold_s (li := li) (g := g) w0.nodes w0.root).allS h (fun n hK => ⟨s, lid, hlid, Or.inl ⟨h1, hf', hK⟩⟩)
    · rename_i hf
      have hf' : (li.word (g.link lid).wid.toNat).dictFiller = true := by simpa using hf
      exact h.push ⟨s, lid, hlid, Or.inr (Or.inl ⟨h1, hf', rfl⟩)⟩
  · rename_i h1
    have h2 : 2 ≤ (li.word (g.link lid).wid.toNat).pron.length := by omega
    have key : ∀ (a1 : Array PNode) (lcl : List Nat) (pred : Nat), AllS li g lcOf rcOf a1 →
        AllS li g lcOf rcOf (((List.range (li.word (g.link lid).wid.toNat).pron.length).drop 1).foldl
          (phoneStep li s lid (li.word (g.link lid).wid.toNat) (g.link lid).logp (rcOf lid) lcl) { nodes := a1, pred }).nodes := by
      intro a1 lcl pred h0
      refine foldl_inv (fun st : PhSt => AllS li g lcOf rcOf st.nodes) _ _ _ h0 (fun st p hp hst => ?_)
      rw [drop1_range] at hp
      have := List.mem_range'_1.1 hp
      exact phoneStep_s hlid st (by omega) (by omega) hst
    have hroot : AllS li g lcOf rcOf ((lcOf s).foldl (rootStep li s ((li.word (g.link lid).wid.toNat).pron.headD 0)
        ((li.word (g.link lid).wid.toNat).pron.getD 1 0)) { nodes := w0.nodes, root := w0.root, lcl := [] }).nodes :=
      (rootFold_s (li := li) w0.nodes w0.root).allS h (fun n hK => ⟨s, lid, hlid, Or.inr (Or.inr (Or.inl ⟨h2, hK⟩))⟩)
    split
    · split
      · exact key _ _ _ h
      · exact key _ _ _ hroot
    · exact key _ _ _ hroot

theorem buildState_s {lcs rcs : Array Nat} {nodes : Array PNode} {s : Nat}
    (hpron : ∀ lid ∈ stateArcs g s, 1 ≤ (li.word (g.link lid).wid.toNat).pron.length)
    (h : AllS li g (fun s => ctxList li (lcs.getD s 0)) (fun lid => ctxList li (rcs.getD (g.link lid).dst 0)) nodes) :
    AllS li g (fun s => ctxList li (lcs.getD s 0)) (fun lid => ctxList li (rcs.getD (g.link lid).dst 0))
      (buildState li g lcs rcs nodes s).1 := by
  unfold buildState
  simp only
  exact foldl_inv (fun w : Bld => AllS li g (fun s => ctxList li (lcs.getD s 0)) (fun lid => ctxList li (rcs.getD (g.link lid).dst 0)) w.nodes)
    _ _ _ h (fun w lid hm hw => addTrans_s (lcOf := fun s => ctxList li (lcs.getD s 0))
      (rcOf := fun lid => ctxList li (rcs.getD (g.link lid).dst 0)) hm (hpron lid hm) w hw)

/-- **every pnode of the lextree the code builds comes from a word arc, and so does every bit of its context set** -/
theorem build_nodes_sound (li : LexIn) (g : Fsg)
    (hpron : ∀ s, s < li.nState → ∀ lid ∈ stateArcs g s, 1 ≤ (li.word (g.link lid).wid.toNat).pron.length) :
    ∀ x, x < (buildLexTree li g).nodes.size →
      NodeSound li g (fun s => ctxList li ((ctxFlags li g).1.getD s 0)) (fun lid => ctxList li ((ctxFlags li g).2.getD (g.link lid).dst 0))
        ((buildLexTree li g).node x) := by
  have h := foldl_inv (fun acc : Array PNode × Array (Option Nat) =>
      AllS li g (fun s => ctxList li ((ctxFlags li g).1.getD s 0)) (fun lid => ctxList li ((ctxFlags li g).2.getD (g.link lid).dst 0)) acc.1)
    (buildStep li g) (List.range li.nState) (#[], #[]) (fun x hx => by simp at hx)
    (fun acc s hs hacc => buildState_s (hpron s (List.mem_range.1 hs)) hacc)
  exact h

end Build

/-! ### in the terms of the flat network -/

section Flat
open SSVerif.FlatNet (Model Arc Word Inst instsOfArc wordArcs lcSet rcSet shiftS)
open SSVerif.Generated.Search (wposSingle wposBegin wposInternal wposEnd)

theorem mapM_option_mem {α β : Type} {f : α → Option β} : ∀ {l : List α} {out : List β}, l.mapM f = some out →
    ∀ x ∈ l, ∃ y ∈ out, f x = some y := by
  intro l
  induction l with
  | nil => intro out _ x hx; cases hx
  | cons a rest ih =>
    intro out h x hx
    simp only [List.mapM_cons, Option.bind_eq_bind, Option.bind_eq_some_iff] at h
    obtain ⟨b, hb, bs, hbs, hout⟩ := h
    simp at hout
    subst hout
    rcases List.mem_cons.1 hx with h1 | h1
    · exact ⟨b, List.mem_cons_self .., by rw [h1]; exact hb⟩
    · obtain ⟨y, hy, hfy⟩ := ih hbs x h1
      exact ⟨y, List.mem_cons_of_mem _ hy, hfy⟩

/-- the instances of a word of `n ≥ 2` phones, one by one -/
theorem multi_insts {M : Model} {i : Nat} {a : Arc} {w : Word} {p0 p1 : Nat} {rest : List Nat} (hp : w.pron = p0 :: p1 :: rest)
    {insts : List Inst} (hi : instsOfArc M i a w = some insts) :
    (∀ c ∈ lcSet M a.src, ∃ ss tm0, M.ssid p0 c p1 wposBegin = some ss ∧ M.ciTmat p0 = some tm0 ∧
      ({ arc := i, pos := 0, ssid := ss, tmat := tm0, entry := M.wip + M.pip, isRoot := true, isLeaf := false,
         lc := some c, rc := none, ciExt := p0, src := a.src, dst := a.dst } : Inst) ∈ insts) ∧
    (∀ k, k < (p0 :: p1 :: rest).length - 2 → ∃ ss tm,
      M.ssid ((p0 :: p1 :: rest).getD (k + 1) 0) ((p0 :: p1 :: rest).getD k 0) ((p0 :: p1 :: rest).getD (k + 2) 0) wposInternal = some ss ∧
      M.ciTmat ((p0 :: p1 :: rest).getD (k + 1) 0) = some tm ∧
      ({ arc := i, pos := k + 1, ssid := ss, tmat := tm, entry := M.pip, isRoot := false, isLeaf := false,
         lc := none, rc := none, ciExt := (p0 :: p1 :: rest).getD (k + 1) 0, src := a.src, dst := a.dst } : Inst) ∈ insts) ∧
    (∀ c ∈ rcSet M a.dst, ∃ ss tml,
      M.ssid ((p0 :: p1 :: rest).getD ((p0 :: p1 :: rest).length - 1) 0) ((p0 :: p1 :: rest).getD ((p0 :: p1 :: rest).length - 2) 0) c wposEnd = some ss ∧
      M.ciTmat ((p0 :: p1 :: rest).getD ((p0 :: p1 :: rest).length - 1) 0) = some tml ∧
      ({ arc := i, pos := (p0 :: p1 :: rest).length - 1, ssid := ss, tmat := tml, entry := shiftS a.logp + M.pip, isRoot := false, isLeaf := true,
         lc := none, rc := some c, ciExt := (p0 :: p1 :: rest).getD ((p0 :: p1 :: rest).length - 1) 0, src := a.src, dst := a.dst } : Inst) ∈ insts) := by
  unfold instsOfArc at hi
  simp only [hp, Option.bind_eq_bind, Option.bind_eq_some_iff, Option.pure_def, Option.some.injEq] at hi
  obtain ⟨tm0, htm0, roots, hroots, inner, hinner, tml, html, leaves, hleaves, hins⟩ := hi
  subst hins
  refine ⟨?_, ?_, ?_⟩
  · intro c hc
    obtain ⟨y, hy, hfy⟩ := mapM_option_mem hroots c hc
    simp only [Option.bind_eq_some_iff, Option.some.injEq] at hfy
    obtain ⟨ss, hss, hye⟩ := hfy
    exact ⟨ss, tm0, hss, htm0, by rw [hye]; exact List.mem_append_left _ (List.mem_append_left _ hy)⟩
  · intro k hk
    obtain ⟨y, hy, hfy⟩ := mapM_option_mem hinner k (List.mem_range.2 hk)
    simp only [Option.bind_eq_some_iff, Option.some.injEq] at hfy
    obtain ⟨ss, hss, tm, htm, hye⟩ := hfy
    exact ⟨ss, tm, hss, htm, by rw [hye]; exact List.mem_append_left _ (List.mem_append_right _ hy)⟩
  · intro c hc
    obtain ⟨y, hy, hfy⟩ := mapM_option_mem hleaves c hc
    simp only [Option.bind_eq_some_iff, Option.some.injEq] at hfy
    obtain ⟨ss, hss, hye⟩ := hfy
    exact ⟨ss, tml, hss, html, by rw [hye]; exact List.mem_append_right _ hy⟩

/-- a word arc of the lextree's FSG is a word arc of the flat model -/
theorem wordArc_of_stateArc {M : Model} {li : LexIn} (h : Agree M li) {s lid : Nat} (hm : lid ∈ stateArcs (fsgOf M) s) :
    ∃ a w, (lid, a, w) ∈ wordArcs M ∧ a.src = s := by
  obtain ⟨h1, h2, h3⟩ := mem_stateArcs hm
  obtain ⟨a, ha, hma⟩ := arc_of_lt M h1
  rw [fsgOf_link M ha] at h2 h3
  simp only at h2 h3
  cases hw : a.wid with
  | none => have := (widInt_neg a).2 hw; omega
  | some wid =>
    obtain ⟨wd, hwd, _⟩ := h.word a hma wid hw
    exact ⟨a, wd, (mem_wordArcs M _).2 ⟨ha, wid, hw, hwd⟩, h2⟩

theorem core_eq {n : PNode} {s : Nat} {lf : Bool} {lk ss tmv : Nat} {lp : Int} {ci : Nat} (h : core n = (s, lf, lk, ss, tmv, lp, ci)) :
    n.owner = s ∧ n.leaf = lf ∧ n.link = lk ∧ n.ssid = ss ∧ n.tmatid = tmv ∧ n.logs2prob = lp ∧ n.ciExt = ci := by
  unfold core at h
  simp only [Prod.mk.injEq] at h
  exact h

theorem pron_two {l : List Nat} (h : 2 ≤ l.length) : ∃ p0 p1 rest, l = p0 :: p1 :: rest := by
  match l, h with
  | p0 :: p1 :: rest, _ => exact ⟨p0, p1, rest, rfl⟩

theorem pron_one {l : List Nat} (h : l.length = 1) : ∃ p, l = [p] := by
  match l, h with
  | [p], _ => exact ⟨p, rfl⟩

/-- **every pnode of the lextree the code builds is an HMM instance of the flat network, and every bit of its context set is
the context of such an instance** -/
theorem bridge_nodes {M : Model} {li : LexIn} (h : Agree M li) (hl : LookAgree M li)
    (hall : ∀ i a w, (i, a, w) ∈ wordArcs M → ∃ insts, instsOfArc M i a w = some insts) :
    ∀ x, x < (buildLexTree li (fsgOf M)).nodes.size →
      ∃ i a w insts, (i, a, w) ∈ wordArcs M ∧ instsOfArc M i a w = some insts ∧
        ((∃ y ∈ insts, NodeOf ((buildLexTree li (fsgOf M)).node x) y ∧ y.lc = none ∧ y.rc = none) ∨
         (∀ c, ((buildLexTree li (fsgOf M)).node x).ctxt.testBit c = true →
            ∃ y ∈ insts, NodeOf ((buildLexTree li (fsgOf M)).node x) y ∧ (y.lc = some c ∨ y.rc = some c))) := by
  intro x hx
  obtain ⟨s, lid, hm, hk⟩ := build_nodes_sound li (fsgOf M) (agree_pron h) x hx
  generalize (buildLexTree li (fsgOf M)).node x = n at hk ⊢
  obtain ⟨a, w, hwa, hsrc⟩ := wordArc_of_stateArc h hm
  subst hsrc
  obtain ⟨insts, hi⟩ := hall lid a w hwa
  have v := arcView h hl hwa
  obtain ⟨wid, hwid, hwd, hw⟩ := v.wid
  refine ⟨lid, a, w, insts, hwa, hi, ?_⟩
  unfold SingleS FillerS RootS InternalS LeafS at hk
  simp only [v.pron, v.filler, v.logp, v.dst] at hk
  rw [hwid] at hk
  rcases hk with ⟨h1, h2, h3, h4⟩ | ⟨h1, h2, h3⟩ | ⟨h1, h3, h4⟩ | ⟨j, hj1, hj2, h3, h4⟩ | ⟨h1, h3, h4⟩
  · -- single-phone word
    obtain ⟨p, hp⟩ := pron_one h1
    rw [hp] at h3 h4
    obtain ⟨f1, f2, f3, _, f5, f6, f7⟩ := core_eq h3
    unfold instsOfArc at hi
    simp only [hp, h2, Bool.false_eq_true, if_false, Option.bind_eq_bind, Option.bind_eq_some_iff] at hi
    obtain ⟨tmv, htm, hmap⟩ := hi
    refine Or.inr (fun c hc => ?_)
    obtain ⟨hcl, hss⟩ := h4 c hc
    obtain ⟨y, hy, hfy⟩ := mapM_option_mem hmap c ((lc_iff h v.src c).1 hcl)
    simp only [Option.bind_eq_some_iff, Option.pure_def, Option.some.injEq] at hfy
    obtain ⟨ss, hss', hye⟩ := hfy
    subst hye
    refine ⟨_, hy, ⟨f1, f2, ?_, ?_, ?_, fun _ => f3, fun _ => f7, fun c' hc' => ?_, fun c' hc' => (by cases hc')⟩, Or.inl rfl⟩
    · rw [hss]; exact hw.single' hp (ctxList_lt hcl) hss'
    · rw [f5]; exact hw.ciTmat'' hp (k := 0) (by simp) htm
    · rw [f6, shift_eq hl, hl.wip, hl.pip]
    · simp only [Option.some.injEq] at hc'
      subst hc'; exact hc
  · -- filler
    obtain ⟨p, hp⟩ := pron_one h1
    rw [hp] at h3
    obtain ⟨f1, f2, f3, f4, f5, f6, f7⟩ := core_eq h3
    unfold instsOfArc at hi
    simp only [hp, h2, if_true, Option.bind_eq_bind, Option.bind_eq_some_iff, Option.pure_def, Option.some.injEq] at hi
    obtain ⟨ss, hss, tmv, htm, hins⟩ := hi
    subst hins
    refine Or.inl ⟨_, List.mem_singleton.2 rfl, ⟨f1, f2, ?_, ?_, ?_, fun _ => f3, fun _ => (by rw [f7]; exact h.sil),
      fun c' hc' => (by cases hc'), fun c' hc' => (by cases hc')⟩, rfl, rfl⟩
    · rw [f4]; exact hw.ciSsid' hp hss
    · rw [f5]; exact hw.ciTmat'' hp (k := 0) (by simp) htm
    · rw [f6, shift_eq hl, hl.wip, hl.pip]
  · -- word-initial
    obtain ⟨p0, p1, rest, hp⟩ := pron_two h1
    rw [hp] at h3 h4
    obtain ⟨f1, f2, f3, _, f5, f6, f7⟩ := core_eq h3
    refine Or.inr (fun c hc => ?_)
    obtain ⟨hcl, hss⟩ := h4 c hc
    obtain ⟨ss, tm0, hss', htm0, hmem⟩ := (multi_insts hp hi).1 c ((lc_iff h v.src c).1 hcl)
    refine ⟨_, hmem, ⟨f1, f2, ?_, ?_, ?_, fun hc' => (by cases hc'), fun _ => f7, fun c' hc' => ?_, fun c' hc' => (by cases hc')⟩, Or.inl rfl⟩
    · rw [hss]; exact hw.begin' hp (ctxList_lt hcl) hss'
    · rw [f5]; exact hw.ciTmat'' hp (k := 0) (by simp) htm0
    · rw [f6, hl.wip, hl.pip]
    · simp only [Option.some.injEq] at hc'
      subst hc'; exact hc
  · -- word-internal
    have h2 : 2 ≤ w.pron.length := by omega
    obtain ⟨p0, p1, rest, hp⟩ := pron_two h2
    obtain ⟨k, rfl⟩ : ∃ k, j = k + 1 := ⟨j - 1, by omega⟩
    rw [hp] at h3 hj2
    obtain ⟨f1, f2, f3, f4, f5, f6, f7⟩ := core_eq h3
    obtain ⟨ss, tmv, hss, htm, hmem⟩ := (multi_insts hp hi).2.1 k (by omega)
    refine Or.inl ⟨_, hmem, ⟨f1, f2, ?_, ?_, ?_, fun hc' => (by cases hc'), fun hc' => (by rcases hc' with hc' | hc' <;> cases hc'),
      fun c' hc' => (by cases hc'), fun c' hc' => (by cases hc')⟩, rfl, rfl⟩
    · rw [f4]; exact hw.internal' (k := k) (by rw [hp]; omega) (by rw [hp]; exact hss)
    · rw [f5]; exact hw.ciTmat'' hp (k := k + 1) (by omega) htm
    · rw [f6, hl.pip]
  · -- word-final
    obtain ⟨p0, p1, rest, hp⟩ := pron_two h1
    rw [hp] at h3 h4
    obtain ⟨f1, f2, f3, _, f5, f6, f7⟩ := core_eq h3
    refine Or.inr (fun c hc => ?_)
    obtain ⟨hcl, hss⟩ := h4 c hc
    obtain ⟨ss, tml, hss', html, hmem⟩ := (multi_insts hp hi).2.2 c ((rc_iff h v.dstLt c).1 hcl)
    refine ⟨_, hmem, ⟨f1, f2, ?_, ?_, ?_, fun _ => f3, fun _ => f7, fun c' hc' => (by cases hc'), fun c' hc' => ?_⟩, Or.inr rfl⟩
    · rw [hss]; exact hw.final' hp (ctxList_lt hcl) hss'
    · rw [f5]; exact hw.ciTmat'' hp (k := (p0 :: p1 :: rest).length - 1) (by simp) html
    · rw [f6, shift_eq hl, hl.pip]
    · simp only [Option.some.injEq] at hc'
      subst hc'; exact hc

end Flat

end SSVerif.LexFlat
