import SSVerif.Proofs.FeBuf
import SSVerif.Model.FeBufClosed
/-!
# The list model of `fe_process` produces exactly the closed-form counters

`process_closed`: one call at rest `(k, o)` on a chunk of `n` samples with room `L` consumes
`(callClosed c o n L).1` samples, writes `(callClosed c o n L).2.1` frames and leaves
`(callClosed c o n L).2.2` samples carried over.  `run_closed` chains it over a whole schedule.
Same invariants (`Rest`, `Mid`) and step lemmas as `Proofs/FeBuf.lean`; the only new content is
that the witnesses are explicit.
-/
namespace SSVerif.FeBuf
open List

theorem availClosed_eq (c : Cfg) (o n : Nat) : availClosed c o n = avail c n o := rfl

theorem callClosed_short {c : Cfg} {o n L : Nat} (h : n + o < c.size) : callClosed c o n L = (n, 0, o + n) := by
  unfold callClosed; rw [if_pos h]

theorem callClosed_zero {c : Cfg} {o n : Nat} (h : ¬ n + o < c.size) : callClosed c o n 0 = (0, 0, o) := by
  unfold callClosed; rw [if_neg h, if_pos rfl]

theorem process_closed (c : Cfg) (hs : 0 < c.shift) (hss : c.shift ≤ c.size) {k o : Nat} {fe : Fe Nat}
    (R : Rest c fe k o) (n L : Nat) :
    ∃ fe', process c fe (range' (k * c.shift + o) n) L
        = some (fe', (callClosed c o n L).1, (callClosed c o n L).2.1) ∧
      Rest c fe' (k + (callClosed c o n L).2.1) (callClosed c o n L).2.2 := by
  have hle := R.le
  have hsl := slack_le_one c
  by_cases hA : n + o < c.size
  · -- overflow_append
    rw [callClosed_short hA]
    simp only [process, length_range', R.novf]
    rw [if_pos (by omega)]
    refine ⟨_, rfl, ?_⟩
    show Rest c (overflowAppend fe (range' (k * c.shift + o) n)) (k + 0) (o + n)
    unfold overflowAppend
    rw [length_range']
    by_cases hn : n = 0
    · subst hn; rw [if_pos rfl]; exact R
    · rw [if_neg hn]
      refine ⟨?_, ?_, by omega, ?_, R.prior, R.out⟩
      · show fe.ovf.take fe.nOvf.toNat ++ range' (k * c.shift + o) n = _
        rw [R.novf, R.ovf, Int.toNat_natCast, take_range'_le (Nat.le_refl _), range'_append_1]; rfl
      · show fe.nOvf + _ = _
        rw [R.novf]; omega
      · rcases R.ge with h | h
        · exact Or.inl h
        · exact Or.inr (by omega)
  · by_cases hL : L = 0
    · subst hL
      rw [callClosed_zero hA]
      simp only [process, length_range', R.novf]
      rw [if_neg (by omega), if_pos (by omega)]
      exact ⟨_, rfl, R⟩
    · have hcl : callClosed c o n L =
          ((if o ≤ min (avail c n o) L * c.shift
             then c.size - o + (min (avail c n o) L - 1) * c.shift
                  + min (c.shift - c.slack) (n - (c.size - o + (min (avail c n o) L - 1) * c.shift))
             else min n (c.size + min (avail c n o) L * c.shift - o - c.slack)),
           min (avail c n o) L,
           o + (if o ≤ min (avail c n o) L * c.shift
             then c.size - o + (min (avail c n o) L - 1) * c.shift
                  + min (c.shift - c.slack) (n - (c.size - o + (min (avail c n o) L - 1) * c.shift))
             else min n (c.size + min (avail c n o) L * c.shift - o - c.slack))
             - min (avail c n o) L * c.shift) := by
        unfold callClosed; rw [if_neg hA, if_neg hL]; rfl
      rw [hcl]
      simp only [process, length_range', R.novf]
      rw [if_neg (by omega), if_neg (by omega)]
      have e : ((n : Int) + (o : Int) - (c.size : Int)).toNat = n + o - c.size := by omega
      have hav : avail c n o = 1 + (n + o - c.size) / c.shift := by unfold avail; rw [if_neg hA]
      have hd1 := Nat.div_mul_le_self (n + o - c.size) c.shift
      have hd2 := Nat.lt_div_mul_add (a := n + o - c.size) hs
      rw [e, ← hav]
      generalize (n + o - c.size) / c.shift = q at hd1 hd2 hav
      -- first frame
      obtain ⟨fe1, hf1, M1⟩ := firstFrame_spec c hs hss R n (by omega)
      rw [R.novf] at hf1
      rw [hf1, Option.bind_some]
      -- the loop
      have ht : (min (avail c n o) L - 1) * c.shift ≤ q * c.shift :=
        Nat.mul_le_mul_right _ (by omega)
      obtain ⟨fe2, hf2, M2⟩ := shiftLoop_spec c hs hss k o n (min (avail c n o) L - 1) 0 fe1 (c.size - o) M1
        (by omega) (by omega)
      simp only []
      rw [hf2, Option.bind_some]
      have hmin : min (avail c n o) L = (min (avail c n o) L - 1) + 1 := by omega
      generalize min (avail c n o) L - 1 = t at hmin ht hf2 M2
      rw [hmin]
      rw [Nat.zero_add] at M2
      have hp2 : c.size - o + t * c.shift + o = c.size + t * c.shift := by omega
      have hm2 : (k + t + 1) * c.shift = k * c.shift + t * c.shift + c.shift := by
        rw [Nat.add_mul, Nat.add_mul, Nat.one_mul]
      have hf : (t + 1) * c.shift = t * c.shift + c.shift := Nat.succ_mul _ _
      by_cases hneg : fe2.nOvf ≤ 0
      · have hcr : o ≤ (t + 1) * c.shift := by have := M2.nov_le hneg; omega
        obtain ⟨fe3, o', h3, R3, hpos⟩ := create_spec c hs hss M2 hp2 (n := n) (by omega) hneg
        simp only [if_pos hcr, if_pos hneg, h3, Option.map_some]
        have ho' : o' = o + (c.size - o + t * c.shift + min (c.shift - c.slack) (n - (c.size - o + t * c.shift)))
            - (t + 1) * c.shift := by omega
        refine ⟨fe3, rfl, ?_⟩
        rw [← ho', ← Nat.add_assoc]; exact R3
      · have hpos' : 0 < fe2.nOvf := by omega
        have hv := M2.nov_pos hpos'
        have hcr : ¬ o ≤ (t + 1) * c.shift := by omega
        obtain ⟨fe3, o', h3, R3, hpos⟩ := append_spec c hs hss M2 hp2 (n := n) (by omega) (by omega) hle
        have hcap : c.size + (t + 1) * c.shift - o - c.slack = c.size + t * c.shift + c.shift - o - c.slack := by
          omega
        simp only [if_neg hcr, if_neg hneg, hcap, h3, Option.map_some]
        have ho' : o' = o + min n (c.size + t * c.shift + c.shift - o - c.slack) - (t + 1) * c.shift := by omega
        refine ⟨fe3, rfl, ?_⟩
        rw [← ho', ← Nat.add_assoc]; exact R3

/-- `process_closed` together with what `process_spec` says about the same call -/
theorem process_closed' (c : Cfg) (hs : 0 < c.shift) (hss : c.shift ≤ c.size) {k o : Nat} {fe : Fe Nat}
    (R : Rest c fe k o) (n L : Nat) :
    ∃ fe', process c fe (range' (k * c.shift + o) n) L
        = some (fe', (callClosed c o n L).1, (callClosed c o n L).2.1) ∧
      Rest c fe' (k + (callClosed c o n L).2.1) (callClosed c o n L).2.2 ∧
      (k + (callClosed c o n L).2.1) * c.shift + (callClosed c o n L).2.2
        = k * c.shift + o + (callClosed c o n L).1 ∧
      (callClosed c o n L).1 ≤ n ∧ (avail c n o ≤ L → (callClosed c o n L).1 = n) ∧
      (callClosed c o n L).2.1 = min (avail c n o) L := by
  obtain ⟨fe', h, R'⟩ := process_closed c hs hss R n L
  obtain ⟨fe2, used, o2, h2, R2, hpos, hle, hfull⟩ := process_spec c hs hss R n L
  rw [h] at h2
  have hinj := Option.some.inj h2
  have h1 : fe' = fe2 := congrArg Prod.fst hinj
  have h3 : (callClosed c o n L).1 = used := congrArg (fun x => x.2.1) hinj
  have h4 : (callClosed c o n L).2.1 = min (avail c n o) L := congrArg (fun x => x.2.2) hinj
  subst h1
  have ho : (callClosed c o n L).2.2 = o2 := by
    have a := R'.novf; have b := R2.novf; omega
  refine ⟨fe', h, R', ?_, by omega, fun hh => by rw [h3]; exact hfull hh, h4⟩
  rw [h4, ho, h3]; exact hpos

theorem feedChunk_closed (c : Cfg) (hs : 0 < c.shift) (hss : c.shift ≤ c.size) :
    ∀ (limits : List Nat) {k o : Nat} {fe : Fe Nat} (_ : Rest c fe k o) (n : Nat),
    ∃ fe' k', feedChunk c fe (range' (k * c.shift + o) n) limits
        = some (fe', (chunkClosed c o n limits).1, []) ∧
      Rest c fe' k' (chunkClosed c o n limits).2 ∧
      k' * c.shift + (chunkClosed c o n limits).2 = k * c.shift + o + n ∧
      k' = k + ((chunkClosed c o n limits).1.map (·.frames)).sum := by
  intro limits
  induction limits with
  | nil =>
    intro k o fe R n
    simp only [feedChunk, chunkClosed, length_range']
    by_cases hn : n = 0
    · subst hn
      rw [if_pos rfl, if_pos rfl]
      exact ⟨fe, k, by simp, R, by simp, by simp⟩
    · rw [if_neg hn, if_neg hn, outputFrameCount_eq c hs R n, availClosed_eq]
      obtain ⟨fe', h1, R', hpos, _, hfull, hfr⟩ := process_closed' c hs hss R n (avail c n o + 1)
      have hu : (callClosed c o n (avail c n o + 1)).1 = n := hfull (by omega)
      rw [h1, Option.map_some]
      refine ⟨fe', _, ?_, R', by rw [hpos, hu], ?_⟩
      · simp only [logClosed, availClosed_eq, R'.novf, hu, drop_range'_one, Nat.sub_self]
        rfl
      · simp [logClosed]
  | cons l ls ih =>
    intro k o fe R n
    simp only [feedChunk, chunkClosed, length_range']
    obtain ⟨fe', h1, R', hpos, hle, _, _⟩ := process_closed' c hs hss R n l
    rw [h1, Option.bind_some]
    simp only [drop_range'_one]
    rw [← hpos]
    obtain ⟨fe'', k'', h2, R'', hpos2, hk⟩ := ih R' (n - (callClosed c o n l).1)
    rw [h2, Option.map_some]
    refine ⟨fe'', k'', ?_, R'', by omega, ?_⟩
    · simp only [logClosed, availClosed_eq, outputFrameCount_eq c hs R n, R'.novf]
    · simp only [List.map_cons, List.sum_cons, logClosed]; omega

theorem feedAll_closed (c : Cfg) (hs : 0 < c.shift) (hss : c.shift ≤ c.size) :
    ∀ (specs : List (Nat × List Nat)) {k o : Nat} {fe : Fe Nat} (_ : Rest c fe k o),
    ∃ r k', feedAll c fe (chunksFrom (k * c.shift + o) specs) = some r ∧
      Rest c r.fe k' (feedClosed c o specs).2 ∧ r.calls = (feedClosed c o specs).1 ∧ r.left = 0 ∧
      k' = k + ((feedClosed c o specs).1.map (·.frames)).sum := by
  intro specs
  induction specs with
  | nil =>
    intro k o fe R
    exact ⟨_, k, rfl, R, rfl, rfl, by simp [feedClosed]⟩
  | cons sp rest ih =>
    intro k o fe R
    obtain ⟨n, ls⟩ := sp
    simp only [chunksFrom, feedAll, feedClosed]
    obtain ⟨fe', k', h1, R', hpos, hk⟩ := feedChunk_closed c hs hss ls R n
    rw [h1, Option.bind_some, ← hpos]
    obtain ⟨r, k'', h2, R'', hcalls, hleft, hk2⟩ := ih R'
    rw [h2, Option.map_some]
    refine ⟨_, k'', rfl, R'', ?_, ?_, ?_⟩
    · show (chunkClosed c o n ls).1 ++ r.calls = _
      rw [hcalls]
    · show ([] : List Nat).length + r.left = 0
      rw [hleft]; rfl
    · simp only [List.map_append, List.sum_append]; omega

/-- the whole utterance: the list model's call log, `fe_end` count and total frame count are the
closed-form ones, for both variants of the code -/
theorem run_closed (c : Cfg) (hs : 0 < c.shift) (hss : c.shift ≤ c.size) (specs : List (Nat × List Nat))
    (e : Nat) (he : 0 < e) :
    ∃ r nend, run c (chunksFrom 0 specs) e = some (r, nend) ∧ r.calls = (runClosed c specs).1 ∧
      nend = (runClosed c specs).2.1 ∧ r.fe.out.length = (runClosed c specs).2.2 ∧ r.left = 0 := by
  obtain ⟨r, k, h1, R, hcalls, hleft, hk⟩ := feedAll_closed c hs hss specs (rest_start c hs hss)
  obtain ⟨fe', h2, hout, _⟩ := finish_spec c R e he
  simp only [Nat.zero_mul, Nat.add_zero, Nat.zero_add] at h1 hk
  simp only [run]
  rw [h1, Option.bind_some, h2, Option.map_some]
  refine ⟨_, _, rfl, hcalls, rfl, ?_, hleft⟩
  show fe'.out.length = _
  rw [hout, length_append, length_map, length_range, hk]
  simp only [runClosed]
  split <;> rfl

end SSVerif.FeBuf
