import Mathlib.Analysis.SpecialFunctions.Log.Base
import SSVerif.Proofs.LogTable
/-!
# `AccAt` read as a statement about real logarithms (corollary for C19)

`AccAt P Q D d k` is stated with natural-number powers so that the kernel can decide it.  Here it
is shown to imply, for the base `B = P/Q > 1` and `δ = 1/D`,

  `k − ½ + log_B(1−δ) ≤ log_B(1 + B^(−d)) ≤ k + ½ + log_B(1+δ)`,

i.e. the table entry is `log_B(1 + B^(−d))` rounded to the nearest integer, up to the tolerance.
(Uses Mathlib's `Real.logb`; not linked into the driver.)
-/
namespace SSVerif.LogAdd
open Real

theorem accAt_logb {P Q D d k : ℕ} (hQ : 0 < Q) (hPQ : Q < P) (hD : 1 < D) (h : AccAt P Q D d k) :
    (k : ℝ) - 1 / 2 + logb ((P : ℝ) / Q) (1 - 1 / D) ≤ logb ((P : ℝ) / Q) (1 + ((Q : ℝ) / P) ^ d) ∧
    logb ((P : ℝ) / Q) (1 + ((Q : ℝ) / P) ^ d) ≤ (k : ℝ) + 1 / 2 + logb ((P : ℝ) / Q) (1 + 1 / D) := by
  have hQr : (0 : ℝ) < Q := by exact_mod_cast hQ
  have hPr : (0 : ℝ) < P := by exact_mod_cast Nat.lt_trans hQ hPQ
  have hDr : (1 : ℝ) < D := by exact_mod_cast hD
  have hD0 : (0 : ℝ) < D := by linarith
  have hB : (1 : ℝ) < (P : ℝ) / Q := by
    rw [one_lt_div hQr]; exact_mod_cast hPQ
  have hB0 : (0 : ℝ) < (P : ℝ) / Q := by positivity
  have hBne : ((P : ℝ) / Q) ≠ 1 := ne_of_gt hB
  set w : ℝ := 1 + ((Q : ℝ) / P) ^ d with hw
  have hwpos : 0 < w := by positivity
  have hw1 : 1 ≤ w := by
    have : 0 ≤ ((Q : ℝ) / P) ^ d := by positivity
    linarith
  have hweq : w = ((P : ℝ) ^ d + (Q : ℝ) ^ d) / (P : ℝ) ^ d := by
    rw [hw, div_pow]; field_simp
  have hpowB : ∀ n : ℕ, logb ((P : ℝ) / Q) (((P : ℝ) / Q) ^ n) = n := by
    intro n
    rw [logb_pow, logb_self_eq_one hB, mul_one]
  constructor
  · -- lower bound
    by_cases hk : 1 ≤ k
    · have hl := h.1 hk
      have hlr : (P : ℝ) ^ (2 * k - 1) * ((P : ℝ) ^ d) ^ 2 * ((D : ℝ) - 1) ^ 2 ≤
          ((P : ℝ) ^ d + (Q : ℝ) ^ d) ^ 2 * (Q : ℝ) ^ (2 * k - 1) * (D : ℝ) ^ 2 := by
        have h1 : ((D - 1 : ℕ) : ℝ) = (D : ℝ) - 1 := by
          rw [Nat.cast_sub (le_of_lt hD)]; simp
        have := (Nat.cast_le (α := ℝ)).mpr hl
        push_cast at this
        rw [h1] at this
        exact this
      have hineq : ((P : ℝ) / Q) ^ (2 * k - 1) * (1 - 1 / (D : ℝ)) ^ 2 ≤ w ^ 2 := by
        rw [hweq, div_pow, div_pow]
        have e : (1 - 1 / (D : ℝ)) = ((D : ℝ) - 1) / D := by field_simp
        rw [e, div_pow, div_mul_div_comm, div_le_div_iff₀ (by positivity) (by positivity)]
        nlinarith [hlr]
      have hδ : (0 : ℝ) < 1 - 1 / (D : ℝ) := by
        have : 1 / (D : ℝ) < 1 := by rw [div_lt_one hD0]; exact hDr
        linarith
      have hlog := logb_le_logb_of_le hB (by positivity) hineq
      rw [logb_mul (by positivity) (by positivity), hpowB, logb_pow, logb_pow] at hlog
      have hcast : ((2 * k - 1 : ℕ) : ℝ) = 2 * (k : ℝ) - 1 := by
        rw [Nat.cast_sub (by omega)]; push_cast; ring
      rw [hcast] at hlog
      push_cast at hlog
      linarith
    · have hk0 : k = 0 := by omega
      subst hk0
      have h1 : logb ((P : ℝ) / Q) (1 - 1 / D) ≤ 0 := by
        apply logb_nonpos hB
        · have : 1 / (D : ℝ) < 1 := by rw [div_lt_one hD0]; exact hDr
          linarith
        · have : 0 < 1 / (D : ℝ) := by positivity
          linarith
      have h2 : 0 ≤ logb ((P : ℝ) / Q) w := logb_nonneg hB hw1
      simp only [Nat.cast_zero]
      linarith
  · -- upper bound
    have hu := h.2
    have hur : ((P : ℝ) ^ d + (Q : ℝ) ^ d) ^ 2 * (Q : ℝ) ^ (2 * k + 1) * (D : ℝ) ^ 2 ≤
        (P : ℝ) ^ (2 * k + 1) * ((P : ℝ) ^ d) ^ 2 * ((D : ℝ) + 1) ^ 2 := by
      have := (Nat.cast_le (α := ℝ)).mpr hu
      push_cast at this
      exact this
    have hineq : w ^ 2 ≤ ((P : ℝ) / Q) ^ (2 * k + 1) * (1 + 1 / (D : ℝ)) ^ 2 := by
      rw [hweq, div_pow, div_pow]
      have e : (1 + 1 / (D : ℝ)) = ((D : ℝ) + 1) / D := by field_simp
      rw [e, div_pow, div_mul_div_comm, div_le_div_iff₀ (by positivity) (by positivity)]
      nlinarith [hur]
    have hlog := logb_le_logb_of_le hB (by positivity) hineq
    rw [logb_mul (by positivity) (by positivity), hpowB, logb_pow, logb_pow] at hlog
    push_cast at hlog
    linarith


/-- `log_B(B^x + B^y) = max x y + log_B(1 + B^(−|x−y|))`, hence: if `k` is accurate at the
distance `|x − y|`, then `max x y + k` is `log_B(B^x + B^y)` to within half a unit plus
`ε = log_B(D/(D−1))`. -/
theorem rounded_log_of_sum {P Q D : ℕ} (hQ : 0 < Q) (hPQ : Q < P) (hD : 1 < D) {x y : ℤ} {k : ℕ}
    (h : AccAt P Q D (x - y).natAbs k) :
    |((max x y + (k : ℤ) : ℤ) : ℝ) - logb ((P : ℝ) / Q) (((P : ℝ) / Q) ^ x + ((P : ℝ) / Q) ^ y)| ≤
      1 / 2 + logb ((P : ℝ) / Q) ((D : ℝ) / ((D : ℝ) - 1)) := by
  have hQr : (0 : ℝ) < Q := by exact_mod_cast hQ
  have hPr : (0 : ℝ) < P := by exact_mod_cast Nat.lt_trans hQ hPQ
  have hDr : (1 : ℝ) < D := by exact_mod_cast hD
  have hD0 : (0 : ℝ) < D := by linarith
  have hD1 : (0 : ℝ) < (D : ℝ) - 1 := by linarith
  have hB : (1 : ℝ) < (P : ℝ) / Q := by
    rw [one_lt_div hQr]; exact_mod_cast hPQ
  have hB0 : (0 : ℝ) < (P : ℝ) / Q := by positivity
  obtain ⟨hlo, hhi⟩ := accAt_logb hQ hPQ hD h
  set B : ℝ := (P : ℝ) / Q with hBdef
  have hinv : (Q : ℝ) / P = B⁻¹ := by rw [hBdef, inv_div]
  rw [hinv] at hlo hhi
  set d := (x - y).natAbs with hd
  set w : ℝ := 1 + B⁻¹ ^ d with hw
  have hwpos : 0 < w := by positivity
  -- the sum as a product
  have key : B ^ x + B ^ y = B ^ (max x y) * w := by
    rcases le_total y x with hyx | hxy
    · have hm : max x y = x := max_eq_left hyx
      have hdz : ((d : ℕ) : ℤ) = x - y := by
        rw [hd]; exact Int.natAbs_of_nonneg (sub_nonneg.mpr hyx)
      have : B ^ y = B ^ x * B⁻¹ ^ d := by
        rw [← zpow_natCast B⁻¹ d, hdz, inv_zpow', ← zpow_add₀ hB0.ne']
        congr 1; ring
      rw [hm, this, hw]; ring
    · have hm : max x y = y := max_eq_right hxy
      have hdz : ((d : ℕ) : ℤ) = y - x := by
        rw [hd]
        have : (x - y).natAbs = (y - x).natAbs := by
          rw [← Int.natAbs_neg]; congr 1; ring
        rw [this]; exact Int.natAbs_of_nonneg (sub_nonneg.mpr hxy)
      have : B ^ x = B ^ y * B⁻¹ ^ d := by
        rw [← zpow_natCast B⁻¹ d, hdz, inv_zpow', ← zpow_add₀ hB0.ne']
        congr 1; ring
      rw [hm, this, hw]; ring
  have hlogB : Real.log B ≠ 0 := ne_of_gt (Real.log_pos hB)
  have hzpow : logb B (B ^ (max x y)) = ((max x y : ℤ) : ℝ) := by
    rw [logb, Real.log_zpow, mul_div_assoc, div_self hlogB, mul_one]
  rw [key, logb_mul (zpow_ne_zero _ hB0.ne') hwpos.ne', hzpow]
  -- tolerance on the lower side
  have hε1 : -logb B (1 - 1 / (D : ℝ)) = logb B ((D : ℝ) / ((D : ℝ) - 1)) := by
    rw [← logb_inv]; congr 1; field_simp
  have hε2 : logb B (1 + 1 / (D : ℝ)) ≤ logb B ((D : ℝ) / ((D : ℝ) - 1)) := by
    apply logb_le_logb_of_le hB (by positivity)
    rw [le_div_iff₀ hD1]
    have : (1 + 1 / (D : ℝ)) * ((D : ℝ) - 1) = (D : ℝ) - 1 / D := by field_simp; ring
    rw [this]
    have : 0 < 1 / (D : ℝ) := by positivity
    linarith
  push_cast
  rw [abs_le]
  constructor <;> linarith

end SSVerif.LogAdd
