import SSVerif.Proofs.FsgClosure
/-!
# The executable best-path function is exact

`bestLogProb? g ws = some r` ⇒ `r = some v ↔ IsBest g ws v` and `r = none ↔ ¬ accepts g ws`, for every
grammar (`bestLogProb_sound`).  The forward vectors are sound (every entry is the weight of a real
path) and, because each closure stops at a fixpoint of the null relaxation, optimal (every path is
dominated by the entry of its end state).  With null log-probabilities `≤ 0` the fixpoint is always
reached within the fuel (`bestLogProb_total`).
-/
namespace SSVerif.Fsg

/-! ### runs built from the end -/

inductive RunR (g : Fsg) (p : Nat) : List Nat → Int → Nat → Prop
  | nil : RunR g p [] 0 p
  | eps {l : Link} {ws v} : RunR g p ws v l.src → l ∈ g.links → l.wid = none → RunR g p ws (v + l.logp) l.dst
  | sym {l : Link} {w ws v} : RunR g p ws v l.src → l ∈ g.links → l.wid = some w →
      RunR g p (ws ++ [w]) (v + l.logp) l.dst

theorem RunR.run {g p ws v q} (h : RunR g p ws v q) : Run g p ws v q := by
  induction h with
  | nil => exact .nil
  | @eps l ws v _ hm hw ih =>
    have := ih.trans (Run.single hm)
    rw [hw] at this
    simpa [lab] using this
  | @sym l w ws v _ hm hw ih =>
    have := ih.trans (Run.single hm)
    rw [hw] at this
    simpa [lab] using this

theorem RunR.cons_eps {g : Fsg} {l : Link} (hm : l ∈ g.links) (hw : l.wid = none) {ws v q}
    (h : RunR g l.dst ws v q) : RunR g l.src ws (l.logp + v) q := by
  induction h with
  | nil =>
    have := RunR.eps (RunR.nil (g := g) (p := l.src)) hm hw
    simpa using this
  | @eps l' ws v _ hm' hw' ih =>
    have := RunR.eps ih hm' hw'
    rwa [Int.add_assoc] at this
  | @sym l' w ws v _ hm' hw' ih =>
    have := RunR.sym ih hm' hw'
    rwa [Int.add_assoc] at this

theorem RunR.cons_sym {g : Fsg} {l : Link} {w : Nat} (hm : l ∈ g.links) (hw : l.wid = some w) {ws v q}
    (h : RunR g l.dst ws v q) : RunR g l.src (w :: ws) (l.logp + v) q := by
  induction h with
  | nil =>
    have := RunR.sym (RunR.nil (g := g) (p := l.src)) hm hw
    simpa using this
  | @eps l' ws v _ hm' hw' ih =>
    have := RunR.eps ih hm' hw'
    rwa [Int.add_assoc] at this
  | @sym l' w' ws v _ hm' hw' ih =>
    have := RunR.sym ih hm' hw'
    rwa [Int.add_assoc] at this

theorem Run.runR {g p ws v q} (h : Run g p ws v q) : RunR g p ws v q := by
  induction h with
  | nil => exact .nil
  | eps hm hw _ ih => exact RunR.cons_eps hm hw ih
  | sym hm hw _ ih => exact RunR.cons_sym hm hw ih

/-! ### max-plus values -/

/-- `r` is at least `a` (with `none` = −∞) -/
def Ge (r a : Option Int) : Prop := ∀ x, a = some x → ∃ y, r = some y ∧ x ≤ y

theorem Ge.refl (a : Option Int) : Ge a a := fun x h => ⟨x, h, Int.le_refl _⟩

theorem Ge.trans {a b c : Option Int} (h1 : Ge a b) (h2 : Ge b c) : Ge a c := by
  intro x hx
  obtain ⟨y, hy, le⟩ := h2 x hx
  obtain ⟨z, hz, le'⟩ := h1 y hy
  exact ⟨z, hz, Int.le_trans le le'⟩

theorem Ge.antisymm {a b : Option Int} (h1 : Ge a b) (h2 : Ge b a) : a = b := by
  cases a with
  | none =>
    cases b with
    | none => rfl
    | some y => obtain ⟨_, h, _⟩ := h1 y rfl; cases h
  | some x =>
    obtain ⟨y, hy, le⟩ := h2 x rfl
    subst hy
    obtain ⟨x', hx', le'⟩ := h1 y rfl
    cases hx'
    have : x = y := by omega
    rw [this]

theorem omax_ge_left (a b : Option Int) : Ge (omax a b) a := by
  intro x hx; subst hx
  cases b with
  | none => exact ⟨x, rfl, Int.le_refl _⟩
  | some y =>
    simp only [omax]
    by_cases h : x < y
    · exact ⟨y, by simp [h], by omega⟩
    · exact ⟨x, by simp [h], Int.le_refl _⟩

theorem omax_ge_right (a b : Option Int) : Ge (omax a b) b := by
  intro y hy; subst hy
  cases a with
  | none => exact ⟨y, rfl, Int.le_refl _⟩
  | some x =>
    simp only [omax]
    by_cases h : x < y
    · exact ⟨y, by simp [h], Int.le_refl _⟩
    · exact ⟨x, by simp [h], by omega⟩

theorem omax_cases (a b : Option Int) : omax a b = a ∨ omax a b = b := by
  cases a with
  | none => exact .inr rfl
  | some x =>
    cases b with
    | none => exact .inl rfl
    | some y =>
      simp only [omax]
      by_cases h : x < y
      · exact .inr (by simp [h])
      · exact .inl (by simp [h])

theorem pick_spec (j : Nat) : ∀ (cs : List (Nat × Option Int)) (init : Option Int),
    Ge (pick cs j init) init ∧ (∀ c ∈ cs, c.1 = j → Ge (pick cs j init) c.2) ∧
    (pick cs j init = init ∨ ∃ c ∈ cs, c.1 = j ∧ pick cs j init = c.2)
  | [], init => ⟨Ge.refl _, fun _ h => (by cases h), .inl rfl⟩
  | c :: cs, init => by
    unfold pick
    simp only [List.foldl_cons]
    by_cases hc : c.1 = j
    · simp only [hc, if_true]
      obtain ⟨h1, h2, h3⟩ := pick_spec j cs (omax init c.2)
      unfold pick at h1 h2 h3
      refine ⟨h1.trans (omax_ge_left _ _), fun c' hc' hj => ?_, ?_⟩
      · rcases List.mem_cons.1 hc' with rfl | hc'
        · exact h1.trans (omax_ge_right _ _)
        · exact h2 c' hc' hj
      · rcases h3 with h3 | ⟨c', m, hj, e⟩
        · rcases omax_cases init c.2 with h | h
          · exact .inl (h3.trans h)
          · exact .inr ⟨c, List.mem_cons_self, hc, h3.trans h⟩
        · exact .inr ⟨c', List.mem_cons_of_mem _ m, hj, e⟩
    · simp only [hc, if_false]
      obtain ⟨h1, h2, h3⟩ := pick_spec j cs init
      unfold pick at h1 h2 h3
      refine ⟨h1, fun c' hc' hj => ?_, ?_⟩
      · rcases List.mem_cons.1 hc' with rfl | hc'
        · exact absurd hj hc
        · exact h2 c' hc' hj
      · rcases h3 with h3 | ⟨c', m, hj, e⟩
        · exact .inl h3
        · exact .inr ⟨c', List.mem_cons_of_mem _ m, hj, e⟩

theorem get_tabulate {n : Nat} (f : Nat → Option Int) {j : Nat} (h : j < n) : (tabulate n f).get j = f j := by
  unfold Vec.get tabulate
  rw [List.getD_eq_getElem?_getD, List.getElem?_map, List.getElem?_range h]
  rfl

theorem get_tabulate_ge {n : Nat} (f : Nat → Option Int) {j : Nat} (h : n ≤ j) : (tabulate n f).get j = none := by
  unfold Vec.get tabulate
  rw [List.getD_eq_getElem?_getD, List.getElem?_eq_none (by simp; omega)]
  rfl

/-! ### soundness and optimality of the vectors -/

variable {g : Fsg} {n : Nat}

/-- every entry is the weight of a path from the start state spelling `u` -/
def Snd (g : Fsg) (u : List Nat) (v : Vec) : Prop := ∀ j x, v.get j = some x → RunR g g.start u x j

/-- closed under the null links -/
def VClosed (g : Fsg) (v : Vec) : Prop :=
  ∀ l ∈ g.links, l.wid = none → Ge (v.get l.dst) (oadd (v.get l.src) l.logp)

/-- all states that matter are below `n` -/
structure Bnd (g : Fsg) (n : Nat) : Prop where
  start : g.start < n
  dst : ∀ l ∈ g.links, l.dst < n

theorem mem_cands {v : Vec} {ls : List Link} {c : Nat × Option Int} (h : c ∈ cands v ls) :
    ∃ l ∈ ls, c = (l.dst, oadd (v.get l.src) l.logp) := by
  unfold cands at h
  obtain ⟨l, hl, e⟩ := List.mem_map.1 h
  exact ⟨l, hl, e.symm⟩

theorem relaxNull_ge (v : Vec) {j : Nat} (hj : j < n) : Ge ((relaxNull g n v).get j) (v.get j) := by
  unfold relaxNull
  rw [get_tabulate _ hj]
  exact (pick_spec j _ _).1

theorem relaxNull_snd {u : List Nat} {v : Vec} (h : Snd g u v) : Snd g u (relaxNull g n v) := by
  intro j x hx
  by_cases hj : j < n
  · unfold relaxNull at hx
    rw [get_tabulate _ hj] at hx
    rcases (pick_spec j (cands v (nullLinks g)) (v.get j)).2.2 with e | ⟨c, hc, hcj, e⟩
    · exact h j x (e ▸ hx)
    · obtain ⟨l, hl, rfl⟩ := mem_cands hc
      have hm := List.mem_filter.1 hl
      have hw : l.wid = none := by simpa [Link.isNull, Option.isNone_iff_eq_none] using hm.2
      rw [e] at hx
      simp only at hcj hx
      cases hs : v.get l.src with
      | none => rw [hs] at hx; cases hx
      | some y =>
        rw [hs] at hx
        simp only [oadd, Option.some.injEq] at hx
        subst hx; subst hcj
        exact RunR.eps (h _ _ hs) hm.1 hw
  · unfold relaxNull at hx
    rw [get_tabulate_ge _ (by omega)] at hx; cases hx

theorem vclosed_of_fix (hb : Bnd g n) {v : Vec} (h : relaxNull g n v = v) : VClosed g v := by
  intro l hl hw
  have hd := hb.dst l hl
  have : (relaxNull g n v).get l.dst = v.get l.dst := by rw [h]
  rw [← this]
  unfold relaxNull
  rw [get_tabulate _ hd]
  refine (pick_spec l.dst _ _).2.1 (l.dst, oadd (v.get l.src) l.logp) ?_ rfl
  unfold cands
  exact List.mem_map.2 ⟨l, List.mem_filter.2 ⟨hl, by simp [Link.isNull, hw]⟩, rfl⟩

theorem nullClose_spec (hb : Bnd g n) {u : List Nat} : ∀ (fuel : Nat) (v v' : Vec), nullClose g n fuel v = some v' →
    Snd g u v → Snd g u v' ∧ VClosed g v' ∧ ∀ j, j < n → Ge (v'.get j) (v.get j)
  | 0, _, _, h, _ => by simp [nullClose] at h
  | fuel + 1, v, v', h, hs => by
    unfold nullClose at h
    simp only at h
    split at h
    · rename_i heq
      have heq' : relaxNull g n v = v := by simpa using heq
      cases h
      exact ⟨hs, vclosed_of_fix hb heq', fun j _ => Ge.refl _⟩
    · obtain ⟨s1, c1, g1⟩ := nullClose_spec hb fuel _ _ h (relaxNull_snd hs)
      exact ⟨s1, c1, fun j hj => (g1 j hj).trans (relaxNull_ge v hj)⟩

theorem stepWord_snd {u : List Nat} {v : Vec} (w : Nat) (h : Snd g u v) : Snd g (u ++ [w]) (stepWord g n v w) := by
  intro j x hx
  by_cases hj : j < n
  · unfold stepWord at hx
    rw [get_tabulate _ hj] at hx
    rcases (pick_spec j (cands v (g.links.filter fun l => l.wid == some w)) none).2.2 with e | ⟨c, hc, hcj, e⟩
    · rw [e] at hx; cases hx
    · obtain ⟨l, hl, rfl⟩ := mem_cands hc
      have hm := List.mem_filter.1 hl
      have hw : l.wid = some w := by simpa using hm.2
      rw [e] at hx
      simp only at hcj hx
      cases hs : v.get l.src with
      | none => rw [hs] at hx; cases hx
      | some y =>
        rw [hs] at hx
        simp only [oadd, Option.some.injEq] at hx
        subst hx; subst hcj
        exact RunR.sym (h _ _ hs) hm.1 hw
  · unfold stepWord at hx
    rw [get_tabulate_ge _ (by omega)] at hx; cases hx

theorem stepWord_ge (hb : Bnd g n) (v : Vec) {l : Link} {w : Nat} (hl : l ∈ g.links) (hw : l.wid = some w) :
    Ge ((stepWord g n v w).get l.dst) (oadd (v.get l.src) l.logp) := by
  unfold stepWord
  rw [get_tabulate _ (hb.dst l hl)]
  refine (pick_spec l.dst _ _).2.1 (l.dst, oadd (v.get l.src) l.logp) ?_ rfl
  unfold cands
  exact List.mem_map.2 ⟨l, List.mem_filter.2 ⟨hl, by simp [hw]⟩, rfl⟩

/-- the vectors the programme goes through, as a relation: `DP g n u v` — `v` is the vector after
reading `u` -/
inductive DP (g : Fsg) (n : Nat) : List Nat → Vec → Prop
  | init {v} : dpInit g n = some v → DP g n [] v
  | step {u v w v'} : DP g n u v → dpStep g n v w = some v' → DP g n (u ++ [w]) v'

theorem DP.spec (hb : Bnd g n) {u v} (h : DP g n u v) : Snd g u v ∧ VClosed g v := by
  induction h with
  | @init v h =>
    unfold dpInit at h
    have hs : Snd g [] (tabulate n fun j => if j = g.start then some 0 else none) := by
      intro j x hx
      by_cases hj : j < n
      · rw [get_tabulate _ hj] at hx
        by_cases he : j = g.start
        · simp only [he, if_true, Option.some.injEq] at hx
          subst hx; subst he; exact .nil
        · simp [he] at hx
      · rw [get_tabulate_ge _ (by omega)] at hx; cases hx
    obtain ⟨a, b, _⟩ := nullClose_spec hb _ _ _ h hs
    exact ⟨a, b⟩
  | @step u v w v' _ h ih =>
    unfold dpStep at h
    obtain ⟨a, b, _⟩ := nullClose_spec hb _ _ _ h (stepWord_snd w ih.1)
    exact ⟨a, b⟩

theorem DP.inv_nil {v} (h : DP g n [] v) : dpInit g n = some v := by
  generalize hu : ([] : List Nat) = u at h
  cases h with
  | init h => exact h
  | step _ _ => simp at hu

theorem DP.inv_snoc {u w v'} (h : DP g n (u ++ [w]) v') : ∃ v, DP g n u v ∧ dpStep g n v w = some v' := by
  generalize hu : u ++ [w] = U at h
  cases h with
  | init _ => simp at hu
  | @step u2 v w2 v' h1 h2 =>
    have := List.append_inj' hu rfl
    obtain ⟨rfl, e⟩ := this
    cases e
    exact ⟨v, h1, h2⟩

/-- optimality: every path from the start is dominated by the entry of its end state -/
theorem DP.opt (hb : Bnd g n) {U x j} (r : RunR g g.start U x j) : ∀ v, DP g n U v → Ge (v.get j) (some x) := by
  induction r with
  | nil =>
    intro v h
    have hi := h.inv_nil
    unfold dpInit at hi
    have hs : Snd g [] (tabulate n fun j => if j = g.start then some 0 else none) := by
      intro j x hx
      by_cases hj : j < n
      · rw [get_tabulate _ hj] at hx
        by_cases he : j = g.start
        · simp only [he, if_true, Option.some.injEq] at hx
          subst hx; subst he; exact .nil
        · simp [he] at hx
      · rw [get_tabulate_ge _ (by omega)] at hx; cases hx
    obtain ⟨_, _, ge⟩ := nullClose_spec hb _ _ _ hi hs
    have := ge g.start hb.start
    rw [get_tabulate _ hb.start] at this
    simpa using this
  | @eps l ws x _ hm hw ih =>
    intro v h
    obtain ⟨y, hy, le⟩ := ih v h x rfl
    have hc := (h.spec hb).2 l hm hw
    rw [hy] at hc
    obtain ⟨y', hy', le'⟩ := hc (y + l.logp) rfl
    intro x' hx'
    cases hx'
    exact ⟨y', hy', by omega⟩
  | @sym l w ws x _ hm hw ih =>
    intro v h
    obtain ⟨v0, h0, hstep⟩ := h.inv_snoc
    obtain ⟨y, hy, le⟩ := ih v0 h0 x rfl
    unfold dpStep at hstep
    obtain ⟨_, _, ge⟩ := nullClose_spec hb _ _ _ hstep (stepWord_snd w (h0.spec hb).1)
    have h1 := stepWord_ge hb v0 hm hw
    rw [hy] at h1
    have h2 := (ge l.dst (hb.dst l hm)).trans h1
    obtain ⟨y', hy', le'⟩ := h2 (y + l.logp) rfl
    intro x' hx'
    cases hx'
    exact ⟨y', hy', by omega⟩

theorem dpRun_dp : ∀ (ws u : List Nat) (v v' : Vec), DP g n u v → dpRun g n v ws = some v' → DP g n (u ++ ws) v'
  | [], u, v, v', h, e => by simp only [dpRun, Option.some.injEq] at e; subst e; simpa using h
  | w :: ws, u, v, v', h, e => by
    unfold dpRun at e
    cases hs : dpStep g n v w with
    | none => rw [hs] at e; cases e
    | some v1 =>
      rw [hs] at e
      have := dpRun_dp ws (u ++ [w]) v1 v' (.step h hs) e
      simpa using this

theorem bnd_stateBound (g : Fsg) : Bnd g (stateBound g) := by
  unfold stateBound
  have mono : ∀ (ls : List Link) (m : Nat), m ≤ ls.foldl (fun m l => max m (max l.src l.dst + 1)) m ∧
      ∀ l ∈ ls, l.dst < ls.foldl (fun m l => max m (max l.src l.dst + 1)) m := by
    intro ls
    induction ls with
    | nil => intro m; exact ⟨Nat.le_refl _, fun _ h => by cases h⟩
    | cons x xs ih =>
      intro m
      obtain ⟨h1, h2⟩ := ih (max m (max x.src x.dst + 1))
      refine ⟨by simp only [List.foldl_cons]; omega, fun l hl => ?_⟩
      simp only [List.foldl_cons]
      rcases List.mem_cons.1 hl with rfl | hl
      · omega
      · exact h2 l hl
  obtain ⟨h1, h2⟩ := mono g.links (max g.nState (max g.start g.final + 1))
  exact ⟨by omega, h2⟩

/-- **The executable best-path function is exact**, for every grammar: when it answers, the answer
is the best log-probability of an accepting path, or "not accepted". -/
theorem bestLogProb_sound (g : Fsg) (ws : List Nat) (r : Option Int) (h : bestLogProb? g ws = some r) :
    (∀ v, r = some v ↔ IsBest g ws v) ∧ (r = none ↔ ¬ accepts g ws) := by
  have hb := bnd_stateBound g
  unfold bestLogProb? dpVec at h
  cases hi : dpInit g (stateBound g) with
  | none => simp [hi] at h
  | some v0 =>
    simp only [hi] at h
    cases hr : dpRun g (stateBound g) v0 ws with
    | none => simp [hr] at h
    | some vf =>
      simp only [hr, Option.map_some, Option.some.injEq] at h
      have hdp : DP g (stateBound g) ws vf := by
        have := dpRun_dp ws [] v0 vf (.init hi) hr
        simpa using this
      have hsnd := (hdp.spec hb).1
      have hopt : ∀ x, Run g g.start ws x g.final → ∃ y, vf.get g.final = some y ∧ x ≤ y :=
        fun x rx => DP.opt hb rx.runR vf hdp x rfl
      subst h
      refine ⟨fun v => ⟨fun hv => ⟨(hsnd _ _ hv).run, fun x rx => ?_⟩, fun ⟨rv, hmax⟩ => ?_⟩, ⟨fun hn ⟨x, rx⟩ => ?_, fun hna => ?_⟩⟩
      · obtain ⟨y, hy, le⟩ := hopt x rx
        rw [hv] at hy; cases hy; exact le
      · obtain ⟨y, hy, le⟩ := hopt v rv
        have := hmax y (hsnd _ _ hy).run
        have : y = v := by omega
        rw [hy, this]
      · obtain ⟨y, hy, _⟩ := hopt x rx
        rw [hn] at hy; cases hy
      · cases hv : vf.get g.final with
        | none => rfl
        | some y => exact absurd ⟨y, (hsnd _ _ hv).run⟩ hna

/-! ### totality: with null log-probabilities `≤ 0` the fixpoint is reached within the fuel -/

def rounds (g : Fsg) (n : Nat) : Nat → Vec → Vec
  | 0, v => v
  | k + 1, v => rounds g n k (relaxNull g n v)

theorem relaxNull_length (v : Vec) : (relaxNull g n v).length = n := by
  unfold relaxNull tabulate; simp

theorem rounds_length : ∀ (k : Nat) (v : Vec), v.length = n → (rounds g n k v).length = n
  | 0, _, h => h
  | k + 1, v, _ => rounds_length k _ (relaxNull_length v)

theorem vec_ext {v v' : Vec} (h1 : v.length = n) (h2 : v'.length = n) (h : ∀ j, j < n → v.get j = v'.get j) : v = v' := by
  apply List.ext_getElem (h1.trans h2.symm)
  intro i hi hi'
  have := h i (h1 ▸ hi)
  unfold Vec.get at this
  rw [List.getD_eq_getElem?_getD, List.getD_eq_getElem?_getD, List.getElem?_eq_getElem hi, List.getElem?_eq_getElem hi'] at this
  simpa using this

theorem rounds_ge : ∀ (k : Nat) (v : Vec) {j : Nat}, j < n → Ge ((rounds g n k v).get j) (v.get j)
  | 0, _, _, _ => Ge.refl _
  | k + 1, v, _, hj => (rounds_ge k _ hj).trans (relaxNull_ge v hj)

/-- every entry after `k` rounds comes from an entry of the start vector through a null path -/
theorem rounds_src : ∀ (k : Nat) (v : Vec) (j : Nat) (x : Int), (rounds g n k v).get j = some x →
    ∃ p a y, v.get p = some a ∧ Run g p [] y j ∧ x = a + y
  | 0, v, j, x, h => ⟨j, x, 0, h, .nil, by omega⟩
  | k + 1, v, j, x, h => by
    obtain ⟨p, a, y, hp, r, e⟩ := rounds_src k _ j x h
    by_cases hpn : p < n
    · unfold relaxNull at hp
      rw [get_tabulate _ hpn] at hp
      rcases (pick_spec p (cands v (nullLinks g)) (v.get p)).2.2 with e1 | ⟨c, hc, hcj, e1⟩
      · exact ⟨p, a, y, e1 ▸ hp, r, e⟩
      · obtain ⟨l, hl, rfl⟩ := mem_cands hc
        have hm := List.mem_filter.1 hl
        have hw : l.wid = none := by simpa [Link.isNull, Option.isNone_iff_eq_none] using hm.2
        rw [e1] at hp
        simp only at hcj hp
        cases hs : v.get l.src with
        | none => rw [hs] at hp; cases hp
        | some b =>
          rw [hs] at hp
          simp only [oadd, Option.some.injEq] at hp
          subst hcj
          exact ⟨l.src, b, l.logp + y, hs, .eps hm.1 hw r, by omega⟩
    · unfold relaxNull at hp
      rw [get_tabulate_ge _ (by omega)] at hp; cases hp

theorem relaxNull_link (hb : Bnd g n) (v : Vec) {l : Link} (hl : l ∈ g.links) (hw : l.wid = none) :
    Ge ((relaxNull g n v).get l.dst) (oadd (v.get l.src) l.logp) := by
  unfold relaxNull
  rw [get_tabulate _ (hb.dst l hl)]
  refine (pick_spec l.dst _ _).2.1 (l.dst, oadd (v.get l.src) l.logp) ?_ rfl
  unfold cands
  exact List.mem_map.2 ⟨l, List.mem_filter.2 ⟨hl, by simp [Link.isNull, hw]⟩, rfl⟩

/-- coverage: after `k` rounds every simple null path with at most `k` links has been followed -/
theorem rounds_cover (hb : Bnd g n) : ∀ (k : Nat) (v : Vec) (p : Nat) (a : Int), Ge (v.get p) (some a) →
    ∀ vs w j, SPath g p vs w j → vs.length ≤ k → Ge ((rounds g n k v).get j) (some (a + w))
  | 0, _, _, _, _, vs, _, _, sp, hlen => by
    have := sp.ne_nil
    cases vs with
    | nil => exact absurd rfl this
    | cons _ _ => simp at hlen
  | k + 1, v, p, a, ha, vs, w, j, sp, hlen => by
    cases sp with
    | @one l hm hw hne =>
      have h1 := relaxNull_link hb v hm hw
      obtain ⟨b, hb', le⟩ := ha a rfl
      rw [hb'] at h1
      have h2 : Ge ((relaxNull g n v).get l.dst) (some (a + l.logp)) := by
        intro x hx; cases hx
        obtain ⟨y, hy, le'⟩ := h1 (b + l.logp) rfl
        exact ⟨y, hy, by omega⟩
      exact (rounds_ge k _ (hb.dst l hm)).trans h2
    | @cons l vs' w' j hm hw inner hnin hne =>
      have h1 := relaxNull_link hb v hm hw
      obtain ⟨b, hb', le⟩ := ha a rfl
      rw [hb'] at h1
      have h2 : Ge ((relaxNull g n v).get l.dst) (some (a + l.logp)) := by
        intro x hx; cases hx
        obtain ⟨y, hy, le'⟩ := h1 (b + l.logp) rfl
        exact ⟨y, hy, by omega⟩
      have := rounds_cover hb k (relaxNull g n v) l.dst (a + l.logp) h2 vs' w' j inner (by simpa using hlen)
      rw [Int.add_assoc] at this
      exact this

theorem rounds_fix (hb : Bnd g n) (h0 : NullLe0 g) (v : Vec) (hv : v.length = n) :
    relaxNull g n (rounds g n (nullLinks g).length v) = rounds g n (nullLinks g).length v := by
  generalize hm : (nullLinks g).length = m
  have hlen := rounds_length (g := g) m v hv
  apply vec_ext (relaxNull_length _) hlen
  intro j hj
  generalize hV : rounds g n m v = V at *
  unfold relaxNull
  rw [get_tabulate _ hj]
  have ps := pick_spec j (cands V (nullLinks g)) (V.get j)
  rcases ps.2.2 with e | ⟨c, hc, hcj, e⟩
  · exact e
  · -- a candidate cannot beat the entry
    obtain ⟨l, hl, rfl⟩ := mem_cands hc
    have hmem := List.mem_filter.1 hl
    have hw : l.wid = none := by simpa [Link.isNull, Option.isNone_iff_eq_none] using hmem.2
    simp only at hcj e
    have hge : Ge (V.get j) (oadd (V.get l.src) l.logp) := by
      intro z hz
      cases hs : V.get l.src with
      | none => rw [hs] at hz; cases hz
      | some x =>
        rw [hs] at hz
        simp only [oadd, Option.some.injEq] at hz
        rw [← hV] at hs
        obtain ⟨p, a, y, hp, r, ex⟩ := rounds_src m v l.src x hs
        have r2 : Run g p ([] ++ []) (y + (l.logp + 0)) l.dst := r.trans (.eps hmem.1 hw .nil)
        have hle := run_null_le0 h0 r2 rfl
        by_cases hpj : p = j
        · have hpn : p < n := hpj ▸ hj
          obtain ⟨b, hb', le⟩ := rounds_ge (g := g) m v hpn a hp
          rw [hV, hpj] at hb'
          exact ⟨b, hb', by omega⟩
        · rw [hcj] at r2
          obtain ⟨vs, w, sp, lew⟩ := spath_of_run h0 r2 rfl hpj
          have hc := rounds_cover hb m v p a (by rw [hp]; exact Ge.refl _) vs w j sp (hm ▸ sp.length_le)
          rw [hV] at hc
          obtain ⟨b, hb', le⟩ := hc (a + w) rfl
          exact ⟨b, hb', by omega⟩
    -- so the pick equals the entry
    rw [e] at ps
    rw [e]
    exact Ge.antisymm ps.1 hge

theorem nullClose_total : ∀ (k fuel : Nat) (v : Vec), relaxNull g n (rounds g n k v) = rounds g n k v → k < fuel →
    ∃ v', nullClose g n fuel v = some v'
  | _, 0, _, _, h => by omega
  | 0, fuel + 1, v, hfix, _ => by
    unfold nullClose
    simp only [rounds] at hfix
    simp [hfix]
  | k + 1, fuel + 1, v, hfix, hk => by
    unfold nullClose
    simp only
    split
    · exact ⟨v, rfl⟩
    · exact nullClose_total k fuel _ hfix (by omega)

theorem nullClose_some (hb : Bnd g n) (h0 : NullLe0 g) (v : Vec) (hv : v.length = n) :
    ∃ v', nullClose g n (closeFuel g) v = some v' :=
  nullClose_total _ _ v (rounds_fix hb h0 v hv) (by unfold closeFuel; omega)

theorem nullClose_length : ∀ (fuel : Nat) (v v' : Vec), v.length = n → nullClose g n fuel v = some v' → v'.length = n
  | 0, _, _, _, h => by simp [nullClose] at h
  | fuel + 1, v, v', hv, h => by
    unfold nullClose at h
    simp only at h
    split at h
    · cases h; exact hv
    · exact nullClose_length fuel _ _ (relaxNull_length v) h

/-- **The executable best-path function always answers** when null log-probabilities are `≤ 0`. -/
theorem bestLogProb_total (g : Fsg) (h0 : NullLe0 g) (ws : List Nat) : ∃ r, bestLogProb? g ws = some r := by
  have hb := bnd_stateBound g
  have hlen : ∀ f, (tabulate (stateBound g) f).length = stateBound g := fun f => by unfold tabulate; simp
  have hrun : ∀ (ws : List Nat) (v : Vec), ∃ v', dpRun g (stateBound g) v ws = some v' := by
    intro ws
    induction ws with
    | nil => intro v; exact ⟨v, rfl⟩
    | cons w ws ih =>
      intro v
      obtain ⟨v1, h1⟩ := nullClose_some hb h0 (stepWord g (stateBound g) v w) (by unfold stepWord; exact hlen _)
      obtain ⟨v2, h2⟩ := ih v1
      exact ⟨v2, by unfold dpRun dpStep; rw [h1]; exact h2⟩
  obtain ⟨v0, hi⟩ := nullClose_some hb h0 (tabulate (stateBound g) fun j => if j = g.start then some 0 else none) (hlen _)
  obtain ⟨vf, hf⟩ := hrun ws v0
  exact ⟨vf.get g.final, by unfold bestLogProb? dpVec dpInit; rw [hi]; simp only; rw [hf]; rfl⟩

/-- both together: for null log-probabilities `≤ 0` the executable function decides the best
log-probability -/
theorem bestLogProb_iff (g : Fsg) (h0 : NullLe0 g) (ws : List Nat) :
    (∀ v, bestLogProb g ws = some v ↔ IsBest g ws v) ∧ (bestLogProb g ws = none ↔ ¬ accepts g ws) := by
  obtain ⟨r, hr⟩ := bestLogProb_total g h0 ws
  have := bestLogProb_sound g ws r hr
  have e : bestLogProb g ws = r := by unfold bestLogProb; rw [hr]; rfl
  rw [e]; exact this

end SSVerif.Fsg
