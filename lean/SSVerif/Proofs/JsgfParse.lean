import SSVerif.Model.JsgfText
/-!
The pushdown parser reads back the token list of every text-level syntax tree:
`parseToks (toksG g) = some g`.
-/
namespace SSVerif.JsgfText

/-! ### folding `bodyStep` -/

def bfold : Option (List PFrame) → List Tok → Option (List PFrame)
  | s, [] => s
  | none, _ => none
  | some st, t :: ts => bfold (bodyStep st t) ts

theorem bfold_none (ts : List Tok) : bfold none ts = none := by
  cases ts <;> rfl

theorem bfold_append (s : Option (List PFrame)) (a b : List Tok) :
    bfold s (a ++ b) = bfold (bfold s a) b := by
  induction a generalizing s with
  | nil => rfl
  | cons t ts ih =>
    cases s with
    | none => simp [bfold, bfold_none]
    | some st => simp only [List.cons_append, bfold]; exact ih _

/-! ### sequences and alternatives from their reversed lists -/

def itemsRevS : TSeq → List TItem
  | .one wt tags e => [⟨wt, tags, e⟩]
  | .cons wt tags e s => itemsRevS s ++ [⟨wt, tags, e⟩]

def seqsRevA : TAlts → List TSeq
  | .one s => [s]
  | .cons s a => seqsRevA a ++ [s]

def buildS (acc : TSeq) (before : List TItem) : TSeq :=
  before.foldl (fun s it => TSeq.cons it.wt it.tags it.e s) acc

def buildA (acc : TAlts) (before : List TSeq) : TAlts :=
  before.foldl (fun a s => TAlts.cons s a) acc

theorem itemsRevS_shape : ∀ s : TSeq, ∃ last before, itemsRevS s = last :: before ∧
    buildS (TSeq.one last.wt last.tags last.e) before = s
  | .one wt tags e => ⟨⟨wt, tags, e⟩, [], rfl, rfl⟩
  | .cons wt tags e s => by
    obtain ⟨last, before, h1, h2⟩ := itemsRevS_shape s
    refine ⟨last, before ++ [⟨wt, tags, e⟩], by simp [itemsRevS, h1], ?_⟩
    simp only [buildS, List.foldl_append, List.foldl_cons, List.foldl_nil]
    simp only [buildS] at h2
    rw [h2]

theorem mkTSeqRev_items (s : TSeq) : mkTSeqRev (itemsRevS s) = some s := by
  obtain ⟨last, before, h1, h2⟩ := itemsRevS_shape s
  rw [h1]
  simp only [mkTSeqRev]
  exact congrArg some h2

theorem seqsRevA_shape : ∀ a : TAlts, ∃ last before, seqsRevA a = last :: before ∧
    buildA (TAlts.one last) before = a
  | .one s => ⟨s, [], rfl, rfl⟩
  | .cons s a => by
    obtain ⟨last, before, h1, h2⟩ := seqsRevA_shape a
    refine ⟨last, before ++ [s], by simp [seqsRevA, h1], ?_⟩
    simp only [buildA, List.foldl_append, List.foldl_cons, List.foldl_nil]
    simp only [buildA] at h2
    rw [h2]

theorem mkTAltsRev_seqs (a : TAlts) : mkTAltsRev (seqsRevA a) = some a := by
  obtain ⟨last, before, h1, h2⟩ := seqsRevA_shape a
  rw [h1]
  simp only [mkTAltsRev]
  exact congrArg some h2

/-! ### the body of a rule -/

def lastPost : TSeq → Bool
  | .one _ tags _ => tags.isEmpty
  | .cons _ _ _ s => lastPost s

/-- tags are appended to the newest item -/
theorem bfold_tags (rest : List PFrame) (k : FKind) (al : List TSeq) (its : List TItem) (pend : Option Dec)
    (ow : Option Dec) : ∀ (tags : List (List Char)) (post : Bool) (it : TItem),
      bfold (some (⟨k, al, it :: its, pend, false, post, ow⟩ :: rest)) (tags.map .tag) =
        some (⟨k, al, { it with tags := it.tags ++ tags } :: its, pend, false,
               if tags.isEmpty then post else false, ow⟩ :: rest) := by
  intro tags
  induction tags with
  | nil => intro post it; cases it; simp [bfold]
  | cons t ts ih =>
    intro post it
    simp only [List.map_cons, bfold, bodyStep, Bool.false_eq_true, if_false]
    rw [ih false { it with tags := it.tags ++ [t] }]
    cases ts <;> simp [List.append_assoc]

mutual
  theorem bfold_exp : ∀ (e : TExp) (k : FKind) (al : List TSeq) (its : List TItem) (pend : Option Dec)
      (hp post : Bool) (ow : Option Dec) (rest : List PFrame),
      bfold (some (⟨k, al, its, pend, hp, post, ow⟩ :: rest)) (toksE e) =
        some (⟨k, al, ⟨pend, [], e⟩ :: its, none, false, true, ow⟩ :: rest)
    | .tok s, k, al, its, pend, hp, post, ow, rest => by simp [toksE, bfold, bodyStep, pushItem]
    | .rule s, k, al, its, pend, hp, post, ow, rest => by simp [toksE, bfold, bodyStep, pushItem]
    | .star e, k, al, its, pend, hp, post, ow, rest => by
      rw [toksE, bfold_append, bfold_exp e k al its pend hp post ow rest]
      simp [bfold, bodyStep]
    | .plus e, k, al, its, pend, hp, post, ow, rest => by
      rw [toksE, bfold_append, bfold_exp e k al its pend hp post ow rest]
      simp [bfold, bodyStep]
    | .group a, k, al, its, pend, hp, post, ow, rest => by
      rw [toksE]
      simp only [bfold, bodyStep, PFrame.new]
      rw [bfold_append]
      obtain ⟨al', its', post', sl, hg, hs, hal⟩ := bfold_alts a .group [] false pend
        (⟨k, al, its, none, false, post, ow⟩ :: rest)
      rw [hg]
      simp only [List.append_nil] at hal
      simp only [bfold, bodyStep, closeAlt, hs, hal, mkTAltsRev_seqs, bne_self_eq_false,
        Bool.false_eq_true, if_false]
    | .opt a, k, al, its, pend, hp, post, ow, rest => by
      rw [toksE]
      simp only [bfold, bodyStep, PFrame.new]
      rw [bfold_append]
      obtain ⟨al', its', post', sl, hg, hs, hal⟩ := bfold_alts a .opt [] false pend
        (⟨k, al, its, none, false, post, ow⟩ :: rest)
      rw [hg]
      simp only [List.append_nil] at hal
      simp only [bfold, bodyStep, closeAlt, hs, hal, mkTAltsRev_seqs, bne_self_eq_false,
        Bool.false_eq_true, if_false]
  theorem bfold_item : ∀ (wt : Option Dec) (tags : List (List Char)) (e : TExp) (k : FKind) (al : List TSeq)
      (its : List TItem) (post : Bool) (ow : Option Dec) (rest : List PFrame),
      bfold (some (⟨k, al, its, none, false, post, ow⟩ :: rest))
          (wtToks wt ++ toksE e ++ tags.map .tag) =
        some (⟨k, al, ⟨wt, tags, e⟩ :: its, none, false, tags.isEmpty, ow⟩ :: rest)
    | wt, tags, e, k, al, its, post, ow, rest => by
      rw [bfold_append, bfold_append]
      cases wt with
      | none =>
        simp only [wtToks, bfold]
        rw [bfold_exp e k al its none false post ow rest, bfold_tags]
        cases tags <;> simp
      | some d =>
        simp only [wtToks, bfold, bodyStep, Bool.false_eq_true, if_false]
        rw [bfold_exp e k al its (some d) true false ow rest, bfold_tags]
        cases tags <;> simp
  theorem bfold_seq : ∀ (s : TSeq) (k : FKind) (al : List TSeq) (its : List TItem) (post : Bool)
      (ow : Option Dec) (rest : List PFrame),
      bfold (some (⟨k, al, its, none, false, post, ow⟩ :: rest)) (toksS s) =
        some (⟨k, al, itemsRevS s ++ its, none, false, lastPost s, ow⟩ :: rest)
    | .one wt tags e, k, al, its, post, ow, rest => by
      simp only [toksS]
      rw [bfold_item wt tags e k al its post ow rest]
      rfl
    | .cons wt tags e s, k, al, its, post, ow, rest => by
      simp only [toksS]
      rw [bfold_append, bfold_item wt tags e k al its post ow rest,
        bfold_seq s k al _ _ ow rest]
      simp [itemsRevS, lastPost]
  /-- after the alternatives: the current alternative closes to `sl`, and with it all of `a` is there -/
  theorem bfold_alts : ∀ (a : TAlts) (k : FKind) (al : List TSeq) (post : Bool) (ow : Option Dec)
      (rest : List PFrame),
      ∃ al' its' post' sl, bfold (some (⟨k, al, [], none, false, post, ow⟩ :: rest)) (toksA a) =
          some (⟨k, al', its', none, false, post', ow⟩ :: rest) ∧
        mkTSeqRev its' = some sl ∧ sl :: al' = seqsRevA a ++ al
    | .one s, k, al, post, ow, rest => by
      refine ⟨al, itemsRevS s ++ [], lastPost s, s, by rw [toksA, bfold_seq s k al [] post ow rest], ?_, ?_⟩
      · simp [mkTSeqRev_items]
      · simp [seqsRevA]
    | .cons s a, k, al, post, ow, rest => by
      obtain ⟨al', its', post', sl, hg, hs, hal⟩ := bfold_alts a k (s :: al) false ow rest
      refine ⟨al', its', post', sl, ?_, hs, ?_⟩
      · rw [toksA, bfold_append, bfold_seq s k al [] post ow rest]
        simp only [bfold, bodyStep, closeAlt, List.append_nil, mkTSeqRev_items, Bool.false_eq_true, if_false,
          Option.map_some]
        exact hg
      · rw [hal]; simp [seqsRevA]
end

/-! ### statements -/

mutual
  theorem noSemiE : ∀ (e : TExp), ∀ t ∈ toksE e, t ≠ Tok.ch ';'
    | .tok s, t, h => by simp [toksE] at h; subst h; simp
    | .rule s, t, h => by simp [toksE] at h; subst h; simp
    | .star e, t, h => by
      simp only [toksE, List.mem_append, List.mem_singleton] at h
      rcases h with h | rfl
      · exact noSemiE e t h
      · simp
    | .plus e, t, h => by
      simp only [toksE, List.mem_append, List.mem_singleton] at h
      rcases h with h | rfl
      · exact noSemiE e t h
      · simp
    | .group a, t, h => by
      simp only [toksE, List.mem_cons, List.mem_append, List.not_mem_nil, or_false] at h
      rcases h with rfl | h | rfl
      · simp
      · exact noSemiA a t h
      · simp
    | .opt a, t, h => by
      simp only [toksE, List.mem_cons, List.mem_append, List.not_mem_nil, or_false] at h
      rcases h with rfl | h | rfl
      · simp
      · exact noSemiA a t h
      · simp
  theorem noSemiI : ∀ (wt : Option Dec) (tags : List (List Char)) (e : TExp),
      ∀ t ∈ wtToks wt ++ toksE e ++ tags.map .tag, t ≠ Tok.ch ';'
    | wt, tags, e, t, h => by
      simp only [List.mem_append, List.mem_map] at h
      rcases h with (h | h) | ⟨x, _, rfl⟩
      · cases wt <;> simp [wtToks] at h
        subst h; simp
      · exact noSemiE e t h
      · simp
  theorem noSemiS : ∀ (s : TSeq), ∀ t ∈ toksS s, t ≠ Tok.ch ';'
    | .one wt tags e, t, h => by
      simp only [toksS] at h
      exact noSemiI wt tags e t h
    | .cons wt tags e s, t, h => by
      simp only [toksS] at h
      rcases List.mem_append.mp h with h | h
      · exact noSemiI wt tags e t h
      · exact noSemiS s t h
  theorem noSemiA : ∀ (a : TAlts), ∀ t ∈ toksA a, t ≠ Tok.ch ';'
    | .one s, t, h => by simp only [toksA] at h; exact noSemiS s t h
    | .cons s a, t, h => by
      simp only [toksA, List.mem_append, List.mem_cons] at h
      rcases h with h | rfl | h
      · exact noSemiS s t h
      · simp
      · exact noSemiA a t h
end

theorem pfold_none (ts : List Tok) : pfold none ts = none := by cases ts <;> rfl

theorem pfold_append (s : Option PState) (a b : List Tok) : pfold s (a ++ b) = pfold (pfold s a) b := by
  induction a generalizing s with
  | nil => rfl
  | cons t ts ih =>
    cases s with
    | none => simp [pfold, pfold_none]
    | some st => simp only [List.cons_append, pfold]; exact ih _

/-- inside a rule, tokens other than `;` are handled by `bodyStep` -/
theorem pfold_inRule (hd : List (List Char)) (gn : List Char) (im : List (List Char)) (rs : List TRule)
    (p : Bool) (n : List Char) : ∀ (ts : List Tok) (st st' : List PFrame),
    (∀ t ∈ ts, t ≠ Tok.ch ';') → bfold (some st) ts = some st' →
    pfold (some ⟨.inRule p n, hd, gn, im, rs, st⟩) ts = some ⟨.inRule p n, hd, gn, im, rs, st'⟩ := by
  intro ts
  induction ts with
  | nil => intro st st' _ h; simp only [bfold, Option.some.injEq] at h; subst h; rfl
  | cons t ts ih =>
    intro st st' hns h
    have ht : t ≠ Tok.ch ';' := hns t (by simp)
    simp only [bfold] at h
    cases hb : bodyStep st t with
    | none => rw [hb, bfold_none] at h; cases h
    | some st1 =>
      rw [hb] at h
      simp only [pfold, pstep, ht, if_false, hb, Option.map_some]
      exact ih st1 st' (fun x hx => hns x (List.mem_cons_of_mem _ hx)) h

theorem pfold_rule (hd : List (List Char)) (gn : List Char) (im : List (List Char)) (rs : List TRule) (r : TRule) :
    pfold (some ⟨.body, hd, gn, im, rs, []⟩) (toksRule r) = some ⟨.body, hd, gn, im, r :: rs, []⟩ := by
  obtain ⟨name, pub, body⟩ := r
  obtain ⟨al', its', post', sl, hg, hs, hal⟩ := bfold_alts body .top [] false none []
  simp only [List.append_nil] at hal
  have hbody := pfold_inRule hd gn im rs pub name (toksA body) _ _ (noSemiA body) hg
  have hfin : pfold (some ⟨.inRule pub name, hd, gn, im, rs, [⟨.top, [], [], none, false, false, none⟩]⟩)
      (toksA body ++ [Tok.ch ';']) = some ⟨.body, hd, gn, im, ⟨name, pub, body⟩ :: rs, []⟩ := by
    rw [pfold_append, hbody]
    simp only [pfold, pstep, if_true, finishRule, closeAlt, hs, hal, mkTAltsRev_seqs, bne_self_eq_false,
      Bool.false_eq_true, if_false]
  cases pub with
  | false =>
    simp only [toksRule, Bool.false_eq_true, if_false, List.nil_append, pfold, pstep, PFrame.new]
    exact hfin
  | true =>
    simp only [toksRule, if_true, List.cons_append, List.nil_append, pfold, pstep, PFrame.new]
    exact hfin

theorem pfold_rules (hd : List (List Char)) (gn : List Char) (im : List (List Char)) :
    ∀ (rules : List TRule) (rs : List TRule),
    pfold (some ⟨.body, hd, gn, im, rs, []⟩) (rules.flatMap toksRule) =
      some ⟨.body, hd, gn, im, rules.reverse ++ rs, []⟩
  | [], rs => by simp [pfold]
  | r :: more, rs => by
    simp only [List.flatMap_cons]
    rw [pfold_append, pfold_rule, pfold_rules hd gn im more (r :: rs)]
    simp

theorem pfold_imports (hd : List (List Char)) (gn : List Char) :
    ∀ (imports : List (List Char)) (im : List (List Char)),
    pfold (some ⟨.body, hd, gn, im, [], []⟩) (imports.flatMap fun n => [Tok.import_, Tok.rulename n, Tok.ch ';']) =
      some ⟨.body, hd, gn, imports.reverse ++ im, [], []⟩
  | [], im => by simp [pfold]
  | n :: more, im => by
    simp only [List.flatMap_cons, List.cons_append, List.nil_append, pfold, pstep, List.isEmpty_nil, if_true]
    rw [pfold_imports hd gn more (n :: im)]
    simp

theorem pfold_header : ∀ (toks : List (List Char)) (acc : List (List Char)), acc.length + toks.length ≤ 3 →
    pfold (some ⟨.hdr acc, [], [], [], [], []⟩) (toks.map Tok.token ++ [Tok.ch ';']) =
      some ⟨.wantGrammar, acc ++ toks, [], [], [], []⟩
  | [], acc, _ => by simp [pfold, pstep]
  | t :: more, acc, h => by
    have hlt : acc.length < 3 := by simp at h; omega
    simp only [List.map_cons, List.cons_append, pfold, pstep, hlt, if_true]
    rw [pfold_header more (acc ++ [t]) (by simp at h ⊢; omega)]
    simp

/-- well-formedness of a text-level grammar (what `jsgf_parser.y` can produce) -/
def TGrammar.wf (g : TGrammar) : Bool :=
  decide (g.headerToks.length ≤ 3) && (g.imports.isEmpty || !g.rules.isEmpty)

/-- the parser reads back the token list of every well-formed syntax tree -/
theorem parseToks_toksG (g : TGrammar) (h : g.wf = true) : parseToks (toksG g) = some g := by
  obtain ⟨hd, gn, im, rules⟩ := g
  simp only [TGrammar.wf, Bool.and_eq_true, decide_eq_true_eq, Bool.or_eq_true, Bool.not_eq_true'] at h
  obtain ⟨h1, h2⟩ := h
  have e : toksG ⟨hd, gn, im, rules⟩ = Tok.header :: ((hd.map Tok.token ++ [Tok.ch ';']) ++
      (Tok.grammar :: Tok.token gn :: Tok.ch ';' ::
        ((im.flatMap fun n => [Tok.import_, Tok.rulename n, Tok.ch ';']) ++ rules.flatMap toksRule))) := by
    simp [toksG]
  unfold parseToks
  rw [e]
  simp only [pfold, PState.init, pstep]
  rw [pfold_append, pfold_header hd [] (by simpa using h1)]
  simp only [List.nil_append, pfold, pstep]
  rw [pfold_append, pfold_imports, pfold_rules]
  simp only [List.append_nil, Option.bind_some, pfinish, List.reverse_reverse]
  rcases h2 with h2 | h2
  · have : im = [] := by simpa using h2
    subst this
    simp
  · have : rules.reverse.isEmpty = false := by
      cases rules <;> simp_all
    simp [this]

end SSVerif.JsgfText
