import SSVerif.Proofs.LogAdd
/-!
# Verified checkers for run-length encoded log-add tables (helper lemmas for C19)

* `runsOK` decides the shape conditions (`TableOK`) on the run list;
* `checkRuns` decides the accuracy of every entry — and of the implicit `0` beyond the table —
  with directed-rounding fixed-point arithmetic on `F`-bit naturals at the two ends of each run;
  `checkRuns_sound` lifts a `true` answer to the exact statement `AccAt` (stated with exact
  natural-number powers, i.e. in ℚ after cross-multiplication) for **every** `d : Nat`, using that
  `d ↦ 1 + B^(-d)` is non-increasing.

Core Lean only.
-/
namespace SSVerif.LogAdd

/-! ### indexing an expanded run list -/

theorem getD_replicate_append (n v : Nat) (l : List Nat) (d : Nat) :
    (List.replicate n v ++ l).getD d 0 = if d < n then v else l.getD (d - n) 0 := by
  simp only [List.getD_eq_getElem?_getD]
  by_cases h : d < n
  · rw [if_pos h, List.getElem?_append_left (by simpa using h)]
    simp [h]
  · rw [if_neg h, List.getElem?_append_right (by simpa using h)]
    simp

theorem getD_expand_cons (v n : Nat) (rest : List (Nat × Nat)) (d : Nat) :
    (expand ((v, n) :: rest)).getD d 0 = if d < n then v else (expand rest).getD (d - n) 0 := by
  simp only [expand]; exact getD_replicate_append n v _ d

theorem tval_tableOfRuns (runs : List (Nat × Nat)) (d : Nat) :
    tval (tableOfRuns runs) d = (expand runs).getD d 0 := by
  unfold tval tableOfRuns
  simp [List.getD_eq_getElem?_getD]

/-- number of table entries a run list stands for -/
def runsLen : List (Nat × Nat) → Nat
  | [] => 0
  | (_, n) :: rest => n + runsLen rest

theorem length_expand (runs : List (Nat × Nat)) : (expand runs).length = runsLen runs := by
  induction runs with
  | nil => rfl
  | cons r rest ih => obtain ⟨v, n⟩ := r; simp [expand, runsLen, ih]

theorem size_tableOfRuns (runs : List (Nat × Nat)) : (tableOfRuns runs).size = runsLen runs := by
  unfold tableOfRuns; simp [length_expand]

/-! ### shape -/

def headVal : List (Nat × Nat) → Nat
  | [] => 0
  | (w, _) :: _ => w

/-- every run is non-empty, each run's value is the next one's or the next one's plus one, and
the last run's value is `≤ 1` (the value "after" the last run is the implicit `0`) -/
def runsOK : List (Nat × Nat) → Bool
  | [] => true
  | (v, n) :: rest => decide (0 < n) && decide (headVal rest ≤ v) && decide (v ≤ headVal rest + 1) && runsOK rest

theorem head_expand {runs : List (Nat × Nat)} (h : runsOK runs = true) :
    (expand runs).getD 0 0 = headVal runs := by
  cases runs with
  | nil => rfl
  | cons r rest =>
    obtain ⟨v, n⟩ := r
    simp only [runsOK, Bool.and_eq_true, decide_eq_true_eq] at h
    rw [getD_expand_cons, if_pos h.1.1.1]; rfl

theorem runsOK_sound {runs : List (Nat × Nat)} (h : runsOK runs = true) (d : Nat) :
    (expand runs).getD (d + 1) 0 ≤ (expand runs).getD d 0 ∧
    (expand runs).getD d 0 ≤ (expand runs).getD (d + 1) 0 + 1 := by
  induction runs generalizing d with
  | nil => simp [expand]
  | cons r rest ih =>
    obtain ⟨v, n⟩ := r
    simp only [runsOK, Bool.and_eq_true, decide_eq_true_eq] at h
    obtain ⟨⟨⟨hn, h1⟩, h2⟩, h3⟩ := h
    rw [getD_expand_cons, getD_expand_cons]
    by_cases c1 : d + 1 < n
    · rw [if_pos c1, if_pos (by omega)]; omega
    · rw [if_neg c1]
      by_cases c2 : d < n
      · rw [if_pos c2]
        have : d + 1 - n = 0 := by omega
        rw [this, head_expand h3]; omega
      · rw [if_neg c2]
        have : d + 1 - n = (d - n) + 1 := by omega
        rw [this]; exact ih h3 (d - n)

theorem tableOK_of_runs {runs : List (Nat × Nat)} (h : runsOK runs = true) (hl : runsLen runs ≤ 2147483648) :
    TableOK (tableOfRuns runs) where
  size_le := by rw [size_tableOfRuns]; exact hl
  anti d := by rw [tval_tableOfRuns, tval_tableOfRuns]; exact (runsOK_sound h d).1
  step d := by rw [tval_tableOfRuns, tval_tableOfRuns]; exact (runsOK_sound h d).2

/-! ### accuracy -/

/-- **Exact accuracy of the entry `k` at distance `d`** for the base `B = P/Q` and the
tolerance `δ = 1/D`, cross-multiplied so that only natural-number powers occur:

  `B^(2k−1) · (1−δ)² ≤ (1 + B^(−d))² ≤ B^(2k+1) · (1+δ)²`,

i.e. `k − ½ − ε ≤ log_B(1 + B^(−d)) ≤ k + ½ + ε` with `ε = log_B(1+δ)` (for `k = 0` the lower
bound is trivial since the logarithm is positive).  `(1 + B^(−d))² = (P^d + Q^d)² / (P^d)²`. -/
def AccAt (P Q D d k : Nat) : Prop :=
  (1 ≤ k → P ^ (2 * k - 1) * (P ^ d) ^ 2 * (D - 1) ^ 2 ≤ (P ^ d + Q ^ d) ^ 2 * Q ^ (2 * k - 1) * D ^ 2) ∧
  (P ^ d + Q ^ d) ^ 2 * Q ^ (2 * k + 1) * D ^ 2 ≤ P ^ (2 * k + 1) * (P ^ d) ^ 2 * (D + 1) ^ 2

/-- parameters of the fixed-point check: base `P/Q`, tolerance `1/D`, fixed-point scale `E`
(a bound `a` for a quantity `x` means `a ≈ x·E`) -/
structure AccParams where
  P : Nat
  Q : Nat
  D : Nat
  E : Nat

namespace AccParams
variable (A : AccParams)

/-- side conditions on the parameters -/
structure Good : Prop where
  qpos : 0 < A.Q
  qleP : A.Q ≤ A.P
  epos : 0 < A.E

/-- `a` is a lower bound of `(Q/P)^n · E` -/
def LoB (n a : Nat) : Prop := a * A.P ^ n ≤ A.E * A.Q ^ n
/-- `a` is an upper bound of `(Q/P)^n · E` -/
def HiB (n a : Nat) : Prop := A.E * A.Q ^ n ≤ a * A.P ^ n

/-- product of two lower bounds, rounded down -/
def mulLo (a b : Nat) : Nat := a * b / A.E
/-- product of two upper bounds, rounded up -/
def mulHi (a b : Nat) : Nat := (a * b + (A.E - 1)) / A.E
/-- one more factor `Q/P`, rounded down / up -/
def stepLo (a : Nat) : Nat := a * A.Q / A.P
def stepHi (a : Nat) : Nat := (a * A.Q + (A.P - 1)) / A.P
/-- two factors `Q/P` fewer (multiplication by `P²/Q²`), rounded down / up -/
def backLo (a : Nat) : Nat := a * A.P ^ 2 / A.Q ^ 2
def backHi (a : Nat) : Nat := (a * A.P ^ 2 + (A.Q ^ 2 - 1)) / A.Q ^ 2

/-- lower bound of `(Q/P)^n · E`, binary exponentiation rounding down (`fuel` ≥ bit length of
`n`; with too little fuel the answer `0` is still a lower bound) -/
def powLo : Nat → Nat → Nat
  | 0, _ => 0
  | fuel + 1, n =>
    if n = 0 then A.E else
      let h := powLo fuel (n / 2)
      let s := A.mulLo h h
      if n % 2 = 1 then A.stepLo s else s

/-- upper bound of `(Q/P)^n · E`, rounding up (`E`, i.e. `1`, when the fuel runs out) -/
def powHi : Nat → Nat → Nat
  | 0, _ => A.E
  | fuel + 1, n =>
    if n = 0 then A.E else
      let h := powHi fuel (n / 2)
      let s := A.mulHi h h
      if n % 2 = 1 then A.stepHi s else s

def fuel : Nat := 64

/-- `(1 + u^d)² · u^(2k+1) · D² ≤ (D+1)²` with `u = Q/P`, given upper bounds `a` of `u^d` and
`c` of `u^(2k+1)` -/
def upperChk (a c : Nat) : Bool :=
  decide ((A.E + a) ^ 2 * c * A.D ^ 2 ≤ A.E ^ 3 * (A.D + 1) ^ 2)

/-- `(D−1)² ≤ (1 + u^d)² · u^(2k−1) · D²`, given lower bounds `a` of `u^d` and `c` of `u^(2k−1)` -/
def lowerChk (a c : Nat) : Bool :=
  decide (A.E ^ 3 * (A.D - 1) ^ 2 ≤ (A.E + a) ^ 2 * c * A.D ^ 2)

/-- the check of the implicit entry `0` at every distance `≥ d0`, bounds computed from scratch -/
def upperOK0 (d0 : Nat) : Bool := A.upperChk (A.powHi fuel d0) (A.powHi fuel 1)

/-- The accuracy check over a run list whose first run starts at distance `d0` and must have
the value `k`; `aLo`/`aHi` bound `u^d0`, `cLo`/`cHi` bound `u^(2k+1)`.  Upper bound at the first,
lower bound at the last distance of the run; the next run must have the value `k − 1`, its
bounds are obtained incrementally.  A run of zeros must be the last one (it also covers every
distance beyond the table); if the last run is not zero the implicit entry `0` is checked at the
first distance beyond the table. -/
def stepRuns (d0 aLo aHi k cLo cHi : Nat) : List (Nat × Nat) → Bool
  | [] => A.upperOK0 d0
  | (k', n) :: rest =>
    k' == k && decide (0 < n) && A.upperChk aHi cHi &&
    match k with
    | 0 => rest.isEmpty
    | k1 + 1 =>
      let eLo := A.mulLo aLo (A.powLo fuel (n - 1))
      let eHi := A.mulHi aHi (A.powHi fuel (n - 1))
      let gLo := A.backLo cLo
      A.lowerChk eLo gLo &&
      stepRuns (d0 + n) (A.stepLo eLo) (A.stepHi eHi) k1 gLo (A.backHi cHi) rest

/-- the whole check: initial bounds from scratch -/
def checkRuns (runs : List (Nat × Nat)) : Bool :=
  let k := headVal runs
  A.stepRuns 0 A.E A.E k (A.powLo fuel (2 * k + 1)) (A.powHi fuel (2 * k + 1)) runs

variable {A}

theorem Good.ppos (g : A.Good) : 0 < A.P := Nat.lt_of_lt_of_le g.qpos g.qleP

theorem le_ceilDiv_mul (x k : Nat) (hk : 0 < k) : x ≤ (x + (k - 1)) / k * k := by
  have h1 := Nat.div_add_mod (x + (k - 1)) k
  have h2 := Nat.mod_lt (x + (k - 1)) hk
  have h3 : k * ((x + (k - 1)) / k) = (x + (k - 1)) / k * k := Nat.mul_comm _ _
  omega

theorem loB_zero (_g : A.Good) : A.LoB 0 A.E := by simp [LoB]
theorem hiB_zero (_g : A.Good) : A.HiB 0 A.E := by simp [HiB]
theorem loB_nil (n : Nat) : A.LoB n 0 := by simp [LoB]
theorem hiB_one (g : A.Good) (n : Nat) : A.HiB n A.E :=
  Nat.mul_le_mul_left _ (Nat.pow_le_pow_left g.qleP n)

theorem mulLo_sound (g : A.Good) {i j a b : Nat} (ha : A.LoB i a) (hb : A.LoB j b) :
    A.LoB (i + j) (A.mulLo a b) := by
  unfold LoB mulLo at *
  have hs : a * b / A.E * A.E ≤ a * b := Nat.div_mul_le_self _ _
  apply Nat.le_of_mul_le_mul_right (c := A.E) _ g.epos
  rw [Nat.pow_add, Nat.pow_add]
  calc a * b / A.E * (A.P ^ i * A.P ^ j) * A.E
      = (a * b / A.E * A.E) * (A.P ^ i * A.P ^ j) := by ac_rfl
    _ ≤ (a * b) * (A.P ^ i * A.P ^ j) := Nat.mul_le_mul_right _ hs
    _ = (a * A.P ^ i) * (b * A.P ^ j) := by ac_rfl
    _ ≤ (A.E * A.Q ^ i) * (A.E * A.Q ^ j) := Nat.mul_le_mul ha hb
    _ = A.E * (A.Q ^ i * A.Q ^ j) * A.E := by ac_rfl

theorem mulHi_sound (g : A.Good) {i j a b : Nat} (ha : A.HiB i a) (hb : A.HiB j b) :
    A.HiB (i + j) (A.mulHi a b) := by
  unfold HiB mulHi at *
  have hs : a * b ≤ (a * b + (A.E - 1)) / A.E * A.E := le_ceilDiv_mul _ _ g.epos
  apply Nat.le_of_mul_le_mul_right (c := A.E) _ g.epos
  rw [Nat.pow_add, Nat.pow_add]
  calc A.E * (A.Q ^ i * A.Q ^ j) * A.E
      = (A.E * A.Q ^ i) * (A.E * A.Q ^ j) := by ac_rfl
    _ ≤ (a * A.P ^ i) * (b * A.P ^ j) := Nat.mul_le_mul ha hb
    _ = (a * b) * (A.P ^ i * A.P ^ j) := by ac_rfl
    _ ≤ ((a * b + (A.E - 1)) / A.E * A.E) * (A.P ^ i * A.P ^ j) := Nat.mul_le_mul_right _ hs
    _ = (a * b + (A.E - 1)) / A.E * (A.P ^ i * A.P ^ j) * A.E := by ac_rfl

theorem stepLo_sound {i a : Nat} (ha : A.LoB i a) : A.LoB (i + 1) (A.stepLo a) := by
  unfold LoB stepLo at *
  have hq : a * A.Q / A.P * A.P ≤ a * A.Q := Nat.div_mul_le_self _ _
  rw [Nat.pow_succ, Nat.pow_succ]
  calc a * A.Q / A.P * (A.P ^ i * A.P)
      = (a * A.Q / A.P * A.P) * A.P ^ i := by ac_rfl
    _ ≤ (a * A.Q) * A.P ^ i := Nat.mul_le_mul_right _ hq
    _ = (a * A.P ^ i) * A.Q := by ac_rfl
    _ ≤ (A.E * A.Q ^ i) * A.Q := Nat.mul_le_mul_right _ ha
    _ = A.E * (A.Q ^ i * A.Q) := by ac_rfl

theorem stepHi_sound (g : A.Good) {i a : Nat} (ha : A.HiB i a) : A.HiB (i + 1) (A.stepHi a) := by
  unfold HiB stepHi at *
  have hq : a * A.Q ≤ (a * A.Q + (A.P - 1)) / A.P * A.P := le_ceilDiv_mul _ _ g.ppos
  rw [Nat.pow_succ, Nat.pow_succ]
  calc A.E * (A.Q ^ i * A.Q)
      = (A.E * A.Q ^ i) * A.Q := by ac_rfl
    _ ≤ (a * A.P ^ i) * A.Q := Nat.mul_le_mul_right _ ha
    _ = (a * A.Q) * A.P ^ i := by ac_rfl
    _ ≤ ((a * A.Q + (A.P - 1)) / A.P * A.P) * A.P ^ i := Nat.mul_le_mul_right _ hq
    _ = (a * A.Q + (A.P - 1)) / A.P * (A.P ^ i * A.P) := by ac_rfl

theorem backLo_sound (g : A.Good) {m a : Nat} (ha : A.LoB (m + 2) a) : A.LoB m (A.backLo a) := by
  unfold LoB backLo at *
  have hq : a * A.P ^ 2 / A.Q ^ 2 * A.Q ^ 2 ≤ a * A.P ^ 2 := Nat.div_mul_le_self _ _
  rw [Nat.pow_add, Nat.pow_add] at ha
  apply Nat.le_of_mul_le_mul_right (c := A.Q ^ 2) _ (Nat.pow_pos g.qpos)
  calc a * A.P ^ 2 / A.Q ^ 2 * A.P ^ m * A.Q ^ 2
      = (a * A.P ^ 2 / A.Q ^ 2 * A.Q ^ 2) * A.P ^ m := by ac_rfl
    _ ≤ (a * A.P ^ 2) * A.P ^ m := Nat.mul_le_mul_right _ hq
    _ = a * (A.P ^ m * A.P ^ 2) := by ac_rfl
    _ ≤ A.E * (A.Q ^ m * A.Q ^ 2) := ha
    _ = A.E * A.Q ^ m * A.Q ^ 2 := by ac_rfl

theorem backHi_sound (g : A.Good) {m a : Nat} (ha : A.HiB (m + 2) a) : A.HiB m (A.backHi a) := by
  unfold HiB backHi at *
  have hq : a * A.P ^ 2 ≤ (a * A.P ^ 2 + (A.Q ^ 2 - 1)) / A.Q ^ 2 * A.Q ^ 2 :=
    le_ceilDiv_mul _ _ (Nat.pow_pos g.qpos)
  rw [Nat.pow_add, Nat.pow_add] at ha
  apply Nat.le_of_mul_le_mul_right (c := A.Q ^ 2) _ (Nat.pow_pos g.qpos)
  calc A.E * A.Q ^ m * A.Q ^ 2
      = A.E * (A.Q ^ m * A.Q ^ 2) := by ac_rfl
    _ ≤ a * (A.P ^ m * A.P ^ 2) := ha
    _ = (a * A.P ^ 2) * A.P ^ m := by ac_rfl
    _ ≤ ((a * A.P ^ 2 + (A.Q ^ 2 - 1)) / A.Q ^ 2 * A.Q ^ 2) * A.P ^ m := Nat.mul_le_mul_right _ hq
    _ = (a * A.P ^ 2 + (A.Q ^ 2 - 1)) / A.Q ^ 2 * A.P ^ m * A.Q ^ 2 := by ac_rfl

theorem powLo_sound (g : A.Good) (fuel n : Nat) : A.LoB n (A.powLo fuel n) := by
  induction fuel generalizing n with
  | zero => exact loB_nil n
  | succ f ih =>
    unfold powLo
    by_cases h0 : n = 0
    · subst h0; rw [if_pos rfl]; exact loB_zero g
    · rw [if_neg h0]
      simp only []
      have hm := mulLo_sound g (ih (n / 2)) (ih (n / 2))
      generalize hmd : n / 2 = m at *
      by_cases hodd : n % 2 = 1
      · rw [if_pos hodd]
        have hn : n = m + m + 1 := by omega
        subst hn
        exact stepLo_sound hm
      · rw [if_neg hodd]
        have hn : n = m + m := by omega
        subst hn
        exact hm

theorem powHi_sound (g : A.Good) (fuel n : Nat) : A.HiB n (A.powHi fuel n) := by
  induction fuel generalizing n with
  | zero => exact hiB_one g n
  | succ f ih =>
    unfold powHi
    by_cases h0 : n = 0
    · subst h0; rw [if_pos rfl]; exact hiB_zero g
    · rw [if_neg h0]
      simp only []
      have hm := mulHi_sound g (ih (n / 2)) (ih (n / 2))
      generalize hmd : n / 2 = m at *
      by_cases hodd : n % 2 = 1
      · rw [if_pos hodd]
        have hn : n = m + m + 1 := by omega
        subst hn
        exact stepHi_sound g hm
      · rw [if_neg hodd]
        have hn : n = m + m := by omega
        subst hn
        exact hm

/-- an upper bound of `u^d0` bounds `u^d` for every later `d` -/
theorem hi_lift (g : A.Good) {a d0 d : Nat} (h : A.HiB d0 a) (hd : d0 ≤ d) : A.HiB d a := by
  unfold HiB at *
  obtain ⟨j, rfl⟩ := Nat.exists_eq_add_of_le hd
  rw [Nat.pow_add, Nat.pow_add]
  calc A.E * (A.Q ^ d0 * A.Q ^ j) = (A.E * A.Q ^ d0) * A.Q ^ j := by ac_rfl
    _ ≤ (a * A.P ^ d0) * A.P ^ j := Nat.mul_le_mul h (Nat.pow_le_pow_left g.qleP j)
    _ = a * (A.P ^ d0 * A.P ^ j) := by ac_rfl

/-- a lower bound of `u^d1` bounds `u^d` for every earlier `d` -/
theorem lo_lift (g : A.Good) {a d1 d : Nat} (h : A.LoB d1 a) (hd : d ≤ d1) : A.LoB d a := by
  unfold LoB at *
  obtain ⟨j, rfl⟩ := Nat.exists_eq_add_of_le hd
  rw [Nat.pow_add, Nat.pow_add] at h
  apply Nat.le_of_mul_le_mul_right (c := A.P ^ j) _ (Nat.pow_pos g.ppos)
  calc a * A.P ^ d * A.P ^ j = a * (A.P ^ d * A.P ^ j) := by ac_rfl
    _ ≤ A.E * (A.Q ^ d * A.Q ^ j) := h
    _ = (A.E * A.Q ^ d) * A.Q ^ j := by ac_rfl
    _ ≤ (A.E * A.Q ^ d) * A.P ^ j := Nat.mul_le_mul_left _ (Nat.pow_le_pow_left g.qleP j)

theorem upper_alg {E X Y a c Pk Qk D : Nat} (hE : 0 < E) (hA : E * Y ≤ a * X) (hC : E * Qk ≤ c * Pk)
    (hchk : (E + a) ^ 2 * c * D ^ 2 ≤ E ^ 3 * (D + 1) ^ 2) :
    (X + Y) ^ 2 * Qk * D ^ 2 ≤ Pk * X ^ 2 * (D + 1) ^ 2 := by
  apply Nat.le_of_mul_le_mul_left (c := E ^ 3) _ (Nat.pow_pos hE)
  have h1 : E * (X + Y) ≤ (E + a) * X := by
    rw [Nat.mul_add, Nat.add_mul]; exact Nat.add_le_add_left hA _
  calc E ^ 3 * ((X + Y) ^ 2 * Qk * D ^ 2)
      = (E * (X + Y)) ^ 2 * (E * Qk) * D ^ 2 := by simp only [Nat.pow_succ, Nat.pow_zero, Nat.one_mul]; ac_rfl
    _ ≤ ((E + a) * X) ^ 2 * (c * Pk) * D ^ 2 :=
        Nat.mul_le_mul_right _ (Nat.mul_le_mul (Nat.pow_le_pow_left h1 2) hC)
    _ = ((E + a) ^ 2 * c * D ^ 2) * (X ^ 2 * Pk) := by simp only [Nat.pow_succ, Nat.pow_zero, Nat.one_mul]; ac_rfl
    _ ≤ (E ^ 3 * (D + 1) ^ 2) * (X ^ 2 * Pk) := Nat.mul_le_mul_right _ hchk
    _ = E ^ 3 * (Pk * X ^ 2 * (D + 1) ^ 2) := by ac_rfl

theorem lower_alg {E X Y a c Pk Qk D D' : Nat} (hE : 0 < E) (hA : a * X ≤ E * Y) (hC : c * Pk ≤ E * Qk)
    (hchk : E ^ 3 * D' ^ 2 ≤ (E + a) ^ 2 * c * D ^ 2) :
    Pk * X ^ 2 * D' ^ 2 ≤ (X + Y) ^ 2 * Qk * D ^ 2 := by
  apply Nat.le_of_mul_le_mul_left (c := E ^ 3) _ (Nat.pow_pos hE)
  have h1 : (E + a) * X ≤ E * (X + Y) := by
    rw [Nat.mul_add, Nat.add_mul]; exact Nat.add_le_add_left hA _
  calc E ^ 3 * (Pk * X ^ 2 * D' ^ 2)
      = (E ^ 3 * D' ^ 2) * (X ^ 2 * Pk) := by ac_rfl
    _ ≤ ((E + a) ^ 2 * c * D ^ 2) * (X ^ 2 * Pk) := Nat.mul_le_mul_right _ hchk
    _ = ((E + a) * X) ^ 2 * (c * Pk) * D ^ 2 := by simp only [Nat.pow_succ, Nat.pow_zero, Nat.one_mul]; ac_rfl
    _ ≤ (E * (X + Y)) ^ 2 * (E * Qk) * D ^ 2 :=
        Nat.mul_le_mul_right _ (Nat.mul_le_mul (Nat.pow_le_pow_left h1 2) hC)
    _ = E ^ 3 * ((X + Y) ^ 2 * Qk * D ^ 2) := by simp only [Nat.pow_succ, Nat.pow_zero, Nat.one_mul]; ac_rfl

/-- upper half of `AccAt` at every distance from `d0` on -/
theorem upperChk_sound (g : A.Good) {d0 k a c : Nat} (ha : A.HiB d0 a) (hc : A.HiB (2 * k + 1) c)
    (h : A.upperChk a c = true) {d : Nat} (hd : d0 ≤ d) :
    (A.P ^ d + A.Q ^ d) ^ 2 * A.Q ^ (2 * k + 1) * A.D ^ 2 ≤ A.P ^ (2 * k + 1) * (A.P ^ d) ^ 2 * (A.D + 1) ^ 2 := by
  unfold upperChk at h
  exact upper_alg g.epos (hi_lift g ha hd) hc (of_decide_eq_true h)

/-- lower half of `AccAt` at every distance up to `d1` -/
theorem lowerChk_sound (g : A.Good) {d1 k a c : Nat} (ha : A.LoB d1 a) (hc : A.LoB (2 * k - 1) c)
    (h : A.lowerChk a c = true) {d : Nat} (hd : d ≤ d1) :
    A.P ^ (2 * k - 1) * (A.P ^ d) ^ 2 * (A.D - 1) ^ 2 ≤ (A.P ^ d + A.Q ^ d) ^ 2 * A.Q ^ (2 * k - 1) * A.D ^ 2 := by
  unfold lowerChk at h
  exact lower_alg g.epos (lo_lift g ha hd) hc (of_decide_eq_true h)

theorem stepRuns_sound (g : A.Good) {runs : List (Nat × Nat)} {d0 aLo aHi k cLo cHi : Nat}
    (hal : A.LoB d0 aLo) (hah : A.HiB d0 aHi) (hcl : A.LoB (2 * k + 1) cLo) (hch : A.HiB (2 * k + 1) cHi)
    (h : A.stepRuns d0 aLo aHi k cLo cHi runs = true) (d : Nat) :
    AccAt A.P A.Q A.D (d0 + d) ((expand runs).getD d 0) := by
  induction runs generalizing d0 aLo aHi k cLo cHi d with
  | nil =>
    simp only [stepRuns, upperOK0] at h
    simp only [expand, List.getD_eq_getElem?_getD, List.getElem?_nil, Option.getD_none]
    exact ⟨fun hk => absurd hk (by decide),
      upperChk_sound (k := 0) g (powHi_sound g fuel d0) (powHi_sound g fuel 1) h (Nat.le_add_right _ _)⟩
  | cons r rest ih =>
    obtain ⟨k', n⟩ := r
    rw [getD_expand_cons]
    cases k with
    | zero =>
      -- a run of zeros is the last one and extends beyond the table
      simp only [stepRuns, Bool.and_eq_true, decide_eq_true_eq, beq_iff_eq, List.isEmpty_iff] at h
      obtain ⟨⟨⟨hk, hn⟩, hu⟩, hm⟩ := h
      subst hk
      subst hm
      have hup := upperChk_sound (k := 0) g hah hch hu (d := d0 + d) (Nat.le_add_right _ _)
      have e : (if d < n then 0 else (expand []).getD (d - n) 0) = 0 := by
        split
        · rfl
        · simp [expand]
      rw [e]
      exact ⟨fun hk => absurd hk (by decide), hup⟩
    | succ k1 =>
      simp only [stepRuns, Bool.and_eq_true, decide_eq_true_eq, beq_iff_eq] at h
      obtain ⟨⟨⟨hk, hn⟩, hu⟩, hl, hr⟩ := h
      subst hk
      have heLo : A.LoB (d0 + (n - 1)) (A.mulLo aLo (A.powLo fuel (n - 1))) :=
        mulLo_sound g hal (powLo_sound g fuel (n - 1))
      have heHi : A.HiB (d0 + (n - 1)) (A.mulHi aHi (A.powHi fuel (n - 1))) :=
        mulHi_sound g hah (powHi_sound g fuel (n - 1))
      have e2 : 2 * (k1 + 1) + 1 = (2 * k1 + 1) + 2 := by omega
      have hgLo : A.LoB (2 * k1 + 1) (A.backLo cLo) := backLo_sound g (e2 ▸ hcl)
      have hgHi : A.HiB (2 * k1 + 1) (A.backHi cHi) := backHi_sound g (e2 ▸ hch)
      by_cases c : d < n
      · rw [if_pos c]
        refine ⟨fun _ => ?_, upperChk_sound g hah hch hu (Nat.le_add_right _ _)⟩
        have e3 : 2 * (k1 + 1) - 1 = 2 * k1 + 1 := by omega
        exact lowerChk_sound g heLo (e3 ▸ hgLo) hl (by omega)
      · rw [if_neg c]
        have e4 : d0 + (n - 1) + 1 = d0 + n := by omega
        have := ih (e4 ▸ stepLo_sound heLo) (e4 ▸ stepHi_sound g heHi) hgLo hgHi hr (d - n)
        have e : d0 + n + (d - n) = d0 + d := by omega
        rw [e] at this
        exact this

/-- **soundness of the accuracy check**: a `true` answer gives the exact statement at every
distance, inside the table and beyond it -/
theorem checkRuns_sound (g : A.Good) {runs : List (Nat × Nat)} (h : A.checkRuns runs = true) (d : Nat) :
    AccAt A.P A.Q A.D d ((expand runs).getD d 0) := by
  unfold checkRuns at h
  have := stepRuns_sound g (loB_zero g) (hiB_zero g) (powLo_sound g fuel _) (powHi_sound g fuel _) h d
  rwa [Nat.zero_add] at this

end AccParams

end SSVerif.LogAdd
