import SSVerif.Proofs.LexCover
/-!
# Every alignment of the flat network is an alignment of the lextree network (C02, the converse direction, certificate-free)

Forward induction over a path of the flat network.  The look-ahead problem here: the root pnode that `C02_flat_instances_in_lextree`
gives for a word-initial instance `R` is stated per pair (`R`, word-final instance `L`), and `L` is only known when the path reaches
the end of the word.  The invariant therefore says: *for every* word-final instance `L` of the arc (the one the path is in, once it
is in one) and *every* root-to-leaf pnode path `q` that is a witness for (`R`, `L`) (`Wit`), the lextree network has a path with the
same score to the pnode `q x.pos`.  `RIface` is the interface (families of instances per word arc, a witness for every pair);
`Proofs/LexCoverBuild.lean` derives it for `buildLexTree`.  Core Lean only.
-/
namespace SSVerif.LexCover
open SSVerif.Search SSVerif.Hist SSVerif.Hmm SSVerif.Viterbi SSVerif.FlatNet SSVerif.SearchScore
open SSVerif.Generated.Search (ctxtBvsz)

/-! ### membership in the flat network, elimination forms with all components -/

section Flat
variable {M : Model} {tmat : Nat → List Nat} {insts : Array Inst}

theorem flat_edge_elim {e : Nat × Nat × Int} (he : e ∈ (buildFrom M tmat insts).toNet.edges) :
    (∃ x hi, (x, hi) ∈ insts.toList.zipIdx ∧ e ∈ hmmEdges (tmat x.tmat) hi) ∨
    (∃ x hi x' hi' k cx, (x, hi) ∈ insts.toList.zipIdx ∧ (x', hi') ∈ insts.toList.zipIdx ∧ x.isLeaf = false ∧ x'.arc = x.arc ∧
      x'.pos = x.pos + 1 ∧ (k, cx) ∈ hmmExits (tmat x.tmat) ∧ e = (st hi k, st hi' 0, cx + x'.entry)) ∨
    (∃ x hi x' hi' hop k cx, (x, hi) ∈ insts.toList.zipIdx ∧ (x', hi') ∈ insts.toList.zipIdx ∧ x.isLeaf = true ∧ x'.isRoot = true ∧
      (x'.lc = none ∨ x'.lc = some x.ciExt) ∧ (x.rc = none ∨ x.rc = some x'.ciExt) ∧ hop ∈ hops M x.dst x'.src ∧
      (k, cx) ∈ hmmExits (tmat x.tmat) ∧ e = (st hi k, st hi' 0, cx + hop + x'.entry)) := by
  have he' : e ∈ (buildFrom M tmat insts).inner ++ (buildFrom M tmat insts).cross := he
  rcases List.mem_append.1 he' with he | he
  · simp only [buildFrom] at he
    rcases List.mem_append.1 he with he | he
    · obtain ⟨⟨x, hi⟩, hm, hin⟩ := List.mem_flatMap.1 he
      exact Or.inl ⟨x, hi, hm, hin⟩
    · obtain ⟨⟨x, hi⟩, hm, hin⟩ := List.mem_flatMap.1 he
      simp only at hin
      split at hin
      · cases hin
      · rename_i hl
        obtain ⟨⟨x', hi'⟩, hm', hin'⟩ := List.mem_flatMap.1 hin
        simp only at hin'
        split at hin'
        · rename_i hc
          obtain ⟨⟨k, cx⟩, hk, heq⟩ := List.mem_map.1 hin'
          exact Or.inr (Or.inl ⟨x, hi, x', hi', k, cx, hm, hm', by simpa using hl, hc.1, hc.2, hk, heq.symm⟩)
        · cases hin'
  · simp only [buildFrom] at he
    obtain ⟨⟨x, hi⟩, hm, hin⟩ := List.mem_flatMap.1 he
    simp only at hin
    split at hin
    · cases hin
    · rename_i hl
      obtain ⟨⟨x', hi'⟩, hm', hin'⟩ := List.mem_flatMap.1 hin
      simp only at hin'
      split at hin'
      · rename_i hc
        obtain ⟨hop, hh, hin''⟩ := List.mem_flatMap.1 hin'
        obtain ⟨⟨k, cx⟩, hk, heq⟩ := List.mem_map.1 hin''
        exact Or.inr (Or.inr ⟨x, hi, x', hi', hop, k, cx, hm, hm', by simpa using hl, hc.1, hc.2.1, hc.2.2, hh, hk, heq.symm⟩)
      · cases hin'

theorem flat_init_elim {e : Nat × Int} (he : e ∈ (buildFrom M tmat insts).toNet.init) :
    ∃ x' hi' hop, (x', hi') ∈ insts.toList.zipIdx ∧ x'.isRoot = true ∧ (x'.lc = none ∨ x'.lc = some M.sil) ∧
      hop ∈ hops M M.start x'.src ∧ e = (st hi' 0, hop + x'.entry) := by
  have he' : e ∈ (buildFrom M tmat insts).init := he
  simp only [buildFrom] at he'
  obtain ⟨⟨x', hi'⟩, hm', hin'⟩ := List.mem_flatMap.1 he'
  simp only at hin'
  split at hin'
  · rename_i hc
    obtain ⟨hop, hh, heq⟩ := List.mem_map.1 hin'
    exact ⟨x', hi', hop, hm', hc.1, hc.2, hh, heq.symm⟩
  · cases hin'

theorem flat_exit_elim {e : Nat × Int} (he : e ∈ (buildFrom M tmat insts).toNet.exits) :
    ∃ x hi hop k cx, (x, hi) ∈ insts.toList.zipIdx ∧ x.isLeaf = true ∧ hop ∈ hops M x.dst M.final ∧
      (k, cx) ∈ hmmExits (tmat x.tmat) ∧ e = (st hi k, cx + hop) := by
  have he' : e ∈ (buildFrom M tmat insts).exits := he
  simp only [buildFrom] at he'
  obtain ⟨⟨x, hi⟩, hm, hin⟩ := List.mem_flatMap.1 he'
  simp only at hin
  split at hin
  · rename_i hl
    obtain ⟨hop, hh, hin'⟩ := List.mem_flatMap.1 hin
    obtain ⟨⟨k, cx⟩, hk, heq⟩ := List.mem_map.1 hin'
    exact ⟨x, hi, hop, k, cx, hm, hl, hh, hk, heq.symm⟩
  · cases hin

theorem zipIdx_inj {x x' : Inst} {hi : Nat} (h : (x, hi) ∈ insts.toList.zipIdx) (h' : (x', hi) ∈ insts.toList.zipIdx) : x = x' := by
  rw [← (idx_get h).1, (idx_get h').1]

end Flat

/-! ### pnodes on a path are real pnodes -/

theorem lt_of_leaf {E : Env} {p : Nat} (hl : (E.node p).leaf = true) : p < E.n := by
  rcases Nat.lt_or_ge p E.n with h1 | h1
  · exact h1
  · unfold Env.node LexTree.node at hl
    rw [Array.getD_eq_getD_getElem?, Array.getElem?_eq_none h1] at hl
    simp at hl

theorem lt_of_child {E : Env} {p c : Nat} (h : c ∈ E.lt.children p) : p < E.n := by
  rcases Nat.lt_or_ge p E.n with h1 | h1
  · exact h1
  · unfold LexTree.children LexTree.node at h
    rw [Array.getD_eq_getD_getElem?, Array.getElem?_eq_none h1] at h
    simp only [Option.getD_none, Bool.false_eq_true, if_false] at h
    cases hz : E.lt.nodes.size with
    | zero => rw [hz] at h; simp [LexTree.chain] at h
    | succ n => rw [hz] at h; simp [LexTree.chain] at h

/-! ### the interface -/

/-- the parameters of instance `x` are those of pnode `p` -/
def Par (E : Env) (p : Nat) (x : Inst) : Prop :=
  x.ssid = (E.node p).ssid ∧ x.tmat = (E.node p).tmatid ∧ x.entry = (E.node p).logs2prob

/-- `q 0 → … → q m` is a root-to-leaf pnode path for the word-initial instance `R` and the word-final instance `L` of the
family `A` (the instances of one word arc) -/
structure Wit (E : Env) (A : List Inst) (R L : Inst) (m : Nat) (q : Nat → Nat) : Prop where
  root : q 0 ∈ E.lt.roots R.src
  chain : ∀ j, j < m → q (j + 1) ∈ E.lt.children (q j)
  leaf : (E.node (q m)).leaf = true
  parR : Par E (q 0) R
  parL : Par E (q m) L
  parI : ∀ x ∈ A, x.isRoot = false → x.isLeaf = false → Par E (q x.pos) x
  ciR : (E.node (q 0)).ciExt = R.ciExt
  ciL : (E.node (q m)).ciExt = L.ciExt
  lcbit : ∀ c, c < 32 * ctxtBvsz → (R.lc = none ∨ R.lc = some c) → (E.node (q 0)).ctxt.testBit c = true
  rcOK : ∀ c, c < 32 * ctxtBvsz → (L.rc = none ∨ L.rc = some c) → c ∈ rcOf E (q m)
  dst : dstOf E (q m) = L.dst

/-- the instances of one word arc with `m + 1` phones -/
structure FamOK (E : Env) (insts : Array Inst) (A : List Inst) (m : Nat) : Prop where
  closed : ∀ y ∈ A, ∀ z hz, (z, hz) ∈ insts.toList.zipIdx → z.arc = y.arc → z ∈ A
  rootPos : ∀ y ∈ A, y.isRoot = true → y.pos = 0
  posRoot : ∀ y ∈ A, y.pos = 0 → y.isRoot = true
  leafPos : ∀ y ∈ A, y.isLeaf = true → y.pos = m
  posLeaf : ∀ y ∈ A, y.pos = m → y.isLeaf = true
  intPos : ∀ y ∈ A, y.isRoot = false → y.isLeaf = false → 1 ≤ y.pos ∧ y.pos < m
  ciLt : ∀ y ∈ A, y.ciExt < 32 * ctxtBvsz
  wit : ∀ R ∈ A, R.isRoot = true → ∀ L ∈ A, L.isLeaf = true → (m = 0 → L = R) → ∃ q, Wit E A R L m q

structure RIface (E : Env) (M : Model) (insts : Array Inst) : Prop where
  fam : ∀ x hi, (x, hi) ∈ insts.toList.zipIdx → ∃ A m, x ∈ A ∧ FamOK E insts A m
  reach : ∀ s d hop, hop ∈ hops M s d → (d, hop) ∈ reach E.g s
  start : E.g.start = M.start
  final : E.g.final = M.final
  sil : E.sil = M.sil
  silLt : E.sil < 32 * ctxtBvsz

def RInv (E : Env) (insts : Array Inst) (e : Nat → Nat → Nat → Int) (t s2 : Nat) (v : Int) : Prop :=
  ∃ (x : Inst) (hi k : Nat) (A : List Inst) (m : Nat) (R : Inst), s2 = st hi k ∧ k < 3 ∧ (x, hi) ∈ insts.toList.zipIdx ∧
    FamOK E insts A m ∧ x ∈ A ∧ R ∈ A ∧ R.isRoot = true ∧ (x.isRoot = true → x = R) ∧
    ∀ L ∈ A, L.isLeaf = true → (x.isLeaf = true → L = x) → ∀ q, Wit E A R L m q →
      PathTo (treeNet E) (treeEm E e) t (st (q x.pos) k) v

theorem mem_allCtx {c : Nat} (h : c < 32 * ctxtBvsz) : c ∈ allCtx := List.mem_range.2 h

theorem admits_of {E : Env} {lc : Nat} {rc : List Nat} {r : Nat} (h1 : (E.node r).ctxt.testBit lc = true) (h2 : (E.node r).ciExt ∈ rc) :
    admits E lc rc r = true := by
  unfold admits
  simp only [Bool.and_eq_true, List.contains_iff_mem]
  exact ⟨h1, h2⟩

/-- the pnode of position `x.pos` on a witness path has the parameters of `x` -/
theorem wit_par {E : Env} {insts : Array Inst} {A : List Inst} {m : Nat} (F : FamOK E insts A m) {R L x : Inst} {q : Nat → Nat}
    (W : Wit E A R L m q) (hx : x ∈ A) (hxR : x.isRoot = true → x = R) (hxL : x.isLeaf = true → L = x) : Par E (q x.pos) x := by
  cases hr : x.isRoot with
  | true => have := hxR hr; subst this; rw [F.rootPos x hx hr]; exact W.parR
  | false =>
    cases hl : x.isLeaf with
    | true => have := hxL hl; subst this; rw [F.leafPos L hx hl]; exact W.parL
    | false => exact W.parI x hx hr hl

theorem wit_lt {E : Env} {A : List Inst} {m : Nat} {R L : Inst} {q : Nat → Nat} (W : Wit E A R L m q) {j : Nat} (hj : j ≤ m) : q j < E.n := by
  rcases Nat.lt_or_ge j m with h | h
  · exact lt_of_child (W.chain j h)
  · have : j = m := by omega
    rw [this]; exact lt_of_leaf W.leaf

theorem fam_pos_le {E : Env} {insts : Array Inst} {A : List Inst} {m : Nat} (F : FamOK E insts A m) {x : Inst} (hx : x ∈ A) : x.pos ≤ m := by
  cases hr : x.isRoot with
  | true => rw [F.rootPos x hx hr]; omega
  | false =>
    cases hl : x.isLeaf with
    | true => rw [F.leafPos x hx hl]; omega
    | false => have := (F.intPos x hx hr hl).2; omega

/-! ### the induction -/

theorem rpath_sim {E : Env} {M : Model} {insts : Array Inst} (I : RIface E M insts) (e : Nat → Nat → Nat → Int) :
    ∀ {t s : Nat} {v : Int}, PathTo (buildFrom M E.tmat insts).toNet (flatEm insts e) t s v → RInv E insts e t s v := by
  intro t s v h
  induction h with
  | @start s c hin =>
    obtain ⟨x', hi', hop, hm', hr, hlc, hh, heq⟩ := flat_init_elim hin
    simp only [Prod.mk.injEq] at heq
    obtain ⟨rfl, rfl⟩ := heq
    obtain ⟨A, m, hxA, F⟩ := I.fam x' hi' hm'
    refine ⟨x', hi', 0, A, m, x', rfl, by omega, hm', F, hxA, hxA, hr, fun _ => rfl, ?_⟩
    intro L hL hLl hLx q W
    rw [F.rootPos x' hxA hr, W.parR.2.2]
    refine PathTo.start (mem_init.2 ⟨x'.src, hop, ?_, q 0, W.root, ?_, rfl, rfl⟩)
    · rw [I.start]; exact I.reach _ _ _ hh
    · exact admits_of (W.lcbit E.sil I.silLt (by rw [I.sil]; exact hlc)) (by rw [W.ciR]; exact mem_allCtx (F.ciLt x' hxA))
  | @step t i j c sc hp he ih =>
    obtain ⟨x, hi, k, A, m, R, hi_eq, hk, hm, F, hxA, hRA, hRr, hxR, hall⟩ := ih
    rcases flat_edge_elim he with ⟨x2, hi2, hm2, hin⟩ | ⟨x2, hi2, x', hi', k2, cx, hm2, hm', hl2, harc, hpos, hkx, heq⟩ |
      ⟨x2, hi2, x', hi', hop, k2, cx, hm2, hm', hl2, hr', hlc, hrc, hh, hkx, heq⟩
    · -- inside one HMM
      obtain ⟨a, b, ha, hb, e1, e2⟩ := hmmEdges_st hin
      simp only at e1 e2
      obtain ⟨hhi, hka⟩ := st_inj hk ha (hi_eq.symm.trans e1)
      subst hka; subst hhi
      have hxx : x2 = x := zipIdx_inj hm2 hm
      subst hxx
      refine ⟨x2, hi, b, A, m, R, e2, hb, hm, F, hxA, hRA, hRr, hxR, ?_⟩
      intro L hL hLl hLx q W
      have hpth := hall L hL hLl hLx q W
      have par := wit_par F W hxA hxR hLx
      have hin' : (st hi k, st hi b, c) ∈ hmmEdges (E.tmat x2.tmat) hi := by rw [← e1, ← e2]; exact hin
      have htm : E.tp (q x2.pos) = E.tmat x2.tmat := by rw [par.2.1]; rfl
      have hem : flatEm insts e t i = treeEm E e t (st (q x2.pos) k) := by
        rw [hi_eq, treeEm_st _ _ _ _ _ hk, flatEm_st e t hm k hk, par.1]
      rw [hem]
      exact PathTo.step hpth (mem_edges.2 (Or.inl ⟨q x2.pos, wit_lt W (fam_pos_le F hxA), by
        rw [htm]; exact hmmEdges_move (E.tmat x2.tmat) hk hb hin'⟩))
    · -- to the next phone of the word
      simp only [Prod.mk.injEq] at heq
      obtain ⟨h1, h2, h3⟩ := heq
      obtain ⟨hhi, hka⟩ := st_inj hk (SSVerif.FlatNet.hmmExits_lt hkx) (hi_eq.symm.trans h1)
      subst hka; subst hhi
      have hxx : x2 = x := zipIdx_inj hm2 hm
      subst hxx
      have hx'A : x' ∈ A := F.closed x2 hxA x' hi' hm' harc
      have hx'r : x'.isRoot = false := by
        cases hr : x'.isRoot with
        | false => rfl
        | true => have := F.rootPos x' hx'A hr; omega
      refine ⟨x', hi', 0, A, m, R, h2, by omega, hm', F, hx'A, hRA, hRr, (fun h => by rw [hx'r] at h; cases h), ?_⟩
      intro L hL hLl hLx' q W
      have hxl : x2.isLeaf = true → L = x2 := fun h => by rw [hl2] at h; cases h
      have hpth := hall L hL hLl hxl q W
      have par := wit_par F W hxA hxR hxl
      have par' := wit_par F W hx'A (fun h => by rw [hx'r] at h; cases h) hLx'
      have htm : E.tp (q x2.pos) = E.tmat x2.tmat := by rw [par.2.1]; rfl
      have hem : flatEm insts e t i = treeEm E e t (st (q x2.pos) k) := by
        rw [hi_eq, treeEm_st _ _ _ _ _ hk, flatEm_st e t hm k hk, par.1]
      have hle := fam_pos_le F hx'A
      have hch : q x'.pos ∈ E.lt.children (q x2.pos) := by rw [hpos]; exact W.chain x2.pos (by omega)
      rw [hem, h3, par'.2.2]
      exact PathTo.step hpth (mem_edges.2 (Or.inr (Or.inl ⟨q x2.pos, lt_of_child hch, children_nonleaf hch, q x'.pos, hch, k, cx,
        by rw [htm]; exact hkx, rfl, rfl, rfl⟩)))
    · -- to the next word
      simp only [Prod.mk.injEq] at heq
      obtain ⟨h1, h2, h3⟩ := heq
      obtain ⟨hhi, hka⟩ := st_inj hk (SSVerif.FlatNet.hmmExits_lt hkx) (hi_eq.symm.trans h1)
      subst hka; subst hhi
      have hxx : x2 = x := zipIdx_inj hm2 hm
      subst hxx
      obtain ⟨A', m', hx'A', F'⟩ := I.fam x' hi' hm'
      obtain ⟨q0, W0⟩ := F.wit R hRA hRr x2 hxA hl2 (fun h0 => by
        have hp0 : x2.pos = 0 := by rw [F.leafPos x2 hxA hl2, h0]
        exact hxR (F.posRoot x2 hxA hp0))
      have hpth := hall x2 hxA hl2 (fun _ => rfl) q0 W0
      have hpm : x2.pos = m := F.leafPos x2 hxA hl2
      rw [hpm] at hpth
      have htm : E.tp (q0 m) = E.tmat x2.tmat := by rw [W0.parL.2.1]; rfl
      have hem : flatEm insts e t i = treeEm E e t (st (q0 m) k) := by
        rw [hi_eq, treeEm_st _ _ _ _ _ hk, flatEm_st e t hm k hk, W0.parL.1]
      refine ⟨x', hi', 0, A', m', x', h2, by omega, hm', F', hx'A', hx'A', hr', fun _ => rfl, ?_⟩
      intro L' hL' hLl' hLx' q W'
      rw [F'.rootPos x' hx'A' hr', hem, h3, W'.parR.2.2]
      refine PathTo.step hpth (mem_edges.2 (Or.inr (Or.inr ⟨q0 m, lt_of_leaf W0.leaf, W0.leaf, x'.src, hop, ?_, q 0, W'.root, ?_, k, cx,
        by rw [htm]; exact hkx, rfl, rfl, rfl⟩)))
      · rw [W0.dst]; exact I.reach _ _ _ hh
      · refine admits_of (W'.lcbit _ (by rw [W0.ciL]; exact F.ciLt x2 hxA) (by rw [W0.ciL]; exact hlc)) ?_
        rw [W'.ciR]; exact W0.rcOK _ (F'.ciLt x' hx'A') hrc

/-- **every complete alignment of the flat network is one of the lextree network, with the same score** -/
theorem ralignment_sim {E : Env} {M : Model} {insts : Array Inst} (I : RIface E M insts) (e : Nat → Nat → Nat → Int) {T : Nat} {v : Int}
    (h : Alignment (buildFrom M E.tmat insts).toNet (flatEm insts e) T v) : Alignment (treeNet E) (treeEm E e) T v := by
  cases h with
  | @mk i c sc hp hx =>
    obtain ⟨x, hi, k, A, m, R, hi_eq, hk, hm, F, hxA, hRA, hRr, hxR, hall⟩ := rpath_sim I e hp
    obtain ⟨x2, hi2, hop, k2, cx, hm2, hl2, hh, hkx, heq⟩ := flat_exit_elim hx
    simp only [Prod.mk.injEq] at heq
    obtain ⟨h1, h2⟩ := heq
    obtain ⟨hhi, hka⟩ := st_inj hk (SSVerif.FlatNet.hmmExits_lt hkx) (hi_eq.symm.trans h1)
    subst hka; subst hhi
    have hxx : x2 = x := zipIdx_inj hm2 hm
    subst hxx
    obtain ⟨q0, W0⟩ := F.wit R hRA hRr x2 hxA hl2 (fun h0 => by
      have hp0 : x2.pos = 0 := by rw [F.leafPos x2 hxA hl2, h0]
      exact hxR (F.posRoot x2 hxA hp0))
    have hpth := hall x2 hxA hl2 (fun _ => rfl) q0 W0
    have hpm : x2.pos = m := F.leafPos x2 hxA hl2
    rw [hpm] at hpth
    have htm : E.tp (q0 m) = E.tmat x2.tmat := by rw [W0.parL.2.1]; rfl
    have hem : flatEm insts e (T - 1) i = treeEm E e (T - 1) (st (q0 m) k) := by
      rw [hi_eq, treeEm_st _ _ _ _ _ hk, flatEm_st e (T - 1) hm k hk, W0.parL.1]
    rw [hem, h2]
    refine Alignment.mk hpth (mem_exits.2 ⟨q0 m, lt_of_leaf W0.leaf, W0.leaf, hop, ?_, k, cx, by rw [htm]; exact hkx, rfl, rfl⟩)
    rw [W0.dst, I.final]; exact I.reach _ _ _ hh

/-- hence the optimum of the flat network is at most the optimum of the lextree network -/
theorem viterbi_flat_le_tree {E : Env} {M : Model} {insts : Array Inst} (I : RIface E M insts) (e : Nat → Nat → Nat → Int) (T : Nat) :
    ole (viterbi (buildFrom M E.tmat insts).toNet (flatEm insts e) T) (viterbi (treeNet E) (treeEm E e) T) := by
  cases hv : viterbi (buildFrom M E.tmat insts).toNet (flatEm insts e) T with
  | none => simp [ole]
  | some v => exact (viterbi_is_max _ _ T).1 v (ralignment_sim I e ((viterbi_is_max _ _ T).2 v hv))

theorem ole_antisymm {a b : Option Int} (h1 : ole a b) (h2 : ole b a) : a = b := by
  cases a <;> cases b <;> simp_all [ole]
  omega

end SSVerif.LexCover
